import HexProofs.Numeric.SeriesInputsBB
import HexProofs.Numeric.SeriesUtility
/-!
# STDEVTHRES over candle lists with foreign readings and a late-starting input

`engineCalc_thres` splits `calculate()` into two column passes: the STDEV helper `name_stdev`
(`stdev_node_rows`) and the own flag (`leafCalc_induct`), which reads the helper at the active index and
the input at the active and the previous index.  The flag is `False` on the first `t0 + p` candles and
afterwards EXACTLY `σ_stored · multiplier < |x_j − x_{j−1}|` on the stored σ of the inputs counted from
`t0` – the row predicate `ThOK` of `thres_series`, shifted by `t0`.
-/
set_option linter.unusedSectionVars false
set_option linter.unusedSimpArgs false
namespace Hex
namespace Numeric
variable {K : Type} [Field K] [LinearOrder K] [IsStrictOrderedRing K] [LawfulPyF K]

/-- name conditions of the input of a STDEVTHRES node: an ordinary key different from the node's names -/
structure ThInput (nm input : String) : Prop where
  key : IsKey input
  n0 : input ≠ nm
  nS : input ≠ nm ++ "_stdev"
  nD : input ≠ nm ++ "_stdev" ++ "_data"

/-- the three names of a STDEVTHRES node are absent from a candle -/
def ThAbsent (nm : String) (c : Candle K) : Prop :=
  (dlookup nm c.inds = none ∧ dlookup nm c.subs = none) ∧
  (dlookup (nm ++ "_stdev") c.inds = none ∧ dlookup (nm ++ "_stdev") c.subs = none) ∧
  (dlookup (nm ++ "_stdev" ++ "_data") c.inds = none ∧ dlookup (nm ++ "_stdev" ++ "_data") c.subs = none)

/-- what the run stores under the own name on candle `j`, given the stored helper reading -/
def ThOwnRow (p t0 : Nat) (mult : K) (xs : Nat → K) (sd : Nat → Val K) (j : Nat) (v : Val K) : Prop :=
  (j < t0 + p → v = .bool false) ∧
  (t0 + p ≤ j → ∃ ys, sd j = .flt ys ∧ v = .bool (decide (ys * mult < |xs (j - t0) - xs (j - t0 - 1)|)))

/-- **STDEVTHRES through the engine, row by row.** -/
theorem thres_inputs_rows (p : Nat) (hp : 1 ≤ p) (nm input : String) (mult : Num K) (n t0 : Nat)
    (cs : List (Candle K)) (r : Nat → Num K) (_hk : IsKey nm) (hn : ThresNames nm) (hi : ThInput nm input)
    (habs : ∀ c ∈ cs, ThAbsent nm c)
    (hnone : ∀ j, j < cs.length → j < t0 → readingByCandle (cs.getD j default) input = .none)
    (hnum : ∀ j, j < cs.length → t0 ≤ j → readingByCandle (cs.getD j default) input = .num (r (j - t0))) :
    ∃ (rows : List (Val K × Option (Val K))) (vs : List (Val K)),
      rows.length = cs.length ∧ vs.length = cs.length ∧
      engineCalc (mkTop (.stdevthres (p : Int) input mult : Kind K) nm n) cs
        = .ok (decoWith (keyOut false nm) (decoWith (sdOutB true (nm ++ "_stdev")) cs rows) vs) ∧
      ∀ j, j < cs.length →
        SdRowOK p defaultRound t0 (fun k => (r k).toF) j (rows.getD j (.none, none)) ∧
        ThOwnRow p t0 mult.toF (fun k => (r k).toF) (fun j => (rows.getD j (.none, none)).1) j (vs.getD j .none) := by
  -- pass 1: the STDEV helper
  obtain ⟨rows, hl1, hrun1, hall1⟩ := stdev_node_rows (thS (F := K) nm (p : Int) input) p hp
    (nm ++ "_stdev") input rfl t0 cs r hn.kS hn.sn hi.key hi.nS hi.nD
    (fun c hc => ⟨(habs c hc).2.1.1, (habs c hc).2.1.2, (habs c hc).2.2.1, (habs c hc).2.2.2⟩) hnone hnum
  have hrun1' : Gen.nodeCalc (specWith (thS (F := K) nm (p : Int) input) (thC nm (p : Int) input)) cs
      = .ok (decoWith (sdOutB true (nm ++ "_stdev")) cs rows) := hrun1
  generalize hc1 : decoWith (sdOutB true (nm ++ "_stdev")) cs rows = c₁ at hrun1'
  have hlen1 : c₁.length = cs.length := by rw [← hc1]; exact decoWith_length _ _ _ hl1
  have hget1 : ∀ j, j < cs.length →
      c₁.getD j default = sdOutB true (nm ++ "_stdev") (cs.getD j default) (rows.getD j (.none, none)) := by
    intro j hj; rw [← hc1]; exact decoWith_getD _ _ cs rows hl1 j hj
  have hin1 : ∀ j, j < cs.length → readingByCandle (c₁.getD j default) input = readingByCandle (cs.getD j default) input :=
    fun j hj => by rw [hget1 j hj, sdOutB_input true _ input hi.key hi.nS hi.nD]
  have habs0 : ∀ c ∈ c₁, dlookup nm c.inds = none ∧ dlookup nm c.subs = none := by
    rw [← hc1]
    refine decoWith_mem _ cs rows hl1 _ (fun c hc ρ => ?_)
    rw [(sdOutB_frame true _ nm (Ne.symm hn.nS) (Ne.symm hn.nD) c ρ).1,
      (sdOutB_frame true _ nm (Ne.symm hn.nS) (Ne.symm hn.nD) c ρ).2]
    exact (habs c hc).1
  -- pass 2: the own flag, over the output of pass 1
  obtain ⟨vs, hl2, hrun2, hall2⟩ := leafCalc_induct (thP (F := K) nm n (p : Int) input mult) c₁
    (by rw [thP_name]; exact habs0)
    (fun j v => ThOwnRow p t0 mult.toF (fun k => (r k).toF) (fun j => (rows.getD j (.none, none)).1) j v)
    (by
      intro m hm vs hvs _
      rw [hlen1] at hm
      have hname : (thP (F := K) nm n (p : Int) input mult).name = nm := thP_name _ _ _ _ _
      have hsub : (thP (F := K) nm n (p : Int) input mult).isSub = false := rfl
      have hround : (thP (F := K) nm n (p : Int) input mult).round = n := rfl
      have hkind : (thP (F := K) nm n (p : Int) input mult).kind = .stdevthres (p : Int) input mult := mkTop_kind _ _ _
      rw [hname, hsub, hround, hkind]
      show ∃ v, Calc.stdevthres { cs := midW (keyOut false nm) c₁ vs m, i := m, name := nm } input mult = .ok v ∧ _
      have hrS : ({ cs := midW (keyOut false nm) c₁ vs m, i := m, name := nm } : Ctx K).reading (nm ++ "_stdev")
          = .ok (rows.getD m (.none, none)).1 := by
        rw [midW_reading_cur (keyOut false nm) c₁ vs m (by omega) hvs nm, hget1 m hm,
          sdOutB_own true _ hn.kS _ (habs _ (getD_mem' cs m hm)).2.1.1]
      have h1 := hall1 m hm
      by_cases hw : m < t0 + p
      · -- the STDEV helper has no value yet
        have hsn : (rows.getD m (.none, none)).1 = .none := by
          by_cases hlt : m < t0
          · rw [h1.1 hlt]
          · rw [h1.2 (by omega)]
            exact (stdevOK_mk p defaultRound hp _ (m - t0)).2.1 (by omega)
        rw [hsn] at hrS
        exact ⟨_, stdevthres_none _ input mult hrS, fun _ => rfl, fun h => by omega⟩
      · obtain ⟨ys, hys', _, _⟩ := (stdevOK_mk p defaultRound hp (fun k => (r k).toF) (m - t0)).2.2 (by omega)
        have hys : (rows.getD m (.none, none)).1 = .flt ys := by rw [h1.2 (by omega)]; exact hys'
        have hrC : ({ cs := midW (keyOut false nm) c₁ vs m, i := m, name := nm } : Ctx K).reading input
            = .ok (.num (r (m - t0))) := by
          rw [midW_reading_cur (keyOut false nm) c₁ vs m (by omega) hvs nm, hin1 m hm, hnum m hm (by omega)]
        have hrP : ({ cs := midW (keyOut false nm) c₁ vs m, i := m, name := nm } : Ctx K).prevReading input
            = .ok (.num (r (m - t0 - 1))) := by
          rw [midW_prevReading (keyOut false nm) .none c₁ vs m (by omega) hvs nm input, if_neg (by omega),
            indep_key (F := K) nm input hi.key (Ne.symm hi.n0), hin1 (m - 1) (by omega),
            hnum (m - 1) (by omega) (by omega), show m - 1 - t0 = m - t0 - 1 by omega]
        have hP := stdevthres_def _ input mult (.flt ys) _ _ (hrS.trans (congrArg Except.ok hys)) hrC hrP
        exact ⟨_, hP, fun h => by omega, fun _ => ⟨ys, hys, rfl⟩⟩)
  rw [hlen1] at hl2
  refine ⟨rows, vs, hl1, hl2, ?_, fun j hj => ⟨hall1 j hj, hall2 j (by omega)⟩⟩
  have e := engineCalc_thres (F := K) nm n (p : Int) input mult cs
  show engineCalc (thP (F := K) nm n (p : Int) input mult) cs = _
  rw [e, hrun1']
  simp only [bind, Except.bind]
  rw [hrun2, hc1]
  rfl

/-- STDEVTHRES over a late-starting foreign input: the shape of `C05_inputs_FULL` with the row predicate
`ThOK` of `thres_series` (σ stored to 4 decimals, the flag EXACT on the stored σ) -/
def C05ThresStatement : Prop :=
  ∀ (K : Type) [Field K] [LinearOrder K] [IsStrictOrderedRing K] [LawfulPyF K]
    (p : Nat) (nm input : String) (mult : Num K) (n t0 : Nat) (cs : List (Candle K)) (x : Nat → K),
    1 ≤ p → IsKey nm → ThresNames nm → ThInput nm input →
    (∀ c ∈ cs, ThAbsent nm c) →
    (∀ j, j < cs.length →
      (match readingByCandle (cs.getD j default) input with
        | .s (.num r) => some r.toF
        | _ => none) = if j < t0 then none else some (x (j - t0))) →
    (∀ j, j < cs.length → j < t0 → readingByCandle (cs.getD j default) input = .none) →
    ∃ out : List (Candle K),
      engineCalc (mkTop (.stdevthres (p : Int) input mult : Kind K) nm n) cs = .ok out ∧
      out.length = cs.length ∧
      ∀ j, j < cs.length →
        (j < t0 → readingByCandle (out.getD j default) nm = .bool false) ∧
        (t0 ≤ j → ∃ dv, ThOK p mult.toF x (j - t0)
          ⟨readingByCandle (out.getD j default) (nm ++ "_stdev"), dv, readingByCandle (out.getD j default) nm⟩)

/-- **C05 for STDEVTHRES, every candle list, an input that is another indicator's reading, every start
`t0`**: the engine never raises; the flag is `False` on the first `t0 + p` candles and afterwards exactly
`σ_stored·multiplier < |x_j − x_{j−1}|` with `σ_stored = round₄(σ)` of the last `p` inputs (`ThOK`, hence
`ThOK.sigma`, `ThOK.exact_sides`, `ThOK.agree` … at the index counted from `t0`). -/
theorem c05_thres : C05ThresStatement := by
  intro K _ _ _ _ p nm input mult n t0 cs x hp hk hn hi habs hin hnone
  obtain ⟨r, hr, hnum⟩ := input_col cs input t0 x hin
  have hx : (fun k => (r k).toF) = x := funext hr
  obtain ⟨rows, vs, hl1, hl2, hrun, hall⟩ := thres_inputs_rows p hp nm input mult n t0 cs r hk hn hi habs hnone hnum
  have hl2' : vs.length = (decoWith (sdOutB true (nm ++ "_stdev")) cs rows).length := by
    rw [decoWith_length _ _ _ hl1]; exact hl2
  refine ⟨_, hrun, by rw [decoWith_length _ _ _ hl2', decoWith_length _ _ _ hl1], ?_⟩
  intro j hj
  have hcj : (decoWith (keyOut false nm) (decoWith (sdOutB true (nm ++ "_stdev")) cs rows) vs).getD j default
      = setKey false nm (vs.getD j .none)
          (sdOutB true (nm ++ "_stdev") (cs.getD j default) (rows.getD j (.none, none))) := by
    rw [decoWith_getD (keyOut false nm) .none _ vs hl2' j (by rw [← hl2', hl2]; exact hj),
      decoWith_getD _ (.none, none) cs rows hl1 j hj]
  have hown : readingByCandle ((decoWith (keyOut false nm) (decoWith (sdOutB true (nm ++ "_stdev")) cs rows) vs).getD j default) nm
      = vs.getD j .none := by rw [hcj, rbc_setKey_own nm hk]
  have hsd : readingByCandle ((decoWith (keyOut false nm) (decoWith (sdOutB true (nm ++ "_stdev")) cs rows) vs).getD j default)
      (nm ++ "_stdev") = (rows.getD j (.none, none)).1 := by
    rw [hcj, indep_key (F := K) nm (nm ++ "_stdev") hn.kS hn.nS,
      sdOutB_own true _ hn.kS _ (habs _ (getD_mem' cs j hj)).2.1.1]
  obtain ⟨h1, h2⟩ := hall j hj
  rw [hown, hsd]
  constructor
  · intro hjt
    exact h2.1 (by omega)
  · intro hjt
    rw [← hx]
    refine ⟨stdData (runMean p (fun k => (r k).toF) (j - t0)) (runVar p (fun k => (r k).toF) (j - t0)), ?_,
      fun hlt => h2.1 (by omega), fun hge => h2.2 (by omega)⟩
    show StdevOK p defaultRound _ (j - t0) ((rows.getD j (.none, none)).1, _)
    rw [h1.2 hjt]
    exact stdevOK_mk p defaultRound hp _ _

/-! #### non-vacuity -/

theorem thresNames_demo2 : ThresNames "TH_2" :=
  ⟨by decide, ⟨by decide, by decide, by decide⟩, by decide, by decide⟩

example : ∃ out : List (Candle ℚ),
    engineCalc (mkTop (.stdevthres ((2 : Nat) : Int) "EMA_2" (fl 1) : Kind ℚ) "TH_2" 4) demoForeign = .ok out ∧
    out.length = demoForeign.length ∧
    ∀ j, j < demoForeign.length →
      (j < 2 → readingByCandle (out.getD j default) "TH_2" = .bool false) ∧
      (2 ≤ j → ∃ dv, ThOK 2 (fl 1 : Num ℚ).toF demoX (j - 2)
        ⟨readingByCandle (out.getD j default) ("TH_2" ++ "_stdev"), dv, readingByCandle (out.getD j default) "TH_2"⟩) :=
  c05_thres ℚ 2 "TH_2" "EMA_2" (fl 1) 4 2 demoForeign demoX (by norm_num) (by decide) thresNames_demo2
    ⟨by decide, by decide, by decide, by decide⟩
    (by
      intro c hc
      exact ⟨demoForeign_abs "TH_2" (by decide) (by decide) (by decide) c hc,
        demoForeign_abs "TH_2_stdev" (by decide) (by decide) (by decide) c hc,
        demoForeign_abs "TH_2_stdev_data" (by decide) (by decide) (by decide) c hc⟩)
    demoForeign_in demoForeign_none

/-- the toy carrier: the run returns (`decide`) -/
example : ((engineCalc (mkTop (.stdevthres 1 "EMA_2" (.int 1)) "TH_1" 4)
    ([{ o := .int 10, h := .int 12, l := .int 9, c := .int 11, v := .int 100 },
      { o := .int 11, h := .int 13, l := .int 10, c := .int 12, v := .int 200, inds := [("EMA_2", .none)] },
      { o := .int 12, h := .int 15, l := .int 11, c := .int 14, v := .int 300, inds := [("EMA_2", .int 12)] },
      { o := .int 14, h := .int 16, l := .int 13, c := .int 15, v := .int 0, inds := [("EMA_2", .int 14)] }]
      : List (Candle Int))).toOption.map List.length) = some 4 := by
  decide +kernel

end Numeric
end Hex

#print axioms Hex.Numeric.thres_inputs_rows
#print axioms Hex.Numeric.c05_thres

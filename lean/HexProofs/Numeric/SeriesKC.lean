import HexProofs.Framework.Gen.KC
import HexProofs.Numeric.SeriesATR
import HexProofs.Numeric.SeriesRSI
import HexProofs.Numeric.Channel
/-!
# Keltner Channel: the whole series (closes the KC item of `C05_FULL`)

`kcTree name round p input mult` (HexProofs/Framework/Gen/KC.lean) is the `TreeSpec` of a KC node:
prior ATR helper `name_ATR` (itself with a prior TR helper `name_ATR_TR`), prior EMA helper
`name_EMA` (smoothing `2.0`), read-only own reading.  Its row step runs, on every candle, TR, ATR,
EMA, own – in that order, each reading stored (rounded) before the next piece runs (`kc_rowStep`).
This file proves, for EVERY raw candle list, what the row-major run – and hence the engine's
`calculate()`, the batch run and every append schedule (`TreeSpec.engine`, `batch_iff`,
`live_refines`) – stores on every candle.

Facts of the library / model reflected in the statements (read off `HexModel/Ind/*.lean` and
`children` in `HexModel/Core/Eval.lean`):
* all three helpers are rounded by the engine to `defaultRound = 4` decimals (TR: ints stay ints),
  the own dict to the node's `round`;
* TR is `None` on candle 0; hence ATR is `None` on candles `0 … p−1` and first holds on candle `p`
  (mean of the stored `TR₁ … TR_p`), then Wilder's recurrence on the STORED predecessor;
* EMA (`reading_period(p, input)`) first holds on candle `p − 1` (mean of the first `p` inputs), then
  `α·x + (1−α)·prev` on the stored predecessor, `α = 2/(p+1)`;
* the own reading is never `None`: it is the dict `{lower: None, band: None, upper: None}` while a
  helper has no reading, i.e. on candles `0 … p−1` (on candle `p−1` the EMA already has one), and
  from candle `p` on `{lower: rnd(E − m·A), band: rnd(E), upper: rnd(E + m·A)}` computed from the
  STORED helper readings `E`, `A`.

* textbook series: `emaExact` / `emaSeries`, `atrExact` (SeriesATR), `kcSeries : ℕ → Option (K × K × K)`;
* predicates: `KcOK` (the four stored readings of one candle), `KcOwnOK` (own dict vs `kcSeries`),
  `KcSeriesOK` (a finished candle list, reading by reading);
* rounding budget (no growth: both recurrences contract): stored EMA within `ε₄/α`, stored ATR within
  `p·ε₄` of Wilder's average of the stored true ranges (`+ ε₄` against the exact true ranges: the TR
  helper's readings are themselves rounded), hence
  `|band − EMA| ≤ ε_n + ε₄/α`, `|lower/upper − (EMA ∓ m·ATR)| ≤ ε_n + ε₄/α + |m|·p·ε₄` (`+ |m|·ε₄`);
  `lower ≤ band ≤ upper` for `m ≥ 0` (monotone rounding, ATR ≥ 0);
* theorems: `kc_step` (one row, from `tr_stepCtx` / `atr_stepCtx` / `ema_stepCtx` / `kc_def`),
  `kc_series` (induction along `Gen.rowMajor`), `kc_series_readings`, `kc_engine`, `kc_batch`,
  `kc_batch_readings`, `kc_live`.
* hypothesis `2 ≤ p`: as in `C04.ema_series` (the seed-window lemma `ema_seed_window` needs an
  active index `≥ 1`); `kcTree` itself exists for `p ≥ 1`.
-/
set_option linter.unusedSectionVars false
set_option linter.unusedSimpArgs false
namespace Hex
namespace Numeric
variable {K : Type} [Field K] [LinearOrder K] [IsStrictOrderedRing K] [LawfulPyF K]

/-- what the four pieces of a KC tree store on one candle -/
structure KcRow (K : Type) where
  tr : Val K
  atr : Val K
  ema : Val K
  own : Val K

def KcRow.dflt : KcRow K := ⟨.none, .none, .none, .none⟩

/-- a finished KC candle -/
def kcOut (nm : String) (c : Candle K) (r : KcRow K) : Candle K :=
  setKey false nm r.own (setKey true (nm ++ "_EMA") r.ema
    (setKey true (nm ++ "_ATR") r.atr (setKey true (nm ++ "_ATR" ++ "_TR") r.tr c)))

/-- the row step of `kcTree`: TR helper, ATR helper, EMA helper, own reading – in that order, each
stored (rounded) before the next one runs -/
theorem kc_rowStep (nm : String) (n : Nat) (p : Int) (input : String) (mult : Num K) (hp : 1 ≤ p)
    (hn : KcNames nm) (hin : NoDot input ∧ input ∈ Candle.attrNames) (done : List (Candle K)) (c : Candle K) :
    Gen.rowStep (kcTree (F := K) nm n p input mult hp hn hin).S done c = (do
      let t ← valOf (kcT nm) done c
      let a ← valOf (kcA nm p) done (decOf (kcT nm) t c)
      let e ← valOf (kcE nm p input) done (decOf (kcA nm p) a (decOf (kcT nm) t c))
      let o ← valOf (kcP nm n p input mult) done
        (decOf (kcE nm p input) e (decOf (kcA nm p) a (decOf (kcT nm) t c)))
      pure (done ++ [decOf (kcP nm n p input mult) o
        (decOf (kcE nm p input) e (decOf (kcA nm p) a (decOf (kcT nm) t c)))])) := by
  show Gen.rowStep (TComp.spec (kcComp nm n p input mult hp hn hin) _) done c = _
  rw [TComp.rowStep_spec]
  show (do
      let z ← (do
        let x ← (do
          let t ← valOf (kcT nm) done c
          let a ← valOf (kcA nm p) done (decOf (kcT nm) t c)
          pure (t, a))
        let q ← (do
          let e ← valOf (kcE nm p input) done (decOf (kcA nm p) x.2 (decOf (kcT nm) x.1 c))
          let o ← valOf (kcP nm n p input mult) done
            (decOf (kcE nm p input) e (decOf (kcA nm p) x.2 (decOf (kcT nm) x.1 c)))
          pure (e, o))
        pure (x, q))
      pure (done ++ [decOf (kcP nm n p input mult) z.2.2
        (decOf (kcE nm p input) z.2.1 (decOf (kcA nm p) z.1.2 (decOf (kcT nm) z.1.1 c)))])) = _
  cases valOf (kcT nm) done c with
  | error e => rfl
  | ok t =>
    simp only [pym_bind_ok]
    cases valOf (kcA nm p) done (decOf (kcT nm) t c) with
    | error e => rfl
    | ok a =>
      simp only [pym_bind_ok, pym_pure]
      cases valOf (kcE nm p input) done (decOf (kcA nm p) a (decOf (kcT nm) t c)) with
      | error e => rfl
      | ok e =>
        simp only [pym_bind_ok]
        cases valOf (kcP nm n p input mult) done
            (decOf (kcE nm p input) e (decOf (kcA nm p) a (decOf (kcT nm) t c))) with
        | error e => rfl
        | ok o => rfl

/-! ### columns of candle lists, element by element -/

theorem col_eq_of_getElem? (key : String) (A B : List (Candle K)) (hl : A.length = B.length)
    (h : ∀ (j : Nat) (a b : Candle K), A[j]? = some a → B[j]? = some b →
      readingByCandle a key = readingByCandle b key) : col key A = col key B := by
  unfold col
  apply List.ext_getElem?
  intro j
  rw [List.getElem?_map, List.getElem?_map]
  by_cases hj : j < A.length
  · rw [List.getElem?_eq_getElem hj, List.getElem?_eq_getElem (by omega)]
    simp only [Option.map_some, Option.some.injEq]
    exact h j _ _ (List.getElem?_eq_getElem hj) (List.getElem?_eq_getElem (by omega))
  · rw [List.getElem?_eq_none (by omega), List.getElem?_eq_none (by omega)]

/-- a context `done ++ [c]` at `done.length = m` and a context `y` at `m` see the same column -/
theorem sameCol_of_elems (key n1 : String) (done : List (Candle K)) (y : Ctx K) (c : Candle K) (m : Nat)
    (hd : done.length = m) (hi : y.i = m) (hB : y.cs.length = m + 1)
    (hlt : ∀ (j : Nat) (a b : Candle K), j < m → done[j]? = some a → y.cs[j]? = some b →
      readingByCandle a key = readingByCandle b key)
    (heq : ∀ b, y.cs[m]? = some b → readingByCandle c key = readingByCandle b key) :
    Ctx.SameCol key ({ cs := done ++ [c], i := done.length, name := n1 } : Ctx K) y := by
  refine ⟨by simp [hd, hi], ?_⟩
  apply col_eq_of_getElem? key _ _ (by simp [hd, hB])
  intro j a b ha hb
  by_cases hj : j < m
  · rw [List.getElem?_append_left (by omega)] at ha
    exact hlt j a b hj ha hb
  · have hjm : j = m := by
      by_contra hne
      rw [List.getElem?_eq_none (by simp [hd]; omega)] at ha
      cases ha
    subst hjm
    rw [List.getElem?_append_right (by omega)] at ha
    simp [hd] at ha
    subst ha
    exact heq b hb

/-! ### reading the (partly) finished candles -/

section out
variable (nm : String)

theorem kcOut_bare (c : Candle K) (r : KcRow K) : (kcOut nm c r).bare = c.bare := by
  unfold kcOut
  rw [bare_setKey, bare_setKey, bare_setKey, bare_setKey]

theorem kcOut_input (input : String) (hin : NoDot input ∧ input ∈ Candle.attrNames) (c : Candle K)
    (r : KcRow K) : readingByCandle (kcOut nm c r) input = readingByCandle c input :=
  readingByCandle_attr_bare input hin.1 hin.2 _ _ (kcOut_bare nm c r)

theorem kcOut_own (hk : IsKey nm) (c : Candle K) (r : KcRow K) :
    readingByCandle (kcOut nm c r) nm = r.own := readingByCandle_setKey_own nm hk _ _

theorem kcOut_ema (hn : KcNames nm) (c : Candle K) (hc : Plain c) (r : KcRow K) :
    readingByCandle (kcOut nm c r) (nm ++ "_EMA") = r.ema := by
  rw [readingByCandle_key _ hn.kE]
  obtain ⟨hi, hs⟩ := hc
  simp [kcOut, lookupKey, setKey, hi, hs, dset, dlookup, hn.nA, hn.nT, hn.nE, hn.AT, hn.AE, hn.TE, hn.nA.symm, hn.nT.symm, hn.nE.symm, hn.AT.symm, hn.AE.symm, hn.TE.symm]

theorem kcOut_atr (hn : KcNames nm) (c : Candle K) (hc : Plain c) (r : KcRow K) :
    readingByCandle (kcOut nm c r) (nm ++ "_ATR") = r.atr := by
  rw [readingByCandle_key _ hn.kA]
  obtain ⟨hi, hs⟩ := hc
  simp [kcOut, lookupKey, setKey, hi, hs, dset, dlookup, hn.nA, hn.nT, hn.nE, hn.AT, hn.AE, hn.TE, hn.nA.symm, hn.nT.symm, hn.nE.symm, hn.AT.symm, hn.AE.symm, hn.TE.symm]

theorem kcOut_tr (hn : KcNames nm) (c : Candle K) (hc : Plain c) (r : KcRow K) :
    readingByCandle (kcOut nm c r) (nm ++ "_ATR" ++ "_TR") = r.tr := by
  rw [readingByCandle_key _ hn.kT]
  obtain ⟨hi, hs⟩ := hc
  simp [kcOut, lookupKey, setKey, hi, hs, dset, dlookup, hn.nA, hn.nT, hn.nE, hn.AT, hn.AE, hn.TE, hn.nA.symm, hn.nT.symm, hn.nE.symm, hn.AT.symm, hn.AE.symm, hn.TE.symm]

theorem kcMid_ema (hn : KcNames nm) (c : Candle K) (hc : Plain c) (t a e : Val K) :
    readingByCandle (setKey true (nm ++ "_EMA") e (setKey true (nm ++ "_ATR") a
      (setKey true (nm ++ "_ATR" ++ "_TR") t c))) (nm ++ "_EMA") = e := by
  rw [readingByCandle_key _ hn.kE]
  obtain ⟨hi, hs⟩ := hc
  simp [lookupKey, setKey, hi, hs, dset, dlookup, hn.nA, hn.nT, hn.nE, hn.AT, hn.AE, hn.TE, hn.nA.symm, hn.nT.symm, hn.nE.symm, hn.AT.symm, hn.AE.symm, hn.TE.symm]

theorem kcMid_atr (hn : KcNames nm) (c : Candle K) (hc : Plain c) (t a e : Val K) :
    readingByCandle (setKey true (nm ++ "_EMA") e (setKey true (nm ++ "_ATR") a
      (setKey true (nm ++ "_ATR" ++ "_TR") t c))) (nm ++ "_ATR") = a := by
  rw [readingByCandle_key _ hn.kA]
  obtain ⟨hi, hs⟩ := hc
  simp [lookupKey, setKey, hi, hs, dset, dlookup, hn.nA, hn.nT, hn.nE, hn.AT, hn.AE, hn.TE, hn.nA.symm, hn.nT.symm, hn.nE.symm, hn.AT.symm, hn.AE.symm, hn.TE.symm]

end out

/-! ### the textbook series -/

/-- the smoothing factor of the EMA helper (`smoothing = 2.0`): `α = 2/(p+1)` -/
def kcAlpha (K : Type) [Field K] (p : Nat) : K := 2 / ((p : K) + 1)

theorem kcAlpha_pos (p : Nat) : (0 : K) < kcAlpha K p := by unfold kcAlpha; positivity

theorem kcAlpha_le_one (p : Nat) (hp : 1 ≤ p) : kcAlpha K p ≤ 1 := by
  unfold kcAlpha
  have h1 : (1 : K) ≤ (p : K) := by exact_mod_cast hp
  rw [div_le_one (by positivity)]
  linarith

/-- **the textbook EMA** of the inputs `x`: the mean of `x 0 … x (p−1)` at index `p − 1`, then
`EMA_j = α·x_j + (1 − α)·EMA_{j−1}`, `α = 2/(p+1)` -/
def emaExact (p : Nat) (x : Nat → K) : Nat → K :=
  recExact (kcAlpha K p) (winMean x p (p - 1)) x p

/-- the textbook EMA series with its warm-up (first value at index `p − 1`) -/
def emaSeries (p : Nat) (x : Nat → K) (j : Nat) : Option K :=
  if j + 1 < p then none else some (emaExact p x j)

/-- **the textbook Keltner channel** `(lower, middle, upper) = (EMA − m·ATR, EMA, EMA + m·ATR)`
of the inputs `x` and true ranges `tr` (`tr j` = true range of candle `j ≥ 1`); first value at
index `p` (ATR's warm-up; the EMA alone starts at `p − 1`) -/
def kcSeries (p : Nat) (mult : K) (x tr : Nat → K) (j : Nat) : Option (K × K × K) :=
  if j < p then none
  else some (emaExact p x j - mult * atrExact p tr j, emaExact p x j, emaExact p x j + mult * atrExact p tr j)

/-! ### what is stored -/

/-- the three-`None` dict KC returns while a helper has no reading -/
def kcNoneDict : Val K := .dict [("lower", .none), ("band", .none), ("upper", .none)]

/-- the (rounded) dict KC stores from the STORED helper readings `e` (EMA) and `a` (ATR) -/
def kcBands (mult : Num K) (n : Nat) : Val K → Val K → Val K
  | .s (.num (.flt e)), .s (.num (.flt a)) =>
    .dict [("lower", .num (.flt (PyF.round n (e - mult.toF * a)))), ("band", .num (.flt (PyF.round n e))),
           ("upper", .num (.flt (PyF.round n (e + mult.toF * a))))]
  | _, _ => kcNoneDict

/-- what the whole-series theorem says of candle `j` of a KC tree with period `p`, rounding `n`,
multiplier `mult`, input series `x`:
* `name_ATR_TR`: the stored true range (`trStored`: `None` on candle 0, else rounded to 4 decimals);
* `name_ATR`: `AtrOK` – `None` while `j < p`, then a non-negative float within `p·ε₄` of Wilder's
  average `atrExact` of the stored true ranges;
* `name_EMA`: `RecOK` – `None` while `j + 1 < p`, then a float within `ε₄/α` of `emaExact`;
* own: `kcBands` of the two stored helper readings. -/
def KcOK (p n : Nat) (mult : Num K) (x : Nat → K) (raw : List (Candle K)) (j : Nat) (r : KcRow K) : Prop :=
  r.tr = trStored raw j ∧
  AtrOK p defaultRound (trS raw) j r.atr ∧
  RecOK p defaultRound (kcAlpha K p) (emaExact p x) j r.ema ∧
  r.own = kcBands mult n r.ema r.atr

/-! ### one EMA call inside the series (the step of `ema_series`, for the helper) -/

theorem ema_stepCtx (p : Nat) (hp : 2 ≤ p) (nm input : String) (fld : Candle K → Num K) (n : Nat)
    (hk : IsKey nm) (hd : NoDot input) (hattr : ∀ c : Candle K, c.attr input = some (.num (fld c)))
    (raw : List (Candle K)) (hraw : ∀ c ∈ raw, Plain c) (vs : List (Val K)) (m : Nat)
    (hm : m < raw.length) (hvs : vs.length = m)
    (hQ : ∀ j, j < m → RecOK p n (kcAlpha K p) (emaExact p (fieldAt fld raw)) j (vs.getD j .none)) :
    ∃ v, Calc.ema (stepCtx nm raw vs m) p input (fl 2) = .ok v ∧
      RecOK p n (kcAlpha K p) (emaExact p (fieldAt fld raw)) m (v.roundBy n) := by
  have ha0 := kcAlpha_pos (K := K) p
  have ha1 := kcAlpha_le_one (K := K) p (by omega)
  have hs2 : (fl 2 : Num K).toF / (((p : Int) : K) + 1) = kcAlpha K p := by
    unfold kcAlpha; simp
  have hp1 : ((p : Int) : K) + 1 ≠ 0 := by
    have : (0 : K) < (p : K) + 1 := by positivity
    simpa using this.ne'
  have hprev := stepCtx_prev nm raw vs m hm hvs hk hraw
  have hper := stepCtx_period nm input fld raw vs m hm hvs hd hattr p (by omega)
  have hcur := stepCtx_field_cur nm input fld raw vs m hm hvs hd hattr
  by_cases h1 : m + 1 < p
  · have hpn : (stepCtx nm raw vs m).prevReading (stepCtx nm raw vs m).name = .ok .none := by
      show (stepCtx nm raw vs m).prevReading nm = _
      rw [hprev]
      by_cases h0 : m = 0
      · simp [h0]
      · simp only [h0, if_false]
        rw [(hQ (m - 1) (by omega)).1 (by omega)]
    have hrp : (stepCtx nm raw vs m).readingPeriod p input = false := by
      rw [hper]; simp; omega
    exact ⟨.none, ema_none _ p input _ hpn hrp, fun _ => rfl, fun h => by omega⟩
  · by_cases h2 : m + 1 = p
    · have hpn : (stepCtx nm raw vs m).prevReading (stepCtx nm raw vs m).name = .ok .none := by
        show (stepCtx nm raw vs m).prevReading nm = _
        rw [hprev]
        have h0 : m ≠ 0 := by omega
        simp only [h0, if_false]
        rw [(hQ (m - 1) (by omega)).1 (by omega)]
      have hrp : (stepCtx nm raw vs m).readingPeriod p input = true := by
        rw [hper]; simp; omega
      have hwin := ema_seed_window (stepCtx nm raw vs m) p input (fl 2) (fun j => fld (raw.getD (m + 1 - p + j) default))
        hpn hrp (by omega) (by show (p : Int) ≤ (m : Int) + 1; omega) (by show (1 : Int) ≤ (m : Int); omega)
        (by
          intro j hj
          have e : (stepCtx nm raw vs m).i + 1 - (p : Int) + (j : Int) = ((m + 1 - p + j : Nat) : Int) := by
            show (m : Int) + 1 - (p : Int) + (j : Int) = _; omega
          rw [e]
          exact stepCtx_field nm input fld raw vs m hm hvs hd hattr _ (by omega))
      refine ⟨_, hwin, fun h => by omega, fun _ => ⟨_, rfl, ?_⟩⟩
      unfold emaExact
      rw [recExact_seed _ _ _ _ _ (by omega)]
      have hm1 : m = p - 1 := by omega
      have : rsum p (fun j => (fld (raw.getD (m + 1 - p + j) default)).toF) / (p : K)
          = winMean (fieldAt fld raw) p (p - 1) := by
        unfold winMean fieldAt; rw [hm1]
      rw [this]
      exact le_trans (LawfulPyF.round_err n _) (eps_le_div n _ ha0 ha1)
    · have h3 : p ≤ m := by omega
      obtain ⟨yp, hyp, hbound⟩ := (hQ (m - 1) (by omega)).2 (by omega)
      have hpn : (stepCtx nm raw vs m).prevReading (stepCtx nm raw vs m).name = .ok (.flt yp) := by
        show (stepCtx nm raw vs m).prevReading nm = _
        rw [hprev]
        have h0 : m ≠ 0 := by omega
        simp only [h0, if_false, hyp]
      refine ⟨_, ema_rec _ p input (fl 2) (.flt yp) _ hpn hcur hp1, fun h => by omega, fun _ => ⟨_, rfl, ?_⟩⟩
      unfold emaExact at hbound ⊢
      rw [recExact_step _ _ _ _ _ h3 (by omega)]
      have hb := ema_error_budget n (kcAlpha K p) (fieldAt fld raw m) yp _ ha0 ha1 hbound
      rw [hs2]
      simp only [Num.toF_flt]
      rw [mul_comm yp]
      exact hb

/-! ### the own reading from the stored helper readings -/

theorem kcBands_none_right (mult : Num K) (n : Nat) (e : Val K) : kcBands mult n e .none = kcNoneDict := by
  unfold kcBands
  split <;> first | rfl | simp_all

theorem kcBands_none_left (mult : Num K) (n : Nat) (a : Val K) : kcBands mult n .none a = kcNoneDict := by
  unfold kcBands
  split <;> first | rfl | simp_all

theorem kcBands_flt (mult : Num K) (n : Nat) (e a : K) :
    (Val.dict [("lower", .num ((Num.flt e).sub (mult.mul (.flt a)))), ("band", .num (.flt e)),
        ("upper", .num ((Num.flt e).add (mult.mul (.flt a))))] : Val K).roundBy n
      = kcBands mult n (.flt e) (.flt a) := by
  cases mult <;>
    simp [Val.roundBy, Scalar.roundBy, Num.roundBy, kcBands, Num.mul, Num.sub, Num.add, Num.toF,
      LawfulPyF.mul_eq, LawfulPyF.sub_eq, LawfulPyF.add_eq, LawfulPyF.ofInt_eq]

theorem decoWith_bare {R : Type} (out : Candle K → R → Candle K) (hb : ∀ c r, (out c r).bare = c.bare) :
    ∀ (raw : List (Candle K)) (rows : List R), rows.length = raw.length →
      (decoWith out raw rows).map Candle.bare = raw.map Candle.bare := by
  intro raw
  induction raw with
  | nil => intro rows _; simp [decoWith]
  | cons c raw ih =>
    intro rows hl
    cases rows with
    | nil => simp at hl
    | cons r rows =>
      have := ih rows (by simpa using hl)
      simp only [decoWith, List.zipWith_cons_cons, List.map_cons, hb] at this ⊢
      rw [this]

theorem getD_map_of_lt {R : Type} (f : R → Val K) (rows : List R) (d : R) (j : Nat) (hj : j < rows.length) :
    (rows.map f).getD j .none = f (rows.getD j d) := by
  rw [List.getD_eq_getElem?_getD, List.getD_eq_getElem?_getD, List.getElem?_map,
    List.getElem?_eq_getElem hj]
  rfl

/-! ### one row of the KC tree inside the series -/

theorem kc_step (p : Nat) (hp : 2 ≤ p) (nm input : String) (fld : Candle K → Num K) (n : Nat) (mult : Num K)
    (hn : KcNames nm) (hin : NoDot input ∧ input ∈ Candle.attrNames)
    (hattr : ∀ c : Candle K, c.attr input = some (.num (fld c)))
    (raw : List (Candle K)) (hraw : ∀ c ∈ raw, Plain c)
    (m : Nat) (hm : m < raw.length) (rows : List (KcRow K)) (hrows : rows.length = m)
    (hQ : ∀ j, j < m → KcOK p n mult (fieldAt fld raw) raw j (rows.getD j KcRow.dflt)) :
    ∃ r, Gen.rowStep (kcTree (F := K) nm n (p : Int) input mult (by omega) hn hin).S
          (decoWith (kcOut nm) (raw.take m) rows) (raw.getD m default)
        = .ok (decoWith (kcOut nm) (raw.take m) rows ++ [kcOut nm (raw.getD m default) r]) ∧
      KcOK p n mult (fieldAt fld raw) raw m r := by
  have htl : (raw.take m).length = m := by simp; omega
  have hdl : (decoWith (kcOut nm) (raw.take m) rows).length = m := by
    rw [decoWith_length _ _ _ (by rw [htl, hrows]), htl]
  have hmem : ∀ j, j < raw.length → Plain (raw.getD j default) := fun j hj => getD_plain raw hraw j hj
  have hget : ∀ j, j < m → (decoWith (kcOut nm) (raw.take m) rows)[j]?
      = some (kcOut nm (raw.getD j default) (rows.getD j KcRow.dflt)) := by
    intro j hj
    rw [decoWith_getElem? _ _ _ KcRow.dflt j (by rw [htl, hrows]) (by rw [htl]; exact hj)]
    congr 2
    rw [List.getD_eq_getElem?_getD, List.getD_eq_getElem?_getD, List.getElem?_take_of_lt hj]
  have hbare : (decoWith (kcOut nm) (raw.take m) rows).map Candle.bare = (raw.take m).map Candle.bare :=
    decoWith_bare _ (kcOut_bare nm) _ _ (by rw [htl, hrows])
  rw [kc_rowStep]
  generalize hdone : decoWith (kcOut nm) (raw.take m) rows = done at hdl hget hbare ⊢
  have hc : Plain (raw.getD m default) := hmem m hm
  -- (1) the TR helper
  have hT : valOf (kcT nm) done (raw.getD m default) = .ok (if m = 0 then .none else .num (trNum raw m)) := by
    have hul : (List.replicate m (Val.none : Val K)).length = m := by simp
    have hb : done.map Candle.bare
        = (deco (nm ++ "_ATR" ++ "_TR") (raw.take m) (List.replicate m Val.none)).map Candle.bare := by
      rw [hbare, deco_bare _ _ _ (by rw [htl, hul])]
    rw [tr_ign (kcT nm) rfl _ _ _ (raw.getD m default) hb rfl]
    unfold valOf
    rw [deco_length _ _ _ (by rw [htl, hul]), htl]
    exact tr_stepCtx (nm ++ "_ATR" ++ "_TR") raw (List.replicate m Val.none) m hm hul
  have hdT : decOf (kcT nm) (if m = 0 then .none else .num (trNum raw m)) (raw.getD m default)
      = setKey true (nm ++ "_ATR" ++ "_TR") (trStored raw m) (raw.getD m default) := by
    unfold decOf trStored
    by_cases h0 : m = 0 <;> simp [h0, kcT, leaf] <;> rfl
  rw [hT]
  simp only [pym_bind_ok]
  rw [hdT]
  -- (2) the ATR helper
  have hm' : m < (trDeco (nm ++ "_ATR" ++ "_TR") raw).length := by rw [trDeco_length]; exact hm
  have hvsA : (rows.map (·.atr)).length = m := by simp [hrows]
  have hvsAj : ∀ j, j < m → (rows.map (·.atr)).getD j .none = (rows.getD j KcRow.dflt).atr :=
    fun j hj => getD_map_of_lt _ rows _ j (by omega)
  obtain ⟨w, hw, hwOK⟩ := atr_stepCtx p (by omega) (nm ++ "_ATR") defaultRound hn.kA ⟨hn.kT, hn.AT.symm⟩ raw hraw
    (rows.map (·.atr)) m hm hvsA (fun j hj => by rw [hvsAj j hj]; exact (hQ j hj).2.1)
  have hA : valOf (kcA nm (p : Int)) done
      (setKey true (nm ++ "_ATR" ++ "_TR") (trStored raw m) (raw.getD m default)) = .ok w := by
    rw [← hw]
    show Calc.atr _ (p : Int) (nm ++ "_ATR" ++ "_TR") = _
    have hB : (atrCtx (nm ++ "_ATR") raw (rows.map (·.atr)) m).cs.length = m + 1 :=
      stepCtx_length _ _ _ _ hm' hvsA
    have hlt : ∀ (j : Nat) (a b : Candle K), j < m → done[j]? = some a →
        (atrCtx (nm ++ "_ATR") raw (rows.map (·.atr)) m).cs[j]? = some b →
        a = kcOut nm (raw.getD j default) (rows.getD j KcRow.dflt) ∧
        b = setKey false (nm ++ "_ATR") ((rows.getD j KcRow.dflt).atr)
          (setKey true (nm ++ "_ATR" ++ "_TR") (trStored raw j) (raw.getD j default)) := by
      intro j a b hj ha hb
      rw [hget j hj] at ha
      rw [stepCtx_lt _ _ _ m hm' hvsA j hj, hvsAj j hj, trDeco_getD _ raw j (by omega)] at hb
      exact ⟨(Option.some.inj ha).symm, (Option.some.inj hb).symm⟩
    have heq : ∀ b, (atrCtx (nm ++ "_ATR") raw (rows.map (·.atr)) m).cs[m]? = some b →
        b = setKey true (nm ++ "_ATR" ++ "_TR") (trStored raw m) (raw.getD m default) := by
      intro b hb
      rw [stepCtx_eq _ _ _ m hm' hvsA, trDeco_getD _ raw m hm] at hb
      exact (Option.some.inj hb).symm
    have hown : Ctx.SameCol (nm ++ "_ATR")
        ({ cs := done ++ [setKey true (nm ++ "_ATR" ++ "_TR") (trStored raw m) (raw.getD m default)],
           i := done.length, name := nm ++ "_ATR" } : Ctx K)
        (atrCtx (nm ++ "_ATR") raw (rows.map (·.atr)) m) := by
      refine sameCol_of_elems _ _ done _ _ m hdl rfl hB ?_ ?_
      · intro j a b hj ha hb
        obtain ⟨rfl, rfl⟩ := hlt j a b hj ha hb
        rw [kcOut_atr nm hn _ (hmem j (by omega)), readingByCandle_setKey_own _ hn.kA]
      · intro b hb
        rw [heq b hb]
    refine atr_congr _ _ _ _ ?_ (Ctx.prevExists_congr hown) (Ctx.prevNum_congr hown)
    refine sameCol_of_elems _ _ done _ _ m hdl rfl hB ?_ ?_
    · intro j a b hj ha hb
      obtain ⟨rfl, rfl⟩ := hlt j a b hj ha hb
      rw [kcOut_tr nm hn _ (hmem j (by omega)), (hQ j hj).1,
        indep_key (nm ++ "_ATR") (nm ++ "_ATR" ++ "_TR") hn.kT hn.AT,
        readingByCandle_setKey true _ hn.kT _ _ (hmem j (by omega))]
    · intro b hb
      rw [heq b hb]
  rw [hA]
  simp only [pym_bind_ok]
  have hdA : decOf (kcA nm (p : Int)) w
        (setKey true (nm ++ "_ATR" ++ "_TR") (trStored raw m) (raw.getD m default))
      = setKey true (nm ++ "_ATR") (w.roundBy defaultRound)
        (setKey true (nm ++ "_ATR" ++ "_TR") (trStored raw m) (raw.getD m default)) := rfl
  rw [hdA]
  -- (3) the EMA helper
  have hvsE : (rows.map (·.ema)).length = m := by simp [hrows]
  have hvsEj : ∀ j, j < m → (rows.map (·.ema)).getD j .none = (rows.getD j KcRow.dflt).ema :=
    fun j hj => getD_map_of_lt _ rows _ j (by omega)
  obtain ⟨v, hv, hvOK⟩ := ema_stepCtx p hp (nm ++ "_EMA") input fld defaultRound hn.kE hin.1 hattr raw hraw
    (rows.map (·.ema)) m hm hvsE (fun j hj => by rw [hvsEj j hj]; exact (hQ j hj).2.2.1)
  have hE : valOf (kcE nm (p : Int) input) done
      (setKey true (nm ++ "_ATR") (w.roundBy defaultRound)
        (setKey true (nm ++ "_ATR" ++ "_TR") (trStored raw m) (raw.getD m default))) = .ok v := by
    rw [← hv]
    show Calc.ema _ (p : Int) input (fl 2) = _
    have hB : (stepCtx (nm ++ "_EMA") raw (rows.map (·.ema)) m).cs.length = m + 1 :=
      stepCtx_length _ _ _ _ hm hvsE
    have hlt : ∀ (j : Nat) (a b : Candle K), j < m → done[j]? = some a →
        (stepCtx (nm ++ "_EMA") raw (rows.map (·.ema)) m).cs[j]? = some b →
        a = kcOut nm (raw.getD j default) (rows.getD j KcRow.dflt) ∧
        b = setKey false (nm ++ "_EMA") ((rows.getD j KcRow.dflt).ema) (raw.getD j default) := by
      intro j a b hj ha hb
      rw [hget j hj] at ha
      rw [stepCtx_lt _ _ _ m hm hvsE j hj, hvsEj j hj] at hb
      exact ⟨(Option.some.inj ha).symm, (Option.some.inj hb).symm⟩
    have heq : ∀ b, (stepCtx (nm ++ "_EMA") raw (rows.map (·.ema)) m).cs[m]? = some b →
        b = raw.getD m default := by
      intro b hb
      rw [stepCtx_eq _ _ _ m hm hvsE] at hb
      exact (Option.some.inj hb).symm
    have hown : Ctx.SameCol (nm ++ "_EMA")
        ({ cs := done ++ [setKey true (nm ++ "_ATR") (w.roundBy defaultRound)
              (setKey true (nm ++ "_ATR" ++ "_TR") (trStored raw m) (raw.getD m default))],
           i := done.length, name := nm ++ "_EMA" } : Ctx K)
        (stepCtx (nm ++ "_EMA") raw (rows.map (·.ema)) m) := by
      refine sameCol_of_elems _ _ done _ _ m hdl rfl hB ?_ ?_
      · intro j a b hj ha hb
        obtain ⟨rfl, rfl⟩ := hlt j a b hj ha hb
        rw [kcOut_ema nm hn _ (hmem j (by omega)), readingByCandle_setKey_own _ hn.kE]
      · intro b hb
        rw [heq b hb, indep_key (nm ++ "_ATR") (nm ++ "_EMA") hn.kE hn.AE,
          indep_key (nm ++ "_ATR" ++ "_TR") (nm ++ "_EMA") hn.kE hn.TE]
    refine ema_congr _ _ _ _ _ ?_ (Ctx.prevExists_congr hown) (Ctx.prevNum_congr hown)
    refine sameCol_of_elems _ _ done _ _ m hdl rfl hB ?_ ?_
    · intro j a b hj ha hb
      obtain ⟨rfl, rfl⟩ := hlt j a b hj ha hb
      rw [kcOut_input nm input hin, indep_attr (F := K) (nm ++ "_EMA") input hin.1 hin.2]
    · intro b hb
      rw [heq b hb, indep_attr (F := K) (nm ++ "_ATR") input hin.1 hin.2,
        indep_attr (F := K) (nm ++ "_ATR" ++ "_TR") input hin.1 hin.2]
  rw [hE]
  simp only [pym_bind_ok]
  have hdE : decOf (kcE nm (p : Int) input) v
        (setKey true (nm ++ "_ATR") (w.roundBy defaultRound)
          (setKey true (nm ++ "_ATR" ++ "_TR") (trStored raw m) (raw.getD m default)))
      = setKey true (nm ++ "_EMA") (v.roundBy defaultRound)
        (setKey true (nm ++ "_ATR") (w.roundBy defaultRound)
          (setKey true (nm ++ "_ATR" ++ "_TR") (trStored raw m) (raw.getD m default))) := rfl
  rw [hdE]
  -- (4) the own reading
  have hrE : ({ cs := done ++ [setKey true (nm ++ "_EMA") (v.roundBy defaultRound)
        (setKey true (nm ++ "_ATR") (w.roundBy defaultRound)
          (setKey true (nm ++ "_ATR" ++ "_TR") (trStored raw m) (raw.getD m default)))],
                i := done.length, name := nm } : Ctx K).reading (nm ++ "_EMA") = .ok (v.roundBy defaultRound) := by
    rw [Ctx.reading_cur done _ [] nm, kcMid_ema nm hn _ hc]
  have hrA : ({ cs := done ++ [setKey true (nm ++ "_EMA") (v.roundBy defaultRound)
        (setKey true (nm ++ "_ATR") (w.roundBy defaultRound)
          (setKey true (nm ++ "_ATR" ++ "_TR") (trStored raw m) (raw.getD m default)))],
                i := done.length, name := nm } : Ctx K).reading (nm ++ "_ATR") = .ok (w.roundBy defaultRound) := by
    rw [Ctx.reading_cur done _ [] nm, kcMid_atr nm hn _ hc]
  by_cases hmp : m < p
  · have hwn : w.roundBy defaultRound = .none := hwOK.1.1 (by omega)
    have hO : valOf (kcP nm n (p : Int) input mult) done
        (setKey true (nm ++ "_EMA") (v.roundBy defaultRound)
          (setKey true (nm ++ "_ATR") (w.roundBy defaultRound)
            (setKey true (nm ++ "_ATR" ++ "_TR") (trStored raw m) (raw.getD m default))))
        = .ok kcNoneDict := by
      show Calc.kc _ mult = _
      exact kc_none _ mult _ _ hrE hrA (Or.inr (by rw [hwn]; rfl))
    refine ⟨⟨trStored raw m, w.roundBy defaultRound, v.roundBy defaultRound,
      kcBands mult n (v.roundBy defaultRound) (w.roundBy defaultRound)⟩, ?_, rfl, hwOK, hvOK, rfl⟩
    rw [hO]
    simp only [pym_bind_ok, pym_pure]
    show Except.ok (done ++ [setKey false nm ((kcNoneDict : Val K).roundBy n) _]) = _
    rw [hwn, kcBands_none_right]
    rfl
  · obtain ⟨av, hav, _⟩ := hwOK.1.2 (by omega)
    obtain ⟨ev, hev, _⟩ := hvOK.2 (by omega)
    rw [hav] at hrE hrA hwOK ⊢
    rw [hev] at hrE hrA hvOK ⊢
    have hO := kc_def _ mult (.flt ev) (.flt av) hrE hrA
    refine ⟨⟨trStored raw m, .flt av, .flt ev, kcBands mult n (.flt ev) (.flt av)⟩, ?_, rfl, hwOK, hvOK, rfl⟩
    have hO' : valOf (kcP nm n (p : Int) input mult) done
        (setKey true (nm ++ "_EMA") (.flt ev)
          (setKey true (nm ++ "_ATR") (.flt av)
            (setKey true (nm ++ "_ATR" ++ "_TR") (trStored raw m) (raw.getD m default)))) = _ := hO
    rw [hO']
    simp only [pym_bind_ok, pym_pure]
    show Except.ok (done ++ [setKey false nm (Val.roundBy n _) _]) = _
    rw [kcBands_flt]
    rfl

/-! ### the whole series -/

/-- the candles of a KC run: raw candle `j` with the four readings `rows[j]` -/
def decoKc (nm : String) (raw : List (Candle K)) (rows : List (KcRow K)) : List (Candle K) :=
  decoWith (kcOut nm) raw rows

/-- **Keltner Channel, whole series** (row-major run of `kcTree`; `period ≥ 2`, input a candle
field).  For EVERY raw list the run returns; the result is the raw candles with, on candle `j`, the
four readings `rows[j]` (`name_ATR_TR`, `name_ATR`, `name_EMA` in `.sub_indicators`, the own dict in
`.indicators`), and every row satisfies `KcOK`. -/
theorem kc_series (p : Nat) (hp : 2 ≤ p) (nm input : String) (fld : Candle K → Num K) (n : Nat) (mult : Num K)
    (hn : KcNames nm) (hin : NoDot input ∧ input ∈ Candle.attrNames)
    (hattr : ∀ c : Candle K, c.attr input = some (.num (fld c)))
    (raw : List (Candle K)) (hraw : ∀ c ∈ raw, Plain c) :
    ∃ rows : List (KcRow K), rows.length = raw.length ∧
      Gen.rowMajor (kcTree (F := K) nm n (p : Int) input mult (by omega) hn hin).S raw = .ok (decoKc nm raw rows) ∧
      ∀ j, j < raw.length → KcOK p n mult (fieldAt fld raw) raw j (rows.getD j KcRow.dflt) :=
  gen_series_induct _ (kcOut nm) KcRow.dflt raw _
    (fun m hm rows hrows hQ => kc_step p hp nm input fld n mult hn hin hattr raw hraw m hm rows hrows hQ)

/-! ### the own reading against the textbook channel -/

/-- a stored own reading against the textbook channel `o = (lower, middle, upper)`: the
three-`None` dict where the channel has no value; otherwise a dict of three floats, the middle one
within `ε_n + δe` and the outer ones within `ε_n + δe + |m|·δa` of the textbook values (`δe`, `δa`:
how far the stored EMA / ATR helper readings are from the textbook EMA / ATR), and – for a
non-negative multiplier – ordered `lower ≤ middle ≤ upper` -/
def KcOwnOK (n : Nat) (δe δa mult : K) (o : Option (K × K × K)) (v : Val K) : Prop :=
  match o with
  | none => v = kcNoneDict
  | some (lo, mid, up) => ∃ l b u : K,
      v = .dict [("lower", .num (.flt l)), ("band", .num (.flt b)), ("upper", .num (.flt u))] ∧
      |l - lo| ≤ eps K n + δe + |mult| * δa ∧ |b - mid| ≤ eps K n + δe ∧
      |u - up| ≤ eps K n + δe + |mult| * δa ∧ (0 ≤ mult → l ≤ b ∧ b ≤ u)

theorem round_combo_err (n : Nat) (e a E A m δe δa sgn : K) (hs : |sgn| = 1)
    (he : |e - E| ≤ δe) (ha : |a - A| ≤ δa) :
    |PyF.round n (e + sgn * (m * a)) - (E + sgn * (m * A))| ≤ eps K n + δe + |m| * δa := by
  have h1 := LawfulPyF.round_err (K := K) n (e + sgn * (m * a))
  have h2 : |(e + sgn * (m * a)) - (E + sgn * (m * A))| ≤ δe + |m| * δa := by
    have e1 : (e + sgn * (m * a)) - (E + sgn * (m * A)) = (e - E) + sgn * (m * (a - A)) := by ring
    rw [e1]
    calc |(e - E) + sgn * (m * (a - A))| ≤ |e - E| + |sgn * (m * (a - A))| := abs_add_le _ _
      _ = |e - E| + |m| * |a - A| := by rw [abs_mul, hs, one_mul, abs_mul]
      _ ≤ δe + |m| * δa := add_le_add he (mul_le_mul_of_nonneg_left ha (abs_nonneg _))
  calc |PyF.round n (e + sgn * (m * a)) - (E + sgn * (m * A))|
      = |(PyF.round n (e + sgn * (m * a)) - (e + sgn * (m * a)))
          + ((e + sgn * (m * a)) - (E + sgn * (m * A)))| := by ring_nf
    _ ≤ _ := abs_add_le _ _
    _ ≤ eps K n + (δe + |m| * δa) := add_le_add h1 h2
    _ = _ := by ring

/-- the own reading of a `KcOK` row against the textbook channel over ANY true-range series `tr`
whose Wilder average the stored ATR reading approximates within `δa` -/
theorem KcOK.own (p : Nat) (n : Nat) (mult : Num K) (x tr : Nat → K) (raw : List (Candle K)) (j : Nat)
    (r : KcRow K) (δa : K) (h : KcOK p n mult x raw j r)
    (hδ : ∀ a : K, r.atr = .flt a → |a - atrExact p (trS raw) j| ≤ eps K defaultRound / (1 / (p : K)) →
      |a - atrExact p tr j| ≤ δa) :
    KcOwnOK n (eps K defaultRound / kcAlpha K p) δa mult.toF (kcSeries p mult.toF x tr j) r.own := by
  obtain ⟨_, ⟨hA, hA0⟩, hE, hown⟩ := h
  unfold kcSeries
  by_cases hj : j < p
  · rw [if_pos hj, hown, hA.1 (by omega), kcBands_none_right]
    rfl
  · rw [if_neg hj]
    obtain ⟨a, ha, hab⟩ := hA.2 (by omega)
    obtain ⟨e, he, heb⟩ := hE.2 (by omega)
    have ha0 := hA0 a ha
    have hab' := hδ a ha hab
    rw [hown, ha, he]
    refine ⟨_, _, _, rfl, ?_, ?_, ?_, ?_⟩
    · have := round_combo_err n e a (emaExact p x j) (atrExact p tr j) mult.toF _ δa (-1) (by simp) heb hab'
      simpa [sub_eq_add_neg] using this
    · calc |PyF.round n e - emaExact p x j|
          = |(PyF.round n e - e) + (e - emaExact p x j)| := by ring_nf
        _ ≤ _ := abs_add_le _ _
        _ ≤ _ := add_le_add (LawfulPyF.round_err n e) heb
    · have := round_combo_err n e a (emaExact p x j) (atrExact p tr j) mult.toF _ δa 1 (by simp) heb hab'
      simpa using this
    · intro hm
      have hma : 0 ≤ mult.toF * a := mul_nonneg hm ha0
      exact ⟨LawfulPyF.round_mono n (by linarith), LawfulPyF.round_mono n (by linarith)⟩

/-- … against the channel of the STORED true ranges (`δa = p·ε₄`) -/
theorem KcOK.own_stored (p n : Nat) (mult : Num K) (x : Nat → K) (raw : List (Candle K)) (j : Nat)
    (r : KcRow K) (h : KcOK p n mult x raw j r) :
    KcOwnOK n (eps K defaultRound / kcAlpha K p) (eps K defaultRound / (1 / (p : K))) mult.toF
      (kcSeries p mult.toF x (trS raw) j) r.own :=
  KcOK.own p n mult x (trS raw) raw j r _ h (fun _ _ hb => hb)

/-- … against the channel of the EXACT true ranges of the raw candles (`δa = p·ε₄ + ε₄`: the TR
helper's readings are themselves rounded to 4 decimals before ATR reads them) -/
theorem KcOK.own_true (p n : Nat) (hp : 1 ≤ p) (mult : Num K) (x : Nat → K) (raw : List (Candle K)) (j : Nat)
    (r : KcRow K) (h : KcOK p n mult x raw j r) :
    KcOwnOK n (eps K defaultRound / kcAlpha K p) (eps K defaultRound / (1 / (p : K)) + eps K defaultRound)
      mult.toF (kcSeries p mult.toF x (trExact raw) j) r.own := by
  refine KcOK.own p n mult x (trExact raw) raw j r _ h (fun a _ hb => ?_)
  have hd := atrExact_stored_vs_true p hp raw j
  calc |a - atrExact p (trExact raw) j|
      = |(a - atrExact p (trS raw) j) + (atrExact p (trS raw) j - atrExact p (trExact raw) j)| := by ring_nf
    _ ≤ _ := abs_add_le _ _
    _ ≤ _ := add_le_add hb hd

/-! ### the finished candles, reading by reading -/

/-- **what the whole-series theorem says of a finished candle list `out`** of a KC tree named `nm`
(period `p`, rounding `n`, multiplier `mult`, input field `fld`) over the raw candles `raw`:
same length, and candle `j` is the raw candle `j` carrying
* under `nm_ATR_TR` the stored true range `trStored raw j` (`None` on candle 0, else
  `max(h−l, |h−c₋₁|, |l−c₋₁|)` rounded to 4 decimals);
* under `nm_ATR` a reading that is `AtrOK` (w.r.t. the stored true ranges: `None` for `j < p`, then
  non-negative and within `p·ε₄` of Wilder's average) and `AtrOKTrue` (w.r.t. the exact ones: `+ ε₄`);
* under `nm_EMA` a reading that is `RecOK`: `None` for `j + 1 < p`, then within `ε₄/α` of `emaExact`;
* under `nm` exactly `kcBands` of those two STORED helper readings – the three-`None` dict until both
  helpers have a reading (`j < p`), then `{lower: rnd(E − m·A), band: rnd(E), upper: rnd(E + m·A)}` –
  which is `KcOwnOK` against the textbook channel `kcSeries` of the stored and of the exact true ranges. -/
def KcSeriesOK (p n : Nat) (mult : Num K) (nm : String) (fld : Candle K → Num K)
    (raw out : List (Candle K)) : Prop :=
  out.length = raw.length ∧ ∀ j, j < raw.length →
    (out.getD j default).bare = (raw.getD j default).bare ∧
    readingByCandle (out.getD j default) (nm ++ "_ATR" ++ "_TR") = trStored raw j ∧
    AtrOK p defaultRound (trS raw) j (readingByCandle (out.getD j default) (nm ++ "_ATR")) ∧
    AtrOKTrue p defaultRound raw j (readingByCandle (out.getD j default) (nm ++ "_ATR")) ∧
    RecOK p defaultRound (kcAlpha K p) (emaExact p (fieldAt fld raw)) j
      (readingByCandle (out.getD j default) (nm ++ "_EMA")) ∧
    readingByCandle (out.getD j default) nm
      = kcBands mult n (readingByCandle (out.getD j default) (nm ++ "_EMA"))
          (readingByCandle (out.getD j default) (nm ++ "_ATR")) ∧
    KcOwnOK n (eps K defaultRound / kcAlpha K p) (eps K defaultRound / (1 / (p : K))) mult.toF
      (kcSeries p mult.toF (fieldAt fld raw) (trS raw) j) (readingByCandle (out.getD j default) nm) ∧
    KcOwnOK n (eps K defaultRound / kcAlpha K p) (eps K defaultRound / (1 / (p : K)) + eps K defaultRound)
      mult.toF (kcSeries p mult.toF (fieldAt fld raw) (trExact raw) j)
      (readingByCandle (out.getD j default) nm)

theorem kc_rows_ok (p : Nat) (hp : 2 ≤ p) (nm : String) (fld : Candle K → Num K) (n : Nat) (mult : Num K)
    (hk : IsKey nm) (hn : KcNames nm) (raw : List (Candle K)) (hraw : ∀ c ∈ raw, Plain c)
    (rows : List (KcRow K)) (hl : rows.length = raw.length)
    (hall : ∀ j, j < raw.length → KcOK p n mult (fieldAt fld raw) raw j (rows.getD j KcRow.dflt)) :
    KcSeriesOK p n mult nm fld raw (decoKc nm raw rows) := by
  refine ⟨decoWith_length _ _ _ hl, fun j hj => ?_⟩
  have hcj : (decoKc nm raw rows).getD j default = kcOut nm (raw.getD j default) (rows.getD j KcRow.dflt) := by
    rw [List.getD_eq_getElem?_getD, decoKc, decoWith_getElem? _ _ _ KcRow.dflt j hl hj]; rfl
  have hpl : Plain (raw.getD j default) := getD_plain raw hraw j hj
  have h := hall j hj
  rw [hcj, kcOut_bare, kcOut_tr nm hn _ hpl, kcOut_atr nm hn _ hpl, kcOut_ema nm hn _ hpl, kcOut_own nm hk]
  exact ⟨rfl, h.1, h.2.1, AtrOK.toTrue p (by omega) _ raw j _ h.2.1, h.2.2.1, h.2.2.2,
    KcOK.own_stored p n mult _ raw j _ h, KcOK.own_true p n (by omega) mult _ raw j _ h⟩

/-- **Keltner Channel, whole series, reading by reading**: for every raw list the row-major run of
`kcTree` returns a list that is `KcSeriesOK`. -/
theorem kc_series_readings (p : Nat) (hp : 2 ≤ p) (nm input : String) (fld : Candle K → Num K) (n : Nat)
    (mult : Num K) (hk : IsKey nm) (hn : KcNames nm) (hin : NoDot input ∧ input ∈ Candle.attrNames)
    (hattr : ∀ c : Candle K, c.attr input = some (.num (fld c)))
    (raw : List (Candle K)) (hraw : ∀ c ∈ raw, Plain c) :
    ∃ out : List (Candle K),
      Gen.rowMajor (kcTree (F := K) nm n (p : Int) input mult (by omega) hn hin).S raw = .ok out ∧
      KcSeriesOK p n mult nm fld raw out := by
  obtain ⟨rows, hl, hrun, hall⟩ := kc_series p hp nm input fld n mult hn hin hattr raw hraw
  exact ⟨_, hrun, kc_rows_ok p hp nm fld n mult hk hn raw hraw rows hl hall⟩

/-! ### through the engine -/

/-- **the engine's `calculate()`** on the raw candles returns, and its candles are `KcSeriesOK` -/
theorem kc_engine (p : Nat) (hp : 2 ≤ p) (nm input : String) (fld : Candle K → Num K) (n : Nat)
    (mult : Num K) (hk : IsKey nm) (hn : KcNames nm) (hin : NoDot input ∧ input ∈ Candle.attrNames)
    (hattr : ∀ c : Candle K, c.attr input = some (.num (fld c)))
    (raw : List (Candle K)) (hraw : ∀ c ∈ raw, Plain c) :
    ∃ out : List (Candle K),
      engineCalc (mkTop (.kc (p : Int) input mult : Kind K) nm n) raw = .ok out ∧
      KcSeriesOK p n mult nm fld raw out := by
  obtain ⟨out, hrun, hok⟩ := kc_series_readings p hp nm input fld n mult hk hn hin hattr raw hraw
  refine ⟨out, ?_, hok⟩
  have := ((kcTree (F := K) nm n (p : Int) input mult (by omega) hn hin).engine [] raw [] out rfl
    (by simp) hraw).2 (by simpa using hrun)
  simp only [List.nil_append] at this
  exact this

/-- **the batch run** (build the indicator over the whole stream, `calculate()` once; this is
`C01.runBatch ind {} raw`) returns, and its candles are `KcSeriesOK` -/
theorem kc_batch (p : Nat) (hp : 2 ≤ p) (nm input : String) (fld : Candle K → Num K) (n : Nat)
    (mult : Num K) (hk : IsKey nm) (hn : KcNames nm) (hin : NoDot input ∧ input ∈ Candle.attrNames)
    (hattr : ∀ c : Candle K, c.attr input = some (.num (fld c)))
    (raw : List (Candle K)) (hraw : ∀ c ∈ raw, Plain c) :
    ∃ out : List (Candle K),
      candlesOf (runIndicator (mkTop (.kc (p : Int) input mult : Kind K) nm n) {} raw []) = .ok out ∧
      KcSeriesOK p n mult nm fld raw out := by
  obtain ⟨out, hrun, hok⟩ := kc_series_readings p hp nm input fld n mult hk hn hin hattr raw hraw
  exact ⟨out, ((kcTree (F := K) nm n (p : Int) input mult (by omega) hn hin).batch_iff (MgrSpec.base K) raw hraw _).2 hrun,
    hok⟩

/-- **whenever the batch run returns, its candles carry exactly those readings** (and it does
return: `kc_batch`) -/
theorem kc_batch_readings (p : Nat) (hp : 2 ≤ p) (nm input : String) (fld : Candle K → Num K) (n : Nat)
    (mult : Num K) (hk : IsKey nm) (hn : KcNames nm) (hin : NoDot input ∧ input ∈ Candle.attrNames)
    (hattr : ∀ c : Candle K, c.attr input = some (.num (fld c)))
    (raw : List (Candle K)) (hraw : ∀ c ∈ raw, Plain c) (out : List (Candle K))
    (hout : candlesOf (runIndicator (mkTop (.kc (p : Int) input mult : Kind K) nm n) {} raw []) = .ok out) :
    KcSeriesOK p n mult nm fld raw out := by
  obtain ⟨out', hrun, hok⟩ := kc_series_readings p hp nm input fld n mult hk hn hin hattr raw hraw
  have hr : Gen.rowMajor (kcTree (F := K) nm n (p : Int) input mult (by omega) hn hin).S raw = .ok out :=
    ((kcTree (F := K) nm n (p : Int) input mult (by omega) hn hin).batch_iff (MgrSpec.base K) raw hraw out).1 hout
  rw [hrun] at hr
  cases hr
  exact hok

/-- **… for every append schedule**: whenever a live history (construction over `init`,
`calculate()`, then any appends) returns, its candles are `KcSeriesOK` over the whole stream. -/
theorem kc_live (p : Nat) (hp : 2 ≤ p) (nm input : String) (fld : Candle K → Num K) (n : Nat)
    (mult : Num K) (hk : IsKey nm) (hn : KcNames nm) (hin : NoDot input ∧ input ∈ Candle.attrNames)
    (hattr : ∀ c : Candle K, c.attr input = some (.num (fld c)))
    (init : List (Candle K)) (chunks : List (List (Candle K)))
    (hraw : ∀ c ∈ init ++ chunks.flatten, Plain c) (snap : List (Candle K))
    (hsnap : candlesOf (runIndicator (mkTop (.kc (p : Int) input mult : Kind K) nm n) {} init chunks) = .ok snap) :
    KcSeriesOK p n mult nm fld (init ++ chunks.flatten) snap := by
  obtain ⟨out', hrun, hok⟩ := kc_series_readings p hp nm input fld n mult hk hn hin hattr _ hraw
  have h := (kcTree (F := K) nm n (p : Int) input mult (by omega) hn hin).live_refines (MgrSpec.base K)
    init chunks hraw snap hsnap
  have h' : Gen.rowMajor (kcTree (F := K) nm n (p : Int) input mult (by omega) hn hin).S
      (init ++ chunks.flatten) = .ok snap := h
  rw [hrun] at h'
  cases h'
  exact hok

/-! ### non-vacuity: the five demo candles of HexProps/C04.lean over ℚ -/

/-- the five raw candles `C04.demoRaw` -/
def kcDemoRaw : List (Candle ℚ) :=
  [Demo.mk 10 12 9 11 100, Demo.mk 11 13 10 12 200, Demo.mk 12 15 11 14 300, Demo.mk 14 16 13 15 0,
   Demo.mk 15 15 15 15 0]

theorem kcDemoRaw_plain : ∀ c ∈ kcDemoRaw, Plain c := by
  intro c hc
  simp only [kcDemoRaw, List.mem_cons, List.not_mem_nil, or_false] at hc
  rcases hc with rfl | rfl | rfl | rfl | rfl <;> exact ⟨rfl, rfl⟩

/-- the demo closes: 11, 12, 14, 15, 15 -/
theorem kcDemo_close : fieldAt (·.c) kcDemoRaw 0 = 11 ∧ fieldAt (·.c) kcDemoRaw 1 = 12 ∧
    fieldAt (·.c) kcDemoRaw 2 = 14 ∧ fieldAt (·.c) kcDemoRaw 3 = 15 ∧ fieldAt (·.c) kcDemoRaw 4 = 15 := by
  refine ⟨?_, ?_, ?_, ?_, ?_⟩ <;> simp [fieldAt, kcDemoRaw, Demo.mk]

theorem kcNames_demo : KcNames "KC_2" :=
  ⟨by decide, by decide, by decide, by decide, by decide, by decide, by decide, by decide, by decide⟩

example : ∃ rows : List (KcRow ℚ), rows.length = kcDemoRaw.length ∧
    Gen.rowMajor (kcTree (F := ℚ) "KC_2" 4 ((2 : Nat) : Int) "close" (fl 2) (by decide) kcNames_demo
      ⟨noDot_close, by decide⟩).S kcDemoRaw = .ok (decoKc "KC_2" kcDemoRaw rows) ∧
    ∀ j, j < kcDemoRaw.length →
      KcOK 2 4 (fl 2) (fieldAt (·.c) kcDemoRaw) kcDemoRaw j (rows.getD j KcRow.dflt) :=
  kc_series 2 (by norm_num) "KC_2" "close" (·.c) 4 (fl 2) kcNames_demo ⟨noDot_close, by decide⟩
    (fun _ => rfl) kcDemoRaw kcDemoRaw_plain

example : ∃ out : List (Candle ℚ),
    candlesOf (runIndicator (mkTop (.kc ((2 : Nat) : Int) "close" (fl 2) : Kind ℚ) "KC_2" 4) {} kcDemoRaw [])
      = .ok out ∧ KcSeriesOK 2 4 (fl 2) "KC_2" (·.c) kcDemoRaw out :=
  kc_batch 2 (by norm_num) "KC_2" "close" (·.c) 4 (fl 2) (by decide) kcNames_demo ⟨noDot_close, by decide⟩
    (fun _ => rfl) kcDemoRaw kcDemoRaw_plain

/-- the textbook EMA on the demo closes 11, 12, 14, 15, 15 (`period = 2`, `α = 2/3`) -/
example : (List.range 5).map (emaSeries 2 (fieldAt (·.c) kcDemoRaw))
    = [none, some (23/2), some (79/6), some (259/18), some (799/54)] := by
  simp [List.range, List.range.loop, emaSeries, emaExact, kcAlpha, recExact, winMean, rsum, kcDemo_close]
  norm_num

/-- the textbook channel on the demo candles (`period = 2`, multiplier 2): nothing on candles 0, 1
(the EMA alone starts on candle 1), then `(EMA − 2·ATR, EMA, EMA + 2·ATR)` with `ATR = 7/2, 13/4, 13/8` -/
example : (List.range 5).map (kcSeries 2 2 (fieldAt (·.c) kcDemoRaw) (trS kcDemoRaw))
    = [none, none, some (37/6, 79/6, 121/6), some (71/9, 259/18, 188/9), some (1247/108, 799/54, 1949/108)] := by
  have h1 : trS kcDemoRaw 1 = 3 := by
    show ((Num.int 3 : Num ℚ).roundBy defaultRound).toF = 3
    simp [Num.roundBy]
  have h2 : trS kcDemoRaw 2 = 4 := by
    show ((Num.int 4 : Num ℚ).roundBy defaultRound).toF = 4
    simp [Num.roundBy]
  have h3 : trS kcDemoRaw 3 = 3 := by
    show ((Num.int 3 : Num ℚ).roundBy defaultRound).toF = 3
    simp [Num.roundBy]
  have h4 : trS kcDemoRaw 4 = 0 := by
    show ((Num.int 0 : Num ℚ).roundBy defaultRound).toF = 0
    simp [Num.roundBy]
  simp [List.range, List.range.loop, kcSeries, emaExact, atrExact, kcAlpha, recExact, winMean, rsum,
    kcDemo_close, h1, h2, h3, h4]
  norm_num

/-- the batch run on the demo candles: the own dict is the three-`None` dict on candles 0 and 1
(on candle 1 the EMA helper already has a reading, the ATR helper not yet) and an ordered triple of
floats on candle 2 -/
example : ∃ out : List (Candle ℚ),
    candlesOf (runIndicator (mkTop (.kc ((2 : Nat) : Int) "close" (fl 2) : Kind ℚ) "KC_2" 4) {} kcDemoRaw [])
      = .ok out ∧
    readingByCandle (out.getD 1 default) "KC_2" = kcNoneDict ∧
    (∃ e : ℚ, readingByCandle (out.getD 1 default) ("KC_2" ++ "_EMA") = .flt e) ∧
    readingByCandle (out.getD 1 default) ("KC_2" ++ "_ATR") = .none ∧
    ∃ l b u : ℚ, readingByCandle (out.getD 2 default) "KC_2"
        = .dict [("lower", .num (.flt l)), ("band", .num (.flt b)), ("upper", .num (.flt u))] ∧
      l ≤ b ∧ b ≤ u ∧ |b - 79/6| ≤ eps ℚ 4 + eps ℚ 4 / (2/3) := by
  obtain ⟨out, hrun, _, hall⟩ := kc_batch 2 (by norm_num) "KC_2" "close" (·.c) 4 (fl 2) (by decide) kcNames_demo
    ⟨noDot_close, by decide⟩ (fun _ => rfl) kcDemoRaw kcDemoRaw_plain
  refine ⟨out, hrun, ?_⟩
  obtain ⟨_, _, hA1, _, hE1, _, hO1, _⟩ := hall 1 (by decide)
  obtain ⟨_, _, _, _, _, _, hO2, _⟩ := hall 2 (by decide)
  have hO1' : readingByCandle (out.getD 1 default) "KC_2" = kcNoneDict := hO1
  obtain ⟨e, he, _⟩ := hE1.2 (by decide)
  have hO2' : KcOwnOK 4 (eps ℚ defaultRound / kcAlpha ℚ 2) (eps ℚ defaultRound / (1 / ((2 : Nat) : ℚ))) (fl 2 : Num ℚ).toF
      (some (emaExact 2 (fieldAt (·.c) kcDemoRaw) 2 - (fl 2 : Num ℚ).toF * atrExact 2 (trS kcDemoRaw) 2,
        emaExact 2 (fieldAt (·.c) kcDemoRaw) 2,
        emaExact 2 (fieldAt (·.c) kcDemoRaw) 2 + (fl 2 : Num ℚ).toF * atrExact 2 (trS kcDemoRaw) 2))
      (readingByCandle (out.getD 2 default) "KC_2") := hO2
  obtain ⟨l, b, u, hd, _, hb, _, hord⟩ := hO2'
  have hm : (0 : ℚ) ≤ (fl 2 : Num ℚ).toF := by simp
  have hema : emaExact 2 (fieldAt (·.c) kcDemoRaw) 2 = 79/6 := by
    simp [List.range, List.range.loop, emaExact, kcAlpha, recExact, winMean, rsum, kcDemo_close]
    norm_num
  have hal : kcAlpha ℚ 2 = 2/3 := by unfold kcAlpha; norm_num
  rw [hema, hal] at hb
  exact ⟨hO1', ⟨e, he⟩, hA1.1.1 (by decide), l, b, u, hd, (hord hm).1, (hord hm).2, hb⟩

end Numeric
end Hex

#print axioms Hex.Numeric.kc_step
#print axioms Hex.Numeric.kc_series
#print axioms Hex.Numeric.kc_series_readings
#print axioms Hex.Numeric.kc_engine
#print axioms Hex.Numeric.kc_batch
#print axioms Hex.Numeric.kc_batch_readings
#print axioms Hex.Numeric.kc_live

import HexProofs.Framework.Gen.KC
import HexProofs.Numeric.SeriesATR
import HexProofs.Numeric.SeriesRSI
import HexProofs.Numeric.Channel
set_option linter.unusedSectionVars false
set_option linter.unusedSimpArgs false
namespace Hex
namespace Numeric
variable {K : Type} [Field K] [LinearOrder K] [IsStrictOrderedRing K] [LawfulPyF K]

/-- what the four pieces of a KC tree store on one candle -/
structure KcRow (K : Type) where
  tr : Val K
  atr : Val K
  ema : Val K
  own : Val K

def KcRow.dflt : KcRow K := ⟨.none, .none, .none, .none⟩

/-- a finished KC candle -/
def kcOut (nm : String) (c : Candle K) (r : KcRow K) : Candle K :=
  setKey false nm r.own (setKey true (nm ++ "_EMA") r.ema
    (setKey true (nm ++ "_ATR") r.atr (setKey true (nm ++ "_ATR" ++ "_TR") r.tr c)))

/-- the row step of `kcTree`: TR helper, ATR helper, EMA helper, own reading – in that order, each
stored (rounded) before the next one runs -/
theorem kc_rowStep (nm : String) (n : Nat) (p : Int) (input : String) (mult : Num K) (hp : 1 ≤ p)
    (hn : KcNames nm) (hin : NoDot input ∧ input ∈ Candle.attrNames) (done : List (Candle K)) (c : Candle K) :
    Gen.rowStep (kcTree (F := K) nm n p input mult hp hn hin).S done c = (do
      let t ← valOf (kcT nm) done c
      let a ← valOf (kcA nm p) done (decOf (kcT nm) t c)
      let e ← valOf (kcE nm p input) done (decOf (kcA nm p) a (decOf (kcT nm) t c))
      let o ← valOf (kcP nm n p input mult) done
        (decOf (kcE nm p input) e (decOf (kcA nm p) a (decOf (kcT nm) t c)))
      pure (done ++ [decOf (kcP nm n p input mult) o
        (decOf (kcE nm p input) e (decOf (kcA nm p) a (decOf (kcT nm) t c)))])) := by
  show Gen.rowStep (TComp.spec (kcComp nm n p input mult hp hn hin) _) done c = _
  rw [TComp.rowStep_spec]
  show (do
      let z ← (do
        let x ← (do
          let t ← valOf (kcT nm) done c
          let a ← valOf (kcA nm p) done (decOf (kcT nm) t c)
          pure (t, a))
        let q ← (do
          let e ← valOf (kcE nm p input) done (decOf (kcA nm p) x.2 (decOf (kcT nm) x.1 c))
          let o ← valOf (kcP nm n p input mult) done
            (decOf (kcE nm p input) e (decOf (kcA nm p) x.2 (decOf (kcT nm) x.1 c)))
          pure (e, o))
        pure (x, q))
      pure (done ++ [decOf (kcP nm n p input mult) z.2.2
        (decOf (kcE nm p input) z.2.1 (decOf (kcA nm p) z.1.2 (decOf (kcT nm) z.1.1 c)))])) = _
  cases valOf (kcT nm) done c with
  | error e => rfl
  | ok t =>
    simp only [pym_bind_ok]
    cases valOf (kcA nm p) done (decOf (kcT nm) t c) with
    | error e => rfl
    | ok a =>
      simp only [pym_bind_ok, pym_pure]
      cases valOf (kcE nm p input) done (decOf (kcA nm p) a (decOf (kcT nm) t c)) with
      | error e => rfl
      | ok e =>
        simp only [pym_bind_ok]
        cases valOf (kcP nm n p input mult) done
            (decOf (kcE nm p input) e (decOf (kcA nm p) a (decOf (kcT nm) t c))) with
        | error e => rfl
        | ok o => rfl

/-! ### columns of candle lists, element by element -/

theorem col_eq_of_getElem? (key : String) (A B : List (Candle K)) (hl : A.length = B.length)
    (h : ∀ (j : Nat) (a b : Candle K), A[j]? = some a → B[j]? = some b →
      readingByCandle a key = readingByCandle b key) : col key A = col key B := by
  unfold col
  apply List.ext_getElem?
  intro j
  rw [List.getElem?_map, List.getElem?_map]
  by_cases hj : j < A.length
  · rw [List.getElem?_eq_getElem hj, List.getElem?_eq_getElem (by omega)]
    simp only [Option.map_some, Option.some.injEq]
    exact h j _ _ (List.getElem?_eq_getElem hj) (List.getElem?_eq_getElem (by omega))
  · rw [List.getElem?_eq_none (by omega), List.getElem?_eq_none (by omega)]

/-- a context `done ++ [c]` at `done.length = m` and a context `y` at `m` see the same column -/
theorem sameCol_of_elems (key n1 : String) (done : List (Candle K)) (y : Ctx K) (c : Candle K) (m : Nat)
    (hd : done.length = m) (hi : y.i = m) (hB : y.cs.length = m + 1)
    (hlt : ∀ (j : Nat) (a b : Candle K), j < m → done[j]? = some a → y.cs[j]? = some b →
      readingByCandle a key = readingByCandle b key)
    (heq : ∀ b, y.cs[m]? = some b → readingByCandle c key = readingByCandle b key) :
    Ctx.SameCol key ({ cs := done ++ [c], i := done.length, name := n1 } : Ctx K) y := by
  refine ⟨by simp [hd, hi], ?_⟩
  apply col_eq_of_getElem? key _ _ (by simp [hd, hB])
  intro j a b ha hb
  by_cases hj : j < m
  · rw [List.getElem?_append_left (by omega)] at ha
    exact hlt j a b hj ha hb
  · have hjm : j = m := by
      by_contra hne
      rw [List.getElem?_eq_none (by simp [hd]; omega)] at ha
      cases ha
    subst hjm
    rw [List.getElem?_append_right (by omega)] at ha
    simp [hd] at ha
    subst ha
    exact heq b hb

/-! ### reading the (partly) finished candles -/

section out
variable (nm : String)

theorem kcOut_bare (c : Candle K) (r : KcRow K) : (kcOut nm c r).bare = c.bare := by
  unfold kcOut
  rw [bare_setKey, bare_setKey, bare_setKey, bare_setKey]

theorem kcOut_input (input : String) (hin : NoDot input ∧ input ∈ Candle.attrNames) (c : Candle K)
    (r : KcRow K) : readingByCandle (kcOut nm c r) input = readingByCandle c input :=
  readingByCandle_attr_bare input hin.1 hin.2 _ _ (kcOut_bare nm c r)

theorem kcOut_own (hk : IsKey nm) (c : Candle K) (r : KcRow K) :
    readingByCandle (kcOut nm c r) nm = r.own := readingByCandle_setKey_own nm hk _ _

theorem kcOut_ema (hn : KcNames nm) (c : Candle K) (hc : Plain c) (r : KcRow K) :
    readingByCandle (kcOut nm c r) (nm ++ "_EMA") = r.ema := by
  rw [readingByCandle_key _ hn.kE]
  obtain ⟨hi, hs⟩ := hc
  simp [kcOut, lookupKey, setKey, hi, hs, dset, dlookup, hn.nA, hn.nT, hn.nE, hn.AT, hn.AE, hn.TE, hn.nA.symm, hn.nT.symm, hn.nE.symm, hn.AT.symm, hn.AE.symm, hn.TE.symm]

theorem kcOut_atr (hn : KcNames nm) (c : Candle K) (hc : Plain c) (r : KcRow K) :
    readingByCandle (kcOut nm c r) (nm ++ "_ATR") = r.atr := by
  rw [readingByCandle_key _ hn.kA]
  obtain ⟨hi, hs⟩ := hc
  simp [kcOut, lookupKey, setKey, hi, hs, dset, dlookup, hn.nA, hn.nT, hn.nE, hn.AT, hn.AE, hn.TE, hn.nA.symm, hn.nT.symm, hn.nE.symm, hn.AT.symm, hn.AE.symm, hn.TE.symm]

theorem kcOut_tr (hn : KcNames nm) (c : Candle K) (hc : Plain c) (r : KcRow K) :
    readingByCandle (kcOut nm c r) (nm ++ "_ATR" ++ "_TR") = r.tr := by
  rw [readingByCandle_key _ hn.kT]
  obtain ⟨hi, hs⟩ := hc
  simp [kcOut, lookupKey, setKey, hi, hs, dset, dlookup, hn.nA, hn.nT, hn.nE, hn.AT, hn.AE, hn.TE, hn.nA.symm, hn.nT.symm, hn.nE.symm, hn.AT.symm, hn.AE.symm, hn.TE.symm]

theorem kcMid_ema (hn : KcNames nm) (c : Candle K) (hc : Plain c) (t a e : Val K) :
    readingByCandle (setKey true (nm ++ "_EMA") e (setKey true (nm ++ "_ATR") a
      (setKey true (nm ++ "_ATR" ++ "_TR") t c))) (nm ++ "_EMA") = e := by
  rw [readingByCandle_key _ hn.kE]
  obtain ⟨hi, hs⟩ := hc
  simp [lookupKey, setKey, hi, hs, dset, dlookup, hn.nA, hn.nT, hn.nE, hn.AT, hn.AE, hn.TE, hn.nA.symm, hn.nT.symm, hn.nE.symm, hn.AT.symm, hn.AE.symm, hn.TE.symm]

theorem kcMid_atr (hn : KcNames nm) (c : Candle K) (hc : Plain c) (t a e : Val K) :
    readingByCandle (setKey true (nm ++ "_EMA") e (setKey true (nm ++ "_ATR") a
      (setKey true (nm ++ "_ATR" ++ "_TR") t c))) (nm ++ "_ATR") = a := by
  rw [readingByCandle_key _ hn.kA]
  obtain ⟨hi, hs⟩ := hc
  simp [lookupKey, setKey, hi, hs, dset, dlookup, hn.nA, hn.nT, hn.nE, hn.AT, hn.AE, hn.TE, hn.nA.symm, hn.nT.symm, hn.nE.symm, hn.AT.symm, hn.AE.symm, hn.TE.symm]

end out

/-! ### the textbook series -/

/-- the smoothing factor of the EMA helper (`smoothing = 2.0`): `α = 2/(p+1)` -/
def kcAlpha (K : Type) [Field K] (p : Nat) : K := 2 / ((p : K) + 1)

theorem kcAlpha_pos (p : Nat) : (0 : K) < kcAlpha K p := by unfold kcAlpha; positivity

theorem kcAlpha_le_one (p : Nat) (hp : 1 ≤ p) : kcAlpha K p ≤ 1 := by
  unfold kcAlpha
  have h1 : (1 : K) ≤ (p : K) := by exact_mod_cast hp
  rw [div_le_one (by positivity)]
  linarith

/-- **the textbook EMA** of the inputs `x`: the mean of `x 0 … x (p−1)` at index `p − 1`, then
`EMA_j = α·x_j + (1 − α)·EMA_{j−1}`, `α = 2/(p+1)` -/
def emaExact (p : Nat) (x : Nat → K) : Nat → K :=
  recExact (kcAlpha K p) (winMean x p (p - 1)) x p

/-- the textbook EMA series with its warm-up (first value at index `p − 1`) -/
def emaSeries (p : Nat) (x : Nat → K) (j : Nat) : Option K :=
  if j + 1 < p then none else some (emaExact p x j)

/-- **the textbook Keltner channel** `(lower, middle, upper) = (EMA − m·ATR, EMA, EMA + m·ATR)`
of the inputs `x` and true ranges `tr` (`tr j` = true range of candle `j ≥ 1`); first value at
index `p` (ATR's warm-up; the EMA alone starts at `p − 1`) -/
def kcSeries (p : Nat) (mult : K) (x tr : Nat → K) (j : Nat) : Option (K × K × K) :=
  if j < p then none
  else some (emaExact p x j - mult * atrExact p tr j, emaExact p x j, emaExact p x j + mult * atrExact p tr j)

/-! ### what is stored -/

/-- the three-`None` dict KC returns while a helper has no reading -/
def kcNoneDict : Val K := .dict [("lower", .none), ("band", .none), ("upper", .none)]

/-- the (rounded) dict KC stores from the STORED helper readings `e` (EMA) and `a` (ATR) -/
def kcBands (mult : Num K) (n : Nat) : Val K → Val K → Val K
  | .s (.num (.flt e)), .s (.num (.flt a)) =>
    .dict [("lower", .num (.flt (PyF.round n (e - mult.toF * a)))), ("band", .num (.flt (PyF.round n e))),
           ("upper", .num (.flt (PyF.round n (e + mult.toF * a))))]
  | _, _ => kcNoneDict

/-- what the whole-series theorem says of candle `j` of a KC tree with period `p`, rounding `n`,
multiplier `mult`, input series `x`:
* `name_ATR_TR`: the stored true range (`trStored`: `None` on candle 0, else rounded to 4 decimals);
* `name_ATR`: `AtrOK` – `None` while `j < p`, then a non-negative float within `p·ε₄` of Wilder's
  average `atrExact` of the stored true ranges;
* `name_EMA`: `RecOK` – `None` while `j + 1 < p`, then a float within `ε₄/α` of `emaExact`;
* own: `kcBands` of the two stored helper readings. -/
def KcOK (p n : Nat) (mult : Num K) (x : Nat → K) (raw : List (Candle K)) (j : Nat) (r : KcRow K) : Prop :=
  r.tr = trStored raw j ∧
  AtrOK p defaultRound (trS raw) j r.atr ∧
  RecOK p defaultRound (kcAlpha K p) (emaExact p x) j r.ema ∧
  r.own = kcBands mult n r.ema r.atr

/-! ### one EMA call inside the series (the step of `ema_series`, for the helper) -/

theorem ema_stepCtx (p : Nat) (hp : 2 ≤ p) (nm input : String) (fld : Candle K → Num K) (n : Nat)
    (hk : IsKey nm) (hd : NoDot input) (hattr : ∀ c : Candle K, c.attr input = some (.num (fld c)))
    (raw : List (Candle K)) (hraw : ∀ c ∈ raw, Plain c) (vs : List (Val K)) (m : Nat)
    (hm : m < raw.length) (hvs : vs.length = m)
    (hQ : ∀ j, j < m → RecOK p n (kcAlpha K p) (emaExact p (fieldAt fld raw)) j (vs.getD j .none)) :
    ∃ v, Calc.ema (stepCtx nm raw vs m) p input (fl 2) = .ok v ∧
      RecOK p n (kcAlpha K p) (emaExact p (fieldAt fld raw)) m (v.roundBy n) := by
  have ha0 := kcAlpha_pos (K := K) p
  have ha1 := kcAlpha_le_one (K := K) p (by omega)
  have hs2 : (fl 2 : Num K).toF / (((p : Int) : K) + 1) = kcAlpha K p := by
    unfold kcAlpha; simp
  have hp1 : ((p : Int) : K) + 1 ≠ 0 := by
    have : (0 : K) < (p : K) + 1 := by positivity
    simpa using this.ne'
  have hprev := stepCtx_prev nm raw vs m hm hvs hk hraw
  have hper := stepCtx_period nm input fld raw vs m hm hvs hd hattr p (by omega)
  have hcur := stepCtx_field_cur nm input fld raw vs m hm hvs hd hattr
  by_cases h1 : m + 1 < p
  · have hpn : (stepCtx nm raw vs m).prevReading (stepCtx nm raw vs m).name = .ok .none := by
      show (stepCtx nm raw vs m).prevReading nm = _
      rw [hprev]
      by_cases h0 : m = 0
      · simp [h0]
      · simp only [h0, if_false]
        rw [(hQ (m - 1) (by omega)).1 (by omega)]
    have hrp : (stepCtx nm raw vs m).readingPeriod p input = false := by
      rw [hper]; simp; omega
    exact ⟨.none, ema_none _ p input _ hpn hrp, fun _ => rfl, fun h => by omega⟩
  · by_cases h2 : m + 1 = p
    · have hpn : (stepCtx nm raw vs m).prevReading (stepCtx nm raw vs m).name = .ok .none := by
        show (stepCtx nm raw vs m).prevReading nm = _
        rw [hprev]
        have h0 : m ≠ 0 := by omega
        simp only [h0, if_false]
        rw [(hQ (m - 1) (by omega)).1 (by omega)]
      have hrp : (stepCtx nm raw vs m).readingPeriod p input = true := by
        rw [hper]; simp; omega
      have hwin := ema_seed_window (stepCtx nm raw vs m) p input (fl 2) (fun j => fld (raw.getD (m + 1 - p + j) default))
        hpn hrp (by omega) (by show (p : Int) ≤ (m : Int) + 1; omega) (by show (1 : Int) ≤ (m : Int); omega)
        (by
          intro j hj
          have e : (stepCtx nm raw vs m).i + 1 - (p : Int) + (j : Int) = ((m + 1 - p + j : Nat) : Int) := by
            show (m : Int) + 1 - (p : Int) + (j : Int) = _; omega
          rw [e]
          exact stepCtx_field nm input fld raw vs m hm hvs hd hattr _ (by omega))
      refine ⟨_, hwin, fun h => by omega, fun _ => ⟨_, rfl, ?_⟩⟩
      unfold emaExact
      rw [recExact_seed _ _ _ _ _ (by omega)]
      have hm1 : m = p - 1 := by omega
      have : rsum p (fun j => (fld (raw.getD (m + 1 - p + j) default)).toF) / (p : K)
          = winMean (fieldAt fld raw) p (p - 1) := by
        unfold winMean fieldAt; rw [hm1]
      rw [this]
      exact le_trans (LawfulPyF.round_err n _) (eps_le_div n _ ha0 ha1)
    · have h3 : p ≤ m := by omega
      obtain ⟨yp, hyp, hbound⟩ := (hQ (m - 1) (by omega)).2 (by omega)
      have hpn : (stepCtx nm raw vs m).prevReading (stepCtx nm raw vs m).name = .ok (.flt yp) := by
        show (stepCtx nm raw vs m).prevReading nm = _
        rw [hprev]
        have h0 : m ≠ 0 := by omega
        simp only [h0, if_false, hyp]
      refine ⟨_, ema_rec _ p input (fl 2) (.flt yp) _ hpn hcur hp1, fun h => by omega, fun _ => ⟨_, rfl, ?_⟩⟩
      unfold emaExact at hbound ⊢
      rw [recExact_step _ _ _ _ _ h3 (by omega)]
      have hb := ema_error_budget n (kcAlpha K p) (fieldAt fld raw m) yp _ ha0 ha1 hbound
      rw [hs2]
      simp only [Num.toF_flt]
      rw [mul_comm yp]
      exact hb

/-! ### the own reading from the stored helper readings -/

theorem kcBands_none_right (mult : Num K) (n : Nat) (e : Val K) : kcBands mult n e .none = kcNoneDict := by
  unfold kcBands
  split <;> first | rfl | simp_all

theorem kcBands_none_left (mult : Num K) (n : Nat) (a : Val K) : kcBands mult n .none a = kcNoneDict := by
  unfold kcBands
  split <;> first | rfl | simp_all

theorem kcBands_flt (mult : Num K) (n : Nat) (e a : K) :
    (Val.dict [("lower", .num ((Num.flt e).sub (mult.mul (.flt a)))), ("band", .num (.flt e)),
        ("upper", .num ((Num.flt e).add (mult.mul (.flt a))))] : Val K).roundBy n
      = kcBands mult n (.flt e) (.flt a) := by
  cases mult <;>
    simp [Val.roundBy, Scalar.roundBy, Num.roundBy, kcBands, Num.mul, Num.sub, Num.add, Num.toF,
      LawfulPyF.mul_eq, LawfulPyF.sub_eq, LawfulPyF.add_eq, LawfulPyF.ofInt_eq]

theorem decoWith_bare {R : Type} (out : Candle K → R → Candle K) (hb : ∀ c r, (out c r).bare = c.bare) :
    ∀ (raw : List (Candle K)) (rows : List R), rows.length = raw.length →
      (decoWith out raw rows).map Candle.bare = raw.map Candle.bare := by
  intro raw
  induction raw with
  | nil => intro rows _; simp [decoWith]
  | cons c raw ih =>
    intro rows hl
    cases rows with
    | nil => simp at hl
    | cons r rows =>
      have := ih rows (by simpa using hl)
      simp only [decoWith, List.zipWith_cons_cons, List.map_cons, hb] at this ⊢
      rw [this]

theorem getD_map_of_lt {R : Type} (f : R → Val K) (rows : List R) (d : R) (j : Nat) (hj : j < rows.length) :
    (rows.map f).getD j .none = f (rows.getD j d) := by
  rw [List.getD_eq_getElem?_getD, List.getD_eq_getElem?_getD, List.getElem?_map,
    List.getElem?_eq_getElem hj]
  rfl

/-! ### one row of the KC tree inside the series -/

theorem kc_step (p : Nat) (hp : 2 ≤ p) (nm input : String) (fld : Candle K → Num K) (n : Nat) (mult : Num K)
    (hk : IsKey nm) (hn : KcNames nm) (hin : NoDot input ∧ input ∈ Candle.attrNames)
    (hattr : ∀ c : Candle K, c.attr input = some (.num (fld c)))
    (raw : List (Candle K)) (hraw : ∀ c ∈ raw, Plain c)
    (m : Nat) (hm : m < raw.length) (rows : List (KcRow K)) (hrows : rows.length = m)
    (hQ : ∀ j, j < m → KcOK p n mult (fieldAt fld raw) raw j (rows.getD j KcRow.dflt)) :
    ∃ r, Gen.rowStep (kcTree (F := K) nm n (p : Int) input mult (by omega) hn hin).S
          (decoWith (kcOut nm) (raw.take m) rows) (raw.getD m default)
        = .ok (decoWith (kcOut nm) (raw.take m) rows ++ [kcOut nm (raw.getD m default) r]) ∧
      KcOK p n mult (fieldAt fld raw) raw m r := by
  have htl : (raw.take m).length = m := by simp; omega
  have hdl : (decoWith (kcOut nm) (raw.take m) rows).length = m := by
    rw [decoWith_length _ _ _ (by rw [htl, hrows]), htl]
  have hmem : ∀ j, j < raw.length → Plain (raw.getD j default) := fun j hj => getD_plain raw hraw j hj
  have hget : ∀ j, j < m → (decoWith (kcOut nm) (raw.take m) rows)[j]?
      = some (kcOut nm (raw.getD j default) (rows.getD j KcRow.dflt)) := by
    intro j hj
    rw [decoWith_getElem? _ _ _ KcRow.dflt j (by rw [htl, hrows]) (by rw [htl]; exact hj)]
    congr 2
    rw [List.getD_eq_getElem?_getD, List.getD_eq_getElem?_getD, List.getElem?_take_of_lt hj]
  have hbare : (decoWith (kcOut nm) (raw.take m) rows).map Candle.bare = (raw.take m).map Candle.bare :=
    decoWith_bare _ (kcOut_bare nm) _ _ (by rw [htl, hrows])
  rw [kc_rowStep]
  generalize hdone : decoWith (kcOut nm) (raw.take m) rows = done at hdl hget hbare ⊢
  have hc : Plain (raw.getD m default) := hmem m hm
  -- (1) the TR helper
  have hT : valOf (kcT nm) done (raw.getD m default) = .ok (if m = 0 then .none else .num (trNum raw m)) := by
    have hul : (List.replicate m (Val.none : Val K)).length = m := by simp
    have hb : done.map Candle.bare
        = (deco (nm ++ "_ATR" ++ "_TR") (raw.take m) (List.replicate m Val.none)).map Candle.bare := by
      rw [hbare, deco_bare _ _ _ (by rw [htl, hul])]
    rw [tr_ign (kcT nm) rfl _ _ _ (raw.getD m default) hb rfl]
    unfold valOf
    rw [deco_length _ _ _ (by rw [htl, hul]), htl]
    exact tr_stepCtx (nm ++ "_ATR" ++ "_TR") raw (List.replicate m Val.none) m hm hul
  have hdT : decOf (kcT nm) (if m = 0 then .none else .num (trNum raw m)) (raw.getD m default)
      = setKey true (nm ++ "_ATR" ++ "_TR") (trStored raw m) (raw.getD m default) := by
    unfold decOf trStored
    by_cases h0 : m = 0 <;> simp [h0, kcT, leaf] <;> rfl
  rw [hT]
  simp only [pym_bind_ok]
  rw [hdT]
  -- (2) the ATR helper
  have hm' : m < (trDeco (nm ++ "_ATR" ++ "_TR") raw).length := by rw [trDeco_length]; exact hm
  have hvsA : (rows.map (·.atr)).length = m := by simp [hrows]
  have hvsAj : ∀ j, j < m → (rows.map (·.atr)).getD j .none = (rows.getD j KcRow.dflt).atr :=
    fun j hj => getD_map_of_lt _ rows _ j (by omega)
  obtain ⟨w, hw, hwOK⟩ := atr_stepCtx p (by omega) (nm ++ "_ATR") defaultRound hn.kA ⟨hn.kT, hn.AT.symm⟩ raw hraw
    (rows.map (·.atr)) m hm hvsA (fun j hj => by rw [hvsAj j hj]; exact (hQ j hj).2.1)
  have hA : valOf (kcA nm (p : Int)) done
      (setKey true (nm ++ "_ATR" ++ "_TR") (trStored raw m) (raw.getD m default)) = .ok w := by
    rw [← hw]
    show Calc.atr _ (p : Int) (nm ++ "_ATR" ++ "_TR") = _
    have hB : (atrCtx (nm ++ "_ATR") raw (rows.map (·.atr)) m).cs.length = m + 1 :=
      stepCtx_length _ _ _ _ hm' hvsA
    have hlt : ∀ (j : Nat) (a b : Candle K), j < m → done[j]? = some a →
        (atrCtx (nm ++ "_ATR") raw (rows.map (·.atr)) m).cs[j]? = some b →
        a = kcOut nm (raw.getD j default) (rows.getD j KcRow.dflt) ∧
        b = setKey false (nm ++ "_ATR") ((rows.getD j KcRow.dflt).atr)
          (setKey true (nm ++ "_ATR" ++ "_TR") (trStored raw j) (raw.getD j default)) := by
      intro j a b hj ha hb
      rw [hget j hj] at ha
      rw [stepCtx_lt _ _ _ m hm' hvsA j hj, hvsAj j hj, trDeco_getD _ raw j (by omega)] at hb
      exact ⟨(Option.some.inj ha).symm, (Option.some.inj hb).symm⟩
    have heq : ∀ b, (atrCtx (nm ++ "_ATR") raw (rows.map (·.atr)) m).cs[m]? = some b →
        b = setKey true (nm ++ "_ATR" ++ "_TR") (trStored raw m) (raw.getD m default) := by
      intro b hb
      rw [stepCtx_eq _ _ _ m hm' hvsA, trDeco_getD _ raw m hm] at hb
      exact (Option.some.inj hb).symm
    have hown : Ctx.SameCol (nm ++ "_ATR")
        ({ cs := done ++ [setKey true (nm ++ "_ATR" ++ "_TR") (trStored raw m) (raw.getD m default)],
           i := done.length, name := nm ++ "_ATR" } : Ctx K)
        (atrCtx (nm ++ "_ATR") raw (rows.map (·.atr)) m) := by
      refine sameCol_of_elems _ _ done _ _ m hdl rfl hB ?_ ?_
      · intro j a b hj ha hb
        obtain ⟨rfl, rfl⟩ := hlt j a b hj ha hb
        rw [kcOut_atr nm hn _ (hmem j (by omega)), readingByCandle_setKey_own _ hn.kA]
      · intro b hb
        rw [heq b hb]
    refine atr_congr _ _ _ _ ?_ (Ctx.prevExists_congr hown) (Ctx.prevNum_congr hown)
    refine sameCol_of_elems _ _ done _ _ m hdl rfl hB ?_ ?_
    · intro j a b hj ha hb
      obtain ⟨rfl, rfl⟩ := hlt j a b hj ha hb
      rw [kcOut_tr nm hn _ (hmem j (by omega)), (hQ j hj).1,
        indep_key (nm ++ "_ATR") (nm ++ "_ATR" ++ "_TR") hn.kT hn.AT,
        readingByCandle_setKey true _ hn.kT _ _ (hmem j (by omega))]
    · intro b hb
      rw [heq b hb]
  rw [hA]
  simp only [pym_bind_ok]
  have hdA : decOf (kcA nm (p : Int)) w
        (setKey true (nm ++ "_ATR" ++ "_TR") (trStored raw m) (raw.getD m default))
      = setKey true (nm ++ "_ATR") (w.roundBy defaultRound)
        (setKey true (nm ++ "_ATR" ++ "_TR") (trStored raw m) (raw.getD m default)) := rfl
  rw [hdA]
  -- (3) the EMA helper
  have hvsE : (rows.map (·.ema)).length = m := by simp [hrows]
  have hvsEj : ∀ j, j < m → (rows.map (·.ema)).getD j .none = (rows.getD j KcRow.dflt).ema :=
    fun j hj => getD_map_of_lt _ rows _ j (by omega)
  obtain ⟨v, hv, hvOK⟩ := ema_stepCtx p hp (nm ++ "_EMA") input fld defaultRound hn.kE hin.1 hattr raw hraw
    (rows.map (·.ema)) m hm hvsE (fun j hj => by rw [hvsEj j hj]; exact (hQ j hj).2.2.1)
  have hE : valOf (kcE nm (p : Int) input) done
      (setKey true (nm ++ "_ATR") (w.roundBy defaultRound)
        (setKey true (nm ++ "_ATR" ++ "_TR") (trStored raw m) (raw.getD m default))) = .ok v := by
    rw [← hv]
    show Calc.ema _ (p : Int) input (fl 2) = _
    have hB : (stepCtx (nm ++ "_EMA") raw (rows.map (·.ema)) m).cs.length = m + 1 :=
      stepCtx_length _ _ _ _ hm hvsE
    have hlt : ∀ (j : Nat) (a b : Candle K), j < m → done[j]? = some a →
        (stepCtx (nm ++ "_EMA") raw (rows.map (·.ema)) m).cs[j]? = some b →
        a = kcOut nm (raw.getD j default) (rows.getD j KcRow.dflt) ∧
        b = setKey false (nm ++ "_EMA") ((rows.getD j KcRow.dflt).ema) (raw.getD j default) := by
      intro j a b hj ha hb
      rw [hget j hj] at ha
      rw [stepCtx_lt _ _ _ m hm hvsE j hj, hvsEj j hj] at hb
      exact ⟨(Option.some.inj ha).symm, (Option.some.inj hb).symm⟩
    have heq : ∀ b, (stepCtx (nm ++ "_EMA") raw (rows.map (·.ema)) m).cs[m]? = some b →
        b = raw.getD m default := by
      intro b hb
      rw [stepCtx_eq _ _ _ m hm hvsE] at hb
      exact (Option.some.inj hb).symm
    have hown : Ctx.SameCol (nm ++ "_EMA")
        ({ cs := done ++ [setKey true (nm ++ "_ATR") (w.roundBy defaultRound)
              (setKey true (nm ++ "_ATR" ++ "_TR") (trStored raw m) (raw.getD m default))],
           i := done.length, name := nm ++ "_EMA" } : Ctx K)
        (stepCtx (nm ++ "_EMA") raw (rows.map (·.ema)) m) := by
      refine sameCol_of_elems _ _ done _ _ m hdl rfl hB ?_ ?_
      · intro j a b hj ha hb
        obtain ⟨rfl, rfl⟩ := hlt j a b hj ha hb
        rw [kcOut_ema nm hn _ (hmem j (by omega)), readingByCandle_setKey_own _ hn.kE]
      · intro b hb
        rw [heq b hb, indep_key (nm ++ "_ATR") (nm ++ "_EMA") hn.kE hn.AE,
          indep_key (nm ++ "_ATR" ++ "_TR") (nm ++ "_EMA") hn.kE hn.TE]
    refine ema_congr _ _ _ _ _ ?_ (Ctx.prevExists_congr hown) (Ctx.prevNum_congr hown)
    refine sameCol_of_elems _ _ done _ _ m hdl rfl hB ?_ ?_
    · intro j a b hj ha hb
      obtain ⟨rfl, rfl⟩ := hlt j a b hj ha hb
      rw [kcOut_input nm input hin, indep_attr (F := K) (nm ++ "_EMA") input hin.1 hin.2]
    · intro b hb
      rw [heq b hb, indep_attr (F := K) (nm ++ "_ATR") input hin.1 hin.2,
        indep_attr (F := K) (nm ++ "_ATR" ++ "_TR") input hin.1 hin.2]
  rw [hE]
  simp only [pym_bind_ok]
  have hdE : decOf (kcE nm (p : Int) input) v
        (setKey true (nm ++ "_ATR") (w.roundBy defaultRound)
          (setKey true (nm ++ "_ATR" ++ "_TR") (trStored raw m) (raw.getD m default)))
      = setKey true (nm ++ "_EMA") (v.roundBy defaultRound)
        (setKey true (nm ++ "_ATR") (w.roundBy defaultRound)
          (setKey true (nm ++ "_ATR" ++ "_TR") (trStored raw m) (raw.getD m default))) := rfl
  rw [hdE]
  -- (4) the own reading
  have hrE : ({ cs := done ++ [setKey true (nm ++ "_EMA") (v.roundBy defaultRound)
        (setKey true (nm ++ "_ATR") (w.roundBy defaultRound)
          (setKey true (nm ++ "_ATR" ++ "_TR") (trStored raw m) (raw.getD m default)))],
                i := done.length, name := nm } : Ctx K).reading (nm ++ "_EMA") = .ok (v.roundBy defaultRound) := by
    rw [Ctx.reading_cur done _ [] nm, kcMid_ema nm hn _ hc]
  have hrA : ({ cs := done ++ [setKey true (nm ++ "_EMA") (v.roundBy defaultRound)
        (setKey true (nm ++ "_ATR") (w.roundBy defaultRound)
          (setKey true (nm ++ "_ATR" ++ "_TR") (trStored raw m) (raw.getD m default)))],
                i := done.length, name := nm } : Ctx K).reading (nm ++ "_ATR") = .ok (w.roundBy defaultRound) := by
    rw [Ctx.reading_cur done _ [] nm, kcMid_atr nm hn _ hc]
  have hO : valOf (kcP nm n (p : Int) input mult) done
      (setKey true (nm ++ "_EMA") (v.roundBy defaultRound)
        (setKey true (nm ++ "_ATR") (w.roundBy defaultRound)
          (setKey true (nm ++ "_ATR" ++ "_TR") (trStored raw m) (raw.getD m default))))
      = .ok ((kcBands mult n (v.roundBy defaultRound) (w.roundBy defaultRound))) ∨ True := Or.inr trivial
  sorry

end Numeric
end Hex

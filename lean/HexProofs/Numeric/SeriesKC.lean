import HexProofs.Framework.Gen.KC
import HexProofs.Numeric.SeriesATR
import HexProofs.Numeric.SeriesRSI
import HexProofs.Numeric.Channel
set_option linter.unusedSectionVars false
set_option linter.unusedSimpArgs false
namespace Hex
namespace Numeric
variable {K : Type} [Field K] [LinearOrder K] [IsStrictOrderedRing K] [LawfulPyF K]

/-- what the four pieces of a KC tree store on one candle -/
structure KcRow (K : Type) where
  tr : Val K
  atr : Val K
  ema : Val K
  own : Val K

def KcRow.dflt : KcRow K := ⟨.none, .none, .none, .none⟩

/-- a finished KC candle -/
def kcOut (nm : String) (c : Candle K) (r : KcRow K) : Candle K :=
  setKey false nm r.own (setKey true (nm ++ "_EMA") r.ema
    (setKey true (nm ++ "_ATR") r.atr (setKey true (nm ++ "_ATR" ++ "_TR") r.tr c)))

/-- the row step of `kcTree`: TR helper, ATR helper, EMA helper, own reading – in that order, each
stored (rounded) before the next one runs -/
theorem kc_rowStep (nm : String) (n : Nat) (p : Int) (input : String) (mult : Num K) (hp : 1 ≤ p)
    (hn : KcNames nm) (hin : NoDot input ∧ input ∈ Candle.attrNames) (done : List (Candle K)) (c : Candle K) :
    Gen.rowStep (kcTree (F := K) nm n p input mult hp hn hin).S done c = (do
      let t ← valOf (kcT nm) done c
      let a ← valOf (kcA nm p) done (decOf (kcT nm) t c)
      let e ← valOf (kcE nm p input) done (decOf (kcA nm p) a (decOf (kcT nm) t c))
      let o ← valOf (kcP nm n p input mult) done
        (decOf (kcE nm p input) e (decOf (kcA nm p) a (decOf (kcT nm) t c)))
      pure (done ++ [decOf (kcP nm n p input mult) o
        (decOf (kcE nm p input) e (decOf (kcA nm p) a (decOf (kcT nm) t c)))])) := by
  show Gen.rowStep (TComp.spec (kcComp nm n p input mult hp hn hin) _) done c = _
  rw [TComp.rowStep_spec]
  show (do
      let z ← (do
        let x ← (do
          let t ← valOf (kcT nm) done c
          let a ← valOf (kcA nm p) done (decOf (kcT nm) t c)
          pure (t, a))
        let q ← (do
          let e ← valOf (kcE nm p input) done (decOf (kcA nm p) x.2 (decOf (kcT nm) x.1 c))
          let o ← valOf (kcP nm n p input mult) done
            (decOf (kcE nm p input) e (decOf (kcA nm p) x.2 (decOf (kcT nm) x.1 c)))
          pure (e, o))
        pure (x, q))
      pure (done ++ [decOf (kcP nm n p input mult) z.2.2
        (decOf (kcE nm p input) z.2.1 (decOf (kcA nm p) z.1.2 (decOf (kcT nm) z.1.1 c)))])) = _
  cases valOf (kcT nm) done c with
  | error e => rfl
  | ok t =>
    simp only [pym_bind_ok]
    cases valOf (kcA nm p) done (decOf (kcT nm) t c) with
    | error e => rfl
    | ok a =>
      simp only [pym_bind_ok, pym_pure]
      cases valOf (kcE nm p input) done (decOf (kcA nm p) a (decOf (kcT nm) t c)) with
      | error e => rfl
      | ok e =>
        simp only [pym_bind_ok]
        cases valOf (kcP nm n p input mult) done
            (decOf (kcE nm p input) e (decOf (kcA nm p) a (decOf (kcT nm) t c))) with
        | error e => rfl
        | ok o => rfl

/-! ### columns of candle lists, element by element -/

theorem col_eq_of_getElem? (key : String) (A B : List (Candle K)) (hl : A.length = B.length)
    (h : ∀ (j : Nat) (a b : Candle K), A[j]? = some a → B[j]? = some b →
      readingByCandle a key = readingByCandle b key) : col key A = col key B := by
  unfold col
  apply List.ext_getElem?
  intro j
  rw [List.getElem?_map, List.getElem?_map]
  by_cases hj : j < A.length
  · rw [List.getElem?_eq_getElem hj, List.getElem?_eq_getElem (by omega)]
    simp only [Option.map_some, Option.some.injEq]
    exact h j _ _ (List.getElem?_eq_getElem hj) (List.getElem?_eq_getElem (by omega))
  · rw [List.getElem?_eq_none (by omega), List.getElem?_eq_none (by omega)]

/-- a context `done ++ [c]` at `done.length = m` and a context over `B` at `m` see the same column -/
theorem sameCol_of_elems (key n1 n2 : String) (done B : List (Candle K)) (c : Candle K) (m : Nat)
    (hd : done.length = m) (hB : B.length = m + 1)
    (hlt : ∀ (j : Nat) (a b : Candle K), j < m → done[j]? = some a → B[j]? = some b →
      readingByCandle a key = readingByCandle b key)
    (heq : ∀ b, B[m]? = some b → readingByCandle c key = readingByCandle b key) :
    Ctx.SameCol key ({ cs := done ++ [c], i := done.length, name := n1 } : Ctx K)
      { cs := B, i := m, name := n2 } := by
  refine ⟨by simp [hd], ?_⟩
  apply col_eq_of_getElem? key _ _ (by simp [hd, hB])
  intro j a b ha hb
  by_cases hj : j < m
  · rw [List.getElem?_append_left (by omega)] at ha
    exact hlt j a b hj ha hb
  · have hjm : j = m := by
      by_contra hne
      rw [List.getElem?_eq_none (by simp [hd]; omega)] at ha
      cases ha
    subst hjm
    rw [List.getElem?_append_right (by omega)] at ha
    simp [hd] at ha
    subst ha
    exact heq b hb

/-! ### reading the (partly) finished candles -/

section out
variable (nm : String)

theorem kcOut_bare (c : Candle K) (r : KcRow K) : (kcOut nm c r).bare = c.bare := by
  unfold kcOut
  rw [bare_setKey, bare_setKey, bare_setKey, bare_setKey]

theorem kcOut_input (input : String) (hin : NoDot input ∧ input ∈ Candle.attrNames) (c : Candle K)
    (r : KcRow K) : readingByCandle (kcOut nm c r) input = readingByCandle c input :=
  readingByCandle_attr_bare input hin.1 hin.2 _ _ (kcOut_bare nm c r)

theorem kcOut_own (hk : IsKey nm) (c : Candle K) (r : KcRow K) :
    readingByCandle (kcOut nm c r) nm = r.own := readingByCandle_setKey_own nm hk _ _

theorem kcOut_ema (hn : KcNames nm) (c : Candle K) (hc : Plain c) (r : KcRow K) :
    readingByCandle (kcOut nm c r) (nm ++ "_EMA") = r.ema := by
  rw [readingByCandle_key _ hn.kE]
  obtain ⟨hi, hs⟩ := hc
  simp [kcOut, lookupKey, setKey, hi, hs, dset, dlookup, hn.nA, hn.nT, hn.nE, hn.AT, hn.AE, hn.TE, hn.nA.symm, hn.nT.symm, hn.nE.symm, hn.AT.symm, hn.AE.symm, hn.TE.symm]

theorem kcOut_atr (hn : KcNames nm) (c : Candle K) (hc : Plain c) (r : KcRow K) :
    readingByCandle (kcOut nm c r) (nm ++ "_ATR") = r.atr := by
  rw [readingByCandle_key _ hn.kA]
  obtain ⟨hi, hs⟩ := hc
  simp [kcOut, lookupKey, setKey, hi, hs, dset, dlookup, hn.nA, hn.nT, hn.nE, hn.AT, hn.AE, hn.TE, hn.nA.symm, hn.nT.symm, hn.nE.symm, hn.AT.symm, hn.AE.symm, hn.TE.symm]

theorem kcOut_tr (hn : KcNames nm) (c : Candle K) (hc : Plain c) (r : KcRow K) :
    readingByCandle (kcOut nm c r) (nm ++ "_ATR" ++ "_TR") = r.tr := by
  rw [readingByCandle_key _ hn.kT]
  obtain ⟨hi, hs⟩ := hc
  simp [kcOut, lookupKey, setKey, hi, hs, dset, dlookup, hn.nA, hn.nT, hn.nE, hn.AT, hn.AE, hn.TE, hn.nA.symm, hn.nT.symm, hn.nE.symm, hn.AT.symm, hn.AE.symm, hn.TE.symm]

end out

end Numeric
end Hex

import HexProofs.Numeric.SeriesInputsStdev
import HexProofs.Numeric.SeriesInputsAvg
import HexProofs.Numeric.SeriesRSI
/-!
# RSI over candle lists with foreign readings and a late-starting input (`C06_chained_FULL`)

Same method as STDEV (`node_induct`, HexProofs/Numeric/SeriesInputsStdev.lean): RSI is a data node (own
reading + `<name>_data` entry holding Wilder's averages of the upward / downward moves).  Before its
warm-up – which now ends at index `t0 + p` – every call stores `None` in BOTH places (RSI clears its
helper series while it has no value); at `t0 + p` it is seeded by the plain means of the first `p` moves
of the NUMERIC inputs, afterwards it follows Wilder's recurrence: the series of `rsi_series` shifted by
`t0`.  `C06_chained_FULL` as written in `HexProps/C06.lean` is FALSE for the same reason as `C04_FULL`
(`c06_chained_full_false`); the corrected statement `c06_chained_partial` has the `None` hypothesis.
-/
set_option linter.unusedSectionVars false
set_option linter.unusedSimpArgs false
namespace Hex
namespace Numeric

section generic
variable {F : Type} [PyF F]

theorem reading_cur_eq (done : List (Candle F)) (c : Candle F) (rest : List (Candle F)) (m : Nat)
    (h : done.length = m) (name key : String) :
    ({ cs := done ++ c :: rest, i := (m : Int), name := name } : Ctx F).reading key
      = .ok (readingByCandle c key) := by
  subst h
  exact Ctx.reading_cur done c rest name key

end generic

section numeric
variable {K : Type} [Field K] [LinearOrder K] [IsStrictOrderedRing K] [LawfulPyF K]

/-! ### the finished RSI candle, on candles that hold foreign readings -/

theorem rsiOut_own' (nm : String) (hk : IsKey nm) (c : Candle K) (ρ : Val K × Val K) :
    readingByCandle (rsiOut nm c ρ) nm = ρ.1 := by
  unfold rsiOut outD
  exact rbc_setKey_own nm hk _ _

theorem rsiOut_input' (nm input : String) (hd : NoDot input) (h1 : input ≠ nm) (h2 : input ≠ nm ++ "_data")
    (c : Candle K) (ρ : Val K × Val K) :
    readingByCandle (rsiOut nm c ρ) input = readingByCandle c input := by
  unfold rsiOut outD setD
  rw [readingByCandle_setKey_otherB false nm input (Ne.symm h1) (noDot_not_self nm input hd),
    readingByCandle_setKey_otherB true (nm ++ "_data") input (Ne.symm h2) (noDot_not_self _ input hd)]

theorem rsiOut_field' (nm fld key : String) (hne : nm ≠ nm ++ "_data")
    (hs : splitDot key = [nm ++ "_data", fld]) (c : Candle K)
    (hc : dlookup (nm ++ "_data") c.inds = none) (ρ : Val K × Val K) :
    readingByCandle (rsiOut nm c ρ) key = ρ.2.nested fld := by
  unfold readingByCandle
  rw [hs]
  simp [rsiOut, outD, setD, setKey, dlookup_dset_ne _ _ _ _ hne, hc, dlookup_dset_self]

/-- what the run stores on candle `j`: `(None, None)` before `t0`, then `RsiOK` at the index counted
from `t0` -/
def RsiRowOK (p n t0 : Nat) (xs : Nat → K) (j : Nat) (ρ : Val K × Val K) : Prop :=
  (j < t0 → ρ = (.none, .none)) ∧ (t0 ≤ j → RsiOK p n xs (j - t0) ρ)

/-- **RSI through the engine, row by row**: every candle list (the two names of the node absent), an
input without a dot (candle attribute or ordinary key), `None` on the first `t0` candles and the numbers
`r` afterwards. -/
theorem rsi_inputs_rows (p : Nat) (hp : 1 ≤ p) (nm input : String) (n t0 : Nat) (cs : List (Candle K))
    (r : Nat → Num K) (hk : IsKey nm) (hn : RsiNames nm) (hid : NoDot input) (h1 : input ≠ nm)
    (h2 : input ≠ nm ++ "_data")
    (habs : ∀ c ∈ cs, dlookup nm c.inds = none ∧ dlookup nm c.subs = none ∧
      dlookup (nm ++ "_data") c.inds = none ∧ dlookup (nm ++ "_data") c.subs = none)
    (hnone : ∀ j, j < cs.length → j < t0 → readingByCandle (cs.getD j default) input = .none)
    (hnum : ∀ j, j < cs.length → t0 ≤ j → readingByCandle (cs.getD j default) input = .num (r (j - t0))) :
    ∃ rows : List (Val K × Val K), rows.length = cs.length ∧
      engineCalc (mkTop (.rsi (p : Int) input : Kind K) nm n) cs = .ok (decoWith (rsiOut nm) cs rows) ∧
      ∀ j, j < cs.length → RsiRowOK p n t0 (fun k => (r k).toF) j (rows.getD j (.none, .none)) := by
  have hd := isDataNode_mkTop (.rsi (p : Int) input : Kind K) nm n "RSI_data" rfl
  have hname := mkTop_name (.rsi (p : Int) input : Kind K) nm n
  have hround : (mkTop (.rsi (p : Int) input : Kind K) nm n).round = n := rfl
  unfold engineCalc
  rw [calculate_with _ hd.subs
    (fun cs i => Calc.rsi (dOps (nm ++ "_data") i)
      { cs := cs, i := i, name := (mkTop (.rsi (p : Int) input : Kind K) nm n).name } (p : Int) input)
    (fun f cs i => calcReading_rsi _ (p : Int) input _ (mkTop_kind _ _ _) hd f cs i) _ cs
    (by unfold fuelFor; omega)]
  refine node_induct _ (rsiOut nm) (.none, .none) cs (fun c hc => ?_) _ ?_
  · show dlookup (mkTop (.rsi (p : Int) input : Kind K) nm n).name c.inds = none ∧ _
    rw [hname]; exact ⟨(habs c hc).1, (habs c hc).2.1⟩
  intro m hm rows hrl hQ
  have hdl := midW_done_length (rsiOut nm) cs rows m (by omega) hrl
  have V := midW_iview (rsiOut nm) (.none, .none) cs rows m hm hrl nm input t0 r
    (fun c ρ => rsiOut_input' nm input hid h1 h2 c ρ) hnone hnum
  have hcabs : ∀ j, j < cs.length → dlookup (nm ++ "_data") (cs.getD j default).inds = none ∧
      dlookup (nm ++ "_data") (cs.getD j default).subs = none :=
    fun j hj => (habs _ (getD_mem' cs j hj)).2.2
  have hno := (hcabs m hm).1
  -- abbreviations for the active candle and its neighbours
  generalize hdone : decoWith (rsiOut nm) (cs.take m) rows = done at hdl
  generalize hcd : cs.getD m default = c at hno
  have hsplit : midW (rsiOut nm) cs rows m = done ++ c :: cs.drop (m + 1) := by
    rw [midW_split (rsiOut nm) cs rows m hm, hdone, hcd]
  have hprev : ∀ key, ({ cs := midW (rsiOut nm) cs rows m, i := m, name := nm } : Ctx K).prevReading key
      = .ok (if m = 0 then .none
             else readingByCandle (rsiOut nm (cs.getD (m - 1) default) (rows.getD (m - 1) (.none, .none))) key) :=
    fun key => midW_prevReading (rsiOut nm) (.none, .none) cs rows m hm hrl nm key
  have hset : ∀ v, (dOps (nm ++ "_data") (m : Int) : Ops K).setManaged "RSI_data" v (midW (rsiOut nm) cs rows m)
      = .ok (done ++ setKey true (nm ++ "_data") v c :: cs.drop (m + 1)) := by
    intro v
    show setReading true (nm ++ "_data") (midW (rsiOut nm) cs rows m) (m : Int) v = _
    rw [hsplit, setReading_eq]
    have := updateAt_append_cons done c (cs.drop (m + 1)) (setKey true (nm ++ "_data") v)
    rwa [hdl] at this
  have hdata : ∀ v, (Ctx.on ({ cs := midW (rsiOut nm) cs rows m, i := m, name := nm } : Ctx K)
      (done ++ setKey true (nm ++ "_data") v c :: cs.drop (m + 1))).reading (nm ++ "_data") = .ok v := by
    intro v
    show ({ cs := done ++ setKey true (nm ++ "_data") v c :: cs.drop (m + 1), i := (m : Int), name := nm } : Ctx K).reading
      (nm ++ "_data") = _
    rw [reading_cur_eq done _ _ m hdl, rbc_data_self _ hn.dkey c hno]
  have hrg : ∀ g l : Num K, (Ctx.on ({ cs := midW (rsiOut nm) cs rows m, i := m, name := nm } : Ctx K)
      (done ++ setKey true (nm ++ "_data") (sdict [("gain", sc g), ("loss", sc l)]) c :: cs.drop (m + 1))).reading
      (nm ++ "_data.gain") = .ok (.num g) := by
    intro g l
    show ({ cs := done ++ setKey true (nm ++ "_data") _ c :: cs.drop (m + 1), i := (m : Int), name := nm } : Ctx K).reading
      (nm ++ "_data.gain") = _
    rw [reading_cur_eq done _ _ m hdl, rbc_data_field _ "gain" _ hn.gain c hno]
    simp [Val.nested, sdict, sc, dlookup]
  have hrlo : ∀ g l : Num K, (Ctx.on ({ cs := midW (rsiOut nm) cs rows m, i := m, name := nm } : Ctx K)
      (done ++ setKey true (nm ++ "_data") (sdict [("gain", sc g), ("loss", sc l)]) c :: cs.drop (m + 1))).reading
      (nm ++ "_data.loss") = .ok (.num l) := by
    intro g l
    show ({ cs := done ++ setKey true (nm ++ "_data") _ c :: cs.drop (m + 1), i := (m : Int), name := nm } : Ctx K).reading
      (nm ++ "_data.loss") = _
    rw [reading_cur_eq done _ _ m hdl, rbc_data_field _ "loss" _ hn.loss c hno]
    simp [Val.nested, sdict, sc, dlookup]
  -- the store of the own reading
  have hfinish : ∀ (v dv : Val K),
      Calc.rsi (dOps (nm ++ "_data") (m : Int)) { cs := midW (rsiOut nm) cs rows m, i := m, name := nm } (p : Int) input
        = .ok (v, done ++ setKey true (nm ++ "_data") dv c :: cs.drop (m + 1)) →
      stepWith (mkTop (.rsi (p : Int) input : Kind K) nm n)
        (fun cs i => Calc.rsi (dOps (nm ++ "_data") i)
          { cs := cs, i := i, name := (mkTop (.rsi (p : Int) input : Kind K) nm n).name } (p : Int) input)
        (midW (rsiOut nm) cs rows m) (m : Int)
        = .ok (done ++ rsiOut nm c (v.roundBy n, dv) :: cs.drop (m + 1)) := by
    intro v dv h
    unfold stepWith
    simp only [hname, hround, hd.top]
    rw [h]
    simp only [bind, Except.bind]
    rw [setReading_eq]
    have := updateAt_append_cons done (setKey true (nm ++ "_data") dv c) (cs.drop (m + 1))
      (setKey false nm (v.roundBy n))
    rw [hdl] at this
    rw [this]
    rfl
  -- previous own reading is `None` up to the shifted warm-up index
  have hown0 : m ≤ t0 + p →
      ({ cs := midW (rsiOut nm) cs rows m, i := m, name := nm } : Ctx K).prevReading nm = .ok .none := by
    intro hmp
    rw [hprev]
    by_cases h0 : m = 0
    · rw [if_pos h0]
    · rw [if_neg h0, rsiOut_own' nm hk]
      by_cases hlt : m - 1 < t0
      · rw [(hQ (m - 1) (by omega)).1 hlt]
      · rw [((hQ (m - 1) (by omega)).2 (by omega)).1 (by omega)]
  have hper : ({ cs := midW (rsiOut nm) cs rows m, i := m, name := nm } : Ctx K).readingPeriod ((p : Int) + 1) input
      = decide (t0 + (p + 1) ≤ m + 1) := by
    have := V.period (p + 1) (by omega)
    rw [show ((p + 1 : Nat) : Int) = (p : Int) + 1 by push_cast; rfl] at this
    exact this
  show ∃ ρ : Val K × Val K, stepWith (F := K) (mkTop (.rsi (p : Int) input : Kind K) nm n)
    (fun cs i => Calc.rsi (dOps (nm ++ "_data") i)
      { cs := cs, i := i, name := (mkTop (.rsi (p : Int) input : Kind K) nm n).name } (p : Int) input)
    (midW (rsiOut nm) cs rows m) (m : Int) = _ ∧ _
  by_cases hw : m < t0 + p
  · -- warm-up (before `t0`, or fewer than `p` moves of numeric inputs)
    refine ⟨(.none, .none), hfinish .none .none ?_, fun _ => rfl,
      fun h => ⟨fun _ => rfl, fun h' => by omega⟩⟩
    refine rsi_none _ _ (p : Int) input _ (hown0 (by omega)) (by rw [hper]; simp; omega) ?_ (hset .none)
    show ({ cs := midW (rsiOut nm) cs rows m, i := (m : Int), name := nm } : Ctx K).reading (nm ++ "_data") = _
    rw [hsplit, reading_cur_eq done c _ m hdl, readingByCandle_key _ hn.dkey]
    have hc2 := hcabs m hm
    rw [hcd] at hc2
    simp [lookupKey, hc2.1, hc2.2]
  · obtain ⟨m', rfl⟩ : ∃ m', m = t0 + m' := ⟨m - t0, by omega⟩
    have hsub : t0 + m' - t0 = m' := by omega
    have hpm : p ≤ m' := by omega
    refine ⟨((Val.flt (rsiExact p (fun k => (r k).toF) m')).roundBy n,
        rsiData (wilderAvg p (upAt (fun k => (r k).toF)) m') (wilderAvg p (downAt (fun k => (r k).toF)) m')),
      hfinish _ _ ?_, fun h => by omega, fun _ => by rw [hsub]; exact rsiOK_mk p n hp _ m' hpm⟩
    by_cases hseed : m' = p
    · -- seed: plain means of the first `p` moves of the numeric inputs
      subst hseed
      have hrp : ({ cs := midW (rsiOut nm) cs rows (t0 + m'), i := ((t0 + m' : Nat) : Int), name := nm } : Ctx K).readingPeriod
          ((m' : Int) + 1) input = true := by rw [hper]; simp; omega
      have hr : ∀ j : Nat, j ≤ m' →
          ({ cs := midW (rsiOut nm) cs rows (t0 + m'), i := ((t0 + m' : Nat) : Int), name := nm } : Ctx K).reading input
            (some (((t0 + m' : Nat) : Int) - (m' : Int) + (j : Int))) = .ok (.num (r j)) := by
        intro j hj
        have e : ((t0 + m' : Nat) : Int) - (m' : Int) + (j : Int) = ((t0 + j : Nat) : Int) := by omega
        rw [e]
        have := V.inp_num (t0 + j) (by omega) (by omega)
        rwa [show t0 + j - t0 = j by omega] at this
      have hs := rsi_seed (dOps (nm ++ "_data") ((t0 + m' : Nat) : Int))
        { cs := midW (rsiOut nm) cs rows (t0 + m'), i := ((t0 + m' : Nat) : Int), name := nm } m' input
        (fun v => done ++ setKey true (nm ++ "_data") v c :: cs.drop (t0 + m' + 1)) r
        (hown0 (by omega)) hrp hr hset hdata hrg hrlo hp
      have hG : ((List.range m').map fun j => max ((r (j + 1)).toF - (r j).toF) 0).sum / (m' : K)
          = wilderAvg m' (upAt (fun k => (r k).toF)) m' := by
        rw [wilderAvg_seed _ _ _ (le_refl _)]
        simp [rsum, upAt]
      have hL : ((List.range m').map fun j => max (-((r (j + 1)).toF - (r j).toF)) 0).sum / (m' : K)
          = wilderAvg m' (downAt (fun k => (r k).toF)) m' := by
        rw [wilderAvg_seed _ _ _ (le_refl _)]
        simp [rsum, downAt]
      rw [hG, hL] at hs
      exact hs
    · -- running: Wilder's recurrence
      have hprevOK := ((hQ (t0 + m' - 1) (by omega)).2 (by omega)).2 (by omega)
      rw [show t0 + m' - 1 - t0 = m' - 1 by omega] at hprevOK
      obtain ⟨hd2, y, hy, _, _, _, _⟩ := hprevOK
      have h0 : t0 + m' ≠ 0 := by omega
      have hcabs1 := (hcabs (t0 + m' - 1) (by omega)).1
      have hs := rsi_step (dOps (nm ++ "_data") ((t0 + m' : Nat) : Int))
        { cs := midW (rsiOut nm) cs rows (t0 + m'), i := ((t0 + m' : Nat) : Int), name := nm } p input
        (fun v => done ++ setKey true (nm ++ "_data") v c :: cs.drop (t0 + m' + 1))
        (.flt y) (r (m' - 1)) (r m')
        (.flt (wilderAvg p (upAt (fun k => (r k).toF)) (m' - 1)))
        (.flt (wilderAvg p (downAt (fun k => (r k).toF)) (m' - 1)))
        (by show _ = Except.ok _
            rw [hprev, if_neg h0, rsiOut_own' nm hk, hy])
        (by rw [hprev, if_neg h0, rsiOut_input' nm input hid h1 h2, hnum (t0 + m' - 1) (by omega) (by omega),
              show t0 + m' - 1 - t0 = m' - 1 by omega])
        (by have := V.cur (by omega)
            rwa [hsub] at this)
        (by show _ = Except.ok _
            rw [hprev, if_neg h0, rsiOut_field' nm "gain" _ hn.ne hn.gain _ hcabs1, hd2, rsiData_gain])
        (by show _ = Except.ok _
            rw [hprev, if_neg h0, rsiOut_field' nm "loss" _ hn.ne hn.loss _ hcabs1, hd2, rsiData_loss])
        hset hdata hrg hrlo hp
        (wilderAvg_nonneg p hp _ (upAt_nonneg _) _) (wilderAvg_nonneg p hp _ (downAt_nonneg _) _)
      have hG : ((Num.flt (wilderAvg p (upAt (fun k => (r k).toF)) (m' - 1)) : Num K).toF * ((p : K) - 1)
            + gainOf ((r (m' - 1)).toF - (r m').toF)) / (p : K)
          = wilderAvg p (upAt (fun k => (r k).toF)) m' := by
        rw [wilderAvg_step p _ m' (by omega), gainOf_sub]; rfl
      have hL : ((Num.flt (wilderAvg p (downAt (fun k => (r k).toF)) (m' - 1)) : Num K).toF * ((p : K) - 1)
            + lossOf ((r (m' - 1)).toF - (r m').toF)) / (p : K)
          = wilderAvg p (downAt (fun k => (r k).toF)) m' := by
        rw [wilderAvg_step p _ m' (by omega), lossOf_sub]; rfl
      rw [hG, hL] at hs
      exact hs

/-! ### `C06_chained_FULL`: the statement, its refutation, the corrected statement -/

/-- `Hex.C06.C06_chained_FULL`, restated verbatim (`inputSeriesAt` = `Hex.C06.inputAt`) -/
def C06ChainedFullStatement : Prop :=
  ∀ (K : Type) [Field K] [LinearOrder K] [IsStrictOrderedRing K] [LawfulPyF K]
    (p : Nat) (nm input : String) (n t0 : Nat) (cs : List (Candle K)) (x : Nat → K),
    1 ≤ p → IsKey nm → RsiNames nm → NoDot input → input ≠ nm → input ≠ nm ++ "_data" →
    (∀ c ∈ cs, dlookup nm c.inds = none ∧ dlookup nm c.subs = none ∧
      dlookup (nm ++ "_data") c.inds = none ∧ dlookup (nm ++ "_data") c.subs = none) →
    (∀ j, j < cs.length → inputSeriesAt cs input j = if j < t0 then none else some (x (j - t0))) →
    ∃ out : List (Candle K), out.length = cs.length ∧
      engineCalc (mkTop (.rsi (p : Int) input : Kind K) nm n) cs = .ok out ∧
      ∀ j, j < cs.length →
        (j < t0 → readingByCandle (out.getD j default) nm = .none) ∧
        (t0 ≤ j → RsiOwnOK n (rsiSeries p x (j - t0)) (readingByCandle (out.getD j default) nm))

/-- `C06_chained_FULL` with the missing hypothesis made explicit: on the first `t0` candles the input
reading is `None` -/
def C06ChainedPartialStatement : Prop :=
  ∀ (K : Type) [Field K] [LinearOrder K] [IsStrictOrderedRing K] [LawfulPyF K]
    (p : Nat) (nm input : String) (n t0 : Nat) (cs : List (Candle K)) (x : Nat → K),
    1 ≤ p → IsKey nm → RsiNames nm → NoDot input → input ≠ nm → input ≠ nm ++ "_data" →
    (∀ c ∈ cs, dlookup nm c.inds = none ∧ dlookup nm c.subs = none ∧
      dlookup (nm ++ "_data") c.inds = none ∧ dlookup (nm ++ "_data") c.subs = none) →
    (∀ j, j < cs.length → inputSeriesAt cs input j = if j < t0 then none else some (x (j - t0))) →
    (∀ j, j < cs.length → j < t0 → readingByCandle (cs.getD j default) input = .none) →
    ∃ out : List (Candle K), out.length = cs.length ∧
      engineCalc (mkTop (.rsi (p : Int) input : Kind K) nm n) cs = .ok out ∧
      ∀ j, j < cs.length →
        (j < t0 → readingByCandle (out.getD j default) nm = .none) ∧
        (t0 ≤ j → RsiOwnOK n (rsiSeries p x (j - t0)) (readingByCandle (out.getD j default) nm))

/-- **C06 for RSI, every candle list, an input that is a candle field or another indicator's scalar
reading, every start `t0`** (the corrected `C06_chained_FULL`): the engine never raises, keeps the
length, the own reading is `None` on the first `t0 + p` candles and afterwards within `ε_n` of the
textbook RSI of the input VALUES counted from `t0`, and in `[0, 100]`. -/
theorem c06_chained_partial : C06ChainedPartialStatement := by
  intro K _ _ _ _ p nm input n t0 cs x hp hk hn hid h1 h2 habs hin hnone
  obtain ⟨r, hr, hnum⟩ := input_col cs input t0 x hin
  have hx : (fun k => (r k).toF) = x := funext hr
  obtain ⟨rows, hl, hrun, hall⟩ := rsi_inputs_rows p hp nm input n t0 cs r hk hn hid h1 h2 habs hnone hnum
  refine ⟨_, decoWith_length _ _ _ hl, hrun, ?_⟩
  intro j hj
  have hc : (decoWith (rsiOut nm) cs rows).getD j default
      = rsiOut nm (cs.getD j default) (rows.getD j (.none, .none)) := by
    rw [List.getD_eq_getElem?_getD, decoWith_getElem? _ _ _ (.none, .none) j hl hj]; rfl
  rw [hc, rsiOut_own' nm hk]
  constructor
  · intro hjt
    rw [(hall j hj).1 hjt]
  · intro hjt
    obtain ⟨hlo, hhi⟩ := (hall j hj).2 hjt
    rw [← hx]
    unfold rsiSeries
    by_cases h : j - t0 < p
    · rw [if_pos h, hlo h]; rfl
    · rw [if_neg h]
      obtain ⟨_, y, hy, _, he, h0, h100⟩ := hhi (by omega)
      exact ⟨y, hy, he, h0, h100⟩

/-! #### `C06_chained_FULL` as written is false -/

theorem rsiNames_demo1 : RsiNames "RSI_1" := ⟨by decide, by decide, by decide, by decide⟩

/-- **`C06_chained_FULL` is false as written.**  `RSI(period = 1, input_value = "positive")` over the two
raw candles of `witC04`: the input readings are `bool`s, `t0 = 2` satisfies every hypothesis, and the
statement promises `None` on candle 1; the engine stores a number there (`True`/`False` count as `1`/`0`).
Replay on the pinned library: `RSI(candles=[Candle(1,3,0,2,10), Candle(2,3,0,1,10)], period=1,
input_value="positive")` → `[None, 0.0]`. -/
theorem c06_chained_full_false : ¬ C06ChainedFullStatement := by
  intro h
  obtain ⟨out, _, hrun, hq⟩ := h ℚ 1 "RSI_1" "positive" 4 2 witC04 (fun _ => 0) (by norm_num) (by decide)
    rsiNames_demo1 (by decide) (by decide) (by decide)
    (by
      intro c hc
      simp only [witC04, List.mem_cons, List.not_mem_nil, or_false] at hc
      rcases hc with rfl | rfl <;> exact ⟨rfl, rfl, rfl, rfl⟩)
    (by
      intro j hj
      have : j < 2 := hj
      interval_cases j <;> rfl)
  have h1 : readingByCandle (out.getD 1 default) "RSI_1" = .none := (hq 1 (by decide)).1 (by decide)
  have e : (engineCalc (mkTop (.rsi ((1 : Nat) : Int) "positive" : Kind ℚ) "RSI_1" 4) witC04).toOption.map
      (fun l => (readingByCandle (l.getD 1 default) "RSI_1").isNone) = some false := by decide +kernel
  rw [hrun] at e
  simp only [Except.toOption, Option.map, h1] at e
  cases e

/-! #### non-vacuity: `RSI_1` of the foreign reading `"EMA_2"` of `demoForeign` (`None, None, 12, 14, 15`) -/

example : ∃ out : List (Candle ℚ), out.length = demoForeign.length ∧
    engineCalc (mkTop (.rsi ((1 : Nat) : Int) "EMA_2" : Kind ℚ) "RSI_1" 4) demoForeign = .ok out ∧
    ∀ j, j < demoForeign.length →
      (j < 2 → readingByCandle (out.getD j default) "RSI_1" = .none) ∧
      (2 ≤ j → RsiOwnOK 4 (rsiSeries 1 demoX (j - 2)) (readingByCandle (out.getD j default) "RSI_1")) :=
  c06_chained_partial ℚ 1 "RSI_1" "EMA_2" 4 2 demoForeign demoX (by norm_num) (by decide) rsiNames_demo1
    (by decide) (by decide) (by decide)
    (by
      intro c hc
      have h1 := demoForeign_abs "RSI_1" (by decide) (by decide) (by decide) c hc
      have h2 := demoForeign_abs "RSI_1_data" (by decide) (by decide) (by decide) c hc
      exact ⟨h1.1, h1.2, h2.1, h2.2⟩)
    demoForeign_in demoForeign_none

end numeric

/-- the toy carrier: RSI of a late-starting foreign reading returns, `None` on the first `t0 + p = 3`
candles (`decide`) -/
example : (engineCalc (mkTop (.rsi 1 "EMA_2") "RSI_1" 4)
    ([{ o := .int 10, h := .int 12, l := .int 9, c := .int 11, v := .int 100 },
      { o := .int 11, h := .int 13, l := .int 10, c := .int 12, v := .int 200, inds := [("EMA_2", .none)] },
      { o := .int 12, h := .int 15, l := .int 11, c := .int 14, v := .int 300, inds := [("EMA_2", .int 12)] },
      { o := .int 14, h := .int 16, l := .int 13, c := .int 15, v := .int 0, inds := [("EMA_2", .int 14)] }]
      : List (Candle Int))).toOption.map
      (fun l => l.map fun c => (readingByCandle c "RSI_1").isNone) = some [true, true, true, false] := by
  decide +kernel

end Numeric
end Hex

#print axioms Hex.Numeric.rsi_inputs_rows
#print axioms Hex.Numeric.c06_chained_partial
#print axioms Hex.Numeric.c06_chained_full_false

import HexProofs.Numeric.TotalMoreAmorph
import HexProofs.Numeric.TotalMoreHA
import HexProofs.Footprint.Schedule
import HexProofs.Manager2.TwinTrees
/-!
# Totality on managers with a LIFESPAN (property C09, item (d))

`trim_candles` drops a prefix of the stored candles after every append; the indicator then resumes
on a list whose old candles carry readings computed when more history was present.  Is the run
still total?  It DEPENDS ON THE KIND – "every call is guarded" is false:

* **FALSE without a retention hypothesis** for the kinds whose recurrence reads an explicit
  look-back index once a previous reading exists: `SMA`, `ROC` (`reading(input, index − period)`),
  `WMA`, `VWMA` (window sum anchored at `index − period`), hence `BBANDS` (SMA helper) and `HMA` (WMA
  helpers).  When the trim keeps fewer candles than the look-back, `index − period` is below
  `−len(candles)` and `self.candles[…]` raises `IndexError` – `sma_raises_after_trim`, …,
  `hma_raises_after_trim` (model, `decide +kernel`; replayed on the library: same exception).
* **TRUE unconditionally** (every stream, every schedule, lifespan `≥ 0`, with or without Heikin-Ashi
  conversion, every float carrier) for `Amorph` over all twenty functions: they are total on ANY
  candle list and index (C16), and the resume logic only needs that – `amorph_never_raises_lifespan`,
  from the generic `pointTotal_live`.
* **TRUE under the retention hypothesis of C15** (`RetainsFrom (max 1 W)`, `W` the kind's footprint:
  at every append that pops, `max 1 W` finished candles from before the append survive) for EVERY
  leaf kind that is total on the base timeframe – `leaf_never_raises_lifespan`, instances
  `leaves_never_raise_lifespan` (SMA, EMA, RMA, WMA, VWMA, HLA, TR, OBV), `windows_never_raise_lifespan`
  (HighestLowest, Donchian, Aroon), `counter_never_raises_lifespan`: the trimmed run IS the untrimmed run minus
  the popped candles (`twin_schedule_window`, same exception if any), and the untrimmed run returns (C09 on
  `MgrSpec.base`).  The COMPOSITE classes (helper series, managed children) under the same hypothesis with the
  tree's look-back `treeLook`: TotalMoreLifeTrees.lean.
-/
set_option linter.unusedSectionVars false
set_option linter.unusedVariables false
namespace Hex
open Hex.Numeric
variable {F : Type} [PyF F]

/-! ### `trim_candles` never raises for a non-negative lifespan -/

theorem dropWhile_nil_all {α : Type} (p : α → Bool) (l : List α) (h : l.dropWhile p = []) : ∀ x ∈ l, p x = true := by
  induction l with
  | nil => intro x hx; cases hx
  | cons a r ih =>
    by_cases ha : p a = true
    · rw [List.dropWhile_cons_of_pos ha] at h
      intro x hx
      rcases List.mem_cons.1 hx with rfl | hx
      · exact ha
      · exact ih h x hx
    · rw [List.dropWhile_cons_of_neg ha] at h; cases h

theorem trim_total (life : Int) (hlife : 0 ≤ life) (cs : List (Candle F)) :
    ∃ r, trimCandles (some life) cs = .ok r ∧ r.length ≤ cs.length := by
  unfold trimCandles
  cases hl : cs.getLast? with
  | none => exact ⟨cs, rfl, le_refl _⟩
  | some lastC =>
    simp only
    cases hts : lastC.ts with
    | none => exact ⟨cs, rfl, le_refl _⟩
    | some latest =>
      simp only
      have hne : (cs.dropWhile (tooOld (latest - life))).isEmpty = false := by
        cases he : (cs.dropWhile (tooOld (latest - life))).isEmpty with
        | false => rfl
        | true =>
          exfalso
          have hnil := List.isEmpty_iff.1 he
          have := dropWhile_nil_all _ _ hnil lastC (List.mem_of_getLast? hl)
          simp only [tooOld, hts, decide_eq_true_eq] at this
          omega
      rw [hne]
      exact ⟨_, rfl, (List.dropWhile_sublist _).length_le⟩

/-! ### leaves whose reading is total at every valid index of every list -/

/-- `_calculate_reading` of the leaf returns at every valid index of EVERY candle list (whatever
readings the candles carry) -/
def PointTotal (ind : Ind F) : Prop :=
  ∀ (cs : List (Candle F)) (i : Nat), i < cs.length →
    ∃ v, readKind ind.kind { cs := cs, i := (i : Int), name := ind.name } = .ok v

theorem leafLoop_total (ind : Ind F) (hpt : PointTotal ind) :
    ∀ (n : Nat) (cs : List (Candle F)) (k : Nat), (n = 0 ∨ k + n ≤ cs.length) →
      ∃ out, leafLoop ind cs k n = .ok out ∧ out.length = cs.length := by
  intro n
  induction n with
  | zero => intro cs k _; exact ⟨cs, rfl, rfl⟩
  | succ n ih =>
    intro cs k hk
    have hkl : k < cs.length := by omega
    rw [leafLoop]
    have hpy : pyIndex cs (k : Int) = .ok cs[k] := by
      rw [pyIndex_nonneg _ _ (by omega)]
      simp [List.getElem?_eq_getElem hkl, getOrIndexError]
    rw [hpy]
    simp only [bind, Except.bind]
    by_cases hp : present ind.name cs[k] = true
    · simp only [hp, if_true, pure, Except.pure]
      exact ih cs (k + 1) (by omega)
    · simp only [hp, Bool.false_eq_true, if_false]
      obtain ⟨v, hv⟩ := hpt cs k hkl
      unfold stepLeaf
      rw [hv]
      simp only [bind, Except.bind]
      rw [setReading_eq, updateAt_nat cs k _ hkl]
      simp only
      obtain ⟨out, ho, hlen⟩ := ih (cs.modify k (setKey ind.isSub ind.name (v.roundBy ind.round))) (k + 1)
        (by rw [List.length_modify]; omega)
      exact ⟨out, ho, by rw [hlen, List.length_modify]⟩

/-- `calculate()` of a point-total leaf returns on EVERY state -/
theorem pointTotal_calculate (ind : Ind F) (hl : IsLeaf ind) (hpt : PointTotal ind) (cfg : MgrCfg)
    (cs : List (Candle F)) (a : Int) :
    ∃ out a', IndState.calculate ({ tree := ind, mgr := { cfg := cfg, candles := cs }, active := a } : IndState F)
      = .ok { tree := ind, mgr := { cfg := cfg, candles := out }, active := a' } := by
  rw [IndState.calculate_leaf _ hl]
  simp only
  obtain ⟨out, ho, _⟩ := leafLoop_total ind hpt (cs.length - findCalcIndex ind.name cs) cs
    (findCalcIndex ind.name cs) (by omega)
  unfold leafCalc
  rw [ho]
  exact ⟨out, _, rfl⟩

/-- **A point-total leaf never raises on ANY manager whose tasks return**: construction,
`calculate()`, any appends.  (No hypothesis on the stream, on what the trim retains, or on the
readings the old candles carry.) -/
theorem pointTotal_live (ind : Ind F) (hl : IsLeaf ind) (hpt : PointTotal ind) (cfg : MgrCfg)
    (htasks : ∀ cs : List (Candle F), ∃ out, tasks cfg cs = .ok out)
    (init : List (Candle F)) (chunks : List (List (Candle F))) :
    ∃ snap, candlesOf (runIndicator ind cfg init chunks) = .ok snap := by
  have happ : ∀ (chunks : List (List (Candle F))) (cs : List (Candle F)) (a : Int),
      ∃ snap, candlesOf (chunks.foldlM (fun (st : IndState F) ch => st.append ch)
        { tree := ind, mgr := { cfg := cfg, candles := cs }, active := a }) = .ok snap := by
    intro chunks
    induction chunks with
    | nil => intro cs a; exact ⟨cs, rfl⟩
    | cons ch rest ih =>
      intro cs a
      simp only [List.foldlM_cons]
      obtain ⟨cs1, hcs1⟩ : ∃ cs1, Manager.append ({ cfg := cfg, candles := cs } : Manager F) ch
          = .ok { cfg := cfg, candles := cs1 } := by
        unfold Manager.append
        by_cases he : ch.isEmpty = true
        · exact ⟨cs, by simp [he]⟩
        · obtain ⟨out, ho⟩ := htasks (cs ++ ch)
          exact ⟨out, by simp [he, ho, bind, Except.bind, pure, Except.pure]⟩
      obtain ⟨out, a', hc⟩ := pointTotal_calculate ind hl hpt cfg cs1 a
      have hstep : IndState.append ({ tree := ind, mgr := { cfg := cfg, candles := cs }, active := a } : IndState F) ch
          = .ok { tree := ind, mgr := { cfg := cfg, candles := out }, active := a' } := by
        unfold IndState.append
        simp only [hcs1, bind, Except.bind]
        exact hc
      rw [hstep]
      exact ih out a'
  unfold runIndicator IndState.init Manager.init
  obtain ⟨cs0, h0⟩ := htasks init
  rw [h0]
  simp only [bind, Except.bind, pure, Except.pure]
  obtain ⟨out, a', hc⟩ := pointTotal_calculate ind hl hpt cfg cs0 0
  rw [hc]
  exact happ chunks out a'

/-- the tasks of a manager with a lifespan `≥ 0` (and nothing else) return on every list -/
theorem tasks_life_total (life : Int) (hlife : 0 ≤ life) (cs : List (Candle F)) :
    ∃ out, tasks ({ lifespan := some life } : MgrCfg) cs = .ok out := by
  have : tasks ({ lifespan := some life } : MgrCfg) cs = trimCandles (some life) cs := tasks_lifeOnly life cs
  rw [this]
  obtain ⟨r, hr, _⟩ := trim_total life hlife cs
  exact ⟨r, hr⟩

/-- … also with Heikin-Ashi conversion: conversion resumes anywhere and never raises -/
theorem tasks_ha_life_total (life : Int) (hlife : 0 ≤ life) (cs : List (Candle F)) :
    ∃ out, tasks ({ ha := true, lifespan := some life } : MgrCfg) cs = .ok out := by
  cases cs with
  | nil => exact ⟨[], rfl⟩
  | cons c r =>
    unfold tasks collapseCandles
    simp only [bind, Except.bind, List.isEmpty_cons, Bool.not_false, Bool.and_self, if_true]
    unfold convertCandles
    rw [convertFrom_eq]
    simp only
    obtain ⟨r', hr, _⟩ := trim_total life hlife
      (haFold ((c :: r).take (findConvIndex (c :: r))) ((c :: r).drop (findConvIndex (c :: r))))
    exact ⟨r', hr⟩

/-! ### Amorph: unconditional -/

theorem amorph_pointTotal (a : Analysis) (nm : String) (n : Nat) : PointTotal (mkTop (.amorph a : Kind F) nm n) := by
  intro cs i _
  rw [mkTop_kind]
  exact Ana.runAnalysis_total a cs i

/-- **`Amorph` never raises on a manager with a lifespan** (`≥ 0`), with or without Heikin-Ashi
conversion – UNCONDITIONALLY: every wrapped function, every argument, every float carrier, EVERY
candle stream (stamped or not, sorted or not, whatever readings), every construction prefix and
append schedule, whatever the trim retains. -/
theorem amorph_never_raises_lifespan (a : Analysis) (nm : String) (n : Nat) (life : Int) (hlife : 0 ≤ life)
    (init : List (Candle F)) (chunks : List (List (Candle F))) :
    (∃ snap, candlesOf (runIndicator (mkTop (.amorph a : Kind F) nm n) { lifespan := some life } init chunks)
      = .ok snap) ∧
    (∃ snap, candlesOf (runIndicator (mkTop (.amorph a : Kind F) nm n) { ha := true, lifespan := some life }
      init chunks) = .ok snap) :=
  ⟨pointTotal_live _ (isLeaf_mkTop _ _ _ rfl rfl) (amorph_pointTotal a nm n) _ (tasks_life_total life hlife) init chunks,
   pointTotal_live _ (isLeaf_mkTop _ _ _ rfl rfl) (amorph_pointTotal a nm n) _ (tasks_ha_life_total life hlife)
    init chunks⟩

/-! ### every leaf kind under the retention hypothesis of C15 -/

/-- **A leaf kind that never raises on the base timeframe never raises on a lifespan manager that
retains its footprint**: if nothing is popped at construction and at every append that pops
`max 1 W` finished candles from before the append survive (`W = window k`, the footprint of one
reading), the lifespan run returns – with the candles of the untrimmed run minus the popped ones. -/
theorem leaf_never_raises_lifespan (k : Kind F) (nm : String) (n : Nat) (hc : Covered nm k)
    (W : Nat) (hw : window k = some W) (hbase : NeverRaises (MgrSpec.base F) (mkTop k nm n))
    (life : Int) (init : List (Candle F)) (chunks : List (List (Candle F)))
    (hp : ∀ c ∈ init ++ chunks.flatten, Plain c) (hinit : trimCandles (some life) init = .ok init)
    (hret : RetainsFrom (max 1 W) life init init.length chunks) :
    ∃ snap d, candlesOf (runIndicator (mkTop k nm n) { lifespan := some life } init chunks) = .ok (snap.drop d) ∧
      candlesOf (runIndicator (mkTop k nm n) {} init chunks) = .ok snap := by
  obtain ⟨d, hd⟩ := twin_schedule_window k nm n hc W hw life init chunks hp hinit hret
  obtain ⟨snap, hs⟩ := hbase init chunks hp
  refine ⟨snap, d, ?_, hs⟩
  have hd' : candlesOf (runIndicator (mkTop k nm n) { lifespan := some life } init chunks)
      = (candlesOf (runIndicator (mkTop k nm n) {} init chunks)).map (·.drop d) := hd
  have hs' : candlesOf (runIndicator (mkTop k nm n) {} init chunks) = .ok snap := hs
  rw [hd', hs']; rfl

/-- the same for every `Amorph` (its footprint is `Foot.anaWindow a`) – with the candles identified -/
theorem amorph_lifespan_twin (a : Analysis) (nm : String) (n : Nat) (hin : ∀ x ∈ a.names, AttrInput x)
    (life : Int) (init : List (Candle F)) (chunks : List (List (Candle F)))
    (hp : ∀ c ∈ init ++ chunks.flatten, Plain c) (hinit : trimCandles (some life) init = .ok init)
    (hret : RetainsFrom (max 1 (Foot.anaWindow a)) life init init.length chunks) :
    ∃ snap d, candlesOf (runIndicator (mkTop (.amorph a : Kind F) nm n) { lifespan := some life } init chunks)
        = .ok (snap.drop d) ∧
      candlesOf (runIndicator (mkTop (.amorph a : Kind F) nm n) {} init chunks) = .ok snap :=
  leaf_never_raises_lifespan _ nm n (Covered.amorph a hin) _ rfl
    (amorph_never_raises (MgrSpec.base F) a nm n hin) life init chunks hp hinit hret

/-- **Counter on a lifespan manager** (every float carrier): one retained finished candle suffices -/
theorem counter_never_raises_lifespan (nm input : String) (fld : Candle F → Num F) (cv : Scalar F) (n : Nat)
    (hk : IsKey nm) (hin : AttrInput input) (hattr : ∀ c : Candle F, c.attr input = some (.num (fld c)))
    (life : Int) (init : List (Candle F)) (chunks : List (List (Candle F)))
    (hp : ∀ c ∈ init ++ chunks.flatten, Plain c) (hinit : trimCandles (some life) init = .ok init)
    (hret : RetainsFrom 1 life init init.length chunks) :
    ∃ snap d, candlesOf (runIndicator (mkTop (.counter input cv : Kind F) nm n) { lifespan := some life } init chunks)
        = .ok (snap.drop d) ∧
      candlesOf (runIndicator (mkTop (.counter input cv : Kind F) nm n) {} init chunks) = .ok snap :=
  leaf_never_raises_lifespan _ nm n (Covered.counter input cv hin) 1 rfl
    (counter_live_total (MgrSpec.base F) nm input fld cv n hk hin hattr).1 life init chunks hp hinit hret

/-- retaining more is retaining enough -/
theorem RetainsFrom.mono {L L' : Nat} (hL : L ≤ L') (life : Int) (chunks : List (List (Candle F))) :
    ∀ (m : List (Candle F)) (total : Nat), RetainsFrom L' life m total chunks → RetainsFrom L life m total chunks := by
  induction chunks with
  | nil => intro m total _; trivial
  | cons ch rest ih =>
    intro m total h
    rcases h with ⟨hce, h⟩ | ⟨hne, m', htrim, hcount, h⟩
    · exact Or.inl ⟨hce, ih m total h⟩
    · refine Or.inr ⟨hne, m', htrim, ?_, ih m' _ h⟩
      rcases hcount with hc | hc
      · exact Or.inl hc
      · exact Or.inr (by omega)

end Hex

namespace Hex.Numeric
variable {K : Type} [Field K] [LinearOrder K] [IsStrictOrderedRing K] [LawfulPyF K]

/-- **SMA, EMA, RMA, WMA, VWMA, HLA, TR, OBV never raise on a lifespan manager that retains `period`
finished candles at every popping append** (`period ≥ 2`; SMA needs `period`, the other averages
`period − 1`, TR / OBV one, HLA none): the run returns, with the untrimmed run's candles minus the
popped ones. -/
theorem leaves_never_raise_lifespan (p : Nat) (hp : 2 ≤ p) (nm : String) (n : Nat) (hk : IsKey nm)
    (life : Int) (init : List (Candle K)) (chunks : List (List (Candle K)))
    (hpl : ∀ c ∈ init ++ chunks.flatten, Plain c) (hinit : trimCandles (some life) init = .ok init)
    (hret : RetainsFrom p life init init.length chunks) :
    ∀ k ∈ ([.sma p "close", .ema p "close" (fl 2), .rma p "close", .wma p "close", .vwma p, .hla, .tr, .obv] :
        List (Kind K)),
      ∃ snap d, candlesOf (runIndicator (mkTop k nm n) { lifespan := some life } init chunks) = .ok (snap.drop d) ∧
        candlesOf (runIndicator (mkTop k nm n) {} init chunks) = .ok snap := by
  obtain ⟨h1, h2, h3, h4, h5, h6, h7, h8⟩ := leaves_never_raise_ha (MgrSpec.base K) p hp nm n hk
  have hin : AttrInput "close" := ⟨noDot_close, by decide⟩
  have hpi : (1 : Int) ≤ (p : Int) := by omega
  have mono : ∀ W, max 1 W ≤ p → RetainsFrom (max 1 W) life init init.length chunks :=
    fun W hW => RetainsFrom.mono hW life chunks init _ hret
  intro k hk'
  simp only [List.mem_cons, List.not_mem_nil, or_false] at hk'
  rcases hk' with rfl | rfl | rfl | rfl | rfl | rfl | rfl | rfl
  · exact leaf_never_raises_lifespan _ nm n (Covered.sma (p : Int) "close" hpi hk hin) _ rfl h1 life init chunks hpl
      hinit (mono _ (by simp; omega))
  · exact leaf_never_raises_lifespan _ nm n (Covered.ema (p : Int) "close" (fl 2) hpi hin) _ rfl h2 life init chunks
      hpl hinit (mono _ (by simp; omega))
  · exact leaf_never_raises_lifespan _ nm n (Covered.rma (p : Int) "close" hpi hin) _ rfl h3 life init chunks hpl
      hinit (mono _ (by simp; omega))
  · exact leaf_never_raises_lifespan _ nm n (Covered.wma (p : Int) "close" hpi hk hin) _ rfl h4 life init chunks hpl
      hinit (mono _ (by simp; omega))
  · exact leaf_never_raises_lifespan _ nm n (Covered.vwma (p : Int) hpi hk) _ rfl h5 life init chunks hpl
      hinit (mono _ (by simp; omega))
  · exact leaf_never_raises_lifespan _ nm n Covered.hla _ rfl h6 life init chunks hpl hinit (mono _ (by simp; omega))
  · exact leaf_never_raises_lifespan _ nm n Covered.tr _ rfl h7 life init chunks hpl hinit (mono _ (by simp; omega))
  · exact leaf_never_raises_lifespan _ nm n Covered.obv _ rfl h8 life init chunks hpl hinit (mono _ (by simp; omega))

/-- **HighestLowest, Donchian, Aroon never raise on a lifespan manager that retains `period` finished
candles at every popping append** -/
theorem windows_never_raise_lifespan (p : Nat) (hp : 2 ≤ p) (nm : String) (n : Nat) (hk : IsKey nm) (hn : DcNames nm)
    (life : Int) (init : List (Candle K)) (chunks : List (List (Candle K)))
    (hpl : ∀ c ∈ init ++ chunks.flatten, Plain c) (hinit : trimCandles (some life) init = .ok init)
    (hret : RetainsFrom p life init init.length chunks) :
    ∀ k ∈ ([.hl p, .donchian p, .aroon p] : List (Kind K)),
      ∃ snap d, candlesOf (runIndicator (mkTop k nm n) { lifespan := some life } init chunks) = .ok (snap.drop d) ∧
        candlesOf (runIndicator (mkTop k nm n) {} init chunks) = .ok snap := by
  have mono : ∀ W, max 1 W ≤ p → RetainsFrom (max 1 W) life init init.length chunks :=
    fun W hW => RetainsFrom.mono hW life chunks init _ hret
  intro k hk'
  simp only [List.mem_cons, List.not_mem_nil, or_false] at hk'
  rcases hk' with rfl | rfl | rfl
  · exact leaf_never_raises_lifespan _ nm n (Covered.hl (p : Int)) _ rfl (hl_live_total (MgrSpec.base K) p (by omega) nm n hk).1
      life init chunks hpl hinit (mono _ (by simp; omega))
  · exact leaf_never_raises_lifespan _ nm n (Covered.donchian (p : Int) (by omega)) _ rfl
      (donchian_live_total (MgrSpec.base K) p hp nm n hn).1 life init chunks hpl hinit (mono _ (by simp; omega))
  · exact leaf_never_raises_lifespan _ nm n (Covered.aroon (p : Int) (by omega)) _ rfl
      (aroon_live_total (MgrSpec.base K) p (by omega) nm n hk).1 life init chunks hpl hinit (mono _ (by simp; omega))

end Hex.Numeric

/-! ### the witnesses: short retention DOES raise (toy carrier `Int`, `decide +kernel`) -/

namespace Hex
section Witness
set_option synthInstance.maxSize 2000

/-- the run raised `IndexError` -/
def raisesIndexError {α : Type} (r : PyM α) : Bool :=
  match r with
  | .error .indexError => true
  | _ => false

theorem of_raisesIndexError {α : Type} {r : PyM α} (h : raisesIndexError r = true) : r = .error .indexError := by
  cases r with
  | ok a => simp [raisesIndexError] at h
  | error e => cases e <;> simp_all [raisesIndexError]

private def mkL (o h l c v t : Int) : Candle Int :=
  { o := .int o, h := .int h, l := .int l, c := .int c, v := .int v, ts := some t }

/-- `n` well-formed raw candles, one per second from stamp 0, prices rising by one -/
def lifeInit (n : Nat) : List (Candle Int) :=
  (List.range n).map fun (j : Nat) => mkL (10 + j) (12 + j) (9 + j) (11 + j) 100 j
/-- one more well-formed candle at stamp `t` -/
def lifeNew (t : Int) : List (Candle Int) := [mkL 57 59 56 58 100 t]

/-- construct over `n` candles with a 30-second lifespan, `calculate()`, append the candle stamped `t` -/
def lifeRun (k : Kind Int) (nm : String) (n : Nat) (t : Int) : PyM (List (Candle Int)) :=
  candlesOf (runIndicator (mkTop k nm 4) { lifespan := some 30 } (lifeInit n) [lifeNew t])
/-- the untrimmed twin -/
def baseRun (k : Kind Int) (nm : String) (n : Nat) (t : Int) : PyM (List (Candle Int)) :=
  candlesOf (runIndicator (mkTop k nm 4) {} (lifeInit n) [lifeNew t])

example : ∀ c ∈ lifeInit 5 ++ lifeNew 34, Plain c := by decide
example : trimCandles (some 30) (lifeInit 5) = .ok (lifeInit 5) := rfl
/-- the append of stamp 34 pops the candles 0 … 3: ONE finished candle (stamp 4) is retained -/
example : trimCandles (some 30) (lifeInit 5 ++ lifeNew 34) = .ok ((lifeInit 5 ++ lifeNew 34).drop 4) := rfl

/-- **SMA(4) raises `IndexError` after the trim** (one finished candle retained: `prev_exists()` holds,
`reading(close, index − 4)` asks for index `−3` of a two-candle list) – while the untrimmed twin returns -/
theorem sma_raises_after_trim :
    lifeRun (.sma 4 "close") "SMA_4" 5 34 = .error .indexError ∧ (baseRun (.sma 4 "close") "SMA_4" 5 34).toOption.isSome :=
  ⟨of_raisesIndexError (by decide +kernel), by decide +kernel⟩

/-- **ROC(4) raises `IndexError` after the trim** -/
theorem roc_raises_after_trim :
    lifeRun (.roc 4 "close") "ROC" 5 34 = .error .indexError ∧ (baseRun (.roc 4 "close") "ROC" 5 34).toOption.isSome :=
  ⟨of_raisesIndexError (by decide +kernel), by decide +kernel⟩

/-- **BBANDS(4) raises `IndexError` after the trim** (its SMA helper) -/
theorem bbands_raises_after_trim :
    lifeRun (.bbands 4 "close") "BBANDS_4" 5 34 = .error .indexError ∧
    (baseRun (.bbands 4 "close") "BBANDS_4" 5 34).toOption.isSome :=
  ⟨of_raisesIndexError (by decide +kernel), by decide +kernel⟩

/-- **WMA(5) raises `IndexError` after the trim** (six candles, append at stamp 35: one retained) -/
theorem wma_raises_after_trim :
    lifeRun (.wma 5 "close") "WMA_5" 6 35 = .error .indexError ∧ (baseRun (.wma 5 "close") "WMA_5" 6 35).toOption.isSome :=
  ⟨of_raisesIndexError (by decide +kernel), by decide +kernel⟩

/-- **VWMA(5) raises `IndexError` after the trim** -/
theorem vwma_raises_after_trim :
    lifeRun (.vwma 5) "VWMA_5" 6 35 = .error .indexError ∧ (baseRun (.vwma 5) "VWMA_5" 6 35).toOption.isSome :=
  ⟨of_raisesIndexError (by decide +kernel), by decide +kernel⟩

/-- **HMA(5) raises `IndexError` after the trim** (its WMA helpers; seven candles, append at stamp 36) -/
theorem hma_raises_after_trim :
    lifeRun (.hma 5 "close") "HMA_5" 7 36 = .error .indexError ∧ (baseRun (.hma 5 "close") "HMA_5" 7 36).toOption.isSome :=
  ⟨of_raisesIndexError (by decide +kernel), by decide +kernel⟩

/-- the other kinds return on the SMA witness (one finished candle retained): the recursive averages,
the data-series kinds, the helper composites, the window kinds and `Amorph` -/
example : ∀ r ∈ [lifeRun (.ema 4 "close" (.int 2)) "EMA_4" 5 34, lifeRun (.rma 4 "close") "RMA_4" 5 34,
      lifeRun (.wma 4 "close") "WMA_4" 5 34, lifeRun (.stdev 4 "close") "STDEV_4" 5 34, lifeRun (.atr 4) "ATR_4" 5 34,
      lifeRun (.rsi 4 "close") "RSI_4" 5 34, lifeRun (.kc 4 "close" (.int 2)) "KC_4" 5 34,
      lifeRun (.macd 2 4 2 "close") "MACD_2_4_2" 5 34, lifeRun (.stoch 4 3 3 "close") "STOCH_4" 5 34,
      lifeRun (.tsi 4 2 "close") "TSI_4_2" 5 34, lifeRun (.adx 4 4) "ADX_4_4" 5 34,
      lifeRun (.supertrend 4 "close" (.int 3)) "ST_4" 5 34, lifeRun (.donchian 4) "DC_4" 5 34,
      lifeRun (.aroon 4) "AROON_4" 5 34, lifeRun (.hl 4) "HL_4" 5 34, lifeRun (.vwap 4) "VWAP_4" 5 34,
      lifeRun .obv "OBV" 5 34, lifeRun .tr "TR" 5 34, lifeRun (.amorph (.rising "close" 4)) "rising_4" 5 34],
    r.toOption.isSome = true := by decide +kernel

/-! non-vacuity of the positive theorems -/

/-- SMA(4) with FOUR finished candles retained (eight candles, append at stamp 34 pops 0 … 3) … -/
theorem lifeDemo_retains4 : RetainsFrom 4 30 (lifeInit 8) (lifeInit 8).length [lifeNew 34, [], lifeNew 35] :=
  Or.inr ⟨by decide, (lifeInit 8 ++ lifeNew 34).drop 4, rfl, Or.inr (by decide),
    Or.inl ⟨rfl, Or.inr ⟨by decide, (lifeInit 8 ++ lifeNew 34 ++ lifeNew 35).drop 5, rfl,
      Or.inr (by decide), trivial⟩⟩⟩

/-- … returns, and holds the untrimmed twin's candles minus the five popped ones -/
example : (candlesOf (runIndicator (mkTop (.sma 4 "close") "SMA_4" 4 : Ind Int) { lifespan := some 30 } (lifeInit 8)
      [lifeNew 34, [], lifeNew 35])).toOption.map (·.map view)
    = (candlesOf (runIndicator (mkTop (.sma 4 "close") "SMA_4" 4 : Ind Int) {} (lifeInit 8)
      [lifeNew 34, [], lifeNew 35])).toOption.map (fun cs => (cs.drop 5).map view) ∧
    (candlesOf (runIndicator (mkTop (.sma 4 "close") "SMA_4" 4 : Ind Int) { lifespan := some 30 } (lifeInit 8)
      [lifeNew 34, [], lifeNew 35])).toOption.isSome := by decide +kernel

/-- `Amorph` – unconditional: `rising(close, 4)` and the pattern `doji` on the SMA witness, with and
without Heikin-Ashi conversion (the theorem applied, and the run itself) -/
example : (∃ snap, candlesOf (runIndicator (mkTop (.amorph (.rising "close" 4)) "rising_4" 4 : Ind Int)
      { lifespan := some 30 } (lifeInit 5) [lifeNew 34]) = .ok snap) ∧
    (∃ snap, candlesOf (runIndicator (mkTop (.amorph (.doji (some 3))) "doji" 4 : Ind Int)
      { ha := true, lifespan := some 30 } (lifeInit 5) [lifeNew 34]) = .ok snap) :=
  ⟨(amorph_never_raises_lifespan (.rising "close" 4) "rising_4" 4 30 (by decide) _ _).1,
   (amorph_never_raises_lifespan (.doji (some 3)) "doji" 4 30 (by decide) _ _).2⟩

example : ((candlesOf (runIndicator (mkTop (.amorph (.rising "close" 4)) "rising_4" 4 : Ind Int)
      { lifespan := some 30 } (lifeInit 5) [lifeNew 34])).toOption.map fun cs =>
        cs.map fun c => (c.ts, match readingByCandle c "rising_4" with | .s (.bool b) => some b | _ => none))
    = some [(some 4, some true), (some 34, some true)] := by decide +kernel

/-- the twin theorem applied to an `Amorph` (`highest(high, 2)`: footprint 2) on the retaining schedule -/
example : ∃ snap d, candlesOf (runIndicator (mkTop (.amorph (.highest "high" 2)) "highest_2" 4 : Ind Int)
      { lifespan := some 30 } (lifeInit 8) [lifeNew 34, [], lifeNew 35]) = .ok (snap.drop d) ∧
    candlesOf (runIndicator (mkTop (.amorph (.highest "high" 2)) "highest_2" 4 : Ind Int) {} (lifeInit 8)
      [lifeNew 34, [], lifeNew 35]) = .ok snap :=
  amorph_lifespan_twin (.highest "high" 2) "highest_2" 4 (by decide) 30 _ _ (by decide) rfl
    (RetainsFrom.mono (by decide) 30 _ _ _ lifeDemo_retains4)

end Witness
end Hex

#print axioms Hex.pointTotal_live
#print axioms Hex.amorph_never_raises_lifespan
#print axioms Hex.leaf_never_raises_lifespan
#print axioms Hex.Numeric.leaves_never_raise_lifespan
#print axioms Hex.Numeric.windows_never_raise_lifespan
#print axioms Hex.sma_raises_after_trim
#print axioms Hex.hma_raises_after_trim

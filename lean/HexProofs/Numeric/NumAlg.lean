import HexProofs.Numeric.Lawful
import HexModel.Core.Framework
import Mathlib.Algebra.Order.Ring.Cast
import Mathlib.Tactic.SplitIfs
import Mathlib.Tactic.NormNum
/-!
# Algebra of Python numbers over a lawful carrier

`Num K` is Python's `int | float`.  `Num.toF` is the real number a value denotes; every
operation of `HexModel/Py/Arith.lean` is the field operation on `toF`, comparisons decide the
order of `toF`, `truediv` is total off zero, and CPython's compensated `sum` is the plain sum
(the Neumaier compensation term is exactly `0` in a field).
-/
namespace Hex
variable {K : Type} [Field K] [LinearOrder K] [IsStrictOrderedRing K] [LawfulPyF K]


namespace Num

@[simp] theorem toF_int (a : Int) : (Num.int a : Num K).toF = (a : K) := LawfulPyF.ofInt_eq a
@[simp] theorem toF_flt (x : K) : (Num.flt x : Num K).toF = x := rfl
@[simp] theorem toF_fl (n : Int) : (fl n : Num K).toF = (n : K) := LawfulPyF.ofInt_eq n

theorem fl_eq (n : Int) : (fl n : Num K) = .flt (n : K) := by simp [fl, LawfulPyF.ofInt_eq]

@[simp] theorem toF_add (a b : Num K) : (a.add b).toF = a.toF + b.toF := by
  cases a <;> cases b <;> simp [Num.add, LawfulPyF.add_eq, Num.toF, LawfulPyF.ofInt_eq]

@[simp] theorem toF_sub (a b : Num K) : (a.sub b).toF = a.toF - b.toF := by
  cases a <;> cases b <;> simp [Num.sub, LawfulPyF.sub_eq, Num.toF, LawfulPyF.ofInt_eq]

@[simp] theorem toF_mul (a b : Num K) : (a.mul b).toF = a.toF * b.toF := by
  cases a <;> cases b <;> simp [Num.mul, LawfulPyF.mul_eq, Num.toF, LawfulPyF.ofInt_eq]

@[simp] theorem toF_neg (a : Num K) : a.neg.toF = -a.toF := by
  cases a <;> simp [Num.neg, LawfulPyF.neg_eq, Num.toF, LawfulPyF.ofInt_eq]

@[simp] theorem toF_abs (a : Num K) : a.abs.toF = |a.toF| := by
  cases a <;> simp [Num.abs, LawfulPyF.abs_eq, Num.toF, LawfulPyF.ofInt_eq]

@[simp] theorem toF_float (a : Num K) : a.float.toF = a.toF := rfl

theorem isZero_iff (a : Num K) : a.isZero = true ↔ a.toF = 0 := by
  cases a <;> simp [Num.isZero, Num.toF, LawfulPyF.ofInt_eq, LawfulPyF.isZero_iff]

theorem isZero_false (a : Num K) (h : a.toF ≠ 0) : a.isZero = false := by
  cases hz : a.isZero
  · rfl
  · exact absurd ((isZero_iff a).1 hz) h

/-- `/` is total off zero and is the field division -/
theorem truediv_ok (a b : Num K) (h : b.toF ≠ 0) :
    a.truediv b = .ok (.flt (a.toF / b.toF)) := by
  unfold Num.truediv
  rw [isZero_false b h]
  simp [LawfulPyF.div_eq _ _ h]

/-- `/` raises exactly on a zero divisor -/
theorem truediv_zero (a b : Num K) (h : b.toF = 0) : a.truediv b = .error .zeroDiv := by
  unfold Num.truediv
  rw [(isZero_iff b).2 h]; rfl

theorem lt_iff (a b : Num K) : a.lt b = true ↔ a.toF < b.toF := by
  cases a <;> cases b <;> simp [Num.lt, Num.toF, LawfulPyF.ofInt_eq, LawfulPyF.lt_iff]

theorem le_iff (a b : Num K) : a.le b = true ↔ a.toF ≤ b.toF := by
  cases a <;> cases b <;> simp [Num.le, Num.toF, LawfulPyF.ofInt_eq, LawfulPyF.le_iff]

theorem gt_iff (a b : Num K) : a.gt b = true ↔ b.toF < a.toF := lt_iff b a
theorem ge_iff (a b : Num K) : a.ge b = true ↔ b.toF ≤ a.toF := le_iff b a

theorem eq_iff (a b : Num K) : a.eq b = true ↔ a.toF = b.toF := by
  cases a <;> cases b <;> simp [Num.eq, Num.toF, LawfulPyF.ofInt_eq, LawfulPyF.beq_iff]

theorem lt_false_iff (a b : Num K) : a.lt b = false ↔ b.toF ≤ a.toF := by
  rw [← not_lt, ← lt_iff]; simp
theorem gt_false_iff (a b : Num K) : a.gt b = false ↔ a.toF ≤ b.toF := lt_false_iff b a
theorem eq_false_iff (a b : Num K) : a.eq b = false ↔ a.toF ≠ b.toF := by
  rw [Ne, ← eq_iff]; simp

@[simp] theorem toF_max2 (a b : Num K) : (Num.max2 a b).toF = max a.toF b.toF := by
  unfold Num.max2
  by_cases h : b.gt a = true
  · rw [if_pos h]; rw [gt_iff] at h; exact (max_eq_right h.le).symm
  · rw [if_neg h]; rw [gt_iff, not_lt] at h; exact (max_eq_left h).symm

@[simp] theorem toF_min2 (a b : Num K) : (Num.min2 a b).toF = min a.toF b.toF := by
  unfold Num.min2
  by_cases h : b.lt a = true
  · rw [if_pos h]; rw [lt_iff] at h; exact (min_eq_right h.le).symm
  · rw [if_neg h]; rw [lt_iff, not_lt] at h; exact (min_eq_left h).symm

theorem toF_foldl_max2 (xs : List (Num K)) (a : Num K) :
    (xs.foldl Num.max2 a).toF = xs.foldl (fun m y => max m y.toF) a.toF := by
  induction xs generalizing a with
  | nil => rfl
  | cons y ys ih => simp only [List.foldl_cons, ih, toF_max2]

theorem toF_foldl_min2 (xs : List (Num K)) (a : Num K) :
    (xs.foldl Num.min2 a).toF = xs.foldl (fun m y => min m y.toF) a.toF := by
  induction xs generalizing a with
  | nil => rfl
  | cons y ys ih => simp only [List.foldl_cons, ih, toF_min2]

theorem foldl_max_ge (xs : List (Num K)) (m : K) :
    m ≤ xs.foldl (fun m y => max m y.toF) m ∧ ∀ y ∈ xs, y.toF ≤ xs.foldl (fun m y => max m y.toF) m := by
  induction xs generalizing m with
  | nil => simp
  | cons z zs ih =>
    obtain ⟨h1, h2⟩ := ih (max m z.toF)
    refine ⟨le_trans (le_max_left _ _) h1, ?_⟩
    intro y hy
    rcases List.mem_cons.1 hy with rfl | hy
    · exact le_trans (le_max_right _ _) h1
    · exact h2 y hy

theorem foldl_min_le (xs : List (Num K)) (m : K) :
    xs.foldl (fun m y => min m y.toF) m ≤ m ∧ ∀ y ∈ xs, xs.foldl (fun m y => min m y.toF) m ≤ y.toF := by
  induction xs generalizing m with
  | nil => simp
  | cons z zs ih =>
    obtain ⟨h1, h2⟩ := ih (min m z.toF)
    refine ⟨le_trans h1 (min_le_left _ _), ?_⟩
    intro y hy
    rcases List.mem_cons.1 hy with rfl | hy
    · exact le_trans h1 (min_le_right _ _)
    · exact h2 y hy

theorem foldl_max_mem (xs : List (Num K)) (m : K) :
    xs.foldl (fun m y => max m y.toF) m = m ∨ ∃ y ∈ xs, xs.foldl (fun m y => max m y.toF) m = y.toF := by
  induction xs generalizing m with
  | nil => simp
  | cons z zs ih =>
    rcases ih (max m z.toF) with h | ⟨y, hy, h⟩
    · rcases max_choice m z.toF with e | e
      · left; simp only [List.foldl_cons]; rw [h, e]
      · right; exact ⟨z, by simp, by simp only [List.foldl_cons]; rw [h, e]⟩
    · right; exact ⟨y, by simp [hy], by simpa using h⟩

theorem foldl_min_mem (xs : List (Num K)) (m : K) :
    xs.foldl (fun m y => min m y.toF) m = m ∨ ∃ y ∈ xs, xs.foldl (fun m y => min m y.toF) m = y.toF := by
  induction xs generalizing m with
  | nil => simp
  | cons z zs ih =>
    rcases ih (min m z.toF) with h | ⟨y, hy, h⟩
    · rcases min_choice m z.toF with e | e
      · left; simp only [List.foldl_cons]; rw [h, e]
      · right; exact ⟨z, by simp, by simp only [List.foldl_cons]; rw [h, e]⟩
    · right; exact ⟨y, by simp [hy], by simpa using h⟩

/-- Python `max(list)` is an upper bound of the list and one of its elements -/
theorem maxList_spec (xs : List (Num K)) (m : Num K) (h : Num.maxList xs = some m) :
    (∀ y ∈ xs, y.toF ≤ m.toF) ∧ ∃ y ∈ xs, m.toF = y.toF := by
  cases xs with
  | nil => simp [Num.maxList] at h
  | cons x xs =>
    simp only [Num.maxList, Option.some.injEq] at h
    subst h
    rw [toF_foldl_max2]
    obtain ⟨h1, h2⟩ := foldl_max_ge xs x.toF
    constructor
    · intro y hy
      rcases List.mem_cons.1 hy with rfl | hy
      · exact h1
      · exact h2 y hy
    · rcases foldl_max_mem xs x.toF with e | ⟨y, hy, e⟩
      · exact ⟨x, by simp, e⟩
      · exact ⟨y, by simp [hy], e⟩

/-- Python `min(list)` is a lower bound of the list and one of its elements -/
theorem minList_spec (xs : List (Num K)) (m : Num K) (h : Num.minList xs = some m) :
    (∀ y ∈ xs, m.toF ≤ y.toF) ∧ ∃ y ∈ xs, m.toF = y.toF := by
  cases xs with
  | nil => simp [Num.minList] at h
  | cons x xs =>
    simp only [Num.minList, Option.some.injEq] at h
    subst h
    rw [toF_foldl_min2]
    obtain ⟨h1, h2⟩ := foldl_min_le xs x.toF
    constructor
    · intro y hy
      rcases List.mem_cons.1 hy with rfl | hy
      · exact h1
      · exact h2 y hy
    · rcases foldl_min_mem xs x.toF with e | ⟨y, hy, e⟩
      · exact ⟨x, by simp, e⟩
      · exact ⟨y, by simp [hy], e⟩

/-- `x ** n` for a natural exponent -/
@[simp] theorem toF_powF (a : Num K) (n : Nat) : (a.powF (n : Int)).toF = a.toF ^ n := by
  simp [Num.powF, LawfulPyF.pow_nat]

/-- `math.sqrt` never raises on a non-negative argument -/
theorem sqrt_ok (a : Num K) (h : 0 ≤ a.toF) : a.sqrt = .ok (.flt (PyF.sqrt a.toF)) := by
  unfold Num.sqrt
  have : a.lt (.int 0) = false := by rw [lt_false_iff]; simpa using h
  simp [this]

/-- `math.sqrt` raises exactly on a negative argument -/
theorem sqrt_neg (a : Num K) (h : a.toF < 0) : a.sqrt = .error .valueError := by
  unfold Num.sqrt
  have : a.lt (.int 0) = true := by rw [lt_iff]; simpa using h
  simp [this]

/-! ### rounding -/

theorem roundBy_idem (n : Nat) (a : Num K) : (a.roundBy n).roundBy n = a.roundBy n := by
  cases a <;> simp [Num.roundBy, LawfulPyF.round_idem]

theorem roundBy_err (n : Nat) (a : Num K) : |(a.roundBy n).toF - a.toF| ≤ eps K n := by
  cases a with
  | int i => simp [Num.roundBy, (eps_pos K n).le]
  | flt x => simpa [Num.roundBy] using LawfulPyF.round_err n x

theorem roundBy_mono (n : Nat) (a b : Num K) (h : a.toF ≤ b.toF) (ha : ∃ x, a = .flt x) (hb : ∃ y, b = .flt y) :
    (a.roundBy n).toF ≤ (b.roundBy n).toF := by
  obtain ⟨x, rfl⟩ := ha; obtain ⟨y, rfl⟩ := hb
  exact LawfulPyF.round_mono n h

end Num

/-! ### `sum(...)`: the Neumaier compensation vanishes in exact arithmetic -/

/-- the value a `sum` state denotes and its compensation term -/
def SumSt.val : SumSt K → K
  | .ints acc => (acc : K)
  | .flts tot _ => tot
def SumSt.comp : SumSt K → K
  | .ints _ => 0
  | .flts _ c => c

theorem sumStep_val (st : SumSt K) (x : Num K) : (sumStep st x).val = st.val + x.toF := by
  cases st <;> cases x <;> simp [sumStep, SumSt.val, LawfulPyF.add_eq, LawfulPyF.ofInt_eq]

/-- **the compensation term stays exactly 0** -/
theorem sumStep_comp (st : SumSt K) (x : Num K) (h : st.comp = 0) : (sumStep st x).comp = 0 := by
  cases st with
  | ints acc => cases x <;> simp [sumStep, SumSt.comp, LawfulPyF.ofInt_eq]
  | flts tot c =>
    simp only [SumSt.comp] at h
    subst h
    cases x with
    | int b => simp [sumStep, SumSt.comp]
    | flt y =>
      simp only [sumStep, SumSt.comp, LawfulPyF.add_eq, LawfulPyF.sub_eq]
      split_ifs <;> ring

theorem foldl_sumStep (xs : List (Num K)) (st : SumSt K) (h : st.comp = 0) :
    (xs.foldl sumStep st).val = st.val + (xs.map Num.toF).sum ∧ (xs.foldl sumStep st).comp = 0 := by
  induction xs generalizing st with
  | nil => simp [h]
  | cons x xs ih =>
    obtain ⟨h1, h2⟩ := ih (sumStep st x) (sumStep_comp st x h)
    simp only [List.foldl_cons, List.map_cons, List.sum_cons]
    exact ⟨by rw [h1, sumStep_val]; ring, h2⟩

theorem sumFinish_toF (st : SumSt K) (h : st.comp = 0) : (sumFinish st).toF = st.val := by
  cases st with
  | ints acc => simp [sumFinish, SumSt.val]
  | flts tot c =>
    simp only [SumSt.comp] at h
    subst h
    have : PyF.isZero (0 : K) = true := (LawfulPyF.isZero_iff 0).2 rfl
    simp [sumFinish, SumSt.val, this]

/-- **Python's `sum` is the sum** (int fast path and compensated float path alike) -/
@[simp] theorem toF_pySum (xs : List (Num K)) : (pySum xs).toF = (xs.map Num.toF).sum := by
  unfold pySum
  obtain ⟨h1, h2⟩ := foldl_sumStep xs (.ints 0) rfl
  rw [sumFinish_toF _ h2, h1]; simp [SumSt.val]

end Hex

import HexProofs.Numeric.Series
/-!
# Whole-series theorems for the moving averages over a candle field
(`rowMajor` = what `calculate()` and every append schedule compute, C01.)
-/
set_option linter.unusedSectionVars false
set_option linter.unusedSimpArgs false
namespace Hex
namespace Numeric
variable {K : Type} [Field K] [LinearOrder K] [IsStrictOrderedRing K] [LawfulPyF K]

/-- the input series: field `fld` of candle `j` as a field element -/
def fieldAt (fld : Candle K → Num K) (raw : List (Candle K)) (j : Nat) : K := (fld (raw.getD j default)).toF

/-- mean of the `p` inputs ending at index `j` -/
def winMean (x : Nat → K) (p j : Nat) : K := rsum p (fun k => x (j + 1 - p + k)) / p

theorem winMean_step (x : Nat → K) (p j : Nat) (hp : 1 ≤ p) (hj : p ≤ j) :
    winMean x p j = winMean x p (j - 1) - (x (j - p) - x j) / p := by
  have hpK : (p : K) ≠ 0 := by exact_mod_cast (by omega : p ≠ 0)
  unfold winMean
  have e1 : (fun k => x (j + 1 - p + k)) = fun k => (fun i => x (j - p + i)) (k + 1) := by
    funext k; congr 1; omega
  have e2 : (fun k => x (j - 1 + 1 - p + k)) = fun k => (fun i => x (j - p + i)) k := by
    funext k; congr 1; omega
  rw [e1, e2, rsum_shift p (fun i => x (j - p + i))]
  have e3 : j - p + p = j := by omega
  simp only [Nat.add_zero, e3]
  field_simp
  ring

theorem Num.flt_sub_flt (a b : K) : (Num.flt a).sub (Num.flt b) = Num.flt (a - b) := by
  simp [Num.sub, LawfulPyF.sub_eq]

/-- SMA running update with a float previous reading returns a float -/
theorem sma_rec_flt (x : Ctx K) (period : Int) (input : String) (yp : K) (old cur : Num K)
    (hprev : x.prevReading x.name = .ok (.flt yp))
    (ho : x.reading input (some (x.i - period)) = .ok (.num old))
    (hc : x.reading input = .ok (.num cur)) (hp : (period : K) ≠ 0) :
    Calc.sma x period input = .ok (.flt (yp - (old.toF - cur.toF) / period)) := by
  have hd : (Num.int period : Num K).toF ≠ 0 := by simpa using hp
  simp [Calc.sma, Ctx.prevExists_of hprev, Ctx.prevNum_of hprev, Ctx.num_of ho, Ctx.num_of hc,
    Num.truediv_ok _ _ hd, Num.flt_sub_flt]

/-- what C04 says of the SMA reading at index `j`: `None` before the window is full, afterwards a
float within `(j − (p−1) + 1)·ε` of the window mean -/
def SmaOK (p n : Nat) (x : Nat → K) (j : Nat) (v : Val K) : Prop :=
  (j + 1 < p → v = .none) ∧
  (p ≤ j + 1 → ∃ y, v = .flt y ∧ |y - winMean x p j| ≤ ((j + 2 - p : Nat) : K) * eps K n)

/-- **C04 for the whole SMA series** over a candle field: the row-major run never raises, the
first reading appears exactly at index `period − 1`, and every reading is within
`(t − t₀ + 1)·ε` of the mean of the last `period` inputs. -/
theorem sma_series (p : Nat) (hp : 2 ≤ p) (nm input : String) (fld : Candle K → Num K) (n : Nat)
    (hk : IsKey nm) (hd : NoDot input) (hattr : ∀ c : Candle K, c.attr input = some (.num (fld c)))
    (raw : List (Candle K)) (hraw : ∀ c ∈ raw, Plain c) :
    ∃ vs : List (Val K), vs.length = raw.length ∧
      rowMajor (mkTop (.sma p input) nm n) raw = .ok (deco nm raw vs) ∧
      ∀ j, j < raw.length → SmaOK p n (fieldAt fld raw) j (vs.getD j .none) := by
  have hpK : ((p : Int) : K) ≠ 0 := by
    have : (p : K) ≠ 0 := by exact_mod_cast (by omega : p ≠ 0)
    simpa using this
  refine series_induct (mkTop (.sma p input) nm n) nm rfl rfl raw _ ?_
  intro m hm vs hvs hQ
  change ∃ v, Calc.sma (stepCtx nm raw vs m) p input = .ok v ∧ SmaOK p n (fieldAt fld raw) m (v.roundBy n)
  have hprev := stepCtx_prev nm raw vs m hm hvs hk hraw
  have hper := stepCtx_period nm input fld raw vs m hm hvs hd hattr p (by omega)
  have hcur := stepCtx_field_cur nm input fld raw vs m hm hvs hd hattr
  by_cases h1 : m + 1 < p
  · -- warm-up
    have hpn : (stepCtx nm raw vs m).prevReading (stepCtx nm raw vs m).name = .ok .none := by
      show (stepCtx nm raw vs m).prevReading nm = _
      rw [hprev]
      by_cases h0 : m = 0
      · simp [h0]
      · simp only [h0, if_false]
        rw [(hQ (m - 1) (by omega)).1 (by omega)]
    have hrp : (stepCtx nm raw vs m).readingPeriod p input = false := by
      rw [hper]; simp; omega
    refine ⟨.none, sma_none _ p input hpn hrp, fun _ => rfl, fun h => by omega⟩
  · by_cases h2 : m + 1 = p
    · -- seed
      have hpn : (stepCtx nm raw vs m).prevReading (stepCtx nm raw vs m).name = .ok .none := by
        show (stepCtx nm raw vs m).prevReading nm = _
        rw [hprev]
        have h0 : m ≠ 0 := by omega
        simp only [h0, if_false]
        rw [(hQ (m - 1) (by omega)).1 (by omega)]
      have hrp : (stepCtx nm raw vs m).readingPeriod p input = true := by
        rw [hper]; simp; omega
      have hwin := sma_seed_window (stepCtx nm raw vs m) p input (fun j => fld (raw.getD (m + 1 - p + j) default))
        hpn hrp (by omega) (by show (p : Int) ≤ (m : Int) + 1; omega) (by show (1 : Int) ≤ (m : Int); omega)
        (by
          intro j hj
          have e : (stepCtx nm raw vs m).i + 1 - (p : Int) + (j : Int) = ((m + 1 - p + j : Nat) : Int) := by
            show (m : Int) + 1 - (p : Int) + (j : Int) = _; omega
          rw [e]
          exact stepCtx_field nm input fld raw vs m hm hvs hd hattr _ (by omega))
      refine ⟨_, hwin, fun h => by omega, fun _ => ⟨_, rfl, ?_⟩⟩
      have e : ((m + 2 - p : Nat) : K) = 1 := by
        have : m + 2 - p = 1 := by omega
        rw [this]; simp
      rw [e, one_mul]
      exact LawfulPyF.round_err n _
    · -- running update
      have h3 : p ≤ m := by omega
      obtain ⟨yp, hyp, hbound⟩ := (hQ (m - 1) (by omega)).2 (by omega)
      have hpn : (stepCtx nm raw vs m).prevReading (stepCtx nm raw vs m).name = .ok (.flt yp) := by
        show (stepCtx nm raw vs m).prevReading nm = _
        rw [hprev]
        have h0 : m ≠ 0 := by omega
        simp only [h0, if_false, hyp]
      have hold : (stepCtx nm raw vs m).reading input (some ((stepCtx nm raw vs m).i - (p : Int)))
          = .ok (.num (fld (raw.getD (m - p) default))) := by
        have e : (stepCtx nm raw vs m).i - (p : Int) = ((m - p : Nat) : Int) := by
          show (m : Int) - (p : Int) = _; omega
        rw [e]
        exact stepCtx_field nm input fld raw vs m hm hvs hd hattr _ (by omega)
      refine ⟨_, sma_rec_flt _ p input yp _ _ hpn hold hcur hpK, fun h => by omega, fun _ => ⟨_, rfl, ?_⟩⟩
      rw [winMean_step (fieldAt fld raw) p m (by omega) h3]
      have hb := sma_error_budget n ((p : Int) : K) (fieldAt fld raw (m - p)) (fieldAt fld raw m) yp
        (winMean (fieldAt fld raw) p (m - 1)) _ hbound
      have e : ((m + 2 - p : Nat) : K) * eps K n = ((m - 1 + 2 - p : Nat) : K) * eps K n + eps K n := by
        have : m + 2 - p = (m - 1 + 2 - p) + 1 := by omega
        rw [this]; push_cast; ring
      rw [e]
      simpa [fieldAt] using hb

/-! ### EMA and RMA -/

/-- the exact exponential average: `seed` up to index `p − 1`, then `a·x[t] + (1−a)·r[t−1]` -/
def recExact (a seed : K) (x : Nat → K) (p : Nat) : Nat → K
  | 0 => seed
  | j + 1 => if j + 1 < p then seed else a * x (j + 1) + (1 - a) * recExact a seed x p j

theorem recExact_seed (a seed : K) (x : Nat → K) (p j : Nat) (h : j < p) : recExact a seed x p j = seed := by
  cases j with
  | zero => rfl
  | succ i => simp [recExact, h]

theorem recExact_step (a seed : K) (x : Nat → K) (p j : Nat) (h : p ≤ j) (hp : 1 ≤ p) :
    recExact a seed x p j = a * x j + (1 - a) * recExact a seed x p (j - 1) := by
  obtain ⟨i, rfl⟩ : ∃ i, j = i + 1 := ⟨j - 1, by omega⟩
  have : ¬ i + 1 < p := by omega
  simp [recExact, this]

/-- what C04 says of an EMA/RMA reading at index `j` -/
def RecOK (p n : Nat) (a : K) (exact : Nat → K) (j : Nat) (v : Val K) : Prop :=
  (j + 1 < p → v = .none) ∧
  (p ≤ j + 1 → ∃ y, v = .flt y ∧ |y - exact j| ≤ eps K n / a)

theorem eps_le_div (n : Nat) (a : K) (h0 : 0 < a) (h1 : a ≤ 1) : eps K n ≤ eps K n / a := by
  rw [le_div_iff₀ h0]
  have := (eps_pos K n).le
  nlinarith

/-- **C04 for the whole EMA series** over a candle field: never raises, first reading at index
`period − 1` = mean of the first window, then `r[t] = a·x[t] + (1−a)·r[t−1]` with
`a = smoothing/(period+1)`; every stored reading within `ε/a` of the exact series. -/
theorem ema_series (p : Nat) (hp : 2 ≤ p) (s : Num K) (nm input : String) (fld : Candle K → Num K) (n : Nat)
    (ha0 : 0 < s.toF / ((p : K) + 1)) (ha1 : s.toF / ((p : K) + 1) ≤ 1)
    (hk : IsKey nm) (hd : NoDot input) (hattr : ∀ c : Candle K, c.attr input = some (.num (fld c)))
    (raw : List (Candle K)) (hraw : ∀ c ∈ raw, Plain c) :
    ∃ vs : List (Val K), vs.length = raw.length ∧
      rowMajor (mkTop (.ema p input s) nm n) raw = .ok (deco nm raw vs) ∧
      ∀ j, j < raw.length → RecOK p n (s.toF / ((p : K) + 1))
        (recExact (s.toF / ((p : K) + 1)) (winMean (fieldAt fld raw) p (p - 1)) (fieldAt fld raw) p) j (vs.getD j .none) := by
  have hp1 : ((p : Int) : K) + 1 ≠ 0 := by
    have : (0 : K) < (p : K) + 1 := by positivity
    simpa using this.ne'
  refine series_induct (mkTop (.ema p input s) nm n) nm rfl rfl raw _ ?_
  intro m hm vs hvs hQ
  change ∃ v, Calc.ema (stepCtx nm raw vs m) p input s = .ok v ∧ RecOK p n _ _ m (v.roundBy n)
  have hprev := stepCtx_prev nm raw vs m hm hvs hk hraw
  have hper := stepCtx_period nm input fld raw vs m hm hvs hd hattr p (by omega)
  have hcur := stepCtx_field_cur nm input fld raw vs m hm hvs hd hattr
  by_cases h1 : m + 1 < p
  · have hpn : (stepCtx nm raw vs m).prevReading (stepCtx nm raw vs m).name = .ok .none := by
      show (stepCtx nm raw vs m).prevReading nm = _
      rw [hprev]
      by_cases h0 : m = 0
      · simp [h0]
      · simp only [h0, if_false]
        rw [(hQ (m - 1) (by omega)).1 (by omega)]
    have hrp : (stepCtx nm raw vs m).readingPeriod p input = false := by
      rw [hper]; simp; omega
    exact ⟨.none, ema_none _ p input s hpn hrp, fun _ => rfl, fun h => by omega⟩
  · by_cases h2 : m + 1 = p
    · have hpn : (stepCtx nm raw vs m).prevReading (stepCtx nm raw vs m).name = .ok .none := by
        show (stepCtx nm raw vs m).prevReading nm = _
        rw [hprev]
        have h0 : m ≠ 0 := by omega
        simp only [h0, if_false]
        rw [(hQ (m - 1) (by omega)).1 (by omega)]
      have hrp : (stepCtx nm raw vs m).readingPeriod p input = true := by
        rw [hper]; simp; omega
      have hwin := ema_seed_window (stepCtx nm raw vs m) p input s (fun j => fld (raw.getD (m + 1 - p + j) default))
        hpn hrp (by omega) (by show (p : Int) ≤ (m : Int) + 1; omega) (by show (1 : Int) ≤ (m : Int); omega)
        (by
          intro j hj
          have e : (stepCtx nm raw vs m).i + 1 - (p : Int) + (j : Int) = ((m + 1 - p + j : Nat) : Int) := by
            show (m : Int) + 1 - (p : Int) + (j : Int) = _; omega
          rw [e]
          exact stepCtx_field nm input fld raw vs m hm hvs hd hattr _ (by omega))
      refine ⟨_, hwin, fun h => by omega, fun _ => ⟨_, rfl, ?_⟩⟩
      rw [recExact_seed _ _ _ _ _ (by omega)]
      have hm1 : m = p - 1 := by omega
      have : rsum p (fun j => (fld (raw.getD (m + 1 - p + j) default)).toF) / (p : K)
          = winMean (fieldAt fld raw) p (p - 1) := by
        unfold winMean fieldAt; rw [hm1]
      rw [this]
      exact le_trans (LawfulPyF.round_err n _) (eps_le_div n _ ha0 ha1)
    · have h3 : p ≤ m := by omega
      obtain ⟨yp, hyp, hbound⟩ := (hQ (m - 1) (by omega)).2 (by omega)
      have hpn : (stepCtx nm raw vs m).prevReading (stepCtx nm raw vs m).name = .ok (.flt yp) := by
        show (stepCtx nm raw vs m).prevReading nm = _
        rw [hprev]
        have h0 : m ≠ 0 := by omega
        simp only [h0, if_false, hyp]
      refine ⟨_, ema_rec _ p input s (.flt yp) _ hpn hcur hp1, fun h => by omega, fun _ => ⟨_, rfl, ?_⟩⟩
      rw [recExact_step _ _ _ _ _ h3 (by omega)]
      have hb := ema_error_budget n (s.toF / ((p : K) + 1)) (fieldAt fld raw m) yp _ ha0 ha1 hbound
      simp only [Num.toF_flt, Int.cast_natCast]
      rw [mul_comm yp]
      exact hb

/-- decay-weighted mean of the `p` inputs ending at index `j`, newest weighted 1 -/
def decayMean (x : Nat → K) (p j : Nat) : K :=
  rsum p (fun k => (1 - 1 / (p : K)) ^ k * x (j - k)) / rsum p (fun k => (1 - 1 / (p : K)) ^ k)

/-- **C04 for the whole RMA series** over a candle field: never raises, first reading at index
`period − 1` = decay-weighted mean of the first window, then `r[t] = x[t]/p + (1−1/p)·r[t−1]`;
every stored reading within `ε·p` (`= ε/a`) of the exact series. -/
theorem rma_series (p : Nat) (hp : 2 ≤ p) (nm input : String) (fld : Candle K → Num K) (n : Nat)
    (hk : IsKey nm) (hd : NoDot input) (hattr : ∀ c : Candle K, c.attr input = some (.num (fld c)))
    (raw : List (Candle K)) (hraw : ∀ c ∈ raw, Plain c) :
    ∃ vs : List (Val K), vs.length = raw.length ∧
      rowMajor (mkTop (.rma p input) nm n) raw = .ok (deco nm raw vs) ∧
      ∀ j, j < raw.length → RecOK p n (1 / (p : K))
        (recExact (1 / (p : K)) (decayMean (fieldAt fld raw) p (p - 1)) (fieldAt fld raw) p) j (vs.getD j .none) := by
  have hpK : (0 : K) < p := by exact_mod_cast (by omega : 0 < p)
  have hpI : ((p : Int) : K) ≠ 0 := by simpa using hpK.ne'
  have ha0 : (0 : K) < 1 / (p : K) := by positivity
  have ha1 : 1 / (p : K) ≤ 1 := by
    rw [div_le_one hpK]; exact_mod_cast (by omega : 1 ≤ p)
  refine series_induct (mkTop (.rma p input) nm n) nm rfl rfl raw _ ?_
  intro m hm vs hvs hQ
  change ∃ v, Calc.rma (stepCtx nm raw vs m) p input = .ok v ∧ RecOK p n _ _ m (v.roundBy n)
  have hprev := stepCtx_prev nm raw vs m hm hvs hk hraw
  have hper := stepCtx_period nm input fld raw vs m hm hvs hd hattr p (by omega)
  have hcur := stepCtx_field_cur nm input fld raw vs m hm hvs hd hattr
  have hd2 : (Num.int (p : Int) : Num K).toF ≠ 0 := by simpa using hpK.ne'
  by_cases h1 : m + 1 < p
  · have hpn : (stepCtx nm raw vs m).prevReading (stepCtx nm raw vs m).name = .ok .none := by
      show (stepCtx nm raw vs m).prevReading nm = _
      rw [hprev]
      by_cases h0 : m = 0
      · simp [h0]
      · simp only [h0, if_false]
        rw [(hQ (m - 1) (by omega)).1 (by omega)]
    have hrp : (stepCtx nm raw vs m).readingPeriod p input = false := by
      rw [hper]; simp; omega
    refine ⟨.none, ?_, fun _ => rfl, fun h => by omega⟩
    simp [Calc.rma, Num.truediv_ok _ _ hd2, Ctx.prevExists_of hpn, hrp]
  · by_cases h2 : m + 1 = p
    · have hpn : (stepCtx nm raw vs m).prevReading (stepCtx nm raw vs m).name = .ok .none := by
        show (stepCtx nm raw vs m).prevReading nm = _
        rw [hprev]
        have h0 : m ≠ 0 := by omega
        simp only [h0, if_false]
        rw [(hQ (m - 1) (by omega)).1 (by omega)]
      have hrp : (stepCtx nm raw vs m).readingPeriod p input = true := by
        rw [hper]; simp; omega
      have hwin := rma_seed_window (stepCtx nm raw vs m) p input (fun k => fld (raw.getD (m - k) default))
        hpn hrp (by omega)
        (by
          intro k hk'
          have e : (stepCtx nm raw vs m).i - (k : Int) = ((m - k : Nat) : Int) := by
            show (m : Int) - (k : Int) = _; omega
          rw [e]
          exact stepCtx_field nm input fld raw vs m hm hvs hd hattr _ (by omega))
      refine ⟨_, hwin, fun h => by omega, fun _ => ⟨_, rfl, ?_⟩⟩
      rw [recExact_seed _ _ _ _ _ (by omega)]
      have hm1 : m = p - 1 := by omega
      have : rsum p (fun k => (1 - 1 / (p : K)) ^ k * (fld (raw.getD (m - k) default)).toF)
            / rsum p (fun k => (1 - 1 / (p : K)) ^ k)
          = decayMean (fieldAt fld raw) p (p - 1) := by
        unfold decayMean fieldAt; rw [hm1]
      rw [this]
      exact le_trans (LawfulPyF.round_err n _) (eps_le_div n _ ha0 ha1)
    · have h3 : p ≤ m := by omega
      obtain ⟨yp, hyp, hbound⟩ := (hQ (m - 1) (by omega)).2 (by omega)
      have hpn : (stepCtx nm raw vs m).prevReading (stepCtx nm raw vs m).name = .ok (.flt yp) := by
        show (stepCtx nm raw vs m).prevReading nm = _
        rw [hprev]
        have h0 : m ≠ 0 := by omega
        simp only [h0, if_false, hyp]
      refine ⟨_, rma_rec _ p input (.flt yp) _ hpn hcur hpI, fun h => by omega, fun _ => ⟨_, rfl, ?_⟩⟩
      rw [recExact_step _ _ _ _ _ h3 (by omega)]
      have hb := ema_error_budget n (1 / (p : K)) (fieldAt fld raw m) yp _ ha0 ha1 hbound
      simp only [Num.toF_flt, Int.cast_natCast]
      exact hb

end Numeric
end Hex

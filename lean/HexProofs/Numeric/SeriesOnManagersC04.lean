import HexProofs.Numeric.SeriesOnManagers
/-!
# C04 – the moving averages ARE their textbook series on EVERY manager

For each of SMA, EMA, RMA, WMA, VWMA, HMA:

* `x_series_on_manager (M : MgrSpec K) … : HoldsOn M (mkTop …) (XCandle …)` – on every manager with an incremental
  spec (base timeframe, collapsing timeframe, timeframe + gap filling, and the three Heikin-Ashi ones), every history
  (construction over any initial part, `calculate()`, any append schedule) over a stream the manager accepts
  RETURNS, with one candle per candle of `M.spec stream`; candle `j` is candle `j` of `M.spec stream` (same bare
  candle) and its reading(s) satisfy the whole-series predicate of `HexProps/C04.lean` (`SmaOK`, `RecOK`, `DirectOK`,
  `HmaOK`: true warm-up index, explicit rounding budget) w.r.t. the input series READ OFF `M.spec stream` – the
  collapsed / filled / converted candles;
* `x_series_tf` – the same spelled out on `{ tf := some tf }` (every `tf > 0`, every `RawTf` stream): the textbook
  series over `resample tf stream`  (the "collapsing timeframe at the numeric level" item of `C04`);
* `x_series_fillHA` – spelled out on `{ tf := some tf, fill := true, ha := true }`: the textbook series over
  `haSpec (fillSpec tf stream)`;
* HMA also as an equation: `hma_runs_on_manager : RunsAs M … (hmaDeco nm n p fld)`.
-/
set_option linter.unusedSectionVars false
set_option linter.unusedVariables false
namespace Hex
namespace Numeric
variable {K : Type} [Field K] [LinearOrder K] [IsStrictOrderedRing K] [LawfulPyF K]

/-! ### the per-candle statements -/

/-- **SMA** on candle `j`: candle `j` of the manager's list, its reading `None` before index `p − 1`, then a float
within `(j − (p−1) + 1)·ε_n` of the mean of the last `p` inputs of the manager's list -/
def SmaCandle (p n : Nat) (nm : String) (fld : Candle K → Num K) : List (Candle K) → Nat → Candle K → Prop :=
  OwnIs nm fun spec j v => SmaOK p n (fieldAt fld spec) j v

/-- **EMA** (smoothing `s`, `a = s/(p+1)`): `None` before `p − 1`, seeded by the window mean, then within `ε_n/a` of
the exact recursion `r[t] = a·x[t] + (1−a)·r[t−1]` over the manager's list -/
def EmaCandle (p n : Nat) (s : Num K) (nm : String) (fld : Candle K → Num K) :
    List (Candle K) → Nat → Candle K → Prop :=
  OwnIs nm fun spec j v => RecOK p n (s.toF / ((p : K) + 1))
    (recExact (s.toF / ((p : K) + 1)) (winMean (fieldAt fld spec) p (p - 1)) (fieldAt fld spec) p) j v

/-- **RMA**: `None` before `p − 1`, seeded by the decay-weighted window mean, then within `p·ε_n` of Wilder's
recursion over the manager's list -/
def RmaCandle (p n : Nat) (nm : String) (fld : Candle K → Num K) : List (Candle K) → Nat → Candle K → Prop :=
  OwnIs nm fun spec j v => RecOK p n (1 / (p : K))
    (recExact (1 / (p : K)) (decayMean (fieldAt fld spec) p (p - 1)) (fieldAt fld spec) p) j v

/-- **WMA**: `None` before `p − 1`, then within `ε_n` of the linearly weighted window mean -/
def WmaCandle (p n : Nat) (nm : String) (fld : Candle K → Num K) : List (Candle K) → Nat → Candle K → Prop :=
  OwnIs nm fun spec j v => DirectOK p n (wmaAt (fieldAt fld spec) p) j v

/-- **VWMA**: `None` before `p − 1`, then within `ε_n` of the volume-weighted window mean of the closes -/
def VwmaCandle (p n : Nat) (nm : String) : List (Candle K) → Nat → Candle K → Prop :=
  OwnIs nm fun spec j v => DirectOK p n (vwmaAt (fieldAt (·.c) spec) (fieldAt (·.v) spec) p) j v

/-- **HMA**: candle `j` of the manager's list with the five entries `name`, `name_WMA`, `name_WMAh`, `name_HMAr`,
`name_HMAs` satisfying `HmaOK` against `WMA_{⌊√p⌋}(2·WMA_{⌊p/2⌋}(x) − WMA_p(x))` of the manager's list -/
def HmaCandle (p n : Nat) (nm : String) (fld : Candle K → Num K) (spec : List (Candle K)) (j : Nat)
    (c : Candle K) : Prop :=
  c.bare = (spec.getD j default).bare ∧
  HmaOK n p (fieldAt fld spec) j (readingByCandle c nm) (readingByCandle c (nm ++ "_WMA"))
    (readingByCandle c (nm ++ "_WMAh")) (readingByCandle c (nm ++ "_HMAr")) (readingByCandle c (nm ++ "_HMAs"))

/-! ### SMA -/

/-- **SMA is its textbook series on every manager** -/
theorem sma_series_on_manager (M : MgrSpec K) (p : Nat) (hp : 2 ≤ p) (nm input : String)
    (fld : Candle K → Num K) (n : Nat) (hk : IsKey nm) (hin : AttrInput input)
    (hattr : ∀ c : Candle K, c.attr input = some (.num (fld c))) :
    HoldsOn M (mkTop (.sma p input) nm n) (SmaCandle p n nm fld) :=
  leaf_series_on_manager _ nm n (Covered.sma (p : Int) input (by omega) hk hin) hk _
    (fun raw hraw => sma_series p hp nm input fld n hk hin.1 hattr raw hraw) M

/-- **SMA on a collapsing timeframe**: every history over a sorted stamped raw stream returns one candle per
collapsed bucket, candle `j` being bucket `j` with the SMA of the COLLAPSED candles' inputs -/
theorem sma_series_tf (tf : Int) (htf : 0 < tf) (p : Nat) (hp : 2 ≤ p) (nm input : String)
    (fld : Candle K → Num K) (n : Nat) (hk : IsKey nm) (hin : AttrInput input)
    (hattr : ∀ c : Candle K, c.attr input = some (.num (fld c)))
    (init : List (Candle K)) (chunks : List (List (Candle K))) (hraw : RawTf (init ++ chunks.flatten)) :
    ∃ snap, candlesOf (runIndicator (mkTop (.sma p input) nm n) { tf := some tf } init chunks) = .ok snap ∧
      snap.length = (resample tf (init ++ chunks.flatten)).length ∧
      ∀ j, j < (resample tf (init ++ chunks.flatten)).length →
        (snap.getD j default).bare = ((resample tf (init ++ chunks.flatten)).getD j default).bare ∧
        SmaOK p n (fieldAt fld (resample tf (init ++ chunks.flatten))) j (readingByCandle (snap.getD j default) nm) :=
  (sma_series_on_manager (MgrSpec.tf K tf htf) p hp nm input fld n hk hin hattr).on_tf tf htf init chunks hraw

/-- **SMA on timeframe + gap filling + Heikin-Ashi** -/
theorem sma_series_fillHA (tf : Int) (htf : 0 < tf) (p : Nat) (hp : 2 ≤ p) (nm input : String)
    (fld : Candle K → Num K) (n : Nat) (hk : IsKey nm) (hin : AttrInput input)
    (hattr : ∀ c : Candle K, c.attr input = some (.num (fld c)))
    (init : List (Candle K)) (chunks : List (List (Candle K)))
    (hraw : RawTf (init ++ chunks.flatten) ∧ ∀ c ∈ init ++ chunks.flatten, c.tag = false) :
    ∃ snap, candlesOf (runIndicator (mkTop (.sma p input) nm n) { tf := some tf, fill := true, ha := true }
        init chunks) = .ok snap ∧
      snap.length = (haSpec (fillSpec tf (init ++ chunks.flatten))).length ∧
      ∀ j, j < (haSpec (fillSpec tf (init ++ chunks.flatten))).length →
        (snap.getD j default).bare = ((haSpec (fillSpec tf (init ++ chunks.flatten))).getD j default).bare ∧
        SmaOK p n (fieldAt fld (haSpec (fillSpec tf (init ++ chunks.flatten)))) j
          (readingByCandle (snap.getD j default) nm) :=
  (sma_series_on_manager (MgrSpec.fillHA K tf htf) p hp nm input fld n hk hin hattr).on_fillHA tf htf init chunks hraw

/-! ### EMA -/

/-- **EMA is its textbook series on every manager** -/
theorem ema_series_on_manager (M : MgrSpec K) (p : Nat) (hp : 2 ≤ p) (s : Num K) (nm input : String)
    (fld : Candle K → Num K) (n : Nat) (ha0 : 0 < s.toF / ((p : K) + 1)) (ha1 : s.toF / ((p : K) + 1) ≤ 1)
    (hk : IsKey nm) (hin : AttrInput input) (hattr : ∀ c : Candle K, c.attr input = some (.num (fld c))) :
    HoldsOn M (mkTop (.ema p input s) nm n) (EmaCandle p n s nm fld) :=
  leaf_series_on_manager _ nm n (Covered.ema (p : Int) input s (by omega) hin) hk _
    (fun raw hraw => ema_series p hp s nm input fld n ha0 ha1 hk hin.1 hattr raw hraw) M

/-- **EMA on a collapsing timeframe** -/
theorem ema_series_tf (tf : Int) (htf : 0 < tf) (p : Nat) (hp : 2 ≤ p) (s : Num K) (nm input : String)
    (fld : Candle K → Num K) (n : Nat) (ha0 : 0 < s.toF / ((p : K) + 1)) (ha1 : s.toF / ((p : K) + 1) ≤ 1)
    (hk : IsKey nm) (hin : AttrInput input) (hattr : ∀ c : Candle K, c.attr input = some (.num (fld c)))
    (init : List (Candle K)) (chunks : List (List (Candle K))) (hraw : RawTf (init ++ chunks.flatten)) :
    ∃ snap, candlesOf (runIndicator (mkTop (.ema p input s) nm n) { tf := some tf } init chunks) = .ok snap ∧
      snap.length = (resample tf (init ++ chunks.flatten)).length ∧
      ∀ j, j < (resample tf (init ++ chunks.flatten)).length →
        (snap.getD j default).bare = ((resample tf (init ++ chunks.flatten)).getD j default).bare ∧
        RecOK p n (s.toF / ((p : K) + 1))
          (recExact (s.toF / ((p : K) + 1)) (winMean (fieldAt fld (resample tf (init ++ chunks.flatten))) p (p - 1))
            (fieldAt fld (resample tf (init ++ chunks.flatten))) p) j (readingByCandle (snap.getD j default) nm) :=
  (ema_series_on_manager (MgrSpec.tf K tf htf) p hp s nm input fld n ha0 ha1 hk hin hattr).on_tf tf htf init chunks hraw

/-- **EMA on timeframe + gap filling + Heikin-Ashi** -/
theorem ema_series_fillHA (tf : Int) (htf : 0 < tf) (p : Nat) (hp : 2 ≤ p) (s : Num K) (nm input : String)
    (fld : Candle K → Num K) (n : Nat) (ha0 : 0 < s.toF / ((p : K) + 1)) (ha1 : s.toF / ((p : K) + 1) ≤ 1)
    (hk : IsKey nm) (hin : AttrInput input) (hattr : ∀ c : Candle K, c.attr input = some (.num (fld c)))
    (init : List (Candle K)) (chunks : List (List (Candle K)))
    (hraw : RawTf (init ++ chunks.flatten) ∧ ∀ c ∈ init ++ chunks.flatten, c.tag = false) :
    ∃ snap, candlesOf (runIndicator (mkTop (.ema p input s) nm n) { tf := some tf, fill := true, ha := true }
        init chunks) = .ok snap ∧
      EveryCandle (EmaCandle p n s nm fld) (haSpec (fillSpec tf (init ++ chunks.flatten))) snap :=
  (ema_series_on_manager (MgrSpec.fillHA K tf htf) p hp s nm input fld n ha0 ha1 hk hin hattr).on_fillHA tf htf
    init chunks hraw

/-! ### RMA -/

/-- **RMA is its textbook series on every manager** -/
theorem rma_series_on_manager (M : MgrSpec K) (p : Nat) (hp : 2 ≤ p) (nm input : String)
    (fld : Candle K → Num K) (n : Nat) (hk : IsKey nm) (hin : AttrInput input)
    (hattr : ∀ c : Candle K, c.attr input = some (.num (fld c))) :
    HoldsOn M (mkTop (.rma p input) nm n) (RmaCandle p n nm fld) :=
  leaf_series_on_manager _ nm n (Covered.rma (p : Int) input (by omega) hin) hk _
    (fun raw hraw => rma_series p hp nm input fld n hk hin.1 hattr raw hraw) M

/-- **RMA on a collapsing timeframe** -/
theorem rma_series_tf (tf : Int) (htf : 0 < tf) (p : Nat) (hp : 2 ≤ p) (nm input : String)
    (fld : Candle K → Num K) (n : Nat) (hk : IsKey nm) (hin : AttrInput input)
    (hattr : ∀ c : Candle K, c.attr input = some (.num (fld c)))
    (init : List (Candle K)) (chunks : List (List (Candle K))) (hraw : RawTf (init ++ chunks.flatten)) :
    ∃ snap, candlesOf (runIndicator (mkTop (.rma p input) nm n) { tf := some tf } init chunks) = .ok snap ∧
      snap.length = (resample tf (init ++ chunks.flatten)).length ∧
      ∀ j, j < (resample tf (init ++ chunks.flatten)).length →
        (snap.getD j default).bare = ((resample tf (init ++ chunks.flatten)).getD j default).bare ∧
        RecOK p n (1 / (p : K))
          (recExact (1 / (p : K)) (decayMean (fieldAt fld (resample tf (init ++ chunks.flatten))) p (p - 1))
            (fieldAt fld (resample tf (init ++ chunks.flatten))) p) j (readingByCandle (snap.getD j default) nm) :=
  (rma_series_on_manager (MgrSpec.tf K tf htf) p hp nm input fld n hk hin hattr).on_tf tf htf init chunks hraw

/-- **RMA on timeframe + gap filling + Heikin-Ashi** -/
theorem rma_series_fillHA (tf : Int) (htf : 0 < tf) (p : Nat) (hp : 2 ≤ p) (nm input : String)
    (fld : Candle K → Num K) (n : Nat) (hk : IsKey nm) (hin : AttrInput input)
    (hattr : ∀ c : Candle K, c.attr input = some (.num (fld c)))
    (init : List (Candle K)) (chunks : List (List (Candle K)))
    (hraw : RawTf (init ++ chunks.flatten) ∧ ∀ c ∈ init ++ chunks.flatten, c.tag = false) :
    ∃ snap, candlesOf (runIndicator (mkTop (.rma p input) nm n) { tf := some tf, fill := true, ha := true }
        init chunks) = .ok snap ∧
      EveryCandle (RmaCandle p n nm fld) (haSpec (fillSpec tf (init ++ chunks.flatten))) snap :=
  (rma_series_on_manager (MgrSpec.fillHA K tf htf) p hp nm input fld n hk hin hattr).on_fillHA tf htf init chunks hraw

/-! ### WMA -/

/-- **WMA is its textbook series on every manager** -/
theorem wma_series_on_manager (M : MgrSpec K) (p : Nat) (hp : 2 ≤ p) (nm input : String)
    (fld : Candle K → Num K) (n : Nat) (hk : IsKey nm) (hin : AttrInput input)
    (hattr : ∀ c : Candle K, c.attr input = some (.num (fld c))) :
    HoldsOn M (mkTop (.wma p input) nm n) (WmaCandle p n nm fld) :=
  leaf_series_on_manager _ nm n (Covered.wma (p : Int) input (by omega) hk hin) hk _
    (fun raw hraw => wma_series p hp nm input fld n hk hin.1 hattr raw hraw) M

/-- **WMA on a collapsing timeframe** -/
theorem wma_series_tf (tf : Int) (htf : 0 < tf) (p : Nat) (hp : 2 ≤ p) (nm input : String)
    (fld : Candle K → Num K) (n : Nat) (hk : IsKey nm) (hin : AttrInput input)
    (hattr : ∀ c : Candle K, c.attr input = some (.num (fld c)))
    (init : List (Candle K)) (chunks : List (List (Candle K))) (hraw : RawTf (init ++ chunks.flatten)) :
    ∃ snap, candlesOf (runIndicator (mkTop (.wma p input) nm n) { tf := some tf } init chunks) = .ok snap ∧
      snap.length = (resample tf (init ++ chunks.flatten)).length ∧
      ∀ j, j < (resample tf (init ++ chunks.flatten)).length →
        (snap.getD j default).bare = ((resample tf (init ++ chunks.flatten)).getD j default).bare ∧
        DirectOK p n (wmaAt (fieldAt fld (resample tf (init ++ chunks.flatten))) p) j
          (readingByCandle (snap.getD j default) nm) :=
  (wma_series_on_manager (MgrSpec.tf K tf htf) p hp nm input fld n hk hin hattr).on_tf tf htf init chunks hraw

/-- **WMA on timeframe + gap filling + Heikin-Ashi** -/
theorem wma_series_fillHA (tf : Int) (htf : 0 < tf) (p : Nat) (hp : 2 ≤ p) (nm input : String)
    (fld : Candle K → Num K) (n : Nat) (hk : IsKey nm) (hin : AttrInput input)
    (hattr : ∀ c : Candle K, c.attr input = some (.num (fld c)))
    (init : List (Candle K)) (chunks : List (List (Candle K)))
    (hraw : RawTf (init ++ chunks.flatten) ∧ ∀ c ∈ init ++ chunks.flatten, c.tag = false) :
    ∃ snap, candlesOf (runIndicator (mkTop (.wma p input) nm n) { tf := some tf, fill := true, ha := true }
        init chunks) = .ok snap ∧
      EveryCandle (WmaCandle p n nm fld) (haSpec (fillSpec tf (init ++ chunks.flatten))) snap :=
  (wma_series_on_manager (MgrSpec.fillHA K tf htf) p hp nm input fld n hk hin hattr).on_fillHA tf htf init chunks hraw

/-! ### VWMA -/

/-- **VWMA is its textbook series on every manager** (volume-weighted over the manager's candles: a collapsed
candle's volume is the bucket's total) -/
theorem vwma_series_on_manager (M : MgrSpec K) (p : Nat) (hp : 2 ≤ p) (nm : String) (n : Nat) (hk : IsKey nm) :
    HoldsOn M (mkTop (.vwma p) nm n) (VwmaCandle (K := K) p n nm) :=
  leaf_series_on_manager _ nm n (Covered.vwma (p : Int) (by omega) hk) hk _
    (fun raw hraw => vwma_series p hp nm n hk raw hraw) M

/-- **VWMA on a collapsing timeframe** -/
theorem vwma_series_tf (tf : Int) (htf : 0 < tf) (p : Nat) (hp : 2 ≤ p) (nm : String) (n : Nat) (hk : IsKey nm)
    (init : List (Candle K)) (chunks : List (List (Candle K))) (hraw : RawTf (init ++ chunks.flatten)) :
    ∃ snap, candlesOf (runIndicator (mkTop (.vwma p) nm n) { tf := some tf } init chunks) = .ok snap ∧
      snap.length = (resample tf (init ++ chunks.flatten)).length ∧
      ∀ j, j < (resample tf (init ++ chunks.flatten)).length →
        (snap.getD j default).bare = ((resample tf (init ++ chunks.flatten)).getD j default).bare ∧
        DirectOK p n (vwmaAt (fieldAt (·.c) (resample tf (init ++ chunks.flatten)))
          (fieldAt (·.v) (resample tf (init ++ chunks.flatten))) p) j (readingByCandle (snap.getD j default) nm) :=
  (vwma_series_on_manager (MgrSpec.tf K tf htf) p hp nm n hk).on_tf tf htf init chunks hraw

/-- **VWMA on timeframe + gap filling + Heikin-Ashi** -/
theorem vwma_series_fillHA (tf : Int) (htf : 0 < tf) (p : Nat) (hp : 2 ≤ p) (nm : String) (n : Nat) (hk : IsKey nm)
    (init : List (Candle K)) (chunks : List (List (Candle K)))
    (hraw : RawTf (init ++ chunks.flatten) ∧ ∀ c ∈ init ++ chunks.flatten, c.tag = false) :
    ∃ snap, candlesOf (runIndicator (mkTop (.vwma p) nm n) { tf := some tf, fill := true, ha := true }
        init chunks) = .ok snap ∧
      EveryCandle (VwmaCandle p n nm) (haSpec (fillSpec tf (init ++ chunks.flatten))) snap :=
  (vwma_series_on_manager (MgrSpec.fillHA K tf htf) p hp nm n hk).on_fillHA tf htf init chunks hraw

/-! ### HMA -/

/-- **the HMA run on every manager is `hmaDeco` of the manager's candles** -/
theorem hma_runs_on_manager (M : MgrSpec K) (p : Nat) (hp : 2 ≤ p) (nm input : String) (fld : Candle K → Num K)
    (n : Nat) (hn : HmaNames nm) (hin : AttrInput input)
    (hattr : ∀ c : Candle K, c.attr input = some (.num (fld c))) :
    RunsAs M (mkTop (.hma (p : Int) input : Kind K) nm n) (hmaDeco nm n p fld) :=
  (hmaTree (F := K) nm n (p : Int) input (by omega) hn hin).runsAs _
    (fun raw hraw => hma_series p hp nm input fld n hn hin hattr raw hraw) M

/-- the same from the ENGINE-level theorem `hma_series_engine` by the generic lemma `runs_on_manager` -/
theorem hma_runs_on_manager_of_engine (M : MgrSpec K) (p : Nat) (hp : 2 ≤ p) (nm input : String)
    (fld : Candle K → Num K) (n : Nat) (hn : HmaNames nm) (hin : AttrInput input)
    (hattr : ∀ c : Candle K, c.attr input = some (.num (fld c))) :
    RunsAs M (mkTop (.hma (p : Int) input : Kind K) nm n) (hmaDeco nm n p fld) :=
  runs_on_manager (.hma (p : Int) input (by omega) hn hin) n _
    (fun raw hraw => hma_series_engine p hp nm input fld n hn hin hattr raw hraw) M

/-- **HMA (all five series) is its textbook series on every manager** -/
theorem hma_series_on_manager (M : MgrSpec K) (p : Nat) (hp : 2 ≤ p) (nm input : String) (fld : Candle K → Num K)
    (n : Nat) (hn : HmaNames nm) (hin : AttrInput input)
    (hattr : ∀ c : Candle K, c.attr input = some (.num (fld c))) :
    HoldsOn M (mkTop (.hma (p : Int) input : Kind K) nm n) (HmaCandle p n nm fld) :=
  (hma_runs_on_manager M p hp nm input fld n hn hin hattr).holdsOn _ (fun raw hraw =>
    ⟨hmaDeco_length nm n p fld raw, fun j hj => hmaDeco_ok p hp nm fld n hn raw hraw j hj⟩)

/-- **HMA on a collapsing timeframe** -/
theorem hma_series_tf (tf : Int) (htf : 0 < tf) (p : Nat) (hp : 2 ≤ p) (nm input : String)
    (fld : Candle K → Num K) (n : Nat) (hn : HmaNames nm) (hin : AttrInput input)
    (hattr : ∀ c : Candle K, c.attr input = some (.num (fld c)))
    (init : List (Candle K)) (chunks : List (List (Candle K))) (hraw : RawTf (init ++ chunks.flatten)) :
    ∃ snap, candlesOf (runIndicator (mkTop (.hma (p : Int) input : Kind K) nm n) { tf := some tf } init chunks)
        = .ok snap ∧
      snap = hmaDeco nm n p fld (resample tf (init ++ chunks.flatten)) ∧
      snap.length = (resample tf (init ++ chunks.flatten)).length ∧
      ∀ j, j < (resample tf (init ++ chunks.flatten)).length →
        (snap.getD j default).bare = ((resample tf (init ++ chunks.flatten)).getD j default).bare ∧
        HmaOK n p (fieldAt fld (resample tf (init ++ chunks.flatten))) j
          (readingByCandle (snap.getD j default) nm) (readingByCandle (snap.getD j default) (nm ++ "_WMA"))
          (readingByCandle (snap.getD j default) (nm ++ "_WMAh")) (readingByCandle (snap.getD j default) (nm ++ "_HMAr"))
          (readingByCandle (snap.getD j default) (nm ++ "_HMAs")) := by
  have hpl := (MgrSpec.tf K tf htf).spec_plain _ hraw
  exact ⟨_, (hma_runs_on_manager (MgrSpec.tf K tf htf) p hp nm input fld n hn hin hattr).on_tf tf htf init chunks hraw,
    rfl, hmaDeco_length nm n p fld _, fun j hj => hmaDeco_ok p hp nm fld n hn _ hpl j hj⟩

/-- **HMA on timeframe + gap filling + Heikin-Ashi** -/
theorem hma_series_fillHA (tf : Int) (htf : 0 < tf) (p : Nat) (hp : 2 ≤ p) (nm input : String)
    (fld : Candle K → Num K) (n : Nat) (hn : HmaNames nm) (hin : AttrInput input)
    (hattr : ∀ c : Candle K, c.attr input = some (.num (fld c)))
    (init : List (Candle K)) (chunks : List (List (Candle K)))
    (hraw : RawTf (init ++ chunks.flatten) ∧ ∀ c ∈ init ++ chunks.flatten, c.tag = false) :
    ∃ snap, candlesOf (runIndicator (mkTop (.hma (p : Int) input : Kind K) nm n)
        { tf := some tf, fill := true, ha := true } init chunks) = .ok snap ∧
      snap = hmaDeco nm n p fld (haSpec (fillSpec tf (init ++ chunks.flatten))) ∧
      EveryCandle (HmaCandle p n nm fld) (haSpec (fillSpec tf (init ++ chunks.flatten))) snap := by
  have hpl := (MgrSpec.fillHA K tf htf).spec_plain _ hraw
  exact ⟨_, (hma_runs_on_manager (MgrSpec.fillHA K tf htf) p hp nm input fld n hn hin hattr).on_fillHA tf htf
    init chunks hraw, rfl, hmaDeco_length nm n p fld _, fun j hj => hmaDeco_ok p hp nm fld n hn _ hpl j hj⟩

/-! ### the three Heikin-Ashi managers at once, and lifespan managers -/

/-- every moving average on `{ha}`, `{tf, ha}`, `{tf, fill, ha}` (`HoldsOnHA.unfold` spells the three out) -/
theorem sma_series_ha (p : Nat) (hp : 2 ≤ p) (nm input : String) (fld : Candle K → Num K) (n : Nat)
    (hk : IsKey nm) (hin : AttrInput input) (hattr : ∀ c : Candle K, c.attr input = some (.num (fld c))) :
    HoldsOnHA (mkTop (.sma p input) nm n) (SmaCandle p n nm fld) :=
  .of_all fun M => sma_series_on_manager M p hp nm input fld n hk hin hattr

theorem hma_series_ha (p : Nat) (hp : 2 ≤ p) (nm input : String) (fld : Candle K → Num K) (n : Nat)
    (hn : HmaNames nm) (hin : AttrInput input) (hattr : ∀ c : Candle K, c.attr input = some (.num (fld c))) :
    HoldsOnHA (mkTop (.hma (p : Int) input : Kind K) nm n) (HmaCandle p n nm fld) :=
  .of_all fun M => hma_series_on_manager M p hp nm input fld n hn hin hattr

/-! ### non-vacuity over ℚ: the stamped demo stream on a two-minute timeframe

`haStamped` (TotalMoreHA.lean): five one-minute candles stamped 60, 120, 180, 480, 540 with closes 11 12 14 15 15;
`resample 120` collapses them into the four buckets 120, 240, 480, 600 (closes 12 14 15 15); gap filling adds the
bucket 360. -/

theorem haStamped_resample_length : (resample 120 haStamped).length = 4 := by decide +kernel

/-- SMA(2) on `close`, two-minute timeframe, two candles at construction and three appended: the history returns
four candles; the first has no reading, the last a float within `3·ε₄` of the mean of the last two COLLAPSED
closes -/
example : ∃ snap : List (Candle ℚ),
    candlesOf (runIndicator (mkTop (.sma (2 : Nat) "close") "SMA_2" 4) { tf := some 120 }
      (haStamped.take 2) [haStamped.drop 2]) = .ok snap ∧ snap.length = 4 ∧
    readingByCandle (snap.getD 0 default) "SMA_2" = .none ∧
    ∃ y, readingByCandle (snap.getD 3 default) "SMA_2" = .flt y ∧
      |y - winMean (fieldAt (·.c) (resample 120 haStamped)) 2 3| ≤ ((3 : Nat) : ℚ) * eps ℚ 4 := by
  obtain ⟨snap, h1, h2, h3⟩ := sma_series_tf (K := ℚ) 120 (by decide) 2 (by norm_num) "SMA_2" "close" (·.c) 4
    (by decide) ⟨noDot_close, by decide⟩ (fun _ => rfl) (haStamped.take 2) [haStamped.drop 2] haStamped_ok.1
  have e : haStamped.take 2 ++ [haStamped.drop 2].flatten = haStamped := by simp
  rw [e] at h2 h3
  rw [haStamped_resample_length] at h2 h3
  exact ⟨snap, h1, h2, (h3 0 (by decide)).2.1 (by decide), (h3 3 (by decide)).2.2 (by decide)⟩

/-- the collapsed closes, and the textbook value of the last SMA(2) reading -/
example : (resample 120 haStamped).map (·.c.toF) = [12, 14, 15, 15] := by decide +kernel

/-- HMA(4) on `close`, two-minute timeframe WITH gap filling AND Heikin-Ashi, fed one candle at a time: the history
returns `hmaDeco` of the five converted filled buckets -/
example : ∃ snap : List (Candle ℚ),
    candlesOf (runIndicator (mkTop (.hma ((4 : Nat) : Int) "close" : Kind ℚ) "HMA_4" 4)
      { tf := some 120, fill := true, ha := true } [] (haStamped.map fun c => [c])) = .ok snap ∧
    snap = hmaDeco "HMA_4" 4 4 (·.c) (haSpec (fillSpec 120 ([] ++ (haStamped.map fun c => [c]).flatten))) ∧
    EveryCandle (HmaCandle 4 4 "HMA_4" (·.c)) (haSpec (fillSpec 120 ([] ++ (haStamped.map fun c => [c]).flatten))) snap :=
  hma_series_fillHA (K := ℚ) 120 (by decide) 4 (by norm_num) "HMA_4" "close" (·.c) 4 hmaNames_demo
    ⟨noDot_close, by decide⟩ (fun _ => rfl) [] (haStamped.map fun c => [c]) haStamped_ok

/-- EMA(2, smoothing 2) and VWMA(2) on the two-minute timeframe -/
example : (∃ snap : List (Candle ℚ),
      candlesOf (runIndicator (mkTop (.ema (2 : Nat) "close" (fl 2)) "EMA_2" 4) { tf := some 120 }
        [] (haStamped.map fun c => [c])) = .ok snap ∧
      snap.length = (resample 120 ([] ++ (haStamped.map fun c => [c]).flatten)).length) ∧
    (∃ snap : List (Candle ℚ),
      candlesOf (runIndicator (mkTop (.vwma (2 : Nat)) "VWMA_2" 4) { tf := some 120 }
        haStamped []) = .ok snap ∧
      snap.length = (resample 120 (haStamped ++ ([] : List (List (Candle ℚ))).flatten)).length) := by
  obtain ⟨s1, a1, a2, _⟩ := ema_series_tf (K := ℚ) 120 (by decide) 2 (by norm_num) (fl 2) "EMA_2" "close" (·.c) 4
    (by simp; norm_num) (by simp; norm_num) (by decide) ⟨noDot_close, by decide⟩ (fun _ => rfl) []
    (haStamped.map fun c => [c]) haStamped_ok.1
  obtain ⟨s2, b1, b2, _⟩ := vwma_series_tf (K := ℚ) 120 (by decide) 2 (by norm_num) "VWMA_2" 4 (by decide)
    haStamped [] (by simpa using haStamped_ok.1)
  exact ⟨⟨s1, a1, a2⟩, ⟨s2, b1, b2⟩⟩

end Numeric

/-! ### non-vacuity over the toy carrier `Int`: the runs themselves (`decide +kernel`) -/
section IntDemo

/-- SMA(2) / WMA(2) / HMA(4) over `Int` on the two-minute timeframe (five stamped candles, four buckets): the run
returns, one candle per bucket, warm-up over the COLLAPSED candles -/
example : ((candlesOf (runIndicator (mkTop (.sma 2 "close") "SMA_2" 4 : Ind Int) { tf := some 120 }
      (haIntStream.take 1) [haIntStream.drop 1 |>.take 2, [], haIntStream.drop 3])).toOption.map
      (·.map fun c => (c.ts, (readingByCandle c "SMA_2").isNone)))
    = some [(some 120, true), (some 240, false), (some 480, false), (some 600, false)] := by decide +kernel

example : ((candlesOf (runIndicator (mkTop (.wma 2 "close") "WMA_2" 4 : Ind Int)
      { tf := some 120, fill := true, ha := true }
      (haIntStream.take 1) [haIntStream.drop 1 |>.take 2, [], haIntStream.drop 3])).toOption.map
      (·.map fun c => (c.ts, (readingByCandle c "WMA_2").isNone)))
    = some [(some 120, true), (some 240, false), (some 360, false), (some 480, false), (some 600, false)] := by
  decide +kernel

example : ((candlesOf (runIndicator (mkTop (.hma 4 "close") "HMA_4" 4 : Ind Int)
      { tf := some 120, fill := true } [] (haIntStream.map fun c => [c]))).toOption.map
      (·.map fun c => (c.ts, (readingByCandle c "HMA_4").isNone, (readingByCandle c "HMA_4_WMAh").isNone)))
    = some [(some 120, true, true), (some 240, true, false), (some 360, true, false), (some 480, true, false),
      (some 600, false, false)] := by decide +kernel

end IntDemo
end Hex

#print axioms Hex.Numeric.sma_series_on_manager
#print axioms Hex.Numeric.sma_series_tf
#print axioms Hex.Numeric.sma_series_fillHA
#print axioms Hex.Numeric.ema_series_on_manager
#print axioms Hex.Numeric.ema_series_tf
#print axioms Hex.Numeric.ema_series_fillHA
#print axioms Hex.Numeric.rma_series_on_manager
#print axioms Hex.Numeric.rma_series_tf
#print axioms Hex.Numeric.rma_series_fillHA
#print axioms Hex.Numeric.wma_series_on_manager
#print axioms Hex.Numeric.wma_series_tf
#print axioms Hex.Numeric.wma_series_fillHA
#print axioms Hex.Numeric.vwma_series_on_manager
#print axioms Hex.Numeric.vwma_series_tf
#print axioms Hex.Numeric.vwma_series_fillHA
#print axioms Hex.Numeric.hma_runs_on_manager
#print axioms Hex.Numeric.hma_runs_on_manager_of_engine
#print axioms Hex.Numeric.hma_series_on_manager
#print axioms Hex.Numeric.hma_series_tf
#print axioms Hex.Numeric.hma_series_fillHA
#print axioms Hex.Numeric.sma_series_ha
#print axioms Hex.Numeric.hma_series_ha

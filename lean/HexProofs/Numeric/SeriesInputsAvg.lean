import HexProofs.Numeric.SeriesInputs
/-!
# EMA, RMA, WMA, ROC (and VWMA) over candle lists with foreign readings and a late-starting input

Same shape as `c04_full_partial` (HexProofs/Numeric/SeriesInputs.lean): for EVERY candle list – whatever
it holds under other names –, EVERY input name different from the node's, `None` on the first `t0`
candles and numeric afterwards, the engine's `calculate()` never raises, changes nothing but the entry
under `nm`, and stores the raw-input series of `ema_series` / `rma_series` / `wma_series` / `roc_series`
SHIFTED BY `t0`.  VWMA has no input parameter (it reads `close` and `volume`): its statement is the
`t0 = 0` one over candle lists with foreign readings.
-/
set_option linter.unusedSectionVars false
set_option linter.unusedSimpArgs false
namespace Hex
namespace Numeric
variable {K : Type} [Field K] [LinearOrder K] [IsStrictOrderedRing K] [LawfulPyF K]

/-! ### EMA -/

/-- the EMA statement of `ema_series` as a function of the input values -/
def EmaP (p n : Nat) (s : Num K) (xs : Nat → K) (j : Nat) (v : Val K) : Prop :=
  RecOK p n (s.toF / ((p : K) + 1)) (recExact (s.toF / ((p : K) + 1)) (winMean xs p (p - 1)) xs p) j v

theorem sview_prev_flt {x : Ctx K} {nm input : String} {m t0 : Nat} {vs : List (Val K)} {r : Nat → Num K}
    (V : SView x nm input m t0 vs r) (yp : K) (h0 : m ≠ 0) (h : vs.getD (m - 1) .none = .flt yp) :
    x.prevReading x.name = .ok (.flt yp) := by
  rw [V.prev]
  simp only [h0, if_false, h]

theorem winMean_first (xs : Nat → K) (p m' : Nat) (h : m' + 1 = p) :
    winMean xs p m' = rsum p (fun j => xs j) / (p : K) := by
  unfold winMean
  congr 2
  funext k
  congr 1
  omega

/-- **one EMA call in the shifted series** -/
theorem ema_shift_step (p : Nat) (hp : 2 ≤ p) (s : Num K) (n : Nat)
    (ha0 : 0 < s.toF / ((p : K) + 1)) (ha1 : s.toF / ((p : K) + 1) ≤ 1)
    (x : Ctx K) (nm input : String) (m t0 : Nat)
    (vs : List (Val K)) (r : Nat → Num K) (V : SView x nm input m t0 vs r)
    (hQ : ∀ j, j < m → ShiftedOK (EmaP p n s (fun k => (r k).toF)) t0 j (vs.getD j .none)) :
    ∃ v, Calc.ema x p input s = .ok v ∧ ShiftedOK (EmaP p n s (fun k => (r k).toF)) t0 m (v.roundBy n) := by
  have hp1 : ((p : Int) : K) + 1 ≠ 0 := by
    have : (0 : K) < (p : K) + 1 := by positivity
    simpa using this.ne'
  have hper := V.period p (by omega)
  have hwarm : ∀ j v, EmaP p n s (fun k => (r k).toF) j v → j + 1 < p → v = .none := fun j v h hj => h.1 hj
  by_cases h1 : m + 1 < t0 + p
  · have hpn := V.prev_none _ p hwarm hQ (by omega)
    have hrp : x.readingPeriod p input = false := by rw [hper]; simp; omega
    exact ⟨.none, ema_none _ p input s hpn hrp, fun _ => rfl, fun _ => ⟨fun _ => rfl, fun h => by omega⟩⟩
  · obtain ⟨m', rfl⟩ : ∃ m', m = t0 + m' := ⟨m - t0, by omega⟩
    have hsub : t0 + m' - t0 = m' := by omega
    refine (?_ : ∃ v, Calc.ema x p input s = .ok v ∧
      ((t0 + m' < t0 → v.roundBy n = .none) ∧ (t0 ≤ t0 + m' → EmaP p n s _ (t0 + m' - t0) (v.roundBy n))))
    rw [hsub]
    by_cases h2 : m' + 1 = p
    · have hpn := V.prev_none _ p hwarm hQ (by omega)
      have hrp : x.readingPeriod p input = true := by rw [hper]; simp; omega
      have hwin := ema_seed_window x p input s r hpn hrp (by omega) (by rw [V.i_eq]; omega) (by rw [V.i_eq]; omega)
        (by
          intro j hj
          have e : x.i + 1 - (p : Int) + (j : Int) = ((t0 + j : Nat) : Int) := by rw [V.i_eq]; omega
          rw [e]
          have := V.inp_num (t0 + j) (by omega) (by omega)
          rwa [show t0 + j - t0 = j by omega] at this)
      refine ⟨_, hwin, fun h => by omega, fun _ => ⟨fun h => by omega, fun _ => ⟨_, rfl, ?_⟩⟩⟩
      rw [recExact_seed _ _ _ _ _ (by omega)]
      have hm1 : p - 1 = m' := by omega
      rw [hm1, winMean_first _ p m' h2]
      exact le_trans (LawfulPyF.round_err n _) (eps_le_div n _ ha0 ha1)
    · have h3 : p ≤ m' := by omega
      obtain ⟨yp, hyp, hbound⟩ := ((hQ (t0 + m' - 1) (by omega)).2 (by omega)).2 (by omega)
      rw [show t0 + m' - 1 - t0 = m' - 1 by omega] at hbound
      have hpn := sview_prev_flt V yp (by omega) hyp
      have hcur := V.cur (by omega)
      rw [hsub] at hcur
      refine ⟨_, ema_rec _ p input s (.flt yp) _ hpn hcur hp1, fun h => by omega,
        fun _ => ⟨fun h => by omega, fun _ => ⟨_, rfl, ?_⟩⟩⟩
      rw [recExact_step _ _ _ _ _ h3 (by omega)]
      have hb := ema_error_budget n (s.toF / ((p : K) + 1)) ((r m').toF) yp _ ha0 ha1 hbound
      simp only [Num.toF_flt, Int.cast_natCast]
      rw [mul_comm yp]
      exact hb

/-- the statement of `C04_FULL` for EMA, with the `None` hypothesis of `C04PartialStatement` -/
def C04EmaStatement : Prop :=
  ∀ (K : Type) [Field K] [LinearOrder K] [IsStrictOrderedRing K] [LawfulPyF K]
    (p : Nat) (s : Num K) (nm input : String) (n t0 : Nat) (cs : List (Candle K)) (x : Nat → K),
    2 ≤ p → 0 < s.toF / ((p : K) + 1) → s.toF / ((p : K) + 1) ≤ 1 → IsKey nm → nm ≠ input →
    (∀ c ∈ cs, dlookup nm c.inds = none ∧ dlookup nm c.subs = none) →
    (∀ j, j < cs.length → inputSeriesAt cs input j = if j < t0 then none else some (x (j - t0))) →
    (∀ j, j < cs.length → j < t0 → readingByCandle (cs.getD j default) input = .none) →
    ∃ vs : List (Val K), vs.length = cs.length ∧
      engineCalc (mkTop (.ema p input s) nm n) cs = .ok (deco nm cs vs) ∧
      ∀ j, j < cs.length →
        (j < t0 → vs.getD j .none = .none) ∧
        (t0 ≤ j → RecOK p n (s.toF / ((p : K) + 1))
          (recExact (s.toF / ((p : K) + 1)) (winMean x p (p - 1)) x p) (j - t0) (vs.getD j .none))

/-- **C04 for EMA, every candle list, every input name, every start `t0`**: `None` on the first
`t0 + period − 1` candles, seeded by the mean of the first `period` numeric inputs, then
`r[t] = a·x[t] + (1−a)·r[t−1]`; every stored reading within `ε_n/a` of the exact series of the inputs
counted from `t0`. -/
theorem c04_ema : C04EmaStatement := by
  intro K _ _ _ _ p s nm input n t0 cs x hp ha0 ha1 hk hne habs hin hnone
  exact shifted_series (.ema p input s) nm input n t0 cs x (EmaP p n s) rfl rfl hk hne habs hin hnone
    (fun y m vs r V hQ => ema_shift_step p hp s n (by simpa using ha0) (by simpa using ha1) y nm input m t0 vs r V hQ)

/-! ### RMA -/

def RmaP (p n : Nat) (xs : Nat → K) (j : Nat) (v : Val K) : Prop :=
  RecOK p n (1 / (p : K)) (recExact (1 / (p : K)) (decayMean xs p (p - 1)) xs p) j v

/-- **one RMA call in the shifted series** -/
theorem rma_shift_step (p : Nat) (hp : 2 ≤ p) (n : Nat)
    (x : Ctx K) (nm input : String) (m t0 : Nat)
    (vs : List (Val K)) (r : Nat → Num K) (V : SView x nm input m t0 vs r)
    (hQ : ∀ j, j < m → ShiftedOK (RmaP p n (fun k => (r k).toF)) t0 j (vs.getD j .none)) :
    ∃ v, Calc.rma x p input = .ok v ∧ ShiftedOK (RmaP p n (fun k => (r k).toF)) t0 m (v.roundBy n) := by
  have hpK : (0 : K) < p := by exact_mod_cast (by omega : 0 < p)
  have hpI : ((p : Int) : K) ≠ 0 := by simpa using hpK.ne'
  have ha0 : (0 : K) < 1 / (p : K) := by positivity
  have ha1 : 1 / (p : K) ≤ 1 := by
    rw [div_le_one hpK]; exact_mod_cast (by omega : 1 ≤ p)
  have hd2 : (Num.int (p : Int) : Num K).toF ≠ 0 := by simpa using hpK.ne'
  have hper := V.period p (by omega)
  have hwarm : ∀ j v, RmaP p n (fun k => (r k).toF) j v → j + 1 < p → v = .none := fun j v h hj => h.1 hj
  by_cases h1 : m + 1 < t0 + p
  · have hpn := V.prev_none _ p hwarm hQ (by omega)
    have hrp : x.readingPeriod p input = false := by rw [hper]; simp; omega
    refine ⟨.none, ?_, fun _ => rfl, fun _ => ⟨fun _ => rfl, fun h => by omega⟩⟩
    simp [Calc.rma, Num.truediv_ok _ _ hd2, Ctx.prevExists_of hpn, hrp]
  · obtain ⟨m', rfl⟩ : ∃ m', m = t0 + m' := ⟨m - t0, by omega⟩
    have hsub : t0 + m' - t0 = m' := by omega
    refine (?_ : ∃ v, Calc.rma x p input = .ok v ∧
      ((t0 + m' < t0 → v.roundBy n = .none) ∧ (t0 ≤ t0 + m' → RmaP p n _ (t0 + m' - t0) (v.roundBy n))))
    rw [hsub]
    by_cases h2 : m' + 1 = p
    · have hpn := V.prev_none _ p hwarm hQ (by omega)
      have hrp : x.readingPeriod p input = true := by rw [hper]; simp; omega
      have hwin := rma_seed_window x p input (fun k => r (m' - k)) hpn hrp (by omega)
        (by
          intro k hk'
          have := V.back k (by omega)
          rwa [show t0 + m' - k - t0 = m' - k by omega] at this)
      refine ⟨_, hwin, fun h => by omega, fun _ => ⟨fun h => by omega, fun _ => ⟨_, rfl, ?_⟩⟩⟩
      rw [recExact_seed _ _ _ _ _ (by omega)]
      have hm1 : p - 1 = m' := by omega
      have : rsum p (fun k => (1 - 1 / (p : K)) ^ k * (r (m' - k)).toF)
            / rsum p (fun k => (1 - 1 / (p : K)) ^ k)
          = decayMean (fun k => (r k).toF) p (p - 1) := by
        unfold decayMean; rw [hm1]
      rw [this]
      exact le_trans (LawfulPyF.round_err n _) (eps_le_div n _ ha0 ha1)
    · have h3 : p ≤ m' := by omega
      obtain ⟨yp, hyp, hbound⟩ := ((hQ (t0 + m' - 1) (by omega)).2 (by omega)).2 (by omega)
      rw [show t0 + m' - 1 - t0 = m' - 1 by omega] at hbound
      have hpn := sview_prev_flt V yp (by omega) hyp
      have hcur := V.cur (by omega)
      rw [hsub] at hcur
      refine ⟨_, rma_rec _ p input (.flt yp) _ hpn hcur hpI, fun h => by omega,
        fun _ => ⟨fun h => by omega, fun _ => ⟨_, rfl, ?_⟩⟩⟩
      rw [recExact_step _ _ _ _ _ h3 (by omega)]
      have hb := ema_error_budget n (1 / (p : K)) ((r m').toF) yp _ ha0 ha1 hbound
      simp only [Num.toF_flt, Int.cast_natCast]
      exact hb

def C04RmaStatement : Prop :=
  ∀ (K : Type) [Field K] [LinearOrder K] [IsStrictOrderedRing K] [LawfulPyF K]
    (p : Nat) (nm input : String) (n t0 : Nat) (cs : List (Candle K)) (x : Nat → K),
    2 ≤ p → IsKey nm → nm ≠ input →
    (∀ c ∈ cs, dlookup nm c.inds = none ∧ dlookup nm c.subs = none) →
    (∀ j, j < cs.length → inputSeriesAt cs input j = if j < t0 then none else some (x (j - t0))) →
    (∀ j, j < cs.length → j < t0 → readingByCandle (cs.getD j default) input = .none) →
    ∃ vs : List (Val K), vs.length = cs.length ∧
      engineCalc (mkTop (.rma p input) nm n) cs = .ok (deco nm cs vs) ∧
      ∀ j, j < cs.length →
        (j < t0 → vs.getD j .none = .none) ∧
        (t0 ≤ j → RecOK p n (1 / (p : K))
          (recExact (1 / (p : K)) (decayMean x p (p - 1)) x p) (j - t0) (vs.getD j .none))

/-- **C04 for RMA, every candle list, every input name, every start `t0`** -/
theorem c04_rma : C04RmaStatement := by
  intro K _ _ _ _ p nm input n t0 cs x hp hk hne habs hin hnone
  exact shifted_series (.rma p input) nm input n t0 cs x (RmaP p n) rfl rfl hk hne habs hin hnone
    (fun y m vs r V hQ => rma_shift_step p hp n y nm input m t0 vs r V hQ)

/-! ### WMA -/

def WmaP (p n : Nat) (xs : Nat → K) (j : Nat) (v : Val K) : Prop := DirectOK p n (wmaAt xs p) j v

/-- **one WMA call in the shifted series** -/
theorem wma_shift_step (p : Nat) (hp : 2 ≤ p) (n : Nat)
    (x : Ctx K) (nm input : String) (m t0 : Nat)
    (vs : List (Val K)) (r : Nat → Num K) (V : SView x nm input m t0 vs r)
    (hQ : ∀ j, j < m → ShiftedOK (WmaP p n (fun k => (r k).toF)) t0 j (vs.getD j .none)) :
    ∃ v, Calc.wma x p input = .ok v ∧ ShiftedOK (WmaP p n (fun k => (r k).toF)) t0 m (v.roundBy n) := by
  have hper := V.period p (by omega)
  have hwarm : ∀ j v, WmaP p n (fun k => (r k).toF) j v → j + 1 < p → v = .none := fun j v h hj => h.1 hj
  by_cases h1 : m + 1 < t0 + p
  · have hpn := V.prev_none _ p hwarm hQ (by omega)
    have hrp : x.readingPeriod p input = false := by rw [hper]; simp; omega
    exact ⟨.none, wma_none _ p input hpn hrp, fun _ => rfl, fun _ => ⟨fun _ => rfl, fun h => by omega⟩⟩
  · obtain ⟨m', rfl⟩ : ∃ m', m = t0 + m' := ⟨m - t0, by omega⟩
    have hsub : t0 + m' - t0 = m' := by omega
    refine (?_ : ∃ v, Calc.wma x p input = .ok v ∧
      ((t0 + m' < t0 → v.roundBy n = .none) ∧ (t0 ≤ t0 + m' → WmaP p n _ (t0 + m' - t0) (v.roundBy n))))
    rw [hsub]
    have hrp : x.readingPeriod p input = true := by rw [hper]; simp; omega
    have hw := wma_def x p input _ (fun k => r (m' - k)) V.prev (Or.inr hrp) (by omega)
      (by
        intro k hk'
        have := V.back k (by omega)
        rwa [show t0 + m' - k - t0 = m' - k by omega] at this)
    refine ⟨_, hw, fun h => by omega, fun _ => ⟨fun h => by omega, fun _ => ⟨_, rfl, ?_⟩⟩⟩
    exact LawfulPyF.round_err n _

def C04WmaStatement : Prop :=
  ∀ (K : Type) [Field K] [LinearOrder K] [IsStrictOrderedRing K] [LawfulPyF K]
    (p : Nat) (nm input : String) (n t0 : Nat) (cs : List (Candle K)) (x : Nat → K),
    2 ≤ p → IsKey nm → nm ≠ input →
    (∀ c ∈ cs, dlookup nm c.inds = none ∧ dlookup nm c.subs = none) →
    (∀ j, j < cs.length → inputSeriesAt cs input j = if j < t0 then none else some (x (j - t0))) →
    (∀ j, j < cs.length → j < t0 → readingByCandle (cs.getD j default) input = .none) →
    ∃ vs : List (Val K), vs.length = cs.length ∧
      engineCalc (mkTop (.wma p input) nm n) cs = .ok (deco nm cs vs) ∧
      ∀ j, j < cs.length →
        (j < t0 → vs.getD j .none = .none) ∧
        (t0 ≤ j → DirectOK p n (wmaAt x p) (j - t0) (vs.getD j .none))

/-- **C04 for WMA, every candle list, every input name, every start `t0`** -/
theorem c04_wma : C04WmaStatement := by
  intro K _ _ _ _ p nm input n t0 cs x hp hk hne habs hin hnone
  exact shifted_series (.wma p input) nm input n t0 cs x (WmaP p n) rfl rfl hk hne habs hin hnone
    (fun y m vs r V hQ => wma_shift_step p hp n y nm input m t0 vs r V hQ)

/-! ### ROC (C06) -/

/-- **one ROC call in the shifted series** (`xs` = the input values, non-zero as far as they are read) -/
theorem roc_shift_step (p : Nat) (hp : 1 ≤ p) (n : Nat) (xs : Nat → K)
    (x : Ctx K) (nm input : String) (m t0 : Nat)
    (vs : List (Val K)) (r : Nat → Num K) (hr : ∀ k, (r k).toF = xs k)
    (hnz : ∀ k, t0 + k ≤ m → xs k ≠ 0) (V : SView x nm input m t0 vs r)
    (hQ : ∀ j, j < m → ShiftedOK (DirectOK (p + 1) n (rocAt xs p)) t0 j (vs.getD j .none)) :
    ∃ v, Calc.roc x p input = .ok v ∧ ShiftedOK (DirectOK (p + 1) n (rocAt xs p)) t0 m (v.roundBy n) := by
  have hper := V.period (p + 1) (by omega)
  have hper' : x.readingPeriod ((p : Int) + 1) input = decide (t0 + (p + 1) ≤ m + 1) := by
    have : ((p + 1 : Nat) : Int) = (p : Int) + 1 := by push_cast; ring
    rw [← this]; exact hper
  have hwarm : ∀ j v, DirectOK (p + 1) n (rocAt xs p) j v → j + 1 < p + 1 → v = .none := fun j v h hj => h.1 hj
  by_cases h1 : m + 1 < t0 + (p + 1)
  · have hpn := V.prev_none _ (p + 1) hwarm hQ (by omega)
    have hrp : x.readingPeriod ((p : Int) + 1) input = false := by rw [hper']; simp; omega
    exact ⟨.none, roc_none _ p input hpn hrp, fun _ => rfl, fun _ => ⟨fun _ => rfl, fun h => by omega⟩⟩
  · obtain ⟨m', rfl⟩ : ∃ m', m = t0 + m' := ⟨m - t0, by omega⟩
    have hsub : t0 + m' - t0 = m' := by omega
    refine (?_ : ∃ v, Calc.roc x p input = .ok v ∧
      ((t0 + m' < t0 → v.roundBy n = .none) ∧
        (t0 ≤ t0 + m' → DirectOK (p + 1) n (rocAt xs p) (t0 + m' - t0) (v.roundBy n))))
    rw [hsub]
    have hrp : x.readingPeriod ((p : Int) + 1) input = true := by rw [hper']; simp; omega
    have hback := V.back p (by omega)
    rw [show t0 + m' - p - t0 = m' - p by omega] at hback
    have hcur := V.cur (by omega)
    rw [hsub] at hcur
    have hb0 : (r (m' - p)).toF ≠ 0 := by rw [hr]; exact hnz _ (by omega)
    have hw := roc_flt x p input _ _ _ V.prev (Or.inr hrp) hback hcur hb0
    refine ⟨_, hw, fun h => by omega, fun _ => ⟨fun h => by omega, fun _ => ⟨_, rfl, ?_⟩⟩⟩
    unfold rocAt
    rw [← hr, ← hr]
    exact LawfulPyF.round_err n _

/-- ROC over a late-starting input: `period ≥ 1`, the numeric inputs non-zero (ROC divides by the
reference value unguarded – `roc_zeroDiv`) -/
def C06RocStatement : Prop :=
  ∀ (K : Type) [Field K] [LinearOrder K] [IsStrictOrderedRing K] [LawfulPyF K]
    (p : Nat) (nm input : String) (n t0 : Nat) (cs : List (Candle K)) (x : Nat → K),
    1 ≤ p → IsKey nm → nm ≠ input →
    (∀ c ∈ cs, dlookup nm c.inds = none ∧ dlookup nm c.subs = none) →
    (∀ j, j < cs.length → inputSeriesAt cs input j = if j < t0 then none else some (x (j - t0))) →
    (∀ j, j < cs.length → j < t0 → readingByCandle (cs.getD j default) input = .none) →
    (∀ k, t0 + k < cs.length → x k ≠ 0) →
    ∃ vs : List (Val K), vs.length = cs.length ∧
      engineCalc (mkTop (.roc p input) nm n) cs = .ok (deco nm cs vs) ∧
      ∀ j, j < cs.length →
        (j < t0 → vs.getD j .none = .none) ∧
        (t0 ≤ j → DirectOK (p + 1) n (rocAt x p) (j - t0) (vs.getD j .none))

/-- **C06 for ROC, every candle list, every input name, every start `t0`**: `None` on the first
`t0 + period` candles, then within `ε_n` of `100·(x[t] − x[t−p])/x[t−p]` of the inputs counted from `t0`. -/
theorem c06_roc : C06RocStatement := by
  intro K _ _ _ _ p nm input n t0 cs x hp hk hne habs hin hnone hnz
  exact shifted_series_hr (.roc p input) nm input n t0 cs x (DirectOK (p + 1) n (rocAt x p)) rfl rfl hk hne
    habs hin hnone
    (fun y m vs r hm hr V hQ =>
      roc_shift_step p hp n x y nm input m t0 vs r hr (fun k hk' => hnz k (by omega)) V hQ)

/-! ### VWMA: no input parameter – the statement over candle lists with foreign readings -/

/-- the view of a candle attribute from the engine's call: `t0 = 0`, the column is the raw one -/
theorem runCtx_attr_view (nm a : String) (hk : IsKey nm) (hd : NoDot a) (ha : a ∈ Candle.attrNames)
    (fld : Candle K → Num K) (hattr : ∀ c : Candle K, c.attr a = some (.num (fld c)))
    (cs : List (Candle K)) (vs : List (Val K)) (m : Nat) (hm : m < cs.length) (hvs : vs.length = m) :
    SView (runCtx nm cs vs m) nm a m 0 vs (fun j => fld (cs.getD j default)) :=
  runCtx_view nm a hk cs vs m 0 hm hvs _
    (fun _ _ => readingByCandle_setKey_other nm a (isKey_ne_attr nm a hk ha) (noDot_not_self nm a hd) _ _)
    (fun j _ h => absurd h (Nat.not_lt_zero j))
    (fun _ _ _ => readingByCandle_attr a hd _ _ (hattr _))

/-- **C04 for VWMA over every candle list** (whatever it holds under other names): the engine never
raises, changes nothing but the entry under `nm`, and stores the series of `vwma_series`. -/
theorem c04_vwma (p : Nat) (hp : 2 ≤ p) (nm : String) (n : Nat) (hk : IsKey nm)
    (cs : List (Candle K)) (habs : ∀ c ∈ cs, dlookup nm c.inds = none ∧ dlookup nm c.subs = none) :
    ∃ vs : List (Val K), vs.length = cs.length ∧
      engineCalc (mkTop (.vwma p) nm n) cs = .ok (deco nm cs vs) ∧
      ∀ j, j < cs.length →
        DirectOK p n (vwmaAt (fieldAt (·.c) cs) (fieldAt (·.v) cs) p) j (vs.getD j .none) := by
  refine engine_leaf_induct (.vwma p) nm n rfl rfl cs habs _ ?_
  intro m hm vs hvs hQ
  show ∃ v, Calc.vwma (runCtx nm cs vs m) p = .ok v ∧ DirectOK p n _ m (v.roundBy n)
  have VC := runCtx_attr_view nm "close" hk noDot_close (by decide) (·.c) (fun _ => rfl) cs vs m hm hvs
  have VV := runCtx_attr_view nm "volume" hk noDot_volume (by decide) (·.v) (fun _ => rfl) cs vs m hm hvs
  have hper := VC.period p (by omega)
  by_cases h1 : m + 1 < p
  · have hpn : (runCtx nm cs vs m).prevReading (runCtx nm cs vs m).name = .ok .none := by
      rw [VC.prev]
      by_cases h0 : m = 0
      · simp [h0]
      · simp only [h0, if_false]
        rw [(hQ (m - 1) (by omega)).1 (by omega)]
    have hrp : (runCtx nm cs vs m).readingPeriod p "close" = false := by rw [hper]; simp; omega
    exact ⟨.none, vwma_none _ p hpn hrp, fun _ => rfl, fun h => by omega⟩
  · have hrp : (runCtx nm cs vs m).readingPeriod p "close" = true := by rw [hper]; simp; omega
    have hidx : ∀ j : Nat, (runCtx nm cs vs m).i + 1 - (p : Int) + (j : Int) = ((m + 1 - p + j : Nat) : Int) := by
      intro j; show (m : Int) + 1 - (p : Int) + (j : Int) = _; omega
    have hw := vwma_def (runCtx nm cs vs m) p _
      (fun j => (cs.getD (m + 1 - p + j) default).c) (fun j => (cs.getD (m + 1 - p + j) default).v)
      VC.prev (Or.inr hrp) (by omega)
      (by show (p : Int) ≤ (m : Int) + 1; omega) (by show (1 : Int) ≤ (m : Int); omega)
      (by intro j hj; rw [hidx]; exact VC.inp_num _ (by omega) (by omega))
      (by intro j hj; rw [hidx]; exact VV.inp_num _ (by omega) (by omega))
    refine ⟨_, hw, fun h => by omega, fun _ => ⟨_, rfl, ?_⟩⟩
    exact LawfulPyF.round_err n _

/-! ### non-vacuity: the foreign column `"EMA_2"` of `demoForeign` (`None, None, 12, 14, 15`; `t0 = 2`) -/

example : ∃ vs : List (Val ℚ), vs.length = demoForeign.length ∧
    engineCalc (mkTop (.ema ((2 : Nat) : Int) "EMA_2" (fl 2)) "EMA2_2" 4) demoForeign
      = .ok (deco "EMA2_2" demoForeign vs) ∧
    ∀ j, j < demoForeign.length →
      (j < 2 → vs.getD j .none = .none) ∧
      (2 ≤ j → RecOK 2 4 ((fl 2 : Num ℚ).toF / (((2 : Nat) : ℚ) + 1))
        (recExact ((fl 2 : Num ℚ).toF / (((2 : Nat) : ℚ) + 1)) (winMean demoX 2 (2 - 1)) demoX 2) (j - 2)
        (vs.getD j .none)) :=
  c04_ema ℚ 2 (fl 2) "EMA2_2" "EMA_2" 4 2 demoForeign demoX (by norm_num) (by simp; norm_num) (by simp; norm_num)
    (by decide) (by decide) (demoForeign_abs "EMA2_2" (by decide) (by decide) (by decide))
    demoForeign_in demoForeign_none

example : ∃ vs : List (Val ℚ), vs.length = demoForeign.length ∧
    engineCalc (mkTop (.rma ((2 : Nat) : Int) "EMA_2") "RMA_2" 4) demoForeign = .ok (deco "RMA_2" demoForeign vs) ∧
    ∀ j, j < demoForeign.length →
      (j < 2 → vs.getD j .none = .none) ∧
      (2 ≤ j → RecOK 2 4 (1 / ((2 : Nat) : ℚ))
        (recExact (1 / ((2 : Nat) : ℚ)) (decayMean demoX 2 (2 - 1)) demoX 2) (j - 2) (vs.getD j .none)) :=
  c04_rma ℚ 2 "RMA_2" "EMA_2" 4 2 demoForeign demoX (by norm_num) (by decide) (by decide)
    (demoForeign_abs "RMA_2" (by decide) (by decide) (by decide)) demoForeign_in demoForeign_none

example : ∃ vs : List (Val ℚ), vs.length = demoForeign.length ∧
    engineCalc (mkTop (.wma ((2 : Nat) : Int) "EMA_2") "WMA_2" 4) demoForeign = .ok (deco "WMA_2" demoForeign vs) ∧
    ∀ j, j < demoForeign.length →
      (j < 2 → vs.getD j .none = .none) ∧ (2 ≤ j → DirectOK 2 4 (wmaAt demoX 2) (j - 2) (vs.getD j .none)) :=
  c04_wma ℚ 2 "WMA_2" "EMA_2" 4 2 demoForeign demoX (by norm_num) (by decide) (by decide)
    (demoForeign_abs "WMA_2" (by decide) (by decide) (by decide)) demoForeign_in demoForeign_none

example : ∃ vs : List (Val ℚ), vs.length = demoForeign.length ∧
    engineCalc (mkTop (.roc ((1 : Nat) : Int) "EMA_2") "ROC" 4) demoForeign = .ok (deco "ROC" demoForeign vs) ∧
    ∀ j, j < demoForeign.length →
      (j < 2 → vs.getD j .none = .none) ∧ (2 ≤ j → DirectOK (1 + 1) 4 (rocAt demoX 1) (j - 2) (vs.getD j .none)) :=
  c06_roc ℚ 1 "ROC" "EMA_2" 4 2 demoForeign demoX (by norm_num) (by decide) (by decide)
    (demoForeign_abs "ROC" (by decide) (by decide) (by decide)) demoForeign_in demoForeign_none
    (by
      intro k hk
      have : k < 3 := by simp [demoForeign] at hk; omega
      interval_cases k <;> simp [demoX])

example : ∃ vs : List (Val ℚ), vs.length = demoForeign.length ∧
    engineCalc (mkTop (.vwma ((2 : Nat) : Int)) "VWMA_2" 4) demoForeign = .ok (deco "VWMA_2" demoForeign vs) ∧
    ∀ j, j < demoForeign.length →
      DirectOK 2 4 (vwmaAt (fieldAt (·.c) demoForeign) (fieldAt (·.v) demoForeign) 2) j (vs.getD j .none) :=
  c04_vwma 2 (by norm_num) "VWMA_2" 4 (by decide) demoForeign
    (demoForeign_abs "VWMA_2" (by decide) (by decide) (by decide))

/-- the toy carrier: an EMA of a late-starting foreign reading returns (`decide`) -/
example : (engineCalc (mkTop (.wma 2 "EMA_2") "WMA_2" 4)
    ([{ o := .int 10, h := .int 12, l := .int 9, c := .int 11, v := .int 100 },
      { o := .int 11, h := .int 13, l := .int 10, c := .int 12, v := .int 200, inds := [("EMA_2", .none)] },
      { o := .int 12, h := .int 15, l := .int 11, c := .int 14, v := .int 300, inds := [("EMA_2", .int 12)] },
      { o := .int 14, h := .int 16, l := .int 13, c := .int 15, v := .int 0, inds := [("EMA_2", .int 14)] }]
      : List (Candle Int))).toOption.map
      (fun l => l.map fun c => (readingByCandle c "WMA_2").isNone) = some [true, true, true, false] := by
  decide +kernel

end Numeric
end Hex

#print axioms Hex.Numeric.c04_ema
#print axioms Hex.Numeric.c04_rma
#print axioms Hex.Numeric.c04_wma
#print axioms Hex.Numeric.c06_roc
#print axioms Hex.Numeric.c04_vwma

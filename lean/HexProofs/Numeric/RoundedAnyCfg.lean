import HexProofs.Numeric.RoundedRuns
/-!
# Rounded stored readings on EVERY manager configuration, for EVERY kind (property C10, last clause)

`RoundedRuns.lean` goes through the row-major spec of a tree (`TreeSpec`) and an incremental manager spec (`MgrSpec`).
The rounding clause needs neither: the engine invariant of `RoundedEngine.lean` (`engineCalc_allStored`) starts from
ANY candle list whose readings under `nm` are rounded, and the candle manager (`_tasks`: collapse, fill, Heikin-Ashi
conversion, lifespan trimming) never fabricates a reading – every candle it hands on carries the two reading dicts of
one of the candles it was given, or none at all (`Candle.merge`, the HA conversion and fill candles start from empty
dicts).  Hence:

* `runIndicator_allStored` – every tree that is `Safe nm r`, EVERY `MgrCfg` (also `lifespan`, alone or combined with a
  timeframe / gap filling / Heikin-Ashi – the configurations without an `MgrSpec`), every initial list, every append
  schedule, incoming candles that may carry foreign readings (only: nothing unrounded under `nm`): whenever the history
  returns, every value stored under `nm` is a fixed point of `round_values(·, r)`;
* `rounded_every_cfg` – for EVERY kind `k`, EVERY name and `round_value` (`mkTop k name round`: the names of a shipped
  tree are pairwise distinct whatever the name, `mkTop_nodup`), no parameter guard at all.
-/
namespace Hex
set_option linter.unusedSectionVars false
set_option linter.unusedVariables false
variable {F : Type} [PyF F]

/-! ### the manager never fabricates a reading -/
section manager

/-- a property of a candle that only looks at its two reading dicts and holds of a candle without readings -/
structure ReadingProp (R : Candle F → Prop) : Prop where
  congr : ∀ c c' : Candle F, c'.inds = c.inds → c'.subs = c.subs → R c → R c'
  plain : ∀ c : Candle F, c.inds = [] → c.subs = [] → R c

variable {R : Candle F → Prop}

theorem trimCandles_keeps (life : Option Int) (cs cs' : List (Candle F)) (h : trimCandles life cs = .ok cs')
    (h0 : ∀ c ∈ cs, R c) : ∀ c ∈ cs', R c := by
  unfold trimCandles at h
  split at h
  · cases h; exact h0
  · cases h; exact h0
  · split at h
    · cases h; exact h0
    · dsimp only at h
      split at h
      · cases h
      · cases h
        exact fun c hc => h0 c ((List.dropWhile_suffix _).subset hc)

theorem convertFrom_keeps (hR : ReadingProp R) (rest : List (Candle F)) :
    ∀ (done out : List (Candle F)), convertFrom done rest = .ok out → (∀ c ∈ done, R c) → ∀ c ∈ out, R c := by
  induction rest with
  | nil => intro done out h h0; simp only [convertFrom] at h; cases h; exact h0
  | cons c rest ih =>
    intro done out h h0
    simp only [convertFrom] at h
    obtain ⟨c2, _, h⟩ := Writes.bind_ok h
    refine ih _ out h (fun x hx => ?_)
    rcases List.mem_append.1 hx with hx | hx
    · exact h0 x hx
    · simp only [List.mem_singleton] at hx
      subst hx
      exact hR.plain _ rfl rfl

theorem convertCandles_keeps (hR : ReadingProp R) (cs out : List (Candle F)) (h : convertCandles cs = .ok out)
    (h0 : ∀ c ∈ cs, R c) : ∀ c ∈ out, R c :=
  convertFrom_keeps hR _ _ out h (fun c hc => h0 c (List.mem_of_mem_take hc))

theorem merge_plain (a b : Candle F) : (a.merge b).inds = [] ∧ (a.merge b).subs = [] := ⟨rfl, rfl⟩

theorem collapseStep_keeps (hR : ReadingProp R) (tf : Int) (st st' : WalkSt F) (c : Candle F)
    (h : collapseStep tf st c = .ok st') (h0 : ∀ x ∈ st.out, R x) (hc : R c) : ∀ x ∈ st'.out, R x := by
  unfold collapseStep at h
  split at h
  · cases h
  · rename_i prev r hout
    have hp : R prev := h0 prev (by rw [hout]; simp)
    have hr : ∀ x ∈ r, R x := fun x hx => h0 x (by rw [hout]; simp [hx])
    have hm : R (prev.merge c) := hR.plain _ rfl rfl
    have hts : ∀ t, R ({ c with ts := t } : Candle F) := fun t => hR.congr c _ rfl rfl hc
    split at h
    · dsimp only at h
      split_ifs at h <;> cases h <;> intro x hx <;> simp only [List.mem_cons] at hx <;>
        first
          | (rcases hx with rfl | hx; exact hm; exact hr x hx)
          | (rcases hx with rfl | rfl | hx; exact hts _; exact hp; exact hr x hx)
    · cases h; exact h0

theorem collapseLoop_keeps (hR : ReadingProp R) (tf : Int) (l : List (Candle F)) :
    ∀ (st st' : WalkSt F), collapseLoop tf st l = .ok st' → (∀ x ∈ st.out, R x) → (∀ c ∈ l, R c) →
      ∀ x ∈ st'.out, R x := by
  induction l with
  | nil => intro st st' h h0 _; simp only [collapseLoop] at h; cases h; exact h0
  | cons c rest ih =>
    intro st st' h h0 hl
    simp only [collapseLoop] at h
    obtain ⟨st1, h1, h2⟩ := Writes.bind_ok h
    exact ih st1 st' h2 (collapseStep_keeps hR tf st st1 c h1 h0 (hl c (by simp)))
      (fun x hx => hl x (by simp [hx]))

theorem fillRun_plain (prev : Candle F) (tf t : Int) (n : Nat) :
    ∀ x ∈ fillRun prev tf t n, x.inds = [] ∧ x.subs = [] := by
  induction n generalizing t with
  | zero => intro x hx; simp [fillRun] at hx
  | succ n ih =>
    intro x hx
    simp only [fillRun, List.mem_cons] at hx
    rcases hx with rfl | hx
    · exact ⟨rfl, rfl⟩
    · exact ih _ x hx

theorem fillMissing_keeps (hR : ReadingProp R) (tf : Int) (l : List (Candle F)) :
    ∀ out, fillMissing tf l = .ok out → (∀ c ∈ l, R c) → ∀ c ∈ out, R c := by
  induction l with
  | nil => intro out h h0; simp only [fillMissing] at h; cases h; exact h0
  | cons a rest ih =>
    cases rest with
    | nil => intro out h h0; simp only [fillMissing] at h; cases h; exact h0
    | cons b rest =>
      intro out h h0
      have ha : R a := h0 a (by simp)
      have hrest : ∀ c ∈ b :: rest, R c := fun c hc => h0 c (List.mem_cons_of_mem _ hc)
      simp only [fillMissing] at h
      split at h
      · obtain ⟨r, h1, h2⟩ := Writes.bind_ok h
        cases h2
        intro c hc
        rcases List.mem_cons.1 hc with rfl | hc
        · exact ha
        · exact ih r h1 hrest c hc
      · split at h
        · cases h
        · split at h
          · cases h
          · obtain ⟨r, h1, h2⟩ := Writes.bind_ok h
            cases h2
            intro c hc
            rcases List.mem_cons.1 hc with rfl | hc
            · exact ha
            · rcases List.mem_append.1 hc with hc | hc
              · obtain ⟨e1, e2⟩ := fillRun_plain _ _ _ _ c hc
                exact hR.plain c e1 e2
              · exact ih r h1 hrest c hc

theorem collapseCandles_keeps (hR : ReadingProp R) (tf : Option Int) (fill : Bool) (cs out : List (Candle F))
    (h : collapseCandles tf fill cs = .ok out) (h0 : ∀ c ∈ cs, R c) : ∀ c ∈ out, R c := by
  unfold collapseCandles at h
  split at h
  · cases h; exact h0
  · cases h; exact h0
  · rename_i tf' init rest
    have hi : R init := h0 init (by simp)
    have hrest : ∀ c ∈ rest, R c := fun c hc => h0 c (List.mem_cons_of_mem _ hc)
    split at h
    · cases h; exact hrest
    · rename_i t0 _
      dsimp only at h
      obtain ⟨st, h1, h2⟩ := Writes.bind_ok h
      have hst : ∀ x ∈ st.out, R x := by
        refine collapseLoop_keeps hR tf' rest _ st h1 (fun x hx => ?_) hrest
        simp only [List.mem_singleton] at hx
        subst hx
        split
        · exact hi
        · exact hR.congr init _ rfl rfl hi
      have hrev : ∀ x ∈ st.out.reverse, R x := fun x hx => hst x (List.mem_reverse.1 hx)
      split at h2
      · exact fillMissing_keeps hR tf' _ out h2 hrev
      · cases h2; exact hrev

/-- **`CandleManager._tasks` never fabricates a reading**: every configuration -/
theorem tasks_keeps (hR : ReadingProp R) (cfg : MgrCfg) (cs out : List (Candle F))
    (h : tasks cfg cs = .ok out) (h0 : ∀ c ∈ cs, R c) : ∀ c ∈ out, R c := by
  unfold tasks at h
  obtain ⟨cs1, h1, h⟩ := Writes.bind_ok h
  have k1 := collapseCandles_keeps hR _ _ cs cs1 h1 h0
  dsimp only at h
  split at h
  · obtain ⟨cs2, h2, h3⟩ := Writes.bind_ok h
    exact trimCandles_keeps _ cs2 out h3 (convertCandles_keeps hR cs1 cs2 h2 k1)
  · obtain ⟨cs2, h2, h3⟩ := Writes.bind_ok h
    cases h2
    exact trimCandles_keeps _ cs1 out h3 k1

end manager

/-! ### every history on every configuration -/
section runs

theorem allStored_readingProp (nm : String) (Q : Val F → Prop) :
    ReadingProp (fun c : Candle F => PI nm Q c ∧ PS nm Q c) :=
  ⟨fun c c' hi hs h => ⟨fun v hv => h.1 v (by rw [← hi]; exact hv), fun v hv => h.2 v (by rw [← hs]; exact hv)⟩,
   fun c hi hs => ⟨fun v hv => (by rw [hi] at hv; cases hv), fun v hv => (by rw [hs] at hv; cases hv)⟩⟩

variable {nm : String} {r : Nat} {Q : Val F → Prop}

theorem IndState.calculate_allStored (hQ : ∀ v : Val F, Q (v.roundBy r)) (s s' : IndState F)
    (hsafe : Safe nm r s.tree) (h : s.calculate = .ok s') (h0 : AllStored nm Q s.mgr.candles) :
    s'.tree = s.tree ∧ s'.mgr.cfg = s.mgr.cfg ∧ AllStored nm Q s'.mgr.candles := by
  obtain ⟨ht, hc, he⟩ := IndState.calculate_ok_engine s s' h
  exact ⟨ht, hc, engineCalc_allStored hQ s.tree hsafe _ _ h0 he⟩

theorem IndState.append_allStored (hQ : ∀ v : Val F, Q (v.roundBy r)) (s s' : IndState F) (new : List (Candle F))
    (hsafe : Safe nm r s.tree) (h : s.append new = .ok s') (h0 : AllStored nm Q s.mgr.candles)
    (hnew : AllStored nm Q new) :
    s'.tree = s.tree ∧ s'.mgr.cfg = s.mgr.cfg ∧ AllStored nm Q s'.mgr.candles := by
  unfold IndState.append at h
  obtain ⟨m, hm, h⟩ := Writes.bind_ok h
  have hm' : m.cfg = s.mgr.cfg ∧ AllStored nm Q m.candles := by
    unfold Manager.append at hm
    split at hm
    · cases hm; exact ⟨rfl, h0⟩
    · obtain ⟨cs, h1, h2⟩ := Writes.bind_ok hm
      cases h2
      refine ⟨rfl, tasks_keeps (allStored_readingProp nm Q) _ _ cs h1 (fun c hc => ?_)⟩
      rcases List.mem_append.1 hc with hc | hc
      · exact h0 c hc
      · exact hnew c hc
  obtain ⟨a, b, c⟩ := IndState.calculate_allStored hQ ({ s with mgr := m } : IndState F) s' hsafe h hm'.2
  exact ⟨a, b.trans hm'.1, c⟩

theorem appends_allStored (hQ : ∀ v : Val F, Q (v.roundBy r)) (ind : Ind F) (hsafe : Safe nm r ind)
    (chunks : List (List (Candle F))) :
    ∀ (s s' : IndState F), s.tree = ind → AllStored nm Q s.mgr.candles → AllStored nm Q chunks.flatten →
      chunks.foldlM (fun (st : IndState F) ch => st.append ch) s = .ok s' → AllStored nm Q s'.mgr.candles := by
  induction chunks with
  | nil => intro s s' _ h0 _ h; simp only [List.foldlM_nil, pure, Except.pure] at h; cases h; exact h0
  | cons ch rest ih =>
    intro s s' ht h0 hch h
    rw [List.foldlM_cons] at h
    obtain ⟨s1, h1, h2⟩ := Writes.bind_ok h
    obtain ⟨a, _, c⟩ := IndState.append_allStored hQ s s1 ch (ht ▸ hsafe) h1 h0
      (fun x hx => hch x (by simp [hx]))
    exact ih s1 s' (a.trans ht) c (fun x hx => hch x (by
      simp only [List.flatten_cons, List.mem_append]; exact Or.inr hx)) h2

/-- **Every manager configuration, every `Safe` tree, every history.**  Construction over ANY initial list,
`calculate()`, ANY sequence of appends, on ANY `MgrCfg` – timeframe, gap filling, Heikin-Ashi, LIFESPAN, in any
combination; the incoming candles may carry readings (foreign columns), only nothing that violates `Q` under `nm`:
whenever the history returns, every value stored under `nm` satisfies `Q`. -/
theorem runIndicator_allStored (hQ : ∀ v : Val F, Q (v.roundBy r)) (ind : Ind F) (hsafe : Safe nm r ind)
    (cfg : MgrCfg) (init : List (Candle F)) (chunks : List (List (Candle F)))
    (hin : AllStored nm Q (init ++ chunks.flatten)) (snap : List (Candle F))
    (hsnap : candlesOf (runIndicator ind cfg init chunks) = .ok snap) : AllStored nm Q snap := by
  unfold candlesOf at hsnap
  cases hrun : runIndicator ind cfg init chunks with
  | error e => rw [hrun] at hsnap; cases hsnap
  | ok sf =>
    rw [hrun] at hsnap
    simp only [Except.map] at hsnap
    cases hsnap
    unfold runIndicator at hrun
    obtain ⟨s0, hs0, hrun1⟩ := Writes.bind_ok hrun
    obtain ⟨s1, hs1, hrun2⟩ := Writes.bind_ok hrun1
    unfold IndState.init at hs0
    obtain ⟨m, hm, hs0'⟩ := Writes.bind_ok hs0
    unfold Manager.init at hm
    obtain ⟨cs, hcs, hm'⟩ := Writes.bind_ok hm
    have e0 : s0 = ({ tree := ind, mgr := { cfg := cfg, candles := cs } } : IndState F) := by
      cases hm'; cases hs0'; rfl
    subst e0
    have h0 : AllStored nm Q cs :=
      tasks_keeps (allStored_readingProp nm Q) cfg init cs hcs (fun c hc => hin c (by simp [hc]))
    obtain ⟨a, _, c⟩ := IndState.calculate_allStored hQ _ s1 hsafe hs1 h0
    exact appends_allStored hQ ind hsafe chunks s1 sf a c (fun x hx => hin x (by simp [hx])) hrun2

/-- the names of a tree `_initialise` builds are pairwise distinct – for EVERY kind and EVERY name (the helper
suffixes are non-empty and pairwise different) -/
theorem mkTop_nodup (k : Kind F) (name : String) (round : Nat) : (mkTop k name round).allNames.Nodup := by
  cases k <;> tree_facts

/-- every shipped tree is `Safe` for each of its non-`Managed` nodes, with that node's own `round_value` -/
theorem mkTop_safe (k : Kind F) (name : String) (round : Nat) (n : Ind F) (hn : n ∈ (mkTop k name round).nodes)
    (hd : isData n.kind = false) : Safe n.name n.round (mkTop k name round) :=
  safe_of_nodup (mkTop_nodup k name round) (mkTop_wellManaged k name round) (mkTop_macdTop k name round) n hn hd

/-- no reading stored under `nm` yet (readings under other names are welcome) -/
def FreeOf (nm : String) (c : Candle F) : Prop := dlookup nm c.inds = none ∧ dlookup nm c.subs = none

instance (nm : String) (c : Candle F) : Decidable (FreeOf nm c) := by unfold FreeOf; infer_instance

theorem allStored_of_free (nm : String) (Q : Val F → Prop) (cs : List (Candle F)) (h : ∀ c ∈ cs, FreeOf nm c) :
    AllStored nm Q cs :=
  fun c hc => ⟨fun v hv => (by rw [(h c hc).1] at hv; cases hv), fun v hv => (by rw [(h c hc).2] at hv; cases hv)⟩

/-- **C10, last clause, in the generality of `C10_FULL`: EVERY kind, EVERY name and `round_value`, EVERY manager
configuration (also lifespan and its combinations), every initial list and append schedule, incoming candles that may
carry foreign readings (only none under the indicator's own name): whenever the history returns, every value stored
under the indicator's own name is a fixed point of `round_values(·, round)`; under an ordinary key the accessor
`reading_by_candle` returns a rounded reading (`RoundedAt`: float scalar / every float field is a fixed point of
`round(·, round)`).  No parameter guards, no totality hypothesis. -/
theorem rounded_every_cfg (hR : RoundIdem F) (cfg : MgrCfg) (k : Kind F) (name : String) (round : Nat)
    (hk : isData k = false)
    (init : List (Candle F)) (chunks : List (List (Candle F)))
    (hfree : ∀ c ∈ init ++ chunks.flatten, FreeOf name c) (snap : List (Candle F))
    (hsnap : candlesOf (runIndicator (mkTop k name round) cfg init chunks) = .ok snap) :
    AllStored name (RoundedVal round) snap ∧ (IsKey name → ∀ c ∈ snap, RoundedAt name round c) := by
  have hs : Safe name round (mkTop k name round) :=
    mkTop_safe k name round (mkTop k name round) (Ind.self_mem_nodes _) hk
  have h := runIndicator_allStored (roundedVal_roundBy hR round) _ hs cfg init chunks
    (allStored_of_free name _ _ hfree) snap hsnap
  exact ⟨h, fun hkey c hc => roundedAt_of_stored hkey (h c hc)⟩

/-- … and the helper series, each with ITS OWN `round_value` (4 for every helper): every node `n` of the tree that is
not a `Managed` data holder -/
theorem helpers_rounded_every_cfg (hR : RoundIdem F) (cfg : MgrCfg) (k : Kind F) (name : String) (round : Nat)
    (n : Ind F) (hn : n ∈ (mkTop k name round).nodes) (hd : isData n.kind = false)
    (init : List (Candle F)) (chunks : List (List (Candle F)))
    (hfree : ∀ c ∈ init ++ chunks.flatten, FreeOf n.name c) (snap : List (Candle F))
    (hsnap : candlesOf (runIndicator (mkTop k name round) cfg init chunks) = .ok snap) :
    (n = mkTop k name round ∨ n.round = 4) ∧ AllStored n.name (RoundedVal n.round) snap ∧
    (IsKey n.name → ∀ c ∈ snap, RoundedAt n.name n.round c) := by
  have h := runIndicator_allStored (roundedVal_roundBy hR n.round) _ (mkTop_safe k name round n hn hd) cfg init chunks
    (allStored_of_free n.name _ _ hfree) snap hsnap
  exact ⟨mkTop_helper_round k name round n hn, h, fun hkey c hc => roundedAt_of_stored hkey (h c hc)⟩

end runs
end Hex

/-! ### non-vacuity -/
namespace Hex
section demo
open Hex.Numeric

/-- `Int`: MACD(2, 3, 2), `round_value = 7`, on timeframe + gap filling + Heikin-Ashi + a LIFESPAN of four minutes
(no `MgrSpec`), three appends: the run returns `.ok`, keeping the last three buckets … -/
example : ((candlesOf (runIndicator (mkTop (.macd 2 3 2 "close") "MACD_2_3_2" 7 : Ind Int)
    { tf := some 120, fill := true, ha := true, lifespan := some 240 } (haIntStream.take 1)
    [haIntStream.drop 1 |>.take 2, [], haIntStream.drop 3])).toOption.map (·.map fun c => c.ts))
      = some [some 360, some 480, some 600] := by decide +kernel

/-- … and the theorem applies: the incoming candles carry no readings, so every stored own reading is rounded -/
example (snap : List (Candle Int))
    (hs : candlesOf (runIndicator (mkTop (.macd 2 3 2 "close") "MACD_2_3_2" 7 : Ind Int)
      { tf := some 120, fill := true, ha := true, lifespan := some 240 } (haIntStream.take 1)
      [haIntStream.drop 1 |>.take 2, [], haIntStream.drop 3]) = .ok snap) :
    ∀ c ∈ snap, RoundedAt "MACD_2_3_2" 7 c :=
  (rounded_every_cfg roundIdem_int _ _ "MACD_2_3_2" 7 rfl _ _ (by decide) snap hs).2 (by decide)

/-- ℚ: RSI(3) with `round_value = 2` on a lifespan manager over the five demo candles: whenever it returns (it does:
`rsi_lifeTotal` under retention; here no hypothesis is needed), own readings are fixed points of `round(·, 2)` and the
theorem says NOTHING of `RSI_3_data` – a `Managed` node (`data_not_rounded`: its values are not rounded) -/
example (life : Int) (snap : List (Candle ℚ))
    (hs : candlesOf (runIndicator (mkTop (.rsi 3 "close" : Kind ℚ) "RSI_3" 2) { lifespan := some life }
      (rsiDemoRaw.take 2) [rsiDemoRaw.drop 2]) = .ok snap) :
    ∀ c ∈ snap, ∀ y : ℚ, readingByCandle c "RSI_3" = .flt y → Rounded 2 y := by
  have h := (rounded_every_cfg (roundIdem_lawful ℚ) { lifespan := some life } (.rsi 3 "close") "RSI_3" 2 rfl
    (rsiDemoRaw.take 2) [rsiDemoRaw.drop 2] (fun c hc => by
      have hp : Plain c := rsiDemoRaw_plain c (by simpa [rsiDemoRaw] using hc)
      exact ⟨by rw [hp.1]; rfl, by rw [hp.2]; rfl⟩) snap hs).2 (by decide)
  exact fun c hc y hy => (h c hc).2.1 y hy

end demo
end Hex

#print axioms Hex.tasks_keeps
#print axioms Hex.runIndicator_allStored
#print axioms Hex.mkTop_nodup
#print axioms Hex.rounded_every_cfg
#print axioms Hex.helpers_rounded_every_cfg

import HexProofs.Numeric.SeriesStdevBB
import HexProofs.Numeric.SeriesMore
import HexProofs.Framework.Kinds.All
import HexProofs.Framework.Schedule
import HexModel.Py.FloatInst
/-!
# Counter and StandardDeviationThreshold: the whole series (closes the last items of `C05_FULL`)

## What the model (hexital/indicators/counter.py, stdevthres.py, stdev.py) really does
* **Counter** (`Calc.counter`, leaf, no helper, no arithmetic on floats): on every candle it reads the
  input AT THE ACTIVE INDEX and its own previous reading.  `count = prev if prev else 0` (so `None`
  and `0` both mean 0); a missing input (`None`) returns that count UNCHANGED (it neither resets
  nor grows, and it is stored – as the int `0` if there was nothing before, never as `None`); an input
  equal (Python `==`: `True == 1`, `15 == 15.0`) to the counted value returns `count + 1`; anything
  else returns the int `0`.  The first reading is at index `0` (no warm-up), every reading is a
  Python int, `round` does not touch ints.  Nothing here needs a field: the theorem is for every
  `[PyF F]`, hence also for the executed `Float` instance.
* **StandardDeviationThreshold**: one prior helper `name_stdev` (a `StandardDeviation` node with its
  own managed series `name_stdev_data`); the helper's reading is rounded to `defaultRound = 4`
  decimals by the engine, its data entry (`Managed.set_reading`) is NOT rounded.  The helper's first
  reading is at index `p` (`reading_period(p + 1, input)`), so the own reading is the bool `False`
  (never `None`) on candles `0 … p − 1` and from candle `p` on the bool
  `|x_j − x_{j−1}| > σ_stored_j · multiplier` with `σ_stored_j = round₄(sqrt(popVar))` – a strict
  comparison on the STORED σ.  A bool is not touched by `round`, so there is no rounding of the own
  reading; the only rounding point is the helper's `round₄`.

## Contents
* Counter: `cntStep`, `runLen` (the textbook run length as a plain recursion on the input column),
  `runLen_eq_trailing` (= length of the trailing run of matches among the non-missing inputs),
  `runLen_run` (index form when nothing is missing), `runLen_succ_cases` (grows by one, keeps, or resets),
  `counter_series_col` (EVERY raw list, every `[PyF F]`, any input column, missing inputs included),
  `counter_series` (candle-field input), `counter_series_engine` / `counter_batch_readings` /
  `counter_series_live`.
* Threshold: `thresSeries` (textbook flag on the exact σ), `ThRow`, `ThOK` (flag = strict comparison on
  the stored σ = `round₄(σ_exact)`), `ThOK.sigma`, `ThOK.exact_sides` / `ThOK.agree` / `ThOK.disagree_band`
  (relation to the exact σ: the stored flag is the textbook flag unless
  `| |x_j − x_{j−1}| − σ·m | ≤ |m|·ε₄`), `ThOK.still`, `ThOK.zero_mult`, `thres_series`; candle form
  `ThCandleOK` (+ `.agree`, `.sides`, `.isBool`), `thres_series_candles`, `thres_series_engine`,
  `thres_series_batch`, `thres_batch_readings`, `thres_series_live`.
* Hypotheses: `1 ≤ p`; `ThresNames nm` (helper names are ordinary, pairwise distinct keys), `IsKey nm`
  for the candle form; the input a candle attribute with numeric values (`hattr`); raw candles `Plain`.
  The multiplier is any `Num K` (Python int or float, any sign).  `sqrt` is the abstract `PyF.sqrt`
  (`σ_stored ≥ 0` needs `[NonnegSqrt K]`).
-/
set_option linter.unusedSectionVars false
set_option linter.unusedSimpArgs false
namespace Hex
namespace Numeric

/-! ## Counter (every float carrier) -/
section counter
variable {F : Type} [PyF F]

/-- one step of the run length: a missing input keeps the count, a match adds one, anything else
resets -/
def cntStep (cv : Scalar F) (k : Nat) (v : Val F) : Nat :=
  if v.isNone then k else if Calc.pyEqScalarVal cv v then k + 1 else 0

/-- **the textbook run length** of the input column `r` at index `j`: the number of matching inputs
since the last non-missing, non-matching one (missing inputs are skipped) -/
def runLen (cv : Scalar F) (r : Nat → Val F) : Nat → Nat
  | 0 => cntStep cv 0 (r 0)
  | j + 1 => cntStep cv (runLen cv r j) (r (j + 1))

/-- the count grows by one, stays (missing input only) or resets -/
theorem runLen_succ_cases (cv : Scalar F) (r : Nat → Val F) (j : Nat) :
    ((r (j + 1)).isNone = true ∧ runLen cv r (j + 1) = runLen cv r j) ∨
    ((r (j + 1)).isNone = false ∧ Calc.pyEqScalarVal cv (r (j + 1)) = true ∧ runLen cv r (j + 1) = runLen cv r j + 1) ∨
    ((r (j + 1)).isNone = false ∧ Calc.pyEqScalarVal cv (r (j + 1)) = false ∧ runLen cv r (j + 1) = 0) := by
  show _ ∨ _ ∨ _
  simp only [runLen, cntStep]
  by_cases h1 : (r (j + 1)).isNone = true
  · left; simp [h1]
  · by_cases h2 : Calc.pyEqScalarVal cv (r (j + 1)) = true
    · right; left; simp [h1, h2]
    · right; right; simp [h1, h2]

/-- length of the trailing run of matches in the list of the non-missing readings -/
def trailingRun (cv : Scalar F) (l : List (Val F)) : Nat :=
  ((l.filter (fun v => !v.isNone)).reverse.takeWhile (Calc.pyEqScalarVal cv)).length

theorem trailingRun_snoc (cv : Scalar F) (l : List (Val F)) (v : Val F) :
    trailingRun cv (l ++ [v]) = cntStep cv (trailingRun cv l) v := by
  unfold trailingRun cntStep
  rw [List.filter_append]
  by_cases h1 : v.isNone = true
  · simp [h1]
  · by_cases h2 : Calc.pyEqScalarVal cv v = true
    · simp [h1, h2, List.takeWhile_cons]
    · simp [h1, h2, List.takeWhile_cons]

/-- **the run length, declaratively**: drop the missing inputs from `r 0 … r j`; the count is the
length of the trailing run of inputs equal to the counted value -/
theorem runLen_eq_trailing (cv : Scalar F) (r : Nat → Val F) (j : Nat) :
    runLen cv r j = trailingRun cv ((List.range (j + 1)).map r) := by
  induction j with
  | zero =>
    have : (List.range (0 + 1)).map r = [] ++ [r 0] := by simp
    rw [this, trailingRun_snoc]
    rfl
  | succ j ih =>
    rw [List.range_succ, List.map_append, List.map_singleton, trailingRun_snoc, ← ih]
    rfl

/-- **index form when no input is missing** (candle fields): the last `runLen` inputs all match, and
the one before them (if any) does not – i.e. `runLen` is the length of the current run -/
theorem runLen_run (cv : Scalar F) (r : Nat → Val F) (j : Nat) (hpres : ∀ i, i ≤ j → (r i).isNone = false) :
    runLen cv r j ≤ j + 1 ∧
    (∀ i, j + 1 - runLen cv r j ≤ i → i ≤ j → Calc.pyEqScalarVal cv (r i) = true) ∧
    (runLen cv r j ≤ j → Calc.pyEqScalarVal cv (r (j - runLen cv r j)) = false) := by
  induction j with
  | zero =>
    have h0 := hpres 0 (le_refl 0)
    by_cases h2 : Calc.pyEqScalarVal cv (r 0) = true
    · have e : runLen cv r 0 = 1 := by simp [runLen, cntStep, h0, h2]
      rw [e]
      refine ⟨by omega, fun i _ hi => ?_, fun h => by omega⟩
      have : i = 0 := by omega
      rw [this]; exact h2
    · have e : runLen cv r 0 = 0 := by simp [runLen, cntStep, h0, h2]
      rw [e]
      refine ⟨by omega, fun i h1 hi => by omega, fun _ => by simpa using h2⟩
  | succ j ih =>
    obtain ⟨i1, i2, i3⟩ := ih (fun i hi => hpres i (by omega))
    have h0 := hpres (j + 1) (le_refl _)
    by_cases h2 : Calc.pyEqScalarVal cv (r (j + 1)) = true
    · have e : runLen cv r (j + 1) = runLen cv r j + 1 := by simp [runLen, cntStep, h0, h2]
      rw [e]
      refine ⟨by omega, fun i h1 hi => ?_, fun h => ?_⟩
      · by_cases hij : i ≤ j
        · exact i2 i (by omega) hij
        · have : i = j + 1 := by omega
          rw [this]; exact h2
      · have e2 : j + 1 - (runLen cv r j + 1) = j - runLen cv r j := by omega
        rw [e2]
        exact i3 (by omega)
    · have e : runLen cv r (j + 1) = 0 := by simp [runLen, cntStep, h0, h2]
      rw [e]
      refine ⟨by omega, fun i h1 hi => by omega, fun _ => by simpa using h2⟩

/-! ### the own column of a top-level leaf on ANY candles -/

theorem readingByCandle_setKey_top (nm : String) (hk : IsKey nm) (v : Val F) (c : Candle F) :
    readingByCandle (setKey false nm v c) nm = v := by
  rw [readingByCandle_key nm hk]
  unfold lookupKey setKey
  simp [dlookup_dset_self]

/-- the previous own reading at the end of a decorated prefix (no condition on the raw candles: a
top-level reading is stored in `.indicators`, which is looked up first) -/
theorem lastReading_deco (nm : String) (hk : IsKey nm) (raw : List (Candle F)) (vs : List (Val F)) (m : Nat)
    (hm : m ≤ raw.length) (hvs : vs.length = m) :
    Ctx.lastReading nm (deco nm (raw.take m) vs) = if m = 0 then .none else vs.getD (m - 1) .none := by
  have htl : (raw.take m).length = m := by simp; omega
  by_cases h0 : m = 0
  · subst h0
    simp [Ctx.lastReading, deco]
  · rw [if_neg h0]
    unfold Ctx.lastReading
    rw [List.getLast?_eq_getElem?, deco_length _ _ _ (by rw [htl, hvs]), htl,
      deco_getElem? nm (raw.take m) vs (m - 1) (by rw [htl, hvs]) (by rw [htl]; omega)]
    exact readingByCandle_setKey_top nm hk _ _

/-- the stored count -/
def CountOK (cv : Scalar F) (r : Nat → Val F) (j : Nat) (v : Val F) : Prop :=
  v = .int ((runLen cv r j : Nat) : Int)

/-- **Counter, whole series, any input column.**  For EVERY raw list (no condition on the candles:
they may already carry other indicators' readings, the input may be any reading name, present or
not), every counted value and every float carrier, the row-major run returns, and the reading
stored on candle `j` is the Python int `runLen cv col j`, where `col i` is what
`reading(input)` returns on candle `i` (`None` = missing).  So: first reading at index 0, never
`None`, a non-negative int; a missing input leaves the count unchanged, a match adds one, anything
else resets to 0 (`runLen_succ_cases`, `runLen_eq_trailing`). -/
theorem counter_series_col (nm input : String) (cv : Scalar F) (n : Nat) (hk : IsKey nm)
    (raw : List (Candle F)) :
    ∃ vs : List (Val F), vs.length = raw.length ∧
      rowMajor (mkTop (.counter input cv) nm n) raw = .ok (deco nm raw vs) ∧
      ∀ j, j < raw.length →
        CountOK cv (fun i => readingByCandle (raw.getD i default) input) j (vs.getD j .none) := by
  refine series_induct (mkTop (.counter input cv) nm n) nm rfl rfl raw _ ?_
  intro m hm vs hvs hQ
  change ∃ v, Calc.counter (stepCtx nm raw vs m) input cv = .ok v ∧ CountOK cv _ m (v.roundBy n)
  have htl : (raw.take m).length = m := by simp; omega
  have hdl : (deco nm (raw.take m) vs).length = m := by rw [deco_length _ _ _ (by rw [htl, hvs]), htl]
  have hlast := lastReading_deco nm hk raw vs m (by omega) hvs
  simp only [stepCtx]
  generalize hdone : deco nm (raw.take m) vs = done at hdl hlast ⊢
  subst hdl
  have hr := Ctx.reading_cur done (raw.getD done.length default) [] nm input
  have hprev := Ctx.prevReading_append_cons done (raw.getD done.length default) [] nm nm
  rw [hlast] at hprev
  by_cases h0 : done.length = 0
  · rw [if_pos h0] at hprev
    have hc := counter_def { cs := done ++ [raw.getD done.length default], i := done.length, name := nm } input cv
      _ _ hr hprev (Or.inl rfl)
    refine ⟨_, hc, ?_⟩
    unfold CountOK
    rw [h0]
    simp only [runLen, cntStep, prevCount]
    split_ifs <;> rfl
  · rw [if_neg h0] at hprev
    have hq : vs.getD (done.length - 1) .none = .int ((runLen cv _ (done.length - 1) : Nat) : Int) :=
      hQ (done.length - 1) (by omega)
    rw [hq] at hprev
    have hc := counter_def { cs := done ++ [raw.getD done.length default], i := done.length, name := nm } input cv
      _ _ hr hprev (Or.inr ⟨_, rfl⟩)
    refine ⟨_, hc, ?_⟩
    unfold CountOK
    obtain ⟨i, hi⟩ : ∃ i, done.length = i + 1 := ⟨done.length - 1, by omega⟩
    rw [hi]
    simp only [Nat.add_sub_cancel, runLen, cntStep, prevCount]
    split_ifs <;> simp [Val.roundBy, Scalar.roundBy, Num.roundBy]

/-- **Counter over a candle field** (`input` a candle attribute such as `close`): the input is never
missing, so the stored count is the run length of the field's values equal to the counted value. -/
theorem counter_series (nm input : String) (fld : Candle F → Num F) (cv : Scalar F) (n : Nat) (hk : IsKey nm)
    (hd : NoDot input) (hattr : ∀ c : Candle F, c.attr input = some (.num (fld c)))
    (raw : List (Candle F)) :
    ∃ vs : List (Val F), vs.length = raw.length ∧
      rowMajor (mkTop (.counter input cv) nm n) raw = .ok (deco nm raw vs) ∧
      ∀ j, j < raw.length → CountOK cv (fun i => .num (fld (raw.getD i default))) j (vs.getD j .none) := by
  obtain ⟨vs, h1, h2, h3⟩ := counter_series_col nm input cv n hk raw
  refine ⟨vs, h1, h2, ?_⟩
  have e : (fun i => readingByCandle (raw.getD i default) input) = fun i => (.num (fld (raw.getD i default)) : Val F) := by
    funext i
    exact readingByCandle_attr input hd _ _ (hattr _)
  rw [← e]
  exact h3

/-- … read as "the length of the current run": the stored value on candle `j` is a non-negative int
`k ≤ j + 1` such that the last `k` field values all equal the counted value and the one before them
(if there is one) does not. -/
theorem CountOK.run {cv : Scalar F} {x : Nat → Num F} {j : Nat} {v : Val F}
    (h : CountOK cv (fun i => .num (x i)) j v) :
    ∃ k : Nat, v = .int (k : Int) ∧ k ≤ j + 1 ∧
      (∀ i, j + 1 - k ≤ i → i ≤ j → Calc.pyEqScalarVal cv (.num (x i)) = true) ∧
      (k ≤ j → Calc.pyEqScalarVal cv (.num (x (j - k))) = false) := by
  obtain ⟨h1, h2, h3⟩ := runLen_run cv (fun i => (.num (x i) : Val F)) j (fun _ _ => rfl)
  exact ⟨_, h, h1, h2, h3⟩

/-- … and from one candle to the next the count grows by one (match) or resets to 0 (no match) -/
theorem runLen_field_succ (cv : Scalar F) (x : Nat → Num F) (j : Nat) :
    runLen cv (fun i => (.num (x i) : Val F)) (j + 1)
      = if Calc.pyEqScalarVal cv (.num (x (j + 1))) then runLen cv (fun i => (.num (x i) : Val F)) j + 1 else 0 := by
  show cntStep cv _ _ = _
  unfold cntStep
  simp [Val.isNone]

/-! ### through the engine -/

/-- **… for every append schedule** (construction over `init`, `calculate()`, then any appends – the
batch run is `chunks = []`): the run returns, and its candles are exactly those of `counter_series`
over the whole stream. -/
theorem counter_series_live (nm input : String) (fld : Candle F → Num F) (cv : Scalar F) (n : Nat) (hk : IsKey nm)
    (hin : AttrInput input) (hattr : ∀ c : Candle F, c.attr input = some (.num (fld c)))
    (init : List (Candle F)) (chunks : List (List (Candle F)))
    (hraw : ∀ c ∈ init ++ chunks.flatten, Plain c) :
    ∃ vs : List (Val F), vs.length = (init ++ chunks.flatten).length ∧
      candlesOf (runIndicator (mkTop (.counter input cv) nm n) {} init chunks)
        = .ok (deco nm (init ++ chunks.flatten) vs) ∧
      ∀ j, j < (init ++ chunks.flatten).length →
        CountOK cv (fun i => .num (fld ((init ++ chunks.flatten).getD i default))) j (vs.getD j .none) := by
  obtain ⟨vs, h1, h2, h3⟩ := counter_series nm input fld cv n hk hin.1 hattr (init ++ chunks.flatten)
  obtain ⟨K⟩ := (Covered.counter (name := nm) input cv hin).contract n
  refine ⟨vs, h1, ?_, h3⟩
  rw [runIndicator_refines _ ((Covered.counter (name := nm) input cv hin).isLeaf n) K init chunks hraw]
  exact h2

/-- **… through the object, batch run**: building the indicator over the raw candles and calling
`calculate()` once returns exactly the candles of `counter_series`. -/
theorem counter_series_batch (nm input : String) (fld : Candle F → Num F) (cv : Scalar F) (n : Nat) (hk : IsKey nm)
    (hin : AttrInput input) (hattr : ∀ c : Candle F, c.attr input = some (.num (fld c)))
    (raw : List (Candle F)) (hraw : ∀ c ∈ raw, Plain c) :
    ∃ vs : List (Val F), vs.length = raw.length ∧
      candlesOf (runIndicator (mkTop (.counter input cv) nm n) {} raw []) = .ok (deco nm raw vs) ∧
      ∀ j, j < raw.length → CountOK cv (fun i => .num (fld (raw.getD i default))) j (vs.getD j .none) := by
  have := counter_series_live nm input fld cv n hk hin hattr raw [] (by simpa using hraw)
  simpa using this

/-- **whenever the batch run returns, its candles carry exactly those readings** (and it does
return: `counter_series_batch`): candle `j` of the result is raw candle `j` with the int
`runLen …  j` stored under the indicator's name. -/
theorem counter_batch_readings (nm input : String) (fld : Candle F → Num F) (cv : Scalar F) (n : Nat) (hk : IsKey nm)
    (hin : AttrInput input) (hattr : ∀ c : Candle F, c.attr input = some (.num (fld c)))
    (raw : List (Candle F)) (hraw : ∀ c ∈ raw, Plain c) (out : List (Candle F))
    (hout : candlesOf (runIndicator (mkTop (.counter input cv) nm n) {} raw []) = .ok out) :
    out.length = raw.length ∧
    ∀ j, j < raw.length →
      (out.getD j default).bare = (raw.getD j default).bare ∧
      readingByCandle (out.getD j default) nm
        = .int ((runLen cv (fun i => (.num (fld (raw.getD i default)) : Val F)) j : Nat) : Int) := by
  obtain ⟨vs, h1, h2, h3⟩ := counter_series_batch nm input fld cv n hk hin hattr raw hraw
  rw [h2] at hout
  cases hout
  refine ⟨deco_length _ _ _ h1, fun j hj => ?_⟩
  have hg : (deco nm raw vs).getD j default = setKey false nm (vs.getD j .none) (raw.getD j default) := by
    rw [List.getD_eq_getElem?_getD, deco_getElem? nm raw vs j h1 hj]; rfl
  rw [hg, readingByCandle_setKey_top nm hk]
  exact ⟨rfl, h3 j hj⟩


/-! ### non-vacuity: the five demo candles of HexProps/C04.lean over ℚ (closes 11, 12, 14, 15, 15) -/

/-- the theorem on the demo candles, counting closes equal to 15 -/
example : ∃ vs : List (Val ℚ), vs.length = rsiDemoRaw.length ∧
    rowMajor (mkTop (.counter "close" (.num (.int 15))) "COUNT_close" 4) rsiDemoRaw
      = .ok (deco "COUNT_close" rsiDemoRaw vs) ∧
    ∀ j, j < rsiDemoRaw.length →
      CountOK (.num (.int 15)) (fun i => .num ((rsiDemoRaw.getD i default).c)) j (vs.getD j .none) :=
  counter_series "COUNT_close" "close" (·.c) (.num (.int 15)) 4 (by decide) noDot_close (fun _ => rfl) rsiDemoRaw

/-- the textbook run lengths on the demo closes: `0, 0, 0, 1, 2` (what the real class returns) -/
example : (List.range 5).map (runLen (F := ℚ) (.num (.int 15)) (fun i => .num ((rsiDemoRaw.getD i default).c)))
    = [0, 0, 0, 1, 2] := by decide

/-- concretely through the object: the batch run returns, candle 2 carries the int `0` and candle 4
the int `2` -/
example : ∃ out : List (Candle ℚ),
    candlesOf (runIndicator (mkTop (.counter "close" (.num (.int 15))) "COUNT_close" 4) {} rsiDemoRaw []) = .ok out ∧
    out.length = 5 ∧
    readingByCandle (out.getD 2 default) "COUNT_close" = .int 0 ∧
    readingByCandle (out.getD 4 default) "COUNT_close" = .int 2 := by
  obtain ⟨vs, _, h2, _⟩ := counter_series_batch "COUNT_close" "close" (·.c) (.num (.int 15)) 4 (by decide)
    ⟨noDot_close, by decide⟩ (fun _ => rfl) rsiDemoRaw rsiDemoRaw_plain
  obtain ⟨h3, h4⟩ := counter_batch_readings "COUNT_close" "close" (·.c) (.num (.int 15)) 4 (by decide)
    ⟨noDot_close, by decide⟩ (fun _ => rfl) rsiDemoRaw rsiDemoRaw_plain _ h2
  refine ⟨_, h2, h3, ?_, ?_⟩
  · have e : runLen (F := ℚ) (.num (.int 15)) (fun i => .num ((rsiDemoRaw.getD i default).c)) 2 = 0 := by decide
    rw [(h4 2 (by decide)).2, e]; rfl
  · have e : runLen (F := ℚ) (.num (.int 15)) (fun i => .num ((rsiDemoRaw.getD i default).c)) 4 = 2 := by decide
    rw [(h4 4 (by decide)).2, e]; rfl

/-- a column with MISSING inputs: five candles that already carry a bool reading `X` on candles
0, 2, 3, 4 (`True, –, True, False, True`); counting `True` gives `1, 1, 2, 0, 1`: the missing input on
candle 1 neither resets nor grows the count -/
def cntGapRaw : List (Candle ℚ) :=
  [Demo.mk 10 12 9 11 100 [("X", .bool true)], Demo.mk 11 13 10 12 200, Demo.mk 12 15 11 14 300 [("X", .bool true)],
   Demo.mk 14 16 13 15 0 [("X", .bool false)], Demo.mk 15 15 15 15 0 [("X", .bool true)]]

example : ∃ vs : List (Val ℚ), vs.length = cntGapRaw.length ∧
    rowMajor (mkTop (.counter "X" (.bool true)) "COUNT_X" 4) cntGapRaw = .ok (deco "COUNT_X" cntGapRaw vs) ∧
    ∀ j, j < cntGapRaw.length →
      CountOK (.bool true) (fun i => readingByCandle (cntGapRaw.getD i default) "X") j (vs.getD j .none) :=
  counter_series_col "COUNT_X" "X" (.bool true) 4 (by decide) cntGapRaw

example : (List.range 5).map (runLen (F := ℚ) (.bool true) (fun i => readingByCandle (cntGapRaw.getD i default) "X"))
    = [1, 1, 2, 0, 1] := by decide

/-- the executed carrier: the theorem holds verbatim for IEEE doubles (`Float`) -/
example (raw : List (Candle Float)) : ∃ vs : List (Val Float), vs.length = raw.length ∧
    rowMajor (mkTop (.counter "close" (.num (.int 15))) "COUNT_close" 4) raw = .ok (deco "COUNT_close" raw vs) ∧
    ∀ j, j < raw.length →
      CountOK (.num (.int 15)) (fun i => readingByCandle (raw.getD i default) "close") j (vs.getD j .none) :=
  counter_series_col "COUNT_close" "close" (.num (.int 15)) 4 (by decide) raw

#print axioms counter_series_col
#print axioms counter_series
#print axioms runLen_eq_trailing
#print axioms runLen_run
#print axioms counter_series_live
#print axioms counter_series_batch
#print axioms counter_batch_readings

end counter

/-! ## StandardDeviationThreshold (prior STDEV helper with its data series, read-only bool reading) -/

variable {K : Type} [Field K] [LinearOrder K] [IsStrictOrderedRing K] [LawfulPyF K]

/-- **the textbook flag** on the EXACT standard deviation: no signal while σ is not available
(candles `0 … p − 1`: the STDEV helper's first reading is at index `p`), afterwards
`|x_j − x_{j−1}| > multiplier · σ_j` with σ the population standard deviation of the last `p` inputs -/
def thresSeries (p : Nat) (mult : K) (x : Nat → K) (j : Nat) : Bool :=
  if j < p then false else decide (sigmaExact x p j * mult < |x j - x (j - 1)|)

/-- what the pieces of a STDEVTHRES tree store on one candle: the STDEV helper's reading and data
entry, the own reading (a bool) -/
structure ThRow (K : Type) where
  sd : Val K
  dv : Val K
  th : Val K

def ThRow.dflt : ThRow K := ⟨.none, .none, .none⟩

/-- the candle after the STDEV helper ran -/
def thC1 (nm : String) (sd dv : Val K) (c : Candle K) : Candle K :=
  setKey true (nm ++ "_stdev") sd (setKey true (nm ++ "_stdev" ++ "_data") dv c)
/-- a finished STDEVTHRES candle -/
def thOut (nm : String) (c : Candle K) (r : ThRow K) : Candle K :=
  setKey false nm r.th (thC1 nm r.sd r.dv c)

/-- the row step of `thresTree`: STDEV helper (reading part, data entry stored, own reading rounded
to 4 decimals and stored), then the own reading on the candle that already carries them -/
theorem th_rowStep_ok (nm : String) (n : Nat) (p : Int) (input : String) (mult : Num K) (hp : 0 ≤ p)
    (hn : ThresNames nm) (hin : NoDot input ∧ input ∈ Candle.attrNames) (done : List (Candle K)) (c : Candle K)
    (dv v vb : Val K) (fin : PyM (Val K))
    (hX : stdevR p input { cs := done ++ [c], i := done.length, name := nm ++ "_stdev" } = .ok (some dv, fin))
    (hfin : fin = .ok v)
    (hP : Calc.stdevthres { cs := done ++ [thC1 nm (v.roundBy defaultRound) dv c], i := done.length, name := nm }
      input mult = .ok vb) :
    Gen.rowStep (thresTree (F := K) nm n p input mult hp hn hin).S done c
      = .ok (done ++ [thOut nm c ⟨v.roundBy defaultRound, dv, vb.roundBy n⟩]) := by
  show Gen.rowStep (TComp.spec (thComp nm n p input mult hp hn hin) _) done c = _
  rw [TComp.rowStep_spec]
  show (do
      let z ← (do
        let x ← (do
          let r ← stdevR p input { cs := done ++ [c], i := done.length, name := nm ++ "_stdev" }
          let v ← r.2
          pure (r.1, v))
        let q ← Calc.stdevthres { cs := done ++ [outDS true (nm ++ "_stdev") (nm ++ "_stdev" ++ "_data")
                                    (x.2.roundBy defaultRound) x.1 c],
                                  i := done.length, name := nm } input mult
        pure (x, q))
      pure (done ++ [setKey false nm (z.2.roundBy n)
        (outDS true (nm ++ "_stdev") (nm ++ "_stdev" ++ "_data") (z.1.2.roundBy defaultRound) z.1.1 c)])) = _
  rw [hX, hfin]
  simp only [pym_bind_ok, pym_pure]
  have e1 : outDS true (nm ++ "_stdev") (nm ++ "_stdev" ++ "_data") (v.roundBy defaultRound) (some dv) c
      = thC1 nm (v.roundBy defaultRound) dv c := rfl
  rw [e1, hP]
  rfl

/-! ### reading the (partly) finished STDEVTHRES candles -/

section thout
variable (nm : String)

theorem thC1_input (input : String) (hin : NoDot input ∧ input ∈ Candle.attrNames) (sd dv : Val K) (c : Candle K) :
    readingByCandle (thC1 nm sd dv c) input = readingByCandle c input := by
  unfold thC1
  rw [indep_attr (F := K) _ input hin.1 hin.2, indep_attr (F := K) _ input hin.1 hin.2]

theorem thOut_input (input : String) (hin : NoDot input ∧ input ∈ Candle.attrNames) (c : Candle K)
    (r : ThRow K) : readingByCandle (thOut nm c r) input = readingByCandle c input := by
  unfold thOut
  rw [indep_attr (F := K) _ input hin.1 hin.2, thC1_input nm input hin]

theorem thC1_sd (hn : ThresNames nm) (sd dv : Val K) (c : Candle K) (hc : Plain c) :
    readingByCandle (thC1 nm sd dv c) (nm ++ "_stdev") = sd := by
  rw [readingByCandle_key _ hn.kS]
  obtain ⟨hi, hs⟩ := hc
  simp [thC1, lookupKey, setKey, hi, hs, dset, dlookup, hn.sn.ne, hn.sn.ne.symm]

theorem thOut_own (hk : IsKey nm) (c : Candle K) (r : ThRow K) :
    readingByCandle (thOut nm c r) nm = r.th := readingByCandle_setKey_own nm hk _ _

theorem thOut_sd (hn : ThresNames nm) (c : Candle K) (hc : Plain c) (r : ThRow K) :
    readingByCandle (thOut nm c r) (nm ++ "_stdev") = r.sd := by
  rw [readingByCandle_key _ hn.kS]
  obtain ⟨hi, hs⟩ := hc
  simp [thOut, thC1, lookupKey, setKey, hi, hs, dset, dlookup, hn.nS, hn.nS.symm, hn.sn.ne, hn.sn.ne.symm]

theorem thOut_mean (hn : ThresNames nm) (c : Candle K) (hc : Plain c) (r : ThRow K) :
    readingByCandle (thOut nm c r) (nm ++ "_stdev" ++ "_data.mean") = r.dv.nested "mean" := by
  unfold readingByCandle
  rw [hn.sn.mean]
  obtain ⟨hi, hs⟩ := hc
  simp [thOut, thC1, setKey, hi, hs, dset, dlookup, hn.nD, hn.nD.symm, hn.sn.ne, hn.sn.ne.symm]

theorem thOut_var (hn : ThresNames nm) (c : Candle K) (hc : Plain c) (r : ThRow K) :
    readingByCandle (thOut nm c r) (nm ++ "_stdev" ++ "_data.variance") = r.dv.nested "variance" := by
  unfold readingByCandle
  rw [hn.sn.var]
  obtain ⟨hi, hs⟩ := hc
  simp [thOut, thC1, setKey, hi, hs, dset, dlookup, hn.nD, hn.nD.symm, hn.sn.ne, hn.sn.ne.symm]

end thout

/-! ### the predicate -/

/-- what the whole-series theorem says of candle `j` (`x` = the raw input column):
* the STDEV helper's pair (reading rounded to 4 decimals, exact data entry) is `StdevOK` – in
  particular the stored σ is `round₄(sigmaExact)` from index `p` on and `None` before;
* the own reading is the bool `False` before index `p`, and from index `p` on EXACTLY the bool
  `σ_stored · multiplier < |x_j − x_{j−1}|` on the STORED σ (no rounding of the own reading: `round`
  does not touch a bool). -/
def ThOK (p : Nat) (mult : K) (x : Nat → K) (j : Nat) (r : ThRow K) : Prop :=
  StdevOK p defaultRound x j (r.sd, r.dv) ∧
  (j < p → r.th = .bool false) ∧
  (p ≤ j → ∃ ys, r.sd = .flt ys ∧ r.th = .bool (decide (ys * mult < |x j - x (j - 1)|)))

/-- the stored σ behind a flag: `round₄` of the exact σ, within `ε₄` of it, non-negative -/
theorem ThOK.sigma [NonnegSqrt K] {p : Nat} {mult : K} {x : Nat → K} {j : Nat} {r : ThRow K}
    (h : ThOK p mult x j r) (hj : p ≤ j) :
    ∃ ys, r.sd = .flt ys ∧ r.th = .bool (decide (ys * mult < |x j - x (j - 1)|)) ∧
      ys = PyF.round defaultRound (sigmaExact x p j) ∧ |ys - sigmaExact x p j| ≤ eps K defaultRound ∧ 0 ≤ ys := by
  obtain ⟨hsd, _, hb⟩ := h
  obtain ⟨ys, hs, hth⟩ := hb hj
  obtain ⟨ys', hs', he, hse⟩ := hsd.2.2 hj
  have : ys' = ys := by
    have h1 : (Val.flt ys' : Val K) = .flt ys := hs'.symm.trans hs
    injection h1 with h1; injection h1 with h1; injection h1
  subst this
  exact ⟨ys', hs, hth, he, hse, hsd.nonneg ys' hs'⟩

/-- `σ_stored·m` is within `|m|·ε₄` of `σ·m` -/
theorem thres_band (mult ys sg e : K) (h : |ys - sg| ≤ e) : |ys * mult - sg * mult| ≤ |mult| * e := by
  have : ys * mult - sg * mult = mult * (ys - sg) := by ring
  rw [this, abs_mul]
  exact mul_le_mul_of_nonneg_left h (abs_nonneg _)

/-- **the flag against the EXACT σ, one-sided**: from index `p` on, with `D = |x_j − x_{j−1}|` and `σ`
the exact standard deviation of the last `p` inputs,
* `σ·m + |m|·ε₄ < D` forces the flag `True`,
* `D ≤ σ·m − |m|·ε₄` forces the flag `False`;
so the stored flag can differ from the textbook one only inside the band `|D − σ·m| ≤ |m|·ε₄`
(`ThOK.agree`). -/
theorem ThOK.exact_sides {p : Nat} {mult : K} {x : Nat → K} {j : Nat} {r : ThRow K}
    (h : ThOK p mult x j r) (hj : p ≤ j) :
    (sigmaExact x p j * mult + |mult| * eps K defaultRound < |x j - x (j - 1)| → r.th = .bool true) ∧
    (|x j - x (j - 1)| ≤ sigmaExact x p j * mult - |mult| * eps K defaultRound → r.th = .bool false) := by
  obtain ⟨hsd, _, hb⟩ := h
  obtain ⟨ys, hs, hth⟩ := hb hj
  obtain ⟨ys', hs', _, hse⟩ := hsd.2.2 hj
  have : ys' = ys := by
    have h1 : (Val.flt ys' : Val K) = .flt ys := hs'.symm.trans hs
    injection h1 with h1; injection h1 with h1; injection h1
  subst this
  have hband := abs_le.1 (thres_band mult ys' (sigmaExact x p j) _ hse)
  constructor
  · intro hlt
    rw [hth]
    have : ys' * mult < |x j - x (j - 1)| := by linarith [hband.2]
    simp [this]
  · intro hle
    rw [hth]
    have : ¬ ys' * mult < |x j - x (j - 1)| := by
      have : |x j - x (j - 1)| ≤ ys' * mult := by linarith [hband.1]
      exact not_lt.2 this
    simp [this]

/-- **the flag equals the textbook flag** (`thresSeries`, on the exact σ) whenever the two sides of
the comparison differ by more than `|multiplier|·ε₄`:
`|multiplier|·ε₄ < | |x_j − x_{j−1}| − σ_j·multiplier |`.  Before index `p` both are `False`
unconditionally. -/
theorem ThOK.agree {p : Nat} {mult : K} {x : Nat → K} {j : Nat} {r : ThRow K}
    (h : ThOK p mult x j r)
    (hgap : p ≤ j → |mult| * eps K defaultRound < |(|x j - x (j - 1)| - sigmaExact x p j * mult)|) :
    r.th = .bool (thresSeries p mult x j) := by
  unfold thresSeries
  by_cases hj : j < p
  · rw [if_pos hj]; exact h.2.1 hj
  · rw [if_neg hj]
    have hg := hgap (by omega)
    obtain ⟨h1, h2⟩ := h.exact_sides (by omega)
    have he : 0 ≤ |mult| * eps K defaultRound := mul_nonneg (abs_nonneg _) (le_of_lt (eps_pos K _))
    rcases lt_abs.1 hg with hpos | hneg
    · have hlt : sigmaExact x p j * mult < |x j - x (j - 1)| := by linarith
      rw [h1 (by linarith)]
      simp [hlt]
    · have hnlt : ¬ sigmaExact x p j * mult < |x j - x (j - 1)| := not_lt.2 (by linarith)
      rw [h2 (by linarith)]
      simp [hnlt]

/-- a disagreement with the textbook flag pins the comparison inside the rounding band -/
theorem ThOK.disagree_band {p : Nat} {mult : K} {x : Nat → K} {j : Nat} {r : ThRow K}
    (h : ThOK p mult x j r) (hne : r.th ≠ .bool (thresSeries p mult x j)) :
    p ≤ j ∧ |(|x j - x (j - 1)| - sigmaExact x p j * mult)| ≤ |mult| * eps K defaultRound := by
  by_contra hcon
  apply hne
  apply h.agree
  intro hj
  by_contra hle
  exact hcon ⟨hj, not_lt.1 hle⟩

/-- a zero multiplier removes σ (and with it every rounding effect): the flag is exactly "the input
moved" -/
theorem ThOK.zero_mult {p : Nat} {x : Nat → K} {j : Nat} {r : ThRow K}
    (h : ThOK p 0 x j r) (hj : p ≤ j) : r.th = .bool (decide (x j ≠ x (j - 1))) := by
  obtain ⟨ys, _, hth⟩ := h.2.2 hj
  rw [hth]
  by_cases he : x j = x (j - 1)
  · simp [he]
  · have : 0 < |x j - x (j - 1)| := abs_pos.2 (sub_ne_zero.2 he)
    simp [he, this]


/-! ### one row of the STDEVTHRES tree, the whole series -/

/-- the candles of a STDEVTHRES run -/
def decoTh (nm : String) (raw : List (Candle K)) (rows : List (ThRow K)) : List (Candle K) :=
  decoWith (thOut nm) raw rows

/-- **one row**: if all earlier rows are as claimed, the row step at index `m` returns and stores a
row as claimed -/
theorem th_step (p : Nat) (hp : 1 ≤ p) (nm input : String) (fld : Candle K → Num K) (mult : Num K) (n : Nat)
    (hn : ThresNames nm) (hin : NoDot input ∧ input ∈ Candle.attrNames)
    (hattr : ∀ c : Candle K, c.attr input = some (.num (fld c)))
    (raw : List (Candle K)) (hraw : ∀ c ∈ raw, Plain c)
    (m : Nat) (hm : m < raw.length) (rows : List (ThRow K)) (hrows : rows.length = m)
    (hQ : ∀ j, j < m → ThOK p mult.toF (fieldAt fld raw) j (rows.getD j ThRow.dflt)) :
    ∃ r, Gen.rowStep (thresTree (F := K) nm n (p : Int) input mult (by omega) hn hin).S
          (decoWith (thOut nm) (raw.take m) rows) (raw.getD m default)
        = .ok (decoWith (thOut nm) (raw.take m) rows ++ [thOut nm (raw.getD m default) r]) ∧
      ThOK p mult.toF (fieldAt fld raw) m r := by
  have htl : (raw.take m).length = m := by simp; omega
  have hdl : (decoWith (thOut nm) (raw.take m) rows).length = m := by
    rw [decoWith_length _ _ _ (by rw [htl, hrows]), htl]
  have hc : Plain (raw.getD m default) := getD_plain raw hraw m hm
  have hlast := lastReading_decoWith (thOut nm) ThRow.dflt raw m (by omega) rows hrows
  obtain ⟨hfS, hpS⟩ := input_facts (thOut nm) input hin fld hattr (fun c r => thOut_input nm input hin c r)
    raw m hm rows hrows _ rfl (raw.getD m default) rfl (nm ++ "_stdev")
  generalize hdone : decoWith (thOut nm) (raw.take m) rows = done at hdl hfS hpS hlast ⊢
  subst hdl
  -- (1) the STDEV helper
  have hcore := stdev_core p hp (nm ++ "_stdev") input (nm ++ "_stdev" ++ "_data")
    (fun j => fld (raw.getD j default)) done (raw.getD done.length default) hfS
    (by
      have := hpS (p + 1) (by omega)
      rw [show ((p + 1 : Nat) : Int) = (p : Int) + 1 by push_cast; rfl] at this
      exact this)
    (by
      by_cases h0 : done.length = 0
      · rw [if_pos h0, List.eq_nil_of_length_eq_zero h0]; rfl
      · have hd : (rows.getD (done.length - 1) ThRow.dflt).dv = stdData _ _ := (hQ (done.length - 1) (by omega)).1.1
        rw [if_neg h0, hlast (by omega), thOut_mean nm hn _ (getD_plain raw hraw _ (by omega)), hd, stdData_mean]
        rfl)
    (by
      by_cases h0 : done.length = 0
      · rw [if_pos h0, List.eq_nil_of_length_eq_zero h0]; rfl
      · have hd : (rows.getD (done.length - 1) ThRow.dflt).dv = stdData _ _ := (hQ (done.length - 1) (by omega)).1.1
        rw [if_neg h0, hlast (by omega), thOut_var nm hn _ (getD_plain raw hraw _ (by omega)), hd, stdData_var]
        rfl)
  rw [stdev_fact] at hcore
  obtain ⟨fin, hX, hfin⟩ := rwCalc_inv _ _ _ done _ (by rw [hc.2]; rfl) _ _ hcore
  have hsdOK := stdevOK_mk p defaultRound hp (fieldAt fld raw) done.length
  -- (2) the own reading
  have hrS : ({ cs := done ++ [thC1 nm ((stdOwn p (fieldAt fld raw) done.length).roundBy defaultRound)
        (stdData (runMean p (fieldAt fld raw) done.length) (runVar p (fieldAt fld raw) done.length))
        (raw.getD done.length default)], i := done.length, name := nm } : Ctx K).reading
        (nm ++ "_stdev") = .ok ((stdOwn p (fieldAt fld raw) done.length).roundBy defaultRound) := by
    rw [Ctx.reading_cur done _ [] nm, thC1_sd nm hn _ _ _ hc]
  by_cases hj : done.length < p
  · -- σ not yet available
    have e : (stdOwn p (fieldAt fld raw) done.length).roundBy defaultRound = .none := hsdOK.2.1 hj
    have hP := stdevthres_none _ input mult (hrS.trans (congrArg Except.ok e))
    refine ⟨_, th_rowStep_ok nm n (p : Int) input mult (by omega) hn hin done _ _ _ _ fin hX hfin hP,
      hsdOK, fun _ => rfl, fun h => by omega⟩
  · obtain ⟨ys, hys', _, _⟩ := hsdOK.2.2 (by omega)
    have hys : (stdOwn p (fieldAt fld raw) done.length).roundBy defaultRound = .flt ys := hys'
    have hrC : ({ cs := done ++ [thC1 nm ((stdOwn p (fieldAt fld raw) done.length).roundBy defaultRound)
          (stdData (runMean p (fieldAt fld raw) done.length) (runVar p (fieldAt fld raw) done.length))
          (raw.getD done.length default)], i := done.length, name := nm } : Ctx K).reading input
          = .ok (.num (fld (raw.getD done.length default))) := by
      rw [Ctx.reading_cur done _ [] nm, thC1_input nm input hin,
        readingByCandle_attr input hin.1 _ _ (hattr _)]
    have hrP : ({ cs := done ++ [thC1 nm ((stdOwn p (fieldAt fld raw) done.length).roundBy defaultRound)
          (stdData (runMean p (fieldAt fld raw) done.length) (runVar p (fieldAt fld raw) done.length))
          (raw.getD done.length default)], i := done.length, name := nm } : Ctx K).prevReading input
          = .ok (.num (fld (raw.getD (done.length - 1) default))) := by
      rw [Ctx.prevReading_append_cons done _ [] nm input, hlast (by omega) input, thOut_input nm input hin,
        readingByCandle_attr input hin.1 _ _ (hattr _)]
    have hP := stdevthres_def _ input mult (.flt ys) _ _ (hrS.trans (congrArg Except.ok hys)) hrC hrP
    refine ⟨_, th_rowStep_ok nm n (p : Int) input mult (by omega) hn hin done _ _ _ _ fin hX hfin hP,
      hsdOK, fun h => by omega, fun _ => ⟨ys, hys, rfl⟩⟩

/-- **STDEVTHRES, whole series** (row-major run of `thresTree`), period `p ≥ 1`, input a candle field,
any multiplier (a Python int or float, any sign).  For EVERY raw list the run returns; candle `j` of
the result is the raw candle `j` carrying the row `rows[j]` (STDEV helper reading + data entry in
`.sub_indicators`, own bool in `.indicators`), and every row satisfies `ThOK` (hence
`ThOK.exact_sides`, `ThOK.agree`). -/
theorem thres_series (p : Nat) (hp : 1 ≤ p) (nm input : String) (fld : Candle K → Num K) (mult : Num K) (n : Nat)
    (hn : ThresNames nm) (hin : NoDot input ∧ input ∈ Candle.attrNames)
    (hattr : ∀ c : Candle K, c.attr input = some (.num (fld c)))
    (raw : List (Candle K)) (hraw : ∀ c ∈ raw, Plain c) :
    ∃ rows : List (ThRow K), rows.length = raw.length ∧
      Gen.rowMajor (thresTree (F := K) nm n (p : Int) input mult (by omega) hn hin).S raw = .ok (decoTh nm raw rows) ∧
      ∀ j, j < raw.length → ThOK p mult.toF (fieldAt fld raw) j (rows.getD j ThRow.dflt) :=
  gen_series_induct _ (thOut nm) ThRow.dflt raw _
    (fun m hm rows hrows hQ => th_step p hp nm input fld mult n hn hin hattr raw hraw m hm rows hrows hQ)


/-! ### the same statement read off the candles -/

/-- the comparison on a σ within `e` of the exact one -/
theorem flag_sides (mult ys sg D e : K) (h : |ys - sg| ≤ e) :
    (sg * mult + |mult| * e < D → ys * mult < D) ∧ (D ≤ sg * mult - |mult| * e → ¬ ys * mult < D) := by
  have hband := abs_le.1 (thres_band mult ys sg e h)
  exact ⟨fun hlt => by linarith [hband.2], fun hle => not_lt.2 (by linarith [hband.1])⟩

theorem flag_agree (mult ys sg D e : K) (h : |ys - sg| ≤ e) (he : 0 ≤ e) (hgap : |mult| * e < |D - sg * mult|) :
    decide (ys * mult < D) = decide (sg * mult < D) := by
  obtain ⟨h1, h2⟩ := flag_sides mult ys sg D e h
  have hme : 0 ≤ |mult| * e := mul_nonneg (abs_nonneg _) he
  rcases lt_abs.1 hgap with hpos | hneg
  · have a : ys * mult < D := h1 (by linarith)
    have b : sg * mult < D := by linarith
    simp [a, b]
  · have a : ¬ ys * mult < D := h2 (by linarith)
    have b : ¬ sg * mult < D := not_lt.2 (by linarith)
    simp [a, b]

/-- what `ThOK` says of the finished candle `j`: the STDEV helper's entries are those of a STDEV
series rounded to 4 decimals (`SdCandleOK`: reading `None` before index `p`, then a non-negative float
within `ε₄` of the exact σ; data entry = exact running mean / variance); the own reading is the bool
`False` before index `p` and afterwards the strict comparison on the stored σ -/
def ThCandleOK (p : Nat) (nm : String) (mult : K) (x : Nat → K) (j : Nat) (c : Candle K) : Prop :=
  SdCandleOK p defaultRound (nm ++ "_stdev") x j c ∧
  (j < p → readingByCandle c nm = .bool false) ∧
  (p ≤ j → ∃ ys, readingByCandle c (nm ++ "_stdev") = .flt ys ∧
    readingByCandle c nm = .bool (decide (ys * mult < |x j - x (j - 1)|)))

/-- the stored reading is always a bool (never `None`) -/
theorem ThCandleOK.isBool {p : Nat} {nm : String} {mult : K} {x : Nat → K} {j : Nat} {c : Candle K}
    (h : ThCandleOK p nm mult x j c) : ∃ b : Bool, readingByCandle c nm = .bool b := by
  by_cases hj : j < p
  · exact ⟨_, h.2.1 hj⟩
  · obtain ⟨ys, _, hth⟩ := h.2.2 (by omega)
    exact ⟨_, hth⟩

/-- **the stored flag equals the textbook flag on the exact σ** whenever
`|multiplier|·ε₄ < | |x_j − x_{j−1}| − σ_j·multiplier |` (unconditionally before index `p`) -/
theorem ThCandleOK.agree {p : Nat} {nm : String} {mult : K} {x : Nat → K} {j : Nat} {c : Candle K}
    (h : ThCandleOK p nm mult x j c)
    (hgap : p ≤ j → |mult| * eps K defaultRound < |(|x j - x (j - 1)| - sigmaExact x p j * mult)|) :
    readingByCandle c nm = .bool (thresSeries p mult x j) := by
  unfold thresSeries
  by_cases hj : j < p
  · rw [if_pos hj]; exact h.2.1 hj
  · rw [if_neg hj]
    obtain ⟨ys, hs, hth⟩ := h.2.2 (by omega)
    have hso := h.1.1
    unfold stdevSeries at hso
    rw [if_neg hj] at hso
    obtain ⟨ys', hs', hse, _⟩ := hso
    have : ys' = ys := by
      have h1 : (Val.flt ys' : Val K) = .flt ys := hs'.symm.trans hs
      injection h1 with h1; injection h1 with h1; injection h1
    subst this
    rw [hth, flag_agree mult ys' _ _ _ hse (le_of_lt (eps_pos K _)) (hgap (by omega))]

/-- one-sided form: well above the exact threshold the flag is `True`, at or below it by the band
the flag is `False` -/
theorem ThCandleOK.sides {p : Nat} {nm : String} {mult : K} {x : Nat → K} {j : Nat} {c : Candle K}
    (h : ThCandleOK p nm mult x j c) (hj : p ≤ j) :
    (sigmaExact x p j * mult + |mult| * eps K defaultRound < |x j - x (j - 1)| → readingByCandle c nm = .bool true) ∧
    (|x j - x (j - 1)| ≤ sigmaExact x p j * mult - |mult| * eps K defaultRound → readingByCandle c nm = .bool false) := by
  obtain ⟨ys, hs, hth⟩ := h.2.2 hj
  have hso := h.1.1
  unfold stdevSeries at hso
  rw [if_neg (by omega)] at hso
  obtain ⟨ys', hs', hse, _⟩ := hso
  have : ys' = ys := by
    have h1 : (Val.flt ys' : Val K) = .flt ys := hs'.symm.trans hs
    injection h1 with h1; injection h1 with h1; injection h1
  subst this
  obtain ⟨h1, h2⟩ := flag_sides mult ys' _ |x j - x (j - 1)| _ hse
  rw [hth]
  exact ⟨fun hlt => by simp [h1 hlt], fun hle => by simp [h2 hle]⟩

theorem thCandleOK_of [NonnegSqrt K] (p : Nat) (hp : 1 ≤ p) (nm : String) (hk : IsKey nm) (hn : ThresNames nm)
    (mult : K) (x : Nat → K) (j : Nat) (c : Candle K) (hc : Plain c) (r : ThRow K) (h : ThOK p mult x j r) :
    ThCandleOK p nm mult x j (thOut nm c r) := by
  refine ⟨⟨?_, ?_, ?_, fun hj => ⟨runMean_eq_winMean p x j hj, runVar_eq_popVar p hp x j hj⟩⟩, ?_, ?_⟩
  · rw [thOut_sd nm hn _ hc]
    unfold stdevSeries
    by_cases hj : j < p
    · rw [if_pos hj]; exact h.1.2.1 hj
    · rw [if_neg hj]
      obtain ⟨y, hy, he, hb⟩ := h.1.2.2 (by omega)
      exact ⟨y, hy, hb, h.1.nonneg y hy⟩
  · have hd : r.dv = stdData _ _ := h.1.1
    rw [thOut_mean nm hn _ hc, hd, stdData_mean]
  · have hd : r.dv = stdData _ _ := h.1.1
    rw [thOut_var nm hn _ hc, hd, stdData_var]
  · intro hj
    rw [thOut_own nm hk]; exact h.2.1 hj
  · intro hj
    obtain ⟨ys, hs, hth⟩ := h.2.2 hj
    exact ⟨ys, by rw [thOut_sd nm hn _ hc]; exact hs, by rw [thOut_own nm hk]; exact hth⟩

theorem decoTh_getD (nm : String) (raw : List (Candle K)) (rows : List (ThRow K))
    (hl : rows.length = raw.length) (j : Nat) (hj : j < raw.length) :
    (decoTh nm raw rows).getD j default = thOut nm (raw.getD j default) (rows.getD j ThRow.dflt) := by
  rw [List.getD_eq_getElem?_getD, decoTh, decoWith_getElem? _ _ _ ThRow.dflt j hl hj]; rfl

/-- **STDEVTHRES, whole series, candle by candle.**  For every raw list the row-major run of
`thresTree` returns a list of the raw candles' length whose candle `j` satisfies `ThCandleOK`. -/
theorem thres_series_candles [NonnegSqrt K] (p : Nat) (hp : 1 ≤ p) (nm input : String) (fld : Candle K → Num K)
    (mult : Num K) (n : Nat) (hk : IsKey nm) (hn : ThresNames nm) (hin : NoDot input ∧ input ∈ Candle.attrNames)
    (hattr : ∀ c : Candle K, c.attr input = some (.num (fld c)))
    (raw : List (Candle K)) (hraw : ∀ c ∈ raw, Plain c) :
    ∃ out : List (Candle K), out.length = raw.length ∧
      Gen.rowMajor (thresTree (F := K) nm n (p : Int) input mult (by omega) hn hin).S raw = .ok out ∧
      ∀ j, j < raw.length → ThCandleOK p nm mult.toF (fieldAt fld raw) j (out.getD j default) := by
  obtain ⟨rows, hl, hrun, hall⟩ := thres_series p hp nm input fld mult n hn hin hattr raw hraw
  refine ⟨decoTh nm raw rows, decoWith_length _ _ _ hl, hrun, ?_⟩
  intro j hj
  rw [decoTh_getD nm raw rows hl j hj]
  exact thCandleOK_of p hp nm hk hn _ _ j _ (getD_plain raw hraw j hj) _ (hall j hj)

/-! ### through the engine -/

/-- **… through the engine**: `calculate()` on the raw candles returns exactly the candles of `thres_series`. -/
theorem thres_series_engine (p : Nat) (hp : 1 ≤ p) (nm input : String) (fld : Candle K → Num K) (mult : Num K)
    (n : Nat) (hn : ThresNames nm) (hin : NoDot input ∧ input ∈ Candle.attrNames)
    (hattr : ∀ c : Candle K, c.attr input = some (.num (fld c)))
    (raw : List (Candle K)) (hraw : ∀ c ∈ raw, Plain c) :
    ∃ rows : List (ThRow K), rows.length = raw.length ∧
      engineCalc (mkTop (.stdevthres (p : Int) input mult : Kind K) nm n) raw = .ok (decoTh nm raw rows) ∧
      ∀ j, j < raw.length → ThOK p mult.toF (fieldAt fld raw) j (rows.getD j ThRow.dflt) := by
  obtain ⟨rows, hl, hrun, hall⟩ := thres_series p hp nm input fld mult n hn hin hattr raw hraw
  refine ⟨rows, hl, ?_, hall⟩
  have h3 := ((thresTree (F := K) nm n (p : Int) input mult (by omega) hn hin).engine [] raw [] (decoTh nm raw rows) rfl
    (by simp) hraw).2 (by simpa using hrun)
  simp only [List.nil_append] at h3
  exact h3

/-- **… through the object**: the batch run returns exactly the candles of `thres_series`. -/
theorem thres_series_batch (p : Nat) (hp : 1 ≤ p) (nm input : String) (fld : Candle K → Num K) (mult : Num K)
    (n : Nat) (hn : ThresNames nm) (hin : NoDot input ∧ input ∈ Candle.attrNames)
    (hattr : ∀ c : Candle K, c.attr input = some (.num (fld c)))
    (raw : List (Candle K)) (hraw : ∀ c ∈ raw, Plain c) :
    ∃ rows : List (ThRow K), rows.length = raw.length ∧
      candlesOf (runIndicator (mkTop (.stdevthres (p : Int) input mult : Kind K) nm n) {} raw [])
        = .ok (decoTh nm raw rows) ∧
      ∀ j, j < raw.length → ThOK p mult.toF (fieldAt fld raw) j (rows.getD j ThRow.dflt) := by
  obtain ⟨rows, hl, hrun, hall⟩ := thres_series p hp nm input fld mult n hn hin hattr raw hraw
  exact ⟨rows, hl,
    ((thresTree (F := K) nm n (p : Int) input mult (by omega) hn hin).batch_iff (MgrSpec.base K) raw hraw _).2 hrun, hall⟩

/-- **whenever the batch run returns, its candles carry exactly those readings** (and it does
return: `thres_series_batch`) -/
theorem thres_batch_readings [NonnegSqrt K] (p : Nat) (hp : 1 ≤ p) (nm input : String) (fld : Candle K → Num K)
    (mult : Num K) (n : Nat) (hk : IsKey nm) (hn : ThresNames nm) (hin : NoDot input ∧ input ∈ Candle.attrNames)
    (hattr : ∀ c : Candle K, c.attr input = some (.num (fld c)))
    (raw : List (Candle K)) (hraw : ∀ c ∈ raw, Plain c) (out : List (Candle K))
    (hout : candlesOf (runIndicator (mkTop (.stdevthres (p : Int) input mult : Kind K) nm n) {} raw []) = .ok out) :
    out.length = raw.length ∧
    ∀ j, j < raw.length → ThCandleOK p nm mult.toF (fieldAt fld raw) j (out.getD j default) := by
  obtain ⟨out', h1, h2, h3⟩ := thres_series_candles p hp nm input fld mult n hk hn hin hattr raw hraw
  have hr : Gen.rowMajor (thresTree (F := K) nm n (p : Int) input mult (by omega) hn hin).S raw = .ok out :=
    ((thresTree (F := K) nm n (p : Int) input mult (by omega) hn hin).batch_iff (MgrSpec.base K) raw hraw out).1 hout
  rw [h2] at hr
  cases hr
  exact ⟨h1, h3⟩

/-- **… for every append schedule**: whenever a live history returns, its candles are those of
`thres_series` over the whole stream. -/
theorem thres_series_live (p : Nat) (hp : 1 ≤ p) (nm input : String) (fld : Candle K → Num K) (mult : Num K)
    (n : Nat) (hn : ThresNames nm) (hin : NoDot input ∧ input ∈ Candle.attrNames)
    (hattr : ∀ c : Candle K, c.attr input = some (.num (fld c)))
    (init : List (Candle K)) (chunks : List (List (Candle K)))
    (hraw : ∀ c ∈ init ++ chunks.flatten, Plain c) (snap : List (Candle K))
    (hsnap : candlesOf (runIndicator (mkTop (.stdevthres (p : Int) input mult : Kind K) nm n) {} init chunks) = .ok snap) :
    ∃ rows : List (ThRow K), rows.length = (init ++ chunks.flatten).length ∧
      snap = decoTh nm (init ++ chunks.flatten) rows ∧
      ∀ j, j < (init ++ chunks.flatten).length →
        ThOK p mult.toF (fieldAt fld (init ++ chunks.flatten)) j (rows.getD j ThRow.dflt) := by
  obtain ⟨rows, hl, hrun, hall⟩ := thres_series p hp nm input fld mult n hn hin hattr _ hraw
  have h := (thresTree (F := K) nm n (p : Int) input mult (by omega) hn hin).live_refines (MgrSpec.base K) init chunks hraw snap hsnap
  have h' : Gen.rowMajor (thresTree (F := K) nm n (p : Int) input mult (by omega) hn hin).S (init ++ chunks.flatten) = .ok snap := h
  rw [hrun] at h'
  exact ⟨rows, hl, (Except.ok.inj h').symm, hall⟩


/-- an unchanged input never raises the flag when the multiplier is non-negative (σ_stored ≥ 0) -/
theorem ThOK.still [NonnegSqrt K] {p : Nat} {mult : K} {x : Nat → K} {j : Nat} {r : ThRow K}
    (h : ThOK p mult x j r) (hm : 0 ≤ mult) (hx : x j = x (j - 1)) : r.th = .bool false := by
  by_cases hj : j < p
  · exact h.2.1 hj
  · obtain ⟨ys, _, hth, _, _, hys⟩ := h.sigma (by omega)
    rw [hth, hx]
    have : ¬ ys * mult < 0 := not_lt.2 (mul_nonneg hys hm)
    simp [this]

/-! ### non-vacuity: the five demo candles over ℚ (closes 11, 12, 14, 15, 15), period 3, multiplier 1 -/

theorem thresNames_demo : ThresNames "STDEVTHRES_3" :=
  ⟨by decide, ⟨by decide, by decide, by decide⟩, by decide, by decide⟩

example : ∃ rows : List (ThRow ℚ), rows.length = rsiDemoRaw.length ∧
    Gen.rowMajor (thresTree (F := ℚ) "STDEVTHRES_3" 4 ((3 : Nat) : Int) "close" (fl 1) (by omega) thresNames_demo
      ⟨noDot_close, by decide⟩).S rsiDemoRaw = .ok (decoTh "STDEVTHRES_3" rsiDemoRaw rows) ∧
    ∀ j, j < rsiDemoRaw.length →
      ThOK 3 (fl 1 : Num ℚ).toF (fieldAt (·.c) rsiDemoRaw) j (rows.getD j ThRow.dflt) :=
  thres_series 3 (by norm_num) "STDEVTHRES_3" "close" (·.c) (fl 1) 4 thresNames_demo ⟨noDot_close, by decide⟩
    (fun _ => rfl) rsiDemoRaw rsiDemoRaw_plain

/-- the batch run on the demo candles returns, and its candles are as stated -/
example : ∃ out : List (Candle ℚ),
    candlesOf (runIndicator (mkTop (.stdevthres ((3 : Nat) : Int) "close" (fl 1) : Kind ℚ) "STDEVTHRES_3" 4) {}
      rsiDemoRaw []) = .ok out ∧
    out.length = rsiDemoRaw.length ∧
    ∀ j, j < rsiDemoRaw.length →
      ThCandleOK 3 "STDEVTHRES_3" (fl 1 : Num ℚ).toF (fieldAt (·.c) rsiDemoRaw) j (out.getD j default) := by
  obtain ⟨rows, _, h2, _⟩ := thres_series_batch 3 (by norm_num) "STDEVTHRES_3" "close" (·.c) (fl 1) 4 thresNames_demo
    ⟨noDot_close, by decide⟩ (fun _ => rfl) rsiDemoRaw rsiDemoRaw_plain
  exact ⟨_, h2, thres_batch_readings 3 (by norm_num) "STDEVTHRES_3" "close" (·.c) (fl 1) 4 (by decide) thresNames_demo
    ⟨noDot_close, by decide⟩ (fun _ => rfl) rsiDemoRaw rsiDemoRaw_plain _ h2⟩

/-- the textbook flag: nothing on candles 0–2 (σ not yet available) -/
example : thresSeries 3 (1 : ℚ) (fieldAt (·.c) rsiDemoRaw) 2 = false := by decide

/-- concretely (independent of the stub `sqrt` of ℚ): the batch run stores the bool `False` on candle 2
(warm-up: the STDEV helper has no reading, `STDEVTHRES_3_stdev` is `None`) and on candle 4 (close
unchanged 15 → 15, σ_stored ≥ 0), where the helper's data entry is `{mean: 44/3, variance: 2/9}` – the
values the real class stores (`14.666…`, `0.2222…`, `STDEVTHRES_3_stdev = 0.4714`) -/
example : ∃ out : List (Candle ℚ),
    candlesOf (runIndicator (mkTop (.stdevthres ((3 : Nat) : Int) "close" (fl 1) : Kind ℚ) "STDEVTHRES_3" 4) {}
      rsiDemoRaw []) = .ok out ∧
    readingByCandle (out.getD 2 default) "STDEVTHRES_3" = .bool false ∧
    readingByCandle (out.getD 2 default) ("STDEVTHRES_3" ++ "_stdev") = .none ∧
    readingByCandle (out.getD 4 default) "STDEVTHRES_3" = .bool false ∧
    readingByCandle (out.getD 4 default) ("STDEVTHRES_3" ++ "_stdev" ++ "_data.mean") = .flt (44 / 3) ∧
    readingByCandle (out.getD 4 default) ("STDEVTHRES_3" ++ "_stdev" ++ "_data.variance") = .flt (2 / 9) := by
  obtain ⟨rows, hl, h2, hall⟩ := thres_series_batch 3 (by norm_num) "STDEVTHRES_3" "close" (·.c) (fl 1) 4 thresNames_demo
    ⟨noDot_close, by decide⟩ (fun _ => rfl) rsiDemoRaw rsiDemoRaw_plain
  obtain ⟨_, h3⟩ := thres_batch_readings 3 (by norm_num) "STDEVTHRES_3" "close" (·.c) (fl 1) 4 (by decide) thresNames_demo
    ⟨noDot_close, by decide⟩ (fun _ => rfl) rsiDemoRaw rsiDemoRaw_plain _ h2
  refine ⟨_, h2, (h3 2 (by decide)).2.1 (by decide), ?_, ?_, ?_, ?_⟩
  · have h := (h3 2 (by decide)).1.1
    have e : stdevSeries 3 (fieldAt (·.c) rsiDemoRaw) 2 = none := by decide
    rw [e] at h
    exact h
  · rw [decoTh_getD _ _ _ hl 4 (by decide), thOut_own _ (by decide)]
    refine (hall 4 (by decide)).still ?_ ?_
    · show (0 : ℚ) ≤ (fl 1 : Num ℚ).toF
      rw [Num.toF_fl]; norm_num
    · decide
  · rw [(h3 4 (by decide)).1.2.1]
    norm_num [runMean, runSum, rsum, fieldAt, rsiDemoRaw, Demo.mk, List.range_succ]
  · rw [(h3 4 (by decide)).1.2.2.1]
    norm_num [runVar, runMean, runSum, rsum, fieldAt, rsiDemoRaw, Demo.mk, List.range_succ]

#print axioms thres_series
#print axioms ThOK.exact_sides
#print axioms ThOK.agree
#print axioms ThOK.disagree_band
#print axioms thres_series_candles
#print axioms ThCandleOK.agree
#print axioms thres_series_engine
#print axioms thres_series_batch
#print axioms thres_batch_readings
#print axioms thres_series_live

end Numeric
end Hex

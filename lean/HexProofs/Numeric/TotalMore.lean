import HexProofs.Numeric.TotalMoreAmorph
import HexProofs.Numeric.TotalMoreHA
import HexProofs.Numeric.TotalMoreLife
import HexProofs.Numeric.TotalMoreLifeTrees
/-!
# C09, open items (c) and (d): umbrella module

* `TotalMoreAmorph` – (c): `Amorph` over the twenty movement / pattern functions never raises on any
  manager with an incremental spec and has no gaps (`amorph_never_raises`, `amorph_bool_no_gaps`,
  `amorph_bar_no_gaps`, `amorph_extreme_no_gaps`, `amorph_range_no_gaps`) – every float carrier.
* `TotalMoreHA` – (d), Heikin-Ashi: `MgrSpec.ha`, `MgrSpec.tfHA`, `MgrSpec.fillHA` – managers with conversion
  have an incremental spec, so EVERY `…_live_total M` theorem of Total.lean holds on them as it stands;
  `wellFormed_haSpec`: converted candles of well-formed candles are well-formed (exact field).
* `TotalMoreLife` – (d), lifespan: `amorph_never_raises_lifespan` (unconditional), `leaf_never_raises_lifespan`
  (every leaf kind under C15's retention hypothesis), and the witnesses `sma_/roc_/bbands_/wma_/vwma_/
  hma_raises_after_trim`: without retention SMA, ROC, WMA, VWMA, BBANDS, HMA raise `IndexError`.
* `TotalMoreLifeTrees` – (d), lifespan, composites: `tree_never_raises_lifespan` / `covered_never_raises_lifespan`
  (every shipped class under `RetainsFrom (treeLook …)`), instances `atr_/rsi_/stdev_/bbands_/kc_/stdevthres_/
  supertrend_/vwap_/macd_/stoch_/tsi_/adx_/hma_lifeTotal`.
-/

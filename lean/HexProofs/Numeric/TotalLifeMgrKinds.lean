import HexProofs.Numeric.TotalLifeMgr
/-!
# Lifespan totality on re-collapsing / converting managers: the kinds in the exact field, non-vacuity, a witness

`X_lifeTotalMgr hM …` : for every `TwinMgr` `M` matched by a `MgrSpec` `MS` (`hM : M.Matches MS`; `TwinMgr.matches_tf`,
`…_fill`, `…_ha`, `…_tfHA` – a later `TwinMgr.fillHA` plugs in with its own one-line `Matches`), kind `X` with the
parameter guards of `X_live_total` is `LifeTotalMgr M (mkTop …) (treeLook …)`: on `M` WITH a lifespan that pops nothing at
construction and retains the tree's look-back in CLOSED candles at every popping append, every history returns, with the
candles of the history on `M` itself minus the popped ones.  Read it in the user-facing vocabulary with
`LifeTotalMgr.tf / .fill / .ha / .tfHA` (TotalLifeMgr.lean).
-/
set_option linter.unusedSectionVars false
set_option linter.unusedVariables false
namespace Hex.Numeric
variable {K : Type} [Field K] [LinearOrder K] [IsStrictOrderedRing K] [LawfulPyF K]
variable {M : TwinMgr K} {MS : MgrSpec K}

/-! ### the composites (parameter guards as in `…_live_total`) -/

theorem atr_lifeTotalMgr (hM : M.Matches MS) (p : Nat) (hp : 1 ≤ p) (nm : String) (n : Nat) (hk : IsKey nm)
    (hn : AtrNames nm) :
    LifeTotalMgr M (mkTop (.atr (p : Int) : Kind K) nm n) (treeLook (.atr (p : Int) : Kind K) nm n) :=
  lifeTotalMgr_of hM _ nm n (.base _ (.atr _ (by omega) hn)) (atr_live_total MS p hp nm n hk hn).1

theorem rsi_lifeTotalMgr (hM : M.Matches MS) (p : Nat) (hp : 1 ≤ p) (nm input : String) (fld : Candle K → Num K)
    (n : Nat) (hn : RsiNames nm) (hk : IsKey nm) (hin : AttrInput input)
    (hattr : ∀ c : Candle K, c.attr input = some (.num (fld c))) :
    LifeTotalMgr M (mkTop (.rsi (p : Int) input : Kind K) nm n) (treeLook (.rsi (p : Int) input : Kind K) nm n) :=
  lifeTotalMgr_of hM _ nm n (.base _ (.rsi _ _ (by omega) hn hin))
    (rsi_live_total MS p hp nm input fld n hn hk hin hattr).1

theorem stdev_lifeTotalMgr (hM : M.Matches MS) (p : Nat) (hp : 1 ≤ p) (nm input : String) (fld : Candle K → Num K)
    (n : Nat) (hn : SdNames nm) (hin : AttrInput input) (hattr : ∀ c : Candle K, c.attr input = some (.num (fld c))) :
    LifeTotalMgr M (mkTop (.stdev (p : Int) input : Kind K) nm n) (treeLook (.stdev (p : Int) input : Kind K) nm n) :=
  lifeTotalMgr_of hM _ nm n (.base _ (.stdev _ _ (by omega) hin))
    (stdev_live_total MS p hp nm input fld n hn hin hattr).1

theorem bbands_lifeTotalMgr (hM : M.Matches MS) (p : Nat) (hp : 2 ≤ p) (nm input : String) (fld : Candle K → Num K)
    (n : Nat) (hk : IsKey nm) (hn : BbNames nm) (hin : AttrInput input)
    (hattr : ∀ c : Candle K, c.attr input = some (.num (fld c))) :
    LifeTotalMgr M (mkTop (.bbands (p : Int) input : Kind K) nm n) (treeLook (.bbands (p : Int) input : Kind K) nm n) :=
  lifeTotalMgr_of hM _ nm n (.base _ (.bbands _ _ (by omega) hn hin))
    (bb_live_total MS p hp nm input fld n hk hn hin hattr).1

theorem kc_lifeTotalMgr (hM : M.Matches MS) (p : Nat) (hp : 2 ≤ p) (nm input : String) (fld : Candle K → Num K)
    (n : Nat) (mult : Num K) (hk : IsKey nm) (hn : KcNames nm) (hin : AttrInput input)
    (hattr : ∀ c : Candle K, c.attr input = some (.num (fld c))) :
    LifeTotalMgr M (mkTop (.kc (p : Int) input mult : Kind K) nm n)
      (treeLook (.kc (p : Int) input mult : Kind K) nm n) :=
  lifeTotalMgr_of hM _ nm n (.base _ (.kc _ _ _ (by omega) hn hin))
    (kc_live_total MS p hp nm input fld n mult hk hn hin hattr).1

theorem stdevthres_lifeTotalMgr (hM : M.Matches MS) (p : Nat) (hp : 1 ≤ p) (nm input : String)
    (fld : Candle K → Num K) (mult : Num K) (n : Nat) (hk : IsKey nm) (hn : ThresNames nm) (hin : AttrInput input)
    (hattr : ∀ c : Candle K, c.attr input = some (.num (fld c))) :
    LifeTotalMgr M (mkTop (.stdevthres (p : Int) input mult : Kind K) nm n)
      (treeLook (.stdevthres (p : Int) input mult : Kind K) nm n) :=
  lifeTotalMgr_of hM _ nm n (.base _ (.stdevthres _ _ _ (by omega) hn hin))
    (thres_live_total MS p hp nm input fld mult n hk hn hin hattr).1

theorem supertrend_lifeTotalMgr (hM : M.Matches MS) (p : Nat) (hp : 1 ≤ p) (nm input : String) (mult : Num K)
    (n : Nat) (hn : StNames nm) (hk : IsKey nm) :
    LifeTotalMgr M (mkTop (.supertrend (p : Int) input mult : Kind K) nm n)
      (treeLook (.supertrend (p : Int) input mult : Kind K) nm n) :=
  lifeTotalMgr_of hM _ nm n (.base _ (.supertrend _ _ _ (by omega) hn)) (st_live_total MS p hp nm input mult n hn hk).1

theorem vwap_lifeTotalMgr (hM : M.Matches MS) (p : Int) (nm : String) (n : Nat) (hn : VwapNames nm) :
    LifeTotalMgr M (mkTop (.vwap p : Kind K) nm n) (treeLook (.vwap p : Kind K) nm n) :=
  lifeTotalMgr_of hM _ nm n (.base _ (.vwap p)) (vwap_live_total MS p nm n hn).1

theorem macd_lifeTotalMgr (hM : M.Matches MS) (nm : String) (n pf ps pg : Nat) (input : String)
    (fld : Candle K → Num K) (hf : 2 ≤ pf) (hfs : pf ≤ ps) (hg : 1 ≤ pg) (hn : MacdNames nm) (hin : AttrInput input)
    (hattr : ∀ c : Candle K, c.attr input = some (.num (fld c))) :
    LifeTotalMgr M (mkTop (.macd (pf : Int) (ps : Int) (pg : Int) input : Kind K) nm n)
      (treeLook (.macd (pf : Int) (ps : Int) (pg : Int) input : Kind K) nm n) :=
  lifeTotalMgr_of hM _ nm n (.macd _ _ _ _ (by omega) (by omega) (by omega) hn hin)
    (macd_live_total MS nm n pf ps pg input fld hf hfs hg hn hin hattr).1

theorem stoch_lifeTotalMgr (hM : M.Matches MS) (p sk sl : Nat) (hp : 2 ≤ p) (hsk : 1 ≤ sk) (hsl : 1 ≤ sl)
    (nm input : String) (fld : Candle K → Num K) (n : Nat) (hn : StochNames nm) (hin : AttrInput input)
    (hattr : ∀ c : Candle K, c.attr input = some (.num (fld c))) :
    LifeTotalMgr M (mkTop (.stoch (p : Int) (sl : Int) (sk : Int) input : Kind K) nm n)
      (treeLook (.stoch (p : Int) (sl : Int) (sk : Int) input : Kind K) nm n) :=
  lifeTotalMgr_of hM _ nm n (.stoch _ _ _ _ (by omega) (by omega) (by omega) hn hin)
    (stoch_live_total MS p sk sl hp hsk hsl nm input fld n hn hin hattr).1

theorem tsi_lifeTotalMgr (hM : M.Matches MS) (nm : String) (n p s : Nat) (input : String) (fld : Candle K → Num K)
    (hp : 1 ≤ p) (hs : 1 ≤ s) (hn : TsiNames nm) (hin : AttrInput input)
    (hattr : ∀ c : Candle K, c.attr input = some (.num (fld c))) :
    LifeTotalMgr M (mkTop (.tsi (p : Int) (s : Int) input : Kind K) nm n)
      (treeLook (.tsi (p : Int) (s : Int) input : Kind K) nm n) :=
  lifeTotalMgr_of hM _ nm n (.tsi _ _ _ (by omega) (by omega) hn hin)
    (tsi_live_total MS nm n p s input fld hp hs hn hin hattr).1

theorem adx_lifeTotalMgr (hM : M.Matches MS) (nm : String) (n p sg : Nat) (hp : 1 ≤ p) (hg : 1 ≤ sg)
    (hn : AdxNames nm) :
    LifeTotalMgr M (mkTop (.adx (p : Int) (sg : Int) : Kind K) nm n)
      (treeLook (.adx (p : Int) (sg : Int) : Kind K) nm n) :=
  lifeTotalMgr_of hM _ nm n (.adx _ _ (by omega) (by omega) hn) (adx_live_total MS nm n p sg hp hg hn).1

theorem hma_lifeTotalMgr (hM : M.Matches MS) (p : Nat) (hp : 2 ≤ p) (nm input : String) (fld : Candle K → Num K)
    (n : Nat) (hn : HmaNames nm) (hin : AttrInput input)
    (hattr : ∀ c : Candle K, c.attr input = some (.num (fld c))) :
    LifeTotalMgr M (mkTop (.hma (p : Int) input : Kind K) nm n) (treeLook (.hma (p : Int) input : Kind K) nm n) :=
  lifeTotalMgr_of hM _ nm n (.hma _ _ (by omega) hn hin) (hma_live_total MS p hp nm input fld n hn hin hattr).1

/-! ### the leaf kinds (SMA, EMA, RMA, WMA over any candle field; VWMA, HLA, TR, OBV; HighestLowest, Donchian, Aroon) -/

theorem sma_lifeTotalMgr (hM : M.Matches MS) (p : Nat) (hp : 2 ≤ p) (nm input : String) (fld : Candle K → Num K)
    (n : Nat) (hk : IsKey nm) (hin : AttrInput input) (hattr : ∀ c : Candle K, c.attr input = some (.num (fld c))) :
    LifeTotalMgr M (mkTop (.sma p input : Kind K) nm n) (treeLook (.sma p input : Kind K) nm n) :=
  lifeTotalMgr_of hM _ nm n (.base _ (.leaf _ (Covered.sma (p : Int) input (by omega) hk hin)))
    (sma_live_total MS p hp nm input fld n hk hin hattr).1

theorem ema_lifeTotalMgr (hM : M.Matches MS) (p : Nat) (hp : 2 ≤ p) (nm input : String) (fld : Candle K → Num K)
    (n : Nat) (hk : IsKey nm) (hin : AttrInput input) (hattr : ∀ c : Candle K, c.attr input = some (.num (fld c))) :
    LifeTotalMgr M (mkTop (.ema p input (fl 2) : Kind K) nm n) (treeLook (.ema p input (fl 2) : Kind K) nm n) :=
  lifeTotalMgr_of hM _ nm n (.base _ (.leaf _ (Covered.ema (p : Int) input (fl 2) (by omega) hin)))
    (ema_live_total MS p hp nm input fld n hk hin hattr).1

theorem rma_lifeTotalMgr (hM : M.Matches MS) (p : Nat) (hp : 2 ≤ p) (nm input : String) (fld : Candle K → Num K)
    (n : Nat) (hk : IsKey nm) (hin : AttrInput input) (hattr : ∀ c : Candle K, c.attr input = some (.num (fld c))) :
    LifeTotalMgr M (mkTop (.rma p input : Kind K) nm n) (treeLook (.rma p input : Kind K) nm n) :=
  lifeTotalMgr_of hM _ nm n (.base _ (.leaf _ (Covered.rma (p : Int) input (by omega) hin)))
    (rma_live_total MS p hp nm input fld n hk hin hattr).1

theorem wma_lifeTotalMgr (hM : M.Matches MS) (p : Nat) (hp : 2 ≤ p) (nm input : String) (fld : Candle K → Num K)
    (n : Nat) (hk : IsKey nm) (hin : AttrInput input) (hattr : ∀ c : Candle K, c.attr input = some (.num (fld c))) :
    LifeTotalMgr M (mkTop (.wma p input : Kind K) nm n) (treeLook (.wma p input : Kind K) nm n) :=
  lifeTotalMgr_of hM _ nm n (.base _ (.leaf _ (Covered.wma (p : Int) input (by omega) hk hin)))
    (wma_live_total MS p hp nm input fld n hk hin hattr).1

theorem vwma_lifeTotalMgr (hM : M.Matches MS) (p : Nat) (hp : 2 ≤ p) (nm : String) (n : Nat) (hk : IsKey nm) :
    LifeTotalMgr M (mkTop (.vwma p : Kind K) nm n) (treeLook (.vwma p : Kind K) nm n) :=
  lifeTotalMgr_of hM _ nm n (.base _ (.leaf _ (Covered.vwma (p : Int) (by omega) hk))) (vwma_live_total MS p hp nm n hk).1

theorem hla_lifeTotalMgr (hM : M.Matches MS) (nm : String) (n : Nat) (hk : IsKey nm) :
    LifeTotalMgr M (mkTop (.hla : Kind K) nm n) (treeLook (.hla : Kind K) nm n) :=
  lifeTotalMgr_of hM _ nm n (.base _ (.leaf _ Covered.hla)) (hla_live_total MS nm n hk).1

theorem tr_lifeTotalMgr (hM : M.Matches MS) (nm : String) (n : Nat) (hk : IsKey nm) :
    LifeTotalMgr M (mkTop (.tr : Kind K) nm n) (treeLook (.tr : Kind K) nm n) :=
  lifeTotalMgr_of hM _ nm n (.base _ (.leaf _ Covered.tr)) (tr_live_total MS nm n hk).1

theorem obv_lifeTotalMgr (hM : M.Matches MS) (nm : String) (n : Nat) (hk : IsKey nm) :
    LifeTotalMgr M (mkTop (.obv : Kind K) nm n) (treeLook (.obv : Kind K) nm n) :=
  lifeTotalMgr_of hM _ nm n (.base _ (.leaf _ Covered.obv)) (obv_live_total MS nm n hk).1

theorem hl_lifeTotalMgr (hM : M.Matches MS) (p : Nat) (hp : 1 ≤ p) (nm : String) (n : Nat) (hk : IsKey nm) :
    LifeTotalMgr M (mkTop (.hl p : Kind K) nm n) (treeLook (.hl p : Kind K) nm n) :=
  lifeTotalMgr_of hM _ nm n (.base _ (.leaf _ (Covered.hl (p : Int)))) (hl_live_total MS p hp nm n hk).1

theorem donchian_lifeTotalMgr (hM : M.Matches MS) (p : Nat) (hp : 2 ≤ p) (nm : String) (n : Nat) (hn : DcNames nm) :
    LifeTotalMgr M (mkTop (.donchian p : Kind K) nm n) (treeLook (.donchian p : Kind K) nm n) :=
  lifeTotalMgr_of hM _ nm n (.base _ (.leaf _ (Covered.donchian (p : Int) (by omega))))
    (donchian_live_total MS p hp nm n hn).1

theorem aroon_lifeTotalMgr (hM : M.Matches MS) (p : Nat) (hp : 1 ≤ p) (nm : String) (n : Nat) (hk : IsKey nm) :
    LifeTotalMgr M (mkTop (.aroon p : Kind K) nm n) (treeLook (.aroon p : Kind K) nm n) :=
  lifeTotalMgr_of hM _ nm n (.base _ (.leaf _ (Covered.aroon (p : Int) (by omega)))) (aroon_live_total MS p hp nm n hk).1

end Hex.Numeric

namespace Hex
/-- Counter: every float carrier (also the executed `Float`) -/
theorem counter_lifeTotalMgr {F : Type} [PyF F] {M : TwinMgr F} {MS : MgrSpec F} (hM : M.Matches MS)
    (nm input : String) (fld : Candle F → Num F) (cv : Scalar F) (n : Nat) (hk : IsKey nm) (hin : AttrInput input)
    (hattr : ∀ c : Candle F, c.attr input = some (.num (fld c))) :
    LifeTotalMgr M (mkTop (.counter input cv : Kind F) nm n) (treeLook (.counter input cv : Kind F) nm n) :=
  lifeTotalMgr_of hM _ nm n (.base _ (.leaf _ (Covered.counter input cv hin)))
    (Numeric.counter_live_total MS nm input fld cv n hk hin hattr).1
end Hex


/-! ### non-vacuity in the exact field `ℚ`, end to end (no hypothesis left) -/

namespace Hex.Numeric

/-- the stamped demo candles on 120 s buckets with a 360 s lifespan: construction over three candles (buckets 120, 240)
pops nothing; the append of 480 opens bucket 480, the append of 540 opens bucket 600 and pops bucket 120 – the closed
buckets 240, 480 are retained -/
theorem haStamped_retainsBuckets2 : RetainsBuckets 2 120 360 (haStamped.take 3) 0
    [[haStamped.getD 3 default], [], [haStamped.getD 4 default]] :=
  retainsBuckets_of_B 2 120 360 _ 0 _ (by decide +kernel)

private theorem macdDemoQ_look :
    treeLook (F := ℚ) (.macd ((2 : Nat) : Int) ((3 : Nat) : Int) ((2 : Nat) : Int) "close") "MACD_2_3_2" 4 = 2 := by
  simp [treeLook, mkTop, children, Ind.lb_eq, Ind.kind, Ind.subs, Ind.managed, leaf, kwin, window]

/-- MACD(2, 3, 2) over `ℚ` on `{HA, lifespan 400 s}` next to `{HA}`: both runs return, the lifespan run with the twin's
candles minus the popped ones -/
example : ∃ snap d, candlesOf (runIndicator
      (mkTop (.macd ((2 : Nat) : Int) ((3 : Nat) : Int) ((2 : Nat) : Int) "close" : Kind ℚ) "MACD_2_3_2" 4)
      (cfgHALife 400) (haStamped.take 3) [[haStamped.getD 3 default], [], [haStamped.getD 4 default]])
        = .ok (snap.drop d) ∧
    candlesOf (runIndicator
      (mkTop (.macd ((2 : Nat) : Int) ((3 : Nat) : Int) ((2 : Nat) : Int) "close" : Kind ℚ) "MACD_2_3_2" 4)
      cfgHAOnly (haStamped.take 3) [[haStamped.getD 3 default], [], [haStamped.getD 4 default]]) = .ok snap :=
  (macd_lifeTotalMgr TwinMgr.matches_ha "MACD_2_3_2" 4 2 3 2 "close" (·.c) (by norm_num) (by norm_num)
    (by norm_num) macdNames_demo ⟨noDot_close, by decide⟩ (fun _ => rfl)).ha 400 _ _ haStamped_plain rfl
    (by rw [macdDemoQ_look]; exact haStamped_retains2)

/-- … on `{timeframe 120 s, lifespan 360 s}` next to `{timeframe 120 s}` -/
example : ∃ snap d, candlesOf (runIndicator
      (mkTop (.macd ((2 : Nat) : Int) ((3 : Nat) : Int) ((2 : Nat) : Int) "close" : Kind ℚ) "MACD_2_3_2" 4)
      (cfgTfLife 120 360) (haStamped.take 3) [[haStamped.getD 3 default], [], [haStamped.getD 4 default]])
        = .ok (snap.drop d) ∧
    candlesOf (runIndicator
      (mkTop (.macd ((2 : Nat) : Int) ((3 : Nat) : Int) ((2 : Nat) : Int) "close" : Kind ℚ) "MACD_2_3_2" 4)
      (cfgTf 120) (haStamped.take 3) [[haStamped.getD 3 default], [], [haStamped.getD 4 default]]) = .ok snap :=
  (macd_lifeTotalMgr (TwinMgr.matches_tf 120 (by decide)) "MACD_2_3_2" 4 2 3 2 "close" (·.c) (by norm_num)
    (by norm_num) (by norm_num) macdNames_demo ⟨noDot_close, by decide⟩ (fun _ => rfl)).tf 360 _ _ haStamped_ok.1
    rfl (by rw [macdDemoQ_look]; exact haStamped_retainsBuckets2)

/-- … on `{timeframe 120 s, fill, lifespan 360 s}` next to `{timeframe 120 s, fill}` (a fill candle 360 is inserted) -/
example : ∃ snap d, candlesOf (runIndicator
      (mkTop (.macd ((2 : Nat) : Int) ((3 : Nat) : Int) ((2 : Nat) : Int) "close" : Kind ℚ) "MACD_2_3_2" 4)
      (cfgFillLife 120 360) (haStamped.take 3) [[haStamped.getD 3 default], [], [haStamped.getD 4 default]])
        = .ok (snap.drop d) ∧
    candlesOf (runIndicator
      (mkTop (.macd ((2 : Nat) : Int) ((3 : Nat) : Int) ((2 : Nat) : Int) "close" : Kind ℚ) "MACD_2_3_2" 4)
      (cfgFill 120) (haStamped.take 3) [[haStamped.getD 3 default], [], [haStamped.getD 4 default]]) = .ok snap :=
  (macd_lifeTotalMgr (TwinMgr.matches_fill 120 (by decide)) "MACD_2_3_2" 4 2 3 2 "close" (·.c) (by norm_num)
    (by norm_num) (by norm_num) macdNames_demo ⟨noDot_close, by decide⟩ (fun _ => rfl)).fill 360 _ _ haStamped_ok.1
    rfl (by rw [macdDemoQ_look]; exact retainsFilled_of_B 2 120 360 _ 0 _ (by decide +kernel))

/-- … and on `{timeframe 120 s, HA, lifespan 360 s}` next to `{timeframe 120 s, HA}` -/
example : ∃ snap d, candlesOf (runIndicator
      (mkTop (.macd ((2 : Nat) : Int) ((3 : Nat) : Int) ((2 : Nat) : Int) "close" : Kind ℚ) "MACD_2_3_2" 4)
      (cfgTfHALife 120 360) (haStamped.take 3) [[haStamped.getD 3 default], [], [haStamped.getD 4 default]])
        = .ok (snap.drop d) ∧
    candlesOf (runIndicator
      (mkTop (.macd ((2 : Nat) : Int) ((3 : Nat) : Int) ((2 : Nat) : Int) "close" : Kind ℚ) "MACD_2_3_2" 4)
      (cfgTfHA 120) (haStamped.take 3) [[haStamped.getD 3 default], [], [haStamped.getD 4 default]]) = .ok snap :=
  (macd_lifeTotalMgr (TwinMgr.matches_tfHA 120 (by decide)) "MACD_2_3_2" 4 2 3 2 "close" (·.c) (by norm_num)
    (by norm_num) (by norm_num) macdNames_demo ⟨noDot_close, by decide⟩ (fun _ => rfl)).tfHA 360 _ _ haStamped_ok
    rfl (by rw [macdDemoQ_look]; exact haStamped_retainsBuckets2)

end Hex.Numeric

#print axioms Hex.Numeric.atr_lifeTotalMgr
#print axioms Hex.Numeric.macd_lifeTotalMgr
#print axioms Hex.Numeric.adx_lifeTotalMgr
#print axioms Hex.Numeric.hma_lifeTotalMgr
#print axioms Hex.Numeric.sma_lifeTotalMgr
#print axioms Hex.Numeric.aroon_lifeTotalMgr
#print axioms Hex.counter_lifeTotalMgr

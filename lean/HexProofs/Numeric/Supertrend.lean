import HexProofs.Numeric.Composite
/-!
# Supertrend: bands, ratchet, direction
-/
set_option linter.unusedSectionVars false
set_option linter.unusedSimpArgs false
namespace Hex
variable {K : Type} [Field K] [LinearOrder K] [IsStrictOrderedRing K] [LawfulPyF K]
namespace Numeric

/-- new direction: when the close is beyond BOTH previous bands (they have crossed) the break of the
active band decides – down out of an up-trend, up out of a down-trend; else up when the close breaks
the previous upper band, down when it breaks the previous lower band, otherwise unchanged -/
def stDir (close pu pl : K) (pd : Int) : Int :=
  if pu < close ∧ close < pl then (if pd = 1 then -1 else 1)
  else if pu < close then 1 else if close < pl then -1 else pd

/-- lower band: ratchets up (never below the previous lower band) while the trend stays up -/
def stLower (close pu pl : K) (pd : Int) (lower : K) : K :=
  if pu < close then lower else if close < pl then lower
  else if pd = 1 ∧ lower < pl then pl else lower

/-- upper band: ratchets down while the trend stays down -/
def stUpper (close pu pl : K) (pd : Int) (upper : K) : K :=
  if pu < close then upper else if close < pl then upper
  else if pd = -1 ∧ pu < upper then pu else upper

/-- the reading assembled from direction and bands -/
def stDict (D : Int) (U L : Num K) : Val K :=
  .dict [("trend", .num (if D = 1 then L else U)), ("direction", .num (.int D)),
         ("long", if D = 1 then .num L else .none), ("short", if D = -1 then .num U else .none)]

/-- first Supertrend candle with an ATR: plain bands, direction up -/
theorem supertrend_first (ops : Ops K) (x : Ctx K) (mult a hl : Num K) (w : Val K → List (Candle K))
    (ha : x.reading (x.name ++ "_atr") = .ok (.num a))
    (hhl : x.reading (x.name ++ "_HL") = .ok (.num hl))
    (hpl : x.prevReading (x.name ++ "_data.lower") = .ok .none)
    (hset : ∀ v, ops.setManaged "ST_data" v x.cs = .ok (w v)) :
    Calc.supertrend ops x mult =
      .ok (stDict 1 (hl.add (mult.mul a)) (hl.sub (mult.mul a)),
           w (sdict [("upper", sc (hl.add (mult.mul a))), ("lower", sc (hl.sub (mult.mul a)))])) := by
  simp [Calc.supertrend, ha, Ctx.num_of hhl, Ctx.prevExists_of hpl, hset, stDict, Num.eq, sdict, sc]

theorem supertrend_none (ops : Ops K) (x : Ctx K) (mult : Num K)
    (ha : x.reading (x.name ++ "_atr") = .ok .none) :
    Calc.supertrend ops x mult =
      .ok (.dict [("trend", .none), ("direction", .num (.int 1)), ("long", .none), ("short", .none)], x.cs) := by
  simp [Calc.supertrend, ha, sdict, sc]

/-- Supertrend step: bands `HL2 ± multiplier·ATR`, ratcheted against the previous bands in the
trend direction; direction flips when the close breaks the previous band. -/
theorem supertrend_step (ops : Ops K) (x : Ctx K) (mult a hl close pu pl : Num K) (pd : Int)
    (w : Val K → List (Candle K))
    (ha : x.reading (x.name ++ "_atr") = .ok (.num a))
    (hhl : x.reading (x.name ++ "_HL") = .ok (.num hl))
    (hc : x.reading "close" = .ok (.num close))
    (hpl : x.prevReading (x.name ++ "_data.lower") = .ok (.num pl))
    (hpu : x.prevReading (x.name ++ "_data.upper") = .ok (.num pu))
    (hpd : x.prevReading (x.name ++ ".direction") = .ok (.int pd))
    (hd : pd = 1 ∨ pd = -1)
    (hset : ∀ v, ops.setManaged "ST_data" v x.cs = .ok (w v)) :
    ∃ U L : Num K,
      U.toF = stUpper close.toF pu.toF pl.toF pd (hl.toF + mult.toF * a.toF) ∧
      L.toF = stLower close.toF pu.toF pl.toF pd (hl.toF - mult.toF * a.toF) ∧
      Calc.supertrend ops x mult =
        .ok (stDict (stDir close.toF pu.toF pl.toF pd) U L, w (sdict [("upper", sc U), ("lower", sc L)])) := by
  have hone : (Val.int pd : Val K).isIntOne = decide (pd = 1) := by
    rcases hd with rfl | rfl <;> simp [Val.isIntOne, Num.eq]
  by_cases h1 : pu.toF < close.toF
  · have e1 : close.gt pu = true := (Num.gt_iff _ _).2 h1
    by_cases h2 : close.toF < pl.toF
    · have e2 : close.lt pl = true := (Num.lt_iff _ _).2 h2
      refine ⟨hl.add (mult.mul a), hl.sub (mult.mul a), by simp [stUpper, h1], by simp [stLower, h1], ?_⟩
      rcases hd with rfl | rfl <;>
        simp [Calc.supertrend, ha, Ctx.num_of hhl, Ctx.prevExists_of hpl, Ctx.num_of hc, Ctx.prevNum_of hpu,
          Ctx.prevNum_of hpl, hpd, hone, e1, e2, hset, stDict, stDir, h1, h2, Num.eq, sdict, sc]
    · have e2 : close.lt pl = false := (Num.lt_false_iff _ _).2 (not_lt.1 h2)
      refine ⟨hl.add (mult.mul a), hl.sub (mult.mul a), by simp [stUpper, h1], by simp [stLower, h1], ?_⟩
      simp [Calc.supertrend, ha, Ctx.num_of hhl, Ctx.prevExists_of hpl, Ctx.num_of hc, Ctx.prevNum_of hpu,
        Ctx.prevNum_of hpl, hpd, e1, e2, hset, stDict, stDir, h1, h2, Num.eq, sdict, sc]
  · have e1 : close.gt pu = false := (Num.gt_false_iff _ _).2 (not_lt.1 h1)
    by_cases h2 : close.toF < pl.toF
    · have e2 : close.lt pl = true := (Num.lt_iff _ _).2 h2
      refine ⟨hl.add (mult.mul a), hl.sub (mult.mul a), by simp [stUpper, h1, h2], by simp [stLower, h1, h2], ?_⟩
      simp [Calc.supertrend, ha, Ctx.num_of hhl, Ctx.prevExists_of hpl, Ctx.num_of hc, Ctx.prevNum_of hpu,
        Ctx.prevNum_of hpl, hpd, e1, e2, hset, stDict, stDir, h1, h2, Num.eq, sdict, sc]
    · have e2 : close.lt pl = false := (Num.lt_false_iff _ _).2 (not_lt.1 h2)
      rcases hd with rfl | rfl
      · by_cases h3 : hl.toF - mult.toF * a.toF < pl.toF
        · have e3 : (hl.sub (mult.mul a)).lt pl = true := by rw [Num.lt_iff]; simpa using h3
          refine ⟨hl.add (mult.mul a), pl, by simp [stUpper, h1, h2], by simp [stLower, h1, h2, h3], ?_⟩
          simp [Calc.supertrend, ha, Ctx.num_of hhl, Ctx.prevExists_of hpl, Ctx.num_of hc, Ctx.prevNum_of hpu,
            Ctx.prevNum_of hpl, Ctx.prevNum_of hpd, hpd, e1, e2, e3, hset, stDict, stDir, h1, h2, Num.eq, sdict, sc]
        · have e3 : (hl.sub (mult.mul a)).lt pl = false := by rw [Num.lt_false_iff]; simpa using not_lt.1 h3
          refine ⟨hl.add (mult.mul a), hl.sub (mult.mul a), by simp [stUpper, h1, h2], by simp [stLower, h1, h2, h3], ?_⟩
          simp [Calc.supertrend, ha, Ctx.num_of hhl, Ctx.prevExists_of hpl, Ctx.num_of hc, Ctx.prevNum_of hpu,
            Ctx.prevNum_of hpl, Ctx.prevNum_of hpd, hpd, e1, e2, e3, hset, stDict, stDir, h1, h2, Num.eq, sdict, sc]
      · by_cases h3 : pu.toF < hl.toF + mult.toF * a.toF
        · have e3 : (hl.add (mult.mul a)).gt pu = true := by rw [Num.gt_iff]; simpa using h3
          refine ⟨pu, hl.sub (mult.mul a), by simp [stUpper, h1, h2, h3], by simp [stLower, h1, h2], ?_⟩
          simp [Calc.supertrend, ha, Ctx.num_of hhl, Ctx.prevExists_of hpl, Ctx.num_of hc, Ctx.prevNum_of hpu,
            Ctx.prevNum_of hpl, Ctx.prevNum_of hpd, hpd, e1, e2, e3, hset, stDict, stDir, h1, h2, Num.eq, sdict, sc]
        · have e3 : (hl.add (mult.mul a)).gt pu = false := by rw [Num.gt_false_iff]; simpa using not_lt.1 h3
          refine ⟨hl.add (mult.mul a), hl.sub (mult.mul a), by simp [stUpper, h1, h2, h3], by simp [stLower, h1, h2], ?_⟩
          simp [Calc.supertrend, ha, Ctx.num_of hhl, Ctx.prevExists_of hpl, Ctx.num_of hc, Ctx.prevNum_of hpu,
            Ctx.prevNum_of hpl, Ctx.prevNum_of hpd, hpd, e1, e2, e3, hset, stDict, stDir, h1, h2, Num.eq, sdict, sc]

/-- direction stays in {1, −1} -/
theorem stDir_pm (close pu pl : K) (pd : Int) (hd : pd = 1 ∨ pd = -1) :
    stDir close pu pl pd = 1 ∨ stDir close pu pl pd = -1 := by
  unfold stDir; split_ifs <;> simp [hd]

/-- **the close breaking the ACTIVE band flips the trend**, whatever the idle band is (the stored bands
may have crossed): out of an up-trend when the close is below the previous lower band … -/
theorem stDir_flip_down (close pu pl : K) (h : close < pl) : stDir close pu pl 1 = -1 := by
  unfold stDir
  by_cases h1 : pu < close <;> simp [h, h1]

/-- … and out of a down-trend when it is above the previous upper band -/
theorem stDir_flip_up (close pu pl : K) (h : pu < close) : stDir close pu pl (-1) = 1 := by
  unfold stDir
  by_cases h2 : close < pl <;> simp [h, h2]

/-- while the close stays on the trend's side of the active band the direction is kept -/
theorem stDir_keep_up (close pu pl : K) (h : ¬ close < pl) : stDir close pu pl 1 = 1 := by
  unfold stDir
  by_cases h1 : pu < close <;> simp [h, h1]

theorem stDir_keep_down (close pu pl : K) (h : ¬ pu < close) : stDir close pu pl (-1) = -1 := by
  unfold stDir
  by_cases h2 : close < pl <;> simp [h, h2]

/-- exactly one of long / short is set, and it equals the trend -/
theorem stDict_fields (D : Int) (U L : Num K) (hD : D = 1 ∨ D = -1) :
    (D = 1 ∧ stDict D U L = .dict [("trend", .num L), ("direction", .num (.int 1)), ("long", .num L), ("short", .none)])
    ∨ (D = -1 ∧ stDict D U L = .dict [("trend", .num U), ("direction", .num (.int (-1))), ("long", .none), ("short", .num U)]) := by
  rcases hD with rfl | rfl
  · left; exact ⟨rfl, by simp [stDict]⟩
  · right; exact ⟨rfl, by simp [stDict]⟩

/-- the lower band never drops while the trend continues upwards -/
theorem stLower_ratchet (close pu pl lower : K) (h1 : ¬ pu < close) (h2 : ¬ close < pl) :
    pl ≤ stLower close pu pl 1 lower := by
  unfold stLower
  simp only [h1, h2, if_false, true_and]
  split_ifs with h
  · exact le_refl _
  · exact not_lt.1 h

/-- the upper band never rises while the trend continues downwards -/
theorem stUpper_ratchet (close pu pl upper : K) (h1 : ¬ pu < close) (h2 : ¬ close < pl) :
    stUpper close pu pl (-1) upper ≤ pu := by
  unfold stUpper
  simp only [h1, h2, if_false, true_and]
  split_ifs with h
  · exact le_refl _
  · exact not_lt.1 h

end Numeric
end Hex

import HexProofs.Numeric.RangesMore
/-!
# The whole-series (definitional) statements on EVERY manager (properties C04 / C05 / C06)

`HexProps/C04.lean`, `C05.lean`, `C06.lean` prove, for every kind, that every stored reading of the indicator and of
its helper series IS the textbook series within an explicit rounding budget, with the true warm-up indices – on every
RAW stream, through the engine, the batch run and every append schedule of the BASE manager; all three list "the
numeric statement on a collapsing timeframe" as open (only `rsi_series_tf` existed).

This file provides the generic lift, `HexProofs/Numeric/SeriesOnManagersC04.lean`, `…C05.lean`, `…C06.lean` the
instances for every kind:

* `series_on_manager` – the ONE generic lemma: for a covered kind (`CoveredTreeX`: all 27 shipped classes), a
  per-candle statement `P raw j c` that the ENGINE run `engineCalc ind raw` satisfies on every raw-shaped list holds
  on every manager `M : MgrSpec F` (`HoldsOn M ind P` of RangesMore.lean): every history (construction over any
  initial part, `calculate()`, any append schedule) over a stream the manager accepts RETURNS, with one candle per
  candle of `M.spec stream` – the collapsed / gap-filled / Heikin-Ashi-converted candles the manager makes of the
  whole stream –, candle `j` satisfying `P (M.spec stream) j`.  `TreeSpec.holdsOn` (RangesMore) is the same from the
  row-major run of a given `TreeSpec`; `TreeSpec.engine_iff` connects the two.
* `runs_on_manager` / `TreeSpec.runsAs` – the equational form, for the kinds whose run is an explicit function `f` of
  the raw candles (`hmaDeco`, `macdOut`, `stochDeco`, `tsiOut`, `adxOut`):
  `candlesOf (runIndicator ind M.cfg init chunks) = .ok (f (M.spec (init ++ chunks.flatten)))`  (`RunsAs M ind f`).
* `leaf_series_on_manager` – the leaf instance: from a `…_series` theorem in `deco` form to `HoldsOn M … (OwnIs nm Q)`
  (candle `j` is candle `j` of the manager's list carrying under `nm` a reading with `Q spec j`).
* `HoldsOn.on_base / on_tf / on_fill / on_ha / on_tfHA / on_fillHA` – `HoldsOn` spelled out on the six
  configurations (configuration literal, domain of streams, the candle list the series is computed over).
* `HoldsOnWhen M ind D P` / `TreeSpec.holdsOnWhen` – the same for a kind that is total only on a domain `D` of
  candle lists (ROC: the reference price must not be `0`, otherwise the library raises `ZeroDivisionError`): the
  history returns when `D` holds of the manager's candles after construction and after every append.
-/
set_option linter.unusedSectionVars false
set_option linter.unusedVariables false
namespace Hex
open Hex.Numeric

section generic
variable {F : Type} [PyF F] {ind : Ind F}

/-! ### engine run = row-major run, on raw-shaped candles -/

/-- on raw-shaped candles the engine's `calculate()` returns iff the row-major run of the tree's spec does, with the
same candles -/
theorem TreeSpec.engine_iff (T : TreeSpec ind) (raw : List (Candle F)) (hraw : ∀ c ∈ raw, Plain c)
    (out : List (Candle F)) : engineCalc ind raw = .ok out ↔ Gen.rowMajor T.S raw = .ok out := by
  have h := T.engine [] raw [] out rfl (by simp) hraw
  simpa using h

/-- a per-candle predicate of the ENGINE run on raw-shaped candles holds on every manager -/
theorem TreeSpec.holdsOn_of_engine (T : TreeSpec ind) (P : List (Candle F) → Nat → Candle F → Prop)
    (h : ∀ raw : List (Candle F), (∀ c ∈ raw, Plain c) → ∃ out, engineCalc ind raw = .ok out ∧
      out.length = raw.length ∧ ∀ j, j < raw.length → P raw j (out.getD j default)) (M : MgrSpec F) :
    HoldsOn M ind P :=
  T.holdsOn P (fun raw hraw => by
    obtain ⟨out, h1, h2, h3⟩ := h raw hraw
    exact ⟨out, (T.engine_iff raw hraw out).1 h1, h2, h3⟩) M

/-- **The generic lift.**  For every covered kind (every shipped indicator class with admissible parameters and
names), a per-candle statement about the engine run on raw-shaped candle lists – the form of the `…_series_engine` /
`…_engine_readings` theorems – holds on EVERY manager, relative to the manager's candles `M.spec stream`. -/
theorem series_on_manager {k : Kind F} {nm : String} (hc : CoveredTreeX nm k) (n : Nat)
    (P : List (Candle F) → Nat → Candle F → Prop)
    (h : ∀ raw : List (Candle F), (∀ c ∈ raw, Plain c) → ∃ out, engineCalc (mkTop k nm n) raw = .ok out ∧
      out.length = raw.length ∧ ∀ j, j < raw.length → P raw j (out.getD j default)) (M : MgrSpec F) :
    HoldsOn M (mkTop k nm n) P := by
  obtain ⟨T, _⟩ := hc.spec n
  exact T.holdsOn_of_engine P h M

/-! ### every candle of a run is the manager's candle with readings added -/

theorem Dressed.getD_bare {raw out : List (Candle F)} (h : Dressed raw out) :
    ∀ j, j < raw.length → (out.getD j default).bare = (raw.getD j default).bare := by
  unfold Dressed at h
  induction h with
  | nil => intro j hj; simp at hj
  | cons hab _ ih =>
    intro j hj
    cases j with
    | zero => simpa using hab
    | succ j =>
      have := ih j (by simpa using hj)
      simpa using this

/-- candle `c` is candle `j` of the manager's list `spec` (same bare candle: only readings were added) and
satisfies `P spec j` -/
def SameCandle (P : List (Candle F) → Nat → Candle F → Prop) (spec : List (Candle F)) (j : Nat) (c : Candle F) :
    Prop :=
  c.bare = (spec.getD j default).bare ∧ P spec j c

/-- `TreeSpec.holdsOn` with the clause "candle `j` of the history is candle `j` of the manager's list" added -/
theorem TreeSpec.holdsOn_same (T : TreeSpec ind) (P : List (Candle F) → Nat → Candle F → Prop)
    (h : ∀ raw : List (Candle F), (∀ c ∈ raw, Plain c) → ∃ out, Gen.rowMajor T.S raw = .ok out ∧
      out.length = raw.length ∧ ∀ j, j < raw.length → P raw j (out.getD j default)) (M : MgrSpec F) :
    HoldsOn M ind (SameCandle P) :=
  T.holdsOn _ (fun raw hraw => by
    obtain ⟨out, h1, h2, h3⟩ := h raw hraw
    exact ⟨out, h1, h2, fun j hj =>
      ⟨(Gen.rowMajor_shape T.law raw out hraw h1).1.dressed.getD_bare j hj, h3 j hj⟩⟩) M

/-! ### the equational form -/

/-- **the run on manager `M` is `f` of the manager's candles**: every history over a stream the manager accepts
returns EXACTLY `f (M.spec stream)` -/
def RunsAs (M : MgrSpec F) (ind : Ind F) (f : List (Candle F) → List (Candle F)) : Prop :=
  ∀ (init : List (Candle F)) (chunks : List (List (Candle F))), M.Ok (init ++ chunks.flatten) →
    candlesOf (runIndicator ind M.cfg init chunks) = .ok (f (M.spec (init ++ chunks.flatten)))

theorem TreeSpec.runsAs (T : TreeSpec ind) (f : List (Candle F) → List (Candle F))
    (h : ∀ raw : List (Candle F), (∀ c ∈ raw, Plain c) → Gen.rowMajor T.S raw = .ok (f raw)) (M : MgrSpec F) :
    RunsAs M ind f := by
  intro init chunks hok
  obtain ⟨hN, hA⟩ := T.total_of (fun raw out => out = f raw) (fun raw hraw => ⟨_, h raw hraw, rfl⟩) M
  obtain ⟨snap, hs⟩ := hN init chunks hok
  rw [hs, hA init chunks hok snap hs]

/-- … from the engine run -/
theorem runs_on_manager {k : Kind F} {nm : String} (hc : CoveredTreeX nm k) (n : Nat)
    (f : List (Candle F) → List (Candle F))
    (h : ∀ raw : List (Candle F), (∀ c ∈ raw, Plain c) → engineCalc (mkTop k nm n) raw = .ok (f raw))
    (M : MgrSpec F) : RunsAs M (mkTop k nm n) f := by
  obtain ⟨T, _⟩ := hc.spec n
  exact T.runsAs f (fun raw hraw => (T.engine_iff raw hraw _).1 (h raw hraw)) M

/-- an equation gives every per-candle predicate of its right-hand side -/
theorem RunsAs.holdsOn {M : MgrSpec F} {f : List (Candle F) → List (Candle F)} (h : RunsAs M ind f)
    (P : List (Candle F) → Nat → Candle F → Prop)
    (hP : ∀ raw : List (Candle F), (∀ c ∈ raw, Plain c) → (f raw).length = raw.length ∧
      ∀ j, j < raw.length → P raw j ((f raw).getD j default)) : HoldsOn M ind P :=
  ⟨fun init chunks hok => ⟨_, h init chunks hok⟩, fun init chunks hok snap hs => by
    rw [h init chunks hok] at hs
    cases hs
    exact hP _ (M.spec_plain _ hok)⟩

/-! ### `HoldsOn`, spelled out on the six configurations -/

variable {P : List (Candle F) → Nat → Candle F → Prop}

/-- `HoldsOn` for one history, as `EveryCandle` -/
theorem HoldsOn.run' {M : MgrSpec F} (h : HoldsOn M ind P) (init : List (Candle F))
    (chunks : List (List (Candle F))) (hok : M.Ok (init ++ chunks.flatten)) :
    ∃ snap, candlesOf (runIndicator ind M.cfg init chunks) = .ok snap ∧
      EveryCandle P (M.spec (init ++ chunks.flatten)) snap := by
  obtain ⟨snap, hs⟩ := h.1 init chunks hok
  exact ⟨snap, hs, h.2 init chunks hok snap hs⟩

/-- base timeframe: the series over the stream itself -/
theorem HoldsOn.on_base (h : HoldsOn (MgrSpec.base F) ind P) (init : List (Candle F))
    (chunks : List (List (Candle F))) (hraw : ∀ c ∈ init ++ chunks.flatten, Plain c) :
    ∃ snap, candlesOf (runIndicator ind {} init chunks) = .ok snap ∧
      EveryCandle P (init ++ chunks.flatten) snap := h.run' init chunks hraw

/-- **collapsing timeframe**: the series over the COLLAPSED candles `resample tf stream` -/
theorem HoldsOn.on_tf (tf : Int) (htf : 0 < tf) (h : HoldsOn (MgrSpec.tf F tf htf) ind P) (init : List (Candle F))
    (chunks : List (List (Candle F))) (hraw : RawTf (init ++ chunks.flatten)) :
    ∃ snap, candlesOf (runIndicator ind { tf := some tf } init chunks) = .ok snap ∧
      EveryCandle P (resample tf (init ++ chunks.flatten)) snap := h.run' init chunks hraw

/-- timeframe + gap filling: the series over the filled buckets `fillSpec tf stream` -/
theorem HoldsOn.on_fill (tf : Int) (htf : 0 < tf) (h : HoldsOn (MgrSpec.fill F tf htf) ind P)
    (init : List (Candle F)) (chunks : List (List (Candle F))) (hraw : RawTf (init ++ chunks.flatten)) :
    ∃ snap, candlesOf (runIndicator ind { tf := some tf, fill := true } init chunks) = .ok snap ∧
      EveryCandle P (fillSpec tf (init ++ chunks.flatten)) snap := h.run' init chunks hraw

/-- base timeframe + Heikin-Ashi: the series over the converted candles `haSpec stream` -/
theorem HoldsOn.on_ha (h : HoldsOn (MgrSpec.ha F) ind P) (init : List (Candle F))
    (chunks : List (List (Candle F))) (hraw : ∀ c ∈ init ++ chunks.flatten, Plain c ∧ c.tag = false) :
    ∃ snap, candlesOf (runIndicator ind { ha := true } init chunks) = .ok snap ∧
      EveryCandle P (haSpec (init ++ chunks.flatten)) snap := h.run' init chunks hraw

/-- timeframe + Heikin-Ashi: the series over the converted collapsed candles -/
theorem HoldsOn.on_tfHA (tf : Int) (htf : 0 < tf) (h : HoldsOn (MgrSpec.tfHA F tf htf) ind P)
    (init : List (Candle F)) (chunks : List (List (Candle F)))
    (hraw : RawTf (init ++ chunks.flatten) ∧ ∀ c ∈ init ++ chunks.flatten, c.tag = false) :
    ∃ snap, candlesOf (runIndicator ind { tf := some tf, ha := true } init chunks) = .ok snap ∧
      EveryCandle P (haSpec (resample tf (init ++ chunks.flatten))) snap := h.run' init chunks hraw

/-- **timeframe + gap filling + Heikin-Ashi**: the series over the converted filled buckets -/
theorem HoldsOn.on_fillHA (tf : Int) (htf : 0 < tf) (h : HoldsOn (MgrSpec.fillHA F tf htf) ind P)
    (init : List (Candle F)) (chunks : List (List (Candle F)))
    (hraw : RawTf (init ++ chunks.flatten) ∧ ∀ c ∈ init ++ chunks.flatten, c.tag = false) :
    ∃ snap, candlesOf (runIndicator ind { tf := some tf, fill := true, ha := true } init chunks) = .ok snap ∧
      EveryCandle P (haSpec (fillSpec tf (init ++ chunks.flatten))) snap := h.run' init chunks hraw

/-- `RunsAs` on a collapsing timeframe -/
theorem RunsAs.on_tf {f : List (Candle F) → List (Candle F)} (tf : Int) (htf : 0 < tf)
    (h : RunsAs (MgrSpec.tf F tf htf) ind f) (init : List (Candle F)) (chunks : List (List (Candle F)))
    (hraw : RawTf (init ++ chunks.flatten)) :
    candlesOf (runIndicator ind { tf := some tf } init chunks) = .ok (f (resample tf (init ++ chunks.flatten))) :=
  h init chunks hraw

/-- `RunsAs` on timeframe + gap filling + Heikin-Ashi -/
theorem RunsAs.on_fillHA {f : List (Candle F) → List (Candle F)} (tf : Int) (htf : 0 < tf)
    (h : RunsAs (MgrSpec.fillHA F tf htf) ind f) (init : List (Candle F)) (chunks : List (List (Candle F)))
    (hraw : RawTf (init ++ chunks.flatten) ∧ ∀ c ∈ init ++ chunks.flatten, c.tag = false) :
    candlesOf (runIndicator ind { tf := some tf, fill := true, ha := true } init chunks)
      = .ok (f (haSpec (fillSpec tf (init ++ chunks.flatten)))) :=
  h init chunks hraw

/-! ### leaf kinds: from the `deco` form of a `…_series` theorem -/

/-- candle `c` is candle `j` of the manager's list `spec` (same bare candle) carrying under the name `nm` a
reading `v` with `Q spec j v` -/
def OwnIs (nm : String) (Q : List (Candle F) → Nat → Val F → Prop) (spec : List (Candle F)) (j : Nat)
    (c : Candle F) : Prop :=
  c.bare = (spec.getD j default).bare ∧ Q spec j (readingByCandle c nm)

theorem deco_getD (nm : String) (raw : List (Candle F)) (vs : List (Val F)) (hl : vs.length = raw.length)
    (j : Nat) (hj : j < raw.length) :
    (deco nm raw vs).getD j default = setKey false nm (vs.getD j .none) (raw.getD j default) := by
  rw [List.getD_eq_getElem?_getD, deco_getElem? nm raw vs j hl hj]; rfl

/-- **leaf kinds.**  A `…_series` theorem of a covered leaf kind in `deco` form – for every raw-shaped list the
row-major run returns the candles decorated with readings `vs`, `Q raw j (vs[j])` – holds on every manager: candle
`j` of every history is candle `j` of the manager's list with a reading satisfying `Q (M.spec stream) j`. -/
theorem leaf_series_on_manager (k : Kind F) (nm : String) (n : Nat) (hc : Covered nm k) (hk : IsKey nm)
    (Q : List (Candle F) → Nat → Val F → Prop)
    (h : ∀ raw : List (Candle F), (∀ c ∈ raw, Plain c) → ∃ vs : List (Val F), vs.length = raw.length ∧
      rowMajor (mkTop k nm n) raw = .ok (deco nm raw vs) ∧ ∀ j, j < raw.length → Q raw j (vs.getD j .none))
    (M : MgrSpec F) : HoldsOn M (mkTop k nm n) (OwnIs nm Q) :=
  leaf_holdsOn k nm n hc _ (fun raw hraw => by
    obtain ⟨vs, hl, hrun, hall⟩ := h raw hraw
    refine ⟨_, hrun, deco_length nm raw vs hl, fun j hj => ⟨?_, ?_⟩⟩
    · rw [deco_getD nm raw vs hl j hj, bare_setKey]
    · rw [own_deco nm hk raw vs hl j hj]; exact hall j hj) M

/-! ### kinds that are total only on a domain of candle lists (ROC) -/

/-- **the invariant `P` holds on manager `M` whenever the manager's candles stay in the domain `D`**: for every
history over a stream the manager accepts such that `D` holds of the manager's candles after construction and
after each append (`k` appends done: `M.spec (init ++ (chunks.take k).flatten)`), the history returns with one
candle per manager candle, candle `j` satisfying `P (M.spec stream) j` -/
def HoldsOnWhen (M : MgrSpec F) (ind : Ind F) (D : List (Candle F) → Prop)
    (P : List (Candle F) → Nat → Candle F → Prop) : Prop :=
  ∀ (init : List (Candle F)) (chunks : List (List (Candle F))), M.Ok (init ++ chunks.flatten) →
    (∀ k, k ≤ chunks.length → D (M.spec (init ++ (chunks.take k).flatten))) →
    ∃ snap, candlesOf (runIndicator ind M.cfg init chunks) = .ok snap ∧
      EveryCandle P (M.spec (init ++ chunks.flatten)) snap

/-- `TreeSpec.appends_total` (Total.lean) relative to a domain -/
theorem TreeSpec.appends_total_when (T : TreeSpec ind) (M : MgrSpec F) (D : List (Candle F) → Prop)
    (htot : ∀ raw : List (Candle F), (∀ c ∈ raw, Plain c) → D raw → ∃ out, Gen.rowMajor T.S raw = .ok out)
    (chunks : List (List (Candle F))) :
    ∀ (s done : List (Candle F)) (a : Int), Gen.rowMajor T.S (M.spec s) = .ok done →
      M.Ok (s ++ chunks.flatten) → (∀ k, k ≤ chunks.length → D (M.spec (s ++ (chunks.take k).flatten))) →
      ∃ snap, candlesOf (chunks.foldlM (fun (st : IndState F) ch => st.append ch)
          { tree := ind, mgr := { cfg := M.cfg, candles := done }, active := a }) = .ok snap := by
  induction chunks with
  | nil =>
    intro s done a h _ _
    exact ⟨done, by simp [candlesOf, List.foldlM_nil, pure, Except.pure, Except.map]⟩
  | cons ch rest ih =>
    intro s done a h hok hD
    have hok' : M.Ok ((s ++ ch) ++ rest.flatten) := by simpa [List.append_assoc] using hok
    have hsch : M.Ok (s ++ ch) := M.ok_left _ _ hok'
    have hplainS : ∀ c ∈ M.spec s, Plain c := M.spec_plain s (M.ok_left _ _ hsch)
    have hD1 : D (M.spec (s ++ ch)) := by simpa using hD 1 (by simp)
    have hD' : ∀ k, k ≤ rest.length → D (M.spec ((s ++ ch) ++ (rest.take k).flatten)) := by
      intro k hk
      have := hD (k + 1) (by simp; omega)
      simpa [List.append_assoc] using this
    simp only [List.foldlM_cons]
    have key : ∃ (raw₁ raw₂ d₁ : List (Candle F)), Gen.rowMajor T.S raw₁ = .ok d₁ ∧
        (∀ c ∈ raw₁, Plain c) ∧ (∀ c ∈ raw₂, Plain c) ∧ raw₁ ++ raw₂ = M.spec (s ++ ch) ∧
        IndState.append ({ tree := ind, mgr := { cfg := M.cfg, candles := done }, active := a } : IndState F) ch
          = IndState.calculate { tree := ind, mgr := { cfg := M.cfg, candles := d₁ ++ raw₂ }, active := a } := by
      by_cases hch : ch = []
      · subst hch
        refine ⟨M.spec s, [], done, h, hplainS, by simp, by simp, ?_⟩
        simp [IndState.append, Manager.append, bind, Except.bind]
      · obtain ⟨k, Q, hQ, _, ht, hres⟩ := M.append s ch done hsch hch
          (Gen.rowMajor_shape T.law _ done hplainS h).1.dressed
        refine ⟨(M.spec s).take k, Q, done.take k, Gen.rowMajor_take T.law _ done hplainS h k,
          fun c hc => hplainS c (List.mem_of_mem_take hc), hQ, hres.symm, ?_⟩
        have hne : ch.isEmpty = false := by cases ch <;> simp at hch ⊢
        simp only [IndState.append, Manager.append, hne, Bool.false_eq_true, if_false, ht, bind, Except.bind]
        rfl
    obtain ⟨raw₁, raw₂, d₁, hr₁, hp₁, hp₂, hsplit, happ⟩ := key
    rw [happ]
    obtain ⟨out, hout⟩ := htot (raw₁ ++ raw₂) (by rw [hsplit]; exact M.spec_plain _ hsch) (by rw [hsplit]; exact hD1)
    have he := (T.engine raw₁ raw₂ d₁ out hr₁ hp₁ hp₂).2 hout
    obtain ⟨s', hs', _⟩ := IndState.calculate_of_engine
      ({ tree := ind, mgr := { cfg := M.cfg, candles := d₁ ++ raw₂ }, active := a } : IndState F) out he
    obtain ⟨out', a', rfl, hr⟩ := T.calculate_ok M.cfg raw₁ raw₂ d₁ a hr₁ hp₁ hp₂ s' hs'
    rw [hsplit] at hr
    rw [hs']
    simp only [bind, Except.bind]
    exact ih (s ++ ch) out' a' hr hok' hD'

/-- **a per-candle predicate of the row-major run on a domain `D` holds on every manager whose candles stay in
`D`** -/
theorem TreeSpec.holdsOnWhen (T : TreeSpec ind) (D : List (Candle F) → Prop)
    (P : List (Candle F) → Nat → Candle F → Prop)
    (h : ∀ raw : List (Candle F), (∀ c ∈ raw, Plain c) → D raw → ∃ out, Gen.rowMajor T.S raw = .ok out ∧
      out.length = raw.length ∧ ∀ j, j < raw.length → P raw j (out.getD j default)) (M : MgrSpec F) :
    HoldsOnWhen M ind D P := by
  intro init chunks hok hD
  have htot : ∀ raw : List (Candle F), (∀ c ∈ raw, Plain c) → D raw → ∃ out, Gen.rowMajor T.S raw = .ok out :=
    fun raw hraw hd => (h raw hraw hd).imp fun _ hh => hh.1
  have hinit : M.Ok init := M.ok_left _ _ hok
  have hD0 : D (M.spec init) := by simpa using hD 0 (by omega)
  have hDall : D (M.spec (init ++ chunks.flatten)) := by simpa using hD chunks.length (le_refl _)
  have hret : ∃ snap, candlesOf (runIndicator ind M.cfg init chunks) = .ok snap := by
    unfold runIndicator IndState.init Manager.init
    rw [M.init init hinit]
    simp only [bind, Except.bind, pure, Except.pure]
    have h0 : Gen.rowMajor T.S ([] : List (Candle F)) = .ok [] := rfl
    obtain ⟨out, hout⟩ := htot (M.spec init) (M.spec_plain init hinit) hD0
    have he := (T.engine [] (M.spec init) [] out h0 (by simp) (M.spec_plain init hinit)).2 (by simpa using hout)
    obtain ⟨s', hs', _⟩ := IndState.calculate_of_engine
      ({ tree := ind, mgr := { cfg := M.cfg, candles := M.spec init } } : IndState F) out (by simpa using he)
    have hc' : IndState.calculate ({ tree := ind, mgr := { cfg := M.cfg, candles := [] ++ M.spec init }, active := 0 } : IndState F)
        = .ok s' := by simpa using hs'
    obtain ⟨out', a', rfl, hr⟩ := T.calculate_ok M.cfg [] (M.spec init) [] 0 h0 (by simp)
      (M.spec_plain init hinit) s' hc'
    simp only [List.nil_append] at hr
    rw [hs']
    exact T.appends_total_when M D htot chunks init out' a' hr hok hD
  obtain ⟨snap, hs⟩ := hret
  obtain ⟨out, hrun, hl, hall⟩ := h _ (M.spec_plain _ hok) hDall
  have h' := T.live_refines M init chunks hok snap hs
  rw [hrun] at h'
  cases h'
  exact ⟨_, hs, hl, hall⟩

/-- … for a covered leaf kind, in `deco` form -/
theorem leaf_series_on_manager_when (k : Kind F) (nm : String) (n : Nat) (hc : Covered nm k) (hk : IsKey nm)
    (D : List (Candle F) → Prop) (Q : List (Candle F) → Nat → Val F → Prop)
    (h : ∀ raw : List (Candle F), (∀ c ∈ raw, Plain c) → D raw → ∃ vs : List (Val F), vs.length = raw.length ∧
      rowMajor (mkTop k nm n) raw = .ok (deco nm raw vs) ∧ ∀ j, j < raw.length → Q raw j (vs.getD j .none))
    (M : MgrSpec F) : HoldsOnWhen M (mkTop k nm n) D (OwnIs nm Q) := by
  obtain ⟨C⟩ := hc.contract n
  exact (TreeSpec.ofLeaf _ (hc.isLeaf n) C).holdsOnWhen D _ (fun raw hraw hd => by
    obtain ⟨vs, hl, hrun, hall⟩ := h raw hraw hd
    refine ⟨_, hrun, deco_length nm raw vs hl, fun j hj => ⟨?_, ?_⟩⟩
    · rw [deco_getD nm raw vs hl j hj, bare_setKey]
    · rw [own_deco nm hk raw vs hl j hj]; exact hall j hj) M

/-- an unconditional invariant is a conditional one -/
theorem HoldsOn.when {M : MgrSpec F} (h : HoldsOn M ind P) (D : List (Candle F) → Prop) : HoldsOnWhen M ind D P :=
  fun init chunks hok _ => h.run' init chunks hok

/-- `HoldsOnWhen` on a collapsing timeframe, spelled out -/
theorem HoldsOnWhen.on_tf {D : List (Candle F) → Prop} (tf : Int) (htf : 0 < tf)
    (h : HoldsOnWhen (MgrSpec.tf F tf htf) ind D P) (init : List (Candle F)) (chunks : List (List (Candle F)))
    (hraw : RawTf (init ++ chunks.flatten))
    (hD : ∀ k, k ≤ chunks.length → D (resample tf (init ++ (chunks.take k).flatten))) :
    ∃ snap, candlesOf (runIndicator ind { tf := some tf } init chunks) = .ok snap ∧
      EveryCandle P (resample tf (init ++ chunks.flatten)) snap := h init chunks hraw hD

/-- `HoldsOnWhen` on timeframe + gap filling + Heikin-Ashi, spelled out -/
theorem HoldsOnWhen.on_fillHA {D : List (Candle F) → Prop} (tf : Int) (htf : 0 < tf)
    (h : HoldsOnWhen (MgrSpec.fillHA F tf htf) ind D P) (init : List (Candle F)) (chunks : List (List (Candle F)))
    (hraw : RawTf (init ++ chunks.flatten) ∧ ∀ c ∈ init ++ chunks.flatten, c.tag = false)
    (hD : ∀ k, k ≤ chunks.length → D (haSpec (fillSpec tf (init ++ (chunks.take k).flatten)))) :
    ∃ snap, candlesOf (runIndicator ind { tf := some tf, fill := true, ha := true } init chunks) = .ok snap ∧
      EveryCandle P (haSpec (fillSpec tf (init ++ chunks.flatten))) snap := h init chunks hraw hD

end generic
end Hex

#print axioms Hex.TreeSpec.engine_iff
#print axioms Hex.series_on_manager
#print axioms Hex.TreeSpec.holdsOn_same
#print axioms Hex.runs_on_manager
#print axioms Hex.TreeSpec.runsAs
#print axioms Hex.RunsAs.holdsOn
#print axioms Hex.leaf_series_on_manager
#print axioms Hex.HoldsOn.on_tf
#print axioms Hex.HoldsOn.on_fillHA
#print axioms Hex.TreeSpec.holdsOnWhen
#print axioms Hex.leaf_series_on_manager_when

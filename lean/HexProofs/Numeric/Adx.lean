import HexProofs.Numeric.Composite
/-!
# ADX: directional movement, DI lines and DX
-/
set_option linter.unusedSectionVars false
set_option linter.unusedSimpArgs false
namespace Hex
variable {K : Type} [Field K] [LinearOrder K] [IsStrictOrderedRing K] [LawfulPyF K]
namespace Numeric

/-- +DM / −DM of one candle -/
def dmPlus (up down : K) : K := if down < up ∧ 0 < up then up else 0
def dmMinus (up down : K) : K := if up < down ∧ 0 < down then down else 0
/-- `100/ATR`, `0` when ATR is 0 (guarded division) -/
def diMod (a : K) : K := if a = 0 then 0 else 100 / a
/-- `DX = 100·|+DI − −DI| / (+DI + −DI)`, `0` when the sum is 0 (guarded division) -/
def dxOf (plus minus : K) : K := if plus + minus = 0 then 0 else 100 * |plus - minus| / (plus + minus)

theorem dmPlus_nonneg (u d : K) : 0 ≤ dmPlus u d := by unfold dmPlus; split_ifs with h <;> [exact h.2.le; exact le_refl _]
theorem dmMinus_nonneg (u d : K) : 0 ≤ dmMinus u d := by unfold dmMinus; split_ifs with h <;> [exact h.2.le; exact le_refl _]

/-- DX ∈ [0, 100] for non-negative DI lines -/
theorem dxOf_range (p m : K) (hp : 0 ≤ p) (hm : 0 ≤ m) : 0 ≤ dxOf p m ∧ dxOf p m ≤ 100 := by
  unfold dxOf
  by_cases h0 : p + m = 0
  · simp [h0]
  · have hpos : 0 < p + m := lt_of_le_of_ne (by linarith) (Ne.symm h0)
    simp only [h0, if_false]
    have habs : |p - m| ≤ p + m := by rw [abs_le]; constructor <;> linarith
    constructor
    · exact div_nonneg (mul_nonneg (by norm_num) (abs_nonneg _)) hpos.le
    · rw [div_le_iff₀ hpos]; nlinarith

theorem toF_dmPlus (up down : Num K) :
    (if up.gt down && up.gt (.int 0) then up else .int 0 : Num K).toF = dmPlus up.toF down.toF := by
  unfold dmPlus
  by_cases h1 : down.toF < up.toF <;> by_cases h2 : 0 < up.toF
  · have a : up.gt down = true := (Num.gt_iff _ _).2 h1
    have b : up.gt (.int 0) = true := by rw [Num.gt_iff]; simpa using h2
    simp [a, b, h1, h2]
  · have b : up.gt (.int 0) = false := by rw [Num.gt_false_iff]; simpa using not_lt.1 h2
    simp [b, h2]
  · have a : up.gt down = false := (Num.gt_false_iff _ _).2 (not_lt.1 h1)
    simp [a, h1]
  · have a : up.gt down = false := (Num.gt_false_iff _ _).2 (not_lt.1 h1)
    simp [a, h1]

theorem toF_dmMinus (up down : Num K) :
    (if down.gt up && down.gt (.int 0) then down else .int 0 : Num K).toF = dmMinus up.toF down.toF := by
  unfold dmMinus
  by_cases h1 : up.toF < down.toF <;> by_cases h2 : 0 < down.toF
  · have a : down.gt up = true := (Num.gt_iff _ _).2 h1
    have b : down.gt (.int 0) = true := by rw [Num.gt_iff]; simpa using h2
    simp [a, b, h1, h2]
  · have b : down.gt (.int 0) = false := by rw [Num.gt_false_iff]; simpa using not_lt.1 h2
    simp [b, h2]
  · have a : down.gt up = false := (Num.gt_false_iff _ _).2 (not_lt.1 h1)
    simp [a, h1]
  · have a : down.gt up = false := (Num.gt_false_iff _ _).2 (not_lt.1 h1)
    simp [a, h1]

/-- the number `100/atr` the code builds (guarded) -/
def modNum (a : Num K) : Num K := if a.toF = 0 then fl 0 else .flt ((Num.int 100 : Num K).toF / a.toF)
/-- the DX number the code builds (guarded) -/
def dxNum (plus minus : Num K) : Num K :=
  if (plus.add minus).toF = 0 then fl 0
  else .flt (((Num.int 100).mul (plus.sub minus).abs).toF / (plus.add minus).toF)

theorem toF_modNum (a : Num K) : (modNum a).toF = diMod a.toF := by
  unfold modNum diMod; split_ifs <;> simp

theorem toF_dxNum (plus minus : Num K) : (dxNum plus minus).toF = dxOf plus.toF minus.toF := by
  unfold dxNum dxOf
  by_cases h : plus.toF + minus.toF = 0
  · simp [h]
  · simp [h]

/-- the directional-movement numbers the code builds -/
def dmP (h ph l pl : Num K) : Num K :=
  if (h.sub ph).gt (pl.sub l) && (h.sub ph).gt (.int 0) then h.sub ph else .int 0
def dmN (h ph l pl : Num K) : Num K :=
  if (pl.sub l).gt (h.sub ph) && (pl.sub l).gt (.int 0) then pl.sub l else .int 0

theorem toF_dmP (h ph l pl : Num K) : (dmP h ph l pl).toF = dmPlus (h.toF - ph.toF) (pl.toF - l.toF) := by
  unfold dmP; rw [toF_dmPlus]; simp
theorem toF_dmN (h ph l pl : Num K) : (dmN h ph l pl).toF = dmMinus (h.toF - ph.toF) (pl.toF - l.toF) := by
  unfold dmN; rw [toF_dmMinus]; simp

/-- ADX: the directional movements are written, `+DI = mod·RMA(+DM)`, `−DI = mod·RMA(−DM)` with
`mod = 100/ATR` (0 for a zero ATR), `DX` is written and the ADX field is the RMA helper's reading.
Both divisions are guarded. -/
theorem adx_def (ops : Ops K) (x : Ctx K)
    (w : Val K → List (Candle K) → List (Candle K)) (cd : List (Candle K) → List (Candle K))
    (sd : List (Candle K) → Scalar K)
    (h ph l pl a pos neg : Num K) (hi : 0 < x.i)
    (hh : x.reading "high" = .ok (.num h)) (hph : x.reading "high" (some (x.i - 1)) = .ok (.num ph))
    (hl : x.reading "low" = .ok (.num l)) (hpl : x.reading "low" (some (x.i - 1)) = .ok (.num pl))
    (hset : ∀ v cs, ops.setManaged "ADX_data" v cs = .ok (w v cs))
    (hcalc : ∀ cs, ops.calcManaged "dx" cs = .ok (cd cs))
    (hatr : ∀ v, (Ctx.on x (w v x.cs)).reading (x.name ++ "_atr") = .ok (.num a))
    (hpos : ∀ v, (Ctx.on x (w v x.cs)).reading (x.name ++ "_pos") = .ok (.num pos))
    (hneg : ∀ v, (Ctx.on x (w v x.cs)).reading (x.name ++ "_neg") = .ok (.num neg))
    (hdx : ∀ v1 v2, (Ctx.on x (cd (w v2 (w v1 x.cs)))).reading (x.name ++ "_dx") = .ok (.s (sd (cd (w v2 (w v1 x.cs)))))) :
    Calc.adx ops x =
      (let P := dmP h ph l pl
       let N := dmN h ph l pl
       let plus := (modNum a).mul pos
       let minus := (modNum a).mul neg
       let cs' := cd (w (sdict [("pos", sc P), ("neg", sc N), ("dx", sc (dxNum plus minus))])
                       (w (sdict [("pos", sc P), ("neg", sc N)]) x.cs))
       .ok (.dict [("ADX", sd cs'), ("DM_Plus", .num plus), ("DM_Neg", .num minus)], cs')) := by
  have hgt : decide (x.i > 0) = true := by simpa using hi
  have ha := hatr (sdict [("pos", sc (dmP h ph l pl)), ("neg", sc (dmN h ph l pl))])
  have hp := hpos (sdict [("pos", sc (dmP h ph l pl)), ("neg", sc (dmN h ph l pl))])
  have hn := hneg (sdict [("pos", sc (dmP h ph l pl)), ("neg", sc (dmN h ph l pl))])
  simp only [Ctx.on] at ha hp hn hdx
  unfold Calc.adx
  simp only [hgt, Bool.not_true, Bool.false_eq_true, if_false, Ctx.num_of hh, Ctx.num_of hph, Ctx.num_of hl,
    Ctx.num_of hpl, Val.asNum_num, pym_bind_ok]
  change (do
    let cs ← ops.setManaged "ADX_data" (sdict [("pos", sc (dmP h ph l pl)), ("neg", sc (dmN h ph l pl))]) x.cs
    _) = _
  simp only [hset, pym_bind_ok, ha, hp, Val.isNone_num, Bool.or_self, Bool.false_eq_true, if_false, Ctx.num_of hn,
    Val.asNum_num]
  by_cases h0 : a.toF = 0
  · have e0 : a.eq (.int 0) = true := by rw [Num.eq_iff]; simpa using h0
    have em : modNum a = fl 0 := by simp [modNum, h0]
    simp only [e0, if_true, pym_pure, pym_bind_ok, em]
    by_cases h1 : (((fl 0 : Num K).mul pos).add ((fl 0 : Num K).mul neg)).toF = 0
    · have e1 : (((fl 0 : Num K).mul pos).add ((fl 0 : Num K).mul neg)).eq (.int 0) = true := by
        rw [Num.eq_iff]; simpa using h1
      have ed : dxNum ((fl 0 : Num K).mul pos) ((fl 0 : Num K).mul neg) = fl 0 := by simp only [dxNum, h1, if_true]
      simp only [e1, if_true, pym_bind_ok, hcalc, hdx, Val.toScalar, ed]
      rfl
    · have e1 : (((fl 0 : Num K).mul pos).add ((fl 0 : Num K).mul neg)).eq (.int 0) = false := by
        rw [Num.eq_false_iff]; simpa using h1
      have ed : dxNum ((fl 0 : Num K).mul pos) ((fl 0 : Num K).mul neg)
          = .flt (((Num.int 100).mul (((fl 0 : Num K).mul pos).sub ((fl 0 : Num K).mul neg)).abs).toF
                  / (((fl 0 : Num K).mul pos).add ((fl 0 : Num K).mul neg)).toF) := by
        simp only [dxNum, h1, if_false]
      simp only [e1, Bool.false_eq_true, if_false, Num.truediv_ok _ _ h1, pym_bind_ok, hcalc, hdx, Val.toScalar, ed]
      rfl
  · have e0 : a.eq (.int 0) = false := by rw [Num.eq_false_iff]; simpa using h0
    have em : modNum a = .flt ((Num.int 100 : Num K).toF / a.toF) := by simp only [modNum, h0, if_false]
    simp only [e0, Bool.false_eq_true, if_false, Num.truediv_ok _ _ h0, pym_pure, pym_bind_ok, em]
    generalize (Num.flt ((Num.int 100 : Num K).toF / a.toF)) = m
    by_cases h1 : ((m.mul pos).add (m.mul neg)).toF = 0
    · have e1 : ((m.mul pos).add (m.mul neg)).eq (.int 0) = true := by
        rw [Num.eq_iff]; simpa using h1
      have ed : dxNum (m.mul pos) (m.mul neg) = fl 0 := by simp only [dxNum, h1, if_true]
      simp only [e1, if_true, pym_bind_ok, hcalc, hdx, Val.toScalar, ed]
      rfl
    · have e1 : ((m.mul pos).add (m.mul neg)).eq (.int 0) = false := by
        rw [Num.eq_false_iff]; simpa using h1
      have ed : dxNum (m.mul pos) (m.mul neg)
          = .flt (((Num.int 100).mul ((m.mul pos).sub (m.mul neg)).abs).toF / ((m.mul pos).add (m.mul neg)).toF) := by
        simp only [dxNum, h1, if_false]
      simp only [e1, Bool.false_eq_true, if_false, Num.truediv_ok _ _ h1, pym_bind_ok, hcalc, hdx, Val.toScalar, ed]
      rfl

theorem adx_first (ops : Ops K) (x : Ctx K) (hi : ¬ 0 < x.i) :
    Calc.adx ops x = .ok (.dict [("ADX", .none), ("DM_Plus", .none), ("DM_Neg", .none)], x.cs) := by
  have hgt : decide (x.i > 0) = false := by simpa using hi
  simp [Calc.adx, hgt, sdict]

end Numeric
end Hex

import HexProofs.Numeric.SeriesInputs
import HexProofs.Numeric.SeriesStdevBB
/-!
# STDEV over candle lists with foreign readings and a late-starting input (`C05_inputs_FULL`)

The engine level: `node_induct` – the series induction THROUGH THE ENGINE for a node without
sub-indicators whose step stores a row `r` on the active candle (`out c r`): a data node such as STDEV
(own reading + `<name>_data` entry).  The list in the middle of the loop is `midW out cs rows m`.

The numeric level: `stdev_call_shift` (one `StandardDeviation._calculate_reading` call in the shifted
series: before `t0` it returns `None` and writes NOTHING, at `t0` it starts its running statistics from
zero, exactly as at index 0 of a raw list) and `c05_inputs_partial`.  `C05_inputs_FULL` as written is
FALSE (`c05_inputs_full_false`): same defect as `C04_FULL` – the first `t0` input readings may be
anything but a number; a `bool` is counted as a reading (and as `0/1`), a dict raises `TypeError`.
-/
set_option linter.unusedSectionVars false
set_option linter.unusedSimpArgs false
namespace Hex
namespace Numeric

section generic
variable {F : Type} [PyF F] {R : Type}

/-! ### the engine's list in the middle of the loop, rows of any type -/

def midW (out : Candle F → R → Candle F) (cs : List (Candle F)) (rows : List R) (m : Nat) : List (Candle F) :=
  decoWith out (cs.take m) rows ++ cs.drop m

section mid
variable (out : Candle F → R → Candle F) (dflt : R) (cs : List (Candle F)) (rows : List R) (m : Nat)

theorem midW_done_length (hm : m ≤ cs.length) (hr : rows.length = m) :
    (decoWith out (cs.take m) rows).length = m := by
  rw [decoWith_length _ _ _ (by rw [take_length_le cs m hm, hr]), take_length_le cs m hm]

theorem midW_length (hm : m ≤ cs.length) (hr : rows.length = m) : (midW out cs rows m).length = cs.length := by
  unfold midW
  rw [List.length_append, midW_done_length out cs rows m hm hr, List.length_drop]
  omega

theorem midW_split (hm : m < cs.length) :
    midW out cs rows m = decoWith out (cs.take m) rows ++ cs.getD m default :: cs.drop (m + 1) := by
  unfold midW
  congr 1
  rw [List.drop_eq_getElem_cons hm, List.getD_eq_getElem?_getD, List.getElem?_eq_getElem hm]
  rfl

theorem midW_lt (hm : m ≤ cs.length) (hr : rows.length = m) (j : Nat) (hj : j < m) :
    (midW out cs rows m)[j]? = some (out (cs.getD j default) (rows.getD j dflt)) := by
  unfold midW
  rw [List.getElem?_append_left (by rw [midW_done_length out cs rows m hm hr]; exact hj),
    decoWith_getElem? out (cs.take m) rows dflt j (by rw [take_length_le cs m hm, hr])
      (by rw [take_length_le cs m hm]; exact hj)]
  congr 2
  rw [List.getD_eq_getElem?_getD, List.getD_eq_getElem?_getD, List.getElem?_take_of_lt hj]

theorem midW_ge (hm : m ≤ cs.length) (hr : rows.length = m) (j : Nat) (hj : m ≤ j) (hjl : j < cs.length) :
    (midW out cs rows m)[j]? = some (cs.getD j default) := by
  unfold midW
  rw [List.getElem?_append_right (by rw [midW_done_length out cs rows m hm hr]; exact hj),
    midW_done_length out cs rows m hm hr, List.getElem?_drop]
  rw [show m + (j - m) = j by omega, List.getD_eq_getElem?_getD, List.getElem?_eq_getElem hjl]
  rfl

theorem midW_full : midW out cs rows cs.length = decoWith out cs rows := by
  unfold midW
  simp

theorem midW_succ (hm : m < cs.length) (hr : rows.length = m) (r : R) :
    decoWith out (cs.take m) rows ++ out (cs.getD m default) r :: cs.drop (m + 1)
      = midW out cs (rows ++ [r]) (m + 1) := by
  unfold midW
  have htake : cs.take (m + 1) = cs.take m ++ [cs.getD m default] := by
    rw [List.take_add_one]
    congr 1
    rw [List.getD_eq_getElem?_getD, List.getElem?_eq_getElem hm]
    rfl
  rw [htake, decoWith_append _ _ _ _ _ (by rw [take_length_le cs m (by omega), hr])]
  simp

/-! ### what a call on `midW` reads -/

theorem midW_reading_lt (hm : m < cs.length) (hr : rows.length = m) (nm name : String) (j : Nat) (hj : j < m) :
    ({ cs := midW out cs rows m, i := m, name := nm } : Ctx F).reading name (some (j : Int))
      = .ok (readingByCandle (out (cs.getD j default) (rows.getD j dflt)) name) := by
  unfold Ctx.reading
  simp only [Option.getD_some]
  rw [pyIndex_nonneg _ _ (by omega)]
  simp only [Int.toNat_natCast]
  rw [midW_lt out dflt cs rows m (by omega) hr j hj]
  rfl

theorem midW_reading_ge (hm : m < cs.length) (hr : rows.length = m) (nm name : String) (j : Nat)
    (hj : m ≤ j) (hjl : j < cs.length) :
    ({ cs := midW out cs rows m, i := m, name := nm } : Ctx F).reading name (some (j : Int))
      = .ok (readingByCandle (cs.getD j default) name) := by
  unfold Ctx.reading
  simp only [Option.getD_some]
  rw [pyIndex_nonneg _ _ (by omega)]
  simp only [Int.toNat_natCast]
  rw [midW_ge out cs rows m (by omega) hr j hj hjl]
  rfl

theorem midW_prevReading (hm : m < cs.length) (hr : rows.length = m) (nm key : String) :
    ({ cs := midW out cs rows m, i := m, name := nm } : Ctx F).prevReading key
      = .ok (if m = 0 then .none
             else readingByCandle (out (cs.getD (m - 1) default) (rows.getD (m - 1) dflt)) key) := by
  unfold Ctx.prevReading
  by_cases h0 : m = 0
  · subst h0; simp
  · have h1 : ((midW out cs rows m).length == 0) = false := by
      rw [midW_length out cs rows m (by omega) hr, beq_eq_false_iff_ne]; omega
    have h2 : (((m : Nat) : Int) == 0) = false := by rw [beq_eq_false_iff_ne]; omega
    simp only [h1, h2, Bool.or_self, Bool.false_eq_true, if_false, h0]
    have e : ((m : Nat) : Int) - 1 = ((m - 1 : Nat) : Int) := by omega
    rw [e]
    exact midW_reading_lt out dflt cs rows m hm hr nm key (m - 1) (by omega)

include dflt in
/-- the input view of a call on `midW`, for an input name that does not see what `out` stores -/
theorem midW_iview (hm : m < cs.length) (hr : rows.length = m) (nm input : String) (t0 : Nat) (r : Nat → Num F)
    (hsee : ∀ c ρ, readingByCandle (out c ρ) input = readingByCandle c input)
    (hnone : ∀ j, j < cs.length → j < t0 → readingByCandle (cs.getD j default) input = .none)
    (hnum : ∀ j, j < cs.length → t0 ≤ j → readingByCandle (cs.getD j default) input = .num (r (j - t0))) :
    IView ({ cs := midW out cs rows m, i := m, name := nm } : Ctx F) input m t0 r where
  i_eq := rfl
  len := by show m < (midW out cs rows m).length; rw [midW_length out cs rows m (by omega) hr]; exact hm
  inp_none := by
    intro j hj hjm
    by_cases h : j < m
    · rw [midW_reading_lt out dflt cs rows m hm hr nm input j h, hsee, hnone j (by omega) hj]
    · rw [midW_reading_ge out cs rows m hm hr nm input j (by omega) (by omega), hnone j (by omega) hj]
  inp_num := by
    intro j hj hjm
    by_cases h : j < m
    · rw [midW_reading_lt out dflt cs rows m hm hr nm input j h, hsee, hnum j (by omega) hj]
    · rw [midW_reading_ge out cs rows m hm hr nm input j (by omega) (by omega), hnum j (by omega) hj]

end mid

/-! ### the series induction through the engine, for a node without sub-indicators -/

theorem nodeLoop_midW (S : Gen.StepSpec F) (out : Candle F → R → Candle F) (dflt : R) (cs : List (Candle F))
    (hkey : ∀ c ∈ cs, dlookup S.name c.inds = none)
    (Q : Nat → R → Prop)
    (hstep : ∀ (m : Nat) (_ : m < cs.length) (rows : List R), rows.length = m →
      (∀ j, j < m → Q j (rows.getD j dflt)) →
      ∃ r, S.step (midW out cs rows m) (m : Int)
          = .ok (decoWith out (cs.take m) rows ++ out (cs.getD m default) r :: cs.drop (m + 1)) ∧ Q m r) :
    ∀ (k m : Nat) (rows : List R), m + k = cs.length → rows.length = m →
      (∀ j, j < m → Q j (rows.getD j dflt)) →
      ∃ rows' : List R, rows'.length = cs.length ∧
        Gen.nodeLoop S (midW out cs rows m) m k = .ok (decoWith out cs rows') ∧
        ∀ j, j < cs.length → Q j (rows'.getD j dflt) := by
  intro k
  induction k with
  | zero =>
    intro m rows hmk hr hQ
    have hm : m = cs.length := by omega
    subst hm
    exact ⟨rows, hr, by rw [Gen.nodeLoop, midW_full], hQ⟩
  | succ k ih =>
    intro m rows hmk hr hQ
    have hm : m < cs.length := by omega
    obtain ⟨r, hs, hq⟩ := hstep m hm rows hr hQ
    have hdl := midW_done_length out cs rows m (by omega) hr
    rw [Gen.nodeLoop]
    have hpi : pyIndex (midW out cs rows m) (m : Int) = .ok (cs.getD m default) := by
      rw [midW_split out cs rows m hm]
      have := pyIndex_append_cons (decoWith out (cs.take m) rows) (cs.getD m default) (cs.drop (m + 1))
      rwa [hdl] at this
    rw [hpi]
    simp only [bind, Except.bind, present_absent S.name _ (hkey _ (getD_mem' cs m hm)), Bool.false_eq_true,
      if_false, hs]
    rw [midW_succ out cs rows m hm hr]
    refine ih (m + 1) (rows ++ [r]) (by omega) (by simp [hr]) ?_
    intro j hj
    by_cases hjm : j < m
    · rw [List.getD_eq_getElem?_getD, List.getElem?_append_left (by omega), ← List.getD_eq_getElem?_getD]
      exact hQ j hjm
    · have : j = m := by omega
      subst this
      rw [List.getD_eq_getElem?_getD, List.getElem?_append_right (by omega)]
      simpa [hr] using hq

/-- **Series induction through `Gen.nodeCalc`** (what `calculate()` of a node without sub-indicators
is, `calculate_with`), over a candle list that may hold any readings under other names. -/
theorem node_induct (S : Gen.StepSpec F) (out : Candle F → R → Candle F) (dflt : R) (cs : List (Candle F))
    (hkey : ∀ c ∈ cs, dlookup S.name c.inds = none ∧ dlookup S.name c.subs = none)
    (Q : Nat → R → Prop)
    (hstep : ∀ (m : Nat) (_ : m < cs.length) (rows : List R), rows.length = m →
      (∀ j, j < m → Q j (rows.getD j dflt)) →
      ∃ r, S.step (midW out cs rows m) (m : Int)
          = .ok (decoWith out (cs.take m) rows ++ out (cs.getD m default) r :: cs.drop (m + 1)) ∧ Q m r) :
    ∃ rows : List R, rows.length = cs.length ∧ Gen.nodeCalc S cs = .ok (decoWith out cs rows) ∧
      ∀ j, j < cs.length → Q j (rows.getD j dflt) := by
  unfold Gen.nodeCalc
  rw [findCalcIndex_fresh S.name cs (fun c hc => hasKey_absent S.name c (hkey c hc))]
  have h0 : midW out cs [] 0 = cs := by simp [midW, decoWith]
  have := nodeLoop_midW S out dflt cs (fun c hc => (hkey c hc).1) Q hstep cs.length 0 [] (by omega) rfl
    (fun j hj => absurd hj (Nat.not_lt_zero j))
  rw [h0] at this
  simpa using this

end generic

/-! ### STDEV -/

section numeric
variable {K : Type} [Field K] [LinearOrder K] [IsStrictOrderedRing K] [LawfulPyF K]

/-- **one `StandardDeviation._calculate_reading` call in the shifted series.**  `xs` = the numeric
inputs counted from `t0`; the previous candle's data entry holds the running statistics of the inputs
since `t0` (nothing before `t0 + 1`).  Before `t0` the call returns `None` and writes nothing; from `t0`
on it stores the running mean / variance of the zero-padded window and returns `None` before
`t0 + p`, `sqrt(max(variance, 0))` afterwards. -/
theorem stdev_call_shift (p : Nat) (hp : 1 ≤ p) (ops : Ops K) (x : Ctx K) (nm input : String) (m t0 : Nat)
    (r : Nat → Num K) (V : IView x input m t0 r) (hname : x.name = nm)
    (w : Val K → List (Candle K)) (hset : ∀ v, ops.setManaged "STDEV_data" v x.cs = .ok (w v))
    (hmean : x.prevReading (nm ++ "_data.mean")
      = .ok (if m ≤ t0 then .none else .flt (runMean p (fun k => (r k).toF) (m - 1 - t0))))
    (hvar : x.prevReading (nm ++ "_data.variance")
      = .ok (if m ≤ t0 then .none else .flt (runVar p (fun k => (r k).toF) (m - 1 - t0)))) :
    Calc.stdev ops x (p : Int) input
      = .ok (if m < t0 then (.none, x.cs)
             else (stdOwn p (fun k => (r k).toF) (m - t0),
                   w (stdData (runMean p (fun k => (r k).toF) (m - t0)) (runVar p (fun k => (r k).toF) (m - t0))))) := by
  have hpK : (((p : Int)) : K) ≠ 0 := by
    have : (p : K) ≠ 0 := by exact_mod_cast (by omega : p ≠ 0)
    simpa using this
  by_cases hlt : m < t0
  · rw [if_pos hlt]
    exact stdev_none ops x p input (V.cur_none hlt)
  rw [if_neg hlt]
  obtain ⟨m', rfl⟩ : ∃ m', m = t0 + m' := ⟨m - t0, by omega⟩
  have hsub : t0 + m' - t0 = m' := by omega
  rw [hsub]
  have hcur := V.cur (by omega)
  rw [hsub] at hcur
  have hper : x.readingPeriod ((p : Int) + 1) input (some x.i) = decide (t0 + (p + 1) ≤ t0 + m' + 1) := by
    have := V.period (p + 1) (by omega)
    rw [show ((p + 1 : Nat) : Int) = (p : Int) + 1 by push_cast; rfl] at this
    exact this
  rw [← hname] at hmean hvar
  by_cases h0 : m' = 0
  · -- the first numeric input
    subst h0
    rw [if_pos (by omega)] at hmean hvar
    have hrp : x.readingPeriod ((p : Int) + 1) input (some x.i) = false := by rw [hper]; simp; omega
    have hs := stdev_first ops x (p : Int) input w (r 0) hcur hrp hmean hvar hset hpK
    obtain ⟨e1, e2⟩ := runStats_first p hp (fun k => (r k).toF)
    simp only [Int.cast_natCast] at hs
    rw [hs, e1, e2]
    unfold stdOwn stdData
    rw [if_pos (by omega)]
  · rw [if_neg (by omega), show t0 + m' - 1 - t0 = m' - 1 by omega] at hmean hvar
    obtain ⟨e1, e2⟩ := runStats_step p hp (fun k => (r k).toF) m' (by omega)
    by_cases h1 : m' < p
    · -- warm-up
      have hrp : x.readingPeriod ((p : Int) + 1) input (some x.i) = false := by rw [hper]; simp; omega
      have hs := stdev_warm ops x (p : Int) input w (r m') _ _ hcur hrp hmean hvar hset hpK
      have hr : remAt p (fun k => (r k).toF) m' = 0 := by unfold remAt; rw [if_neg (by omega)]
      rw [hr] at e1 e2
      simp only [Int.cast_natCast, Num.toF_flt] at hs
      rw [hs, e1, e2]
      unfold stdOwn stdData
      rw [if_pos h1]
    · -- full window
      have hrp : x.readingPeriod ((p : Int) + 1) input (some x.i) = true := by rw [hper]; simp; omega
      have hrem := V.back p (by omega)
      rw [show t0 + m' - p - t0 = m' - p by omega] at hrem
      have hs := stdev_step ops x (p : Int) input w (r m') (r (m' - p)) _ _ hcur hrp hrem hmean hvar hset hpK
      have hr : remAt p (fun k => (r k).toF) m' = (r (m' - p)).toF := by unfold remAt; rw [if_pos (by omega)]
      rw [hr] at e1 e2
      simp only [Int.cast_natCast, Num.toF_flt] at hs
      rw [hs, e1, e2]
      unfold stdOwn stdData
      rw [if_neg h1]

/-! ### the finished candles -/

/-- a finished STDEV candle: own reading `ρ.1` where `isSub` says, data entry `ρ.2` (if any) in
`.sub_indicators` -/
def sdOutB (isSub : Bool) (nm : String) (c : Candle K) (ρ : Val K × Option (Val K)) : Candle K :=
  outDS isSub nm (nm ++ "_data") ρ.1 ρ.2 c

/-- … of a top-level STDEV node -/
abbrev sdOutO (nm : String) (c : Candle K) (ρ : Val K × Option (Val K)) : Candle K := sdOutB false nm c ρ

theorem sdOutB_own (isSub : Bool) (nm : String) (hk : IsKey nm) (c : Candle K) (hc : dlookup nm c.inds = none)
    (ρ : Val K × Option (Val K)) : readingByCandle (sdOutB isSub nm c ρ) nm = ρ.1 := by
  rw [readingByCandle_key nm hk]
  obtain ⟨w, d⟩ := ρ
  cases isSub <;> cases d <;> simp [sdOutB, outDS, setD, lookupKey, setKey, dlookup_dset_self, hc]

theorem sdOutB_input (isSub : Bool) (nm input : String) (hin : IsKey input) (h1 : input ≠ nm)
    (h2 : input ≠ nm ++ "_data") (c : Candle K) (ρ : Val K × Option (Val K)) :
    readingByCandle (sdOutB isSub nm c ρ) input = readingByCandle c input := by
  unfold sdOutB outDS
  rw [indep_key (F := K) nm input hin (Ne.symm h1)]
  cases ρ.2 with
  | none => rfl
  | some dv => exact indep_key (F := K) (nm ++ "_data") input hin (Ne.symm h2) true dv c

/-- any reading name that sees neither of the two keys -/
theorem sdOutB_other (isSub : Bool) (nm key : String) (h1 : nm ≠ key) (h2 : nm ++ "_data" ≠ key)
    (hs1 : ∀ fld, splitDot key ≠ [nm, fld]) (hs2 : ∀ fld, splitDot key ≠ [nm ++ "_data", fld])
    (c : Candle K) (ρ : Val K × Option (Val K)) :
    readingByCandle (sdOutB isSub nm c ρ) key = readingByCandle c key := by
  unfold sdOutB outDS
  rw [readingByCandle_setKey_otherB isSub nm key h1 hs1]
  cases ρ.2 with
  | none => rfl
  | some dv => exact readingByCandle_setKey_otherB true (nm ++ "_data") key h2 hs2 dv c

/-- a dotted field of the data entry, read off a finished candle -/
theorem sdOutB_field (isSub : Bool) (nm fld key : String) (hne : nm ≠ nm ++ "_data")
    (hs : splitDot key = [nm ++ "_data", fld]) (c : Candle K)
    (hc : dlookup (nm ++ "_data") c.inds = none ∧ dlookup (nm ++ "_data") c.subs = none)
    (ρ : Val K × Option (Val K)) :
    readingByCandle (sdOutB isSub nm c ρ) key = match ρ.2 with
      | some dv => dv.nested fld
      | none => .none := by
  unfold readingByCandle
  rw [hs]
  obtain ⟨w, d⟩ := ρ
  cases isSub <;> cases d <;>
    simp [sdOutB, outDS, setD, setKey, dlookup_dset_ne _ _ _ _ hne, hc.1, hc.2, dlookup_dset_self]

/-- what the run stores on candle `j`: nothing but a `None` reading before `t0`; from `t0` on the running
statistics of the inputs since `t0` (exactly: `Managed.set_reading` does not round) and the rounded
`stdOwn` -/
def SdRowOK (p n t0 : Nat) (xs : Nat → K) (j : Nat) (ρ : Val K × Option (Val K)) : Prop :=
  (j < t0 → ρ = (.none, none)) ∧
  (t0 ≤ j → ρ = ((stdOwn p xs (j - t0)).roundBy n,
                 some (stdData (runMean p xs (j - t0)) (runVar p xs (j - t0)))))

/-- the reading function of a STDEV node as the engine runs it (`calcReading_stdev`, `calcReading_stdevT`) -/
abbrev stdevC (Z : Ind K) (p : Int) (input : String) : List (Candle K) → Int → PyM (Val K × List (Candle K)) :=
  fun cs i => Calc.stdev (dOps (Z.name ++ "_data") i) { cs := cs, i := i, name := Z.name } p input

/-- **the loop of a STDEV node (top-level or helper), exact rows**: for every candle list (the two names
of the node absent), an input that is an ordinary key, `None` on the first `t0` candles and the numbers
`r` afterwards. -/
theorem stdev_node_rows (Z : Ind K) (p : Nat) (hp : 1 ≤ p) (nm input : String) (hZ : Z.name = nm)
    (t0 : Nat) (cs : List (Candle K)) (r : Nat → Num K)
    (hk : IsKey nm) (hsn : StdevNames nm) (hik : IsKey input) (h1 : input ≠ nm) (h2 : input ≠ nm ++ "_data")
    (habs : ∀ c ∈ cs, dlookup nm c.inds = none ∧ dlookup nm c.subs = none ∧
      dlookup (nm ++ "_data") c.inds = none ∧ dlookup (nm ++ "_data") c.subs = none)
    (hnone : ∀ j, j < cs.length → j < t0 → readingByCandle (cs.getD j default) input = .none)
    (hnum : ∀ j, j < cs.length → t0 ≤ j → readingByCandle (cs.getD j default) input = .num (r (j - t0))) :
    ∃ rows : List (Val K × Option (Val K)), rows.length = cs.length ∧
      Gen.nodeCalc (specWith Z (stdevC Z (p : Int) input)) cs = .ok (decoWith (sdOutB Z.isSub nm) cs rows) ∧
      ∀ j, j < cs.length → SdRowOK p Z.round t0 (fun k => (r k).toF) j (rows.getD j (.none, none)) := by
  subst hZ
  refine node_induct _ (sdOutB Z.isSub Z.name) (.none, none) cs (fun c hc => ⟨(habs c hc).1, (habs c hc).2.1⟩) _ ?_
  intro m hm rows hrl hQ
  have hdl := midW_done_length (sdOutB Z.isSub Z.name) cs rows m (by omega) hrl
  have V := midW_iview (sdOutB Z.isSub Z.name) (.none, none) cs rows m hm hrl Z.name input t0 r
    (fun c ρ => sdOutB_input Z.isSub Z.name input hik h1 h2 c ρ) hnone hnum
  have hcabs : ∀ j, j < cs.length → dlookup (Z.name ++ "_data") (cs.getD j default).inds = none ∧
      dlookup (Z.name ++ "_data") (cs.getD j default).subs = none :=
    fun j hj => (habs _ (getD_mem' cs j hj)).2.2
  -- the previous candle's data entry
  have hprevF : ∀ (fld key : String) (g : K → K → K), splitDot key = [Z.name ++ "_data", fld] →
      (∀ μ v : K, (stdData μ v).nested fld = .flt (g μ v)) →
      ({ cs := midW (sdOutB Z.isSub Z.name) cs rows m, i := m, name := Z.name } : Ctx K).prevReading key
        = .ok (if m ≤ t0 then .none
               else .flt (g (runMean p (fun k => (r k).toF) (m - 1 - t0)) (runVar p (fun k => (r k).toF) (m - 1 - t0)))) := by
    intro fld key g hs hg
    rw [midW_prevReading (sdOutB Z.isSub Z.name) (.none, none) cs rows m hm hrl Z.name key]
    by_cases h0 : m = 0
    · subst h0; simp
    · rw [if_neg h0, sdOutB_field Z.isSub Z.name fld key hsn.ne hs _ (hcabs (m - 1) (by omega))]
      by_cases hmt : m ≤ t0
      · rw [(hQ (m - 1) (by omega)).1 (by omega), if_pos hmt]
      · rw [(hQ (m - 1) (by omega)).2 (by omega), if_neg hmt]
        exact congrArg Except.ok (hg _ _)
  have hmean := hprevF "mean" (Z.name ++ "_data.mean") (fun μ _ => μ) hsn.mean (fun μ v => stdData_mean μ v)
  have hvar := hprevF "variance" (Z.name ++ "_data.variance") (fun _ v => v) hsn.var (fun μ v => stdData_var μ v)
  -- the managed store on the active candle
  have hset : ∀ v, (dOps (Z.name ++ "_data") (m : Int) : Ops K).setManaged "STDEV_data" v
      (midW (sdOutB Z.isSub Z.name) cs rows m)
      = .ok (decoWith (sdOutB Z.isSub Z.name) (cs.take m) rows ++ setKey true (Z.name ++ "_data") v (cs.getD m default)
              :: cs.drop (m + 1)) := by
    intro v
    show setReading true (Z.name ++ "_data") (midW (sdOutB Z.isSub Z.name) cs rows m) (m : Int) v = _
    rw [midW_split (sdOutB Z.isSub Z.name) cs rows m hm, setReading_eq]
    have := updateAt_append_cons (decoWith (sdOutB Z.isSub Z.name) (cs.take m) rows) (cs.getD m default)
      (cs.drop (m + 1)) (setKey true (Z.name ++ "_data") v)
    rwa [hdl] at this
  have hcall := stdev_call_shift p hp (dOps (Z.name ++ "_data") (m : Int))
    { cs := midW (sdOutB Z.isSub Z.name) cs rows m, i := m, name := Z.name } Z.name input m t0 r V rfl _ hset hmean hvar
  show ∃ ρ : Val K × Option (Val K), stepWith (F := K) Z (stdevC Z (p : Int) input)
    (midW (sdOutB Z.isSub Z.name) cs rows m) (m : Int) = _ ∧ _
  unfold stepWith
  simp only [stdevC]
  rw [hcall]
  have hstore : ∀ (v : Val K) (c' : Candle K),
      setReading Z.isSub Z.name (decoWith (sdOutB Z.isSub Z.name) (cs.take m) rows ++ c' :: cs.drop (m + 1)) (m : Int) v
        = .ok (decoWith (sdOutB Z.isSub Z.name) (cs.take m) rows ++ setKey Z.isSub Z.name v c' :: cs.drop (m + 1)) := by
    intro v c'
    rw [setReading_eq]
    have := updateAt_append_cons (decoWith (sdOutB Z.isSub Z.name) (cs.take m) rows) c' (cs.drop (m + 1))
      (setKey Z.isSub Z.name v)
    rwa [hdl] at this
  by_cases hlt : m < t0
  · refine ⟨(.none, none), ?_, fun _ => rfl, fun h => by omega⟩
    simp only [if_pos hlt, bind, Except.bind]
    rw [midW_split (sdOutB Z.isSub Z.name) cs rows m hm, hstore]
    rfl
  · refine ⟨((stdOwn p (fun k => (r k).toF) (m - t0)).roundBy Z.round,
        some (stdData (runMean p (fun k => (r k).toF) (m - t0)) (runVar p (fun k => (r k).toF) (m - t0)))),
      ?_, fun h => by omega, fun _ => rfl⟩
    simp only [if_neg hlt, bind, Except.bind]
    rw [hstore]
    rfl

/-- **STDEV through the engine, exact rows** (top-level node) -/
theorem stdev_inputs_rows (p : Nat) (hp : 1 ≤ p) (nm input : String) (n t0 : Nat) (cs : List (Candle K))
    (r : Nat → Num K) (hn : SdNames nm) (hik : IsKey input) (h1 : input ≠ nm) (h2 : input ≠ nm ++ "_data")
    (habs : ∀ c ∈ cs, dlookup nm c.inds = none ∧ dlookup nm c.subs = none ∧
      dlookup (nm ++ "_data") c.inds = none ∧ dlookup (nm ++ "_data") c.subs = none)
    (hnone : ∀ j, j < cs.length → j < t0 → readingByCandle (cs.getD j default) input = .none)
    (hnum : ∀ j, j < cs.length → t0 ≤ j → readingByCandle (cs.getD j default) input = .num (r (j - t0))) :
    ∃ rows : List (Val K × Option (Val K)), rows.length = cs.length ∧
      engineCalc (mkTop (.stdev (p : Int) input : Kind K) nm n) cs = .ok (decoWith (sdOutO nm) cs rows) ∧
      ∀ j, j < cs.length → SdRowOK p n t0 (fun k => (r k).toF) j (rows.getD j (.none, none)) := by
  have hd := isDataNode_mkTop (.stdev (p : Int) input : Kind K) nm n "STDEV_data" rfl
  have hname := mkTop_name (.stdev (p : Int) input : Kind K) nm n
  unfold engineCalc
  rw [calculate_with _ hd.subs (stdevC (mkTop (.stdev (p : Int) input : Kind K) nm n) (p : Int) input)
    (fun f cs i => by
      have := calcReading_stdev (mkTop (.stdev (p : Int) input : Kind K) nm n) (p : Int) input
        ((mkTop (.stdev (p : Int) input : Kind K) nm n).name ++ "_data") (mkTop_kind _ _ _)
        (by rw [hname]; exact hd) f cs i
      exact this) _ cs (by unfold fuelFor; omega)]
  exact stdev_node_rows (mkTop (.stdev (p : Int) input : Kind K) nm n) p hp nm input hname t0 cs r hn.key hn.sn
    hik h1 h2 habs hnone hnum

/-- the rounded `stdOwn` against the textbook series -/
theorem stdOwn_ok [NonnegSqrt K] (p n : Nat) (hp : 1 ≤ p) (xs : Nat → K) (j : Nat) :
    StdevOwnOK n (stdevSeries p xs j) ((stdOwn p xs j).roundBy n) := by
  have h := stdevOK_mk p n hp xs j
  unfold stdevSeries
  by_cases hj : j < p
  · rw [if_pos hj]; exact h.2.1 hj
  · rw [if_neg hj]
    obtain ⟨y, hy, _, hb⟩ := h.2.2 (by omega)
    exact ⟨y, hy, hb, h.nonneg y hy⟩

/-! ### `C05_inputs_FULL`: the statement, its refutation, the corrected statement -/

/-- `Hex.C05.C05_inputs_FULL`, restated verbatim -/
def C05InputsFullStatement : Prop :=
  ∀ (K : Type) [Field K] [LinearOrder K] [IsStrictOrderedRing K] [LawfulPyF K] [NonnegSqrt K]
    (p : Nat) (nm input : String) (n t0 : Nat) (cs : List (Candle K)) (x : Nat → K),
    1 ≤ p → SdNames nm → IsKey input → input ≠ nm → input ≠ nm ++ "_data" →
    (∀ c ∈ cs, dlookup nm c.inds = none ∧ dlookup nm c.subs = none ∧
      dlookup (nm ++ "_data") c.inds = none ∧ dlookup (nm ++ "_data") c.subs = none) →
    (∀ j, j < cs.length →
      (match readingByCandle (cs.getD j default) input with
        | .s (.num r) => some r.toF
        | _ => none) = if j < t0 then none else some (x (j - t0))) →
    ∃ out : List (Candle K), engineCalc (mkTop (.stdev (p : Int) input : Kind K) nm n) cs = .ok out ∧
      out.length = cs.length ∧
      ∀ j, j < cs.length →
        (j < t0 → readingByCandle (out.getD j default) nm = .none) ∧
        (t0 ≤ j → StdevOwnOK n (stdevSeries p x (j - t0)) (readingByCandle (out.getD j default) nm))

/-- `C05_inputs_FULL` with the missing hypothesis made explicit: on the first `t0` candles the input
reading is `None` (absent, or stored as `None`) -/
def C05InputsPartialStatement : Prop :=
  ∀ (K : Type) [Field K] [LinearOrder K] [IsStrictOrderedRing K] [LawfulPyF K] [NonnegSqrt K]
    (p : Nat) (nm input : String) (n t0 : Nat) (cs : List (Candle K)) (x : Nat → K),
    1 ≤ p → SdNames nm → IsKey input → input ≠ nm → input ≠ nm ++ "_data" →
    (∀ c ∈ cs, dlookup nm c.inds = none ∧ dlookup nm c.subs = none ∧
      dlookup (nm ++ "_data") c.inds = none ∧ dlookup (nm ++ "_data") c.subs = none) →
    (∀ j, j < cs.length →
      (match readingByCandle (cs.getD j default) input with
        | .s (.num r) => some r.toF
        | _ => none) = if j < t0 then none else some (x (j - t0))) →
    (∀ j, j < cs.length → j < t0 → readingByCandle (cs.getD j default) input = .none) →
    ∃ out : List (Candle K), engineCalc (mkTop (.stdev (p : Int) input : Kind K) nm n) cs = .ok out ∧
      out.length = cs.length ∧
      ∀ j, j < cs.length →
        (j < t0 → readingByCandle (out.getD j default) nm = .none) ∧
        (t0 ≤ j → StdevOwnOK n (stdevSeries p x (j - t0)) (readingByCandle (out.getD j default) nm))

/-- **C05 for STDEV, every candle list, an input that is another indicator's reading, every start
`t0`** (the corrected `C05_inputs_FULL`): the engine never raises, the own reading is `None` on the
first `t0 + p` candles and afterwards a non-negative float within `ε_n` of the population standard
deviation of the last `p` inputs – the series of `stdev_series` shifted by `t0`. -/
theorem c05_inputs_partial : C05InputsPartialStatement := by
  intro K _ _ _ _ _ p nm input n t0 cs x hp hn hik h1 h2 habs hin hnone
  obtain ⟨r, hr, hnum⟩ := input_col cs input t0 x hin
  have hx : (fun k => (r k).toF) = x := funext hr
  obtain ⟨rows, hl, hrun, hall⟩ := stdev_inputs_rows p hp nm input n t0 cs r hn hik h1 h2 habs hnone hnum
  refine ⟨_, hrun, decoWith_length _ _ _ hl, ?_⟩
  intro j hj
  have hc : (decoWith (sdOutO nm) cs rows).getD j default
      = sdOutO nm (cs.getD j default) (rows.getD j (.none, none)) := by
    rw [List.getD_eq_getElem?_getD, decoWith_getElem? _ _ _ (.none, none) j hl hj]; rfl
  rw [hc, sdOutB_own false nm hn.key _ (habs _ (getD_mem' cs j hj)).1]
  constructor
  · intro hjt
    rw [(hall j hj).1 hjt]
  · intro hjt
    rw [(hall j hj).2 hjt, ← hx]
    exact stdOwn_ok p n hp _ _

/-! #### `C05_inputs_FULL` as written is false -/

theorem sdNames_demo1 : SdNames "STDEV_1" := ⟨by decide, by decide, ⟨by decide, by decide, by decide⟩⟩

/-- two candles whose foreign reading `"X"` is `True` on candle 0 and `5.0` on candle 1 -/
def witC05 : List (Candle ℚ) :=
  [{ o := .int 1, h := .int 3, l := .int 0, c := .int 2, v := .int 10, inds := [("X", .bool true)] },
   { o := .int 1, h := .int 3, l := .int 0, c := .int 2, v := .int 10, inds := [("X", .flt 5)] }]

/-- **`C05_inputs_FULL` is false as written.**  `STDEV(period = 1, input_value = "X")` where the
foreign reading `X` is the `bool` `True` on candle 0 and `5.0` on candle 1: `t0 = 1` satisfies every
hypothesis and the statement promises `None` on candle 1 (`j − t0 = 0 < p`), but `True` is a reading
for `reading_period(2, "X")`, so the engine stores a float there.
Replay on the pinned library: candles with `indicators["X"] = True, 5.0, 7.0, 9.0`,
`StandardDeviation(period=1, input_value="X")` → `[None, 0.0, 0.0, 0.0]` (and a dict in place of
`True` raises `TypeError`). -/
theorem c05_inputs_full_false : ¬ C05InputsFullStatement := by
  intro h
  obtain ⟨out, hrun, _, hq⟩ := h ℚ 1 "STDEV_1" "X" 4 1 witC05 (fun _ => 5) (by norm_num) sdNames_demo1
    (by decide) (by decide) (by decide)
    (by
      intro c hc
      simp only [witC05, List.mem_cons, List.not_mem_nil, or_false] at hc
      rcases hc with rfl | rfl <;> exact ⟨rfl, rfl, rfl, rfl⟩)
    (by
      intro j hj
      have : j < 2 := hj
      interval_cases j <;> rfl)
  have h1 : readingByCandle (out.getD 1 default) "STDEV_1" = .none := by
    have := (hq 1 (by decide)).2 (by decide)
    exact this
  have e : (engineCalc (mkTop (.stdev ((1 : Nat) : Int) "X" : Kind ℚ) "STDEV_1" 4) witC05).toOption.map
      (fun l => (readingByCandle (l.getD 1 default) "STDEV_1").isNone) = some false := by decide +kernel
  rw [hrun] at e
  simp only [Except.toOption, Option.map, h1] at e
  cases e

/-! #### non-vacuity: `STDEV_2` of the foreign reading `"EMA_2"` of `demoForeign` (`None, None, 12, 14, 15`) -/

theorem sdNames_demo2 : SdNames "STDEV_2" := ⟨by decide, by decide, ⟨by decide, by decide, by decide⟩⟩

example : ∃ out : List (Candle ℚ),
    engineCalc (mkTop (.stdev ((2 : Nat) : Int) "EMA_2" : Kind ℚ) "STDEV_2" 4) demoForeign = .ok out ∧
    out.length = demoForeign.length ∧
    ∀ j, j < demoForeign.length →
      (j < 2 → readingByCandle (out.getD j default) "STDEV_2" = .none) ∧
      (2 ≤ j → StdevOwnOK 4 (stdevSeries 2 demoX (j - 2)) (readingByCandle (out.getD j default) "STDEV_2")) :=
  c05_inputs_partial ℚ 2 "STDEV_2" "EMA_2" 4 2 demoForeign demoX (by norm_num) sdNames_demo2 (by decide) (by decide)
    (by decide)
    (by
      intro c hc
      have h1 := demoForeign_abs "STDEV_2" (by decide) (by decide) (by decide) c hc
      have h2 := demoForeign_abs "STDEV_2_data" (by decide) (by decide) (by decide) c hc
      exact ⟨h1.1, h1.2, h2.1, h2.2⟩)
    demoForeign_in demoForeign_none

end numeric

/-- the toy carrier: STDEV of a late-starting foreign reading returns, `None` on the first `t0 + p = 3`
candles (`decide`) -/
example : (engineCalc (mkTop (.stdev 1 "EMA_2") "STDEV_1" 4)
    ([{ o := .int 10, h := .int 12, l := .int 9, c := .int 11, v := .int 100 },
      { o := .int 11, h := .int 13, l := .int 10, c := .int 12, v := .int 200, inds := [("EMA_2", .none)] },
      { o := .int 12, h := .int 15, l := .int 11, c := .int 14, v := .int 300, inds := [("EMA_2", .int 12)] },
      { o := .int 14, h := .int 16, l := .int 13, c := .int 15, v := .int 0, inds := [("EMA_2", .int 14)] }]
      : List (Candle Int))).toOption.map
      (fun l => l.map fun c => (readingByCandle c "STDEV_1").isNone) = some [true, true, true, false] := by
  decide +kernel

end Numeric
end Hex

#print axioms Hex.Numeric.node_induct
#print axioms Hex.Numeric.stdev_inputs_rows
#print axioms Hex.Numeric.c05_inputs_partial
#print axioms Hex.Numeric.c05_inputs_full_false

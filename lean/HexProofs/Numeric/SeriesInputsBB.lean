import HexProofs.Numeric.SeriesInputsStdev
/-!
# BBANDS over candle lists with foreign readings and a late-starting input

BBANDS is a node with two prior helpers (a STDEV data node and an SMA leaf, both in
`.sub_indicators`) and a read-only own reading.  `engineCalc_bb` (HexProofs/Framework/Gen/BBands.lean)
splits `calculate()` – for EVERY candle list – into three column passes; each pass is one of the series
inductions of this directory, run over the OUTPUT of the previous pass, which is just another candle
list holding foreign readings:

1. `stdev_node_rows` for the helper `name_STDEV` (HexProofs/Numeric/SeriesInputsStdev.lean),
2. `leafCalc_induct` + `sma_shift_step` for the helper `name_SMA`,
3. `leafCalc_induct` for the own dict, which reads the two helpers at the active index only.
-/
set_option linter.unusedSectionVars false
set_option linter.unusedSimpArgs false
namespace Hex
namespace Numeric

section generic
variable {F : Type} [PyF F]

/-- `_set_reading` as a row store -/
abbrev keyOut (isSub : Bool) (nm : String) : Candle F → Val F → Candle F := fun c v => setKey isSub nm v c

/-! ### the series induction through the loop of a leaf, either dict -/

theorem leafLoop_midW (Z : Ind F) (cs : List (Candle F))
    (hkey : ∀ c ∈ cs, dlookup Z.name c.inds = none)
    (Q : Nat → Val F → Prop)
    (hstep : ∀ (m : Nat) (_ : m < cs.length) (vs : List (Val F)), vs.length = m →
      (∀ j, j < m → Q j (vs.getD j .none)) →
      ∃ v, readKind Z.kind { cs := midW (keyOut Z.isSub Z.name) cs vs m, i := m, name := Z.name } = .ok v ∧
        Q m (v.roundBy Z.round)) :
    ∀ (k m : Nat) (vs : List (Val F)), m + k = cs.length → vs.length = m →
      (∀ j, j < m → Q j (vs.getD j .none)) →
      ∃ vs' : List (Val F), vs'.length = cs.length ∧
        leafLoop Z (midW (keyOut Z.isSub Z.name) cs vs m) m k = .ok (decoWith (keyOut Z.isSub Z.name) cs vs') ∧
        ∀ j, j < cs.length → Q j (vs'.getD j .none) := by
  intro k
  induction k with
  | zero =>
    intro m vs hmk hvs hQ
    have hm : m = cs.length := by omega
    subst hm
    exact ⟨vs, hvs, by rw [leafLoop, midW_full], hQ⟩
  | succ k ih =>
    intro m vs hmk hvs hQ
    have hm : m < cs.length := by omega
    obtain ⟨v, hv, hq⟩ := hstep m hm vs hvs hQ
    have hdl := midW_done_length (keyOut Z.isSub Z.name) cs vs m (by omega) hvs
    rw [leafLoop, midW_split (keyOut Z.isSub Z.name) cs vs m hm]
    have hpi : pyIndex (decoWith (keyOut Z.isSub Z.name) (cs.take m) vs ++ cs.getD m default :: cs.drop (m + 1)) (m : Int)
        = .ok (cs.getD m default) := by
      have := pyIndex_append_cons (decoWith (keyOut Z.isSub Z.name) (cs.take m) vs) (cs.getD m default) (cs.drop (m + 1))
      rwa [hdl] at this
    rw [hpi]
    simp only [bind, Except.bind, present_absent Z.name _ (hkey _ (getD_mem' cs m hm)), Bool.false_eq_true, if_false]
    have hsl := stepLeaf_append_cons Z (decoWith (keyOut Z.isSub Z.name) (cs.take m) vs) (cs.getD m default)
      (cs.drop (m + 1))
    rw [hdl, ← midW_split (keyOut Z.isSub Z.name) cs vs m hm] at hsl
    rw [← midW_split (keyOut Z.isSub Z.name) cs vs m hm, hsl, hv]
    simp only [bind, Except.bind, pure, Except.pure]
    rw [midW_succ (keyOut Z.isSub Z.name) cs vs m hm hvs]
    refine ih (m + 1) (vs ++ [v.roundBy Z.round]) (by omega) (by simp [hvs]) ?_
    intro j hj
    by_cases hjm : j < m
    · rw [List.getD_eq_getElem?_getD, List.getElem?_append_left (by omega), ← List.getD_eq_getElem?_getD]
      exact hQ j hjm
    · have : j = m := by omega
      subst this
      rw [List.getD_eq_getElem?_getD, List.getElem?_append_right (by omega)]
      simpa [hvs] using hq

/-- **Series induction through `leafCalc`** – the loop of a read-only node, top-level or helper – over a
candle list that may hold any readings under other names. -/
theorem leafCalc_induct (Z : Ind F) (cs : List (Candle F))
    (hkey : ∀ c ∈ cs, dlookup Z.name c.inds = none ∧ dlookup Z.name c.subs = none)
    (Q : Nat → Val F → Prop)
    (hstep : ∀ (m : Nat) (_ : m < cs.length) (vs : List (Val F)), vs.length = m →
      (∀ j, j < m → Q j (vs.getD j .none)) →
      ∃ v, readKind Z.kind { cs := midW (keyOut Z.isSub Z.name) cs vs m, i := m, name := Z.name } = .ok v ∧
        Q m (v.roundBy Z.round)) :
    ∃ vs : List (Val F), vs.length = cs.length ∧
      leafCalc Z cs = .ok (decoWith (keyOut Z.isSub Z.name) cs vs) ∧
      ∀ j, j < cs.length → Q j (vs.getD j .none) := by
  unfold leafCalc
  rw [findCalcIndex_fresh Z.name cs (fun c hc => hasKey_absent Z.name c (hkey c hc))]
  have h0 : midW (keyOut Z.isSub Z.name) cs [] 0 = cs := by simp [midW, decoWith]
  have := leafLoop_midW Z cs (fun c hc => (hkey c hc).1) Q hstep cs.length 0 [] (by omega) rfl
    (fun j hj => absurd hj (Nat.not_lt_zero j))
  rw [h0] at this
  simpa using this

/-- the view of a leaf's call on `midW`, either dict -/
theorem midW_sview (isSub : Bool) (nm input : String) (hk : IsKey nm) (cs : List (Candle F))
    (habs : ∀ c ∈ cs, dlookup nm c.inds = none ∧ dlookup nm c.subs = none)
    (vs : List (Val F)) (m t0 : Nat) (hm : m < cs.length) (hvs : vs.length = m) (r : Nat → Num F)
    (hsee : ∀ (c : Candle F) (v : Val F), readingByCandle (setKey isSub nm v c) input = readingByCandle c input)
    (hnone : ∀ j, j < cs.length → j < t0 → readingByCandle (cs.getD j default) input = .none)
    (hnum : ∀ j, j < cs.length → t0 ≤ j → readingByCandle (cs.getD j default) input = .num (r (j - t0))) :
    SView ({ cs := midW (keyOut isSub nm) cs vs m, i := m, name := nm } : Ctx F) nm input m t0 vs r where
  toIView := midW_iview (keyOut isSub nm) .none cs vs m hm hvs nm input t0 r hsee hnone hnum
  name_eq := rfl
  own := by
    intro j hj
    rw [midW_reading_lt (keyOut isSub nm) .none cs vs m hm hvs nm nm j hj]
    exact congrArg Except.ok (readingByCandle_setKey_noKey isSub nm hk _ _
      (hasKey_absent nm _ (habs _ (getD_mem' cs j (by omega)))))

/-- the reading of any name at the active index of a call on `midW` -/
theorem midW_reading_cur {R : Type} (out : Candle F → R → Candle F) (cs : List (Candle F)) (rows : List R)
    (m : Nat) (hm : m < cs.length) (hr : rows.length = m) (nm name : String) :
    ({ cs := midW out cs rows m, i := m, name := nm } : Ctx F).reading name
      = .ok (readingByCandle (cs.getD m default) name) :=
  midW_reading_ge out cs rows m hm hr nm name m (le_refl m) hm

theorem decoWith_getD {R : Type} (out : Candle F → R → Candle F) (dflt : R) (cs : List (Candle F)) (rows : List R)
    (hl : rows.length = cs.length) (j : Nat) (hj : j < cs.length) :
    (decoWith out cs rows).getD j default = out (cs.getD j default) (rows.getD j dflt) := by
  rw [List.getD_eq_getElem?_getD, decoWith_getElem? _ _ _ dflt j hl hj]; rfl

theorem decoWith_mem {R : Type} (out : Candle F → R → Candle F) (cs : List (Candle F)) (rows : List R)
    (_hl : rows.length = cs.length) (P : Candle F → Prop) (h : ∀ c ∈ cs, ∀ ρ, P (out c ρ)) :
    ∀ d ∈ decoWith out cs rows, P d := by
  intro d hd
  unfold decoWith at hd
  obtain ⟨i, hi, rfl⟩ := List.getElem_of_mem hd
  rw [List.getElem_zipWith]
  exact h _ (List.getElem_mem _) _

/-- `_set_reading` leaves the other keys alone -/
theorem setKey_frame (isSub : Bool) (nm k : String) (hne : nm ≠ k) (v : Val F) (c : Candle F) :
    dlookup k (setKey isSub nm v c).inds = dlookup k c.inds ∧ dlookup k (setKey isSub nm v c).subs = dlookup k c.subs := by
  cases isSub <;> simp [setKey, dlookup_dset_ne _ _ _ _ hne]

end generic

section numeric
variable {K : Type} [Field K] [LinearOrder K] [IsStrictOrderedRing K] [LawfulPyF K]

theorem sdOutB_frame (isSub : Bool) (nm k : String) (h1 : nm ≠ k) (h2 : nm ++ "_data" ≠ k)
    (c : Candle K) (ρ : Val K × Option (Val K)) :
    dlookup k (sdOutB isSub nm c ρ).inds = dlookup k c.inds ∧ dlookup k (sdOutB isSub nm c ρ).subs = dlookup k c.subs := by
  obtain ⟨w, d⟩ := ρ
  cases isSub <;> cases d <;> simp [sdOutB, outDS, setD, setKey, dlookup_dset_ne _ _ _ _ h1, dlookup_dset_ne _ _ _ _ h2]

/-! ### BBANDS -/

/-- what the run stores under the own name on candle `j`, given the two stored helper readings -/
def BbOwnRow (p n t0 : Nat) (sd sm : Nat → Val K) (j : Nat) (v : Val K) : Prop :=
  (j < t0 + p → v = bbNoneDict) ∧
  (t0 + p ≤ j → ∃ ym ys, sm j = .flt ym ∧ sd j = .flt ys ∧
    v = bbDict (PyF.round n (ym - 2 * ys)) (PyF.round n ym) (PyF.round n (ym + 2 * ys)))

/-- name conditions of the input of a BBANDS node: an ordinary key different from the node's four names -/
structure BbInput (nm input : String) : Prop where
  key : IsKey input
  n0 : input ≠ nm
  nS : input ≠ nm ++ "_STDEV"
  nD : input ≠ nm ++ "_STDEV" ++ "_data"
  nM : input ≠ nm ++ "_SMA"

/-- the four names of a BBANDS node are absent from a candle -/
def BbAbsent (nm : String) (c : Candle K) : Prop :=
  (dlookup nm c.inds = none ∧ dlookup nm c.subs = none) ∧
  (dlookup (nm ++ "_STDEV") c.inds = none ∧ dlookup (nm ++ "_STDEV") c.subs = none) ∧
  (dlookup (nm ++ "_STDEV" ++ "_data") c.inds = none ∧ dlookup (nm ++ "_STDEV" ++ "_data") c.subs = none) ∧
  (dlookup (nm ++ "_SMA") c.inds = none ∧ dlookup (nm ++ "_SMA") c.subs = none)

/-- **BBANDS through the engine, row by row** (`xs` = the values of the stored input numbers `r`). -/
theorem bb_inputs_rows (p : Nat) (hp : 2 ≤ p) (nm input : String) (n t0 : Nat) (cs : List (Candle K))
    (r : Nat → Num K) (_hk : IsKey nm) (hn : BbNames nm) (hi : BbInput nm input)
    (habs : ∀ c ∈ cs, BbAbsent nm c)
    (hnone : ∀ j, j < cs.length → j < t0 → readingByCandle (cs.getD j default) input = .none)
    (hnum : ∀ j, j < cs.length → t0 ≤ j → readingByCandle (cs.getD j default) input = .num (r (j - t0))) :
    ∃ (rows : List (Val K × Option (Val K))) (vs2 vs3 : List (Val K)),
      rows.length = cs.length ∧ vs2.length = cs.length ∧ vs3.length = cs.length ∧
      engineCalc (mkTop (.bbands (p : Int) input : Kind K) nm n) cs
        = .ok (decoWith (keyOut false nm)
            (decoWith (keyOut true (nm ++ "_SMA")) (decoWith (sdOutB true (nm ++ "_STDEV")) cs rows) vs2) vs3) ∧
      ∀ j, j < cs.length →
        SdRowOK p defaultRound t0 (fun k => (r k).toF) j (rows.getD j (.none, none)) ∧
        ShiftedOK (SmaOK p defaultRound (fun k => (r k).toF)) t0 j (vs2.getD j .none) ∧
        BbOwnRow p n t0 (fun j => (rows.getD j (.none, none)).1) (fun j => vs2.getD j .none) j (vs3.getD j .none) := by
  have hSne : nm ++ "_STDEV" ≠ nm ++ "_STDEV" ++ "_data" := hn.sn.ne
  -- pass 1: the STDEV helper
  obtain ⟨rows, hl1, hrun1, hall1⟩ := stdev_node_rows (bbS (F := K) nm (p : Int) input) p (by omega)
    (nm ++ "_STDEV") input rfl t0 cs r hn.kS hn.sn hi.key hi.nS hi.nD
    (fun c hc => ⟨(habs c hc).2.1.1, (habs c hc).2.1.2, (habs c hc).2.2.1.1, (habs c hc).2.2.1.2⟩) hnone hnum
  have hrun1' : Gen.nodeCalc (specWith (bbS (F := K) nm (p : Int) input) (bbC nm (p : Int) input)) cs
      = .ok (decoWith (sdOutB true (nm ++ "_STDEV")) cs rows) := hrun1
  generalize hc1 : decoWith (sdOutB true (nm ++ "_STDEV")) cs rows = c₁ at hrun1'
  have hlen1 : c₁.length = cs.length := by rw [← hc1]; exact decoWith_length _ _ _ hl1
  have hget1 : ∀ j, j < cs.length →
      c₁.getD j default = sdOutB true (nm ++ "_STDEV") (cs.getD j default) (rows.getD j (.none, none)) := by
    intro j hj; rw [← hc1]; exact decoWith_getD _ _ cs rows hl1 j hj
  have hin1 : ∀ j, j < cs.length → readingByCandle (c₁.getD j default) input = readingByCandle (cs.getD j default) input :=
    fun j hj => by rw [hget1 j hj, sdOutB_input true _ input hi.key hi.nS hi.nD]
  have habs1 : ∀ (k : String), nm ++ "_STDEV" ≠ k → nm ++ "_STDEV" ++ "_data" ≠ k →
      (∀ c ∈ cs, dlookup k c.inds = none ∧ dlookup k c.subs = none) →
      ∀ c ∈ c₁, dlookup k c.inds = none ∧ dlookup k c.subs = none := by
    intro k h1 h2 hk'
    rw [← hc1]
    refine decoWith_mem _ cs rows hl1 _ (fun c hc ρ => ?_)
    rw [(sdOutB_frame true _ k h1 h2 c ρ).1, (sdOutB_frame true _ k h1 h2 c ρ).2]
    exact hk' c hc
  -- pass 2: the SMA helper, over the output of pass 1
  have habsM1 := habs1 (nm ++ "_SMA") hn.SM hn.DM (fun c hc => (habs c hc).2.2.2)
  obtain ⟨vs2, hl2, hrun2, hall2⟩ := leafCalc_induct (bbM (F := K) nm (p : Int) input) c₁ habsM1
    (fun j v => ShiftedOK (SmaOK p defaultRound (fun k => (r k).toF)) t0 j v)
    (by
      intro m hm vs hvs hQ
      have V := midW_sview true (nm ++ "_SMA") input hn.kM c₁ habsM1 vs m t0 hm hvs r
        (fun c v => indep_key (F := K) (nm ++ "_SMA") input hi.key (Ne.symm hi.nM) true v c)
        (fun j hj hjt => by rw [hin1 j (by omega)]; exact hnone j (by omega) hjt)
        (fun j hj hjt => by rw [hin1 j (by omega)]; exact hnum j (by omega) hjt)
      exact sma_shift_step p hp defaultRound _ (nm ++ "_SMA") input m t0 vs r V hQ)
  rw [hlen1] at hl2
  have hrun2' : leafCalc (bbM (F := K) nm (p : Int) input) c₁
      = .ok (decoWith (keyOut true (nm ++ "_SMA")) c₁ vs2) := hrun2
  generalize hc2 : decoWith (keyOut true (nm ++ "_SMA")) c₁ vs2 = c₂ at hrun2'
  have hlen2 : c₂.length = cs.length := by rw [← hc2, decoWith_length _ _ _ (by rw [hlen1, hl2]), hlen1]
  have hget2 : ∀ j, j < cs.length →
      c₂.getD j default = setKey true (nm ++ "_SMA") (vs2.getD j .none) (c₁.getD j default) := by
    intro j hj; rw [← hc2]; exact decoWith_getD _ _ c₁ vs2 (by rw [hlen1, hl2]) j (by omega)
  have habs0 : ∀ c ∈ c₂, dlookup nm c.inds = none ∧ dlookup nm c.subs = none := by
    rw [← hc2]
    refine decoWith_mem _ c₁ vs2 (by rw [hlen1, hl2]) _ (fun c hc v => ?_)
    rw [(setKey_frame true _ nm (Ne.symm hn.nM) v c).1, (setKey_frame true _ nm (Ne.symm hn.nM) v c).2]
    exact habs1 nm (Ne.symm hn.nS) (Ne.symm hn.nD) (fun c hc => (habs c hc).1) c hc
  -- pass 3: the own dict, over the output of pass 2
  obtain ⟨vs3, hl3, hrun3, hall3⟩ := leafCalc_induct (bbP (F := K) nm n (p : Int) input) c₂
    (by rw [bbP_name]; exact habs0)
    (fun j v => BbOwnRow p n t0 (fun j => (rows.getD j (.none, none)).1) (fun j => vs2.getD j .none) j v)
    (by
      intro m hm vs hvs _
      rw [hlen2] at hm
      have hname : (bbP (F := K) nm n (p : Int) input).name = nm := bbP_name _ _ _ _
      have hsub : (bbP (F := K) nm n (p : Int) input).isSub = false := rfl
      have hround : (bbP (F := K) nm n (p : Int) input).round = n := rfl
      have hkind : (bbP (F := K) nm n (p : Int) input).kind = .bbands (p : Int) input := mkTop_kind _ _ _
      rw [hname, hsub, hround, hkind]
      show ∃ v, Calc.bbands { cs := midW (keyOut false nm) c₂ vs m, i := m, name := nm } (nm ++ "_SMA") (nm ++ "_STDEV")
        = .ok v ∧ _
      have hcM1 := habsM1 _ (getD_mem' c₁ m (by omega))
      have hrM : ({ cs := midW (keyOut false nm) c₂ vs m, i := m, name := nm } : Ctx K).reading (nm ++ "_SMA")
          = .ok (vs2.getD m .none) := by
        rw [midW_reading_cur (keyOut false nm) c₂ vs m (by omega) hvs nm, hget2 m hm,
          readingByCandle_setKey_noKey true _ hn.kM _ _ (hasKey_absent _ _ hcM1)]
      have hrS : ({ cs := midW (keyOut false nm) c₂ vs m, i := m, name := nm } : Ctx K).reading (nm ++ "_STDEV")
          = .ok (rows.getD m (.none, none)).1 := by
        rw [midW_reading_cur (keyOut false nm) c₂ vs m (by omega) hvs nm, hget2 m hm,
          indep_key (F := K) (nm ++ "_SMA") (nm ++ "_STDEV") hn.kS (Ne.symm hn.SM), hget1 m hm,
          sdOutB_own true _ hn.kS _ (habs _ (getD_mem' cs m hm)).2.1.1]
      have h1 := (hall1 m hm)
      have h2 := (hall2 m (by omega))
      by_cases hw : m < t0 + p
      · -- the STDEV helper has no value yet
        have hsn : (rows.getD m (.none, none)).1.isNone = true := by
          by_cases hlt : m < t0
          · rw [h1.1 hlt]; rfl
          · rw [h1.2 (by omega)]
            have e : (stdOwn p (fun k => (r k).toF) (m - t0)).roundBy defaultRound = .none :=
              (stdevOK_mk p defaultRound (by omega) _ (m - t0)).2.1 (by omega)
            show ((stdOwn p (fun k => (r k).toF) (m - t0)).roundBy defaultRound).isNone = true
            rw [e]; rfl
        refine ⟨_, bbands_none _ _ _ _ _ hrM hrS (Or.inr hsn), fun _ => rfl, fun h => by omega⟩
      · obtain ⟨ys, hys', _, _⟩ := (stdevOK_mk p defaultRound (by omega) (fun k => (r k).toF) (m - t0)).2.2 (by omega)
        have hys : (rows.getD m (.none, none)).1 = .flt ys := by rw [h1.2 (by omega)]; exact hys'
        obtain ⟨ym, hym, _⟩ := (h2.2 (by omega)).2 (by omega)
        have hP := bbands_def _ (nm ++ "_SMA") (nm ++ "_STDEV") (.flt ym) (.flt ys)
          (hrM.trans (congrArg Except.ok hym)) (hrS.trans (congrArg Except.ok hys))
        exact ⟨_, hP, fun h => by omega, fun _ => ⟨ym, ys, hym, hys, bbDict_round n ym ys⟩⟩)
  rw [hlen2] at hl3
  refine ⟨rows, vs2, vs3, hl1, hl2, hl3, ?_, fun j hj => ⟨hall1 j hj, hall2 j (by omega), hall3 j (by omega)⟩⟩
  have e := engineCalc_bb (F := K) nm n (p : Int) input cs
  show engineCalc (bbP (F := K) nm n (p : Int) input) cs = _
  rw [e, hrun1']
  simp only [bind, Except.bind]
  rw [hrun2']
  simp only
  rw [hrun3, hc1, hc2]
  rfl

/-- BBANDS over a late-starting foreign input: the statement of `C05_inputs_FULL` with the BBANDS
predicates (`BbOwnOK`, `bbSeries`) and the `None` hypothesis -/
def C05BbandsStatement : Prop :=
  ∀ (K : Type) [Field K] [LinearOrder K] [IsStrictOrderedRing K] [LawfulPyF K] [NonnegSqrt K]
    (p : Nat) (nm input : String) (n t0 : Nat) (cs : List (Candle K)) (x : Nat → K),
    2 ≤ p → IsKey nm → BbNames nm → BbInput nm input →
    (∀ c ∈ cs, BbAbsent nm c) →
    (∀ j, j < cs.length →
      (match readingByCandle (cs.getD j default) input with
        | .s (.num r) => some r.toF
        | _ => none) = if j < t0 then none else some (x (j - t0))) →
    (∀ j, j < cs.length → j < t0 → readingByCandle (cs.getD j default) input = .none) →
    ∃ out : List (Candle K), engineCalc (mkTop (.bbands (p : Int) input : Kind K) nm n) cs = .ok out ∧
      out.length = cs.length ∧
      ∀ j, j < cs.length →
        (j < t0 → readingByCandle (out.getD j default) nm = bbNoneDict) ∧
        (t0 ≤ j → BbOwnOK p n (j - t0) (bbSeries p x (j - t0)) (readingByCandle (out.getD j default) nm))

/-- **C05 for BBANDS, every candle list, an input that is another indicator's reading, every start `t0`**:
the engine never raises; the own reading is the dict of `None`s on the first `t0 + p` candles and
afterwards three ordered floats within the budgets of `BbOK.bands` of `mean ∓ 2σ` of the last `p` inputs
– the series of `bb_series` shifted by `t0`. -/
theorem c05_bbands : C05BbandsStatement := by
  intro K _ _ _ _ _ p nm input n t0 cs x hp hk hn hi habs hin hnone
  obtain ⟨r, hr, hnum⟩ := input_col cs input t0 x hin
  have hx : (fun k => (r k).toF) = x := funext hr
  obtain ⟨rows, vs2, vs3, hl1, hl2, hl3, hrun, hall⟩ := bb_inputs_rows p hp nm input n t0 cs r hk hn hi habs hnone hnum
  have hlen : (decoWith (keyOut false nm)
      (decoWith (keyOut true (nm ++ "_SMA")) (decoWith (sdOutB true (nm ++ "_STDEV")) cs rows) vs2) vs3).length
      = cs.length := by
    rw [decoWith_length, decoWith_length, decoWith_length _ _ _ hl1]
    · rw [decoWith_length _ _ _ hl1]; exact hl2
    · rw [decoWith_length, decoWith_length _ _ _ hl1]
      · exact hl3
      · rw [decoWith_length _ _ _ hl1]; exact hl2
  refine ⟨_, hrun, hlen, ?_⟩
  intro j hj
  have hl3' : vs3.length = (decoWith (keyOut true (nm ++ "_SMA")) (decoWith (sdOutB true (nm ++ "_STDEV")) cs rows) vs2).length := by
    rw [decoWith_length, decoWith_length _ _ _ hl1]
    · exact hl3
    · rw [decoWith_length _ _ _ hl1]; exact hl2
  rw [decoWith_getD (keyOut false nm) .none _ vs3 hl3' j (by rw [← hl3', hl3]; exact hj), rbc_setKey_own nm hk]
  obtain ⟨h1, h2, h3⟩ := hall j hj
  constructor
  · intro hjt
    exact h3.1 (by omega)
  · intro hjt
    rw [← hx]
    -- the row of `bb_series` at the index counted from `t0`
    have hb : BbOK p n (fun k => (r k).toF) (j - t0)
        ⟨(rows.getD j (.none, none)).1,
         stdData (runMean p (fun k => (r k).toF) (j - t0)) (runVar p (fun k => (r k).toF) (j - t0)),
         vs2.getD j .none, vs3.getD j .none⟩ := by
      refine ⟨?_, h2.2 hjt, fun hlt => h3.1 (by omega), fun hge => ?_⟩
      · rw [h1.2 hjt]
        exact stdevOK_mk p defaultRound (by omega) _ _
      · exact h3.2 (by omega)
    unfold bbSeries
    by_cases hlt : j - t0 < p
    · rw [if_pos hlt]; exact hb.2.2.1 hlt
    · rw [if_neg hlt]; exact hb.bands (by omega)

/-! #### non-vacuity -/

theorem bbNames_demo2 : BbNames "BB_2" :=
  ⟨by decide, by decide, ⟨by decide, by decide, by decide⟩, by decide, by decide, by decide, by decide, by decide⟩

example : ∃ out : List (Candle ℚ),
    engineCalc (mkTop (.bbands ((2 : Nat) : Int) "EMA_2" : Kind ℚ) "BB_2" 4) demoForeign = .ok out ∧
    out.length = demoForeign.length ∧
    ∀ j, j < demoForeign.length →
      (j < 2 → readingByCandle (out.getD j default) "BB_2" = bbNoneDict) ∧
      (2 ≤ j → BbOwnOK 2 4 (j - 2) (bbSeries 2 demoX (j - 2)) (readingByCandle (out.getD j default) "BB_2")) :=
  c05_bbands ℚ 2 "BB_2" "EMA_2" 4 2 demoForeign demoX (by norm_num) (by decide) bbNames_demo2
    ⟨by decide, by decide, by decide, by decide, by decide⟩
    (by
      intro c hc
      exact ⟨demoForeign_abs "BB_2" (by decide) (by decide) (by decide) c hc,
        demoForeign_abs "BB_2_STDEV" (by decide) (by decide) (by decide) c hc,
        demoForeign_abs "BB_2_STDEV_data" (by decide) (by decide) (by decide) c hc,
        demoForeign_abs "BB_2_SMA" (by decide) (by decide) (by decide) c hc⟩)
    demoForeign_in demoForeign_none

end numeric

/-- the toy carrier: BBANDS of a late-starting foreign reading returns; the middle band is missing on the
first `t0 + p = 3` candles (`decide`) -/
example : (engineCalc (mkTop (.bbands 1 "EMA_2") "BB_1" 4)
    ([{ o := .int 10, h := .int 12, l := .int 9, c := .int 11, v := .int 100 },
      { o := .int 11, h := .int 13, l := .int 10, c := .int 12, v := .int 200, inds := [("EMA_2", .none)] },
      { o := .int 12, h := .int 15, l := .int 11, c := .int 14, v := .int 300, inds := [("EMA_2", .int 12)] },
      { o := .int 14, h := .int 16, l := .int 13, c := .int 15, v := .int 0, inds := [("EMA_2", .int 14)] }]
      : List (Candle Int))).toOption.map
      (fun l => l.map fun c => (readingByCandle c "BB_1.BBM").isNone) = some [true, true, true, false] := by
  decide +kernel

end Numeric
end Hex

#print axioms Hex.Numeric.leafCalc_induct
#print axioms Hex.Numeric.bb_inputs_rows
#print axioms Hex.Numeric.c05_bbands

import HexProofs.Numeric.SeriesOnManagers
/-!
# C06 – the oscillators / trend / volume indicators ARE their textbook series on EVERY manager

For each of RSI, MACD, STOCH, TSI, ADX, Aroon, VWAP, OBV, ROC:

* `x_series_on_manager (M : MgrSpec K) … : HoldsOn M (mkTop …) (XCandle …)` – on every manager with an incremental
  spec, every history over a stream the manager accepts RETURNS one candle per candle of `M.spec stream`; candle `j`
  is candle `j` of `M.spec stream` (same bare candle) and EVERY stored reading – the indicator's and its helper
  series' – satisfies the whole-series predicate of `HexProps/C06.lean` w.r.t. the series READ OFF `M.spec stream`;
* `x_series_tf` – spelled out on `{ tf := some tf }`: the textbook series over `resample tf stream`
  (generalises `Hex.C06.rsi_series_tf` to every kind and adds totality: the history RETURNS);
* `x_series_fillHA` – spelled out on `{ tf := some tf, fill := true, ha := true }`;
* MACD, STOCH, TSI, ADX also as equations: `x_runs_on_manager : RunsAs M … (xOut …)`.

ROC is total only while the reference price is non-zero (the library raises `ZeroDivisionError` otherwise:
`Hex.C09.roc_raises_on_zero`), so its statement is `HoldsOnWhen M … (NonzeroInput fld) …`: the history returns when
the input is non-zero on the manager's candles after construction and after each append.
-/
set_option linter.unusedSectionVars false
set_option linter.unusedVariables false
namespace Hex
namespace Numeric
variable {K : Type} [Field K] [LinearOrder K] [IsStrictOrderedRing K] [LawfulPyF K]

/-! ### the per-candle statements -/

/-- **RSI**: own reading `None` before the true warm-up index `p`, then within `ε_n` of
`100 − 100/(1 + avgGain/avgLoss)` and in `[0, 100]`; `_data` `None` before `p`, then EXACTLY Wilder's averages of the
up / down moves of the manager's candles -/
def RsiCandle (p n : Nat) (nm : String) (fld : Candle K → Num K) : List (Candle K) → Nat → Candle K → Prop :=
  SameCandle fun spec j c =>
    RsiOwnOK n (rsiSeries p (fieldAt fld spec) j) (readingByCandle c nm) ∧
    (j < p → readingByCandle c (nm ++ "_data") = .none) ∧
    (p ≤ j →
      readingByCandle c (nm ++ "_data.gain") = .flt (wilderAvg p (upAt (fieldAt fld spec)) j) ∧
      readingByCandle c (nm ++ "_data.loss") = .flt (wilderAvg p (downAt (fieldAt fld spec)) j))

/-- **MACD**: `MacdCandleOK` (the two EMA helpers and the signal line `RecOK` at 4 decimals, the own fields against
the textbook MACD / signal / histogram, `|histogram − (MACD − signal)| ≤ 3·ε_n`) over the manager's candles -/
def MacdCandle (nm : String) (n pf ps pg : Nat) (fld : Candle K → Num K) : List (Candle K) → Nat → Candle K → Prop :=
  fun spec j c => MacdCandleOK nm n pf ps pg (fieldAt fld spec) j (spec.getD j default) c

/-- **STOCH**: `StochOK` (raw `%K` exact in `_data`, `_k` / `_d` SMA helpers with their growing budgets, the own
dict `{stoch, k, d}`) over the lows / highs / inputs of the manager's candles -/
def StochCandle (n p sk sl : Nat) (nm : String) (fld : Candle K → Num K) : List (Candle K) → Nat → Candle K → Prop :=
  SameCandle fun spec j c =>
    StochOK n p sk sl (fieldAt (·.l) spec) (fieldAt (·.h) spec) (fieldAt fld spec) j
      (readingByCandle c nm) (readingByCandle c (nm ++ "_data")) (readingByCandle c (nm ++ "_k"))
      (readingByCandle c (nm ++ "_d"))

/-- **TSI**: `TsiCandleOK` (exact momentum dict, first- and second-level EMAs `RecOK`, own reading `TsiOK`) over the
manager's candles -/
def TsiCandle (nm : String) (n p s : Nat) (fld : Candle K → Num K) : List (Candle K) → Nat → Candle K → Prop :=
  fun spec j c => TsiCandleOK nm n p s (fieldAt fld spec) j (spec.getD j default) c

/-- **ADX**: `AdxCandleOK` (ATR subtree, exact `±DM` / `dx` entries, Wilder-smoothed helpers `RecOK`, own dict
`adxOwn` with its ranges) over the manager's candles -/
def AdxCandle (nm : String) (n p sg : Nat) : List (Candle K) → Nat → Candle K → Prop :=
  fun spec j c => AdxCandleOK nm n p sg spec j c

/-- **Aroon**: `AroonOK` (all-`None` dict before `p`, then `100·(p − bars since the extreme)/p` over the last `p+1`
candles of the manager's list) -/
def AroonCandle (p n : Nat) (nm : String) : List (Candle K) → Nat → Candle K → Prop :=
  OwnIs nm fun spec j v => AroonOK p n (fieldAt (·.h) spec) (fieldAt (·.l) spec) j v

/-- **VWAP**: from candle 0 on, own reading within `ε_n` of `Σ v·(h+l+c)/3 / Σ v`, `_data.pv` / `_data.vol` exactly
the running sums over the manager's candles -/
def VwapCandle (n : Nat) (nm : String) : List (Candle K) → Nat → Candle K → Prop :=
  SameCandle fun spec j c =>
    NumNear n (vwapExact (fieldAt (·.h) spec) (fieldAt (·.l) spec) (fieldAt (·.c) spec) (fieldAt (·.v) spec) j)
      (readingByCandle c nm) ∧
    NumIs (cumPV (fieldAt (·.h) spec) (fieldAt (·.l) spec) (fieldAt (·.c) spec) (fieldAt (·.v) spec) j)
      (readingByCandle c (nm ++ "_data.pv")) ∧
    NumIs (cumSum (fieldAt (·.v) spec) j) (readingByCandle c (nm ++ "_data.vol"))

/-- **OBV**: a number within `(j+1)·ε_n` of the exact on-balance volume of the manager's candles -/
def ObvCandle (n : Nat) (nm : String) : List (Candle K) → Nat → Candle K → Prop :=
  OwnIs nm fun spec j v => ∃ t : Num K, v = .num t ∧
    |t.toF - obvExact (fieldAt (·.c) spec) (fieldAt (·.v) spec) j| ≤ ((j + 1 : Nat) : K) * eps K n

/-- **ROC**: `None` on the first `p` candles, then within `ε_n` of `100·(x[t] − x[t−p])/x[t−p]` -/
def RocCandle (p n : Nat) (nm : String) (fld : Candle K → Num K) : List (Candle K) → Nat → Candle K → Prop :=
  OwnIs nm fun spec j v => DirectOK (p + 1) n (rocAt (fieldAt fld spec) p) j v

/-- the input is non-zero on every candle of the list (the domain of ROC) -/
def NonzeroInput (fld : Candle K → Num K) (spec : List (Candle K)) : Prop :=
  ∀ j, j < spec.length → fieldAt fld spec j ≠ 0

/-! ### RSI -/

theorem rsi_series_on_manager (M : MgrSpec K) (p : Nat) (hp : 1 ≤ p) (nm input : String) (fld : Candle K → Num K)
    (n : Nat) (hn : RsiNames nm) (hk : IsKey nm) (hin : AttrInput input)
    (hattr : ∀ c : Candle K, c.attr input = some (.num (fld c))) :
    HoldsOn M (mkTop (.rsi (p : Int) input : Kind K) nm n) (RsiCandle p n nm fld) :=
  (rsiTree (F := K) nm n (p : Int) input (by omega) hn hin).holdsOn_same _ (fun raw hraw => by
    obtain ⟨out, hl, hrun, hall⟩ := rsi_series_candles p hp nm input fld n hn hk hin hattr raw hraw
    exact ⟨out, hrun, hl, hall⟩) M

/-- **RSI on a collapsing timeframe, total**: every history over a sorted stamped raw stream RETURNS, with the RSI
series of the collapsed candles -/
theorem rsi_series_tf (tf : Int) (htf : 0 < tf) (p : Nat) (hp : 1 ≤ p) (nm input : String) (fld : Candle K → Num K)
    (n : Nat) (hn : RsiNames nm) (hk : IsKey nm) (hin : AttrInput input)
    (hattr : ∀ c : Candle K, c.attr input = some (.num (fld c)))
    (init : List (Candle K)) (chunks : List (List (Candle K))) (hraw : RawTf (init ++ chunks.flatten)) :
    ∃ snap, candlesOf (runIndicator (mkTop (.rsi (p : Int) input : Kind K) nm n) { tf := some tf } init chunks)
        = .ok snap ∧
      snap.length = (resample tf (init ++ chunks.flatten)).length ∧
      ∀ j, j < (resample tf (init ++ chunks.flatten)).length →
        (snap.getD j default).bare = ((resample tf (init ++ chunks.flatten)).getD j default).bare ∧
        RsiOwnOK n (rsiSeries p (fieldAt fld (resample tf (init ++ chunks.flatten))) j)
          (readingByCandle (snap.getD j default) nm) ∧
        (j < p → readingByCandle (snap.getD j default) (nm ++ "_data") = .none) ∧
        (p ≤ j →
          readingByCandle (snap.getD j default) (nm ++ "_data.gain")
            = .flt (wilderAvg p (upAt (fieldAt fld (resample tf (init ++ chunks.flatten)))) j) ∧
          readingByCandle (snap.getD j default) (nm ++ "_data.loss")
            = .flt (wilderAvg p (downAt (fieldAt fld (resample tf (init ++ chunks.flatten)))) j)) :=
  (rsi_series_on_manager (MgrSpec.tf K tf htf) p hp nm input fld n hn hk hin hattr).on_tf tf htf init chunks hraw

theorem rsi_series_fillHA (tf : Int) (htf : 0 < tf) (p : Nat) (hp : 1 ≤ p) (nm input : String)
    (fld : Candle K → Num K) (n : Nat) (hn : RsiNames nm) (hk : IsKey nm) (hin : AttrInput input)
    (hattr : ∀ c : Candle K, c.attr input = some (.num (fld c)))
    (init : List (Candle K)) (chunks : List (List (Candle K)))
    (hraw : RawTf (init ++ chunks.flatten) ∧ ∀ c ∈ init ++ chunks.flatten, c.tag = false) :
    ∃ snap, candlesOf (runIndicator (mkTop (.rsi (p : Int) input : Kind K) nm n)
        { tf := some tf, fill := true, ha := true } init chunks) = .ok snap ∧
      EveryCandle (RsiCandle p n nm fld) (haSpec (fillSpec tf (init ++ chunks.flatten))) snap :=
  (rsi_series_on_manager (MgrSpec.fillHA K tf htf) p hp nm input fld n hn hk hin hattr).on_fillHA tf htf
    init chunks hraw

/-! ### MACD -/

/-- **the MACD run on every manager is `macdOut` of the manager's candles** -/
theorem macd_runs_on_manager (M : MgrSpec K) (nm : String) (n pf ps pg : Nat) (input : String)
    (fld : Candle K → Num K) (hf : 2 ≤ pf) (hfs : pf ≤ ps) (hg : 1 ≤ pg) (hn : MacdNames nm) (hin : AttrInput input)
    (hattr : ∀ c : Candle K, c.attr input = some (.num (fld c))) :
    RunsAs M (mkTop (.macd (pf : Int) (ps : Int) (pg : Int) input : Kind K) nm n) (macdOut nm n pf ps pg fld) :=
  (macdTreeN (K := K) nm n pf ps pg input (by omega) (by omega) hg hn hin).runsAs _
    (fun raw hraw => macd_series nm n pf ps pg input fld hf hfs hg hn hin hattr raw hraw) M

theorem macd_series_on_manager (M : MgrSpec K) (nm : String) (n pf ps pg : Nat) (input : String)
    (fld : Candle K → Num K) (hf : 2 ≤ pf) (hfs : pf ≤ ps) (hg : 1 ≤ pg) (hn : MacdNames nm) (hin : AttrInput input)
    (hattr : ∀ c : Candle K, c.attr input = some (.num (fld c))) :
    HoldsOn M (mkTop (.macd (pf : Int) (ps : Int) (pg : Int) input : Kind K) nm n) (MacdCandle nm n pf ps pg fld) :=
  (macd_runs_on_manager M nm n pf ps pg input fld hf hfs hg hn hin hattr).holdsOn _ (fun raw hraw =>
    ⟨macdOut_length nm n pf ps pg fld raw, macdOut_ok nm n pf ps pg fld raw (by omega) hfs hg hn hraw⟩)

/-- **MACD on a collapsing timeframe**: the history returns `macdOut` of the collapsed candles, candle by candle
`MacdCandleOK` -/
theorem macd_series_tf (tf : Int) (htf : 0 < tf) (nm : String) (n pf ps pg : Nat) (input : String)
    (fld : Candle K → Num K) (hf : 2 ≤ pf) (hfs : pf ≤ ps) (hg : 1 ≤ pg) (hn : MacdNames nm) (hin : AttrInput input)
    (hattr : ∀ c : Candle K, c.attr input = some (.num (fld c)))
    (init : List (Candle K)) (chunks : List (List (Candle K))) (hraw : RawTf (init ++ chunks.flatten)) :
    ∃ snap, candlesOf (runIndicator (mkTop (.macd (pf : Int) (ps : Int) (pg : Int) input : Kind K) nm n)
        { tf := some tf } init chunks) = .ok snap ∧
      snap = macdOut nm n pf ps pg fld (resample tf (init ++ chunks.flatten)) ∧
      snap.length = (resample tf (init ++ chunks.flatten)).length ∧
      ∀ j, j < (resample tf (init ++ chunks.flatten)).length →
        MacdCandleOK nm n pf ps pg (fieldAt fld (resample tf (init ++ chunks.flatten))) j
          ((resample tf (init ++ chunks.flatten)).getD j default) (snap.getD j default) := by
  have hpl := (MgrSpec.tf K tf htf).spec_plain _ hraw
  exact ⟨_, (macd_runs_on_manager (MgrSpec.tf K tf htf) nm n pf ps pg input fld hf hfs hg hn hin hattr).on_tf tf htf
    init chunks hraw, rfl, macdOut_length nm n pf ps pg fld _,
    macdOut_ok nm n pf ps pg fld _ (by omega) hfs hg hn hpl⟩

theorem macd_series_fillHA (tf : Int) (htf : 0 < tf) (nm : String) (n pf ps pg : Nat) (input : String)
    (fld : Candle K → Num K) (hf : 2 ≤ pf) (hfs : pf ≤ ps) (hg : 1 ≤ pg) (hn : MacdNames nm) (hin : AttrInput input)
    (hattr : ∀ c : Candle K, c.attr input = some (.num (fld c)))
    (init : List (Candle K)) (chunks : List (List (Candle K)))
    (hraw : RawTf (init ++ chunks.flatten) ∧ ∀ c ∈ init ++ chunks.flatten, c.tag = false) :
    ∃ snap, candlesOf (runIndicator (mkTop (.macd (pf : Int) (ps : Int) (pg : Int) input : Kind K) nm n)
        { tf := some tf, fill := true, ha := true } init chunks) = .ok snap ∧
      snap = macdOut nm n pf ps pg fld (haSpec (fillSpec tf (init ++ chunks.flatten))) ∧
      EveryCandle (MacdCandle nm n pf ps pg fld) (haSpec (fillSpec tf (init ++ chunks.flatten))) snap := by
  have hpl := (MgrSpec.fillHA K tf htf).spec_plain _ hraw
  exact ⟨_, (macd_runs_on_manager (MgrSpec.fillHA K tf htf) nm n pf ps pg input fld hf hfs hg hn hin hattr).on_fillHA
    tf htf init chunks hraw, rfl, macdOut_length nm n pf ps pg fld _,
    macdOut_ok nm n pf ps pg fld _ (by omega) hfs hg hn hpl⟩

/-! ### Stochastic -/

/-- **the STOCH run on every manager is `stochDeco` of the manager's candles** -/
theorem stoch_runs_on_manager (M : MgrSpec K) (p sk sl : Nat) (hp : 2 ≤ p) (hsk : 1 ≤ sk) (hsl : 1 ≤ sl)
    (nm input : String) (fld : Candle K → Num K) (n : Nat) (hn : StochNames nm) (hin : AttrInput input)
    (hattr : ∀ c : Candle K, c.attr input = some (.num (fld c))) :
    RunsAs M (mkTop (.stoch (p : Int) (sl : Int) (sk : Int) input : Kind K) nm n) (stochDeco nm n p sk sl fld) :=
  (stochTree (F := K) nm n (p : Int) (sl : Int) (sk : Int) input (by omega) (by omega) (by omega) hn hin).runsAs _
    (fun raw hraw => stoch_series p sk sl hp hsk hsl nm input fld n hn hin hattr raw hraw) M

theorem stoch_series_on_manager (M : MgrSpec K) (p sk sl : Nat) (hp : 2 ≤ p) (hsk : 1 ≤ sk) (hsl : 1 ≤ sl)
    (nm input : String) (fld : Candle K → Num K) (n : Nat) (hn : StochNames nm) (hin : AttrInput input)
    (hattr : ∀ c : Candle K, c.attr input = some (.num (fld c))) :
    HoldsOn M (mkTop (.stoch (p : Int) (sl : Int) (sk : Int) input : Kind K) nm n) (StochCandle n p sk sl nm fld) :=
  (stochTree (F := K) nm n (p : Int) (sl : Int) (sk : Int) input (by omega) (by omega) (by omega) hn hin).holdsOn_same _
    (fun raw hraw => ⟨_, stoch_series p sk sl hp hsk hsl nm input fld n hn hin hattr raw hraw,
      stochDeco_length _ _ _ _ _ _ _, fun j hj => stochDeco_ok p sk sl hp hsk hsl nm fld n hn raw hraw j hj⟩) M

/-- **STOCH on a collapsing timeframe**: `%K` over the lows / highs of the last `p` COLLAPSED candles -/
theorem stoch_series_tf (tf : Int) (htf : 0 < tf) (p sk sl : Nat) (hp : 2 ≤ p) (hsk : 1 ≤ sk) (hsl : 1 ≤ sl)
    (nm input : String) (fld : Candle K → Num K) (n : Nat) (hn : StochNames nm) (hin : AttrInput input)
    (hattr : ∀ c : Candle K, c.attr input = some (.num (fld c)))
    (init : List (Candle K)) (chunks : List (List (Candle K))) (hraw : RawTf (init ++ chunks.flatten)) :
    ∃ snap, candlesOf (runIndicator (mkTop (.stoch (p : Int) (sl : Int) (sk : Int) input : Kind K) nm n)
        { tf := some tf } init chunks) = .ok snap ∧
      snap = stochDeco nm n p sk sl fld (resample tf (init ++ chunks.flatten)) ∧
      snap.length = (resample tf (init ++ chunks.flatten)).length ∧
      ∀ j, j < (resample tf (init ++ chunks.flatten)).length →
        StochOK n p sk sl (fieldAt (·.l) (resample tf (init ++ chunks.flatten)))
          (fieldAt (·.h) (resample tf (init ++ chunks.flatten))) (fieldAt fld (resample tf (init ++ chunks.flatten))) j
          (readingByCandle (snap.getD j default) nm) (readingByCandle (snap.getD j default) (nm ++ "_data"))
          (readingByCandle (snap.getD j default) (nm ++ "_k")) (readingByCandle (snap.getD j default) (nm ++ "_d")) := by
  have hpl := (MgrSpec.tf K tf htf).spec_plain _ hraw
  exact ⟨_, (stoch_runs_on_manager (MgrSpec.tf K tf htf) p sk sl hp hsk hsl nm input fld n hn hin hattr).on_tf tf htf
    init chunks hraw, rfl, stochDeco_length _ _ _ _ _ _ _,
    fun j hj => stochDeco_ok p sk sl hp hsk hsl nm fld n hn _ hpl j hj⟩

theorem stoch_series_fillHA (tf : Int) (htf : 0 < tf) (p sk sl : Nat) (hp : 2 ≤ p) (hsk : 1 ≤ sk) (hsl : 1 ≤ sl)
    (nm input : String) (fld : Candle K → Num K) (n : Nat) (hn : StochNames nm) (hin : AttrInput input)
    (hattr : ∀ c : Candle K, c.attr input = some (.num (fld c)))
    (init : List (Candle K)) (chunks : List (List (Candle K)))
    (hraw : RawTf (init ++ chunks.flatten) ∧ ∀ c ∈ init ++ chunks.flatten, c.tag = false) :
    ∃ snap, candlesOf (runIndicator (mkTop (.stoch (p : Int) (sl : Int) (sk : Int) input : Kind K) nm n)
        { tf := some tf, fill := true, ha := true } init chunks) = .ok snap ∧
      EveryCandle (StochCandle n p sk sl nm fld) (haSpec (fillSpec tf (init ++ chunks.flatten))) snap :=
  (stoch_series_on_manager (MgrSpec.fillHA K tf htf) p sk sl hp hsk hsl nm input fld n hn hin hattr).on_fillHA tf htf
    init chunks hraw

/-! ### TSI -/

/-- **the TSI run on every manager is `tsiOut` of the manager's candles** -/
theorem tsi_runs_on_manager (M : MgrSpec K) (nm : String) (n p s : Nat) (input : String) (fld : Candle K → Num K)
    (hp : 1 ≤ p) (hs : 1 ≤ s) (hn : TsiNames nm) (hin : AttrInput input)
    (hattr : ∀ c : Candle K, c.attr input = some (.num (fld c))) :
    RunsAs M (mkTop (.tsi (p : Int) (s : Int) input : Kind K) nm n) (tsiOut nm n p s fld) :=
  (tsiTreeN (K := K) nm n p s input hp hs hn hin).runsAs _
    (fun raw hraw => tsi_series nm n p s input fld hp hs hn hin hattr raw hraw) M

theorem tsi_series_on_manager (M : MgrSpec K) (nm : String) (n p s : Nat) (input : String) (fld : Candle K → Num K)
    (hp : 1 ≤ p) (hs : 1 ≤ s) (hn : TsiNames nm) (hin : AttrInput input)
    (hattr : ∀ c : Candle K, c.attr input = some (.num (fld c))) :
    HoldsOn M (mkTop (.tsi (p : Int) (s : Int) input : Kind K) nm n) (TsiCandle nm n p s fld) :=
  (tsi_runs_on_manager M nm n p s input fld hp hs hn hin hattr).holdsOn _ (fun raw hraw =>
    ⟨tsiOut_length nm n p s fld raw, tsiOut_ok nm n p s fld raw hp hs hn hraw⟩)

theorem tsi_series_tf (tf : Int) (htf : 0 < tf) (nm : String) (n p s : Nat) (input : String)
    (fld : Candle K → Num K) (hp : 1 ≤ p) (hs : 1 ≤ s) (hn : TsiNames nm) (hin : AttrInput input)
    (hattr : ∀ c : Candle K, c.attr input = some (.num (fld c)))
    (init : List (Candle K)) (chunks : List (List (Candle K))) (hraw : RawTf (init ++ chunks.flatten)) :
    ∃ snap, candlesOf (runIndicator (mkTop (.tsi (p : Int) (s : Int) input : Kind K) nm n) { tf := some tf }
        init chunks) = .ok snap ∧
      snap = tsiOut nm n p s fld (resample tf (init ++ chunks.flatten)) ∧
      snap.length = (resample tf (init ++ chunks.flatten)).length ∧
      ∀ j, j < (resample tf (init ++ chunks.flatten)).length →
        TsiCandleOK nm n p s (fieldAt fld (resample tf (init ++ chunks.flatten))) j
          ((resample tf (init ++ chunks.flatten)).getD j default) (snap.getD j default) := by
  have hpl := (MgrSpec.tf K tf htf).spec_plain _ hraw
  exact ⟨_, (tsi_runs_on_manager (MgrSpec.tf K tf htf) nm n p s input fld hp hs hn hin hattr).on_tf tf htf
    init chunks hraw, rfl, tsiOut_length nm n p s fld _, tsiOut_ok nm n p s fld _ hp hs hn hpl⟩

theorem tsi_series_fillHA (tf : Int) (htf : 0 < tf) (nm : String) (n p s : Nat) (input : String)
    (fld : Candle K → Num K) (hp : 1 ≤ p) (hs : 1 ≤ s) (hn : TsiNames nm) (hin : AttrInput input)
    (hattr : ∀ c : Candle K, c.attr input = some (.num (fld c)))
    (init : List (Candle K)) (chunks : List (List (Candle K)))
    (hraw : RawTf (init ++ chunks.flatten) ∧ ∀ c ∈ init ++ chunks.flatten, c.tag = false) :
    ∃ snap, candlesOf (runIndicator (mkTop (.tsi (p : Int) (s : Int) input : Kind K) nm n)
        { tf := some tf, fill := true, ha := true } init chunks) = .ok snap ∧
      snap = tsiOut nm n p s fld (haSpec (fillSpec tf (init ++ chunks.flatten))) ∧
      EveryCandle (TsiCandle nm n p s fld) (haSpec (fillSpec tf (init ++ chunks.flatten))) snap := by
  have hpl := (MgrSpec.fillHA K tf htf).spec_plain _ hraw
  exact ⟨_, (tsi_runs_on_manager (MgrSpec.fillHA K tf htf) nm n p s input fld hp hs hn hin hattr).on_fillHA tf htf
    init chunks hraw, rfl, tsiOut_length nm n p s fld _, tsiOut_ok nm n p s fld _ hp hs hn hpl⟩

/-! ### ADX -/

/-- **the ADX run on every manager is `adxOut` of the manager's candles** -/
theorem adx_runs_on_manager (M : MgrSpec K) (nm : String) (n p sg : Nat) (hp : 1 ≤ p) (hg : 1 ≤ sg)
    (hn : AdxNames nm) : RunsAs M (mkTop (.adx (p : Int) (sg : Int) : Kind K) nm n) (adxOut nm n p sg) :=
  (adxTreeN (K := K) nm n p sg hp hg hn).runsAs _ (fun raw hraw => adx_series nm n p sg hp hg hn raw hraw) M

theorem adx_series_on_manager (M : MgrSpec K) (nm : String) (n p sg : Nat) (hp : 1 ≤ p) (hg : 1 ≤ sg)
    (hn : AdxNames nm) : HoldsOn M (mkTop (.adx (p : Int) (sg : Int) : Kind K) nm n) (AdxCandle nm n p sg) :=
  (adx_runs_on_manager M nm n p sg hp hg hn).holdsOn _ (fun raw hraw =>
    ⟨adxOut_length nm n p sg raw, adxOut_ok nm n p sg raw hp hg hn hraw⟩)

theorem adx_series_tf (tf : Int) (htf : 0 < tf) (nm : String) (n p sg : Nat) (hp : 1 ≤ p) (hg : 1 ≤ sg)
    (hn : AdxNames nm) (init : List (Candle K)) (chunks : List (List (Candle K)))
    (hraw : RawTf (init ++ chunks.flatten)) :
    ∃ snap, candlesOf (runIndicator (mkTop (.adx (p : Int) (sg : Int) : Kind K) nm n) { tf := some tf }
        init chunks) = .ok snap ∧
      snap = adxOut nm n p sg (resample tf (init ++ chunks.flatten)) ∧
      snap.length = (resample tf (init ++ chunks.flatten)).length ∧
      ∀ j, j < (resample tf (init ++ chunks.flatten)).length →
        AdxCandleOK nm n p sg (resample tf (init ++ chunks.flatten)) j (snap.getD j default) := by
  have hpl := (MgrSpec.tf K tf htf).spec_plain _ hraw
  exact ⟨_, (adx_runs_on_manager (MgrSpec.tf K tf htf) nm n p sg hp hg hn).on_tf tf htf init chunks hraw, rfl,
    adxOut_length nm n p sg _, adxOut_ok nm n p sg _ hp hg hn hpl⟩

theorem adx_series_fillHA (tf : Int) (htf : 0 < tf) (nm : String) (n p sg : Nat) (hp : 1 ≤ p) (hg : 1 ≤ sg)
    (hn : AdxNames nm) (init : List (Candle K)) (chunks : List (List (Candle K)))
    (hraw : RawTf (init ++ chunks.flatten) ∧ ∀ c ∈ init ++ chunks.flatten, c.tag = false) :
    ∃ snap, candlesOf (runIndicator (mkTop (.adx (p : Int) (sg : Int) : Kind K) nm n)
        { tf := some tf, fill := true, ha := true } init chunks) = .ok snap ∧
      snap = adxOut nm n p sg (haSpec (fillSpec tf (init ++ chunks.flatten))) ∧
      EveryCandle (AdxCandle nm n p sg) (haSpec (fillSpec tf (init ++ chunks.flatten))) snap := by
  have hpl := (MgrSpec.fillHA K tf htf).spec_plain _ hraw
  exact ⟨_, (adx_runs_on_manager (MgrSpec.fillHA K tf htf) nm n p sg hp hg hn).on_fillHA tf htf init chunks hraw, rfl,
    adxOut_length nm n p sg _, adxOut_ok nm n p sg _ hp hg hn hpl⟩

/-! ### Aroon -/

theorem aroon_series_on_manager (M : MgrSpec K) (p : Nat) (hp : 1 ≤ p) (nm : String) (n : Nat) (hk : IsKey nm) :
    HoldsOn M (mkTop (.aroon p : Kind K) nm n) (AroonCandle p n nm) :=
  leaf_series_on_manager _ nm n (Covered.aroon (p : Int) (by omega)) hk _
    (fun raw hraw => aroon_series p hp nm n raw hraw) M

theorem aroon_series_tf (tf : Int) (htf : 0 < tf) (p : Nat) (hp : 1 ≤ p) (nm : String) (n : Nat) (hk : IsKey nm)
    (init : List (Candle K)) (chunks : List (List (Candle K))) (hraw : RawTf (init ++ chunks.flatten)) :
    ∃ snap, candlesOf (runIndicator (mkTop (.aroon p : Kind K) nm n) { tf := some tf } init chunks) = .ok snap ∧
      snap.length = (resample tf (init ++ chunks.flatten)).length ∧
      ∀ j, j < (resample tf (init ++ chunks.flatten)).length →
        (snap.getD j default).bare = ((resample tf (init ++ chunks.flatten)).getD j default).bare ∧
        AroonOK p n (fieldAt (·.h) (resample tf (init ++ chunks.flatten)))
          (fieldAt (·.l) (resample tf (init ++ chunks.flatten))) j (readingByCandle (snap.getD j default) nm) :=
  (aroon_series_on_manager (MgrSpec.tf K tf htf) p hp nm n hk).on_tf tf htf init chunks hraw

theorem aroon_series_fillHA (tf : Int) (htf : 0 < tf) (p : Nat) (hp : 1 ≤ p) (nm : String) (n : Nat) (hk : IsKey nm)
    (init : List (Candle K)) (chunks : List (List (Candle K)))
    (hraw : RawTf (init ++ chunks.flatten) ∧ ∀ c ∈ init ++ chunks.flatten, c.tag = false) :
    ∃ snap, candlesOf (runIndicator (mkTop (.aroon p : Kind K) nm n) { tf := some tf, fill := true, ha := true }
        init chunks) = .ok snap ∧
      EveryCandle (AroonCandle p n nm) (haSpec (fillSpec tf (init ++ chunks.flatten))) snap :=
  (aroon_series_on_manager (MgrSpec.fillHA K tf htf) p hp nm n hk).on_fillHA tf htf init chunks hraw

/-! ### VWAP -/

theorem vwap_series_on_manager (M : MgrSpec K) (p : Int) (nm : String) (n : Nat) (hn : VwapNames nm) :
    HoldsOn M (mkTop (.vwap p : Kind K) nm n) (VwapCandle n nm) :=
  (vwapTree (F := K) nm n p).holdsOn_same _ (fun raw hraw => by
    obtain ⟨out, hl, hrun, hall⟩ := vwap_series_candles p nm n hn raw hraw
    exact ⟨out, hrun, hl, hall⟩) M

/-- **VWAP on a collapsing timeframe**: cumulative over the COLLAPSED candles (bucket volume × bucket typical price) -/
theorem vwap_series_tf (tf : Int) (htf : 0 < tf) (p : Int) (nm : String) (n : Nat) (hn : VwapNames nm)
    (init : List (Candle K)) (chunks : List (List (Candle K))) (hraw : RawTf (init ++ chunks.flatten)) :
    ∃ snap, candlesOf (runIndicator (mkTop (.vwap p : Kind K) nm n) { tf := some tf } init chunks) = .ok snap ∧
      snap.length = (resample tf (init ++ chunks.flatten)).length ∧
      ∀ j, j < (resample tf (init ++ chunks.flatten)).length →
        (snap.getD j default).bare = ((resample tf (init ++ chunks.flatten)).getD j default).bare ∧
        NumNear n (vwapExact (fieldAt (·.h) (resample tf (init ++ chunks.flatten)))
            (fieldAt (·.l) (resample tf (init ++ chunks.flatten))) (fieldAt (·.c) (resample tf (init ++ chunks.flatten)))
            (fieldAt (·.v) (resample tf (init ++ chunks.flatten))) j) (readingByCandle (snap.getD j default) nm) ∧
        NumIs (cumPV (fieldAt (·.h) (resample tf (init ++ chunks.flatten)))
            (fieldAt (·.l) (resample tf (init ++ chunks.flatten))) (fieldAt (·.c) (resample tf (init ++ chunks.flatten)))
            (fieldAt (·.v) (resample tf (init ++ chunks.flatten))) j)
          (readingByCandle (snap.getD j default) (nm ++ "_data.pv")) ∧
        NumIs (cumSum (fieldAt (·.v) (resample tf (init ++ chunks.flatten))) j)
          (readingByCandle (snap.getD j default) (nm ++ "_data.vol")) :=
  (vwap_series_on_manager (MgrSpec.tf K tf htf) p nm n hn).on_tf tf htf init chunks hraw

theorem vwap_series_fillHA (tf : Int) (htf : 0 < tf) (p : Int) (nm : String) (n : Nat) (hn : VwapNames nm)
    (init : List (Candle K)) (chunks : List (List (Candle K)))
    (hraw : RawTf (init ++ chunks.flatten) ∧ ∀ c ∈ init ++ chunks.flatten, c.tag = false) :
    ∃ snap, candlesOf (runIndicator (mkTop (.vwap p : Kind K) nm n) { tf := some tf, fill := true, ha := true }
        init chunks) = .ok snap ∧
      EveryCandle (VwapCandle n nm) (haSpec (fillSpec tf (init ++ chunks.flatten))) snap :=
  (vwap_series_on_manager (MgrSpec.fillHA K tf htf) p nm n hn).on_fillHA tf htf init chunks hraw

/-! ### OBV -/

theorem obv_series_on_manager (M : MgrSpec K) (nm : String) (n : Nat) (hk : IsKey nm) :
    HoldsOn M (mkTop .obv nm n) (ObvCandle (K := K) n nm) :=
  leaf_series_on_manager _ nm n Covered.obv hk _ (fun raw hraw => obv_series nm n hk raw hraw) M

/-- **OBV on a collapsing timeframe**: ± the BUCKET volume by the sign of the change of the bucket closes -/
theorem obv_series_tf (tf : Int) (htf : 0 < tf) (nm : String) (n : Nat) (hk : IsKey nm)
    (init : List (Candle K)) (chunks : List (List (Candle K))) (hraw : RawTf (init ++ chunks.flatten)) :
    ∃ snap, candlesOf (runIndicator (mkTop .obv nm n) { tf := some tf } init chunks) = .ok snap ∧
      snap.length = (resample tf (init ++ chunks.flatten)).length ∧
      ∀ j, j < (resample tf (init ++ chunks.flatten)).length →
        (snap.getD j default).bare = ((resample tf (init ++ chunks.flatten)).getD j default).bare ∧
        ∃ t : Num K, readingByCandle (snap.getD j default) nm = .num t ∧
          |t.toF - obvExact (fieldAt (·.c) (resample tf (init ++ chunks.flatten)))
            (fieldAt (·.v) (resample tf (init ++ chunks.flatten))) j| ≤ ((j + 1 : Nat) : K) * eps K n :=
  (obv_series_on_manager (MgrSpec.tf K tf htf) nm n hk).on_tf tf htf init chunks hraw

theorem obv_series_fillHA (tf : Int) (htf : 0 < tf) (nm : String) (n : Nat) (hk : IsKey nm)
    (init : List (Candle K)) (chunks : List (List (Candle K)))
    (hraw : RawTf (init ++ chunks.flatten) ∧ ∀ c ∈ init ++ chunks.flatten, c.tag = false) :
    ∃ snap, candlesOf (runIndicator (mkTop .obv nm n) { tf := some tf, fill := true, ha := true } init chunks)
        = .ok snap ∧
      EveryCandle (ObvCandle n nm) (haSpec (fillSpec tf (init ++ chunks.flatten))) snap :=
  (obv_series_on_manager (MgrSpec.fillHA K tf htf) nm n hk).on_fillHA tf htf init chunks hraw

/-! ### ROC (total while the reference input is non-zero) -/

/-- **ROC is its textbook series on every manager whose candles keep a non-zero input** (after construction and
after every append – the library divides by the reference value unguarded) -/
theorem roc_series_on_manager (M : MgrSpec K) (p : Nat) (hp : 1 ≤ p) (nm input : String) (fld : Candle K → Num K)
    (n : Nat) (hk : IsKey nm) (hin : AttrInput input) (hattr : ∀ c : Candle K, c.attr input = some (.num (fld c))) :
    HoldsOnWhen M (mkTop (.roc p input) nm n) (NonzeroInput fld) (RocCandle p n nm fld) :=
  leaf_series_on_manager_when _ nm n (Covered.roc (p : Int) input (by omega) hk hin) hk _ _
    (fun raw hraw hnz => roc_series p hp nm input fld n hk hin.1 hattr raw hraw hnz) M

theorem roc_series_tf (tf : Int) (htf : 0 < tf) (p : Nat) (hp : 1 ≤ p) (nm input : String) (fld : Candle K → Num K)
    (n : Nat) (hk : IsKey nm) (hin : AttrInput input) (hattr : ∀ c : Candle K, c.attr input = some (.num (fld c)))
    (init : List (Candle K)) (chunks : List (List (Candle K))) (hraw : RawTf (init ++ chunks.flatten))
    (hnz : ∀ k, k ≤ chunks.length → ∀ j, j < (resample tf (init ++ (chunks.take k).flatten)).length →
      fieldAt fld (resample tf (init ++ (chunks.take k).flatten)) j ≠ 0) :
    ∃ snap, candlesOf (runIndicator (mkTop (.roc p input) nm n) { tf := some tf } init chunks) = .ok snap ∧
      snap.length = (resample tf (init ++ chunks.flatten)).length ∧
      ∀ j, j < (resample tf (init ++ chunks.flatten)).length →
        (snap.getD j default).bare = ((resample tf (init ++ chunks.flatten)).getD j default).bare ∧
        DirectOK (p + 1) n (rocAt (fieldAt fld (resample tf (init ++ chunks.flatten))) p) j
          (readingByCandle (snap.getD j default) nm) :=
  (roc_series_on_manager (MgrSpec.tf K tf htf) p hp nm input fld n hk hin hattr).on_tf tf htf init chunks hraw hnz

theorem roc_series_fillHA (tf : Int) (htf : 0 < tf) (p : Nat) (hp : 1 ≤ p) (nm input : String)
    (fld : Candle K → Num K) (n : Nat) (hk : IsKey nm) (hin : AttrInput input)
    (hattr : ∀ c : Candle K, c.attr input = some (.num (fld c)))
    (init : List (Candle K)) (chunks : List (List (Candle K)))
    (hraw : RawTf (init ++ chunks.flatten) ∧ ∀ c ∈ init ++ chunks.flatten, c.tag = false)
    (hnz : ∀ k, k ≤ chunks.length → NonzeroInput fld (haSpec (fillSpec tf (init ++ (chunks.take k).flatten)))) :
    ∃ snap, candlesOf (runIndicator (mkTop (.roc p input) nm n) { tf := some tf, fill := true, ha := true }
        init chunks) = .ok snap ∧
      EveryCandle (RocCandle p n nm fld) (haSpec (fillSpec tf (init ++ chunks.flatten))) snap :=
  (roc_series_on_manager (MgrSpec.fillHA K tf htf) p hp nm input fld n hk hin hattr).on_fillHA tf htf
    init chunks hraw hnz

/-! ### non-vacuity over ℚ: the stamped demo stream `haStamped` on a two-minute timeframe -/

/-- RSI(2), two-minute timeframe, two candles at construction and three appended: four candles, no reading before
COLLAPSED index 2, then a float in `[0, 100]` within `ε₄` of the textbook RSI of the collapsed closes -/
example : ∃ snap : List (Candle ℚ),
    candlesOf (runIndicator (mkTop (.rsi ((2 : Nat) : Int) "close" : Kind ℚ) "RSI_2" 4) { tf := some 120 }
      (haStamped.take 2) [haStamped.drop 2]) = .ok snap ∧ snap.length = 4 ∧
    readingByCandle (snap.getD 1 default) "RSI_2" = .none ∧
    ∃ y, readingByCandle (snap.getD 3 default) "RSI_2" = .flt y ∧
      |y - rsiExact 2 (fieldAt (·.c) (resample 120 haStamped)) 3| ≤ eps ℚ 4 ∧ 0 ≤ y ∧ y ≤ 100 := by
  obtain ⟨snap, h1, h2, h3⟩ := rsi_series_tf (K := ℚ) 120 (by decide) 2 (by norm_num) "RSI_2" "close" (·.c) 4
    rsiNames_demo2 (by decide) ⟨noDot_close, by decide⟩ (fun _ => rfl) (haStamped.take 2) [haStamped.drop 2]
    haStamped_ok.1
  have e : haStamped.take 2 ++ [haStamped.drop 2].flatten = haStamped := by simp
  rw [e] at h2 h3
  have hlen : (resample 120 haStamped).length = 4 := by decide +kernel
  rw [hlen] at h2 h3
  have a1 := (h3 1 (by decide)).2.1
  have a3 := (h3 3 (by decide)).2.1
  unfold rsiSeries at a1 a3
  rw [if_pos (by decide)] at a1
  rw [if_neg (by decide)] at a3
  exact ⟨snap, h1, h2, a1, a3⟩

/-- MACD(2, 3, 2), ADX(2, 2), TSI(2, 1), STOCH(2, 2, 2) on timeframe + gap filling + Heikin-Ashi: the histories
return the explicit functions of the five converted filled buckets -/
example :
    (∃ snap : List (Candle ℚ),
      candlesOf (runIndicator
        (mkTop (.macd ((2 : Nat) : Int) ((3 : Nat) : Int) ((2 : Nat) : Int) "close" : Kind ℚ) "MACD_2_3_2" 4)
        { tf := some 120, fill := true, ha := true } [] (haStamped.map fun c => [c])) = .ok snap ∧
      snap = macdOut "MACD_2_3_2" 4 2 3 2 (·.c) (haSpec (fillSpec 120 ([] ++ (haStamped.map fun c => [c]).flatten))) ∧
      EveryCandle (MacdCandle "MACD_2_3_2" 4 2 3 2 (·.c))
        (haSpec (fillSpec 120 ([] ++ (haStamped.map fun c => [c]).flatten))) snap) ∧
    (∃ snap : List (Candle ℚ),
      candlesOf (runIndicator (mkTop (.adx ((2 : Nat) : Int) ((2 : Nat) : Int) : Kind ℚ) "ADX_2_2" 4)
        { tf := some 120, fill := true, ha := true } [] (haStamped.map fun c => [c])) = .ok snap ∧
      snap = adxOut "ADX_2_2" 4 2 2 (haSpec (fillSpec 120 ([] ++ (haStamped.map fun c => [c]).flatten))) ∧
      EveryCandle (AdxCandle "ADX_2_2" 4 2 2) (haSpec (fillSpec 120 ([] ++ (haStamped.map fun c => [c]).flatten))) snap) ∧
    (∃ snap : List (Candle ℚ),
      candlesOf (runIndicator (mkTop (.tsi ((2 : Nat) : Int) ((1 : Nat) : Int) "close" : Kind ℚ) "TSI_2_1" 4)
        { tf := some 120, fill := true, ha := true } [] (haStamped.map fun c => [c])) = .ok snap ∧
      snap = tsiOut "TSI_2_1" 4 2 1 (·.c) (haSpec (fillSpec 120 ([] ++ (haStamped.map fun c => [c]).flatten))) ∧
      EveryCandle (TsiCandle "TSI_2_1" 4 2 1 (·.c))
        (haSpec (fillSpec 120 ([] ++ (haStamped.map fun c => [c]).flatten))) snap) ∧
    (∃ snap : List (Candle ℚ),
      candlesOf (runIndicator
        (mkTop (.stoch ((2 : Nat) : Int) ((2 : Nat) : Int) ((2 : Nat) : Int) "close" : Kind ℚ) "STOCH_2" 4)
        { tf := some 120, fill := true, ha := true } [] (haStamped.map fun c => [c])) = .ok snap ∧
      EveryCandle (StochCandle 4 2 2 2 "STOCH_2" (·.c))
        (haSpec (fillSpec 120 ([] ++ (haStamped.map fun c => [c]).flatten))) snap) :=
  ⟨macd_series_fillHA (K := ℚ) 120 (by decide) "MACD_2_3_2" 4 2 3 2 "close" (·.c) (by norm_num) (by norm_num)
      (by norm_num) macdNames_demo ⟨noDot_close, by decide⟩ (fun _ => rfl) [] _ haStamped_ok,
   adx_series_fillHA (K := ℚ) 120 (by decide) "ADX_2_2" 4 2 2 (by norm_num) (by norm_num) adxNames_demo [] _
      haStamped_ok,
   tsi_series_fillHA (K := ℚ) 120 (by decide) "TSI_2_1" 4 2 1 "close" (·.c) (by norm_num) (by norm_num)
      tsiNames_demo ⟨noDot_close, by decide⟩ (fun _ => rfl) [] _ haStamped_ok,
   stoch_series_fillHA (K := ℚ) 120 (by decide) 2 2 2 (by norm_num) (by norm_num) (by norm_num) "STOCH_2" "close"
      (·.c) 4 stochNames_demo ⟨noDot_close, by decide⟩ (fun _ => rfl) [] _ haStamped_ok⟩

/-- ROC(1) on the two-minute timeframe, two candles at construction and three appended: the collapsed closes are
non-zero after construction and after the append, so the history returns -/
example : ∃ snap : List (Candle ℚ),
    candlesOf (runIndicator (mkTop (.roc (1 : Nat) "close") "ROC_1" 4) { tf := some 120 }
      (haStamped.take 2) [haStamped.drop 2]) = .ok snap ∧
    snap.length = (resample 120 (haStamped.take 2 ++ [haStamped.drop 2].flatten)).length ∧
    ∀ j, j < (resample 120 (haStamped.take 2 ++ [haStamped.drop 2].flatten)).length →
      (snap.getD j default).bare = ((resample 120 (haStamped.take 2 ++ [haStamped.drop 2].flatten)).getD j default).bare ∧
      DirectOK (1 + 1) 4 (rocAt (fieldAt (·.c) (resample 120 (haStamped.take 2 ++ [haStamped.drop 2].flatten))) 1) j
        (readingByCandle (snap.getD j default) "ROC_1") := by
  refine roc_series_tf (K := ℚ) 120 (by decide) 1 (by norm_num) "ROC_1" "close" (·.c) 4 (by decide)
    ⟨noDot_close, by decide⟩ (fun _ => rfl) _ _ (by simpa using haStamped_ok.1) ?_
  intro k hk
  have hk' : k = 0 ∨ k = 1 := by simp at hk; omega
  rcases hk' with rfl | rfl
  · have hl : (resample 120 (haStamped.take 2 ++ ([haStamped.drop 2].take 0).flatten)).length = 1 := by
      decide +kernel
    intro j hj
    rw [hl] at hj
    interval_cases j
    decide +kernel
  · have hl : (resample 120 (haStamped.take 2 ++ ([haStamped.drop 2].take 1).flatten)).length = 4 := by
      decide +kernel
    intro j hj
    rw [hl] at hj
    interval_cases j <;> decide +kernel

end Numeric

/-! ### non-vacuity over the toy carrier `Int` (`decide +kernel`): the runs themselves on the two-minute timeframe -/
section IntDemo

/-- RSI(2) / Aroon(2) / OBV over `Int`, two-minute timeframe, mixed append schedule: one candle per bucket, warm-up
counted in COLLAPSED candles -/
example : ((candlesOf (runIndicator (mkTop (.rsi 2 "close") "RSI_2" 4 : Ind Int) { tf := some 120 }
      (haIntStream.take 1) [haIntStream.drop 1 |>.take 2, [], haIntStream.drop 3])).toOption.map
      (·.map fun c => (c.ts, (readingByCandle c "RSI_2").isNone)))
    = some [(some 120, true), (some 240, true), (some 480, false), (some 600, false)] := by decide +kernel

example : ((candlesOf (runIndicator (mkTop (.aroon 2) "AROON_2" 4 : Ind Int) { tf := some 120, fill := true }
      [] (haIntStream.map fun c => [c]))).toOption.map
      (·.map fun c => (c.ts, ((readingByCandle c "AROON_2").nested "AROONU").isNone)))
    = some [(some 120, true), (some 240, true), (some 360, false), (some 480, false), (some 600, false)] := by
  decide +kernel

example : ((candlesOf (runIndicator (mkTop .obv "OBV" 4 : Ind Int) { tf := some 120 }
      (haIntStream.take 1) [haIntStream.drop 1 |>.take 2, [], haIntStream.drop 3])).toOption.map
      (·.map fun c => (c.ts, (readingByCandle c "OBV").isNone)))
    = some [(some 120, false), (some 240, false), (some 480, false), (some 600, false)] := by decide +kernel

/-- MACD(2, 3, 2) and ADX(2, 2) over `Int` on timeframe + gap filling + Heikin-Ashi, fed one candle at a time -/
example : ((candlesOf (runIndicator (mkTop (.macd 2 3 2 "close") "MACD_2_3_2" 4 : Ind Int)
      { tf := some 120, fill := true, ha := true } [] (haIntStream.map fun c => [c]))).toOption.map
      (·.map fun c => (((readingByCandle c "MACD_2_3_2").nested "MACD").isNone,
        ((readingByCandle c "MACD_2_3_2").nested "signal").isNone)))
    = some [(true, true), (true, true), (false, true), (false, false), (false, false)] := by decide +kernel

example : ((candlesOf (runIndicator (mkTop (.adx 2 2) "ADX_2_2" 4 : Ind Int)
      { tf := some 120, fill := true, ha := true } [] (haIntStream.map fun c => [c]))).toOption.map
      (·.map fun c => ((readingByCandle c "ADX_2_2").nested "ADX").isNone))
    = some [true, true, true, false, false] := by decide +kernel

end IntDemo
end Hex

#print axioms Hex.Numeric.rsi_series_on_manager
#print axioms Hex.Numeric.rsi_series_tf
#print axioms Hex.Numeric.rsi_series_fillHA
#print axioms Hex.Numeric.macd_runs_on_manager
#print axioms Hex.Numeric.macd_series_on_manager
#print axioms Hex.Numeric.macd_series_tf
#print axioms Hex.Numeric.macd_series_fillHA
#print axioms Hex.Numeric.stoch_runs_on_manager
#print axioms Hex.Numeric.stoch_series_on_manager
#print axioms Hex.Numeric.stoch_series_tf
#print axioms Hex.Numeric.stoch_series_fillHA
#print axioms Hex.Numeric.tsi_runs_on_manager
#print axioms Hex.Numeric.tsi_series_on_manager
#print axioms Hex.Numeric.tsi_series_tf
#print axioms Hex.Numeric.tsi_series_fillHA
#print axioms Hex.Numeric.adx_runs_on_manager
#print axioms Hex.Numeric.adx_series_on_manager
#print axioms Hex.Numeric.adx_series_tf
#print axioms Hex.Numeric.adx_series_fillHA
#print axioms Hex.Numeric.aroon_series_on_manager
#print axioms Hex.Numeric.aroon_series_tf
#print axioms Hex.Numeric.aroon_series_fillHA
#print axioms Hex.Numeric.vwap_series_on_manager
#print axioms Hex.Numeric.vwap_series_tf
#print axioms Hex.Numeric.vwap_series_fillHA
#print axioms Hex.Numeric.obv_series_on_manager
#print axioms Hex.Numeric.obv_series_tf
#print axioms Hex.Numeric.obv_series_fillHA
#print axioms Hex.Numeric.roc_series_on_manager
#print axioms Hex.Numeric.roc_series_tf
#print axioms Hex.Numeric.roc_series_fillHA

import HexProofs.Numeric.Composite
/-!
# Rolling standard deviation (running mean / variance update)
-/
set_option linter.unusedSectionVars false
set_option linter.unusedSimpArgs false
namespace Hex
variable {K : Type} [Field K] [LinearOrder K] [IsStrictOrderedRing K] [LawfulPyF K]
namespace Numeric

theorem Num.add_flt (a : Num K) (y : K) : a.add (.flt y) = .flt (a.toF + y) := by
  cases a <;> simp [Num.add, LawfulPyF.add_eq, Num.toF, LawfulPyF.ofInt_eq]

/-- running mean after replacing `rem` by `x` in a window of `p` values -/
def meanStep (p om x rem : K) : K := om + (x - rem) / p
/-- running population variance after the same replacement -/
def varStep (p om ov x rem : K) : K := ov + (x - rem) * ((x - meanStep p om x rem) + rem - om) / p

/-- **the running update is exact**: if `om`, `ov` are the mean and population variance of a
window with sum `S` and sum of squares `Q`, the updated values are the mean and population
variance of the window with `rem` replaced by `x`. -/
theorem welford (p S Q x rem : K) (hp : p ≠ 0) :
    meanStep p (S / p) x rem = (S - rem + x) / p ∧
    varStep p (S / p) (Q / p - (S / p) ^ 2) x rem = (Q - rem ^ 2 + x ^ 2) / p - ((S - rem + x) / p) ^ 2 := by
  unfold varStep meanStep
  constructor
  · field_simp; ring
  · field_simp; ring

/-- STDEV, steady state: the window is full (`period + 1` inputs exist), the value leaving the
window is subtracted, the reading is `sqrt(max(variance, 0))` – the clamp makes `sqrt` total. -/
theorem stdev_step (ops : Ops K) (x : Ctx K) (p : Int) (input : String) (w : Val K → List (Candle K))
    (xv rem om ov : Num K)
    (hc : x.reading input = .ok (.num xv))
    (hin : x.readingPeriod (p + 1) input (some x.i) = true)
    (hrem : x.reading input (some (x.i - p)) = .ok (.num rem))
    (hm : x.prevReading (x.name ++ "_data.mean") = .ok (.num om))
    (hv : x.prevReading (x.name ++ "_data.variance") = .ok (.num ov))
    (hset : ∀ v, ops.setManaged "STDEV_data" v x.cs = .ok (w v)) (hp : (p : K) ≠ 0) :
    Calc.stdev ops x p input =
      .ok (.num (.flt (PyF.sqrt (max (varStep p om.toF ov.toF xv.toF rem.toF) 0))),
           w (sdict [("mean", sc (.flt (meanStep p om.toF xv.toF rem.toF))),
                     ("variance", sc (.flt (varStep p om.toF ov.toF xv.toF rem.toF)))])) := by
  have hd : (Num.int p : Num K).toF ≠ 0 := by simpa using hp
  have hs : (Num.max2 (Num.flt (varStep (p : K) om.toF ov.toF xv.toF rem.toF)) (fl 0)).sqrt
      = .ok (.flt (PyF.sqrt (max (varStep p om.toF ov.toF xv.toF rem.toF) 0))) := by
    rw [Num.sqrt_ok]
    · simp
    · simp
  unfold Calc.stdev
  simp only [hc, pym_bind_ok, Val.isNone_num, Bool.false_eq_true, if_false, Val.asNum_num, hin, if_true,
    Ctx.num_of hrem, Ctx.prevExists_of hm, Ctx.prevExists_of hv, Bool.not_false, Ctx.prevNum_of hm,
    Ctx.prevNum_of hv, Num.truediv_ok _ _ hd, Num.add_flt, pym_pure]
  have e1 : om.toF + (xv.sub rem).toF / (Num.int p : Num K).toF = meanStep (p : K) om.toF xv.toF rem.toF := by
    simp [meanStep]
  rw [e1]
  have e2 : ov.toF + ((xv.sub rem).mul (((xv.sub (Num.flt (meanStep (p : K) om.toF xv.toF rem.toF))).add rem).sub om)).toF
      / (Num.int p : Num K).toF = varStep (p : K) om.toF ov.toF xv.toF rem.toF := by
    simp [varStep]
  rw [e2, hset, pym_bind_ok, hs]
  rfl

/-- STDEV, warm-up with existing running statistics: nothing leaves the window yet, the reading
is `None`, the running statistics are still updated. -/
theorem stdev_warm (ops : Ops K) (x : Ctx K) (p : Int) (input : String) (w : Val K → List (Candle K))
    (xv om ov : Num K)
    (hc : x.reading input = .ok (.num xv))
    (hin : x.readingPeriod (p + 1) input (some x.i) = false)
    (hm : x.prevReading (x.name ++ "_data.mean") = .ok (.num om))
    (hv : x.prevReading (x.name ++ "_data.variance") = .ok (.num ov))
    (hset : ∀ v, ops.setManaged "STDEV_data" v x.cs = .ok (w v)) (hp : (p : K) ≠ 0) :
    Calc.stdev ops x p input =
      .ok (.none,
           w (sdict [("mean", sc (.flt (meanStep p om.toF xv.toF 0))),
                     ("variance", sc (.flt (varStep p om.toF ov.toF xv.toF 0)))])) := by
  have hd : (Num.int p : Num K).toF ≠ 0 := by simpa using hp
  unfold Calc.stdev
  simp only [hc, pym_bind_ok, Val.isNone_num, Bool.false_eq_true, if_false, Val.asNum_num, hin,
    Ctx.prevExists_of hm, Ctx.prevExists_of hv, Bool.not_false, if_true, Ctx.prevNum_of hm,
    Ctx.prevNum_of hv, Num.truediv_ok _ _ hd, Num.add_flt, pym_pure]
  have e1 : om.toF + (xv.sub (Num.int 0)).toF / (Num.int p : Num K).toF = meanStep (p : K) om.toF xv.toF 0 := by
    simp [meanStep]
  rw [e1]
  have e2 : ov.toF + ((xv.sub (Num.int 0)).mul (((xv.sub (Num.flt (meanStep (p : K) om.toF xv.toF 0))).add (Num.int 0)).sub om)).toF
      / (Num.int p : Num K).toF = varStep (p : K) om.toF ov.toF xv.toF 0 := by
    simp [varStep]
  rw [e2, hset, pym_bind_ok]

/-- STDEV, first input: the running statistics start from 0 -/
theorem stdev_first (ops : Ops K) (x : Ctx K) (p : Int) (input : String) (w : Val K → List (Candle K))
    (xv : Num K)
    (hc : x.reading input = .ok (.num xv))
    (hin : x.readingPeriod (p + 1) input (some x.i) = false)
    (hm : x.prevReading (x.name ++ "_data.mean") = .ok .none)
    (hv : x.prevReading (x.name ++ "_data.variance") = .ok .none)
    (hset : ∀ v, ops.setManaged "STDEV_data" v x.cs = .ok (w v)) (hp : (p : K) ≠ 0) :
    Calc.stdev ops x p input =
      .ok (.none,
           w (sdict [("mean", sc (.flt (meanStep p 0 xv.toF 0))),
                     ("variance", sc (.flt (varStep p 0 0 xv.toF 0)))])) := by
  have hd : (Num.int p : Num K).toF ≠ 0 := by simpa using hp
  unfold Calc.stdev
  simp only [hc, pym_bind_ok, Val.isNone_num, Bool.false_eq_true, if_false, Val.asNum_num, hin,
    Ctx.prevExists_of hm, Ctx.prevExists_of hv, Val.isNone_none, Bool.not_true, Num.truediv_ok _ _ hd,
    Num.add_flt, pym_pure]
  have e1 : (Num.int 0 : Num K).toF + (xv.sub (Num.int 0)).toF / (Num.int p : Num K).toF = meanStep (p : K) 0 xv.toF 0 := by
    simp [meanStep]
  rw [e1]
  have e2 : (Num.int 0 : Num K).toF + ((xv.sub (Num.int 0)).mul (((xv.sub (Num.flt (meanStep (p : K) 0 xv.toF 0))).add (Num.int 0)).sub (Num.int 0))).toF
      / (Num.int p : Num K).toF = varStep (p : K) 0 0 xv.toF 0 := by
    simp [varStep]
  rw [e2, hset, pym_bind_ok]

theorem stdev_none (ops : Ops K) (x : Ctx K) (p : Int) (input : String)
    (hc : x.reading input = .ok .none) : Calc.stdev ops x p input = .ok (.none, x.cs) := by
  simp [Calc.stdev, hc]

/-- σ ≥ 0 -/
theorem stdev_nonneg [NonnegSqrt K] (v : K) : 0 ≤ PyF.sqrt (max v 0) :=
  NonnegSqrt.sqrt_nonneg _ (le_max_right _ _)

/-- σ² = variance (clamped at 0) -/
theorem stdev_sq [LawfulSqrt K] (v : K) : PyF.sqrt (max v 0) * PyF.sqrt (max v 0) = max v 0 :=
  LawfulSqrt.sqrt_sq _ (le_max_right _ _)

end Numeric
end Hex

import HexProofs.Numeric.TotalMoreHA
import HexProofs.Numeric.TotalMoreLifeTrees
import HexProofs.Numeric.SeriesInputsRSI
import HexProofs.Numeric.SeriesInputsBB
import HexProofs.Numeric.SeriesInputsStdev
import HexProofs.Numeric.SeriesRSI
import HexProofs.Numeric.SeriesSTOCH
import HexProofs.Numeric.SeriesWindows
import HexProofs.Numeric.SeriesADX
import HexProofs.Numeric.SeriesTSI
import HexProofs.Numeric.SeriesATR
import HexProofs.Numeric.SeriesStdevBB
import HexProofs.Numeric.SeriesKC
import HexProofs.Numeric.SeriesSupertrend
import HexProofs.Numeric.SeriesUtility
import HexProofs.Numeric.SeriesMACD
/-!
# Structural invariants of the outputs on MORE managers and inputs (property C10)

`HexProps/C10.lean` proves the range / ordering / identity invariants for whole runs on every manager with an
incremental spec `M : MgrSpec K`, and instantiates them on the base timeframe, collapsing timeframes and gap
filling.  This file closes three of the items its `C10_FULL` lists as open:

1. **Heikin-Ashi managers** (`MgrSpec.ha`, `MgrSpec.tfHA`, `MgrSpec.fillHA` of TotalMoreHA.lean).  Each invariant
   is restated as a PER-CANDLE predicate `…In … j c` (index `j`, candle `c`; the textbook quantities it mentions
   refer to the manager's candle list `spec`), proved once for every `M` as `HoldsOn M ind P` (= the history never
   raises, and whenever it returns there are as many candles as the manager's, each satisfying `P spec j`), and
   instantiated as `…_ha : HoldsOnHA ind P` (`HoldsOnHA.unfold` spells the three configurations out).
2. **Lifespan managers** under the retention hypothesis of C15 (`RetainsFrom (treeLook …)`): `HoldsOnLifespan`
   – the trimmed run returns the untrimmed run minus the `d` popped candles (`LifeTotal`), so retained candle `i`
   satisfies `P stream (d + i)`: per-candle predicates pass to a suffix.
3. **Late-starting / foreign-column inputs**, engine level (`engineCalc`): RSI ∈ [0, 100], σ ≥ 0,
   BBL ≤ BBM ≤ BBU for an input that is another indicator's reading, `None` on the first `t0` candles
   (corollaries of `c06_chained_partial`, `c05_inputs_partial`, `c05_bbands`).

The helper lemmas `sd_sign`, `bb_order_sign`, `kc_order_sign`, `dc_order`, `st_shape`, `fieldAt_low_le_high`,
`stored_toF` restate (verbatim proofs) `sdCandle_nonneg`, `bbCandle_order`, `kcSeries_order`, `dcOK_order`,
`stCandle_shape`, `fieldAt_wf`, `stored_num` of `HexProps/C10.lean`, which this file must not import;
`StochRanges` restates `Hex.C10.StochInRange` verbatim.
-/
set_option linter.unusedSectionVars false
set_option linter.unusedVariables false
namespace Hex
open Hex.Numeric

/-! ### the generic layer: per-candle predicates on every manager, on Heikin-Ashi, on a lifespan -/
section generic
variable {F : Type} [PyF F] {ind : Ind F}

/-- `snap` has as many candles as the manager's list `spec`, and candle `j` satisfies `P spec j` -/
def EveryCandle (P : List (Candle F) → Nat → Candle F → Prop) (spec snap : List (Candle F)) : Prop :=
  snap.length = spec.length ∧ ∀ j, j < spec.length → P spec j (snap.getD j default)

/-- **the invariant `P` holds on manager `M`**: every history (construction over any initial part, `calculate()`,
any append schedule) of a stream the manager accepts RETURNS, and whenever it returns, its candles are as many as
the manager's candles `M.spec stream` and candle `j` satisfies `P (M.spec stream) j` -/
def HoldsOn (M : MgrSpec F) (ind : Ind F) (P : List (Candle F) → Nat → Candle F → Prop) : Prop :=
  NeverRaises M ind ∧ Always M ind (EveryCandle P)

/-- `HoldsOn`, unfolded for one history -/
theorem HoldsOn.run {M : MgrSpec F} {P : List (Candle F) → Nat → Candle F → Prop} (h : HoldsOn M ind P)
    (init : List (Candle F)) (chunks : List (List (Candle F))) (hok : M.Ok (init ++ chunks.flatten)) :
    ∃ snap, candlesOf (runIndicator ind M.cfg init chunks) = .ok snap ∧
      snap.length = (M.spec (init ++ chunks.flatten)).length ∧
      ∀ j, j < (M.spec (init ++ chunks.flatten)).length → P (M.spec (init ++ chunks.flatten)) j (snap.getD j default) := by
  obtain ⟨snap, hs⟩ := h.1 init chunks hok
  exact ⟨snap, hs, h.2 init chunks hok snap hs⟩

/-- … in particular every candle of the result satisfies an index-free consequence of the invariant -/
theorem HoldsOn.every {M : MgrSpec F} {P : List (Candle F) → Nat → Candle F → Prop} {Q : Candle F → Prop}
    (h : HoldsOn M ind P) (hpq : ∀ spec j c, P spec j c → Q c)
    (init : List (Candle F)) (chunks : List (List (Candle F))) (hok : M.Ok (init ++ chunks.flatten)) :
    ∃ snap, candlesOf (runIndicator ind M.cfg init chunks) = .ok snap ∧ ∀ c ∈ snap, Q c := by
  obtain ⟨snap, h1, h2, h3⟩ := h.run init chunks hok
  refine ⟨snap, h1, fun c hc => ?_⟩
  obtain ⟨i, hi, rfl⟩ := List.mem_iff_getElem.1 hc
  have e : snap.getD i default = snap[i] := by
    rw [List.getD_eq_getElem?_getD, List.getElem?_eq_getElem hi]; rfl
  exact hpq _ _ _ (e ▸ h3 i (h2 ▸ hi))

/-- a per-candle predicate of the row-major run of a tree holds on every manager -/
theorem TreeSpec.holdsOn (T : TreeSpec ind) (P : List (Candle F) → Nat → Candle F → Prop)
    (h : ∀ raw : List (Candle F), (∀ c ∈ raw, Plain c) → ∃ out, Gen.rowMajor T.S raw = .ok out ∧
      out.length = raw.length ∧ ∀ j, j < raw.length → P raw j (out.getD j default)) (M : MgrSpec F) :
    HoldsOn M ind P :=
  T.total_of (EveryCandle P) (fun raw hraw => by
    obtain ⟨out, h1, h2, h3⟩ := h raw hraw
    exact ⟨out, h1, h2, h3⟩) M

/-- … of a covered leaf kind -/
theorem leaf_holdsOn (k : Kind F) (nm : String) (n : Nat) (hc : Covered nm k)
    (P : List (Candle F) → Nat → Candle F → Prop)
    (h : ∀ raw : List (Candle F), (∀ c ∈ raw, Plain c) → ∃ out, rowMajor (mkTop k nm n) raw = .ok out ∧
      out.length = raw.length ∧ ∀ j, j < raw.length → P raw j (out.getD j default)) (M : MgrSpec F) :
    HoldsOn M (mkTop k nm n) P :=
  leaf_total_of k nm n hc (EveryCandle P) (fun raw hraw => by
    obtain ⟨out, h1, h2, h3⟩ := h raw hraw
    exact ⟨out, h1, h2, h3⟩) M

theorem HoldsOn.mono {M : MgrSpec F} {P Q : List (Candle F) → Nat → Candle F → Prop} (h : HoldsOn M ind P)
    (hpq : ∀ spec j c, P spec j c → Q spec j c) : HoldsOn M ind Q :=
  ⟨h.1, fun init chunks hok snap hs => ⟨(h.2 init chunks hok snap hs).1,
    fun j hj => hpq _ _ _ ((h.2 init chunks hok snap hs).2 j hj)⟩⟩

/-- **the invariant holds on the three Heikin-Ashi managers**: base timeframe + HA, collapsing timeframe + HA,
timeframe + gap filling + HA (every timeframe `tf > 0`) -/
def HoldsOnHA (ind : Ind F) (P : List (Candle F) → Nat → Candle F → Prop) : Prop :=
  HoldsOn (MgrSpec.ha F) ind P ∧
  ∀ (tf : Int) (htf : 0 < tf), HoldsOn (MgrSpec.tfHA F tf htf) ind P ∧ HoldsOn (MgrSpec.fillHA F tf htf) ind P

theorem HoldsOnHA.of_all {P : List (Candle F) → Nat → Candle F → Prop} (h : ∀ M : MgrSpec F, HoldsOn M ind P) :
    HoldsOnHA ind P := ⟨h _, fun _ _ => ⟨h _, h _⟩⟩

/-- **`HoldsOnHA`, spelled out**: on `{ha}`, `{tf, ha}`, `{tf, fill, ha}` every history over reading-free, not yet
converted candles (ANY prices; sorted and stamped when there is a timeframe) returns, and candle `j` of the result
satisfies `P` relative to the CONVERTED candles `haSpec …` of the whole stream (of its collapsed / gap-filled
buckets when there is a timeframe). -/
theorem HoldsOnHA.unfold {P : List (Candle F) → Nat → Candle F → Prop} (h : HoldsOnHA ind P) :
    (∀ (init : List (Candle F)) (chunks : List (List (Candle F))),
      (∀ c ∈ init ++ chunks.flatten, Plain c ∧ c.tag = false) →
      ∃ snap, candlesOf (runIndicator ind { ha := true } init chunks) = .ok snap ∧
        snap.length = (haSpec (init ++ chunks.flatten)).length ∧
        ∀ j, j < (haSpec (init ++ chunks.flatten)).length →
          P (haSpec (init ++ chunks.flatten)) j (snap.getD j default)) ∧
    (∀ (tf : Int), 0 < tf → ∀ (init : List (Candle F)) (chunks : List (List (Candle F))),
      (RawTf (init ++ chunks.flatten) ∧ ∀ c ∈ init ++ chunks.flatten, c.tag = false) →
      ∃ snap, candlesOf (runIndicator ind { tf := some tf, ha := true } init chunks) = .ok snap ∧
        snap.length = (haSpec (resample tf (init ++ chunks.flatten))).length ∧
        ∀ j, j < (haSpec (resample tf (init ++ chunks.flatten))).length →
          P (haSpec (resample tf (init ++ chunks.flatten))) j (snap.getD j default)) ∧
    (∀ (tf : Int), 0 < tf → ∀ (init : List (Candle F)) (chunks : List (List (Candle F))),
      (RawTf (init ++ chunks.flatten) ∧ ∀ c ∈ init ++ chunks.flatten, c.tag = false) →
      ∃ snap, candlesOf (runIndicator ind { tf := some tf, fill := true, ha := true } init chunks) = .ok snap ∧
        snap.length = (haSpec (fillSpec tf (init ++ chunks.flatten))).length ∧
        ∀ j, j < (haSpec (fillSpec tf (init ++ chunks.flatten))).length →
          P (haSpec (fillSpec tf (init ++ chunks.flatten))) j (snap.getD j default)) :=
  ⟨fun init chunks hok => h.1.run init chunks hok,
   fun tf htf init chunks hok => (h.2 tf htf).1.run init chunks hok,
   fun tf htf init chunks hok => (h.2 tf htf).2.run init chunks hok⟩

/-- **the invariant holds on a lifespan manager that retains `L` finished candles**: nothing popped at
construction and `L` finished candles from before the append retained at every append that pops
(`RetainsFrom L`, the hypothesis of C15) – then the history returns `kept`, the candles `snap` of the untrimmed
history minus the `d` popped ones, and retained candle `i` satisfies `P stream (d + i)`: the invariant of the
candle with that index in the whole stream. -/
def HoldsOnLifespan (ind : Ind F) (L : Nat) (P : List (Candle F) → Nat → Candle F → Prop) : Prop :=
  ∀ (life : Int) (init : List (Candle F)) (chunks : List (List (Candle F))),
    (∀ c ∈ init ++ chunks.flatten, Plain c) → trimCandles (some life) init = .ok init →
    RetainsFrom L life init init.length chunks →
    ∃ (snap kept : List (Candle F)) (d : Nat),
      candlesOf (runIndicator ind {} init chunks) = .ok snap ∧
      candlesOf (runIndicator ind { lifespan := some life } init chunks) = .ok kept ∧
      kept = snap.drop d ∧ d + kept.length = (init ++ chunks.flatten).length ∧
      ∀ i, i < kept.length → P (init ++ chunks.flatten) (d + i) (kept.getD i default)

/-- a per-candle predicate passes from a list to each of its suffixes, index shifted -/
theorem drop_everyCandle (snap : List (Candle F)) (N d : Nat) (hl : snap.length = N) (Q : Nat → Candle F → Prop)
    (h : ∀ j, j < N → Q j (snap.getD j default)) :
    ∃ d', snap.drop d = snap.drop d' ∧ d' + (snap.drop d').length = N ∧
      ∀ i, i < (snap.drop d').length → Q (d' + i) ((snap.drop d').getD i default) := by
  refine ⟨min d N, ?_, by rw [List.length_drop]; omega, fun i hi => ?_⟩
  · by_cases hd : d ≤ N
    · rw [Nat.min_eq_left hd]
    · rw [Nat.min_eq_right (by omega), List.drop_of_length_le (by omega), List.drop_of_length_le (by omega)]
  · rw [List.length_drop] at hi
    have e : (snap.drop (min d N)).getD i default = snap.getD (min d N + i) default := by
      rw [List.getD_eq_getElem?_getD, List.getD_eq_getElem?_getD, List.getElem?_drop]
    rw [e]
    exact h _ (by omega)

/-- **from the untrimmed run to the lifespan run**: `LifeTotal` (the trimmed history is the untrimmed one minus
the popped candles) + the invariant on the base timeframe -/
theorem holdsOnLifespan_of {L : Nat} {P : List (Candle F) → Nat → Candle F → Prop} (hT : LifeTotal ind L)
    (hA : HoldsOn (MgrSpec.base F) ind P) : HoldsOnLifespan ind L P := by
  intro life init chunks hp hinit hret
  obtain ⟨snap, d, h1, h2⟩ := hT life init chunks hp hinit hret
  obtain ⟨hl, hall⟩ := hA.2 init chunks hp snap h2
  have hl' : snap.length = (init ++ chunks.flatten).length := hl
  obtain ⟨d', e, hlen, hq⟩ := drop_everyCandle snap _ d hl' (P (init ++ chunks.flatten)) hall
  exact ⟨snap, snap.drop d', d', h2, by rw [← e]; exact h1, rfl, hlen, hq⟩

/-- a weaker per-candle predicate -/
theorem HoldsOnLifespan.mono {L : Nat} {P Q : List (Candle F) → Nat → Candle F → Prop}
    (h : HoldsOnLifespan ind L P) (hpq : ∀ spec j c, P spec j c → Q spec j c) : HoldsOnLifespan ind L Q := by
  intro life init chunks hp hinit hret
  obtain ⟨snap, kept, d, h1, h2, h3, h4, h5⟩ := h life init chunks hp hinit hret
  exact ⟨snap, kept, d, h1, h2, h3, h4, fun i hi => hpq _ _ _ (h5 i hi)⟩

/-- … in particular every retained candle satisfies an index-free consequence of the invariant -/
theorem HoldsOnLifespan.every {L : Nat} {P : List (Candle F) → Nat → Candle F → Prop} {Q : Candle F → Prop}
    (h : HoldsOnLifespan ind L P) (hpq : ∀ spec j c, P spec j c → Q c)
    (life : Int) (init : List (Candle F)) (chunks : List (List (Candle F)))
    (hp : ∀ c ∈ init ++ chunks.flatten, Plain c) (hinit : trimCandles (some life) init = .ok init)
    (hret : RetainsFrom L life init init.length chunks) :
    ∃ kept, candlesOf (runIndicator ind { lifespan := some life } init chunks) = .ok kept ∧ ∀ c ∈ kept, Q c := by
  obtain ⟨snap, kept, d, h1, h2, h3, h4, h5⟩ := h life init chunks hp hinit hret
  refine ⟨kept, h2, fun c hc => ?_⟩
  obtain ⟨i, hi, rfl⟩ := List.mem_iff_getElem.1 hc
  have e : kept.getD i default = kept[i] := by
    rw [List.getD_eq_getElem?_getD, List.getElem?_eq_getElem hi]; rfl
  exact hpq _ _ _ (e ▸ h5 i hi)

end generic

namespace Numeric
variable {K : Type} [Field K] [LinearOrder K] [IsStrictOrderedRing K] [LawfulPyF K]

/-! ### the per-candle invariants -/

/-- **RSI**: `None` before the warm-up index `p`, then a float in `[0, 100]` -/
def RsiIn (p : Nat) (nm : String) (j : Nat) (c : Candle K) : Prop :=
  (j < p → readingByCandle c nm = .none) ∧
  (p ≤ j → ∃ y, readingByCandle c nm = .flt y ∧ 0 ≤ y ∧ y ≤ 100)

/-- index-free: `None` or a float in `[lo, hi]` -/
def NoneOrIn (lo hi : K) (v : Val K) : Prop := v = .none ∨ ∃ y, v = .flt y ∧ lo ≤ y ∧ y ≤ hi

theorem RsiIn.free {p : Nat} {nm : String} {j : Nat} {c : Candle K} (h : RsiIn p nm j c) :
    NoneOrIn 0 100 (readingByCandle c nm) := by
  by_cases hj : j < p
  · exact Or.inl (h.1 hj)
  · exact Or.inr (h.2 (by omega))

/-- `Hex.C10.StochInRange`, restated verbatim: the range statement of one STOCH candle (`own` = the dict under
`name`, `k` / `d` = the readings of the SMA helpers) -/
def StochRanges (n p sk sl j : Nat) (own k d : Val K) : Prop :=
  (p ≤ j + 1 → ∃ y, own.nested "stoch" = .flt y ∧ 0 ≤ y ∧ y ≤ 100) ∧
  (stochTK p sk ≤ j →
    (∃ y, k = .flt y ∧ -stochBK K p sk j ≤ y ∧ y ≤ 100 + stochBK K p sk j) ∧
    (∃ y, own.nested "k" = .flt y ∧ -(eps K n + stochBK K p sk j) ≤ y ∧ y ≤ 100 + (eps K n + stochBK K p sk j))) ∧
  (stochTD p sk sl ≤ j →
    (∃ y, d = .flt y ∧ -stochBD K p sk sl j ≤ y ∧ y ≤ 100 + stochBD K p sk sl j) ∧
    (∃ y, own.nested "d" = .flt y ∧ -(eps K n + stochBD K p sk sl j) ≤ y ∧
      y ≤ 100 + (eps K n + stochBD K p sk sl j)))

/-- `low ≤ input ≤ high` on every candle of the manager's list (true for `close` on well-formed candles) -/
def InputBetween (fld : Candle K → Num K) (spec : List (Candle K)) : Prop :=
  ∀ i, i < spec.length → fieldAt (·.l) spec i ≤ fieldAt fld spec i ∧ fieldAt fld spec i ≤ fieldAt (·.h) spec i

/-- **STOCH**: `StochRanges`, when `low ≤ input ≤ high` on the manager's candles -/
def StochIn (n p sk sl : Nat) (nm : String) (fld : Candle K → Num K) (spec : List (Candle K)) (j : Nat)
    (c : Candle K) : Prop :=
  InputBetween fld spec →
    StochRanges n p sk sl j (readingByCandle c nm) (readingByCandle c (nm ++ "_k")) (readingByCandle c (nm ++ "_d"))

/-- **Aroon**: all-`None` dict before `p`; then `AROONU`, `AROOND` floats in `[0, 100]` within `ε` of
`100·(p − bars)/p`, `AROONOSC` in `[−100, 100]` within `ε` of their difference -/
def AroonIn (p n : Nat) (nm : String) (spec : List (Candle K)) (j : Nat) (c : Candle K) : Prop :=
  (j < p → readingByCandle c nm = aroonNone) ∧
  (p ≤ j → ∃ u d o : K, (readingByCandle c nm).nested "AROONU" = .flt u ∧
    (readingByCandle c nm).nested "AROOND" = .flt d ∧ (readingByCandle c nm).nested "AROONOSC" = .flt o ∧
    |u - aroonOf p (hiBar (fieldAt (·.h) spec) j p)| ≤ eps K n ∧ 0 ≤ u ∧ u ≤ 100 ∧
    |d - aroonOf p (loBar (fieldAt (·.l) spec) j p)| ≤ eps K n ∧ 0 ≤ d ∧ d ≤ 100 ∧
    |o - (aroonOf p (hiBar (fieldAt (·.h) spec) j p) - aroonOf p (loBar (fieldAt (·.l) spec) j p))| ≤ eps K n ∧
    -100 ≤ o ∧ o ≤ 100)

/-- **ADX**: own dict all-`None` before `p`; `ADX` `None` or in `[0, 100]`, `DM_Plus` / `DM_Neg` `None` or `≥ 0`,
the `_dx` helper `None` or in `[0, 100]`, the `_atr` helper non-negative -/
def AdxIn (p : Nat) (nm : String) (j : Nat) (c : Candle K) : Prop :=
  (j < p → readingByCandle c nm = adxNone3) ∧
  FieldIn 0 100 (readingByCandle c (nm ++ "." ++ "ADX")) ∧
  FieldNonneg (readingByCandle c (nm ++ "." ++ "DM_Plus")) ∧
  FieldNonneg (readingByCandle c (nm ++ "." ++ "DM_Neg")) ∧
  FieldIn 0 100 (readingByCandle c (nm ++ "_dx")) ∧
  (∀ y, readingByCandle c (nm ++ "_atr") = .flt y → 0 ≤ y)

/-- **TSI**: `None` before `p + s − 1`; then `0 ≤ A`, `|S| ≤ A + 2β`, `y = 0` when `A = 0`, the budgeted bound,
and `−100 ≤ y ≤ 100` exactly whenever `|S| ≤ A` – in particular under the oddness law `RoundNegLe` -/
def TsiIn (n p s : Nat) (nm : String) (j : Nat) (c : Candle K) : Prop :=
  (j + 1 < p + s → readingByCandle c nm = .none) ∧
  (p + s ≤ j + 1 → ∃ S A y : K,
    readingByCandle c (nm ++ "_second") = .flt S ∧
    readingByCandle c (nm ++ "_abs_second") = .flt A ∧
    readingByCandle c nm = .flt y ∧ 0 ≤ A ∧
    |S| ≤ A + 2 * tsiChainBudget (K := K) p s ∧
    (A = 0 → y = 0) ∧
    (A ≠ 0 → |y| ≤ 100 + 200 * tsiChainBudget (K := K) p s / A + eps K n) ∧
    (|S| ≤ A → -100 ≤ y ∧ y ≤ 100) ∧
    (RoundNegLe K defaultRound → -100 ≤ y ∧ y ≤ 100))

/-- **ATR**: `None` before `p`, then a non-negative float; the `_TR` helper `None` on candle 0, then `≥ 0` -/
def AtrIn (p : Nat) (nm : String) (j : Nat) (c : Candle K) : Prop :=
  (j < p → readingByCandle c nm = .none) ∧
  (p ≤ j → ∃ y, readingByCandle c nm = .flt y ∧ 0 ≤ y) ∧
  (j = 0 → readingByCandle c (nm ++ "_TR") = .none) ∧
  (1 ≤ j → ∃ t : Num K, readingByCandle c (nm ++ "_TR") = .num t ∧ 0 ≤ t.toF)

/-- **σ**: `None` before `p`, then a non-negative float -/
def SigmaIn (p : Nat) (nm : String) (j : Nat) (c : Candle K) : Prop :=
  (j < p → readingByCandle c nm = .none) ∧ (p ≤ j → ∃ y, readingByCandle c nm = .flt y ∧ 0 ≤ y)

/-- **BBANDS**: dict of `None`s before `p`, then `BBL ≤ BBM ≤ BBU`; the σ helper non-negative -/
def BbIn (p : Nat) (nm : String) (j : Nat) (c : Candle K) : Prop :=
  (j < p → readingByCandle c nm = bbNoneDict) ∧
  (p ≤ j → ∃ lo mid up : K, readingByCandle c nm = bbDict lo mid up ∧ lo ≤ mid ∧ mid ≤ up) ∧
  (∀ y, readingByCandle c (nm ++ "_STDEV") = .flt y → 0 ≤ y)

/-- **KC**: dict of `None`s before `p`, then `lower ≤ band ≤ upper`; the ATR helper non-negative -/
def KcIn (p : Nat) (nm : String) (j : Nat) (c : Candle K) : Prop :=
  (j < p → readingByCandle c nm = kcNoneDict) ∧
  (p ≤ j → ∃ l b u : K, readingByCandle c nm
      = .dict [("lower", .num (.flt l)), ("band", .num (.flt b)), ("upper", .num (.flt u))] ∧ l ≤ b ∧ b ≤ u) ∧
  (∀ y, readingByCandle c (nm ++ "_ATR") = .flt y → 0 ≤ y)

/-- `low ≤ high` on every candle of the manager's list -/
def LowLeHigh (spec : List (Candle K)) : Prop := ∀ c ∈ spec, c.l.toF ≤ c.h.toF

/-- **Donchian** (well-formed candles): dict of `None`s before `p − 1`; then `DCL ≤ DCM ≤ DCU` on the stored
values, enclosing the candle's own (equally rounded) low and high, each within `ε` of the window extreme / mean -/
def DcIn (p n : Nat) (nm : String) (spec : List (Candle K)) (j : Nat) (c : Candle K) : Prop :=
  LowLeHigh spec →
  (j + 1 < p → readingByCandle c nm = dcNone) ∧
  (p ≤ j + 1 →
    (∃ (lo up : Num K) (mid : K),
      readingByCandle c nm = .dict [("DCL", .num lo), ("DCM", .num (.flt mid)), ("DCU", .num up)] ∧
      lo.toF ≤ mid ∧ mid ≤ up.toF ∧
      lo.toF ≤ ((numAt (·.l) spec j).roundBy n).toF ∧ ((numAt (·.h) spec j).roundBy n).toF ≤ up.toF) ∧
    NumNear n (winMin (fieldAt (·.l) spec) j (p - 1)) ((readingByCandle c nm).nested "DCL") ∧
    NumNear n (winMax (fieldAt (·.h) spec) j (p - 1)) ((readingByCandle c nm).nested "DCU") ∧
    NumNear n ((winMax (fieldAt (·.h) spec) j (p - 1) + winMin (fieldAt (·.l) spec) j (p - 1)) / 2)
      ((readingByCandle c nm).nested "DCM"))

/-- **HighestLowest**: `low` / `high` within `ε` of the window extremes, which enclose the candle -/
def HlIn (p n : Nat) (nm : String) (spec : List (Candle K)) (j : Nat) (c : Candle K) : Prop :=
  NumNear n (winMin (fieldAt (·.l) spec) j p) ((readingByCandle c nm).nested "low") ∧
  NumNear n (winMax (fieldAt (·.h) spec) j p) ((readingByCandle c nm).nested "high") ∧
  winMin (fieldAt (·.l) spec) j p ≤ fieldAt (·.l) spec j ∧ fieldAt (·.h) spec j ≤ winMax (fieldAt (·.h) spec) j p

/-- **Supertrend**: the start dict before `p`; then direction `±1`, exactly one of `long` / `short` set, equal to
`trend` -/
def StIn (p : Nat) (nm : String) (j : Nat) (c : Candle K) : Prop :=
  (j < p → readingByCandle c nm = stNoneDict) ∧
  (p ≤ j → ∃ t : Num K,
    readingByCandle c nm
      = .dict [("trend", .num t), ("direction", .num (.int 1)), ("long", .num t), ("short", .none)] ∨
    readingByCandle c nm
      = .dict [("trend", .num t), ("direction", .num (.int (-1))), ("long", .none), ("short", .num t)])

/-- **MACD identity**: dict of `None`s before `slow − 1`; from `slow + signal − 2` on three floats with
`|histogram − (MACD − signal)| ≤ 3·ε_n` on the STORED values -/
def MacdIn (n ps pg : Nat) (nm : String) (j : Nat) (c : Candle K) : Prop :=
  (j + 1 < ps → readingByCandle c nm = macdNone) ∧
  (ps + pg ≤ j + 2 → ∃ M S Hh : K,
    readingByCandle c nm = sdict [("MACD", sc (.flt M)), ("signal", sc (.flt S)), ("histogram", sc (.flt Hh))] ∧
    |Hh - (M - S)| ≤ 3 * eps K n)

/-- **Counter** (every float carrier): the Python int `runLen` = the length of the current run of candles whose
input equals the counted value (`runLen 0 ∈ {0, 1}`, then `+1` or reset to 0: `runLen_field_succ`) -/
def CountIn {F : Type} [PyF F] (cv : Scalar F) (fld : Candle F → Num F) (nm : String) (spec : List (Candle F))
    (j : Nat) (c : Candle F) : Prop :=
  readingByCandle c nm = .int ((runLen cv (fun i => (.num (fld (spec.getD i default)) : Val F)) j : Nat) : Int)

/-! ### helper lemmas (restated from `HexProps/C10.lean`) -/

theorem stored_toF (n : Nat) (a : Num K) : (a.roundBy n).toF = PyF.round n a.toF := by
  cases a with
  | int i => simp [Num.roundBy, round_int]
  | flt x => rfl

theorem sd_sign {p n : Nat} {nm : String} {x : Nat → K} {j : Nat} {c : Candle K}
    (h : SdCandleOK p n nm x j c) : SigmaIn p nm j c := by
  have hs := h.1
  unfold stdevSeries at hs
  refine ⟨fun hjp => by rw [if_pos hjp] at hs; exact hs, fun hjp => ?_⟩
  rw [if_neg (by omega)] at hs
  obtain ⟨y, hy, _, h0⟩ := hs
  exact ⟨y, hy, h0⟩

theorem bb_order_sign {p n : Nat} {nm : String} {x : Nat → K} {j : Nat} {c : Candle K}
    (h : BbCandleOK p n nm x j c) : BbIn p nm j c := by
  obtain ⟨h1, h2, _⟩ := h
  have hs := h2.1
  unfold bbSeries at h1
  unfold stdevSeries at hs
  refine ⟨fun hjp => by rw [if_pos hjp] at h1; exact h1, fun hjp => ?_, fun y hy => ?_⟩
  · rw [if_neg (by omega)] at h1
    obtain ⟨lo, mid, up, hv, o1, o2, _⟩ := h1
    exact ⟨lo, mid, up, hv, o1, o2⟩
  · by_cases hjp : j < p
    · rw [if_pos hjp] at hs
      have hs' : readingByCandle c (nm ++ "_STDEV") = Val.none := hs
      rw [hs'] at hy; cases hy
    · rw [if_neg hjp] at hs
      obtain ⟨y', hy', _, h0⟩ := hs
      rw [hy'] at hy
      cases hy
      exact h0

theorem kc_order_sign {p n : Nat} {mult : Num K} {nm : String} {fld : Candle K → Num K}
    {raw out : List (Candle K)} (h : KcSeriesOK p n mult nm fld raw out) (hm : 0 ≤ mult.toF) :
    out.length = raw.length ∧ ∀ j, j < raw.length → KcIn p nm j (out.getD j default) := by
  refine ⟨h.1, fun j hj => ?_⟩
  obtain ⟨_, _, h3, _, _, _, h7, _⟩ := h.2 j hj
  unfold kcSeries at h7
  refine ⟨fun hjp => by rw [if_pos hjp] at h7; exact h7, fun hjp => ?_, h3.2⟩
  rw [if_neg (by omega)] at h7
  obtain ⟨l, b, u, hv, _, _, _, ho⟩ := h7
  exact ⟨l, b, u, hv, ho hm⟩

theorem fieldAt_low_le_high (raw : List (Candle K)) (hwf : LowLeHigh raw) (k : Nat) :
    fieldAt (·.l) raw k ≤ fieldAt (·.h) raw k := by
  unfold fieldAt
  by_cases hk : k < raw.length
  · apply hwf
    rw [List.getD_eq_getElem?_getD, List.getElem?_eq_getElem hk]; exact List.getElem_mem _
  · rw [List.getD_eq_getElem?_getD, List.getElem?_eq_none (by omega)]
    exact le_refl _

theorem dc_order (p n : Nat) (raw : List (Candle K)) (hwf : LowLeHigh raw) (j : Nat) (v : Val K)
    (h : DcOK p n (numAt (·.h) raw) (numAt (·.l) raw) j v) (hjp : p ≤ j + 1) :
    ∃ (lo up : Num K) (mid : K),
      v = .dict [("DCL", .num lo), ("DCM", .num (.flt mid)), ("DCU", .num up)] ∧
      lo.toF ≤ mid ∧ mid ≤ up.toF ∧
      lo.toF ≤ ((numAt (·.l) raw j).roundBy n).toF ∧ ((numAt (·.h) raw j).roundBy n).toF ≤ up.toF := by
  obtain ⟨kl, kh, _, _, hv, e1, e2⟩ := h.2 hjp
  have hLH : (numAt (·.l) raw kl).toF ≤ (numAt (·.h) raw kh).toF := by
    rw [e1, e2]; exact winMin_le_winMax _ _ (fieldAt_low_le_high raw hwf) j (p - 1)
  have hL : (numAt (·.l) raw kl).toF ≤ (numAt (·.l) raw j).toF := by
    rw [e1]; exact winMin_self (fun k => (numAt (·.l) raw k).toF) j (p - 1)
  have hH : (numAt (·.h) raw j).toF ≤ (numAt (·.h) raw kh).toF := by
    rw [e2]; exact winMax_self (fun k => (numAt (·.h) raw k).toF) j (p - 1)
  refine ⟨_, _, _, hv, ?_, ?_, ?_, ?_⟩
  · rw [stored_toF]; exact LawfulPyF.round_mono n (by linarith)
  · rw [stored_toF]; exact LawfulPyF.round_mono n (by linarith)
  · rw [stored_toF, stored_toF]; exact LawfulPyF.round_mono n hL
  · rw [stored_toF, stored_toF]; exact LawfulPyF.round_mono n hH

theorem st_shape {p n : Nat} {mult : K} {nm : String} {raw : List (Candle K)} {j : Nat} {c : Candle K}
    (h : StCandleOK p n mult nm raw j c) : StIn p nm j c := by
  obtain ⟨_, _, _, _, h5, _⟩ := h
  refine ⟨fun hjp => ?_, fun hjp => ?_⟩
  · rw [stSeries_none p mult raw j hjp] at h5; exact h5
  · obtain ⟨s, hs⟩ := stSeries_isSome p mult raw j hjp
    rw [hs] at h5
    obtain ⟨U, L, _, _, h | h⟩ := StOwnOK.fields (stSeries_dir p mult raw j s hs) h5
    · exact ⟨L, Or.inl h.2⟩
    · exact ⟨U, Or.inr h.2⟩

/-! ### (0) every manager with an incremental spec -/

/-- **RSI ∈ [0, 100]** on every manager -/
theorem rsi_holds (M : MgrSpec K) (p : Nat) (hp : 1 ≤ p) (nm input : String) (fld : Candle K → Num K)
    (n : Nat) (hn : RsiNames nm) (hk : IsKey nm) (hin : AttrInput input)
    (hattr : ∀ c : Candle K, c.attr input = some (.num (fld c))) :
    HoldsOn M (mkTop (.rsi (p : Int) input : Kind K) nm n) (fun _ j c => RsiIn p nm j c) :=
  (rsiTree (F := K) nm n (p : Int) input (by omega) hn hin).holdsOn _ (fun raw hraw => by
    obtain ⟨out, hl, hrun, hall⟩ := rsi_series_candles p hp nm input fld n hn hk hin hattr raw hraw
    refine ⟨out, hrun, hl, fun j hj => ?_⟩
    have h := (hall j hj).1
    unfold rsiSeries at h
    exact ⟨fun hjp => by rw [if_pos hjp] at h; exact h,
      fun hjp => by rw [if_neg (by omega)] at h; obtain ⟨y, hy, _, h0, h1⟩ := h; exact ⟨y, hy, h0, h1⟩⟩) M

/-- **STOCH ∈ [0, 100]** (budgeted for `%K`, `%D`) on every manager whose candles have `low ≤ input ≤ high` -/
theorem stoch_holds (M : MgrSpec K) (p sk sl : Nat) (hp : 2 ≤ p) (hsk : 1 ≤ sk) (hsl : 1 ≤ sl)
    (nm input : String) (fld : Candle K → Num K) (n : Nat) (hn : StochNames nm) (hin : AttrInput input)
    (hattr : ∀ c : Candle K, c.attr input = some (.num (fld c))) :
    HoldsOn M (mkTop (.stoch (p : Int) (sl : Int) (sk : Int) input : Kind K) nm n)
      (fun spec j c => StochIn n p sk sl nm fld spec j c) :=
  (stochTree (F := K) nm n (p : Int) (sl : Int) (sk : Int) input (by omega) (by omega) (by omega) hn hin).holdsOn _
    (fun raw hraw => ⟨_, stoch_series p sk sl hp hsk hsl nm input fld n hn hin hattr raw hraw,
      stochDeco_length _ _ _ _ _ _ _, fun j hj hw =>
        stoch_ranges n p sk sl _ _ _ hp hsk hsl j (fun i hi => hw i (by omega)) _ _ _ _
          (stochDeco_ok p sk sl hp hsk hsl nm fld n hn raw hraw j hj)⟩) M

/-- **ADX ∈ [0, 100], DI± ≥ 0** on every manager -/
theorem adx_holds (M : MgrSpec K) (nm : String) (n p sg : Nat) (hp : 1 ≤ p) (hg : 1 ≤ sg) (hn : AdxNames nm) :
    HoldsOn M (mkTop (.adx (p : Int) (sg : Int) : Kind K) nm n) (fun _ j c => AdxIn p nm j c) :=
  (adxTreeN (K := K) nm n p sg hp hg hn).holdsOn _ (fun raw hraw => by
    obtain ⟨out, hrun, hl, hall⟩ := adx_series_readings nm n p sg hp hg hn raw hraw
    refine ⟨out, hrun, hl, fun j hj => ?_⟩
    obtain ⟨_, _, h3, _, _, _, _, _, _, _, h11, _, h13, h14, h15, h16, _⟩ := hall j hj
    exact ⟨h13, h14, h15, h16, h11, h3.2⟩) M

/-- **TSI ∈ [−100, 100]** (exact under `RoundNegLe`) on every manager -/
theorem tsi_holds (M : MgrSpec K) (nm : String) (n p s : Nat) (input : String) (fld : Candle K → Num K)
    (hp : 1 ≤ p) (hs : 1 ≤ s) (hn : TsiNames nm) (hin : AttrInput input)
    (hattr : ∀ c : Candle K, c.attr input = some (.num (fld c))) :
    HoldsOn M (mkTop (.tsi (p : Int) (s : Int) input : Kind K) nm n) (fun _ j c => TsiIn n p s nm j c) :=
  (tsiTreeN (K := K) nm n p s input hp hs hn hin).holdsOn _ (fun raw hraw => by
    obtain ⟨out, hrun, hl, hall⟩ := tsi_series_readings nm n p s input fld hp hs hn hin hattr raw hraw
    refine ⟨out, hrun, hl, fun j hj => ?_⟩
    obtain ⟨_, _, _, _, _, _, _, _, _, h10, h11⟩ := hall j hj
    refine ⟨h10.1, fun hj' => ?_⟩
    obtain ⟨S, A, y, e1, e2, e3, a0, _, b1, b2, b3, b4, b5⟩ := h11 hj'
    exact ⟨S, A, y, e1, e2, e3, a0, b1, b3, b4, b5, fun hodd => b5 (b2 hodd)⟩) M

/-- **ATR ≥ 0, TR ≥ 0** on every manager -/
theorem atr_holds (M : MgrSpec K) (p : Nat) (hp : 1 ≤ p) (nm : String) (n : Nat) (hk : IsKey nm)
    (hn : AtrNames nm) :
    HoldsOn M (mkTop (.atr (p : Int) : Kind K) nm n) (fun _ j c => AtrIn p nm j c) :=
  (atrTree (F := K) nm n (p : Int) (by omega) hn).holdsOn _ (fun raw hraw => by
    obtain ⟨out, h1, h2, h3⟩ := atr_series_readings p hp nm n hk hn raw hraw
    refine ⟨out, h1, h2, fun j hj => ?_⟩
    obtain ⟨_, e2, _, e4⟩ := h3 j hj
    refine ⟨e4.1, fun hjp => ?_, fun h0 => ?_, fun h1 => ?_⟩
    · obtain ⟨y, hy, _, h0⟩ := e4.2 hjp
      exact ⟨y, hy, h0⟩
    · rw [e2]; unfold trStored; rw [if_pos h0]
    · rw [e2]; unfold trStored; rw [if_neg (by omega)]
      exact ⟨_, rfl, trS_nonneg _ j⟩) M

/-- **σ ≥ 0** on every manager -/
theorem stdev_holds [NonnegSqrt K] (M : MgrSpec K) (p : Nat) (hp : 1 ≤ p) (nm input : String)
    (fld : Candle K → Num K) (n : Nat) (hn : SdNames nm) (hin : AttrInput input)
    (hattr : ∀ c : Candle K, c.attr input = some (.num (fld c))) :
    HoldsOn M (mkTop (.stdev (p : Int) input : Kind K) nm n) (fun _ j c => SigmaIn p nm j c) :=
  (stdevTree (F := K) nm n (p : Int) input (by omega) hin).holdsOn _ (fun raw hraw => by
    obtain ⟨out, hl, hrun, hall⟩ := stdev_series_candles p hp nm input fld n hn hin hattr raw hraw
    exact ⟨out, hrun, hl, fun j hj => sd_sign (hall j hj)⟩) M

/-- **BBANDS lower ≤ middle ≤ upper** on every manager -/
theorem bbands_holds [NonnegSqrt K] (M : MgrSpec K) (p : Nat) (hp : 2 ≤ p) (nm input : String)
    (fld : Candle K → Num K) (n : Nat) (hk : IsKey nm) (hn : BbNames nm) (hin : AttrInput input)
    (hattr : ∀ c : Candle K, c.attr input = some (.num (fld c))) :
    HoldsOn M (mkTop (.bbands (p : Int) input : Kind K) nm n) (fun _ j c => BbIn p nm j c) :=
  (bbTree (F := K) nm n (p : Int) input (by omega) hn hin).holdsOn _ (fun raw hraw => by
    obtain ⟨out, hl, hrun, hall⟩ := bb_series_candles p hp nm input fld n hk hn hin hattr raw hraw
    exact ⟨out, hrun, hl, fun j hj => bb_order_sign (hall j hj)⟩) M

/-- **KC lower ≤ band ≤ upper** (multiplier `≥ 0`) on every manager -/
theorem kc_holds (M : MgrSpec K) (p : Nat) (hp : 2 ≤ p) (nm input : String) (fld : Candle K → Num K)
    (n : Nat) (mult : Num K) (hk : IsKey nm) (hn : KcNames nm) (hin : AttrInput input)
    (hattr : ∀ c : Candle K, c.attr input = some (.num (fld c))) (hm : 0 ≤ mult.toF) :
    HoldsOn M (mkTop (.kc (p : Int) input mult : Kind K) nm n) (fun _ j c => KcIn p nm j c) :=
  (kcTree (F := K) nm n (p : Int) input mult (by omega) hn hin).holdsOn _ (fun raw hraw => by
    obtain ⟨out, hrun, hok'⟩ := kc_series_readings p hp nm input fld n mult hk hn hin hattr raw hraw
    exact ⟨out, hrun, kc_order_sign hok' hm⟩) M

/-- **Supertrend shape** on every manager -/
theorem supertrend_holds (M : MgrSpec K) (p : Nat) (hp : 1 ≤ p) (nm input : String) (mult : Num K) (n : Nat)
    (hn : StNames nm) (hk : IsKey nm) :
    HoldsOn M (mkTop (.supertrend (p : Int) input mult : Kind K) nm n) (fun _ j c => StIn p nm j c) :=
  (stTree (F := K) nm n (p : Int) input mult (by omega) hn).holdsOn _ (fun raw hraw => by
    obtain ⟨out, hl, hrun, hall⟩ := st_series_candles p hp nm input mult n hn hk raw hraw
    exact ⟨out, hrun, hl, fun j hj => st_shape (hall j hj)⟩) M

/-- **MACD: histogram = MACD − signal (±3ε) on the stored values, whole run,** on every manager -/
theorem macd_holds (M : MgrSpec K) (nm : String) (n pf ps pg : Nat) (input : String) (fld : Candle K → Num K)
    (hf : 2 ≤ pf) (hfs : pf ≤ ps) (hg : 1 ≤ pg) (hn : MacdNames nm) (hin : AttrInput input)
    (hattr : ∀ c : Candle K, c.attr input = some (.num (fld c))) :
    HoldsOn M (mkTop (.macd (pf : Int) (ps : Int) (pg : Int) input : Kind K) nm n)
      (fun _ j c => MacdIn n ps pg nm j c) :=
  (macdTreeN (K := K) nm n pf ps pg input (by omega) (by omega) hg hn hin).holdsOn _ (fun raw hraw => by
    obtain ⟨out, hrun, hl, hall⟩ := macd_series_readings nm n pf ps pg input fld hf hfs hg hn hin hattr raw hraw
    refine ⟨out, hrun, hl, fun j hj => ?_⟩
    obtain ⟨_, _, _, _, _, _, _, h8, h9⟩ := hall j hj
    exact ⟨h8, h9⟩) M

/-- **Aroon ∈ [0, 100], oscillator ∈ [−100, 100]** on every manager -/
theorem aroon_holds (M : MgrSpec K) (p : Nat) (hp : 1 ≤ p) (nm : String) (n : Nat) (hk : IsKey nm) :
    HoldsOn M (mkTop (.aroon p : Kind K) nm n) (fun spec j c => AroonIn p n nm spec j c) :=
  leaf_holdsOn _ nm n (Covered.aroon (p : Int) (by omega)) _ (fun raw hraw => by
    obtain ⟨vs, hl, hrun, hall⟩ := aroon_series p hp nm n raw hraw
    refine ⟨_, hrun, deco_length nm raw vs hl, fun j hj => ?_⟩
    unfold AroonIn
    rw [own_deco nm hk raw vs hl j hj]
    exact ⟨(hall j hj).1, aroonOK_near p n hp _ _ j _ (hall j hj)⟩) M

/-- **Donchian lower ≤ middle ≤ upper, enclosing the candle** on every manager with well-formed candles -/
theorem donchian_holds (M : MgrSpec K) (p : Nat) (hp : 2 ≤ p) (nm : String) (n : Nat) (hn : DcNames nm) :
    HoldsOn M (mkTop (.donchian p : Kind K) nm n) (fun spec j c => DcIn p n nm spec j c) :=
  leaf_holdsOn _ nm n (Covered.donchian (p : Int) (by omega)) _ (fun raw hraw => by
    obtain ⟨vs, hl, hrun, hall⟩ := donchian_series p hp nm n hn raw hraw
    refine ⟨_, hrun, deco_length nm raw vs hl, fun j hj hwf => ?_⟩
    rw [own_deco nm hn.key raw vs hl j hj]
    refine ⟨(hall j hj).1, fun hjp => ?_⟩
    obtain ⟨n1, n2, n3, _⟩ := dcOK_near p n _ _ j _ (hall j hj) hjp
    exact ⟨dc_order p n _ hwf j _ (hall j hj) hjp, n1, n2, n3⟩) M

/-- **HighestLowest encloses the candle** on every manager -/
theorem hl_holds (M : MgrSpec K) (p : Nat) (hp : 1 ≤ p) (nm : String) (n : Nat) (hk : IsKey nm) :
    HoldsOn M (mkTop (.hl p : Kind K) nm n) (fun spec j c => HlIn p n nm spec j c) :=
  leaf_holdsOn _ nm n (Covered.hl (p : Int)) _ (fun raw hraw => by
    obtain ⟨vs, hl, hrun, hall⟩ := hl_series p hp nm n raw hraw
    refine ⟨_, hrun, deco_length nm raw vs hl, fun j hj => ?_⟩
    unfold HlIn
    rw [own_deco nm hk raw vs hl j hj]
    exact hlOK_near p n _ _ j _ (hall j hj)) M

/-- **Counter: the run length, a non-negative int** on every manager, every float carrier -/
theorem counter_holds {F : Type} [PyF F] (M : MgrSpec F) (nm input : String) (fld : Candle F → Num F)
    (cv : Scalar F) (n : Nat) (hk : IsKey nm) (hin : AttrInput input)
    (hattr : ∀ c : Candle F, c.attr input = some (.num (fld c))) :
    HoldsOn M (mkTop (.counter input cv : Kind F) nm n) (fun spec j c => CountIn cv fld nm spec j c) :=
  leaf_holdsOn _ nm n (Covered.counter input cv hin) _ (fun raw hraw => by
    obtain ⟨vs, hl, hrun, hall⟩ := counter_series nm input fld cv n hk hin.1 hattr raw
    refine ⟨_, hrun, deco_length nm raw vs hl, fun j hj => ?_⟩
    unfold CountIn
    rw [own_deco nm hk raw vs hl j hj]
    exact hall j hj) M

/-! ### (1) the three Heikin-Ashi managers

One line each: the `…_holds` theorem at `M = MgrSpec.ha`, `MgrSpec.tfHA tf`, `MgrSpec.fillHA tf`.  The engine
runs on the CONVERTED candles (`haSpec …`), so the textbook quantities in `AroonIn`, `DcIn`, `HlIn`, `CountIn` and
the side conditions `InputBetween` / `LowLeHigh` refer to the Heikin-Ashi values; the side conditions follow from
well-formedness of the candles BEFORE conversion (`inputBetween_haSpec_close`, `lowLeHigh_haSpec`). -/

theorem rsi_ha (p : Nat) (hp : 1 ≤ p) (nm input : String) (fld : Candle K → Num K)
    (n : Nat) (hn : RsiNames nm) (hk : IsKey nm) (hin : AttrInput input)
    (hattr : ∀ c : Candle K, c.attr input = some (.num (fld c))) :
    HoldsOnHA (mkTop (.rsi (p : Int) input : Kind K) nm n) (fun _ j c => RsiIn p nm j c) :=
  .of_all fun M => rsi_holds M p hp nm input fld n hn hk hin hattr

theorem stoch_ha (p sk sl : Nat) (hp : 2 ≤ p) (hsk : 1 ≤ sk) (hsl : 1 ≤ sl)
    (nm input : String) (fld : Candle K → Num K) (n : Nat) (hn : StochNames nm) (hin : AttrInput input)
    (hattr : ∀ c : Candle K, c.attr input = some (.num (fld c))) :
    HoldsOnHA (mkTop (.stoch (p : Int) (sl : Int) (sk : Int) input : Kind K) nm n)
      (fun spec j c => StochIn n p sk sl nm fld spec j c) :=
  .of_all fun M => stoch_holds M p sk sl hp hsk hsl nm input fld n hn hin hattr

theorem aroon_ha (p : Nat) (hp : 1 ≤ p) (nm : String) (n : Nat) (hk : IsKey nm) :
    HoldsOnHA (mkTop (.aroon p : Kind K) nm n) (fun spec j c => AroonIn p n nm spec j c) :=
  .of_all fun M => aroon_holds M p hp nm n hk

theorem adx_ha (nm : String) (n p sg : Nat) (hp : 1 ≤ p) (hg : 1 ≤ sg) (hn : AdxNames nm) :
    HoldsOnHA (mkTop (.adx (p : Int) (sg : Int) : Kind K) nm n) (fun _ j c => AdxIn p nm j c) :=
  .of_all fun M => adx_holds M nm n p sg hp hg hn

theorem tsi_ha (nm : String) (n p s : Nat) (input : String) (fld : Candle K → Num K)
    (hp : 1 ≤ p) (hs : 1 ≤ s) (hn : TsiNames nm) (hin : AttrInput input)
    (hattr : ∀ c : Candle K, c.attr input = some (.num (fld c))) :
    HoldsOnHA (mkTop (.tsi (p : Int) (s : Int) input : Kind K) nm n) (fun _ j c => TsiIn n p s nm j c) :=
  .of_all fun M => tsi_holds M nm n p s input fld hp hs hn hin hattr

theorem atr_ha (p : Nat) (hp : 1 ≤ p) (nm : String) (n : Nat) (hk : IsKey nm) (hn : AtrNames nm) :
    HoldsOnHA (mkTop (.atr (p : Int) : Kind K) nm n) (fun _ j c => AtrIn p nm j c) :=
  .of_all fun M => atr_holds M p hp nm n hk hn

theorem stdev_ha [NonnegSqrt K] (p : Nat) (hp : 1 ≤ p) (nm input : String)
    (fld : Candle K → Num K) (n : Nat) (hn : SdNames nm) (hin : AttrInput input)
    (hattr : ∀ c : Candle K, c.attr input = some (.num (fld c))) :
    HoldsOnHA (mkTop (.stdev (p : Int) input : Kind K) nm n) (fun _ j c => SigmaIn p nm j c) :=
  .of_all fun M => stdev_holds M p hp nm input fld n hn hin hattr

theorem bbands_ha [NonnegSqrt K] (p : Nat) (hp : 2 ≤ p) (nm input : String)
    (fld : Candle K → Num K) (n : Nat) (hk : IsKey nm) (hn : BbNames nm) (hin : AttrInput input)
    (hattr : ∀ c : Candle K, c.attr input = some (.num (fld c))) :
    HoldsOnHA (mkTop (.bbands (p : Int) input : Kind K) nm n) (fun _ j c => BbIn p nm j c) :=
  .of_all fun M => bbands_holds M p hp nm input fld n hk hn hin hattr

theorem kc_ha (p : Nat) (hp : 2 ≤ p) (nm input : String) (fld : Candle K → Num K)
    (n : Nat) (mult : Num K) (hk : IsKey nm) (hn : KcNames nm) (hin : AttrInput input)
    (hattr : ∀ c : Candle K, c.attr input = some (.num (fld c))) (hm : 0 ≤ mult.toF) :
    HoldsOnHA (mkTop (.kc (p : Int) input mult : Kind K) nm n) (fun _ j c => KcIn p nm j c) :=
  .of_all fun M => kc_holds M p hp nm input fld n mult hk hn hin hattr hm

theorem donchian_ha (p : Nat) (hp : 2 ≤ p) (nm : String) (n : Nat) (hn : DcNames nm) :
    HoldsOnHA (mkTop (.donchian p : Kind K) nm n) (fun spec j c => DcIn p n nm spec j c) :=
  .of_all fun M => donchian_holds M p hp nm n hn

theorem hl_ha (p : Nat) (hp : 1 ≤ p) (nm : String) (n : Nat) (hk : IsKey nm) :
    HoldsOnHA (mkTop (.hl p : Kind K) nm n) (fun spec j c => HlIn p n nm spec j c) :=
  .of_all fun M => hl_holds M p hp nm n hk

theorem supertrend_ha (p : Nat) (hp : 1 ≤ p) (nm input : String) (mult : Num K) (n : Nat)
    (hn : StNames nm) (hk : IsKey nm) :
    HoldsOnHA (mkTop (.supertrend (p : Int) input mult : Kind K) nm n) (fun _ j c => StIn p nm j c) :=
  .of_all fun M => supertrend_holds M p hp nm input mult n hn hk

theorem macd_ha (nm : String) (n pf ps pg : Nat) (input : String) (fld : Candle K → Num K)
    (hf : 2 ≤ pf) (hfs : pf ≤ ps) (hg : 1 ≤ pg) (hn : MacdNames nm) (hin : AttrInput input)
    (hattr : ∀ c : Candle K, c.attr input = some (.num (fld c))) :
    HoldsOnHA (mkTop (.macd (pf : Int) (ps : Int) (pg : Int) input : Kind K) nm n)
      (fun _ j c => MacdIn n ps pg nm j c) :=
  .of_all fun M => macd_holds M nm n pf ps pg input fld hf hfs hg hn hin hattr

theorem counter_ha {F : Type} [PyF F] (nm input : String) (fld : Candle F → Num F)
    (cv : Scalar F) (n : Nat) (hk : IsKey nm) (hin : AttrInput input)
    (hattr : ∀ c : Candle F, c.attr input = some (.num (fld c))) :
    HoldsOnHA (mkTop (.counter input cv : Kind F) nm n) (fun spec j c => CountIn cv fld nm spec j c) :=
  .of_all fun M => counter_holds M nm input fld cv n hk hin hattr

/-- the converted candles of well-formed candles have `low ≤ close ≤ high` (the side condition of `StochIn` for
`input = close`) – `B` = the stream on `MgrSpec.ha`, `resample tf stream` on `MgrSpec.tfHA`,
`fillSpec tf stream` on `MgrSpec.fillHA` -/
theorem inputBetween_haSpec_close (B : List (Candle K)) (h : ∀ c ∈ B, WellFormed c) :
    InputBetween (·.c) (haSpec B) := by
  intro i hi
  have hm : (haSpec B).getD i default ∈ haSpec B := by
    rw [List.getD_eq_getElem?_getD, List.getElem?_eq_getElem hi]; exact List.getElem_mem _
  have hw := wellFormed_haSpec B h _ hm
  exact ⟨hw.lo.2, hw.hi.2⟩

/-- … and `low ≤ high` (the side condition of `DcIn`) -/
theorem lowLeHigh_haSpec (B : List (Candle K)) (h : ∀ c ∈ B, WellFormed c) : LowLeHigh (haSpec B) :=
  fun c hc => le_trans (wellFormed_haSpec B h c hc).lo.2 (wellFormed_haSpec B h c hc).hi.2

/-! ### (2) lifespan managers under the retention hypothesis

`HoldsOnLifespan ind (treeLook …) P`: nothing popped at construction, `treeLook` finished candles retained at
every append that pops.  Index-free corollaries (`∀ c ∈ kept, …`) by `HoldsOnLifespan.every`. -/

theorem rsi_lifespan (p : Nat) (hp : 1 ≤ p) (nm input : String) (fld : Candle K → Num K)
    (n : Nat) (hn : RsiNames nm) (hk : IsKey nm) (hin : AttrInput input)
    (hattr : ∀ c : Candle K, c.attr input = some (.num (fld c))) :
    HoldsOnLifespan (mkTop (.rsi (p : Int) input : Kind K) nm n) (treeLook (.rsi (p : Int) input : Kind K) nm n)
      (fun _ j c => RsiIn p nm j c) :=
  holdsOnLifespan_of (rsi_lifeTotal p hp nm input fld n hn hk hin hattr)
    (rsi_holds _ p hp nm input fld n hn hk hin hattr)

/-- **every RSI reading a lifespan manager retains is `None` or in `[0, 100]`** -/
theorem rsi_lifespan_range (p : Nat) (hp : 1 ≤ p) (nm input : String) (fld : Candle K → Num K)
    (n : Nat) (hn : RsiNames nm) (hk : IsKey nm) (hin : AttrInput input)
    (hattr : ∀ c : Candle K, c.attr input = some (.num (fld c)))
    (life : Int) (init : List (Candle K)) (chunks : List (List (Candle K)))
    (hpl : ∀ c ∈ init ++ chunks.flatten, Plain c) (hinit : trimCandles (some life) init = .ok init)
    (hret : RetainsFrom (treeLook (.rsi (p : Int) input : Kind K) nm n) life init init.length chunks) :
    ∃ kept, candlesOf (runIndicator (mkTop (.rsi (p : Int) input : Kind K) nm n) { lifespan := some life }
        init chunks) = .ok kept ∧
      ∀ c ∈ kept, readingByCandle c nm = .none ∨ ∃ y : K, readingByCandle c nm = .flt y ∧ 0 ≤ y ∧ y ≤ 100 :=
  (rsi_lifespan p hp nm input fld n hn hk hin hattr).every (fun _ _ _ h => h.free) life init chunks hpl hinit hret

theorem stoch_lifespan (p sk sl : Nat) (hp : 2 ≤ p) (hsk : 1 ≤ sk) (hsl : 1 ≤ sl)
    (nm input : String) (fld : Candle K → Num K) (n : Nat) (hn : StochNames nm) (hin : AttrInput input)
    (hattr : ∀ c : Candle K, c.attr input = some (.num (fld c))) :
    HoldsOnLifespan (mkTop (.stoch (p : Int) (sl : Int) (sk : Int) input : Kind K) nm n)
      (treeLook (.stoch (p : Int) (sl : Int) (sk : Int) input : Kind K) nm n)
      (fun spec j c => StochIn n p sk sl nm fld spec j c) :=
  holdsOnLifespan_of (stoch_lifeTotal p sk sl hp hsk hsl nm input fld n hn hin hattr)
    (stoch_holds _ p sk sl hp hsk hsl nm input fld n hn hin hattr)

theorem aroon_lifespan (p : Nat) (hp : 1 ≤ p) (nm : String) (n : Nat) (hk : IsKey nm) :
    HoldsOnLifespan (mkTop (.aroon p : Kind K) nm n) (treeLook (.aroon p : Kind K) nm n)
      (fun spec j c => AroonIn p n nm spec j c) :=
  holdsOnLifespan_of
    (lifeTotal_of _ nm n (.base _ (.leaf _ (Covered.aroon (p : Int) (by omega))))
      (aroon_live_total (MgrSpec.base K) p hp nm n hk).1)
    (aroon_holds _ p hp nm n hk)

theorem adx_lifespan (nm : String) (n p sg : Nat) (hp : 1 ≤ p) (hg : 1 ≤ sg) (hn : AdxNames nm) :
    HoldsOnLifespan (mkTop (.adx (p : Int) (sg : Int) : Kind K) nm n)
      (treeLook (.adx (p : Int) (sg : Int) : Kind K) nm n) (fun _ j c => AdxIn p nm j c) :=
  holdsOnLifespan_of (adx_lifeTotal nm n p sg hp hg hn) (adx_holds _ nm n p sg hp hg hn)

theorem tsi_lifespan (nm : String) (n p s : Nat) (input : String) (fld : Candle K → Num K)
    (hp : 1 ≤ p) (hs : 1 ≤ s) (hn : TsiNames nm) (hin : AttrInput input)
    (hattr : ∀ c : Candle K, c.attr input = some (.num (fld c))) :
    HoldsOnLifespan (mkTop (.tsi (p : Int) (s : Int) input : Kind K) nm n)
      (treeLook (.tsi (p : Int) (s : Int) input : Kind K) nm n) (fun _ j c => TsiIn n p s nm j c) :=
  holdsOnLifespan_of (tsi_lifeTotal nm n p s input fld hp hs hn hin hattr)
    (tsi_holds _ nm n p s input fld hp hs hn hin hattr)

theorem atr_lifespan (p : Nat) (hp : 1 ≤ p) (nm : String) (n : Nat) (hk : IsKey nm) (hn : AtrNames nm) :
    HoldsOnLifespan (mkTop (.atr (p : Int) : Kind K) nm n) (treeLook (.atr (p : Int) : Kind K) nm n)
      (fun _ j c => AtrIn p nm j c) :=
  holdsOnLifespan_of (atr_lifeTotal p hp nm n hk hn) (atr_holds _ p hp nm n hk hn)

theorem stdev_lifespan [NonnegSqrt K] (p : Nat) (hp : 1 ≤ p) (nm input : String)
    (fld : Candle K → Num K) (n : Nat) (hn : SdNames nm) (hin : AttrInput input)
    (hattr : ∀ c : Candle K, c.attr input = some (.num (fld c))) :
    HoldsOnLifespan (mkTop (.stdev (p : Int) input : Kind K) nm n)
      (treeLook (.stdev (p : Int) input : Kind K) nm n) (fun _ j c => SigmaIn p nm j c) :=
  holdsOnLifespan_of (stdev_lifeTotal p hp nm input fld n hn hin hattr)
    (stdev_holds _ p hp nm input fld n hn hin hattr)

theorem bbands_lifespan [NonnegSqrt K] (p : Nat) (hp : 2 ≤ p) (nm input : String)
    (fld : Candle K → Num K) (n : Nat) (hk : IsKey nm) (hn : BbNames nm) (hin : AttrInput input)
    (hattr : ∀ c : Candle K, c.attr input = some (.num (fld c))) :
    HoldsOnLifespan (mkTop (.bbands (p : Int) input : Kind K) nm n)
      (treeLook (.bbands (p : Int) input : Kind K) nm n) (fun _ j c => BbIn p nm j c) :=
  holdsOnLifespan_of (bbands_lifeTotal p hp nm input fld n hk hn hin hattr)
    (bbands_holds _ p hp nm input fld n hk hn hin hattr)

theorem kc_lifespan (p : Nat) (hp : 2 ≤ p) (nm input : String) (fld : Candle K → Num K)
    (n : Nat) (mult : Num K) (hk : IsKey nm) (hn : KcNames nm) (hin : AttrInput input)
    (hattr : ∀ c : Candle K, c.attr input = some (.num (fld c))) (hm : 0 ≤ mult.toF) :
    HoldsOnLifespan (mkTop (.kc (p : Int) input mult : Kind K) nm n)
      (treeLook (.kc (p : Int) input mult : Kind K) nm n) (fun _ j c => KcIn p nm j c) :=
  holdsOnLifespan_of (kc_lifeTotal p hp nm input fld n mult hk hn hin hattr)
    (kc_holds _ p hp nm input fld n mult hk hn hin hattr hm)

theorem donchian_lifespan (p : Nat) (hp : 2 ≤ p) (nm : String) (n : Nat) (hn : DcNames nm) :
    HoldsOnLifespan (mkTop (.donchian p : Kind K) nm n) (treeLook (.donchian p : Kind K) nm n)
      (fun spec j c => DcIn p n nm spec j c) :=
  holdsOnLifespan_of
    (lifeTotal_of _ nm n (.base _ (.leaf _ (Covered.donchian (p : Int) (by omega))))
      (donchian_live_total (MgrSpec.base K) p hp nm n hn).1)
    (donchian_holds _ p hp nm n hn)

theorem hl_lifespan (p : Nat) (hp : 1 ≤ p) (nm : String) (n : Nat) (hk : IsKey nm) :
    HoldsOnLifespan (mkTop (.hl p : Kind K) nm n) (treeLook (.hl p : Kind K) nm n)
      (fun spec j c => HlIn p n nm spec j c) :=
  holdsOnLifespan_of
    (lifeTotal_of _ nm n (.base _ (.leaf _ (Covered.hl (p : Int)))) (hl_live_total (MgrSpec.base K) p hp nm n hk).1)
    (hl_holds _ p hp nm n hk)

theorem supertrend_lifespan (p : Nat) (hp : 1 ≤ p) (nm input : String) (mult : Num K) (n : Nat)
    (hn : StNames nm) (hk : IsKey nm) :
    HoldsOnLifespan (mkTop (.supertrend (p : Int) input mult : Kind K) nm n)
      (treeLook (.supertrend (p : Int) input mult : Kind K) nm n) (fun _ j c => StIn p nm j c) :=
  holdsOnLifespan_of (supertrend_lifeTotal p hp nm input mult n hn hk) (supertrend_holds _ p hp nm input mult n hn hk)

theorem macd_lifespan (nm : String) (n pf ps pg : Nat) (input : String) (fld : Candle K → Num K)
    (hf : 2 ≤ pf) (hfs : pf ≤ ps) (hg : 1 ≤ pg) (hn : MacdNames nm) (hin : AttrInput input)
    (hattr : ∀ c : Candle K, c.attr input = some (.num (fld c))) :
    HoldsOnLifespan (mkTop (.macd (pf : Int) (ps : Int) (pg : Int) input : Kind K) nm n)
      (treeLook (.macd (pf : Int) (ps : Int) (pg : Int) input : Kind K) nm n)
      (fun _ j c => MacdIn n ps pg nm j c) :=
  holdsOnLifespan_of (macd_lifeTotal nm n pf ps pg input fld hf hfs hg hn hin hattr)
    (macd_holds _ nm n pf ps pg input fld hf hfs hg hn hin hattr)

theorem counter_lifespan {F : Type} [PyF F] (nm input : String) (fld : Candle F → Num F)
    (cv : Scalar F) (n : Nat) (hk : IsKey nm) (hin : AttrInput input)
    (hattr : ∀ c : Candle F, c.attr input = some (.num (fld c))) :
    HoldsOnLifespan (mkTop (.counter input cv : Kind F) nm n) (treeLook (.counter input cv : Kind F) nm n)
      (fun spec j c => CountIn cv fld nm spec j c) :=
  holdsOnLifespan_of
    (lifeTotal_of _ nm n (.base _ (.leaf _ (Covered.counter input cv hin)))
      (counter_live_total (MgrSpec.base F) nm input fld cv n hk hin hattr).1)
    (counter_holds _ nm input fld cv n hk hin hattr)

/-! ### (3) late-starting / foreign-column inputs (engine level)

`input` may be a candle field or ANOTHER indicator's scalar reading (an ordinary key already on the candles), `None`
on the first `t0` candles and a number afterwards.  Corollaries of `c06_chained_partial`, `c05_inputs_partial`,
`c05_bbands` (the `None` hypothesis is necessary: `c06_chained_full_false`, `c05_inputs_full_false`). -/

/-- **RSI ∈ [0, 100] for a late-starting / foreign input**: `engineCalc` returns, the own reading is `None` on the
first `t0 + p` candles and afterwards a float in `[0, 100]` -/
theorem rsi_inputs_range (p : Nat) (nm input : String) (n t0 : Nat) (cs : List (Candle K)) (x : Nat → K)
    (hp : 1 ≤ p) (hk : IsKey nm) (hn : RsiNames nm) (hid : NoDot input) (h1 : input ≠ nm)
    (h2 : input ≠ nm ++ "_data")
    (habs : ∀ c ∈ cs, dlookup nm c.inds = none ∧ dlookup nm c.subs = none ∧
      dlookup (nm ++ "_data") c.inds = none ∧ dlookup (nm ++ "_data") c.subs = none)
    (hin : ∀ j, j < cs.length → inputSeriesAt cs input j = if j < t0 then none else some (x (j - t0)))
    (hnone : ∀ j, j < cs.length → j < t0 → readingByCandle (cs.getD j default) input = .none) :
    ∃ out : List (Candle K), out.length = cs.length ∧
      engineCalc (mkTop (.rsi (p : Int) input : Kind K) nm n) cs = .ok out ∧
      ∀ j, j < cs.length → RsiIn (t0 + p) nm j (out.getD j default) := by
  obtain ⟨out, hl, hrun, hall⟩ := c06_chained_partial K p nm input n t0 cs x hp hk hn hid h1 h2 habs hin hnone
  refine ⟨out, hl, hrun, fun j hj => ⟨fun hjp => ?_, fun hjp => ?_⟩⟩
  · by_cases hjt : j < t0
    · exact (hall j hj).1 hjt
    · have h := (hall j hj).2 (by omega)
      unfold rsiSeries at h
      rw [if_pos (by omega)] at h
      exact h
  · have h := (hall j hj).2 (by omega)
    unfold rsiSeries at h
    rw [if_neg (by omega)] at h
    obtain ⟨y, hy, _, h0, h100⟩ := h
    exact ⟨y, hy, h0, h100⟩

/-- **σ ≥ 0 for a late-starting foreign input** -/
theorem stdev_inputs_nonneg [NonnegSqrt K] (p : Nat) (nm input : String) (n t0 : Nat) (cs : List (Candle K))
    (x : Nat → K) (hp : 1 ≤ p) (hn : SdNames nm) (hik : IsKey input) (h1 : input ≠ nm) (h2 : input ≠ nm ++ "_data")
    (habs : ∀ c ∈ cs, dlookup nm c.inds = none ∧ dlookup nm c.subs = none ∧
      dlookup (nm ++ "_data") c.inds = none ∧ dlookup (nm ++ "_data") c.subs = none)
    (hin : ∀ j, j < cs.length →
      (match readingByCandle (cs.getD j default) input with
        | .s (.num r) => some r.toF
        | _ => none) = if j < t0 then none else some (x (j - t0)))
    (hnone : ∀ j, j < cs.length → j < t0 → readingByCandle (cs.getD j default) input = .none) :
    ∃ out : List (Candle K), engineCalc (mkTop (.stdev (p : Int) input : Kind K) nm n) cs = .ok out ∧
      out.length = cs.length ∧ ∀ j, j < cs.length → SigmaIn (t0 + p) nm j (out.getD j default) := by
  obtain ⟨out, hrun, hl, hall⟩ := c05_inputs_partial K p nm input n t0 cs x hp hn hik h1 h2 habs hin hnone
  refine ⟨out, hrun, hl, fun j hj => ⟨fun hjp => ?_, fun hjp => ?_⟩⟩
  · by_cases hjt : j < t0
    · exact (hall j hj).1 hjt
    · have h := (hall j hj).2 (by omega)
      unfold stdevSeries at h
      rw [if_pos (by omega)] at h
      exact h
  · have h := (hall j hj).2 (by omega)
    unfold stdevSeries at h
    rw [if_neg (by omega)] at h
    obtain ⟨y, hy, _, h0⟩ := h
    exact ⟨y, hy, h0⟩

/-- **BBANDS lower ≤ middle ≤ upper for a late-starting foreign input** -/
theorem bbands_inputs_order [NonnegSqrt K] (p : Nat) (nm input : String) (n t0 : Nat) (cs : List (Candle K))
    (x : Nat → K) (hp : 2 ≤ p) (hk : IsKey nm) (hn : BbNames nm) (hi : BbInput nm input)
    (habs : ∀ c ∈ cs, BbAbsent nm c)
    (hin : ∀ j, j < cs.length →
      (match readingByCandle (cs.getD j default) input with
        | .s (.num r) => some r.toF
        | _ => none) = if j < t0 then none else some (x (j - t0)))
    (hnone : ∀ j, j < cs.length → j < t0 → readingByCandle (cs.getD j default) input = .none) :
    ∃ out : List (Candle K), engineCalc (mkTop (.bbands (p : Int) input : Kind K) nm n) cs = .ok out ∧
      out.length = cs.length ∧
      ∀ j, j < cs.length →
        (j < t0 + p → readingByCandle (out.getD j default) nm = bbNoneDict) ∧
        (t0 + p ≤ j → ∃ lo mid up : K, readingByCandle (out.getD j default) nm = bbDict lo mid up ∧
          lo ≤ mid ∧ mid ≤ up) := by
  obtain ⟨out, hrun, hl, hall⟩ := c05_bbands K p nm input n t0 cs x hp hk hn hi habs hin hnone
  refine ⟨out, hrun, hl, fun j hj => ⟨fun hjp => ?_, fun hjp => ?_⟩⟩
  · by_cases hjt : j < t0
    · exact (hall j hj).1 hjt
    · have h := (hall j hj).2 (by omega)
      unfold bbSeries at h
      rw [if_pos (by omega)] at h
      exact h
  · have h := (hall j hj).2 (by omega)
    unfold bbSeries at h
    rw [if_neg (by omega)] at h
    obtain ⟨lo, mid, up, hv, o1, o2, _⟩ := h
    exact ⟨lo, mid, up, hv, o1, o2⟩

/-! ### non-vacuity -/

theorem rsiNames_demo2 : RsiNames "RSI_2" := ⟨by decide, by decide, by decide, by decide⟩

/-- RSI(2) on base timeframe + Heikin-Ashi, two candles at construction and three appended: the history returns,
and the reading of the last converted candle is a float in `[0, 100]` -/
example : ∃ snap : List (Candle ℚ),
    candlesOf (runIndicator (mkTop (.rsi ((2 : Nat) : Int) "close" : Kind ℚ) "RSI_2" 4) { ha := true }
      (haStamped.take 2) [haStamped.drop 2]) = .ok snap ∧
    readingByCandle (snap.getD 1 default) "RSI_2" = .none ∧
    ∃ y, readingByCandle (snap.getD 4 default) "RSI_2" = .flt y ∧ 0 ≤ y ∧ y ≤ 100 := by
  obtain ⟨snap, h1, _, h3⟩ := (rsi_ha (K := ℚ) 2 (by norm_num) "RSI_2" "close" (·.c) 4 rsiNames_demo2 (by decide)
    ⟨noDot_close, by decide⟩ (fun _ => rfl)).unfold.1 (haStamped.take 2) [haStamped.drop 2] haStamped_plain
  have hlen : (haSpec (haStamped.take 2 ++ [haStamped.drop 2].flatten)).length = 5 := by
    rw [haSpec_length]; rfl
  exact ⟨snap, h1, (h3 1 (by rw [hlen]; decide)).1 (by decide), (h3 4 (by rw [hlen]; decide)).2 (by decide)⟩

/-- STOCH(2, 2, 2) on `close` with Heikin-Ashi conversion: the side condition `low ≤ close ≤ high` on the converted
candles is discharged from well-formedness of the raw ones; `stoch ∈ [0, 100]` on the last candle -/
example : ∃ snap : List (Candle ℚ),
    candlesOf (runIndicator (mkTop (.stoch ((2 : Nat) : Int) ((2 : Nat) : Int) ((2 : Nat) : Int) "close" : Kind ℚ)
      "STOCH_2" 4) { ha := true } [] (haStamped.map fun c => [c])) = .ok snap ∧
    ∃ y, (readingByCandle (snap.getD 4 default) "STOCH_2").nested "stoch" = .flt y ∧ 0 ≤ y ∧ y ≤ 100 := by
  obtain ⟨snap, h1, _, h3⟩ := (stoch_ha (K := ℚ) 2 2 2 (by norm_num) (by norm_num) (by norm_num) "STOCH_2" "close"
    (·.c) 4 stochNames_demo ⟨noDot_close, by decide⟩ (fun _ => rfl)).unfold.1 [] (haStamped.map fun c => [c])
    haStamped_plain
  have hlen : (haSpec ([] ++ (haStamped.map fun c => [c]).flatten)).length = 5 := by
    rw [haSpec_length]; rfl
  exact ⟨snap, h1, (h3 4 (by rw [hlen]; decide) (inputBetween_haSpec_close _ haStamped_wf)).1 (by decide)⟩

/-- MACD(2, 3, 2) on a two-minute timeframe WITH gap filling AND Heikin-Ashi, fed one candle at a time: the history
returns with one candle per converted filled bucket, each satisfying the histogram identity -/
example : ∃ snap : List (Candle ℚ),
    candlesOf (runIndicator
      (mkTop (.macd ((2 : Nat) : Int) ((3 : Nat) : Int) ((2 : Nat) : Int) "close" : Kind ℚ) "MACD_2_3_2" 4)
      { tf := some 120, fill := true, ha := true } [] (haStamped.map fun c => [c])) = .ok snap ∧
    snap.length = (haSpec (fillSpec 120 haStamped)).length ∧
    ∀ j, j < (haSpec (fillSpec 120 haStamped)).length → MacdIn 4 3 2 "MACD_2_3_2" j (snap.getD j default) :=
  (macd_ha (K := ℚ) "MACD_2_3_2" 4 2 3 2 "close" (·.c) (by norm_num) (by norm_num) (by norm_num) macdNames_demo
    ⟨noDot_close, by decide⟩ (fun _ => rfl)).unfold.2.2 120 (by decide) [] (haStamped.map fun c => [c]) haStamped_ok

/-- MACD(2, 3, 2) with a 400-second lifespan (the schedule of `haStamped_retains2`: two candles popped, look-back 2
retained): the history returns the untrimmed history minus the popped candles, each retained candle with the
histogram identity at its index in the whole stream -/
example : ∃ (snap kept : List (Candle ℚ)) (d : Nat),
    candlesOf (runIndicator
      (mkTop (.macd ((2 : Nat) : Int) ((3 : Nat) : Int) ((2 : Nat) : Int) "close" : Kind ℚ) "MACD_2_3_2" 4)
      {} (haStamped.take 3) [[haStamped.getD 3 default], [], [haStamped.getD 4 default]]) = .ok snap ∧
    candlesOf (runIndicator
      (mkTop (.macd ((2 : Nat) : Int) ((3 : Nat) : Int) ((2 : Nat) : Int) "close" : Kind ℚ) "MACD_2_3_2" 4)
      { lifespan := some 400 } (haStamped.take 3) [[haStamped.getD 3 default], [], [haStamped.getD 4 default]])
        = .ok kept ∧
    kept = snap.drop d ∧ d + kept.length = 5 ∧
    ∀ i, i < kept.length → MacdIn 4 3 2 "MACD_2_3_2" (d + i) (kept.getD i default) := by
  have hL : treeLook (F := ℚ) (.macd ((2 : Nat) : Int) ((3 : Nat) : Int) ((2 : Nat) : Int) "close") "MACD_2_3_2" 4 = 2 := by
    simp [treeLook, mkTop, children, Ind.lb_eq, Ind.kind, Ind.subs, Ind.managed, leaf, kwin, window]
  exact macd_lifespan (K := ℚ) "MACD_2_3_2" 4 2 3 2 "close" (·.c) (by norm_num) (by norm_num) (by norm_num)
    macdNames_demo ⟨noDot_close, by decide⟩ (fun _ => rfl) 400 _ _ (by decide) rfl
    (by rw [hL]; exact haStamped_retains2)

/-- RSI of the late-starting foreign reading `"EMA_2"` of `demoForeign` (`None, None, 12, 14, 15`) -/
example : ∃ out : List (Candle ℚ), out.length = demoForeign.length ∧
    engineCalc (mkTop (.rsi ((1 : Nat) : Int) "EMA_2" : Kind ℚ) "RSI_1" 4) demoForeign = .ok out ∧
    ∀ j, j < demoForeign.length → RsiIn (2 + 1) "RSI_1" j (out.getD j default) :=
  rsi_inputs_range 1 "RSI_1" "EMA_2" 4 2 demoForeign demoX (by norm_num) (by decide) rsiNames_demo1
    (by decide) (by decide) (by decide)
    (by
      intro c hc
      have h1 := demoForeign_abs "RSI_1" (by decide) (by decide) (by decide) c hc
      have h2 := demoForeign_abs "RSI_1_data" (by decide) (by decide) (by decide) c hc
      exact ⟨h1.1, h1.2, h2.1, h2.2⟩)
    demoForeign_in demoForeign_none

end Numeric

/-! non-vacuity over the toy carrier `Int` (`decide +kernel`): Counter on timeframe + fill + Heikin-Ashi, and on a
lifespan manager -/
section IntDemo
open Numeric

/-- the theorem applied: the history returns, one candle per converted filled bucket, each carrying the run
length of converted closes equal to 30 … -/
example : ∃ snap, candlesOf (runIndicator (mkTop (.counter "close" (.num (.int 30))) "COUNT_close" 4 : Ind Int)
      (cfgFillHA 120) (haIntStream.take 1) [haIntStream.drop 1 |>.take 2, [], haIntStream.drop 3]) = .ok snap ∧
    snap.length = (haSpec (fillSpec 120 haIntStream)).length ∧
    ∀ j, j < (haSpec (fillSpec 120 haIntStream)).length →
      CountIn (.num (.int 30)) (·.c) "COUNT_close" (haSpec (fillSpec 120 haIntStream)) j (snap.getD j default) :=
  (counter_ha (F := Int) "COUNT_close" "close" (·.c) (.num (.int 30)) 4 (by decide) ⟨by decide, by decide⟩
    (fun _ => rfl)).unfold.2.2 120 (by decide) _ _ haIntStream_ok

/-- … and the run itself: five converted buckets, counts as non-negative ints -/
example : ((candlesOf (runIndicator (mkTop (.counter "close" (.num (.int 30))) "COUNT_close" 4 : Ind Int)
    (cfgFillHA 120) (haIntStream.take 1) [haIntStream.drop 1 |>.take 2, [], haIntStream.drop 3])).toOption.map
      (·.map fun c => (readingByCandle c "COUNT_close").isNone)) = some [false, false, false, false, false] := by
  decide +kernel

/-- Counter on the lifespan schedule of `lifeDemo_retains4` (five candles popped): the theorem applied -/
example : ∃ (snap kept : List (Candle Int)) (d : Nat),
    candlesOf (runIndicator (mkTop (.counter "close" (.num (.int 58))) "COUNT_close" 4 : Ind Int) {} (lifeInit 8)
      [lifeNew 34, [], lifeNew 35]) = .ok snap ∧
    candlesOf (runIndicator (mkTop (.counter "close" (.num (.int 58))) "COUNT_close" 4 : Ind Int)
      { lifespan := some 30 } (lifeInit 8) [lifeNew 34, [], lifeNew 35]) = .ok kept ∧
    kept = snap.drop d ∧ d + kept.length = (lifeInit 8 ++ [lifeNew 34, [], lifeNew 35].flatten).length ∧
    ∀ i, i < kept.length → CountIn (.num (.int 58)) (·.c) "COUNT_close"
      (lifeInit 8 ++ [lifeNew 34, [], lifeNew 35].flatten) (d + i) (kept.getD i default) := by
  have hL : treeLook (F := Int) (.counter "close" (.num (.int 58))) "COUNT_close" 4 = 1 := by decide +kernel
  exact counter_lifespan (F := Int) "COUNT_close" "close" (·.c) (.num (.int 58)) 4 (by decide)
    ⟨by decide, by decide⟩ (fun _ => rfl) 30 _ _ (by decide) rfl
    (by rw [hL]; exact RetainsFrom.mono (by decide) 30 _ _ _ lifeDemo_retains4)

/-- … and the run itself: five retained candles, the last two closes are 58: counts 0 0 0 1 2 -/
example : ((candlesOf (runIndicator (mkTop (.counter "close" (.num (.int 58))) "COUNT_close" 4 : Ind Int)
      { lifespan := some 30 } (lifeInit 8) [lifeNew 34, [], lifeNew 35])).toOption.map
      (·.map fun c => match readingByCandle c "COUNT_close" with | .s (.num (.int k)) => some k | _ => none))
    = some [some 0, some 0, some 0, some 1, some 2] := by decide +kernel

end IntDemo
end Hex

#print axioms Hex.HoldsOn.every
#print axioms Hex.HoldsOnHA.unfold
#print axioms Hex.holdsOnLifespan_of
#print axioms Hex.HoldsOnLifespan.every
#print axioms Hex.Numeric.rsi_holds
#print axioms Hex.Numeric.rsi_ha
#print axioms Hex.Numeric.stoch_ha
#print axioms Hex.Numeric.aroon_ha
#print axioms Hex.Numeric.adx_ha
#print axioms Hex.Numeric.tsi_ha
#print axioms Hex.Numeric.atr_ha
#print axioms Hex.Numeric.stdev_ha
#print axioms Hex.Numeric.bbands_ha
#print axioms Hex.Numeric.kc_ha
#print axioms Hex.Numeric.donchian_ha
#print axioms Hex.Numeric.hl_ha
#print axioms Hex.Numeric.supertrend_ha
#print axioms Hex.Numeric.macd_ha
#print axioms Hex.Numeric.counter_ha
#print axioms Hex.Numeric.inputBetween_haSpec_close
#print axioms Hex.Numeric.lowLeHigh_haSpec
#print axioms Hex.Numeric.rsi_lifespan
#print axioms Hex.Numeric.rsi_lifespan_range
#print axioms Hex.Numeric.stoch_lifespan
#print axioms Hex.Numeric.aroon_lifespan
#print axioms Hex.Numeric.adx_lifespan
#print axioms Hex.Numeric.tsi_lifespan
#print axioms Hex.Numeric.atr_lifespan
#print axioms Hex.Numeric.stdev_lifespan
#print axioms Hex.Numeric.bbands_lifespan
#print axioms Hex.Numeric.kc_lifespan
#print axioms Hex.Numeric.donchian_lifespan
#print axioms Hex.Numeric.hl_lifespan
#print axioms Hex.Numeric.supertrend_lifespan
#print axioms Hex.Numeric.macd_lifespan
#print axioms Hex.Numeric.counter_lifespan
#print axioms Hex.Numeric.rsi_inputs_range
#print axioms Hex.Numeric.stdev_inputs_nonneg
#print axioms Hex.Numeric.bbands_inputs_order

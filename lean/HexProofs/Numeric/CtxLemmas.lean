import HexProofs.Numeric.NumAlg
import HexModel.Ind.Composite
import HexModel.Analysis.Movement
/-!
# Reading the context: small rewriting lemmas used by the per-indicator theorems
-/
set_option linter.unusedSectionVars false
namespace Hex
variable {F : Type} [PyF F]

/-- `r` is a successful numeric reading denoting the field element `v` -/
def IsNum (r : PyM (Val F)) (v : F) : Prop := ∃ n : Num F, r = .ok (.num n) ∧ n.toF = v

theorem IsNum.ok {r : PyM (Val F)} {v : F} (h : IsNum r v) : ∃ w, r = .ok w := by
  obtain ⟨n, h, _⟩ := h; exact ⟨_, h⟩

theorem isNum_mk (n : Num F) (v : F) (h : n.toF = v) : IsNum (Except.ok (Val.num n)) v := ⟨n, rfl, h⟩

@[simp] theorem pym_bind_ok {α β : Type} (a : α) (f : α → PyM β) : (Except.ok a >>= f) = f a := rfl
@[simp] theorem pym_bind_err {α β : Type} (e : PyErr) (f : α → PyM β) :
    ((Except.error e : PyM α) >>= f) = .error e := rfl
@[simp] theorem pym_pure {α : Type} (a : α) : (pure a : PyM α) = .ok a := rfl

@[simp] theorem Val.asNum_num (n : Num F) : (Val.num n).asNum = .ok n := rfl
@[simp] theorem Val.isNone_num (n : Num F) : (Val.num n).isNone = false := rfl
@[simp] theorem Val.isNone_none : (Val.none : Val F).isNone = true := rfl
@[simp] theorem Val.toScalar_num (n : Num F) : (Val.num n).toScalar = .ok (.num n) := rfl
@[simp] theorem Val.toScalar_none : (Val.none : Val F).toScalar = .ok .none := rfl

namespace Ctx

theorem prevExists_of {x : Ctx F} {name : String} {v : Val F} (h : x.prevReading name = .ok v) :
    x.prevExists name = .ok (!v.isNone) := by
  unfold Ctx.prevExists; rw [h]; rfl

theorem prevNum_of {x : Ctx F} {name : String} {v : Val F} (h : x.prevReading name = .ok v) :
    x.prevNum name = v.asNum := by
  unfold Ctx.prevNum; rw [h]; rfl

theorem num_of {x : Ctx F} {name : String} {idx : Option Int} {v : Val F} (h : x.reading name idx = .ok v) :
    x.num name idx = v.asNum := by
  unfold Ctx.num; rw [h]; rfl

end Ctx

/-- `mapM` over `Except` succeeds with the mapped list when every call succeeds -/
theorem mapM_ok {α β : Type} (l : List α) (f : α → PyM β) (g : α → β)
    (h : ∀ a ∈ l, f a = .ok (g a)) : l.mapM f = .ok (l.map g) := by
  induction l with
  | nil => rfl
  | cons a l ih =>
    rw [List.mapM_cons, h a (by simp), ih (fun b hb => h b (by simp [hb]))]
    rfl

end Hex

import HexProofs.Numeric.Lawful
import HexModel.Ind.Composite
import HexModel.Analysis.Movement
import Mathlib.Tactic.IntervalCases
/-!
# A concrete context over ℚ for non-vacuity examples
-/
namespace Hex
namespace Numeric.Demo

/-- four candles; the third carries readings of a few indicators as the framework would store them -/
def mk (o h l c v : Int) (inds : List (String × Val ℚ) := []) (subs : List (String × Val ℚ) := []) : Candle ℚ :=
  { o := .int o, h := .int h, l := .int l, c := .int c, v := .int v, inds := inds, subs := subs }

def cs : List (Candle ℚ) :=
  [ mk 10 12 9 11 100,
    mk 11 13 10 12 200,
    mk 12 15 11 14 300 [("SMA_3", .flt (37/3)), ("EMA_3", .flt 12), ("RMA_3", .flt 12), ("OBV", .int 600)] [("ATR_3_TR", .flt 4)],
    mk 14 16 13 15 0 ]

/-- the context of index 3 for an indicator called `name` -/
def ctx (name : String) (i : Int := 3) : Ctx ℚ := { cs := cs, i := i, name := name }

example : (ctx "SMA_3").reading "high" = .ok (.num (.int 16)) := rfl
example : (ctx "SMA_3").reading "close" (some 1) = .ok (.num (.int 12)) := rfl
example : (ctx "SMA_3").prevReading "SMA_3" = .ok (.num (.flt (37/3))) := rfl
example : (ctx "SMA_3").readingPeriod 3 "close" = true := by decide
example : (ctx "OBV").prevReading "OBV" = .ok (.int 600) := rfl

end Numeric.Demo
end Hex

import HexProofs.Numeric.Lawful
import HexModel.Ind.Composite
import HexModel.Analysis.Movement
import Mathlib.Tactic.IntervalCases
/-!
# A concrete context over ℚ for non-vacuity examples
-/
namespace Hex
namespace Numeric.Demo

/-- four candles; the third carries readings of a few indicators as the framework would store them -/
def mk (o h l c v : Int) (inds : List (String × Val ℚ) := []) (subs : List (String × Val ℚ) := []) : Candle ℚ :=
  { o := .int o, h := .int h, l := .int l, c := .int c, v := .int v, inds := inds, subs := subs }

def cs : List (Candle ℚ) :=
  [ mk 10 12 9 11 100,
    mk 11 13 10 12 200,
    mk 12 15 11 14 300
      [("SMA_3", .flt (37/3)), ("EMA_3", .flt 12), ("RMA_3", .flt 12), ("OBV", .int 600), ("ATR_3", .flt 3),
       ("COUNT", .int 2), ("RSI_3", .flt 50),
       ("ST_3", .dict [("trend", .num (.flt 10)), ("direction", .num (.int 1)), ("long", .num (.flt 10)), ("short", .none)]),
       ("VWAP", .flt 12)]
      [("ATR_3_TR", .flt 4),
       ("ST_3_data", .dict [("upper", .num (.flt 18)), ("lower", .num (.flt 10))]),
       ("STDEV_3_data", .dict [("mean", .num (.flt (37/3))), ("variance", .num (.flt (14/9)))]),
       ("RSI_3_data", .dict [("gain", .num (.flt 1)), ("loss", .num (.flt 0))]),
       ("VWAP_data", .dict [("pv", .num (.flt 7000)), ("vol", .num (.int 600))])],
    mk 14 16 13 15 0 []
      [("ATR_3_TR", .flt 3), ("BB_3_SMA", .flt 13), ("BB_3_STDEV", .flt 1), ("KC_3_EMA", .flt 13), ("KC_3_ATR", .flt 3),
       ("ST_3_atr", .flt 3), ("ST_3_HL", .flt (29/2)), ("THR_stdev", .flt 0.5),
       ("MACD_EMA_slow", .flt 12), ("MACD_EMA_fast", .flt 13), ("MACD_signal_line", .flt 0.5),
       ("HMA_4_WMA", .flt 13), ("HMA_4_WMAh", .flt 14), ("HMA_4_HMAs", .flt 15),
       ("TSI_abs_second", .flt 2), ("TSI_second", .flt 1),
       ("STOCH_k", .flt 60), ("STOCH_d", .flt 55),
       ("ADX_atr", .flt 3), ("ADX_pos", .flt 1), ("ADX_neg", .flt 0.5), ("ADX_dx", .flt 30)] ]

/-- framework services that succeed without touching the candles (enough for non-vacuity: the
numeric theorems only need the writes to succeed and the read-backs to be what they are) -/
def ops : Ops ℚ := { setManaged := fun _ _ cs => .ok cs, calcManaged := fun _ cs => .ok cs }

/-- framework services that really write the helper series `name` on candle 3 -/
def wr (name : String) (v : Val ℚ) (cs : List (Candle ℚ)) : List (Candle ℚ) :=
  match setReading true name cs 3 v with
  | .ok cs' => cs'
  | .error _ => cs
def opsW (name : String) : Ops ℚ :=
  { setManaged := fun _ v cs => .ok (wr name v cs), calcManaged := fun _ cs => .ok cs }

/-- the context of index 3 for an indicator called `name` -/
def ctx (name : String) (i : Int := 3) : Ctx ℚ := { cs := cs, i := i, name := name }

example : (ctx "SMA_3").reading "high" = .ok (.num (.int 16)) := rfl
example : (ctx "SMA_3").reading "close" (some 1) = .ok (.num (.int 12)) := rfl
example : (ctx "SMA_3").prevReading "SMA_3" = .ok (.num (.flt (37/3))) := rfl
example : (ctx "SMA_3").readingPeriod 3 "close" = true := by decide
example : (ctx "OBV").prevReading "OBV" = .ok (.int 600) := rfl

end Numeric.Demo
end Hex

import HexProofs.Numeric.SeriesInputsBB
import HexProofs.Numeric.SeriesSupertrend
/-!
# Supertrend over candle lists with foreign readings  (C05, "position independent")

WHAT THE `input` PARAMETER OF SUPERTREND FEEDS: NOTHING.  In the model `calcKind` dispatches
`.supertrend _ _ m => Calc.supertrend ops x m` (the `input` is dropped), `children (.supertrend p _ _) name`
builds the helpers `atrNode p (name_atr)` (true range of the candle FIELDS high / low / close) and
`leaf .hla (name_HL)` (candle FIELDS high / low), and `Calc.supertrend` compares the candle FIELD `close`
with the stored bands.  The pinned library is the same (`hexital/indicators/supertrend.py`): the dataclass has
an `input_value` field but `_calculate_reading` reads `self.reading("close")` and the `HighLowAverage` /
`ATR` helpers are built without it (replayed: `Supertrend(period=3, input_value="EMA_5")` over candles that
hold `EMA_5` returns the readings of `Supertrend(period=3)`).

So EVERY quantity Supertrend reads is a candle field or one of its own five names, nothing is shifted, and the
"two-start" form degenerates: the ATR part starts at candle 0 as on raw candles, the `input` part is empty.
The theorem of this file is therefore the raw theorem `st_series` / `st_series_engine` of
`SeriesSupertrend.lean` WITHOUT the `Plain` hypothesis: for every candle list `cs` – whatever it holds under
other names; only the node's own five names are absent – and every `input` string, the engine's `calculate()`
returns `decoSt nm cs rows` (nothing but the five own keys changes) with `StRowOK p n mult cs j rows[j]`:
the SAME predicate, the SAME textbook series `stSeries p mult cs` (a function of the candle fields of `cs`
only) as over raw candles.  In the shape of the sibling statements (`input` = another indicator's reading,
`None` on the first `t0` candles): the conclusion holds for every `t0`, UNSHIFTED (`stI_c05_supertrend_inputs`).

Method (as `SeriesInputsBB.lean`): `engineCalc_st` splits `calculate()` – for every candle list – into four
column passes, each a series induction over the output of the previous one:
1. `leafCalc_induct` for the helper `name_atr_TR` (`stI_tr_pass`; candle fields through `indep_attr`),
2. `leafCalc_induct` for the helper `name_atr` (`stI_atr_pass`): the TR column is an `IView` with start `1`,
3. `leafCalc_induct` for the helper `name_HL` (`stI_hl_pass`),
4. `node_induct` for the own data node (`stI_own_pass`: `stR_none` / `stR_first` / `stR_step`).
-/
set_option linter.unusedSectionVars false
set_option linter.unusedSimpArgs false
set_option linter.unusedVariables false
namespace Hex
namespace Numeric

section generic
variable {F : Type} [PyF F]

/-- **the `input` parameter is not read**: two Supertrend nodes that differ in `input` only run alike on
EVERY candle list -/
theorem stI_input_irrelevant (p : Int) (nm input input' : String) (mult : Num F) (n : Nat) (cs : List (Candle F)) :
    engineCalc (mkTop (.supertrend p input mult : Kind F) nm n) cs
      = engineCalc (mkTop (.supertrend p input' mult : Kind F) nm n) cs := by
  have e1 := engineCalc_st (F := F) nm n p input mult cs
  have e2 := engineCalc_st (F := F) nm n p input' mult cs
  have hS : specWith (stP (F := F) nm n p input mult) (stC nm mult)
      = specWith (stP (F := F) nm n p input' mult) (stC nm mult) := by
    unfold specWith stepWith
    rw [allNames_st, allNames_st]
    rfl
  show engineCalc (stP (F := F) nm n p input mult) cs = engineCalc (stP (F := F) nm n p input' mult) cs
  rw [e1, e2, hS]

end generic

variable {K : Type} [Field K] [LinearOrder K] [IsStrictOrderedRing K] [LawfulPyF K]

/-! ### pass 1: the TR helper -/

/-- **the loop of a TR leaf over any candle list** (its name absent): the stored column is `trStored cs` -/
theorem stI_tr_pass (Z : Ind K) (hkind : Z.kind = .tr) (hround : Z.round = defaultRound) (cs : List (Candle K))
    (habs : ∀ c ∈ cs, dlookup Z.name c.inds = none ∧ dlookup Z.name c.subs = none) :
    ∃ vs : List (Val K), vs.length = cs.length ∧
      leafCalc Z cs = .ok (decoWith (keyOut Z.isSub Z.name) cs vs) ∧
      ∀ j, j < cs.length → vs.getD j .none = trStored cs j := by
  refine leafCalc_induct Z cs habs (fun j v => v = trStored cs j) ?_
  intro m hm vs hvs _
  rw [hkind, hround]
  show ∃ v, Calc.tr { cs := midW (keyOut Z.isSub Z.name) cs vs m, i := m, name := Z.name } = .ok v ∧ _
  have V := midW_iview (keyOut Z.isSub Z.name) .none cs vs m hm hvs Z.name "close" 0
    (fun j => (cs.getD j default).c)
    (fun c v => indep_attr (F := K) Z.name "close" noDot_close (by decide) Z.isSub v c)
    (fun j _ h => absurd h (Nat.not_lt_zero j))
    (fun j _ _ => readingByCandle_attr "close" noDot_close _ _ rfl)
  have hh : ({ cs := midW (keyOut Z.isSub Z.name) cs vs m, i := m, name := Z.name } : Ctx K).reading "high"
      = .ok (.num (cs.getD m default).h) := by
    rw [midW_reading_cur (keyOut Z.isSub Z.name) cs vs m hm hvs Z.name "high"]
    exact congrArg Except.ok (readingByCandle_attr "high" noDot_high _ _ rfl)
  have hl : ({ cs := midW (keyOut Z.isSub Z.name) cs vs m, i := m, name := Z.name } : Ctx K).reading "low"
      = .ok (.num (cs.getD m default).l) := by
    rw [midW_reading_cur (keyOut Z.isSub Z.name) cs vs m hm hvs Z.name "low"]
    exact congrArg Except.ok (readingByCandle_attr "low" noDot_low _ _ rfl)
  have hper := V.period 2 (by omega)
  refine ⟨if m = 0 then .none else .num (trNum cs m), ?_, st_trVal_round cs m⟩
  by_cases h0 : m = 0
  · have hrp : ({ cs := midW (keyOut Z.isSub Z.name) cs vs m, i := m, name := Z.name } : Ctx K).readingPeriod 2 "close"
        = false := by
      have : ({ cs := midW (keyOut Z.isSub Z.name) cs vs m, i := m, name := Z.name } : Ctx K).readingPeriod
          ((2 : Nat) : Int) "close" = false := by rw [hper]; simp; omega
      exact this
    rw [tr_none _ _ _ hh hl hrp]; simp [h0]
  · have hrp : ({ cs := midW (keyOut Z.isSub Z.name) cs vs m, i := m, name := Z.name } : Ctx K).readingPeriod 2 "close"
        = true := by
      have : ({ cs := midW (keyOut Z.isSub Z.name) cs vs m, i := m, name := Z.name } : Ctx K).readingPeriod
          ((2 : Nat) : Int) "close" = true := by rw [hper]; simp; omega
      exact this
    have hpc : ({ cs := midW (keyOut Z.isSub Z.name) cs vs m, i := m, name := Z.name } : Ctx K).prevReading "close"
        = .ok (.num (cs.getD (m - 1) default).c) := by
      rw [midW_prevReading (keyOut Z.isSub Z.name) .none cs vs m hm hvs Z.name "close", if_neg h0]
      show Except.ok (readingByCandle (setKey Z.isSub Z.name _ _) "close") = _
      rw [indep_attr (F := K) Z.name "close" noDot_close (by decide)]
      exact congrArg Except.ok (readingByCandle_attr "close" noDot_close _ _ rfl)
    simp only [h0, if_false]
    simp [Calc.tr, hh, hl, hrp, Ctx.prevNum_of hpc, trNum]

/-! ### pass 2: the ATR helper -/

/-- **one call of the ATR helper, exactly**, on any context that sees the stored true ranges of `cs` in the
column `T` (start `1`: TR is `None` on candle 0) and the earlier readings `stAtrStored` in its own column -/
theorem stI_atr_call (p : Nat) (hp : 1 ≤ p) (cs : List (Candle K)) (x : Ctx K) (A T : String) (m : Nat)
    (vs : List (Val K))
    (V : SView x A T m 1 vs (fun k => (trNum cs (1 + k)).roundBy defaultRound))
    (hQ : ∀ j, j < m → vs.getD j .none = stAtrStored p cs j) :
    ∃ w, Calc.atr x (p : Int) T = .ok w ∧ w.roundBy defaultRound = stAtrStored p cs m := by
  have hpK : (0 : K) < p := by exact_mod_cast (by omega : 0 < p)
  have hpI : ((p : Int) : K) ≠ 0 := by simpa using hpK.ne'
  have hprev := V.prev
  have hper := V.period p hp
  by_cases h1 : m < p
  · have hpn : x.prevReading x.name = .ok .none := by
      rw [hprev]
      by_cases h0 : m = 0
      · simp [h0]
      · simp only [h0, if_false]
        rw [hQ (m - 1) (by omega)]
        unfold stAtrStored
        rw [if_pos (by omega)]
    have hrp : x.readingPeriod (p : Int) T = false := by
      rw [hper]; simp; omega
    refine ⟨.none, atr_none _ _ _ hpn hrp, ?_⟩
    unfold stAtrStored
    rw [if_pos h1]; rfl
  · by_cases h2 : m = p
    · have h0 : m ≠ 0 := by omega
      have hpn : x.prevReading x.name = .ok .none := by
        rw [hprev]
        simp only [h0, if_false]
        rw [hQ (m - 1) (by omega)]
        unfold stAtrStored
        rw [if_pos (by omega)]
      have hrp : x.readingPeriod (p : Int) T = true := by
        rw [hper]; simp; omega
      have hwin := atr_seed_window x p T
        (fun j => (trNum cs (1 + j)).roundBy defaultRound) hpn hrp hp
        (by rw [V.i_eq]; omega) (by rw [V.i_eq]; omega)
        (by
          intro j hj
          have e : x.i + 1 - (p : Int) + (j : Int) = ((1 + j : Nat) : Int) := by rw [V.i_eq]; omega
          rw [e]
          have := V.inp_num (1 + j) (by omega) (by omega)
          rwa [show 1 + j - 1 = j by omega] at this)
      refine ⟨_, hwin, ?_⟩
      unfold stAtrStored
      rw [if_neg h1, stAtr_seed _ _ _ (by omega)]
      rfl
    · have h3 : p < m := by omega
      have h0 : m ≠ 0 := by omega
      have hpn : x.prevReading x.name = .ok (.num (.flt (stAtr p (trS cs) (m - 1)))) := by
        rw [hprev]
        simp only [h0, if_false]
        rw [hQ (m - 1) (by omega)]
        unfold stAtrStored
        rw [if_neg (by omega)]
      have htr : x.reading T = .ok (.num ((trNum cs m).roundBy defaultRound)) := by
        have := V.toIView.cur (by omega)
        rw [this]
        show Except.ok (Val.num ((trNum cs (1 + (m - 1))).roundBy defaultRound)) = _
        rw [show 1 + (m - 1) = m by omega]
      have hrec := atr_rec x p T _ _ hpn htr hpI
      refine ⟨_, hrec, ?_⟩
      unfold stAtrStored
      rw [if_neg h1, stAtr_step _ _ _ h3]
      simp [Val.roundBy, Scalar.roundBy, Num.roundBy, trS]

/-- **the loop of an ATR helper over any candle list `c₁`** (its name absent) **whose column `A_TR` holds the
stored true ranges of `cs`**: the stored column is `stAtrStored p cs` -/
theorem stI_atr_pass (p : Nat) (hp : 1 ≤ p) (Z : Ind K) (A : String) (hZ : Z.name = A)
    (hkind : Z.kind = .atr (p : Int)) (hround : Z.round = defaultRound)
    (hkA : IsKey A) (hkT : IsKey (A ++ "_TR")) (hne : A ≠ A ++ "_TR")
    (cs c₁ : List (Candle K)) (hlen : c₁.length = cs.length)
    (habs : ∀ c ∈ c₁, dlookup A c.inds = none ∧ dlookup A c.subs = none)
    (hcol : ∀ j, j < cs.length → readingByCandle (c₁.getD j default) (A ++ "_TR") = trStored cs j) :
    ∃ vs : List (Val K), vs.length = cs.length ∧
      leafCalc Z c₁ = .ok (decoWith (keyOut Z.isSub A) c₁ vs) ∧
      ∀ j, j < cs.length → vs.getD j .none = stAtrStored p cs j := by
  subst hZ
  obtain ⟨vs, hl, hrun, hall⟩ := leafCalc_induct Z c₁ habs (fun j v => v = stAtrStored p cs j) (by
    intro m hm vs hvs hQ
    rw [hkind, hround]
    show ∃ v, Calc.atr { cs := midW (keyOut Z.isSub Z.name) c₁ vs m, i := m, name := Z.name } (p : Int)
      (Z.name ++ "_TR") = .ok v ∧ _
    have V := midW_sview Z.isSub Z.name (Z.name ++ "_TR") hkA c₁ habs vs m 1 hm hvs
      (fun k => (trNum cs (1 + k)).roundBy defaultRound)
      (fun c v => indep_key (F := K) Z.name (Z.name ++ "_TR") hkT hne Z.isSub v c)
      (fun j hj hjt => by
        rw [hcol j (by omega)]
        have : j = 0 := by omega
        subst this; rfl)
      (fun j hj hjt => by
        rw [hcol j (by omega)]
        unfold trStored
        rw [if_neg (by omega), show 1 + (j - 1) = j by omega])
    exact stI_atr_call p hp cs _ Z.name (Z.name ++ "_TR") m vs V hQ)
  rw [hlen] at hl
  exact ⟨vs, hl, hrun, fun j hj => hall j (by omega)⟩

/-! ### pass 3: the HL2 helper -/

/-- **the loop of an HLA leaf over any candle list `c₂`** (its name absent) **whose candle fields are those of
`cs`**: the stored column is `hl2Stored cs` -/
theorem stI_hl_pass (Z : Ind K) (hkind : Z.kind = .hla) (hround : Z.round = defaultRound)
    (cs c₂ : List (Candle K)) (hlen : c₂.length = cs.length)
    (habs : ∀ c ∈ c₂, dlookup Z.name c.inds = none ∧ dlookup Z.name c.subs = none)
    (hhigh : ∀ j, j < cs.length → readingByCandle (c₂.getD j default) "high" = .num (cs.getD j default).h)
    (hlow : ∀ j, j < cs.length → readingByCandle (c₂.getD j default) "low" = .num (cs.getD j default).l) :
    ∃ vs : List (Val K), vs.length = cs.length ∧
      leafCalc Z c₂ = .ok (decoWith (keyOut Z.isSub Z.name) c₂ vs) ∧
      ∀ j, j < cs.length → vs.getD j .none = hl2Stored cs j := by
  obtain ⟨vs, hl, hrun, hall⟩ := leafCalc_induct Z c₂ habs (fun j v => v = hl2Stored cs j) (by
    intro m hm vs hvs _
    rw [hkind, hround]
    show ∃ v, Calc.hla { cs := midW (keyOut Z.isSub Z.name) c₂ vs m, i := m, name := Z.name } = .ok v ∧ _
    have hh : ({ cs := midW (keyOut Z.isSub Z.name) c₂ vs m, i := m, name := Z.name } : Ctx K).reading "high"
        = .ok (.num (cs.getD m default).h) := by
      rw [midW_reading_cur (keyOut Z.isSub Z.name) c₂ vs m hm hvs Z.name "high", hhigh m (by omega)]
    have hl : ({ cs := midW (keyOut Z.isSub Z.name) c₂ vs m, i := m, name := Z.name } : Ctx K).reading "low"
        = .ok (.num (cs.getD m default).l) := by
      rw [midW_reading_cur (keyOut Z.isSub Z.name) c₂ vs m hm hvs Z.name "low", hlow m (by omega)]
    exact ⟨_, hla_def _ _ _ hh hl, rfl⟩)
  rw [hlen] at hl
  exact ⟨vs, hl, hrun, fun j hj => hall j (by omega)⟩

/-! ### pass 4: the node's own loop (own dict + `name_data` entry) -/

/-- the direction of the own dict, read off a finished candle through the dotted name -/
theorem stI_out_dir (nm : String) (hd : splitDot (nm ++ ".direction") = [nm, "direction"]) (c : Candle K)
    (ρ : Val K × Option (Val K)) :
    readingByCandle (sdOutB false nm c ρ) (nm ++ ".direction") = ρ.1.nested "direction" := by
  unfold readingByCandle
  rw [hd]
  obtain ⟨w, d⟩ := ρ
  cases d <;> simp [sdOutB, outDS, setD, setKey, dlookup_dset_self]

/-- the node's step – `_calculate_reading`, the managed store, `round_values`, `_set_reading` – from its pure
reading part `stR` -/
theorem stI_step (nm : String) (n : Nat) (p : Int) (input : String) (mult : Num K)
    (done : List (Candle K)) (c : Candle K) (rest : List (Candle K)) (m : Nat) (hdl : done.length = m)
    (d : Option (Val K)) (v : Val K)
    (hR : stR mult { cs := done ++ c :: rest, i := (m : Int), name := nm } = .ok (d, .ok v)) :
    stepWith (stP (F := K) nm n p input mult) (stC nm mult) (done ++ c :: rest) (m : Int)
      = .ok (done ++ sdOutB false nm c (v.roundBy n, d) :: rest) := by
  have hname : (stP (F := K) nm n p input mult).name = nm := stP_name _ _ _ _ _
  have hsub : (stP (F := K) nm n p input mult).isSub = false := rfl
  have hround : (stP (F := K) nm n p input mult).round = n := rfl
  unfold stepWith stC
  rw [st_fact]
  unfold rwCalc
  rw [hR]
  simp only [bind, Except.bind, hname, hsub, hround]
  cases d with
  | none =>
    simp only [pure, Except.pure]
    rw [setReading_eq]
    have := updateAt_append_cons done c rest (setKey false nm (v.roundBy n))
    rw [hdl] at this
    rw [this]
    rfl
  | some dv =>
    simp only [pure, Except.pure]
    rw [setReading_eq]
    have h1 := updateAt_append_cons done c rest (setKey true (nm ++ "_data") dv)
    rw [hdl] at h1
    rw [h1]
    simp only
    rw [setReading_eq]
    have h2 := updateAt_append_cons done (setKey true (nm ++ "_data") dv c) rest (setKey false nm (v.roundBy n))
    rw [hdl] at h2
    rw [h2]
    rfl

/-- **the own loop of a Supertrend node over any candle list `c₃`** (the names `nm`, `nm_data` absent) **whose
columns `nm_atr`, `nm_HL`, `close` are `stAtrStored p cs`, `hl2Stored cs` and the closes of `cs`**: own reading
and data entry follow the textbook state machine `stSeries p mult cs` (`StOK`, as over raw candles) -/
theorem stI_own_pass (p : Nat) (hp : 1 ≤ p) (nm input : String) (mult : Num K) (n : Nat) (hn : StNames nm)
    (cs c₃ : List (Candle K)) (hlen : c₃.length = cs.length)
    (habs : ∀ c ∈ c₃, (dlookup nm c.inds = none ∧ dlookup nm c.subs = none) ∧
      (dlookup (nm ++ "_data") c.inds = none ∧ dlookup (nm ++ "_data") c.subs = none))
    (hA : ∀ j, j < cs.length → readingByCandle (c₃.getD j default) (nm ++ "_atr") = stAtrStored p cs j)
    (hH : ∀ j, j < cs.length → readingByCandle (c₃.getD j default) (nm ++ "_HL") = hl2Stored cs j)
    (hC : ∀ j, j < cs.length → readingByCandle (c₃.getD j default) "close" = .num (cs.getD j default).c) :
    ∃ rows : List (Val K × Option (Val K)), rows.length = cs.length ∧
      Gen.nodeCalc (specWith (stP (F := K) nm n (p : Int) input mult) (stC nm mult)) c₃
        = .ok (decoWith (sdOutB false nm) c₃ rows) ∧
      ∀ j, j < cs.length →
        StOK n (stSeries p mult.toF cs j) (rows.getD j (.none, none)).1 (rows.getD j (.none, none)).2 := by
  obtain ⟨rows, hl, hrun, hall⟩ := node_induct (specWith (stP (F := K) nm n (p : Int) input mult) (stC nm mult))
    (sdOutB false nm) (.none, none) c₃
    (fun c hc => by
      show dlookup (stP (F := K) nm n (p : Int) input mult).name c.inds = none ∧ _
      rw [stP_name]; exact (habs c hc).1)
    (fun j ρ => StOK n (stSeries p mult.toF cs j) ρ.1 ρ.2)
    (by
      intro m hm rows hrl hQ
      have hm' : m < cs.length := by omega
      have hdl := midW_done_length (sdOutB false nm) c₃ rows m (by omega) hrl
      show ∃ ρ : Val K × Option (Val K), stepWith (F := K) (stP (F := K) nm n (p : Int) input mult) (stC nm mult)
        (midW (sdOutB false nm) c₃ rows m) (m : Int) = _ ∧ _
      suffices hown : ∃ (d : Option (Val K)) (v : Val K),
          stR mult ({ cs := midW (sdOutB false nm) c₃ rows m, i := (m : Int), name := nm } : Ctx K) = .ok (d, .ok v) ∧
          StOK n (stSeries p mult.toF cs m) (v.roundBy n) d by
        obtain ⟨d, v, hR, hok⟩ := hown
        refine ⟨(v.roundBy n, d), ?_, hok⟩
        rw [midW_split (sdOutB false nm) c₃ rows m hm] at hR ⊢
        exact stI_step nm n (p : Int) input mult _ _ _ m hdl d v hR
      -- what the call reads at the active index
      have hcA : ({ cs := midW (sdOutB false nm) c₃ rows m, i := (m : Int), name := nm } : Ctx K).reading (nm ++ "_atr")
          = .ok (stAtrStored p cs m) := by
        rw [midW_reading_cur (sdOutB false nm) c₃ rows m hm hrl nm, hA m hm']
      have hcH : ({ cs := midW (sdOutB false nm) c₃ rows m, i := (m : Int), name := nm } : Ctx K).reading (nm ++ "_HL")
          = .ok (hl2Stored cs m) := by
        rw [midW_reading_cur (sdOutB false nm) c₃ rows m hm hrl nm, hH m hm']
      have hcC : ({ cs := midW (sdOutB false nm) c₃ rows m, i := (m : Int), name := nm } : Ctx K).reading "close"
          = .ok (.num (cs.getD m default).c) := by
        rw [midW_reading_cur (sdOutB false nm) c₃ rows m hm hrl nm, hC m hm']
      -- … and on the previous candle
      have hprev : ∀ key, ({ cs := midW (sdOutB false nm) c₃ rows m, i := (m : Int), name := nm } : Ctx K).prevReading key
          = .ok (if m = 0 then .none
                 else readingByCandle (sdOutB false nm (c₃.getD (m - 1) default) (rows.getD (m - 1) (.none, none))) key) :=
        fun key => midW_prevReading (sdOutB false nm) (.none, none) c₃ rows m hm hrl nm key
      by_cases h1 : m < p
      · -- no ATR yet
        refine ⟨none, stNoneDict, stR_none _ mult (by rw [hcA]; unfold stAtrStored; rw [if_pos h1]), ?_⟩
        rw [stSeries_none p _ cs m h1, stNoneDict_round]
        exact ⟨rfl, rfl⟩
      · have hA' : stAtrStored p cs m = .num (.flt (stAtr p (trS cs) m)) := by
          unfold stAtrStored; rw [if_neg h1]
        have h0 : m ≠ 0 := by omega
        have hcD := (habs _ (getD_mem' c₃ (m - 1) (by omega))).2
        have hprevRow := hQ (m - 1) (by omega)
        by_cases h2 : m = p
        · -- first ATR: plain bands, direction up
          have hpl : ({ cs := midW (sdOutB false nm) c₃ rows m, i := (m : Int), name := nm } : Ctx K).prevReading
              (nm ++ "_data.lower") = .ok .none := by
            rw [hprev, if_neg h0, sdOutB_field false nm "lower" _ hn.nD hn.lower _ hcD]
            rw [stSeries_none p _ cs (m - 1) (by omega)] at hprevRow
            rw [hprevRow.1]
          refine ⟨_, _, stR_first _ mult (.flt (stAtr p (trS cs) m)) (.flt (hl2S cs m)) (by rw [hcA, hA']) hcH hpl, ?_⟩
          rw [h2, stSeries_start]
          exact ⟨_, _, by simp [stStart], by simp [stStart], rfl, rfl⟩
        · -- running
          obtain ⟨s, hs⟩ := stSeries_isSome p mult.toF cs (m - 1) (by omega)
          have hsd := stSeries_dir p mult.toF cs (m - 1) s hs
          rw [hs] at hprevRow
          obtain ⟨U', L', hU', hL', hdat, hown⟩ := hprevRow
          have hpl : ({ cs := midW (sdOutB false nm) c₃ rows m, i := (m : Int), name := nm } : Ctx K).prevReading
              (nm ++ "_data.lower") = .ok (.num L') := by
            rw [hprev, if_neg h0, sdOutB_field false nm "lower" _ hn.nD hn.lower _ hcD, hdat]
            exact congrArg Except.ok (stBands_lower U' L')
          have hpu : ({ cs := midW (sdOutB false nm) c₃ rows m, i := (m : Int), name := nm } : Ctx K).prevReading
              (nm ++ "_data.upper") = .ok (.num U') := by
            rw [hprev, if_neg h0, sdOutB_field false nm "upper" _ hn.nD hn.upper _ hcD, hdat]
            exact congrArg Except.ok (stBands_upper U' L')
          have hpd : ({ cs := midW (sdOutB false nm) c₃ rows m, i := (m : Int), name := nm } : Ctx K).prevReading
              (nm ++ ".direction") = .ok (.int s.dir) := by
            rw [hprev, if_neg h0, stI_out_dir nm hn.dir, hown]
            exact congrArg Except.ok (stDict_round_dir n s.dir U' L')
          obtain ⟨U, L, hU, hL, hR⟩ := stR_step _ mult (.flt (stAtr p (trS cs) m)) (.flt (hl2S cs m))
            (cs.getD m default).c U' L' s.dir (by rw [hcA, hA']) hcH hcC hpl hpu hpd hsd
          refine ⟨_, _, hR, ?_⟩
          rw [stSeries_next p _ cs m s (by omega) hs]
          refine ⟨U, L, ?_, ?_, rfl, ?_⟩
          · rw [hU, hU', hL']; rfl
          · rw [hL, hU', hL']; rfl
          · rw [hU', hL']; rfl)
  rw [hlen] at hl
  exact ⟨rows, hl, hrun, fun j hj => hall j (by omega)⟩

/-! ### the four passes through the engine -/

/-- the five names of a Supertrend node are absent from a candle -/
def stI_Absent (nm : String) (c : Candle K) : Prop :=
  (dlookup nm c.inds = none ∧ dlookup nm c.subs = none) ∧
  (dlookup (nm ++ "_atr" ++ "_TR") c.inds = none ∧ dlookup (nm ++ "_atr" ++ "_TR") c.subs = none) ∧
  (dlookup (nm ++ "_atr") c.inds = none ∧ dlookup (nm ++ "_atr") c.subs = none) ∧
  (dlookup (nm ++ "_HL") c.inds = none ∧ dlookup (nm ++ "_HL") c.subs = none) ∧
  (dlookup (nm ++ "_data") c.inds = none ∧ dlookup (nm ++ "_data") c.subs = none)

/-- a column pass leaves the other keys absent -/
theorem stI_abs_step (isSub : Bool) (k nm' : String) (hne : nm' ≠ k) (L : List (Candle K)) (vs : List (Val K))
    (hl : vs.length = L.length) (h : ∀ c ∈ L, dlookup k c.inds = none ∧ dlookup k c.subs = none) :
    ∀ c ∈ decoWith (keyOut isSub nm') L vs, dlookup k c.inds = none ∧ dlookup k c.subs = none := by
  refine decoWith_mem _ L vs hl _ (fun c hc v => ?_)
  rw [(setKey_frame isSub nm' k hne v c).1, (setKey_frame isSub nm' k hne v c).2]
  exact h c hc

/-- a list is the row-wise finish of another one as soon as it is so candle by candle -/
theorem stI_decoWith_ext {R : Type} (out : Candle K → R → Candle K) (dflt : R) (cs : List (Candle K)) (rows : List R)
    (L : List (Candle K)) (hl : rows.length = cs.length) (hL : L.length = cs.length)
    (h : ∀ j, j < cs.length → L.getD j default = out (cs.getD j default) (rows.getD j dflt)) :
    L = decoWith out cs rows := by
  apply List.ext_getElem?
  intro j
  by_cases hj : j < cs.length
  · rw [decoWith_getElem? out cs rows dflt j hl hj, ← h j hj, List.getD_eq_getElem?_getD,
      List.getElem?_eq_getElem (by omega)]
    rfl
  · rw [List.getElem?_eq_none (by omega), List.getElem?_eq_none (by rw [decoWith_length _ _ _ hl]; omega)]

theorem stI_range_getD {R : Type} (f : Nat → R) (n j : Nat) (hj : j < n) (d : R) :
    ((List.range n).map f).getD j d = f j := by
  simp [List.getD_eq_getElem?_getD, hj]

/-- **Supertrend through the engine, exact rows, EVERY candle list** (the node's five names absent; whatever
else the candles hold) **and every `input` string** (it is not read).  `calculate()` returns `decoSt nm cs rows`
– candle `j` of `cs` finished by `stOut` with the row `rows[j]`: nothing but the five own keys changes – and the
rows satisfy `StRowOK`, the predicate of the raw theorem `st_series`, with the textbook series of the candle
FIELDS of `cs`. -/
theorem stI_inputs_rows (p : Nat) (hp : 1 ≤ p) (nm input : String) (mult : Num K) (n : Nat) (hn : StNames nm)
    (cs : List (Candle K)) (habs : ∀ c ∈ cs, stI_Absent nm c) :
    ∃ rows : List (StRow K), rows.length = cs.length ∧
      engineCalc (mkTop (.supertrend (p : Int) input mult : Kind K) nm n) cs = .ok (decoSt nm cs rows) ∧
      ∀ j, j < cs.length → StRowOK p n mult.toF cs j (rows.getD j StRow.dflt) := by
  have aN : ∀ c ∈ cs, dlookup nm c.inds = none ∧ dlookup nm c.subs = none := fun c hc => (habs c hc).1
  have aT : ∀ c ∈ cs, dlookup (nm ++ "_atr" ++ "_TR") c.inds = none ∧ dlookup (nm ++ "_atr" ++ "_TR") c.subs = none :=
    fun c hc => (habs c hc).2.1
  have aA : ∀ c ∈ cs, dlookup (nm ++ "_atr") c.inds = none ∧ dlookup (nm ++ "_atr") c.subs = none :=
    fun c hc => (habs c hc).2.2.1
  have aH : ∀ c ∈ cs, dlookup (nm ++ "_HL") c.inds = none ∧ dlookup (nm ++ "_HL") c.subs = none :=
    fun c hc => (habs c hc).2.2.2.1
  have aD : ∀ c ∈ cs, dlookup (nm ++ "_data") c.inds = none ∧ dlookup (nm ++ "_data") c.subs = none :=
    fun c hc => (habs c hc).2.2.2.2
  -- pass 1: the TR helper
  obtain ⟨vs1, hl1, hrun1, hall1⟩ := stI_tr_pass (stTr (F := K) nm) rfl rfl cs aT
  have hrun1' : leafCalc (stTr (F := K) nm) cs = .ok (decoWith (keyOut true (nm ++ "_atr" ++ "_TR")) cs vs1) := hrun1
  generalize hc1 : decoWith (keyOut true (nm ++ "_atr" ++ "_TR")) cs vs1 = c₁ at hrun1'
  have hlen1 : c₁.length = cs.length := by rw [← hc1]; exact decoWith_length _ _ _ hl1
  have hget1 : ∀ j, j < cs.length →
      c₁.getD j default = setKey true (nm ++ "_atr" ++ "_TR") (vs1.getD j .none) (cs.getD j default) := by
    intro j hj; rw [← hc1]; exact decoWith_getD _ _ cs vs1 hl1 j hj
  have abs1 : ∀ k, nm ++ "_atr" ++ "_TR" ≠ k → (∀ c ∈ cs, dlookup k c.inds = none ∧ dlookup k c.subs = none) →
      ∀ c ∈ c₁, dlookup k c.inds = none ∧ dlookup k c.subs = none := by
    intro k hk h; rw [← hc1]; exact stI_abs_step true k _ hk cs vs1 hl1 h
  have attr1 : ∀ a, NoDot a → a ∈ Candle.attrNames → ∀ j, j < cs.length →
      readingByCandle (c₁.getD j default) a = readingByCandle (cs.getD j default) a := by
    intro a hd ha j hj
    rw [hget1 j hj, indep_attr (F := K) _ a hd ha]
  -- pass 2: the ATR helper, over the output of pass 1
  obtain ⟨vs2, hl2, hrun2, hall2⟩ := stI_atr_pass p hp (stA (F := K) nm (p : Int)) (nm ++ "_atr") rfl rfl rfl
    hn.kA hn.kT hn.AT cs c₁ hlen1 (abs1 _ hn.AT.symm aA)
    (fun j hj => by
      rw [hget1 j hj, readingByCandle_setKey_noKey true _ hn.kT _ _ (hasKey_absent _ _ (aT _ (getD_mem' cs j hj)))]
      exact hall1 j hj)
  have hrun2' : leafCalc (stA (F := K) nm (p : Int)) c₁ = .ok (decoWith (keyOut true (nm ++ "_atr")) c₁ vs2) := hrun2
  generalize hc2 : decoWith (keyOut true (nm ++ "_atr")) c₁ vs2 = c₂ at hrun2'
  have hl2' : vs2.length = c₁.length := by rw [hlen1]; exact hl2
  have hlen2 : c₂.length = cs.length := by rw [← hc2, decoWith_length _ _ _ hl2', hlen1]
  have hget2 : ∀ j, j < cs.length →
      c₂.getD j default = setKey true (nm ++ "_atr") (vs2.getD j .none) (c₁.getD j default) := by
    intro j hj; rw [← hc2]; exact decoWith_getD _ _ c₁ vs2 hl2' j (by omega)
  have abs2 : ∀ k, nm ++ "_atr" ++ "_TR" ≠ k → nm ++ "_atr" ≠ k →
      (∀ c ∈ cs, dlookup k c.inds = none ∧ dlookup k c.subs = none) →
      ∀ c ∈ c₂, dlookup k c.inds = none ∧ dlookup k c.subs = none := by
    intro k hk1 hk2 h; rw [← hc2]; exact stI_abs_step true k _ hk2 c₁ vs2 hl2' (abs1 k hk1 h)
  have attr2 : ∀ a, NoDot a → a ∈ Candle.attrNames → ∀ j, j < cs.length →
      readingByCandle (c₂.getD j default) a = readingByCandle (cs.getD j default) a := by
    intro a hd ha j hj
    rw [hget2 j hj, indep_attr (F := K) _ a hd ha, attr1 a hd ha j hj]
  -- pass 3: the HL2 helper, over the output of pass 2
  obtain ⟨vs3, hl3, hrun3, hall3⟩ := stI_hl_pass (stH (F := K) nm) rfl rfl cs c₂ hlen2
    (abs2 _ hn.TH hn.AH aH)
    (fun j hj => by rw [attr2 "high" noDot_high (by decide) j hj]; exact readingByCandle_attr "high" noDot_high _ _ rfl)
    (fun j hj => by rw [attr2 "low" noDot_low (by decide) j hj]; exact readingByCandle_attr "low" noDot_low _ _ rfl)
  have hrun3' : leafCalc (stH (F := K) nm) c₂ = .ok (decoWith (keyOut true (nm ++ "_HL")) c₂ vs3) := hrun3
  generalize hc3 : decoWith (keyOut true (nm ++ "_HL")) c₂ vs3 = c₃ at hrun3'
  have hl3' : vs3.length = c₂.length := by rw [hlen2]; exact hl3
  have hlen3 : c₃.length = cs.length := by rw [← hc3, decoWith_length _ _ _ hl3', hlen2]
  have hget3 : ∀ j, j < cs.length →
      c₃.getD j default = setKey true (nm ++ "_HL") (vs3.getD j .none) (c₂.getD j default) := by
    intro j hj; rw [← hc3]; exact decoWith_getD _ _ c₂ vs3 hl3' j (by omega)
  have abs3 : ∀ k, nm ++ "_atr" ++ "_TR" ≠ k → nm ++ "_atr" ≠ k → nm ++ "_HL" ≠ k →
      (∀ c ∈ cs, dlookup k c.inds = none ∧ dlookup k c.subs = none) →
      ∀ c ∈ c₃, dlookup k c.inds = none ∧ dlookup k c.subs = none := by
    intro k hk1 hk2 hk3 h; rw [← hc3]; exact stI_abs_step true k _ hk3 c₂ vs3 hl3' (abs2 k hk1 hk2 h)
  -- pass 4: the own loop, over the output of pass 3
  obtain ⟨rows4, hl4, hrun4, hall4⟩ := stI_own_pass p hp nm input mult n hn cs c₃ hlen3
    (fun c hc => ⟨abs3 nm hn.nT.symm hn.nA.symm hn.nH.symm aN c hc, abs3 _ hn.TD hn.AD hn.HD aD c hc⟩)
    (fun j hj => by
      rw [hget3 j hj, indep_key (F := K) (nm ++ "_HL") (nm ++ "_atr") hn.kA hn.AH.symm, hget2 j hj,
        readingByCandle_setKey_noKey true _ hn.kA _ _
          (hasKey_absent _ _ (abs1 _ hn.AT.symm aA _ (getD_mem' c₁ j (by omega))))]
      exact hall2 j hj)
    (fun j hj => by
      rw [hget3 j hj, readingByCandle_setKey_noKey true _ hn.kH _ _
          (hasKey_absent _ _ (abs2 _ hn.TH hn.AH aH _ (getD_mem' c₂ j (by omega))))]
      exact hall3 j hj)
    (fun j hj => by
      rw [hget3 j hj, indep_attr (F := K) _ "close" noDot_close (by decide), attr2 "close" noDot_close (by decide) j hj]
      exact readingByCandle_attr "close" noDot_close _ _ rfl)
  have hl4' : rows4.length = c₃.length := by rw [hlen3]; exact hl4
  -- the rows, and the result as `decoSt`
  refine ⟨(List.range cs.length).map (fun j => (⟨vs1.getD j .none, vs2.getD j .none, vs3.getD j .none,
      (rows4.getD j (.none, none)).1, (rows4.getD j (.none, none)).2⟩ : StRow K)), by simp, ?_, ?_⟩
  · have e := engineCalc_st (F := K) nm n (p : Int) input mult cs
    show engineCalc (stP (F := K) nm n (p : Int) input mult) cs = _
    rw [e, hrun1']
    simp only [bind, Except.bind]
    rw [hrun2']
    simp only
    rw [hrun3']
    simp only
    rw [hrun4]
    congr 1
    unfold decoSt
    refine stI_decoWith_ext (stOut nm) StRow.dflt cs _ _ (by simp) (by rw [decoWith_length _ _ _ hl4', hlen3]) ?_
    intro j hj
    rw [decoWith_getD _ (.none, none) c₃ rows4 hl4' j (by omega), hget3 j hj, hget2 j hj, hget1 j hj,
      stI_range_getD _ _ _ hj]
    rfl
  · intro j hj
    rw [stI_range_getD _ _ _ hj]
    exact ⟨hall1 j hj, hall2 j hj, hall3 j hj, hall4 j hj⟩

/-! ### the same statement read off the candles -/

/-- the three helper stores leave the other keys alone -/
theorem stI_frame3 (nm k : String) (hT : nm ++ "_atr" ++ "_TR" ≠ k) (hA : nm ++ "_atr" ≠ k) (hH : nm ++ "_HL" ≠ k)
    (t a h : Val K) (c : Candle K) :
    dlookup k (setKey true (nm ++ "_HL") h (setKey true (nm ++ "_atr") a
        (setKey true (nm ++ "_atr" ++ "_TR") t c))).inds = dlookup k c.inds ∧
    dlookup k (setKey true (nm ++ "_HL") h (setKey true (nm ++ "_atr") a
        (setKey true (nm ++ "_atr" ++ "_TR") t c))).subs = dlookup k c.subs := by
  have h1 := setKey_frame (F := K) true (nm ++ "_atr" ++ "_TR") k hT t c
  have h2 := setKey_frame (F := K) true (nm ++ "_atr") k hA a (setKey true (nm ++ "_atr" ++ "_TR") t c)
  have h3 := setKey_frame (F := K) true (nm ++ "_HL") k hH h
    (setKey true (nm ++ "_atr") a (setKey true (nm ++ "_atr" ++ "_TR") t c))
  exact ⟨by rw [h3.1, h2.1, h1.1], by rw [h3.2, h2.2, h1.2]⟩

/-- `stRow_candle` of `SeriesSupertrend.lean` for a candle that may hold foreign readings (the five own names
absent instead of `Plain`) -/
theorem stI_row_candle (p n : Nat) (mult : K) (nm : String) (hn : StNames nm) (hk : IsKey nm)
    (cs : List (Candle K)) (j : Nat) (habs : stI_Absent nm (cs.getD j default)) (r : StRow K)
    (h : StRowOK p n mult cs j r) : StCandleOK p n mult nm cs j (stOut nm (cs.getD j default) r) := by
  obtain ⟨h1, h2, h3, h4⟩ := h
  obtain ⟨aN, aT, aA, aH, aD⟩ := habs
  have fN := stI_frame3 nm nm hn.nT.symm hn.nA.symm hn.nH.symm r.tr r.atr r.hl (cs.getD j default)
  have fD := stI_frame3 nm (nm ++ "_data") hn.TD hn.AD hn.HD r.tr r.atr r.hl (cs.getD j default)
  refine ⟨stOut_bare nm hn _ r, ?_, ?_, ?_, ?_, ?_⟩
  · unfold stOut
    rw [readingByCandle_outDS false nm (nm ++ "_data") _ (indep_key _ _ hn.kT hn.nT) (indep_key _ _ hn.kT hn.TD.symm),
      indep_key (F := K) _ _ hn.kT hn.TH.symm, indep_key (F := K) _ _ hn.kT hn.AT,
      readingByCandle_setKey_noKey true _ hn.kT _ _ (hasKey_absent _ _ aT), h1]
  · unfold stOut
    have f := setKey_frame (F := K) true (nm ++ "_atr" ++ "_TR") (nm ++ "_atr") hn.AT.symm r.tr (cs.getD j default)
    rw [readingByCandle_outDS false nm (nm ++ "_data") _ (indep_key _ _ hn.kA hn.nA) (indep_key _ _ hn.kA hn.AD.symm),
      indep_key (F := K) _ _ hn.kA hn.AH.symm,
      readingByCandle_setKey_noKey true _ hn.kA _ _ (hasKey_absent _ _ ⟨by rw [f.1]; exact aA.1, by rw [f.2]; exact aA.2⟩), h2]
  · unfold stOut
    have f1 := setKey_frame (F := K) true (nm ++ "_atr" ++ "_TR") (nm ++ "_HL") hn.TH r.tr (cs.getD j default)
    have f2 := setKey_frame (F := K) true (nm ++ "_atr") (nm ++ "_HL") hn.AH r.atr
      (setKey true (nm ++ "_atr" ++ "_TR") r.tr (cs.getD j default))
    rw [readingByCandle_outDS false nm (nm ++ "_data") _ (indep_key _ _ hn.kH hn.nH) (indep_key _ _ hn.kH hn.HD.symm),
      readingByCandle_setKey_noKey true _ hn.kH _ _
        (hasKey_absent _ _ ⟨by rw [f2.1, f1.1]; exact aH.1, by rw [f2.2, f1.2]; exact aH.2⟩), h3]
  · show StOwnOK n _ (readingByCandle (sdOutB false nm _ (r.own, r.data)) nm)
    rw [sdOutB_own false nm hk _ (by rw [fN.1]; exact aN.1)]
    exact h4.own
  · show StDataOK _ (readingByCandle (sdOutB false nm _ (r.own, r.data)) (nm ++ "_data.upper"))
      (readingByCandle (sdOutB false nm _ (r.own, r.data)) (nm ++ "_data.lower"))
    rw [sdOutB_field false nm "upper" _ hn.nD hn.upper _ ⟨by rw [fD.1]; exact aD.1, by rw [fD.2]; exact aD.2⟩,
      sdOutB_field false nm "lower" _ hn.nD hn.lower _ ⟨by rw [fD.1]; exact aD.1, by rw [fD.2]; exact aD.2⟩]
    exact h4.data

/-- **Supertrend through the engine, candle by candle, every candle list, every `input`** (`StCandleOK`, the
predicate of `st_series_engine`) -/
theorem stI_inputs_candles (p : Nat) (hp : 1 ≤ p) (nm input : String) (mult : Num K) (n : Nat) (hn : StNames nm)
    (hk : IsKey nm) (cs : List (Candle K)) (habs : ∀ c ∈ cs, stI_Absent nm c) :
    ∃ out : List (Candle K), engineCalc (mkTop (.supertrend (p : Int) input mult : Kind K) nm n) cs = .ok out ∧
      out.length = cs.length ∧
      ∀ j, j < cs.length → StCandleOK p n mult.toF nm cs j (out.getD j default) := by
  obtain ⟨rows, hl, hrun, hall⟩ := stI_inputs_rows p hp nm input mult n hn cs habs
  refine ⟨_, hrun, decoWith_length _ _ _ hl, ?_⟩
  intro j hj
  have hcj : (decoSt nm cs rows).getD j default = stOut nm (cs.getD j default) (rows.getD j StRow.dflt) :=
    decoWith_getD (stOut nm) StRow.dflt cs rows hl j hj
  rw [hcj]
  exact stI_row_candle p n mult.toF nm hn hk cs j (habs _ (getD_mem' cs j hj)) _ (hall j hj)

/-! ### only the candle FIELDS of `cs` matter: the series is that of the stripped (raw, `Plain`) candles -/

theorem stI_getD_bare (cs : List (Candle K)) (j : Nat) :
    (cs.map Candle.bare).getD j default = (cs.getD j default).bare := by
  rw [List.getD_eq_getElem?_getD, List.getD_eq_getElem?_getD, List.getElem?_map]
  cases cs[j]? <;> rfl

theorem stI_bare_plain (cs : List (Candle K)) : ∀ c ∈ cs.map Candle.bare, Plain c := by
  intro c hc
  obtain ⟨d, _, rfl⟩ := List.mem_map.1 hc
  exact ⟨rfl, rfl⟩

theorem stI_trNum_bare (cs : List (Candle K)) (j : Nat) : trNum (cs.map Candle.bare) j = trNum cs j := by
  unfold trNum
  rw [stI_getD_bare, stI_getD_bare]
  rfl

theorem stI_trStored_bare (cs : List (Candle K)) (j : Nat) : trStored (cs.map Candle.bare) j = trStored cs j := by
  unfold trStored; rw [stI_trNum_bare]

theorem stI_trS_bare (cs : List (Candle K)) : trS (cs.map Candle.bare) = trS cs := by
  funext j; unfold trS; rw [stI_trNum_bare]

theorem stI_atrStored_bare (p : Nat) (cs : List (Candle K)) (j : Nat) :
    stAtrStored p (cs.map Candle.bare) j = stAtrStored p cs j := by
  unfold stAtrStored; rw [stI_trS_bare]

theorem stI_hl2S_bare (cs : List (Candle K)) : hl2S (cs.map Candle.bare) = hl2S cs := by
  funext j
  unfold hl2S hl2Exact fieldAt
  rw [stI_getD_bare]
  rfl

/-- **the textbook series over a candle list with foreign readings is the series of `st_series` over the
stripped candles** (which are `Plain`: `stI_bare_plain`) -/
theorem stI_series_bare (p : Nat) (mult : K) (cs : List (Candle K)) :
    stSeries p mult (cs.map Candle.bare) = stSeries p mult cs := by
  have h1 : stAtrOpt p (cs.map Candle.bare) = stAtrOpt p cs := by
    funext j; unfold stAtrOpt; rw [stI_trS_bare]
  have h2 : fieldAt (·.c) (cs.map Candle.bare) = fieldAt (·.c) cs := by
    funext j; unfold fieldAt; rw [stI_getD_bare]; rfl
  unfold stSeries
  rw [h1, h2, stI_hl2S_bare]

/-- … and so is the whole candle predicate -/
theorem stI_candleOK_bare (p n : Nat) (mult : K) (nm : String) (cs : List (Candle K)) (j : Nat) (c : Candle K) :
    StCandleOK p n mult nm (cs.map Candle.bare) j c ↔ StCandleOK p n mult nm cs j c := by
  have hb : ((cs.map Candle.bare).getD j default).bare = (cs.getD j default).bare := by
    rw [stI_getD_bare]; rfl
  unfold StCandleOK hl2Stored
  rw [hb, stI_trStored_bare, stI_atrStored_bare, stI_hl2S_bare, stI_series_bare]

/-! ### the statements -/

/-- Supertrend over EVERY candle list that may hold foreign readings, in the shape of `C05BbandsStatement`.
Supertrend reads NO `input` (see the header): the candle list, the parameters and the name conditions are the
only hypotheses, and the conclusion is the RAW one (`StCandleOK`: helper columns, own dict, data entry against
`stSeries p mult cs`, a function of the candle fields of `cs`), unshifted. -/
def C05SupertrendStatement : Prop :=
  ∀ (K : Type) [Field K] [LinearOrder K] [IsStrictOrderedRing K] [LawfulPyF K]
    (p : Nat) (nm input : String) (mult : Num K) (n : Nat) (cs : List (Candle K)),
    1 ≤ p → IsKey nm → StNames nm →
    (∀ c ∈ cs, stI_Absent nm c) →
    ∃ out : List (Candle K), engineCalc (mkTop (.supertrend (p : Int) input mult : Kind K) nm n) cs = .ok out ∧
      out.length = cs.length ∧
      ∀ j, j < cs.length → StCandleOK p n mult.toF nm cs j (out.getD j default)

/-- **C05 for Supertrend, every candle list, every `input`**: the engine never raises, changes nothing but
the node's five keys, and every stored reading is the textbook one of the candle fields – `None` / `stNoneDict`
before the ATR warm-up index `p`, then the state machine `stSeries`, exactly as over raw candles. -/
theorem c05_supertrend_inputs : C05SupertrendStatement := by
  intro K _ _ _ _ p nm input mult n cs hp hk hn habs
  exact stI_inputs_candles p hp nm input mult n hn hk cs habs

/-- the same in the TWO-START shape of the sibling statements: the `input` is another indicator's reading,
`None` on the first `t0` candles and the numbers `x` afterwards.  The ATR part starts at candle 0 (candle
fields), the `input` part is EMPTY (nothing is read through `input`), so the readings start at
`max(0 + p, …) = p` whatever `t0` is: the conclusion does not mention `t0` or `x`. -/
def C05SupertrendShiftStatement : Prop :=
  ∀ (K : Type) [Field K] [LinearOrder K] [IsStrictOrderedRing K] [LawfulPyF K]
    (p : Nat) (nm input : String) (mult : Num K) (n t0 : Nat) (cs : List (Candle K)) (x : Nat → K),
    1 ≤ p → IsKey nm → StNames nm →
    (∀ c ∈ cs, stI_Absent nm c) →
    (∀ j, j < cs.length →
      (match readingByCandle (cs.getD j default) input with
        | .s (.num r) => some r.toF
        | _ => none) = if j < t0 then none else some (x (j - t0))) →
    (∀ j, j < cs.length → j < t0 → readingByCandle (cs.getD j default) input = .none) →
    ∃ out : List (Candle K), engineCalc (mkTop (.supertrend (p : Int) input mult : Kind K) nm n) cs = .ok out ∧
      out.length = cs.length ∧
      ∀ j, j < cs.length → StCandleOK p n mult.toF nm cs j (out.getD j default)

theorem c05_supertrend_shift : C05SupertrendShiftStatement := by
  intro K _ _ _ _ p nm input mult n t0 cs x hp hk hn habs _ _
  exact stI_inputs_candles p hp nm input mult n hn hk cs habs

/-- over RAW candles the hypothesis of `c05_supertrend_inputs` holds (`Plain` candles hold no readings), so the
statement contains `st_series_engine` -/
theorem stI_absent_of_plain (nm : String) (c : Candle K) (hc : Plain c) : stI_Absent nm c := by
  obtain ⟨hi, hs⟩ := hc
  simp [stI_Absent, hi, hs, dlookup]

/-! #### non-vacuity: `Supertrend(2, 3)` named `ST_2` with `input_value = "EMA_2"` over `demoForeign` -/

theorem stI_demo_abs : ∀ c ∈ demoForeign, stI_Absent "ST_2" c := by
  intro c hc
  exact ⟨demoForeign_abs "ST_2" (by decide) (by decide) (by decide) c hc,
    demoForeign_abs "ST_2_atr_TR" (by decide) (by decide) (by decide) c hc,
    demoForeign_abs "ST_2_atr" (by decide) (by decide) (by decide) c hc,
    demoForeign_abs "ST_2_HL" (by decide) (by decide) (by decide) c hc,
    demoForeign_abs "ST_2_data" (by decide) (by decide) (by decide) c hc⟩

example : ∃ out : List (Candle ℚ),
    engineCalc (mkTop (.supertrend ((2 : Nat) : Int) "EMA_2" (.int 3) : Kind ℚ) "ST_2" 4) demoForeign = .ok out ∧
    out.length = demoForeign.length ∧
    ∀ j, j < demoForeign.length → StCandleOK 2 4 (Num.int 3 : Num ℚ).toF "ST_2" demoForeign j (out.getD j default) :=
  c05_supertrend_inputs ℚ 2 "ST_2" "EMA_2" (.int 3) 4 demoForeign (by norm_num) (by decide) stNames_demo stI_demo_abs

example : ∃ out : List (Candle ℚ),
    engineCalc (mkTop (.supertrend ((2 : Nat) : Int) "EMA_2" (.int 3) : Kind ℚ) "ST_2" 4) demoForeign = .ok out ∧
    out.length = demoForeign.length ∧
    ∀ j, j < demoForeign.length → StCandleOK 2 4 (Num.int 3 : Num ℚ).toF "ST_2" demoForeign j (out.getD j default) :=
  c05_supertrend_shift ℚ 2 "ST_2" "EMA_2" (.int 3) 4 2 demoForeign demoX (by norm_num) (by decide) stNames_demo
    stI_demo_abs demoForeign_in demoForeign_none

/-- the candle fields of `demoForeign` are those of the raw demo candles of `SeriesSupertrend.lean` -/
theorem stI_demo_bare : demoForeign.map Candle.bare = atrDemoRaw := by
  simp [demoForeign, atrDemoRaw, Demo.mk, Candle.bare]

/-- … so the textbook series is `stDemo_series`, although the candles hold `EMA_2` / `MACD` / `X_data` readings
and `input_value = "EMA_2"` starts at candle 2: no state on candles 0 and 1 (`p = 2`, not `t0 + p`), the data
series holds the bands `19.875` / `10.125` exactly on the last candle, the own dict is `stNoneDict` on candle 1 -/
example : ∃ out : List (Candle ℚ),
    engineCalc (mkTop (.supertrend ((2 : Nat) : Int) "EMA_2" (.int 3) : Kind ℚ) "ST_2" 4) demoForeign = .ok out ∧
    readingByCandle (out.getD 1 default) "ST_2" = stNoneDict ∧
    (∃ U L : Num ℚ, U.toF = 159 / 8 ∧ L.toF = 81 / 8 ∧
      readingByCandle (out.getD 4 default) ("ST_2" ++ "_data.upper") = .num U ∧
      readingByCandle (out.getD 4 default) ("ST_2" ++ "_data.lower") = .num L) ∧
    readingByCandle (out.getD 4 default) "EMA_2" = .int 15 := by
  obtain ⟨rows, hl, hrun, hall⟩ := stI_inputs_rows 2 (by norm_num) "ST_2" "EMA_2" (.int 3 : Num ℚ) 4 stNames_demo
    demoForeign stI_demo_abs
  have hc : ∀ j, j < demoForeign.length → StCandleOK 2 4 (Num.int 3 : Num ℚ).toF "ST_2" demoForeign j
      ((decoSt "ST_2" demoForeign rows).getD j default) := by
    intro j hj
    rw [show (decoSt "ST_2" demoForeign rows).getD j default = stOut "ST_2" (demoForeign.getD j default) (rows.getD j StRow.dflt)
      from decoWith_getD (stOut "ST_2") StRow.dflt demoForeign rows hl j hj]
    exact stI_row_candle 2 4 _ "ST_2" stNames_demo (by decide) demoForeign j
      (stI_demo_abs _ (getD_mem' demoForeign j hj)) _ (hall j hj)
  obtain ⟨_, s1, _, _, s4⟩ := stDemo_series
  have e3 : (Num.int 3 : Num ℚ).toF = 3 := by simp
  rw [← stI_demo_bare, stI_series_bare] at s1 s4
  refine ⟨_, hrun, ?_, ?_, ?_⟩
  · have := (hc 1 (by decide)).2.2.2.2.1
    rw [e3, s1] at this
    exact this
  · have := (hc 4 (by decide)).2.2.2.2.2
    rw [e3, s4] at this
    exact this
  · -- the foreign reading is untouched
    rw [show (decoSt "ST_2" demoForeign rows).getD 4 default = stOut "ST_2" (demoForeign.getD 4 default) (rows.getD 4 StRow.dflt)
      from decoWith_getD (stOut "ST_2") StRow.dflt demoForeign rows hl 4 (by decide)]
    unfold stOut
    rw [readingByCandle_outDS false "ST_2" ("ST_2" ++ "_data") "EMA_2" (indep_key _ _ (by decide) (by decide))
        (indep_key _ _ (by decide) (by decide)),
      indep_key (F := ℚ) _ "EMA_2" (by decide) (by decide), indep_key (F := ℚ) _ "EMA_2" (by decide) (by decide),
      indep_key (F := ℚ) _ "EMA_2" (by decide) (by decide)]
    rfl

end Numeric

/-- the toy carrier: Supertrend with `input_value = "EMA_2"` over candles that hold a late-starting foreign
reading returns; the trend is missing on the first `p = 2` candles – NOT on the first `t0 + …` (`decide`) -/
example : (engineCalc (mkTop (.supertrend 2 "EMA_2" (.int 3)) "ST_2" 4)
    ([{ o := .int 10, h := .int 12, l := .int 9, c := .int 11, v := .int 100 },
      { o := .int 11, h := .int 13, l := .int 10, c := .int 12, v := .int 200, inds := [("EMA_2", .none)] },
      { o := .int 12, h := .int 15, l := .int 11, c := .int 14, v := .int 300, inds := [("EMA_2", .none)] },
      { o := .int 14, h := .int 16, l := .int 13, c := .int 15, v := .int 0, inds := [("EMA_2", .int 14)] },
      { o := .int 15, h := .int 15, l := .int 15, c := .int 15, v := .int 0, inds := [("EMA_2", .int 15)] }]
      : List (Candle Int))).toOption.map
      (fun l => l.map fun c => (readingByCandle c "ST_2.trend").isNone) = some [true, true, false, false, false] := by
  decide +kernel

/-- … and it is the run of the node with `input_value = "close"` (`stI_input_irrelevant`, every carrier) -/
example (cs : List (Candle Int)) : engineCalc (mkTop (.supertrend 2 "EMA_2" (.int 3)) "ST_2" 4) cs
    = engineCalc (mkTop (.supertrend 2 "close" (.int 3)) "ST_2" 4) cs :=
  Numeric.stI_input_irrelevant 2 "ST_2" "EMA_2" "close" (.int 3) 4 cs

end Hex

#print axioms Hex.Numeric.stI_inputs_rows
#print axioms Hex.Numeric.stI_inputs_candles
#print axioms Hex.Numeric.stI_input_irrelevant
#print axioms Hex.Numeric.stI_series_bare
#print axioms Hex.Numeric.stI_candleOK_bare
#print axioms Hex.Numeric.c05_supertrend_inputs
#print axioms Hex.Numeric.c05_supertrend_shift

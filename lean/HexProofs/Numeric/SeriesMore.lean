import HexProofs.Numeric.SeriesAvg
import HexProofs.Numeric.Simple
/-!
# Whole-series theorems: WMA, VWMA, HLA, TR
-/
set_option linter.unusedSectionVars false
set_option linter.unusedSimpArgs false
namespace Hex
namespace Numeric
variable {K : Type} [Field K] [LinearOrder K] [IsStrictOrderedRing K] [LawfulPyF K]

theorem wma_none (x : Ctx K) (period : Int) (input : String)
    (hprev : x.prevReading x.name = .ok .none) (hrp : x.readingPeriod period input = false) :
    Calc.wma x period input = .ok .none := by
  simp [Calc.wma, Ctx.prevExists_of hprev, hrp]

theorem vwma_none (x : Ctx K) (period : Int)
    (hprev : x.prevReading x.name = .ok .none) (hrp : x.readingPeriod period "close" = false) :
    Calc.vwma x period = .ok .none := by
  simp [Calc.vwma, Ctx.prevExists_of hprev, hrp]

/-- a reading that is `None` during warm-up and afterwards a float within `ε` of `exact j` -/
def DirectOK (p n : Nat) (exact : Nat → K) (j : Nat) (v : Val K) : Prop :=
  (j + 1 < p → v = .none) ∧ (p ≤ j + 1 → ∃ y, v = .flt y ∧ |y - exact j| ≤ eps K n)

/-- linearly weighted mean of the `p` inputs ending at `j`, newest weighted `p` -/
def wmaAt (x : Nat → K) (p j : Nat) : K :=
  rsum p (fun k => ((p : K) - k) * x (j - k)) / rsum p (fun k => (p : K) - k)

/-- **C04 for the whole WMA series** over a candle field. -/
theorem wma_series (p : Nat) (hp : 2 ≤ p) (nm input : String) (fld : Candle K → Num K) (n : Nat)
    (hk : IsKey nm) (hd : NoDot input) (hattr : ∀ c : Candle K, c.attr input = some (.num (fld c)))
    (raw : List (Candle K)) (hraw : ∀ c ∈ raw, Plain c) :
    ∃ vs : List (Val K), vs.length = raw.length ∧
      rowMajor (mkTop (.wma p input) nm n) raw = .ok (deco nm raw vs) ∧
      ∀ j, j < raw.length → DirectOK p n (wmaAt (fieldAt fld raw) p) j (vs.getD j .none) := by
  refine series_induct (mkTop (.wma p input) nm n) nm rfl rfl raw _ ?_
  intro m hm vs hvs hQ
  change ∃ v, Calc.wma (stepCtx nm raw vs m) p input = .ok v ∧ DirectOK p n _ m (v.roundBy n)
  have hprev := stepCtx_prev nm raw vs m hm hvs hk hraw
  have hper := stepCtx_period nm input fld raw vs m hm hvs hd hattr p (by omega)
  by_cases h1 : m + 1 < p
  · have hpn : (stepCtx nm raw vs m).prevReading (stepCtx nm raw vs m).name = .ok .none := by
      show (stepCtx nm raw vs m).prevReading nm = _
      rw [hprev]
      by_cases h0 : m = 0
      · simp [h0]
      · simp only [h0, if_false]
        rw [(hQ (m - 1) (by omega)).1 (by omega)]
    have hrp : (stepCtx nm raw vs m).readingPeriod p input = false := by
      rw [hper]; simp; omega
    exact ⟨.none, wma_none _ p input hpn hrp, fun _ => rfl, fun h => by omega⟩
  · have hrp : (stepCtx nm raw vs m).readingPeriod p input = true := by
      rw [hper]; simp; omega
    have hw := wma_def (stepCtx nm raw vs m) p input _ (fun k => fld (raw.getD (m - k) default))
      (show (stepCtx nm raw vs m).prevReading (stepCtx nm raw vs m).name = _ from hprev) (Or.inr hrp) (by omega)
      (by
        intro k hk'
        have e : (stepCtx nm raw vs m).i - (k : Int) = ((m - k : Nat) : Int) := by
          show (m : Int) - (k : Int) = _; omega
        rw [e]
        exact stepCtx_field nm input fld raw vs m hm hvs hd hattr _ (by omega))
    refine ⟨_, hw, fun h => by omega, fun _ => ⟨_, rfl, ?_⟩⟩
    exact LawfulPyF.round_err n _

/-- volume-weighted mean of the `p` closes ending at `j` (plain mean when the window volume is 0) -/
def vwmaAt (c v : Nat → K) (p j : Nat) : K :=
  if rsum p (fun k => v (j + 1 - p + k)) = 0 then rsum p (fun k => c (j + 1 - p + k)) / p
  else rsum p (fun k => c (j + 1 - p + k) * v (j + 1 - p + k)) / rsum p (fun k => v (j + 1 - p + k))

/-- **C04 for the whole VWMA series**: never raises (zero-volume windows included). -/
theorem vwma_series (p : Nat) (hp : 2 ≤ p) (nm : String) (n : Nat) (hk : IsKey nm)
    (raw : List (Candle K)) (hraw : ∀ c ∈ raw, Plain c) :
    ∃ vs : List (Val K), vs.length = raw.length ∧
      rowMajor (mkTop (.vwma p) nm n) raw = .ok (deco nm raw vs) ∧
      ∀ j, j < raw.length →
        DirectOK p n (vwmaAt (fieldAt (·.c) raw) (fieldAt (·.v) raw) p) j (vs.getD j .none) := by
  refine series_induct (mkTop (.vwma p) nm n) nm rfl rfl raw _ ?_
  intro m hm vs hvs hQ
  change ∃ v, Calc.vwma (stepCtx nm raw vs m) p = .ok v ∧ DirectOK p n _ m (v.roundBy n)
  have hprev := stepCtx_prev nm raw vs m hm hvs hk hraw
  have hper := stepCtx_period nm "close" (·.c) raw vs m hm hvs noDot_close (fun _ => rfl) p (by omega)
  by_cases h1 : m + 1 < p
  · have hpn : (stepCtx nm raw vs m).prevReading (stepCtx nm raw vs m).name = .ok .none := by
      show (stepCtx nm raw vs m).prevReading nm = _
      rw [hprev]
      by_cases h0 : m = 0
      · simp [h0]
      · simp only [h0, if_false]
        rw [(hQ (m - 1) (by omega)).1 (by omega)]
    have hrp : (stepCtx nm raw vs m).readingPeriod p "close" = false := by
      rw [hper]; simp; omega
    exact ⟨.none, vwma_none _ p hpn hrp, fun _ => rfl, fun h => by omega⟩
  · have hrp : (stepCtx nm raw vs m).readingPeriod p "close" = true := by
      rw [hper]; simp; omega
    have hidx : ∀ j : Nat, (stepCtx nm raw vs m).i + 1 - (p : Int) + (j : Int) = ((m + 1 - p + j : Nat) : Int) := by
      intro j; show (m : Int) + 1 - (p : Int) + (j : Int) = _; omega
    have hw := vwma_def (stepCtx nm raw vs m) p _
      (fun j => (raw.getD (m + 1 - p + j) default).c) (fun j => (raw.getD (m + 1 - p + j) default).v)
      (show (stepCtx nm raw vs m).prevReading (stepCtx nm raw vs m).name = _ from hprev) (Or.inr hrp) (by omega)
      (by show (p : Int) ≤ (m : Int) + 1; omega) (by show (1 : Int) ≤ (m : Int); omega)
      (by intro j hj; rw [hidx]
          exact stepCtx_field nm "close" (·.c) raw vs m hm hvs noDot_close (fun _ => rfl) _ (by omega))
      (by intro j hj; rw [hidx]
          exact stepCtx_field nm "volume" (·.v) raw vs m hm hvs noDot_volume (fun _ => rfl) _ (by omega))
    refine ⟨_, hw, fun h => by omega, fun _ => ⟨_, rfl, ?_⟩⟩
    exact LawfulPyF.round_err n _

/-- **C05 for the whole HLA series**: every candle gets `(high + low)/2`, rounded. -/
theorem hla_series (nm : String) (n : Nat) (hk : IsKey nm)
    (raw : List (Candle K)) (hraw : ∀ c ∈ raw, Plain c) :
    ∃ vs : List (Val K), vs.length = raw.length ∧
      rowMajor (mkTop .hla nm n) raw = .ok (deco nm raw vs) ∧
      ∀ j, j < raw.length → vs.getD j .none =
        .flt (PyF.round n ((fieldAt (·.h) raw j + fieldAt (·.l) raw j) / 2)) := by
  refine series_induct (mkTop .hla nm n) nm rfl rfl raw
    (fun j v => v = .flt (PyF.round n ((fieldAt (·.h) raw j + fieldAt (·.l) raw j) / 2))) ?_
  intro m hm vs hvs _
  change ∃ v, Calc.hla (stepCtx nm raw vs m) = .ok v ∧ _
  exact ⟨_, hla_def _ _ _
    (stepCtx_field_cur nm "high" (·.h) raw vs m hm hvs noDot_high (fun _ => rfl))
    (stepCtx_field_cur nm "low" (·.l) raw vs m hm hvs noDot_low (fun _ => rfl)), rfl⟩

/-- true range of candle `j` (`j ≥ 1`) -/
def trAt (h l c : Nat → K) (j : Nat) : K := max (max (h j - l j) |h j - c (j - 1)|) |l j - c (j - 1)|

/-- **C05 for the whole TR series**: `None` on the first candle, afterwards
`max(high − low, |high − prev close|, |low − prev close|)` (ints stay ints; floats are rounded). -/
theorem tr_series (nm : String) (n : Nat) (hk : IsKey nm)
    (raw : List (Candle K)) (hraw : ∀ c ∈ raw, Plain c) :
    ∃ vs : List (Val K), vs.length = raw.length ∧
      rowMajor (mkTop .tr nm n) raw = .ok (deco nm raw vs) ∧
      ∀ j, j < raw.length →
        (j = 0 → vs.getD j .none = .none) ∧
        (1 ≤ j → ∃ t : Num K, vs.getD j .none = .num (t.roundBy n) ∧
          t.toF = trAt (fieldAt (·.h) raw) (fieldAt (·.l) raw) (fieldAt (·.c) raw) j) := by
  refine series_induct (mkTop .tr nm n) nm rfl rfl raw
    (fun j v => (j = 0 → v = .none) ∧
        (1 ≤ j → ∃ t : Num K, v = .num (t.roundBy n) ∧
          t.toF = trAt (fieldAt (·.h) raw) (fieldAt (·.l) raw) (fieldAt (·.c) raw) j)) ?_
  intro m hm vs hvs _
  change ∃ v, Calc.tr (stepCtx nm raw vs m) = .ok v ∧ _
  have hh := stepCtx_field_cur nm "high" (·.h) raw vs m hm hvs noDot_high (fun _ => rfl)
  have hl := stepCtx_field_cur nm "low" (·.l) raw vs m hm hvs noDot_low (fun _ => rfl)
  have hper := stepCtx_period nm "close" (·.c) raw vs m hm hvs noDot_close (fun _ => rfl) 2 (by omega)
  by_cases h0 : m = 0
  · have hrp : (stepCtx nm raw vs m).readingPeriod 2 "close" = false := by
      have : (stepCtx nm raw vs m).readingPeriod ((2 : Nat) : Int) "close" = false := by rw [hper]; simp; omega
      exact this
    exact ⟨.none, tr_none _ _ _ hh hl hrp, fun _ => rfl, fun h => by omega⟩
  · have hrp : (stepCtx nm raw vs m).readingPeriod 2 "close" = true := by
      have : (stepCtx nm raw vs m).readingPeriod ((2 : Nat) : Int) "close" = true := by rw [hper]; simp; omega
      exact this
    have hpc : (stepCtx nm raw vs m).prevReading "close" = .ok (.num (raw.getD (m - 1) default).c) := by
      unfold Ctx.prevReading
      have hlen := stepCtx_length nm raw vs m hm hvs
      have a : ((stepCtx nm raw vs m).cs.length == 0) = false := by rw [hlen]; simp
      have b : ((stepCtx nm raw vs m).i == 0) = false := by simp [stepCtx]; omega
      simp only [a, b, Bool.or_self, Bool.false_eq_true, if_false]
      have e : (stepCtx nm raw vs m).i - 1 = ((m - 1 : Nat) : Int) := by simp [stepCtx]; omega
      rw [e]
      exact stepCtx_field nm "close" (·.c) raw vs m hm hvs noDot_close (fun _ => rfl) _ (by omega)
    obtain ⟨t, ht, htv⟩ := tr_def _ _ _ _ hh hl hrp hpc
    exact ⟨_, ht, fun h => absurd h h0, fun _ => ⟨t, rfl, by rw [htv]; rfl⟩⟩

/-! ### ROC and OBV -/

theorem roc_flt (x : Ctx K) (period : Int) (input : String) (pv : Val K) (back cur : Num K)
    (hprev : x.prevReading x.name = .ok pv)
    (hg : pv.isNone = false ∨ x.readingPeriod (period + 1) input = true)
    (hb : x.reading input (some (x.i - period)) = .ok (.num back))
    (hc : x.reading input = .ok (.num cur)) (hb0 : back.toF ≠ 0) :
    Calc.roc x period input = .ok (.flt ((cur.toF - back.toF) / back.toF * 100)) := by
  rcases hg with h | h <;>
    simp [Calc.roc, Ctx.prevExists_of hprev, h, Ctx.num_of hb, Ctx.num_of hc, Num.truediv_ok _ _ hb0,
      Num.mul, LawfulPyF.mul_eq]

/-- rate of change over `p` candles, in percent -/
def rocAt (x : Nat → K) (p j : Nat) : K := (x j - x (j - p)) / x (j - p) * 100

/-- **C06 for the whole ROC series** over a candle field whose values are non-zero (prices):
`None` on the first `period` candles, afterwards within `ε` of `100·(x[t] − x[t−p])/x[t−p]`. -/
theorem roc_series (p : Nat) (hp : 1 ≤ p) (nm input : String) (fld : Candle K → Num K) (n : Nat)
    (hk : IsKey nm) (hd : NoDot input) (hattr : ∀ c : Candle K, c.attr input = some (.num (fld c)))
    (raw : List (Candle K)) (hraw : ∀ c ∈ raw, Plain c) (hnz : ∀ j, j < raw.length → fieldAt fld raw j ≠ 0) :
    ∃ vs : List (Val K), vs.length = raw.length ∧
      rowMajor (mkTop (.roc p input) nm n) raw = .ok (deco nm raw vs) ∧
      ∀ j, j < raw.length → DirectOK (p + 1) n (rocAt (fieldAt fld raw) p) j (vs.getD j .none) := by
  refine series_induct (mkTop (.roc p input) nm n) nm rfl rfl raw _ ?_
  intro m hm vs hvs hQ
  change ∃ v, Calc.roc (stepCtx nm raw vs m) p input = .ok v ∧ DirectOK (p + 1) n _ m (v.roundBy n)
  have hprev := stepCtx_prev nm raw vs m hm hvs hk hraw
  have hper := stepCtx_period nm input fld raw vs m hm hvs hd hattr (p + 1) (by omega)
  have hcur := stepCtx_field_cur nm input fld raw vs m hm hvs hd hattr
  have hper' : (stepCtx nm raw vs m).readingPeriod ((p : Int) + 1) input = decide (p + 1 ≤ m + 1) := by
    have : ((p + 1 : Nat) : Int) = (p : Int) + 1 := by push_cast; ring
    rw [← this]; exact hper
  by_cases h1 : m + 1 < p + 1
  · have hpn : (stepCtx nm raw vs m).prevReading (stepCtx nm raw vs m).name = .ok .none := by
      show (stepCtx nm raw vs m).prevReading nm = _
      rw [hprev]
      by_cases h0 : m = 0
      · simp [h0]
      · simp only [h0, if_false]
        rw [(hQ (m - 1) (by omega)).1 (by omega)]
    have hrp : (stepCtx nm raw vs m).readingPeriod ((p : Int) + 1) input = false := by
      rw [hper']; simp; omega
    exact ⟨.none, roc_none _ p input hpn hrp, fun _ => rfl, fun h => by omega⟩
  · have hrp : (stepCtx nm raw vs m).readingPeriod ((p : Int) + 1) input = true := by
      rw [hper']; simp; omega
    have hback : (stepCtx nm raw vs m).reading input (some ((stepCtx nm raw vs m).i - (p : Int)))
        = .ok (.num (fld (raw.getD (m - p) default))) := by
      have e : (stepCtx nm raw vs m).i - (p : Int) = ((m - p : Nat) : Int) := by
        show (m : Int) - (p : Int) = _; omega
      rw [e]
      exact stepCtx_field nm input fld raw vs m hm hvs hd hattr _ (by omega)
    have hw := roc_flt (stepCtx nm raw vs m) p input _ _ _
      (show (stepCtx nm raw vs m).prevReading (stepCtx nm raw vs m).name = _ from hprev) (Or.inr hrp) hback hcur
      (hnz (m - p) (by omega))
    refine ⟨_, hw, fun h => by omega, fun _ => ⟨_, rfl, ?_⟩⟩
    exact LawfulPyF.round_err n _

/-- the exact on-balance volume: the first volume, then ± the candle's volume by the sign of the
close change (unchanged on an unchanged CLOSE) -/
def obvExact (c v : Nat → K) : Nat → K
  | 0 => v 0
  | j + 1 => if c (j + 1) = c j then obvExact c v j
             else if c j < c (j + 1) then obvExact c v j + v (j + 1) else obvExact c v j - v (j + 1)

/-- **C06 for the whole OBV series**: never raises; reading `j` is a number within `(j+1)·ε` of the
exact on-balance volume (exactly equal when volumes are ints: ints are not rounded). -/
theorem obv_series (nm : String) (n : Nat) (hk : IsKey nm)
    (raw : List (Candle K)) (hraw : ∀ c ∈ raw, Plain c) :
    ∃ vs : List (Val K), vs.length = raw.length ∧
      rowMajor (mkTop .obv nm n) raw = .ok (deco nm raw vs) ∧
      ∀ j, j < raw.length → ∃ t : Num K, vs.getD j .none = .num t ∧
        |t.toF - obvExact (fieldAt (·.c) raw) (fieldAt (·.v) raw) j| ≤ ((j + 1 : Nat) : K) * eps K n := by
  refine series_induct (mkTop .obv nm n) nm rfl rfl raw
    (fun j v => ∃ t : Num K, v = .num t ∧
        |t.toF - obvExact (fieldAt (·.c) raw) (fieldAt (·.v) raw) j| ≤ ((j + 1 : Nat) : K) * eps K n) ?_
  intro m hm vs hvs hQ
  change ∃ v, Calc.obv (stepCtx nm raw vs m) = .ok v ∧ _
  have hprev := stepCtx_prev nm raw vs m hm hvs hk hraw
  have hc := stepCtx_field_cur nm "close" (·.c) raw vs m hm hvs noDot_close (fun _ => rfl)
  have hv := stepCtx_field_cur nm "volume" (·.v) raw vs m hm hvs noDot_volume (fun _ => rfl)
  by_cases h0 : m = 0
  · subst h0
    have hpn : (stepCtx nm raw vs 0).prevReading (stepCtx nm raw vs 0).name = .ok .none := by
      show (stepCtx nm raw vs 0).prevReading nm = _
      rw [hprev]; simp
    refine ⟨_, (obv_seed _ hpn).trans hv, (raw.getD 0 default).v.roundBy n, rfl, ?_⟩
    have := Num.roundBy_err (K := K) n (raw.getD 0 default).v
    simpa [obvExact, fieldAt] using this
  · obtain ⟨tp, htp, hbound⟩ := hQ (m - 1) (by omega)
    have hpn : (stepCtx nm raw vs m).prevReading (stepCtx nm raw vs m).name = .ok (.num tp) := by
      show (stepCtx nm raw vs m).prevReading nm = _
      rw [hprev]; simp only [h0, if_false, htp]
    have hpc : (stepCtx nm raw vs m).prevReading "close" = .ok (.num (raw.getD (m - 1) default).c) := by
      unfold Ctx.prevReading
      have hlen := stepCtx_length nm raw vs m hm hvs
      have a : ((stepCtx nm raw vs m).cs.length == 0) = false := by rw [hlen]; simp
      have b : ((stepCtx nm raw vs m).i == 0) = false := by simp [stepCtx]; omega
      simp only [a, b, Bool.or_self, Bool.false_eq_true, if_false]
      have e : (stepCtx nm raw vs m).i - 1 = ((m - 1 : Nat) : Int) := by simp [stepCtx]; omega
      rw [e]
      exact stepCtx_field nm "close" (·.c) raw vs m hm hvs noDot_close (fun _ => rfl) _ (by omega)
    obtain ⟨t, ht, htv⟩ := obv_def _ _ _ tp _ hpn hc hpc hv
    refine ⟨_, ht, t.roundBy n, rfl, ?_⟩
    obtain ⟨i, rfl⟩ : ∃ i, m = i + 1 := ⟨m - 1, by omega⟩
    have hr := Num.roundBy_err (K := K) n t
    have hstep : |t.toF - obvExact (fieldAt (·.c) raw) (fieldAt (·.v) raw) (i + 1)|
        = |tp.toF - obvExact (fieldAt (·.c) raw) (fieldAt (·.v) raw) i| := by
      simp only [Nat.add_sub_cancel] at htv
      have hE : obvExact (fieldAt (·.c) raw) (fieldAt (·.v) raw) (i + 1)
          = if fieldAt (·.c) raw (i + 1) = fieldAt (·.c) raw i then obvExact (fieldAt (·.c) raw) (fieldAt (·.v) raw) i
            else if fieldAt (·.c) raw i < fieldAt (·.c) raw (i + 1)
              then obvExact (fieldAt (·.c) raw) (fieldAt (·.v) raw) i + fieldAt (·.v) raw (i + 1)
              else obvExact (fieldAt (·.c) raw) (fieldAt (·.v) raw) i - fieldAt (·.v) raw (i + 1) := rfl
      rw [htv, hE]
      simp only [fieldAt]
      by_cases hA : (raw.getD (i + 1) default).c.toF = (raw.getD i default).c.toF
      · simp only [hA, if_true]
      · by_cases hB : (raw.getD i default).c.toF < (raw.getD (i + 1) default).c.toF
        · simp only [hA, hB, if_false, if_true]; congr 1; ring
        · simp only [hA, hB, if_false]; congr 1; ring
    simp only [Nat.add_sub_cancel] at hbound
    calc |(t.roundBy n).toF - obvExact (fieldAt (·.c) raw) (fieldAt (·.v) raw) (i + 1)|
        = |((t.roundBy n).toF - t.toF) + (t.toF - obvExact (fieldAt (·.c) raw) (fieldAt (·.v) raw) (i + 1))| := by ring_nf
      _ ≤ _ := abs_add_le _ _
      _ ≤ eps K n + ((i + 1 : Nat) : K) * eps K n := by rw [hstep]; exact add_le_add hr hbound
      _ = ((i + 1 + 1 : Nat) : K) * eps K n := by push_cast; ring

end Numeric
end Hex

import HexProofs.Numeric.SeriesInputsBB
import HexProofs.Numeric.SeriesMACD
/-!
# MACD over candle lists with foreign readings and a late-starting input (C06, "position independent")

`HexProofs/Numeric/SeriesMACD.lean` proves the whole MACD series over RAW candles and a candle-field input.
Here the candle list is ARBITRARY (it may hold any readings under other names; only the four names of the
MACD tree are absent) and the input is any reading name that does not see the two EMA helpers' entries,
`None` on the first `t0` candles and numeric afterwards.  `engineCalc_macd` (Framework/Gen/MACD.lean)
splits `calculate()` – for EVERY candle list – into three column passes:

1. `leafCalc (macdEf …)` – the helper `name_EMA_fast` (`macdI_ema_pass`),
2. `leafCalc (macdEs …)` – the helper `name_EMA_slow`, over the output of pass 1,
3. `Gen.nodeCalc (specWith (macdP …) (macdC …))` – the node's own loop, which on every candle reads the
   two helper readings of THAT candle, inserts the temporary `{"MACD": m}`, runs one step of the managed
   signal-line EMA over the dotted self-input `name.MACD`, and stores the signal-line entry and the own
   dict (`macdI_node_rows`).

Every pass is evaluated EXACTLY (the rows of `SeriesMACD.lean` – `emaCol`, `sigD`, `macdOwn` – at the index
counted from `t0`): `macdI_inputs_rows`.  The per-call evaluation re-uses `ema_view_step` of
`SeriesMACD.lean`, which is already stated for an input column that starts at an arbitrary index `o`; the
only new numeric fact is that the stored EMA column commutes with the shift (`macdI_emaCol_shift`).
The final statement `c06_macd_inputs` gives `MacdCandleOK` – the SAME predicate as the raw-candle theorem
`macd_engine_readings` – at index `j − t0` for the input values counted from `t0`.
-/
set_option linter.unusedSectionVars false
set_option linter.unusedSimpArgs false
namespace Hex
namespace Numeric
variable {K : Type} [Field K] [LinearOrder K] [IsStrictOrderedRing K] [LawfulPyF K]

/-! ### the stored EMA column commutes with a shift of the input column -/

theorem macdI_recSt_shift (n : Nat) (a seed : K) (y : Nat → K) (t0 q : Nat) (hq : 1 ≤ q) (j : Nat) :
    recSt n a seed (fun i => y (i - t0)) (t0 + q) (t0 + j) = recSt n a seed y q j := by
  induction j with
  | zero => rw [recSt_seed _ _ _ _ _ _ (by omega), recSt_seed _ _ _ _ _ _ (by omega)]
  | succ i ih =>
    by_cases h : i + 1 < q
    · rw [recSt_seed _ _ _ _ _ _ (by omega), recSt_seed _ _ _ _ _ _ h]
    · rw [recSt_step _ _ _ _ _ (t0 + (i + 1)) (by omega) (by omega), recSt_step _ _ _ _ _ (i + 1) (by omega) hq]
      have e : t0 + (i + 1) - 1 = t0 + i := by omega
      have e' : t0 + (i + 1) - t0 = i + 1 := by omega
      rw [e, Nat.add_sub_cancel, ih]
      simp only [e']

/-- the stored EMA column of an input column that is the column `y` delayed by `t0` candles is the stored
EMA column of `y`, delayed by `t0` candles -/
theorem macdI_emaCol_shift (p o t0 : Nat) (hp : 1 ≤ p) (y : Nat → K) (j : Nat) :
    emaCol p (t0 + o) (fun i => y (i - t0)) j = if j < t0 then .none else emaCol p o y (j - t0) := by
  have hseed : rsum p (fun k => (fun i => y (i - t0)) (t0 + o + k)) / (p : K) = rsum p (fun k => y (o + k)) / (p : K) := by
    congr 2
    funext k
    show y (t0 + o + k - t0) = y (o + k)
    congr 1
    omega
  by_cases h : j < t0
  · rw [if_pos h]; exact emaCol_none _ _ _ _ (by omega)
  · rw [if_neg h]
    obtain ⟨j', rfl⟩ : ∃ j', j = t0 + j' := ⟨j - t0, by omega⟩
    rw [Nat.add_sub_cancel_left]
    unfold emaCol recStV
    rw [hseed, show t0 + o + p = t0 + (o + p) by omega, macdI_recSt_shift _ _ _ _ _ _ (by omega)]
    by_cases h2 : j' + 1 < o + p
    · rw [if_pos (by omega), if_pos h2]
    · rw [if_neg (by omega), if_neg h2]

/-- a helper column of the shifted run: `None` on the first `t0` candles, then the raw-candle column
`emaCol p 0 xs` at the index counted from `t0` -/
def macdI_col (p t0 : Nat) (xs : Nat → K) (j : Nat) : Val K :=
  if j < t0 then .none else emaCol p 0 xs (j - t0)

theorem macdI_col_eq (p t0 : Nat) (hp : 1 ≤ p) (xs : Nat → K) (j : Nat) :
    emaCol p t0 (fun i => xs (i - t0)) j = macdI_col p t0 xs j := by
  have := macdI_emaCol_shift p 0 t0 hp xs j
  simpa [macdI_col] using this

/-! ### list plumbing -/

theorem macdI_lastReading (key : String) (H : List (Candle K)) :
    Ctx.lastReading key H
      = if H.length = 0 then .none else readingByCandle (H.getD (H.length - 1) default) key := by
  rcases List.eq_nil_or_concat H with rfl | ⟨L, b, rfl⟩
  · rfl
  · unfold Ctx.lastReading
    simp

theorem macdI_take_getD {R : Type} (out : Candle K → R → Candle K) (dflt : R) (cs : List (Candle K)) (rows : List R)
    (m : Nat) (hm : m ≤ cs.length) (hr : rows.length = m) (j : Nat) (hj : j < m) :
    (decoWith out (cs.take m) rows).getD j default = out (cs.getD j default) (rows.getD j dflt) := by
  rw [decoWith_getD out dflt (cs.take m) rows (by rw [take_length_le cs m hm, hr]) j
    (by rw [take_length_le cs m hm]; exact hj)]
  congr 1
  rw [List.getD_eq_getElem?_getD, List.getD_eq_getElem?_getD, List.getElem?_take_of_lt hj]

theorem macdI_ema_loc (H : List (Candle K)) (c : Candle K) (rest : List (Candle K)) (m : Nat) (hH : H.length = m)
    (own : String) (p : Int) (hp : 1 ≤ p) (inp : String) :
    Calc.ema ({ cs := H ++ c :: rest, i := (m : Int), name := own } : Ctx K) p inp (fl 2)
      = Calc.ema (snocCtx H c own) p inp (fl 2) := by
  subst hH
  exact ema_loc H c rest own p inp (fl 2) hp

theorem macdI_rbc_absent (k : String) (hk : IsKey k) (c : Candle K)
    (h : dlookup k c.inds = none ∧ dlookup k c.subs = none) : readingByCandle c k = .none := by
  rw [readingByCandle_key k hk]
  unfold lookupKey
  rw [h.1, h.2]

/-! ### passes 1 and 2: an EMA helper over a late-starting input, exact column -/

/-- **the loop of an EMA leaf (smoothing 2, 4 decimals), exact column**: for every candle list (the leaf's
own name absent), an input name that does not see the leaf's entries, `None` on the first `t0` candles and
the numbers `r` afterwards, the loop returns and stores `macdI_col p t0 xs` – the raw-candle column
`emaCol p 0 xs` delayed by `t0` -/
theorem macdI_ema_pass (Z : Ind K) (input : String) (p : Nat) (hp : 2 ≤ p)
    (hZk : Z.kind = .ema (p : Int) input (fl 2)) (hZr : Z.round = defaultRound) (hk : IsKey Z.name)
    (hne : Z.name ≠ input) (hself : ∀ fld, splitDot input ≠ [Z.name, fld])
    (cs : List (Candle K)) (habs : ∀ c ∈ cs, dlookup Z.name c.inds = none ∧ dlookup Z.name c.subs = none)
    (t0 : Nat) (r : Nat → Num K)
    (hnone : ∀ j, j < cs.length → j < t0 → readingByCandle (cs.getD j default) input = .none)
    (hnum : ∀ j, j < cs.length → t0 ≤ j → readingByCandle (cs.getD j default) input = .num (r (j - t0))) :
    ∃ vs : List (Val K), vs.length = cs.length ∧
      leafCalc Z cs = .ok (decoWith (keyOut Z.isSub Z.name) cs vs) ∧
      ∀ j, j < cs.length → vs.getD j .none = macdI_col p t0 (fun k => (r k).toF) j := by
  refine leafCalc_induct Z cs habs (fun j v => v = macdI_col p t0 (fun k => (r k).toF) j) ?_
  intro m hm vs hvs hQ
  rw [hZk, hZr]
  show ∃ v, Calc.ema _ (p : Int) input (fl 2) = .ok v ∧ _
  have hdl := midW_done_length (keyOut Z.isSub Z.name) cs vs m (by omega) hvs
  have hHj : ∀ j, j < m → (decoWith (keyOut Z.isSub Z.name) (cs.take m) vs).getD j default
      = setKey Z.isSub Z.name (vs.getD j .none) (cs.getD j default) :=
    fun j hj => macdI_take_getD (keyOut Z.isSub Z.name) .none cs vs m (by omega) hvs j hj
  rw [midW_split _ cs vs m hm, macdI_ema_loc _ _ _ m hdl Z.name (p : Int) (by omega) input]
  generalize decoWith (keyOut Z.isSub Z.name) (cs.take m) vs = H at hdl hHj ⊢
  obtain ⟨v, hv, ev⟩ := ema_view_step H (cs.getD m default) Z.name input p t0 (by omega) (by omega)
    (fun j => if j < t0 then .none else .num (r (j - t0))) (fun j => r (j - t0))
    (by
      intro j hj
      rw [hdl] at hj
      rw [hHj j hj, readingByCandle_setKey_otherB Z.isSub Z.name input hne hself]
      by_cases h : j < t0
      · rw [if_pos h]; exact hnone j (by omega) h
      · rw [if_neg h]; exact hnum j (by omega) (by omega))
    (by
      rw [hdl]
      by_cases h : m < t0
      · rw [if_pos h]; exact hnone m hm h
      · rw [if_neg h]; exact hnum m hm (by omega))
    (by
      intro j _
      by_cases h : j < t0
      · simp [h]
      · simp [h])
    (by
      intro _ k _
      rw [if_neg (by omega)])
    (by
      intro h
      rw [if_neg (by omega)])
    (by
      rw [macdI_lastReading, hdl]
      by_cases h0 : m = 0
      · simp [h0]
      · rw [if_neg h0, if_neg h0, hHj (m - 1) (by omega),
          readingByCandle_setKey_noKey Z.isSub Z.name hk _ _
            (hasKey_absent Z.name _ (habs _ (getD_mem' cs (m - 1) (by omega)))),
          hQ (m - 1) (by omega)]
        exact (macdI_col_eq p t0 (by omega) (fun k => (r k).toF) (m - 1)).symm)
  refine ⟨v, hv, ?_⟩
  show v.roundBy defaultRound = _
  rw [ev, hdl]
  exact macdI_col_eq p t0 (by omega) (fun k => (r k).toF) m

/-! ### the candles of a MACD row, on candles that hold foreign readings -/

/-- the four names of a MACD tree are absent from a candle -/
structure macdI_Absent (nm : String) (c : Candle K) : Prop where
  a0 : dlookup nm c.inds = none ∧ dlookup nm c.subs = none
  aF : dlookup (nm ++ "_EMA_fast") c.inds = none ∧ dlookup (nm ++ "_EMA_fast") c.subs = none
  aS : dlookup (nm ++ "_EMA_slow") c.inds = none ∧ dlookup (nm ++ "_EMA_slow") c.subs = none
  aG : dlookup (nm ++ "_signal_line") c.inds = none ∧ dlookup (nm ++ "_signal_line") c.subs = none

/-- the store of the node's own step: the signal-line entry (if written) in `.sub_indicators`, the own dict
in `.indicators` -/
abbrev macdI_out (nm : String) : Candle K → Option (Val K) × Val K → Candle K :=
  fun c ρ => outDS false nm (nm ++ "_signal_line") ρ.2 ρ.1 c

theorem macdI_out_eq (nm : String) (vf vs : Val K) (ρ : Option (Val K) × Val K) (c : Candle K) :
    macdI_out nm (macdC2 nm vf vs c) ρ = macdC3 nm vf vs ρ.1 ρ.2 c := rfl

section cand
variable (nm : String) (hn : MacdNames nm) (vf vs own : Val K) (d : Option (Val K)) (c : Candle K)

/-- the own step's store, read under the dotted self-input of the signal line -/
theorem macdI_out_macd (hdot : splitDot (nm ++ ".MACD") = [nm, "MACD"]) (ρ : Option (Val K) × Val K) :
    readingByCandle (macdI_out nm c ρ) (nm ++ ".MACD") = ρ.2.nested "MACD" :=
  rbc_tmp nm hdot ρ.2 _

include hn in
/-- … under the signal line's own name -/
theorem macdI_out_sig (hc : dlookup (nm ++ "_signal_line") c.inds = none ∧ dlookup (nm ++ "_signal_line") c.subs = none)
    (ρ : Option (Val K) × Val K) :
    readingByCandle (macdI_out nm c ρ) (nm ++ "_signal_line") = ρ.1.getD .none := by
  show readingByCandle (setKey false nm ρ.2 (setD (nm ++ "_signal_line") ρ.1 c)) _ = _
  rw [indep_key (F := K) nm (nm ++ "_signal_line") hn.kG hn.nG]
  obtain ⟨d, w⟩ := ρ
  cases d with
  | none => exact macdI_rbc_absent _ hn.kG c hc
  | some dv => exact readingByCandle_setKey_noKey true _ hn.kG dv c (hasKey_absent _ _ hc)

/-- any reading name that sees neither the node's key nor the signal line's -/
theorem macdI_out_other (key : String) (h1 : nm ≠ key) (h2 : nm ++ "_signal_line" ≠ key)
    (hs1 : ∀ fld, splitDot key ≠ [nm, fld]) (hs2 : ∀ fld, splitDot key ≠ [nm ++ "_signal_line", fld])
    (ρ : Option (Val K) × Val K) :
    readingByCandle (macdI_out nm c ρ) key = readingByCandle c key := by
  show readingByCandle (setKey false nm ρ.2 (setD (nm ++ "_signal_line") ρ.1 c)) _ = _
  rw [readingByCandle_setKey_otherB false nm key h1 hs1]
  obtain ⟨d, w⟩ := ρ
  cases d with
  | none => rfl
  | some dv => exact readingByCandle_setKey_otherB true _ key h2 hs2 dv c

theorem macdI_out_frame (k : String) (h1 : nm ≠ k) (h2 : nm ++ "_signal_line" ≠ k) (ρ : Option (Val K) × Val K) :
    dlookup k (macdI_out nm c ρ).inds = dlookup k c.inds ∧ dlookup k (macdI_out nm c ρ).subs = dlookup k c.subs := by
  obtain ⟨d, w⟩ := ρ
  cases d <;> simp [macdI_out, outDS, setD, setKey, dlookup_dset_ne _ _ _ _ h1, dlookup_dset_ne _ _ _ _ h2]

include hn

theorem macdI_C2_fast (hc : macdI_Absent nm c) : readingByCandle (macdC2 nm vf vs c) (nm ++ "_EMA_fast") = vf := by
  unfold macdC2
  rw [indep_key (F := K) (nm ++ "_EMA_slow") (nm ++ "_EMA_fast") hn.kF hn.FS.symm]
  exact readingByCandle_setKey_noKey true _ hn.kF vf c (hasKey_absent _ _ hc.aF)

theorem macdI_C2_abs (k : String) (hF : nm ++ "_EMA_fast" ≠ k) (hS : nm ++ "_EMA_slow" ≠ k)
    (hc : dlookup k c.inds = none ∧ dlookup k c.subs = none) :
    dlookup k (macdC2 nm vf vs c).inds = none ∧ dlookup k (macdC2 nm vf vs c).subs = none := by
  unfold macdC2
  rw [(setKey_frame true _ k hS vs _).1, (setKey_frame true _ k hS vs _).2,
    (setKey_frame true _ k hF vf _).1, (setKey_frame true _ k hF vf _).2]
  exact hc

theorem macdI_C2_slow (hc : macdI_Absent nm c) : readingByCandle (macdC2 nm vf vs c) (nm ++ "_EMA_slow") = vs := by
  unfold macdC2
  refine readingByCandle_setKey_noKey true _ hn.kS vs _ (hasKey_absent _ _ ?_)
  rw [(setKey_frame true _ _ hn.FS vf c).1, (setKey_frame true _ _ hn.FS vf c).2]
  exact hc.aS

theorem macdI_C3_fast (hc : macdI_Absent nm c) :
    readingByCandle (macdC3 nm vf vs d own c) (nm ++ "_EMA_fast") = vf := by
  rw [← macdI_out_eq nm vf vs (d, own) c,
    macdI_out_other nm _ _ hn.nF hn.FG.symm (noDot_not_self _ _ hn.kF.noDot) (noDot_not_self _ _ hn.kF.noDot)]
  exact macdI_C2_fast nm hn vf vs c hc

theorem macdI_C3_slow (hc : macdI_Absent nm c) :
    readingByCandle (macdC3 nm vf vs d own c) (nm ++ "_EMA_slow") = vs := by
  rw [← macdI_out_eq nm vf vs (d, own) c,
    macdI_out_other nm _ _ hn.nS hn.SG.symm (noDot_not_self _ _ hn.kS.noDot) (noDot_not_self _ _ hn.kS.noDot)]
  exact macdI_C2_slow nm hn vf vs c hc

theorem macdI_C3_sig (hc : macdI_Absent nm c) :
    readingByCandle (macdC3 nm vf vs d own c) (nm ++ "_signal_line") = d.getD .none := by
  rw [← macdI_out_eq nm vf vs (d, own) c]
  exact macdI_out_sig nm hn _ (macdI_C2_abs nm hn vf vs c _ hn.FG hn.SG hc.aG) (d, own)

end cand

/-! ### the node's own step -/

/-- one step of the MACD node as the engine runs it – temporary insert, one step of the managed signal
line, final store – from the pure reading part `macdR` -/
theorem macdI_node_step (nm : String) (n : Nat) (pf ps pg : Int) (input : String) (hg : 1 ≤ pg) (hn : MacdNames nm)
    (H : List (Candle K)) (c : Candle K) (rest : List (Candle K)) (m : Nat) (hH : H.length = m)
    (hno : dlookup (nm ++ "_signal_line") c.inds = none)
    (d : Option (Val K)) (fin : PyM (Val K)) (v : Val K)
    (h3 : macdR pg (snocCtx H c nm) = .ok (d, fin)) (h4 : fin = .ok v) :
    stepWith (macdP nm n pf ps pg input) (macdC nm pg) (H ++ c :: rest) (m : Int)
      = .ok (H ++ macdI_out nm c (d, v.roundBy n) :: rest) := by
  subst hH
  rw [macd_step nm n pf ps pg input hn H c rest hno]
  have := stepWith_dataT (macdP (F := K) nm n pf ps pg input) _ (macdK nm n pf ps pg input hg hn) H c rest hno
  refine this.trans ?_
  have hv : (dataComp (macdP (F := K) nm n pf ps pg input) _ (macdK nm n pf ps pg input hg hn)).val H c
      = .ok (d, v) := by
    show (do
      let (d, fin) ← macdR pg (snocCtx H c nm)
      let v ← fin
      pure (d, v) : PyM (Option (Val K) × Val K)) = _
    rw [h3, h4]
    rfl
  rw [hv]
  rfl

/-! ### pass 3: the node's own loop -/

section defs
variable (n pf ps pg t0 : Nat) (xs : Nat → K)

/-- the `<name>_signal_line` write of candle `j` of the shifted run -/
def macdI_sigD (j : Nat) : Option (Val K) := if j < t0 then none else sigD n pf ps pg xs (j - t0)

/-- the own dict of candle `j` of the shifted run -/
def macdI_own (j : Nat) : Val K := if j < t0 then macdNone else macdOwn n pf ps pg xs (j - t0)

theorem macdI_sigD_getD (hg : 1 ≤ pg) (j : Nat) :
    (macdI_sigD n pf ps pg t0 xs j).getD .none = if j < t0 then .none else sigV n pf ps pg xs (j - t0) := by
  unfold macdI_sigD
  by_cases h : j < t0
  · rw [if_pos h, if_pos h]; rfl
  · rw [if_neg h, if_neg h]; exact sigD_getD n pf ps pg xs hg _

theorem macdI_own_nested (hs : 1 ≤ ps) (j : Nat) :
    (macdI_own n pf ps pg t0 xs j).nested "MACD"
      = if j + 1 < t0 + ps then .none else .flt (macdS n pf ps xs (j - t0)) := by
  unfold macdI_own
  by_cases h : j < t0
  · rw [if_pos h, if_pos (by omega)]; rfl
  · rw [if_neg h, macdOwn_nested]
    by_cases h2 : j - t0 + 1 < ps
    · rw [if_pos h2, if_pos (by omega)]
    · rw [if_neg h2, if_neg (by omega)]

end defs

/-- **the own loop of a MACD node, exact rows**: for every candle list `c₂` (the node's key and the signal
line's absent) whose helper readings are the shifted columns `macdI_col`, the loop returns and stores on
candle `j` the signal-line entry `macdI_sigD j` and the own dict `macdI_own j` – the rows `sigD`, `macdOwn`
of the raw-candle run at the index counted from `t0` -/
theorem macdI_node_rows (nm : String) (n pf ps pg : Nat) (input : String) (hf : 2 ≤ pf) (hfs : pf ≤ ps) (hg : 1 ≤ pg)
    (hn : MacdNames nm) (t0 : Nat) (xs : Nat → K) (c₂ : List (Candle K))
    (hsig : ∀ c ∈ c₂, dlookup (nm ++ "_signal_line") c.inds = none ∧ dlookup (nm ++ "_signal_line") c.subs = none)
    (hown : ∀ c ∈ c₂, dlookup nm c.inds = none ∧ dlookup nm c.subs = none)
    (hfast : ∀ j, j < c₂.length → readingByCandle (c₂.getD j default) (nm ++ "_EMA_fast") = macdI_col pf t0 xs j)
    (hslow : ∀ j, j < c₂.length → readingByCandle (c₂.getD j default) (nm ++ "_EMA_slow") = macdI_col ps t0 xs j) :
    ∃ rows : List (Option (Val K) × Val K), rows.length = c₂.length ∧
      Gen.nodeCalc (specWith (macdP nm n (pf : Int) (ps : Int) (pg : Int) input) (macdC nm (pg : Int))) c₂
        = .ok (decoWith (macdI_out nm) c₂ rows) ∧
      ∀ j, j < c₂.length →
        rows.getD j (none, .none) = (macdI_sigD n pf ps pg t0 xs j, macdI_own n pf ps pg t0 xs j) := by
  refine node_induct _ (macdI_out nm) (none, .none) c₂ (fun c hc => hown c hc)
    (fun j ρ => ρ = (macdI_sigD n pf ps pg t0 xs j, macdI_own n pf ps pg t0 xs j)) ?_
  intro m hm rows hrl hQ
  have hdl := midW_done_length (macdI_out nm) c₂ rows m (by omega) hrl
  have hHj : ∀ j, j < m → (decoWith (macdI_out nm) (c₂.take m) rows).getD j default
      = macdI_out nm (c₂.getD j default) (macdI_sigD n pf ps pg t0 xs j, macdI_own n pf ps pg t0 xs j) := by
    intro j hj
    rw [macdI_take_getD (macdI_out nm) (none, .none) c₂ rows m (by omega) hrl j hj, hQ j hj]
  show ∃ ρ, stepWith (macdP nm n (pf : Int) (ps : Int) (pg : Int) input) (macdC nm (pg : Int))
    (midW (macdI_out nm) c₂ rows m) (m : Int) = _ ∧ _
  rw [midW_split _ c₂ rows m hm]
  generalize decoWith (macdI_out nm) (c₂.take m) rows = H at hdl hHj ⊢
  have hcs := hsig _ (getD_mem' c₂ m hm)
  have hfa := hfast m hm
  have hsl := hslow m hm
  by_cases hw : m + 1 < t0 + ps
  · -- the slow EMA is still `None` (before `t0`, or inside its warm-up)
    have hslN : readingByCandle (c₂.getD m default) (nm ++ "_EMA_slow") = .none := by
      rw [hsl]
      unfold macdI_col
      by_cases h : m < t0
      · rw [if_pos h]
      · rw [if_neg h]; exact emaCol_none _ _ _ _ (by omega)
    have h3 := macdR_none (pg : Int) nm H _ hslN
    refine ⟨(none, (macdNone : Val K).roundBy n),
      macdI_node_step nm n (pf : Int) (ps : Int) (pg : Int) input (by omega) hn H _ _ m hdl hcs.1 none _ macdNone h3 rfl, ?_⟩
    unfold macdI_sigD macdI_own sigD macdOwn
    by_cases h : m < t0
    · rw [if_pos h, if_pos h]; rfl
    · rw [if_neg h, if_neg h, if_pos (by omega), if_pos (by omega)]; rfl
  · -- the slow (hence the fast) EMA has a reading
    have hmt : t0 ≤ m := by omega
    have hfv : readingByCandle (c₂.getD m default) (nm ++ "_EMA_fast") = .flt (emaColF pf 0 xs (m - t0)) := by
      rw [hfa]; unfold macdI_col; rw [if_neg (by omega)]; exact emaCol_flt _ _ _ _ (by omega)
    have hsv : readingByCandle (c₂.getD m default) (nm ++ "_EMA_slow") = .flt (emaColF ps 0 xs (m - t0)) := by
      rw [hsl]; unfold macdI_col; rw [if_neg (by omega)]; exact emaCol_flt _ _ _ _ (by omega)
    -- the signal line, on the candle carrying the temporary `{"MACD": m}`
    obtain ⟨v, hv, ev⟩ := ema_view_step H
      (setKey false nm (sdict [("MACD", sc (.flt (emaColF pf 0 xs (m - t0) - emaColF ps 0 xs (m - t0))))])
        (c₂.getD m default))
      (nm ++ "_signal_line") (nm ++ ".MACD") pg (t0 + (ps - 1)) hg (by omega)
      (fun j => if j + 1 < t0 + ps then .none
        else .flt (if j < m then macdS n pf ps xs (j - t0) else macdU pf ps xs (j - t0)))
      (fun j => .flt ((fun i => sigIn n pf ps pg xs (i - t0)) j))
      (by
        intro j hj
        rw [hdl] at hj
        rw [hHj j hj, macdI_out_macd nm _ hn.dot, macdI_own_nested _ _ _ _ _ _ (by omega)]
        by_cases h : j + 1 < t0 + ps
        · rw [if_pos h, if_pos h]
        · rw [if_neg h, if_neg h, if_pos hj])
      (by
        rw [rbc_tmp nm hn.dot, hdl, if_neg hw, if_neg (lt_irrefl m)]
        rfl)
      (by
        intro j _
        by_cases h : j + 1 < t0 + ps
        · rw [if_pos h]; simp; omega
        · rw [if_neg h]; simp [Val.flt]; omega)
      (by
        intro hseed k hk
        rw [hdl] at hseed
        rw [if_neg (by omega)]
        show Val.flt _ = Val.flt (sigIn n pf ps pg xs (t0 + (ps - 1) + k - t0))
        unfold sigIn
        by_cases h : t0 + (ps - 1) + k < m
        · rw [if_pos h, if_pos (by omega)]
        · rw [if_neg h, if_neg (by omega)])
      (by
        intro hcur
        rw [hdl] at hcur ⊢
        rw [if_neg (by omega), if_neg (lt_irrefl m)]
        show Val.flt _ = Val.flt (sigIn n pf ps pg xs (m - t0))
        unfold sigIn
        rw [if_neg (by omega)])
      (by
        rw [macdI_lastReading, hdl]
        by_cases h0 : m = 0
        · simp [h0]
        · rw [if_neg h0, if_neg h0, hHj (m - 1) (by omega),
            macdI_out_sig nm hn _ (hsig _ (getD_mem' c₂ (m - 1) (by omega))), macdI_sigD_getD _ _ _ _ _ _ hg]
          exact (macdI_emaCol_shift pg (ps - 1) t0 hg (sigIn n pf ps pg xs) (m - 1)).symm)
    rw [hdl] at ev
    have ev' : v.roundBy defaultRound = sigV n pf ps pg xs (m - t0) := by
      rw [ev]
      have := macdI_emaCol_shift pg (ps - 1) t0 hg (sigIn n pf ps pg xs) m
      rw [if_neg (by omega)] at this
      exact this
    have h3 := macdR_some (pg : Int) nm H _ _ _ v hfv hsv hv
    by_cases hw2 : m - t0 + 2 < ps + pg
    · -- no signal yet
      have hvn : v.roundBy defaultRound = .none := by
        rw [ev']; exact emaCol_none _ _ _ _ (by omega)
      refine ⟨_, macdI_node_step nm n (pf : Int) (ps : Int) (pg : Int) input (by omega) hn H _ _ m hdl hcs.1 _ _ _ h3
        (by rw [hvn]; exact macdFin_none _), ?_⟩
      rw [hvn]
      unfold macdI_sigD macdI_own sigD macdOwn sigV
      rw [if_neg (by omega), if_neg (by omega), if_neg (by omega), if_neg (by omega), if_pos hw2,
        emaCol_none pg (ps - 1) _ (m - t0) (by omega)]
      rfl
    · have hvf : v.roundBy defaultRound = .flt (sigF n pf ps pg xs (m - t0)) := by
        rw [ev']; exact emaCol_flt _ _ _ _ (by omega)
      refine ⟨_, macdI_node_step nm n (pf : Int) (ps : Int) (pg : Int) input (by omega) hn H _ _ m hdl hcs.1 _ _ _ h3
        (by rw [hvf]; exact macdFin_flt _ _), ?_⟩
      rw [hvf]
      unfold macdI_sigD macdI_own sigD macdOwn sigV
      rw [if_neg (by omega), if_neg (by omega), if_neg (by omega), if_neg (by omega), if_neg hw2,
        emaCol_flt pg (ps - 1) _ (m - t0) (by omega)]
      rfl

/-! ### the three passes through the engine -/

/-- name conditions of the input of a MACD node: a reading name that does not see the entries of the two
EMA helpers (neither their keys nor a dotted field of them).  Every ordinary key different from
`<name>_EMA_fast`, `<name>_EMA_slow` qualifies (`macdI_Input.of_key`), so does every candle attribute and
every dotted field `main.fld` of another key.  (The node's own key and the signal line's need no condition:
they are written by pass 3 only, which does not read the input.) -/
structure macdI_Input (nm input : String) : Prop where
  nF : nm ++ "_EMA_fast" ≠ input
  sF : ∀ fld, splitDot input ≠ [nm ++ "_EMA_fast", fld]
  nS : nm ++ "_EMA_slow" ≠ input
  sS : ∀ fld, splitDot input ≠ [nm ++ "_EMA_slow", fld]

theorem macdI_Input.of_noDot {nm input : String} (hd : NoDot input) (h1 : input ≠ nm ++ "_EMA_fast")
    (h2 : input ≠ nm ++ "_EMA_slow") : macdI_Input nm input :=
  ⟨Ne.symm h1, noDot_not_self _ input hd, Ne.symm h2, noDot_not_self _ input hd⟩

theorem macdI_Input.of_key {nm input : String} (hk : IsKey input) (h1 : input ≠ nm ++ "_EMA_fast")
    (h2 : input ≠ nm ++ "_EMA_slow") : macdI_Input nm input := macdI_Input.of_noDot hk.noDot h1 h2

/-- **MACD through the engine, exact rows** (`xs` = the values of the stored input numbers `r`): the run
returns the input list with, on candle `j`, the entries `<name>_EMA_fast`, `<name>_EMA_slow`
(`macdI_col`), `<name>_signal_line` (`macdI_sigD`) and `<name>` (`macdI_own`) added – nothing else changes. -/
theorem macdI_inputs_rows (nm input : String) (n pf ps pg t0 : Nat) (cs : List (Candle K)) (r : Nat → Num K)
    (hf : 2 ≤ pf) (hfs : pf ≤ ps) (hg : 1 ≤ pg) (hn : MacdNames nm) (hi : macdI_Input nm input)
    (habs : ∀ c ∈ cs, macdI_Absent nm c)
    (hnone : ∀ j, j < cs.length → j < t0 → readingByCandle (cs.getD j default) input = .none)
    (hnum : ∀ j, j < cs.length → t0 ≤ j → readingByCandle (cs.getD j default) input = .num (r (j - t0))) :
    ∃ (vs1 vs2 : List (Val K)) (rows : List (Option (Val K) × Val K)),
      vs1.length = cs.length ∧ vs2.length = cs.length ∧ rows.length = cs.length ∧
      engineCalc (mkTop (.macd (pf : Int) (ps : Int) (pg : Int) input : Kind K) nm n) cs
        = .ok (decoWith (macdI_out nm)
            (decoWith (keyOut true (nm ++ "_EMA_slow")) (decoWith (keyOut true (nm ++ "_EMA_fast")) cs vs1) vs2) rows) ∧
      ∀ j, j < cs.length →
        vs1.getD j .none = macdI_col pf t0 (fun k => (r k).toF) j ∧
        vs2.getD j .none = macdI_col ps t0 (fun k => (r k).toF) j ∧
        rows.getD j (none, .none)
          = (macdI_sigD n pf ps pg t0 (fun k => (r k).toF) j, macdI_own n pf ps pg t0 (fun k => (r k).toF) j) := by
  -- pass 1: the fast EMA helper
  obtain ⟨vs1, hl1, hrun1, hall1⟩ := macdI_ema_pass (macdEf (F := K) nm (pf : Int) input) input pf hf rfl rfl hn.kF
    hi.nF hi.sF cs (fun c hc => (habs c hc).aF) t0 r hnone hnum
  have hrun1' : leafCalc (macdEf (F := K) nm (pf : Int) input) cs
      = .ok (decoWith (keyOut true (nm ++ "_EMA_fast")) cs vs1) := hrun1
  generalize hc1 : decoWith (keyOut true (nm ++ "_EMA_fast")) cs vs1 = c₁ at hrun1'
  have hlen1 : c₁.length = cs.length := by rw [← hc1]; exact decoWith_length _ _ _ hl1
  have hget1 : ∀ j, j < cs.length →
      c₁.getD j default = setKey true (nm ++ "_EMA_fast") (vs1.getD j .none) (cs.getD j default) := by
    intro j hj; rw [← hc1]; exact decoWith_getD _ _ cs vs1 hl1 j hj
  have hin1 : ∀ j, j < cs.length → readingByCandle (c₁.getD j default) input = readingByCandle (cs.getD j default) input :=
    fun j hj => by rw [hget1 j hj, readingByCandle_setKey_otherB true _ input hi.nF hi.sF]
  have habs1 : ∀ (k : String), nm ++ "_EMA_fast" ≠ k →
      (∀ c ∈ cs, dlookup k c.inds = none ∧ dlookup k c.subs = none) →
      ∀ c ∈ c₁, dlookup k c.inds = none ∧ dlookup k c.subs = none := by
    intro k h1 hk'
    rw [← hc1]
    refine decoWith_mem _ cs vs1 hl1 _ (fun c hc v => ?_)
    rw [(setKey_frame true _ k h1 v c).1, (setKey_frame true _ k h1 v c).2]
    exact hk' c hc
  -- pass 2: the slow EMA helper, over the output of pass 1
  obtain ⟨vs2, hl2, hrun2, hall2⟩ := macdI_ema_pass (macdEs (F := K) nm (ps : Int) input) input ps (by omega) rfl rfl
    hn.kS hi.nS hi.sS c₁ (habs1 _ hn.FS (fun c hc => (habs c hc).aS)) t0 r
    (fun j hj hjt => by rw [hin1 j (by omega)]; exact hnone j (by omega) hjt)
    (fun j hj hjt => by rw [hin1 j (by omega)]; exact hnum j (by omega) hjt)
  rw [hlen1] at hl2 hall2
  have hrun2' : leafCalc (macdEs (F := K) nm (ps : Int) input) c₁
      = .ok (decoWith (keyOut true (nm ++ "_EMA_slow")) c₁ vs2) := hrun2
  generalize hc2 : decoWith (keyOut true (nm ++ "_EMA_slow")) c₁ vs2 = c₂ at hrun2'
  have hlen2 : c₂.length = cs.length := by rw [← hc2, decoWith_length _ _ _ (by rw [hlen1, hl2]), hlen1]
  have hget2 : ∀ j, j < cs.length →
      c₂.getD j default = macdC2 nm (vs1.getD j .none) (vs2.getD j .none) (cs.getD j default) := by
    intro j hj
    rw [← hc2, decoWith_getD _ .none c₁ vs2 (by rw [hlen1, hl2]) j (by omega), hget1 j hj]
    rfl
  have habs2 : ∀ (k : String), nm ++ "_EMA_fast" ≠ k → nm ++ "_EMA_slow" ≠ k →
      (∀ c ∈ cs, dlookup k c.inds = none ∧ dlookup k c.subs = none) →
      ∀ c ∈ c₂, dlookup k c.inds = none ∧ dlookup k c.subs = none := by
    intro k h1 h2 hk'
    rw [← hc2]
    refine decoWith_mem _ c₁ vs2 (by rw [hlen1, hl2]) _ (fun c hc v => ?_)
    rw [(setKey_frame true _ k h2 v c).1, (setKey_frame true _ k h2 v c).2]
    exact habs1 k h1 hk' c hc
  -- pass 3: the node's own loop, over the output of pass 2
  obtain ⟨rows, hl3, hrun3, hall3⟩ := macdI_node_rows nm n pf ps pg input hf hfs hg hn t0 (fun k => (r k).toF) c₂
    (habs2 _ hn.FG hn.SG (fun c hc => (habs c hc).aG))
    (habs2 _ hn.nF.symm hn.nS.symm (fun c hc => (habs c hc).a0))
    (by
      intro j hj
      rw [hlen2] at hj
      rw [hget2 j hj, macdI_C2_fast nm hn _ _ _ (habs _ (getD_mem' cs j hj))]
      exact (hall1 j hj))
    (by
      intro j hj
      rw [hlen2] at hj
      rw [hget2 j hj, macdI_C2_slow nm hn _ _ _ (habs _ (getD_mem' cs j hj))]
      exact (hall2 j hj))
  rw [hlen2] at hl3 hall3
  refine ⟨vs1, vs2, rows, hl1, hl2, hl3, ?_, fun j hj => ⟨hall1 j hj, hall2 j hj, hall3 j hj⟩⟩
  have e := engineCalc_macd (F := K) nm n (pf : Int) (ps : Int) (pg : Int) input cs
  show engineCalc (macdP (F := K) nm n (pf : Int) (ps : Int) (pg : Int) input) cs = _
  rw [e, hrun1']
  simp only [bind, Except.bind]
  rw [hrun2']
  simp only
  rw [hrun3, hc1, hc2]

/-! ### the final statement -/

/-- **MACD over a late-starting foreign input** (property C06, position independence).  Hypotheses: the
parameter ranges of the raw-candle theorem (`2 ≤ fast ≤ slow`, `1 ≤ signal`), the name conditions of the tree,
an input name that does not see the two EMA helpers' entries, the four names of the tree absent from every
candle, the input `None` on the first `t0` candles and the numbers `x` afterwards.  Conclusion: `calculate()`
returns a list of the same length; every reading name that sees none of the four names reads what it read
before; before `t0` the three helper readings are `None` and the own dict is the dict of `None`s; from `t0` on
candle `j` satisfies `MacdCandleOK … x (j − t0)` – the predicate of the raw-candle theorem
`macd_engine_readings` (helpers `RecOK` against the textbook EMAs, the own fields `MacdFieldOK` against the
textbook MACD / signal / histogram with the explicit rounding budgets, `histogram = MACD − signal` on the
stored values up to `3·ε_n`) at the index counted from `t0`, for the input values counted from `t0`. -/
def C06MacdStatement : Prop :=
  ∀ (K : Type) [Field K] [LinearOrder K] [IsStrictOrderedRing K] [LawfulPyF K]
    (pf ps pg : Nat) (nm input : String) (n t0 : Nat) (cs : List (Candle K)) (x : Nat → K),
    2 ≤ pf → pf ≤ ps → 1 ≤ pg → MacdNames nm → macdI_Input nm input →
    (∀ c ∈ cs, macdI_Absent nm c) →
    (∀ j, j < cs.length →
      (match readingByCandle (cs.getD j default) input with
        | .s (.num r) => some r.toF
        | _ => none) = if j < t0 then none else some (x (j - t0))) →
    (∀ j, j < cs.length → j < t0 → readingByCandle (cs.getD j default) input = .none) →
    ∃ out : List (Candle K),
      engineCalc (mkTop (.macd (pf : Int) (ps : Int) (pg : Int) input : Kind K) nm n) cs = .ok out ∧
      out.length = cs.length ∧
      ∀ j, j < cs.length →
        (∀ key : String, (∀ k ∈ [nm, nm ++ "_EMA_fast", nm ++ "_EMA_slow", nm ++ "_signal_line"],
            k ≠ key ∧ ∀ fld, splitDot key ≠ [k, fld]) →
          readingByCandle (out.getD j default) key = readingByCandle (cs.getD j default) key) ∧
        (j < t0 →
          (out.getD j default).bare = (cs.getD j default).bare ∧
          readingByCandle (out.getD j default) (nm ++ "_EMA_fast") = .none ∧
          readingByCandle (out.getD j default) (nm ++ "_EMA_slow") = .none ∧
          readingByCandle (out.getD j default) (nm ++ "_signal_line") = .none ∧
          readingByCandle (out.getD j default) nm = macdNone) ∧
        (t0 ≤ j → MacdCandleOK nm n pf ps pg x (j - t0) (cs.getD j default) (out.getD j default))

theorem c06_macd_inputs : C06MacdStatement := by
  intro K _ _ _ _ pf ps pg nm input n t0 cs x hf hfs hg hn hi habs hin hnone
  obtain ⟨r, hr, hnum⟩ := input_col cs input t0 x hin
  have hx : (fun k => (r k).toF) = x := funext hr
  obtain ⟨vs1, vs2, rows, hl1, hl2, hl3, hrun, hall⟩ :=
    macdI_inputs_rows nm input n pf ps pg t0 cs r hf hfs hg hn hi habs hnone hnum
  rw [hx] at hall
  have hlen1 : (decoWith (keyOut true (nm ++ "_EMA_fast")) cs vs1).length = cs.length := decoWith_length _ _ _ hl1
  have hlen2 : (decoWith (keyOut true (nm ++ "_EMA_slow")) (decoWith (keyOut true (nm ++ "_EMA_fast")) cs vs1) vs2).length
      = cs.length := by rw [decoWith_length _ _ _ (by rw [hlen1, hl2]), hlen1]
  have hlen3 : (decoWith (macdI_out nm)
      (decoWith (keyOut true (nm ++ "_EMA_slow")) (decoWith (keyOut true (nm ++ "_EMA_fast")) cs vs1) vs2) rows).length
      = cs.length := by rw [decoWith_length _ _ _ (by rw [hlen2, hl3]), hlen2]
  refine ⟨_, hrun, hlen3, ?_⟩
  intro j hj
  obtain ⟨h1, h2, h3⟩ := hall j hj
  have hc := habs _ (getD_mem' cs j hj)
  have hget : (decoWith (macdI_out nm)
      (decoWith (keyOut true (nm ++ "_EMA_slow")) (decoWith (keyOut true (nm ++ "_EMA_fast")) cs vs1) vs2) rows).getD j default
      = macdC3 nm (macdI_col pf t0 x j) (macdI_col ps t0 x j) (macdI_sigD n pf ps pg t0 x j)
          (macdI_own n pf ps pg t0 x j) (cs.getD j default) := by
    rw [decoWith_getD _ (none, .none) _ rows (by rw [hlen2, hl3]) j (by rw [hlen2]; exact hj),
      decoWith_getD _ .none _ vs2 (by rw [hlen1, hl2]) j (by rw [hlen1]; exact hj),
      decoWith_getD _ .none cs vs1 hl1 j hj, h1, h2, h3]
    rfl
  rw [hget]
  refine ⟨?_, ?_, ?_⟩
  · intro key hkey
    have k0 := hkey nm (by simp)
    have kF := hkey (nm ++ "_EMA_fast") (by simp)
    have kS := hkey (nm ++ "_EMA_slow") (by simp)
    have kG := hkey (nm ++ "_signal_line") (by simp)
    rw [← macdI_out_eq nm _ _ (_, _) _, macdI_out_other nm _ key k0.1 kG.1 k0.2 kG.2]
    unfold macdC2
    rw [readingByCandle_setKey_otherB true _ key kS.1 kS.2, readingByCandle_setKey_otherB true _ key kF.1 kF.2]
  · intro hjt
    refine ⟨macdC3_bare nm _ _ _ _ _, ?_, ?_, ?_, ?_⟩
    · rw [macdI_C3_fast nm hn _ _ _ _ _ hc]; unfold macdI_col; rw [if_pos hjt]
    · rw [macdI_C3_slow nm hn _ _ _ _ _ hc]; unfold macdI_col; rw [if_pos hjt]
    · rw [macdI_C3_sig nm hn _ _ _ _ _ hc]; unfold macdI_sigD; rw [if_pos hjt]; rfl
    · rw [macdC3_own nm hn]; unfold macdI_own; rw [if_pos hjt]
  · intro hjt
    have e1 : macdI_col pf t0 x j = emaCol pf 0 x (j - t0) := by unfold macdI_col; rw [if_neg (by omega)]
    have e2 : macdI_col ps t0 x j = emaCol ps 0 x (j - t0) := by unfold macdI_col; rw [if_neg (by omega)]
    have e3 : macdI_sigD n pf ps pg t0 x j = sigD n pf ps pg x (j - t0) := by unfold macdI_sigD; rw [if_neg (by omega)]
    have e4 : macdI_own n pf ps pg t0 x j = macdOwn n pf ps pg x (j - t0) := by unfold macdI_own; rw [if_neg (by omega)]
    rw [e1, e2, e3, e4]
    obtain ⟨o1, o2, o3⟩ := macdOwn_ok n pf ps pg x (by omega) hfs hg (j - t0)
    refine ⟨macdC3_bare nm _ _ _ _ _, ?_, ?_, ?_, ?_, ?_, ?_, ?_, ?_⟩
    · rw [macdI_C3_fast nm hn _ _ _ _ _ hc]; exact helper_ok pf (by omega) _ _
    · rw [macdI_C3_slow nm hn _ _ _ _ _ hc]; exact helper_ok ps (by omega) _ _
    · rw [macdI_C3_sig nm hn _ _ _ _ _ hc, sigD_getD _ _ _ _ _ hg]; exact sigV_ok n pf ps pg _ hg _
    · rw [macdC3_macd nm hn]; exact o1
    · have e : readingByCandle (macdC3 nm (emaCol pf 0 x (j - t0)) (emaCol ps 0 x (j - t0)) (sigD n pf ps pg x (j - t0))
          (macdOwn n pf ps pg x (j - t0)) (cs.getD j default)) (nm ++ ".signal")
          = (macdOwn n pf ps pg x (j - t0)).nested "signal" :=
        rbc_dotted_own nm _ "signal" (splitDot_signal nm hn.kN.noDot) _ _
      rw [e]; exact o2
    · have e : readingByCandle (macdC3 nm (emaCol pf 0 x (j - t0)) (emaCol ps 0 x (j - t0)) (sigD n pf ps pg x (j - t0))
          (macdOwn n pf ps pg x (j - t0)) (cs.getD j default)) (nm ++ ".histogram")
          = (macdOwn n pf ps pg x (j - t0)).nested "histogram" :=
        rbc_dotted_own nm _ "histogram" (splitDot_histogram nm hn.kN.noDot) _ _
      rw [e]; exact o3
    · intro h; rw [macdC3_own nm hn]; unfold macdOwn; rw [if_pos h]
    · intro h; rw [macdC3_own nm hn]; exact macdOwn_hist_eq n pf ps pg _ hg _ h

/-! #### non-vacuity: `MACD(2, 3, 1)` of the foreign reading `"EMA_2"` of `demoForeign` (`None, None, 12, 14, 15`;
`t0 = 2`): the MACD and signal fields exist on candle 4 = `t0 + slow − 1` -/

theorem macdI_names_demo : MacdNames "MACD_2_3_1" :=
  ⟨by decide, by decide, by decide, by decide, by decide, by decide, by decide, by decide, by decide, by decide⟩

theorem macdI_demo_abs : ∀ c ∈ demoForeign, macdI_Absent "MACD_2_3_1" c := fun c hc =>
  ⟨demoForeign_abs "MACD_2_3_1" (by decide) (by decide) (by decide) c hc,
   demoForeign_abs "MACD_2_3_1_EMA_fast" (by decide) (by decide) (by decide) c hc,
   demoForeign_abs "MACD_2_3_1_EMA_slow" (by decide) (by decide) (by decide) c hc,
   demoForeign_abs "MACD_2_3_1_signal_line" (by decide) (by decide) (by decide) c hc⟩

example : ∃ out : List (Candle ℚ),
    engineCalc (mkTop (.macd ((2 : Nat) : Int) ((3 : Nat) : Int) ((1 : Nat) : Int) "EMA_2" : Kind ℚ) "MACD_2_3_1" 4)
      demoForeign = .ok out ∧
    out.length = demoForeign.length ∧
    ∀ j, j < demoForeign.length →
      (∀ key : String,
        (∀ k ∈ ["MACD_2_3_1", "MACD_2_3_1" ++ "_EMA_fast", "MACD_2_3_1" ++ "_EMA_slow", "MACD_2_3_1" ++ "_signal_line"],
          k ≠ key ∧ ∀ fld, splitDot key ≠ [k, fld]) →
        readingByCandle (out.getD j default) key = readingByCandle (demoForeign.getD j default) key) ∧
      (j < 2 →
        (out.getD j default).bare = (demoForeign.getD j default).bare ∧
        readingByCandle (out.getD j default) ("MACD_2_3_1" ++ "_EMA_fast") = .none ∧
        readingByCandle (out.getD j default) ("MACD_2_3_1" ++ "_EMA_slow") = .none ∧
        readingByCandle (out.getD j default) ("MACD_2_3_1" ++ "_signal_line") = .none ∧
        readingByCandle (out.getD j default) "MACD_2_3_1" = macdNone) ∧
      (2 ≤ j → MacdCandleOK "MACD_2_3_1" 4 2 3 1 demoX (j - 2) (demoForeign.getD j default) (out.getD j default)) :=
  c06_macd_inputs ℚ 2 3 1 "MACD_2_3_1" "EMA_2" 4 2 demoForeign demoX (by norm_num) (by norm_num) (by norm_num)
    macdI_names_demo (macdI_Input.of_key (by decide) (by decide) (by decide)) macdI_demo_abs
    demoForeign_in demoForeign_none

/-- … and what the exact rows say there: on candle 4 the stored `MACD` entry is `round₄(13.8889 − 13.6667) =
0.2222` (fast EMA of `12, 14, 15`: `13, 14.3333`→ stored `13.0, 14.3333`; slow EMA seeded with the mean
`13.6667`), the signal line (period 1: seeded with the unrounded MACD of its own candle) is `0.2222`, the
histogram `0` -/
example : ∃ (vs1 vs2 : List (Val ℚ)) (rows : List (Option (Val ℚ) × Val ℚ)),
    engineCalc (mkTop (.macd ((2 : Nat) : Int) ((3 : Nat) : Int) ((1 : Nat) : Int) "EMA_2" : Kind ℚ) "MACD_2_3_1" 4)
      demoForeign
      = .ok (decoWith (macdI_out "MACD_2_3_1")
          (decoWith (keyOut true ("MACD_2_3_1" ++ "_EMA_slow"))
            (decoWith (keyOut true ("MACD_2_3_1" ++ "_EMA_fast")) demoForeign vs1) vs2) rows) ∧
    rows.getD 3 (none, .none) = (none, macdNone) ∧
    ∃ r : Nat → Num ℚ, (∀ k, (r k).toF = demoX k) ∧
      rows.getD 4 (none, .none) = (some (sigV 4 2 3 1 (fun k => (r k).toF) 2), macdOwn 4 2 3 1 (fun k => (r k).toF) 2) := by
  obtain ⟨r, hr, hnum⟩ := input_col demoForeign "EMA_2" 2 demoX demoForeign_in
  obtain ⟨vs1, vs2, rows, _, _, _, hrun, hall⟩ := macdI_inputs_rows "MACD_2_3_1" "EMA_2" 4 2 3 1 2 demoForeign r
    (by norm_num) (by norm_num) (by norm_num) macdI_names_demo (macdI_Input.of_key (by decide) (by decide) (by decide))
    macdI_demo_abs demoForeign_none hnum
  refine ⟨vs1, vs2, rows, hrun, ?_, r, hr, ?_⟩
  · rw [(hall 3 (by decide)).2.2]
    simp [macdI_sigD, macdI_own, sigD, macdOwn]
  · rw [(hall 4 (by decide)).2.2]
    simp [macdI_sigD, macdI_own, sigD]

end Numeric

/-- the toy carrier: MACD(2, 3, 2) of a late-starting foreign reading (`t0 = 2`) returns; the `MACD` field is
missing on the first `t0 + slow − 1 = 4` candles, the `signal` field on the first `t0 + slow + signal − 2 = 5`
(`decide`) -/
example : (engineCalc (mkTop (.macd 2 3 2 "EMA_2") "M" 4)
    ([{ o := .int 10, h := .int 12, l := .int 9, c := .int 11, v := .int 100 },
      { o := .int 11, h := .int 13, l := .int 10, c := .int 12, v := .int 200, inds := [("EMA_2", .none)] },
      { o := .int 12, h := .int 15, l := .int 11, c := .int 14, v := .int 300, inds := [("EMA_2", .int 12)] },
      { o := .int 14, h := .int 16, l := .int 13, c := .int 15, v := .int 0, inds := [("EMA_2", .int 14)] },
      { o := .int 14, h := .int 16, l := .int 13, c := .int 15, v := .int 0, inds := [("EMA_2", .int 17)] },
      { o := .int 14, h := .int 16, l := .int 13, c := .int 15, v := .int 0, inds := [("EMA_2", .int 13)] },
      { o := .int 14, h := .int 16, l := .int 13, c := .int 15, v := .int 0, inds := [("EMA_2", .int 19)] }]
      : List (Candle Int))).toOption.map
      (fun l => l.map fun c => ((readingByCandle c "M.MACD").isNone, (readingByCandle c "M.signal").isNone,
        (readingByCandle c "M_EMA_fast").isNone))
    = some [(true, true, true), (true, true, true), (true, true, true), (true, true, false), (false, true, false),
            (false, false, false), (false, false, false)] := by
  decide +kernel

end Hex

#print axioms Hex.Numeric.macdI_ema_pass
#print axioms Hex.Numeric.macdI_node_rows
#print axioms Hex.Numeric.macdI_inputs_rows
#print axioms Hex.Numeric.c06_macd_inputs


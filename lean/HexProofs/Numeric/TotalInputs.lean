import HexProofs.Numeric.Total
import HexProofs.Numeric.SeriesInputsAvg
import HexProofs.Numeric.SeriesInputsBB
import HexProofs.Numeric.SeriesInputsThres
import HexProofs.Numeric.SeriesInputsRSI
import HexProofs.Numeric.SeriesInputsHMA
import HexProofs.Numeric.SeriesInputsMACD
import HexProofs.Numeric.SeriesInputsSTOCH
import HexProofs.Numeric.SeriesInputsTSI
import HexProofs.Numeric.SeriesInputsKC
import HexProofs.Numeric.SeriesInputsSupertrend
import HexProofs.Numeric.SeriesInputsADX
/-!
# C09 over inputs that are OTHER INDICATORS' readings  (open item (a) of `C09_FULL`)

`HexProofs/Numeric/SeriesInputs*.lean` prove the whole-series theorems through the ENGINE over candle lists that
already hold foreign readings, for an input column that is `None` on the first `t0` candles and numeric afterwards.
This file packages them in the shape of C09:

* `X_never_raises_inputs` – `calculate()` of the indicator over such a list RETURNS;
* `X_no_gaps_inputs` – … and every output field is `None` EXACTLY below `t0 +` its warm-up index and a number
  (a float) on EVERY candle from it on (`NoGapsFlt`, HexProofs/Numeric/Total.lean), one output candle per input candle.

The hypotheses are explicit: the node's own names are absent from the list, the input name is not one of them, the
input column is `LateCol` (numeric from `t0` on, `None` – absent or stored `None` – below; a `bool` or a dict below
`t0` is NOT allowed: `c04_full_false`), the parameter guards of the source theorems.  ROC additionally needs its
input never `0` – without it the statement is FALSE (`roc_raises_on_zero`).
-/
set_option linter.unusedSectionVars false
set_option linter.unusedVariables false
namespace Hex
namespace Numeric
variable {K : Type} [Field K] [LinearOrder K] [IsStrictOrderedRing K] [LawfulPyF K]

/-- **a late-starting numeric input column**: the reading `input` of candle `j` is `None` for `j < t0` and the
number `x (j − t0)` from `t0` on (the shape of another indicator's output column: `X_no_gaps`) -/
structure LateCol (cs : List (Candle K)) (input : String) (t0 : Nat) (x : Nat → K) : Prop where
  col : ∀ j, j < cs.length → inputSeriesAt cs input j = if j < t0 then none else some (x (j - t0))
  none : ∀ j, j < cs.length → j < t0 → readingByCandle (cs.getD j default) input = .none

/-- the node's own name is absent from every candle (composite kinds: `BbAbsent`, `ThAbsent`, … – all their names) -/
def OwnAbsent (nm : String) (cs : List (Candle K)) : Prop :=
  ∀ c ∈ cs, dlookup nm c.inds = none ∧ dlookup nm c.subs = none

/-- the engine run returns -/
def EngineReturns (ind : Ind K) (cs : List (Candle K)) : Prop := ∃ out, engineCalc ind cs = .ok out

/-- the engine run returns `out` with `P cs out` -/
def EngineAlways (ind : Ind K) (cs : List (Candle K)) (P : List (Candle K) → List (Candle K) → Prop) : Prop :=
  ∃ out, engineCalc ind cs = .ok out ∧ P cs out

theorem EngineAlways.returns {ind : Ind K} {cs : List (Candle K)} {P : List (Candle K) → List (Candle K) → Prop}
    (h : EngineAlways ind cs P) : EngineReturns ind cs := h.elim fun out ho => ⟨out, ho.1⟩

/-! ## leaf kinds -/

/-- the closing step for a leaf kind: `None` below `t0`, then the shape of `SmaOK` / `RecOK` / `DirectOK` -/
theorem leaf_inputs_flt (k : Kind K) (nm : String) (n : Nat) (hk : IsKey nm) (t0 p : Nat) (cs : List (Candle K))
    (h : ∃ vs : List (Val K), vs.length = cs.length ∧ engineCalc (mkTop k nm n) cs = .ok (deco nm cs vs) ∧
      ∀ j, j < cs.length → (j < t0 → vs.getD j .none = .none) ∧
        (t0 ≤ j → ((j - t0) + 1 < p → vs.getD j .none = .none) ∧
          (p ≤ (j - t0) + 1 → ∃ y : K, vs.getD j .none = .flt y))) :
    EngineAlways (mkTop k nm n) cs (NoGapsFlt (own nm) (t0 + (p - 1))) := by
  obtain ⟨vs, hl, hrun, hall⟩ := h
  refine ⟨_, hrun, noGapsFlt_of _ _ _ _ (deco_length nm cs vs hl) fun j hj => ?_⟩
  unfold own
  rw [own_deco nm hk cs vs hl j hj]
  obtain ⟨h1, h2⟩ := hall j hj
  refine ⟨fun hlt => ?_, fun hge => ?_⟩
  · by_cases ht : j < t0
    · exact h1 ht
    · exact (h2 (by omega)).1 (by omega)
  · exact (h2 (by omega)).2 (by omega)

/-- **SMA over a late-starting input has no gaps**: `None` exactly below `t0 + p − 1` -/
theorem sma_no_gaps_inputs (p : Nat) (hp : 2 ≤ p) (nm input : String) (n t0 : Nat) (cs : List (Candle K))
    (x : Nat → K) (hk : IsKey nm) (hne : nm ≠ input) (habs : OwnAbsent nm cs) (hin : LateCol cs input t0 x) :
    EngineAlways (mkTop (.sma p input : Kind K) nm n) cs (NoGapsFlt (own nm) (t0 + (p - 1))) :=
  leaf_inputs_flt _ nm n hk t0 p cs (by
    obtain ⟨vs, h1, h2, h3⟩ := c04_full_partial K p nm input n t0 cs x hp hk hne habs hin.col hin.none
    exact ⟨vs, h1, h2, fun j hj => ⟨(h3 j hj).1, fun ht => ⟨((h3 j hj).2 ht).1,
      fun h => (((h3 j hj).2 ht).2 h).elim fun y hy => ⟨y, hy.1⟩⟩⟩⟩)

theorem sma_never_raises_inputs (p : Nat) (hp : 2 ≤ p) (nm input : String) (n t0 : Nat) (cs : List (Candle K))
    (x : Nat → K) (hk : IsKey nm) (hne : nm ≠ input) (habs : OwnAbsent nm cs) (hin : LateCol cs input t0 x) :
    EngineReturns (mkTop (.sma p input : Kind K) nm n) cs :=
  (sma_no_gaps_inputs p hp nm input n t0 cs x hk hne habs hin).returns

/-- **EMA** (any smoothing `s` with `0 < s/(p+1) ≤ 1`; the library's is `2`) -/
theorem ema_no_gaps_inputs (p : Nat) (hp : 2 ≤ p) (s : Num K) (ha0 : 0 < s.toF / ((p : K) + 1))
    (ha1 : s.toF / ((p : K) + 1) ≤ 1) (nm input : String) (n t0 : Nat) (cs : List (Candle K))
    (x : Nat → K) (hk : IsKey nm) (hne : nm ≠ input) (habs : OwnAbsent nm cs) (hin : LateCol cs input t0 x) :
    EngineAlways (mkTop (.ema p input s : Kind K) nm n) cs (NoGapsFlt (own nm) (t0 + (p - 1))) :=
  leaf_inputs_flt _ nm n hk t0 p cs (by
    obtain ⟨vs, h1, h2, h3⟩ := c04_ema K p s nm input n t0 cs x hp ha0 ha1 hk hne habs hin.col hin.none
    exact ⟨vs, h1, h2, fun j hj => ⟨(h3 j hj).1, fun ht => ⟨((h3 j hj).2 ht).1,
      fun h => (((h3 j hj).2 ht).2 h).elim fun y hy => ⟨y, hy.1⟩⟩⟩⟩)

theorem ema_never_raises_inputs (p : Nat) (hp : 2 ≤ p) (s : Num K) (ha0 : 0 < s.toF / ((p : K) + 1))
    (ha1 : s.toF / ((p : K) + 1) ≤ 1) (nm input : String) (n t0 : Nat) (cs : List (Candle K))
    (x : Nat → K) (hk : IsKey nm) (hne : nm ≠ input) (habs : OwnAbsent nm cs) (hin : LateCol cs input t0 x) :
    EngineReturns (mkTop (.ema p input s : Kind K) nm n) cs :=
  (ema_no_gaps_inputs p hp s ha0 ha1 nm input n t0 cs x hk hne habs hin).returns

/-- … with the library's smoothing `2` -/
theorem ema2_no_gaps_inputs (p : Nat) (hp : 2 ≤ p) (nm input : String) (n t0 : Nat) (cs : List (Candle K))
    (x : Nat → K) (hk : IsKey nm) (hne : nm ≠ input) (habs : OwnAbsent nm cs) (hin : LateCol cs input t0 x) :
    EngineAlways (mkTop (.ema p input (fl 2) : Kind K) nm n) cs (NoGapsFlt (own nm) (t0 + (p - 1))) := by
  have ha := ema_alpha_range (K := K) (p : Int) (by omega)
  exact ema_no_gaps_inputs p hp (fl 2) (by simpa using ha.1) (by simpa using ha.2) nm input n t0 cs x hk hne habs hin

/-- **RMA** (Wilder) -/
theorem rma_no_gaps_inputs (p : Nat) (hp : 2 ≤ p) (nm input : String) (n t0 : Nat) (cs : List (Candle K))
    (x : Nat → K) (hk : IsKey nm) (hne : nm ≠ input) (habs : OwnAbsent nm cs) (hin : LateCol cs input t0 x) :
    EngineAlways (mkTop (.rma p input : Kind K) nm n) cs (NoGapsFlt (own nm) (t0 + (p - 1))) :=
  leaf_inputs_flt _ nm n hk t0 p cs (by
    obtain ⟨vs, h1, h2, h3⟩ := c04_rma K p nm input n t0 cs x hp hk hne habs hin.col hin.none
    exact ⟨vs, h1, h2, fun j hj => ⟨(h3 j hj).1, fun ht => ⟨((h3 j hj).2 ht).1,
      fun h => (((h3 j hj).2 ht).2 h).elim fun y hy => ⟨y, hy.1⟩⟩⟩⟩)

theorem rma_never_raises_inputs (p : Nat) (hp : 2 ≤ p) (nm input : String) (n t0 : Nat) (cs : List (Candle K))
    (x : Nat → K) (hk : IsKey nm) (hne : nm ≠ input) (habs : OwnAbsent nm cs) (hin : LateCol cs input t0 x) :
    EngineReturns (mkTop (.rma p input : Kind K) nm n) cs :=
  (rma_no_gaps_inputs p hp nm input n t0 cs x hk hne habs hin).returns

/-- **WMA** -/
theorem wma_no_gaps_inputs (p : Nat) (hp : 2 ≤ p) (nm input : String) (n t0 : Nat) (cs : List (Candle K))
    (x : Nat → K) (hk : IsKey nm) (hne : nm ≠ input) (habs : OwnAbsent nm cs) (hin : LateCol cs input t0 x) :
    EngineAlways (mkTop (.wma p input : Kind K) nm n) cs (NoGapsFlt (own nm) (t0 + (p - 1))) :=
  leaf_inputs_flt _ nm n hk t0 p cs (by
    obtain ⟨vs, h1, h2, h3⟩ := c04_wma K p nm input n t0 cs x hp hk hne habs hin.col hin.none
    exact ⟨vs, h1, h2, fun j hj => ⟨(h3 j hj).1, fun ht => ⟨((h3 j hj).2 ht).1,
      fun h => (((h3 j hj).2 ht).2 h).elim fun y hy => ⟨y, hy.1⟩⟩⟩⟩)

theorem wma_never_raises_inputs (p : Nat) (hp : 2 ≤ p) (nm input : String) (n t0 : Nat) (cs : List (Candle K))
    (x : Nat → K) (hk : IsKey nm) (hne : nm ≠ input) (habs : OwnAbsent nm cs) (hin : LateCol cs input t0 x) :
    EngineReturns (mkTop (.wma p input : Kind K) nm n) cs :=
  (wma_no_gaps_inputs p hp nm input n t0 cs x hk hne habs hin).returns

/-- **ROC** – `hnz`: the numeric inputs are never `0`.  Without it the statement is FALSE: ROC divides by the
reference value unguarded (`roc_raises_on_zero`, HexProps/C09.lean; `Hex.Numeric.roc_zeroDiv`). -/
theorem roc_no_gaps_inputs (p : Nat) (hp : 1 ≤ p) (nm input : String) (n t0 : Nat) (cs : List (Candle K))
    (x : Nat → K) (hk : IsKey nm) (hne : nm ≠ input) (habs : OwnAbsent nm cs) (hin : LateCol cs input t0 x)
    (hnz : ∀ k, t0 + k < cs.length → x k ≠ 0) :
    EngineAlways (mkTop (.roc p input : Kind K) nm n) cs (NoGapsFlt (own nm) (t0 + p)) := by
  have := leaf_inputs_flt (.roc p input : Kind K) nm n hk t0 (p + 1) cs (by
    obtain ⟨vs, h1, h2, h3⟩ := c06_roc K p nm input n t0 cs x hp hk hne habs hin.col hin.none hnz
    exact ⟨vs, h1, h2, fun j hj => ⟨(h3 j hj).1, fun ht => ⟨((h3 j hj).2 ht).1,
      fun h => (((h3 j hj).2 ht).2 h).elim fun y hy => ⟨y, hy.1⟩⟩⟩⟩)
  simpa using this

theorem roc_never_raises_inputs (p : Nat) (hp : 1 ≤ p) (nm input : String) (n t0 : Nat) (cs : List (Candle K))
    (x : Nat → K) (hk : IsKey nm) (hne : nm ≠ input) (habs : OwnAbsent nm cs) (hin : LateCol cs input t0 x)
    (hnz : ∀ k, t0 + k < cs.length → x k ≠ 0) :
    EngineReturns (mkTop (.roc p input : Kind K) nm n) cs :=
  (roc_no_gaps_inputs p hp nm input n t0 cs x hk hne habs hin hnz).returns

/-- **VWMA** reads candle fields only: over EVERY candle list (whatever it holds under other names) -/
theorem vwma_no_gaps_inputs (p : Nat) (hp : 2 ≤ p) (nm : String) (n : Nat) (cs : List (Candle K))
    (hk : IsKey nm) (habs : OwnAbsent nm cs) :
    EngineAlways (mkTop (.vwma p : Kind K) nm n) cs (NoGapsFlt (own nm) (p - 1)) := by
  have := leaf_inputs_flt (.vwma p : Kind K) nm n hk 0 p cs (by
    obtain ⟨vs, h1, h2, h3⟩ := c04_vwma p hp nm n hk cs habs
    exact ⟨vs, h1, h2, fun j hj => ⟨fun h => absurd h (by omega), fun _ => ⟨(h3 j hj).1,
      fun h => ((h3 j hj).2 h).elim fun y hy => ⟨y, hy.1⟩⟩⟩⟩)
  simpa using this

theorem vwma_never_raises_inputs (p : Nat) (hp : 2 ≤ p) (nm : String) (n : Nat) (cs : List (Candle K))
    (hk : IsKey nm) (habs : OwnAbsent nm cs) : EngineReturns (mkTop (.vwma p : Kind K) nm n) cs :=
  (vwma_no_gaps_inputs p hp nm n cs hk habs).returns

/-! ## the generic extraction, shifted by `t0` -/

/-- `None` below `t0`, then an optional exact value `o` that is `none` exactly below `w` -/
theorem fltFrom_shift (t0 w j : Nat) (v : Val K) (o : Option K) (P : K → K → Prop)
    (h1 : j < t0 → v = .none)
    (h2 : t0 ≤ j → match o with | none => v = .none | some e => ∃ y, v = .flt y ∧ P y e)
    (hw : t0 ≤ j → (o = none ↔ j - t0 < w)) : FltFrom (t0 + w) j v := by
  by_cases ht : j < t0
  · exact ⟨fun _ => h1 ht, fun h => absurd h (by omega)⟩
  · have h2' := h2 (by omega)
    have hw' := hw (by omega)
    cases o with
    | none => exact ⟨fun _ => h2', fun h => absurd (hw'.1 rfl) (by omega)⟩
    | some e =>
      obtain ⟨y, hy, _⟩ := h2'
      exact ⟨fun h => absurd (hw'.2 (by omega)) (by simp), fun _ => ⟨y, hy⟩⟩

/-- … for a `MacdFieldOK` / `Within` field -/
theorem fltFrom_shiftM (t0 w j : Nat) (v : Val K) (o : Option K) (b : K) (h1 : j < t0 → v = .none)
    (h2 : t0 ≤ j → MacdFieldOK b o v) (hw : t0 ≤ j → (o = none ↔ j - t0 < w)) : FltFrom (t0 + w) j v :=
  fltFrom_shift t0 w j v o (fun y e => |y - e| ≤ b) h1 h2 hw

/-! ## STDEV, BBANDS, STDEVTHRES, RSI -/

/-- **STDEV over a late-starting input**: `None` exactly below `t0 + p` (the library waits for `p + 1` inputs) -/
theorem stdev_no_gaps_inputs [NonnegSqrt K] (p : Nat) (hp : 1 ≤ p) (nm input : String) (n t0 : Nat)
    (cs : List (Candle K)) (x : Nat → K) (hn : SdNames nm) (hik : IsKey input) (h1 : input ≠ nm)
    (h2 : input ≠ nm ++ "_data")
    (habs : ∀ c ∈ cs, dlookup nm c.inds = none ∧ dlookup nm c.subs = none ∧
      dlookup (nm ++ "_data") c.inds = none ∧ dlookup (nm ++ "_data") c.subs = none)
    (hin : LateCol cs input t0 x) :
    EngineAlways (mkTop (.stdev (p : Int) input : Kind K) nm n) cs (NoGapsFlt (own nm) (t0 + p)) := by
  obtain ⟨out, hrun, hlen, hall⟩ := c05_inputs_partial K p nm input n t0 cs x hp hn hik h1 h2 habs hin.col hin.none
  refine ⟨out, hrun, noGapsFlt_of _ _ _ _ hlen fun j hj => ?_⟩
  unfold own
  refine fltFrom_shift t0 p j _ (stdevSeries p x (j - t0)) (fun y e => |y - e| ≤ eps K n ∧ 0 ≤ y) (hall j hj).1 (fun ht => ?_) (fun _ => ?_)
  · exact (hall j hj).2 ht
  · unfold stdevSeries; split_ifs <;> simp <;> omega

theorem stdev_never_raises_inputs [NonnegSqrt K] (p : Nat) (hp : 1 ≤ p) (nm input : String) (n t0 : Nat)
    (cs : List (Candle K)) (x : Nat → K) (hn : SdNames nm) (hik : IsKey input) (h1 : input ≠ nm)
    (h2 : input ≠ nm ++ "_data")
    (habs : ∀ c ∈ cs, dlookup nm c.inds = none ∧ dlookup nm c.subs = none ∧
      dlookup (nm ++ "_data") c.inds = none ∧ dlookup (nm ++ "_data") c.subs = none)
    (hin : LateCol cs input t0 x) : EngineReturns (mkTop (.stdev (p : Int) input : Kind K) nm n) cs :=
  (stdev_no_gaps_inputs p hp nm input n t0 cs x hn hik h1 h2 habs hin).returns

/-- **BBANDS over a late-starting input**: all three bands `None` exactly below `t0 + p` -/
theorem bbands_no_gaps_inputs [NonnegSqrt K] (p : Nat) (hp : 2 ≤ p) (nm input : String) (n t0 : Nat)
    (cs : List (Candle K)) (x : Nat → K) (hk : IsKey nm) (hn : BbNames nm) (hi : BbInput nm input)
    (habs : ∀ c ∈ cs, BbAbsent nm c) (hin : LateCol cs input t0 x) :
    EngineAlways (mkTop (.bbands (p : Int) input : Kind K) nm n) cs (NoGaps3 nm "BBL" "BBM" "BBU" (t0 + p)) := by
  obtain ⟨out, hrun, hlen, hall⟩ := c05_bbands K p nm input n t0 cs x hp hk hn hi habs hin.col hin.none
  have key : ∀ j, j < cs.length →
      FltFrom (t0 + p) j (fieldOf nm "BBL" (out.getD j default)) ∧
      FltFrom (t0 + p) j (fieldOf nm "BBM" (out.getD j default)) ∧
      FltFrom (t0 + p) j (fieldOf nm "BBU" (out.getD j default)) := by
    intro j hj
    unfold fieldOf
    by_cases ht : j < t0
    · rw [(hall j hj).1 ht]
      exact ⟨⟨fun _ => rfl, fun h' => absurd h' (by omega)⟩, ⟨fun _ => rfl, fun h' => absurd h' (by omega)⟩,
        ⟨fun _ => rfl, fun h' => absurd h' (by omega)⟩⟩
    · have ho := (hall j hj).2 (by omega)
      unfold bbSeries at ho
      by_cases h : j - t0 < p
      · rw [if_pos h] at ho
        have ho' : readingByCandle (out.getD j default) nm = bbNoneDict := ho
        rw [ho']
        exact ⟨⟨fun _ => rfl, fun h' => absurd h' (by omega)⟩, ⟨fun _ => rfl, fun h' => absurd h' (by omega)⟩,
          ⟨fun _ => rfl, fun h' => absurd h' (by omega)⟩⟩
      · rw [if_neg h] at ho
        obtain ⟨lo, mid, up, hd, _⟩ := ho
        rw [hd]
        obtain ⟨e1, e2, e3⟩ := bbDict_nested lo mid up
        rw [e1, e2, e3]
        exact ⟨⟨fun h' => absurd h' (by omega), fun _ => ⟨_, rfl⟩⟩, ⟨fun h' => absurd h' (by omega), fun _ => ⟨_, rfl⟩⟩,
          ⟨fun h' => absurd h' (by omega), fun _ => ⟨_, rfl⟩⟩⟩
  exact ⟨out, hrun, noGapsFlt_of _ _ _ _ hlen fun j hj => (key j hj).1,
    noGapsFlt_of _ _ _ _ hlen fun j hj => (key j hj).2.1,
    noGapsFlt_of _ _ _ _ hlen fun j hj => (key j hj).2.2⟩

theorem bbands_never_raises_inputs [NonnegSqrt K] (p : Nat) (hp : 2 ≤ p) (nm input : String) (n t0 : Nat)
    (cs : List (Candle K)) (x : Nat → K) (hk : IsKey nm) (hn : BbNames nm) (hi : BbInput nm input)
    (habs : ∀ c ∈ cs, BbAbsent nm c) (hin : LateCol cs input t0 x) :
    EngineReturns (mkTop (.bbands (p : Int) input : Kind K) nm n) cs :=
  (bbands_no_gaps_inputs p hp nm input n t0 cs x hk hn hi habs hin).returns

/-- **STDEVTHRES over a late-starting input**: a Python bool on EVERY candle, `False` below `t0 + p` -/
theorem stdevthres_no_gaps_inputs (p : Nat) (hp : 1 ≤ p) (nm input : String) (mult : Num K) (n t0 : Nat)
    (cs : List (Candle K)) (x : Nat → K) (hk : IsKey nm) (hn : ThresNames nm) (hi : ThInput nm input)
    (habs : ∀ c ∈ cs, ThAbsent nm c) (hin : LateCol cs input t0 x) :
    EngineAlways (mkTop (.stdevthres (p : Int) input mult : Kind K) nm n) cs (BoolAlways nm (t0 + p)) := by
  obtain ⟨out, hrun, hlen, hall⟩ := c05_thres K p nm input mult n t0 cs x hp hk hn hi habs hin.col hin.none
  refine ⟨out, hrun, hlen, fun j hj => ?_⟩
  have hj' : j < cs.length := hlen ▸ hj
  unfold own
  by_cases ht : j < t0
  · exact ⟨false, (hall j hj').1 ht, fun _ => rfl⟩
  · obtain ⟨dv, _, hlo, hhi⟩ := (hall j hj').2 (by omega)
    by_cases h : j - t0 < p
    · exact ⟨false, hlo h, fun _ => rfl⟩
    · obtain ⟨ys, _, hth⟩ := hhi (by omega)
      exact ⟨_, hth, fun h' => absurd h' (by omega)⟩

theorem stdevthres_never_raises_inputs (p : Nat) (hp : 1 ≤ p) (nm input : String) (mult : Num K) (n t0 : Nat)
    (cs : List (Candle K)) (x : Nat → K) (hk : IsKey nm) (hn : ThresNames nm) (hi : ThInput nm input)
    (habs : ∀ c ∈ cs, ThAbsent nm c) (hin : LateCol cs input t0 x) :
    EngineReturns (mkTop (.stdevthres (p : Int) input mult : Kind K) nm n) cs :=
  (stdevthres_no_gaps_inputs p hp nm input mult n t0 cs x hk hn hi habs hin).returns

/-- **RSI over a late-starting input** (a candle field or another indicator's scalar reading): `None` exactly
below `t0 + p` -/
theorem rsi_no_gaps_inputs (p : Nat) (hp : 1 ≤ p) (nm input : String) (n t0 : Nat) (cs : List (Candle K))
    (x : Nat → K) (hk : IsKey nm) (hn : RsiNames nm) (hid : NoDot input) (h1 : input ≠ nm)
    (h2 : input ≠ nm ++ "_data")
    (habs : ∀ c ∈ cs, dlookup nm c.inds = none ∧ dlookup nm c.subs = none ∧
      dlookup (nm ++ "_data") c.inds = none ∧ dlookup (nm ++ "_data") c.subs = none)
    (hin : LateCol cs input t0 x) :
    EngineAlways (mkTop (.rsi (p : Int) input : Kind K) nm n) cs (NoGapsFlt (own nm) (t0 + p)) := by
  obtain ⟨out, hlen, hrun, hall⟩ := c06_chained_partial K p nm input n t0 cs x hp hk hn hid h1 h2 habs hin.col hin.none
  refine ⟨out, hrun, noGapsFlt_of _ _ _ _ hlen fun j hj => ?_⟩
  unfold own
  refine fltFrom_shift t0 p j _ (rsiSeries p x (j - t0)) (fun y e => |y - e| ≤ eps K n ∧ 0 ≤ y ∧ y ≤ 100) (hall j hj).1 (fun ht => ?_) (fun _ => ?_)
  · exact (hall j hj).2 ht
  · unfold rsiSeries; split_ifs <;> simp <;> omega

theorem rsi_never_raises_inputs (p : Nat) (hp : 1 ≤ p) (nm input : String) (n t0 : Nat) (cs : List (Candle K))
    (x : Nat → K) (hk : IsKey nm) (hn : RsiNames nm) (hid : NoDot input) (h1 : input ≠ nm)
    (h2 : input ≠ nm ++ "_data")
    (habs : ∀ c ∈ cs, dlookup nm c.inds = none ∧ dlookup nm c.subs = none ∧
      dlookup (nm ++ "_data") c.inds = none ∧ dlookup (nm ++ "_data") c.subs = none)
    (hin : LateCol cs input t0 x) : EngineReturns (mkTop (.rsi (p : Int) input : Kind K) nm n) cs :=
  (rsi_no_gaps_inputs p hp nm input n t0 cs x hk hn hid h1 h2 habs hin).returns

/-! ## HMA, MACD, STOCH, TSI -/

/-- a dotted field of an ordinary key is the field of its reading -/
theorem rbc_dotted_nested (nm f key : String) (hk : IsKey nm) (hdot : splitDot key = [nm, f]) (c : Candle K) :
    readingByCandle c key = (readingByCandle c nm).nested f := by
  rw [readingByCandle_key nm hk]
  unfold readingByCandle lookupKey
  rw [hdot]
  simp only
  cases h1 : dlookup nm c.inds with
  | some v => rfl
  | none =>
    cases h2 : dlookup nm c.subs with
    | some v => rfl
    | none => rfl

/-- **HMA over a late-starting input**: `None` exactly below `t0 + p + ⌊√p⌋ − 2` -/
theorem hma_no_gaps_inputs (p : Nat) (hp : 2 ≤ p) (nm input : String) (n t0 : Nat) (cs : List (Candle K))
    (x : Nat → K) (hn : HmaNames nm) (hi : hmaI_Input nm input) (habs : ∀ c ∈ cs, hmaI_Absent nm c)
    (hin : LateCol cs input t0 x) :
    EngineAlways (mkTop (.hma (p : Int) input : Kind K) nm n) cs (NoGapsFlt (own nm) (t0 + (p + Nat.sqrt p - 2))) := by
  obtain ⟨out, hrun, hlen, hall⟩ := c04_hma_inputs K p nm input n t0 cs x hp hn hi habs hin.col hin.none
  refine ⟨out, hrun, noGapsFlt_of _ _ _ _ hlen fun j hj => ?_⟩
  unfold own
  obtain ⟨_, _, h1, h2⟩ := hall j hj
  refine fltFrom_shift t0 _ j _ (hmaSeries p x (j - t0)) (fun y e => |y - e| ≤ eps K n + 4 * eps K defaultRound)
    (fun ht => (h1 ht).1) (fun ht => (h2 ht).own_ok) (fun _ => ?_)
  unfold hmaSeries hmaT0; split_ifs <;> simp <;> omega

theorem hma_never_raises_inputs (p : Nat) (hp : 2 ≤ p) (nm input : String) (n t0 : Nat) (cs : List (Candle K))
    (x : Nat → K) (hn : HmaNames nm) (hi : hmaI_Input nm input) (habs : ∀ c ∈ cs, hmaI_Absent nm c)
    (hin : LateCol cs input t0 x) : EngineReturns (mkTop (.hma (p : Int) input : Kind K) nm n) cs :=
  (hma_no_gaps_inputs p hp nm input n t0 cs x hn hi habs hin).returns

/-- **MACD over a late-starting input**: `MACD` from `t0 + slow − 1`, `signal` / `histogram` from
`t0 + slow + signal − 2` -/
theorem macd_no_gaps_inputs (pf ps pg : Nat) (hf : 2 ≤ pf) (hfs : pf ≤ ps) (hg : 1 ≤ pg) (nm input : String)
    (n t0 : Nat) (cs : List (Candle K)) (x : Nat → K) (hn : MacdNames nm) (hi : macdI_Input nm input)
    (habs : ∀ c ∈ cs, macdI_Absent nm c) (hin : LateCol cs input t0 x) :
    EngineAlways (mkTop (.macd (pf : Int) (ps : Int) (pg : Int) input : Kind K) nm n) cs
      (NoGapsW3 nm "MACD" "signal" "histogram" (t0 + (ps - 1)) (t0 + (ps + pg - 2)) (t0 + (ps + pg - 2))) := by
  obtain ⟨out, hrun, hlen, hall⟩ := c06_macd_inputs K pf ps pg nm input n t0 cs x hf hfs hg hn hi habs hin.col hin.none
  have key : ∀ j, j < cs.length →
      FltFrom (t0 + (ps - 1)) j (fieldOf nm "MACD" (out.getD j default)) ∧
      FltFrom (t0 + (ps + pg - 2)) j (fieldOf nm "signal" (out.getD j default)) ∧
      FltFrom (t0 + (ps + pg - 2)) j (fieldOf nm "histogram" (out.getD j default)) := by
    intro j hj
    unfold fieldOf
    obtain ⟨_, h1, h2⟩ := hall j hj
    have e1 := rbc_dotted_nested nm "MACD" (nm ++ ".MACD") hn.kN (splitDot_macd nm hn.kN.noDot) (out.getD j default)
    have e2 := rbc_dotted_nested nm "signal" (nm ++ ".signal") hn.kN (splitDot_signal nm hn.kN.noDot)
      (out.getD j default)
    have e3 := rbc_dotted_nested nm "histogram" (nm ++ ".histogram") hn.kN (splitDot_histogram nm hn.kN.noDot)
      (out.getD j default)
    have m1 : t0 ≤ j → MacdFieldOK _ (macdLine pf ps x (j - t0))
        ((readingByCandle (out.getD j default) nm).nested "MACD") := fun ht => by
      rw [← e1]; exact (h2 ht).2.2.2.2.1
    have m2 : t0 ≤ j → MacdFieldOK _ (signalLine pf ps pg x (j - t0))
        ((readingByCandle (out.getD j default) nm).nested "signal") := fun ht => by
      rw [← e2]; exact (h2 ht).2.2.2.2.2.1
    have m3 : t0 ≤ j → MacdFieldOK _ (histLine pf ps pg x (j - t0))
        ((readingByCandle (out.getD j default) nm).nested "histogram") := fun ht => by
      rw [← e3]; exact (h2 ht).2.2.2.2.2.2.1
    refine ⟨fltFrom_shiftM t0 _ j _ _ _ (fun ht => ?_) m1 (fun _ => ?_),
      fltFrom_shiftM t0 _ j _ _ _ (fun ht => ?_) m2 (fun _ => ?_),
      fltFrom_shiftM t0 _ j _ _ _ (fun ht => ?_) m3 (fun _ => ?_)⟩
    · rw [(h1 ht).2.2.2.2]; rfl
    · unfold macdLine; split_ifs <;> simp <;> omega
    · rw [(h1 ht).2.2.2.2]; rfl
    · unfold signalLine; split_ifs <;> simp <;> omega
    · rw [(h1 ht).2.2.2.2]; rfl
    · unfold histLine; split_ifs <;> simp <;> omega
  exact ⟨out, hrun, noGapsFlt_of _ _ _ _ hlen fun j hj => (key j hj).1,
    noGapsFlt_of _ _ _ _ hlen fun j hj => (key j hj).2.1,
    noGapsFlt_of _ _ _ _ hlen fun j hj => (key j hj).2.2⟩

theorem macd_never_raises_inputs (pf ps pg : Nat) (hf : 2 ≤ pf) (hfs : pf ≤ ps) (hg : 1 ≤ pg) (nm input : String)
    (n t0 : Nat) (cs : List (Candle K)) (x : Nat → K) (hn : MacdNames nm) (hi : macdI_Input nm input)
    (habs : ∀ c ∈ cs, macdI_Absent nm c) (hin : LateCol cs input t0 x) :
    EngineReturns (mkTop (.macd (pf : Int) (ps : Int) (pg : Int) input : Kind K) nm n) cs :=
  (macd_no_gaps_inputs pf ps pg hf hfs hg nm input n t0 cs x hn hi habs hin).returns

/-- **STOCH over a late-starting input** (constructor order `.stoch period slow smoothK input`): `stoch` from
`t0 + p − 1`, `k` from `t0 + p + smoothK − 2`, `d` from `t0 + p + smoothK + slow − 3` -/
theorem stoch_no_gaps_inputs (p sk sl : Nat) (hp : 2 ≤ p) (hsk : 1 ≤ sk) (hsl : 1 ≤ sl) (nm input : String)
    (n t0 : Nat) (cs : List (Candle K)) (x : Nat → K) (hn : StochNames nm) (hi : StochIInput nm input)
    (habs : ∀ c ∈ cs, StochIAbsent nm c) (hin : LateCol cs input t0 x) :
    EngineAlways (mkTop (.stoch (p : Int) (sl : Int) (sk : Int) input : Kind K) nm n) cs
      (NoGapsW3 nm "stoch" "k" "d" (t0 + p - 1) (t0 + p + sk - 2) (t0 + p + sk + sl - 3)) := by
  obtain ⟨out, hrun, hlen, hall⟩ := c06_stoch_inputs K p sk sl nm input n t0 cs x hp hsk hsl hn hi habs hin.col hin.none
  have key : ∀ j, j < cs.length →
      FltFrom (t0 + p - 1) j (fieldOf nm "stoch" (out.getD j default)) ∧
      FltFrom (t0 + p + sk - 2) j (fieldOf nm "k" (out.getD j default)) ∧
      FltFrom (t0 + p + sk + sl - 3) j (fieldOf nm "d" (out.getD j default)) := by
    intro j hj
    unfold fieldOf
    have h := (hall j hj).1
    refine ⟨fltFrom_of_within _ _ _ _ _ h.own_stoch ?_, fltFrom_of_within _ _ _ _ _ h.own_k_ok ?_,
      fltFrom_of_within _ _ _ _ _ h.own_d_ok ?_⟩
    · unfold stochI_Series; split_ifs <;> simp <;> omega
    · unfold stochI_KSeries stochTK; split_ifs <;> simp <;> omega
    · unfold stochI_DSeries stochTD; split_ifs <;> simp <;> omega
  exact ⟨out, hrun, noGapsFlt_of _ _ _ _ hlen fun j hj => (key j hj).1,
    noGapsFlt_of _ _ _ _ hlen fun j hj => (key j hj).2.1,
    noGapsFlt_of _ _ _ _ hlen fun j hj => (key j hj).2.2⟩

theorem stoch_never_raises_inputs (p sk sl : Nat) (hp : 2 ≤ p) (hsk : 1 ≤ sk) (hsl : 1 ≤ sl) (nm input : String)
    (n t0 : Nat) (cs : List (Candle K)) (x : Nat → K) (hn : StochNames nm) (hi : StochIInput nm input)
    (habs : ∀ c ∈ cs, StochIAbsent nm c) (hin : LateCol cs input t0 x) :
    EngineReturns (mkTop (.stoch (p : Int) (sl : Int) (sk : Int) input : Kind K) nm n) cs :=
  (stoch_no_gaps_inputs p sk sl hp hsk hsl nm input n t0 cs x hn hi habs hin).returns

/-- **TSI over a late-starting input**: `None` exactly below `t0 + p + smooth − 1` -/
theorem tsi_no_gaps_inputs (p s : Nat) (hp : 1 ≤ p) (hs : 1 ≤ s) (nm input : String) (n t0 : Nat)
    (cs : List (Candle K)) (x : Nat → K) (hn : TsiNames nm) (hi : TsiIInput nm input)
    (habs : ∀ c ∈ cs, TsiIAbsent nm c) (hin : LateCol cs input t0 x) :
    EngineAlways (mkTop (.tsi (p : Int) (s : Int) input : Kind K) nm n) cs
      (NoGapsFlt (own nm) (t0 + (p + s - 1))) := by
  obtain ⟨out, hrun, hlen, hall⟩ := c06_tsi_inputs K p s nm input n t0 cs x hp hs hn hi habs hin.col hin.none
  refine ⟨out, hrun, noGapsFlt_of _ _ _ _ hlen fun j hj => ?_⟩
  unfold own
  obtain ⟨_, h1, h2⟩ := hall j hj
  by_cases ht : j < t0
  · exact ⟨fun _ => (h1 ht).own, fun h => absurd h (by omega)⟩
  · obtain ⟨_, _, _, _, _, _, _, _, _, htsi, _⟩ := h2 (by omega)
    exact ⟨fun h => htsi.1 (by omega), fun h => (htsi.2 (by omega)).elim fun y hy => ⟨y, hy.1⟩⟩

theorem tsi_never_raises_inputs (p s : Nat) (hp : 1 ≤ p) (hs : 1 ≤ s) (nm input : String) (n t0 : Nat)
    (cs : List (Candle K)) (x : Nat → K) (hn : TsiNames nm) (hi : TsiIInput nm input)
    (habs : ∀ c ∈ cs, TsiIAbsent nm c) (hin : LateCol cs input t0 x) :
    EngineReturns (mkTop (.tsi (p : Int) (s : Int) input : Kind K) nm n) cs :=
  (tsi_no_gaps_inputs p s hp hs nm input n t0 cs x hn hi habs hin).returns

/-! ## KC, Supertrend, ADX (ATR part over the candle fields: from candle 0, not shifted) -/

/-- **KC over a late-starting input**: the three bands from `max (t0 + p − 1) p` on (the EMA of the input starts at
`t0 + p − 1`, the ATR of the candle fields at `p`) -/
theorem kc_no_gaps_inputs (p : Nat) (hp : 2 ≤ p) (nm input : String) (mult : Num K) (n t0 : Nat)
    (cs : List (Candle K)) (x : Nat → K) (hk : IsKey nm) (hn : KcNames nm) (hi : kcI_Input nm input)
    (habs : ∀ c ∈ cs, kcI_Absent nm c) (hin : LateCol cs input t0 x) :
    EngineAlways (mkTop (.kc (p : Int) input mult : Kind K) nm n) cs
      (NoGaps3 nm "lower" "band" "upper" (max (t0 + p - 1) p)) := by
  obtain ⟨out, hrun, hlen, hall⟩ := c05_kc_inputs K p nm input mult n t0 cs x hp hk hn hi habs hin.col hin.none
  have key : ∀ j, j < cs.length →
      FltFrom (max (t0 + p - 1) p) j (fieldOf nm "lower" (out.getD j default)) ∧
      FltFrom (max (t0 + p - 1) p) j (fieldOf nm "band" (out.getD j default)) ∧
      FltFrom (max (t0 + p - 1) p) j (fieldOf nm "upper" (out.getD j default)) := by
    intro j hj
    unfold fieldOf
    obtain ⟨_, _, _, _, _, _, _, _, ho, _⟩ := hall j hj
    unfold kcI_Series at ho
    by_cases h : j < max (t0 + p - 1) p
    · rw [if_pos h] at ho
      have ho' : readingByCandle (out.getD j default) nm = kcNoneDict := ho
      rw [ho']
      exact ⟨⟨fun _ => rfl, fun h' => absurd h (by omega)⟩, ⟨fun _ => rfl, fun h' => absurd h (by omega)⟩,
        ⟨fun _ => rfl, fun h' => absurd h (by omega)⟩⟩
    · rw [if_neg h] at ho
      obtain ⟨l, b, u, hd, _⟩ := ho
      rw [hd]
      exact ⟨⟨fun h' => absurd h' h, fun _ => ⟨l, by simp [Val.nested, dlookup]⟩⟩,
        ⟨fun h' => absurd h' h, fun _ => ⟨b, by simp [Val.nested, dlookup]⟩⟩,
        ⟨fun h' => absurd h' h, fun _ => ⟨u, by simp [Val.nested, dlookup]⟩⟩⟩
  exact ⟨out, hrun, noGapsFlt_of _ _ _ _ hlen fun j hj => (key j hj).1,
    noGapsFlt_of _ _ _ _ hlen fun j hj => (key j hj).2.1,
    noGapsFlt_of _ _ _ _ hlen fun j hj => (key j hj).2.2⟩

theorem kc_never_raises_inputs (p : Nat) (hp : 2 ≤ p) (nm input : String) (mult : Num K) (n t0 : Nat)
    (cs : List (Candle K)) (x : Nat → K) (hk : IsKey nm) (hn : KcNames nm) (hi : kcI_Input nm input)
    (habs : ∀ c ∈ cs, kcI_Absent nm c) (hin : LateCol cs input t0 x) :
    EngineReturns (mkTop (.kc (p : Int) input mult : Kind K) nm n) cs :=
  (kc_no_gaps_inputs p hp nm input mult n t0 cs x hk hn hi habs hin).returns

/-- **Supertrend over EVERY candle list** (it reads NO `input`: whatever the `input` column holds, the readings are
those of the candle fields): `trend` from `p`, `direction` on every candle, exactly one of `long` / `short` from `p` -/
theorem supertrend_no_gaps_inputs (p : Nat) (hp : 1 ≤ p) (nm input : String) (mult : Num K) (n : Nat)
    (cs : List (Candle K)) (hk : IsKey nm) (hn : StNames nm) (habs : ∀ c ∈ cs, stI_Absent nm c) :
    EngineAlways (mkTop (.supertrend (p : Int) input mult : Kind K) nm n) cs (StNoGaps nm p) := by
  obtain ⟨out, hrun, hl, hall⟩ := c05_supertrend_inputs K p nm input mult n cs hp hk hn habs
  have key : ∀ j, j < cs.length →
      (j < p → readingByCandle (out.getD j default) nm = stNoneDict) ∧
      (p ≤ j → ∃ U L : Num K,
        readingByCandle (out.getD j default) nm
          = .dict [("trend", .num L), ("direction", .num (.int 1)), ("long", .num L), ("short", .none)] ∨
        readingByCandle (out.getD j default) nm
          = .dict [("trend", .num U), ("direction", .num (.int (-1))), ("long", .none), ("short", .num U)]) := by
    intro j hj
    obtain ⟨_, _, _, _, ho, _⟩ := hall j hj
    refine ⟨fun h => ?_, fun h => ?_⟩
    · rw [stSeries_none p mult.toF cs j h] at ho
      exact ho
    · obtain ⟨s, hs⟩ := stSeries_isSome p mult.toF cs j h
      rw [hs] at ho
      obtain ⟨U, L, _, _, hc⟩ := StOwnOK.fields (stSeries_dir p mult.toF cs j s hs) ho
      exact ⟨U, L, hc.imp (fun h => h.2) (fun h => h.2)⟩
  refine ⟨out, hrun, noGaps_of _ _ _ _ hl fun j hj => ?_, noGaps_of _ _ _ _ hl fun j hj => ?_, fun j hj => ?_⟩
  · unfold fieldOf
    refine ⟨fun h => ?_, fun h => ?_⟩
    · rw [(key j hj).1 h]; rfl
    · obtain ⟨U, L, hc | hc⟩ := (key j hj).2 h
      · rw [hc]; exact ⟨L, by simp [Val.nested, dlookup]⟩
      · rw [hc]; exact ⟨U, by simp [Val.nested, dlookup]⟩
  · unfold fieldOf
    refine ⟨fun h => absurd h (by omega), fun _ => ?_⟩
    by_cases h : j < p
    · rw [(key j hj).1 h]; exact ⟨.int 1, by simp [stNoneDict, Val.nested, dlookup]⟩
    · obtain ⟨U, L, hc | hc⟩ := (key j hj).2 (by omega)
      · rw [hc]; exact ⟨.int 1, by simp [Val.nested, dlookup]⟩
      · rw [hc]; exact ⟨.int (-1), by simp [Val.nested, dlookup]⟩
  · have hj' : j < cs.length := hl ▸ hj
    unfold fieldOf
    refine ⟨fun h => ?_, fun h => ?_⟩
    · rw [(key j hj').1 h]; exact ⟨by simp [stNoneDict, Val.nested, dlookup], by simp [stNoneDict, Val.nested, dlookup]⟩
    · obtain ⟨U, L, hc | hc⟩ := (key j hj').2 h
      · rw [hc]; exact Or.inl ⟨⟨L, by simp [Val.nested, dlookup]⟩, by simp [Val.nested, dlookup]⟩
      · rw [hc]; exact Or.inr ⟨⟨U, by simp [Val.nested, dlookup]⟩, by simp [Val.nested, dlookup]⟩

theorem supertrend_never_raises_inputs (p : Nat) (hp : 1 ≤ p) (nm input : String) (mult : Num K) (n : Nat)
    (cs : List (Candle K)) (hk : IsKey nm) (hn : StNames nm) (habs : ∀ c ∈ cs, stI_Absent nm c) :
    EngineReturns (mkTop (.supertrend (p : Int) input mult : Kind K) nm n) cs :=
  (supertrend_no_gaps_inputs p hp nm input mult n cs hk hn habs).returns

/-- **ADX over EVERY candle list** (candle fields only; the seven names of the tree absent): `ADX` from
`p + signal − 1`, `DM_Plus` / `DM_Neg` from `p` -/
theorem adx_no_gaps_inputs (p sg : Nat) (hp : 1 ≤ p) (hg : 1 ≤ sg) (nm : String) (n : Nat) (cs : List (Candle K))
    (hn : AdxNames nm)
    (habs : ∀ c ∈ cs, ∀ k ∈ adxI_names nm, dlookup k c.inds = none ∧ dlookup k c.subs = none) :
    EngineAlways (mkTop (.adx (p : Int) (sg : Int) : Kind K) nm n) cs
      (NoGapsW3 nm "ADX" "DM_Plus" "DM_Neg" (p + sg - 1) p p) := by
  obtain ⟨out, hrun, hlen, hall⟩ := c06_adx_inputs_readings p sg nm n cs hp hg hn habs
  have key : ∀ j, j < cs.length →
      FltFrom (p + sg - 1) j (fieldOf nm "ADX" (out.getD j default)) ∧
      FltFrom p j (fieldOf nm "DM_Plus" (out.getD j default)) ∧
      FltFrom p j (fieldOf nm "DM_Neg" (out.getD j default)) := by
    intro j hj
    unfold fieldOf
    obtain ⟨_, _, _, _, _, _, _, _, _, _, _, hown, _⟩ := hall j hj
    rw [hown]
    exact ⟨fltFrom_of_ite _ _ _ _ _ (adxOwn_ADX n p sg cs hg j) (by omega),
      fltFrom_of_ite _ _ _ _ _ (adxOwn_plus n p sg cs j) Iff.rfl,
      fltFrom_of_ite _ _ _ _ _ (adxOwn_minus n p sg cs j) Iff.rfl⟩
  exact ⟨out, hrun, noGapsFlt_of _ _ _ _ hlen fun j hj => (key j hj).1,
    noGapsFlt_of _ _ _ _ hlen fun j hj => (key j hj).2.1,
    noGapsFlt_of _ _ _ _ hlen fun j hj => (key j hj).2.2⟩

theorem adx_never_raises_inputs (p sg : Nat) (hp : 1 ≤ p) (hg : 1 ≤ sg) (nm : String) (n : Nat) (cs : List (Candle K))
    (hn : AdxNames nm)
    (habs : ∀ c ∈ cs, ∀ k ∈ adxI_names nm, dlookup k c.inds = none ∧ dlookup k c.subs = none) :
    EngineReturns (mkTop (.adx (p : Int) (sg : Int) : Kind K) nm n) cs :=
  (adx_no_gaps_inputs p sg hp hg nm n cs hn habs).returns

/-! ## non-vacuity: `demoForeign` (five candles over ℚ holding `"EMA_2"` = `None, None, 12, 14, 15`, a dict-valued
`"MACD"` and a helper entry `"X_data"`; `t0 = 2`) -/

theorem demoLate : LateCol demoForeign "EMA_2" 2 demoX := ⟨demoForeign_in, demoForeign_none⟩

example : EngineAlways (mkTop (.sma ((2 : Nat) : Int) "EMA_2" : Kind ℚ) "SMA_2" 4) demoForeign
    (NoGapsFlt (own "SMA_2") 3) :=
  sma_no_gaps_inputs 2 (by norm_num) "SMA_2" "EMA_2" 4 2 demoForeign demoX (by decide) (by decide)
    (demoForeign_abs "SMA_2" (by decide) (by decide) (by decide)) demoLate
example : EngineAlways (mkTop (.ema ((2 : Nat) : Int) "EMA_2" (fl 2) : Kind ℚ) "EMA_2_EMA_2" 4) demoForeign
    (NoGapsFlt (own "EMA_2_EMA_2") 3) :=
  ema2_no_gaps_inputs 2 (by norm_num) "EMA_2_EMA_2" "EMA_2" 4 2 demoForeign demoX (by decide) (by decide)
    (demoForeign_abs "EMA_2_EMA_2" (by decide) (by decide) (by decide)) demoLate
/-- ROC 1: the inputs `12, 14, 15` are non-zero -/
example : EngineAlways (mkTop (.roc ((1 : Nat) : Int) "EMA_2" : Kind ℚ) "ROC_1" 4) demoForeign
    (NoGapsFlt (own "ROC_1") 3) :=
  roc_no_gaps_inputs 1 (by norm_num) "ROC_1" "EMA_2" 4 2 demoForeign demoX (by decide) (by decide)
    (demoForeign_abs "ROC_1" (by decide) (by decide) (by decide)) demoLate
    (fun k hk => by
      have : k < 3 := by simp [demoForeign] at hk; omega
      interval_cases k <;> simp [demoX])
example : EngineAlways (mkTop (.rsi ((1 : Nat) : Int) "EMA_2" : Kind ℚ) "RSI_1" 4) demoForeign
    (NoGapsFlt (own "RSI_1") 3) :=
  rsi_no_gaps_inputs 1 (by norm_num) "RSI_1" "EMA_2" 4 2 demoForeign demoX (by decide) rsiNames_demo1
    (by decide) (by decide) (by decide)
    (fun c hc => by
      have h1 := demoForeign_abs "RSI_1" (by decide) (by decide) (by decide) c hc
      have h2 := demoForeign_abs "RSI_1_data" (by decide) (by decide) (by decide) c hc
      exact ⟨h1.1, h1.2, h2.1, h2.2⟩) demoLate
example : EngineAlways (mkTop (.bbands ((2 : Nat) : Int) "EMA_2" : Kind ℚ) "BB_2" 4) demoForeign
    (NoGaps3 "BB_2" "BBL" "BBM" "BBU" 4) :=
  bbands_no_gaps_inputs 2 (by norm_num) "BB_2" "EMA_2" 4 2 demoForeign demoX (by decide) bbNames_demo2
    ⟨by decide, by decide, by decide, by decide, by decide⟩
    (fun c hc => ⟨demoForeign_abs "BB_2" (by decide) (by decide) (by decide) c hc,
        demoForeign_abs "BB_2_STDEV" (by decide) (by decide) (by decide) c hc,
        demoForeign_abs "BB_2_STDEV_data" (by decide) (by decide) (by decide) c hc,
        demoForeign_abs "BB_2_SMA" (by decide) (by decide) (by decide) c hc⟩) demoLate
example : EngineAlways (mkTop (.stdevthres ((2 : Nat) : Int) "EMA_2" (fl 1) : Kind ℚ) "TH_2" 4) demoForeign
    (BoolAlways "TH_2" 4) :=
  stdevthres_no_gaps_inputs 2 (by norm_num) "TH_2" "EMA_2" (fl 1) 4 2 demoForeign demoX (by decide) thresNames_demo2
    ⟨by decide, by decide, by decide, by decide⟩
    (fun c hc => ⟨demoForeign_abs "TH_2" (by decide) (by decide) (by decide) c hc,
        demoForeign_abs "TH_2_stdev" (by decide) (by decide) (by decide) c hc,
        demoForeign_abs "TH_2_stdev_data" (by decide) (by decide) (by decide) c hc⟩) demoLate
example : EngineAlways (mkTop (.hma ((2 : Nat) : Int) "EMA_2" : Kind ℚ) "HMA_2" 4) demoForeign
    (NoGapsFlt (own "HMA_2") (2 + (2 + Nat.sqrt 2 - 2))) :=
  hma_no_gaps_inputs 2 (by norm_num) "HMA_2" "EMA_2" 4 2 demoForeign demoX hmaI_names_demo hmaI_input_demo
    hmaI_absent_demo demoLate
example : EngineAlways (mkTop (.macd ((2 : Nat) : Int) ((3 : Nat) : Int) ((1 : Nat) : Int) "EMA_2" : Kind ℚ)
      "MACD_2_3_1" 4) demoForeign (NoGapsW3 "MACD_2_3_1" "MACD" "signal" "histogram" 4 4 4) :=
  macd_no_gaps_inputs 2 3 1 (by norm_num) (by norm_num) (by norm_num) "MACD_2_3_1" "EMA_2" 4 2 demoForeign demoX
    macdI_names_demo (macdI_Input.of_key (by decide) (by decide) (by decide)) macdI_demo_abs demoLate
example : EngineAlways (mkTop (.stoch ((2 : Nat) : Int) ((1 : Nat) : Int) ((1 : Nat) : Int) "EMA_2" : Kind ℚ)
      "STOCH_2" 4) demoForeign (NoGapsW3 "STOCH_2" "stoch" "k" "d" 3 3 3) :=
  stoch_no_gaps_inputs 2 1 1 (by norm_num) (by norm_num) (by norm_num) "STOCH_2" "EMA_2" 4 2 demoForeign demoX
    stochI_names_demo stochI_input_demo stochI_abs_demo demoLate
example : EngineAlways (mkTop (.tsi ((1 : Nat) : Int) ((1 : Nat) : Int) "EMA_2" : Kind ℚ) "TSI_1_1" 4) demoForeign
    (NoGapsFlt (own "TSI_1_1") 3) :=
  tsi_no_gaps_inputs 1 1 (by norm_num) (by norm_num) "TSI_1_1" "EMA_2" 4 2 demoForeign demoX tsiI_names_demo11
    tsiIInput_demo11 tsiIAbsent_demo11 demoLate
example : EngineAlways (mkTop (.kc ((2 : Nat) : Int) "EMA_2" (fl 2) : Kind ℚ) "KC_2" 4) demoForeign
    (NoGaps3 "KC_2" "lower" "band" "upper" 3) :=
  kc_no_gaps_inputs 2 (by norm_num) "KC_2" "EMA_2" (fl 2) 4 2 demoForeign demoX (by decide) kcNames_demo
    kcI_demo_input kcI_demo_absent demoLate
example : EngineAlways (mkTop (.supertrend ((2 : Nat) : Int) "EMA_2" (.int 3) : Kind ℚ) "ST_2" 4) demoForeign
    (StNoGaps "ST_2" 2) :=
  supertrend_no_gaps_inputs 2 (by norm_num) "ST_2" "EMA_2" (.int 3) 4 demoForeign (by decide) stNames_demo stI_demo_abs
example : EngineAlways (mkTop (.adx ((1 : Nat) : Int) ((1 : Nat) : Int) : Kind ℚ) "ADX_1_1" 4) demoForeign
    (NoGapsW3 "ADX_1_1" "ADX" "DM_Plus" "DM_Neg" 1 1 1) :=
  adx_no_gaps_inputs 1 1 (by norm_num) (by norm_num) "ADX_1_1" 4 demoForeign adxI_names_demo adxI_demo_abs

/-! the toy carrier `Int`: the runs return, with `None` exactly below `t0 +` warm-up (`decide`) -/

def toyForeign : List (Candle Int) :=
  [{ o := .int 10, h := .int 12, l := .int 9, c := .int 11, v := .int 100 },
   { o := .int 11, h := .int 13, l := .int 10, c := .int 12, v := .int 200, inds := [("EMA_2", .none)] },
   { o := .int 12, h := .int 15, l := .int 11, c := .int 14, v := .int 300, inds := [("EMA_2", .int 12)] },
   { o := .int 14, h := .int 16, l := .int 13, c := .int 15, v := .int 0, inds := [("EMA_2", .int 14)] },
   { o := .int 15, h := .int 15, l := .int 15, c := .int 15, v := .int 0, inds := [("EMA_2", .int 15)] }]

/-- SMA 2, ROC 1, RSI 1 over the foreign column `"EMA_2"` (`t0 = 2`): first reading on candle 3 -/
example : (engineCalc (mkTop (.sma 2 "EMA_2") "SMA_2" 4) toyForeign).toOption.map
    (fun l => l.map fun c => (readingByCandle c "SMA_2").isNone) = some [true, true, true, false, false] := by
  decide +kernel
example : (engineCalc (mkTop (.roc 1 "EMA_2") "ROC_1" 4) toyForeign).toOption.map
    (fun l => l.map fun c => (readingByCandle c "ROC_1").isNone) = some [true, true, true, false, false] := by
  decide +kernel
example : (engineCalc (mkTop (.rsi 1 "EMA_2") "RSI_1" 4) toyForeign).toOption.map
    (fun l => l.map fun c => (readingByCandle c "RSI_1").isNone) = some [true, true, true, false, false] := by
  decide +kernel
/-- … and ROC over a column that reaches `0` RAISES (`ZeroDivisionError`): the hypothesis `hnz` cannot be dropped -/
example : (engineCalc (mkTop (.roc 1 "EMA_2") "ROC_1" 4)
    ([{ o := .int 10, h := .int 12, l := .int 9, c := .int 11, v := .int 100, inds := [("EMA_2", .int 0)] },
      { o := .int 11, h := .int 13, l := .int 10, c := .int 12, v := .int 200, inds := [("EMA_2", .int 5)] }]
      : List (Candle Int))).toOption.isNone = true := by decide +kernel

end Numeric
end Hex

#print axioms Hex.Numeric.sma_no_gaps_inputs
#print axioms Hex.Numeric.ema_no_gaps_inputs
#print axioms Hex.Numeric.rma_no_gaps_inputs
#print axioms Hex.Numeric.wma_no_gaps_inputs
#print axioms Hex.Numeric.roc_no_gaps_inputs
#print axioms Hex.Numeric.vwma_no_gaps_inputs
#print axioms Hex.Numeric.stdev_no_gaps_inputs
#print axioms Hex.Numeric.bbands_no_gaps_inputs
#print axioms Hex.Numeric.stdevthres_no_gaps_inputs
#print axioms Hex.Numeric.rsi_no_gaps_inputs
#print axioms Hex.Numeric.hma_no_gaps_inputs
#print axioms Hex.Numeric.macd_no_gaps_inputs
#print axioms Hex.Numeric.stoch_no_gaps_inputs
#print axioms Hex.Numeric.tsi_no_gaps_inputs
#print axioms Hex.Numeric.kc_no_gaps_inputs
#print axioms Hex.Numeric.supertrend_no_gaps_inputs
#print axioms Hex.Numeric.adx_no_gaps_inputs

import HexProofs.Numeric.SeriesInputsBB
import HexProofs.Numeric.SeriesHMA
/-!
# HMA over candle lists with foreign readings and a late-starting input (the HMA item of `C04_FULL`)

`HexProofs/Numeric/SeriesHMA.lean` proves the whole HMA series over RAW candles, input a candle field,
through the row-major spec.  Here the candle list is ARBITRARY – it may hold any readings under any
other names; only the five names of the HMA tree are absent – and the input is ANY reading name that
does not see those five names (`hmaI_Input`), `None` on the first `t0` candles and numeric afterwards.

`engineCalc_hma` (HexProofs/Framework/Gen/HMA.lean) splits `calculate()` – for EVERY candle list – into
the two prior WMA helpers' column passes and the node's own loop, whose step stores the raw Hull value
through `Managed.set_reading` (which runs the smoothing WMA `name_HMAs` at that index) and reads the
smoothed reading back.  Each pass is one of the series inductions of this directory, run over the
OUTPUT of the previous pass, which is just another candle list holding foreign readings:

1. `leafCalc_induct` + `hmaI_wma_col` (one WMA call on a late-starting column, EXACT value) for
   `name_WMA`, 2. the same for `name_WMAh`, 3. `node_induct` with the step `hmaI_val` (`hmaVal` of
   Gen/HMA.lean evaluated with every index shifted by `t0`).

Result (`hmaI_rows`): the engine never raises and candle `j` of the result is input candle `j`
carrying EXACTLY the row of `hma_series` at index `j − t0` of the inputs counted from `t0`
(`hmaOut … (hmaRow p x (j − t0))`), nothing on the first `t0` candles but `None` readings; every
other entry of every candle is untouched.  `c04_hma_inputs`: reading by reading, the statement `HmaOK`
of the raw theorem, shifted by `t0`.
-/
set_option linter.unusedSectionVars false
set_option linter.unusedSimpArgs false
set_option linter.unusedVariables false
namespace Hex
namespace Numeric

section generic
variable {F : Type} [PyF F]

/-- the reading name `input` sees no entry stored under `k`: it is neither `k` nor a dotted field of `k` -/
def hmaI_Unseen (k input : String) : Prop := k ≠ input ∧ ∀ fld, splitDot input ≠ [k, fld]

theorem hmaI_Unseen.indep {k input : String} (h : hmaI_Unseen k input) : Indep F k input :=
  fun isSub v c => readingByCandle_setKey_otherB isSub k input h.1 h.2 v c

theorem hmaI_unseen_key (k input : String) (hk : IsKey input) (hne : k ≠ input) : hmaI_Unseen k input :=
  ⟨hne, fun fld h => by rw [hk.noDot] at h; cases h⟩

end generic

variable {K : Type} [Field K] [LinearOrder K] [IsStrictOrderedRing K] [LawfulPyF K]

/-! ### one WMA call on a late-starting column, exact value -/

/-- shifting the input series shifts the weighted mean -/
theorem hmaI_wmaAt_shift (f : Nat → K) (q m t0 : Nat) :
    wmaAt (fun j => f (j - t0)) q m = wmaAt f q (m - t0) := by
  unfold wmaAt
  have e : ∀ k, m - k - t0 = m - t0 - k := fun k => by omega
  simp only [e]

/-- **one call of WMA over a column**, any context (the list may continue after the active index `m`):
the column `key` is `None` before `s0` and the numbers `g` from `s0` on; the own previous reading is
`None` while the window is not full.  The call returns `None` before `s0 + q − 1`, and the weighted
mean of the last `q` inputs from there on. -/
theorem hmaI_wma_col (x : Ctx K) (key : String) (m q s0 : Nat) (g : Nat → Num K)
    (hi : x.i = (m : Int)) (hlen : m < x.cs.length) (hq : 1 ≤ q)
    (hcol : ∀ j : Nat, j ≤ m →
      x.reading key (some (j : Int)) = .ok (if j < s0 then Val.none else .num (g j)))
    (pv : Val K) (hprev : x.prevReading x.name = .ok pv) (hpv : m + 1 < s0 + q → pv = .none) :
    Calc.wma x (q : Int) key
      = .ok (if m + 1 < s0 + q then Val.none else .flt (wmaAt (fun j => (g j).toF) q m)) := by
  have V : IView x key m s0 (fun k => g (k + s0)) :=
    { i_eq := hi
      len := hlen
      inp_none := fun j hj hjm => by rw [hcol j hjm, if_pos hj]
      inp_num := fun j hj hjm => by
        rw [hcol j hjm, if_neg (by omega), show j - s0 + s0 = j by omega] }
  have hper := V.period q hq
  by_cases h1 : m + 1 < s0 + q
  · rw [if_pos h1]
    have hrp : x.readingPeriod (q : Int) key = false := by rw [hper]; simp; omega
    rw [hpv h1] at hprev
    exact wma_none _ _ _ hprev hrp
  · rw [if_neg h1]
    have hrp : x.readingPeriod (q : Int) key = true := by rw [hper]; simp; omega
    have hw := wma_def x q key pv (fun k => g (m - k)) hprev (Or.inr hrp) hq (by
      intro k hk
      have e : x.i - (k : Int) = ((m - k : Nat) : Int) := by rw [hi]; omega
      rw [e, hcol _ (by omega), if_neg (by omega)])
    rw [hw]
    rfl

/-! ### the stored series, shifted by `t0` -/

/-- what a WMA helper of period `q` returns on candle `j` of a column that starts at `t0` -/
def hmaI_wv (q t0 : Nat) (X : Nat → K) (j : Nat) : Val K :=
  if j + 1 < t0 + q then .none else .flt (wmaAt X q (j - t0))

/-- the row of the HMA tree on candle `j`: nothing before `t0`, then the row of `hma_series` at the
index counted from `t0` -/
def hmaI_row (p t0 : Nat) (X : Nat → K) (j : Nat) : HmaRow K :=
  if j < t0 then ((.none, .none), (none, .none)) else hmaRow p X (j - t0)

theorem hmaI_row_W (p t0 : Nat) (hp : 1 ≤ p) (X : Nat → K) (j : Nat) :
    (hmaI_row p t0 X j).1.1 = hmaI_wv p t0 X j := by
  unfold hmaI_row hmaI_wv
  by_cases h : j < t0
  · rw [if_pos h, if_pos (by omega)]
  · rw [if_neg h]
    show hmaWV p X (j - t0) = _
    unfold hmaWV
    by_cases h2 : j + 1 < t0 + p
    · rw [if_pos h2, if_pos (by omega)]
    · rw [if_neg h2, if_neg (by omega)]

theorem hmaI_row_Wh (p t0 : Nat) (hp : 2 ≤ p) (X : Nat → K) (j : Nat) :
    (hmaI_row p t0 X j).1.2 = hmaI_wv (p / 2) t0 X j := by
  unfold hmaI_row hmaI_wv
  by_cases h : j < t0
  · rw [if_pos h, if_pos (by omega)]
  · rw [if_neg h]
    show hmaWhV p X (j - t0) = _
    unfold hmaWhV
    by_cases h2 : j + 1 < t0 + p / 2
    · rw [if_pos h2, if_pos (by omega)]
    · rw [if_neg h2, if_neg (by omega)]

theorem hmaI_row_Z_warm (p t0 : Nat) (X : Nat → K) (j : Nat) (h : j + 1 < t0 + p) :
    (hmaI_row p t0 X j).2 = (none, .none) := by
  unfold hmaI_row
  by_cases h0 : j < t0
  · rw [if_pos h0]
  · rw [if_neg h0]
    show hmaZ p X (j - t0) = _
    unfold hmaZ
    rw [if_pos (by omega)]

theorem hmaI_row_Z (p t0 : Nat) (X : Nat → K) (j : Nat) (h : ¬ j + 1 < t0 + p) (hp : 1 ≤ p) :
    (hmaI_row p t0 X j).2
      = (some (.flt (hmaRawS p X (j - t0)), hmaSV p X (j - t0)), hmaSV p X (j - t0)) := by
  unfold hmaI_row
  rw [if_neg (by omega)]
  show hmaZ p X (j - t0) = _
  unfold hmaZ
  rw [if_neg (by omega)]

/-! ### reading a finished HMA candle whose base candle holds foreign readings -/

/-- the five names of an HMA tree are absent from a candle -/
structure hmaI_Absent (nm : String) (c : Candle K) : Prop where
  aN : dlookup nm c.inds = none ∧ dlookup nm c.subs = none
  aW : dlookup (nm ++ "_WMA") c.inds = none ∧ dlookup (nm ++ "_WMA") c.subs = none
  aH : dlookup (nm ++ "_WMAh") c.inds = none ∧ dlookup (nm ++ "_WMAh") c.subs = none
  aR : dlookup (nm ++ "_HMAr") c.inds = none ∧ dlookup (nm ++ "_HMAr") c.subs = none
  aS : dlookup (nm ++ "_HMAs") c.inds = none ∧ dlookup (nm ++ "_HMAs") c.subs = none

/-- the input name of an HMA node sees none of the tree's five names (every ordinary key different
from them, every candle attribute, every dotted field of another indicator does) -/
structure hmaI_Input (nm input : String) : Prop where
  uN : hmaI_Unseen nm input
  uW : hmaI_Unseen (nm ++ "_WMA") input
  uH : hmaI_Unseen (nm ++ "_WMAh") input
  uR : hmaI_Unseen (nm ++ "_HMAr") input
  uS : hmaI_Unseen (nm ++ "_HMAs") input

/-- an ordinary key different from the five names is a legal input -/
theorem hmaI_input_key (nm input : String) (hk : IsKey input) (h0 : nm ≠ input) (h1 : nm ++ "_WMA" ≠ input)
    (h2 : nm ++ "_WMAh" ≠ input) (h3 : nm ++ "_HMAr" ≠ input) (h4 : nm ++ "_HMAs" ≠ input) :
    hmaI_Input nm input :=
  ⟨hmaI_unseen_key _ _ hk h0, hmaI_unseen_key _ _ hk h1, hmaI_unseen_key _ _ hk h2, hmaI_unseen_key _ _ hk h3,
    hmaI_unseen_key _ _ hk h4⟩

section cand
variable (nm : String) (n : Nat)

theorem hmaI_app_R (hn : HmaNames nm) (z : Option (Val K × Val K) × Val K) (d : Candle K)
    (hd : dlookup (nm ++ "_HMAr") d.inds = none ∧ dlookup (nm ++ "_HMAr") d.subs = none) :
    readingByCandle (hmaApp nm n z d) (nm ++ "_HMAr") = (match z.1 with | none => .none | some (a, _) => a) := by
  unfold hmaApp
  rw [indep_key _ _ hn.kR hn.nR]
  obtain ⟨dd, o⟩ := z
  cases dd with
  | none => exact readingByCandle_noKey _ hn.kR d (hasKey_absent _ d hd)
  | some ab =>
    obtain ⟨a, b⟩ := ab
    show readingByCandle (setKey true _ b (setKey true _ a d)) _ = a
    rw [indep_key _ _ hn.kR hn.RS.symm]
    exact rbc_data_self _ hn.kR _ hd.1 _

theorem hmaI_app_S (hn : HmaNames nm) (z : Option (Val K × Val K) × Val K) (d : Candle K)
    (hd : dlookup (nm ++ "_HMAs") d.inds = none ∧ dlookup (nm ++ "_HMAs") d.subs = none) :
    readingByCandle (hmaApp nm n z d) (nm ++ "_HMAs") = (match z.1 with | none => .none | some (_, b) => b) := by
  unfold hmaApp
  rw [indep_key _ _ hn.kS hn.nS]
  obtain ⟨dd, o⟩ := z
  cases dd with
  | none => exact readingByCandle_noKey _ hn.kS d (hasKey_absent _ d hd)
  | some ab =>
    obtain ⟨a, b⟩ := ab
    show readingByCandle (setKey true _ b (setKey true _ a d)) _ = b
    exact rbc_data_self _ hn.kS _ (by show dlookup _ d.inds = none; exact hd.1) _

theorem hmaI_out_W (hn : HmaNames nm) (c : Candle K) (hc : hmaI_Absent nm c) (r : HmaRow K) :
    readingByCandle (hmaOut nm n c r) (nm ++ "_WMA") = r.1.1.roundBy defaultRound := by
  unfold hmaOut
  rw [rbc_hmaApp nm n _ (indep_key _ _ hn.kW hn.nW) (indep_key _ _ hn.kW hn.WR.symm)
    (indep_key _ _ hn.kW hn.WS.symm), indep_key _ _ hn.kW hn.WH.symm,
    readingByCandle_setKey_noKey true _ hn.kW _ _ (hasKey_absent _ c hc.aW)]

theorem hmaI_out_Wh (hn : HmaNames nm) (c : Candle K) (hc : hmaI_Absent nm c) (r : HmaRow K) :
    readingByCandle (hmaOut nm n c r) (nm ++ "_WMAh") = r.1.2.roundBy defaultRound := by
  unfold hmaOut
  rw [rbc_hmaApp nm n _ (indep_key _ _ hn.kH hn.nH) (indep_key _ _ hn.kH hn.HR.symm)
    (indep_key _ _ hn.kH hn.HS.symm)]
  exact rbc_data_self _ hn.kH _ (by show dlookup _ c.inds = none; exact hc.aH.1) _

theorem hmaI_out_R (hn : HmaNames nm) (c : Candle K) (hc : hmaI_Absent nm c) (r : HmaRow K) :
    readingByCandle (hmaOut nm n c r) (nm ++ "_HMAr") = hrowR r := by
  unfold hmaOut
  rw [hmaI_app_R nm n hn]
  · rfl
  · rw [(setKey_frame true _ _ hn.HR _ _).1, (setKey_frame true _ _ hn.HR _ _).2,
      (setKey_frame true _ _ hn.WR _ _).1, (setKey_frame true _ _ hn.WR _ _).2]
    exact hc.aR

theorem hmaI_out_S (hn : HmaNames nm) (c : Candle K) (hc : hmaI_Absent nm c) (r : HmaRow K) :
    readingByCandle (hmaOut nm n c r) (nm ++ "_HMAs") = hrowS r := by
  unfold hmaOut
  rw [hmaI_app_S nm n hn]
  · rfl
  · rw [(setKey_frame true _ _ hn.HS _ _).1, (setKey_frame true _ _ hn.HS _ _).2,
      (setKey_frame true _ _ hn.WS _ _).1, (setKey_frame true _ _ hn.WS _ _).2]
    exact hc.aS

/-- a reading name that sees none of the five names reads the base candle -/
theorem hmaI_out_other (key : String) (hi : hmaI_Input nm key) (c : Candle K) (r : HmaRow K) :
    readingByCandle (hmaOut nm n c r) key = readingByCandle c key := by
  unfold hmaOut
  rw [rbc_hmaApp nm n key hi.uN.indep hi.uR.indep hi.uS.indep, hi.uH.indep, hi.uW.indep]

end cand

/-! ### the helper passes -/

/-- **the loop of a WMA helper (or top-level WMA) over a late-starting column, exact values** -/
theorem hmaI_wma_pass (Z : Ind K) (q : Nat) (hq : 1 ≤ q) (input : String) (hZk : Z.kind = .wma (q : Int) input)
    (hk : IsKey Z.name) (cs : List (Candle K))
    (habs : ∀ c ∈ cs, dlookup Z.name c.inds = none ∧ dlookup Z.name c.subs = none)
    (t0 : Nat) (r : Nat → Num K) (hsee : Indep K Z.name input)
    (hnone : ∀ j, j < cs.length → j < t0 → readingByCandle (cs.getD j default) input = .none)
    (hnum : ∀ j, j < cs.length → t0 ≤ j → readingByCandle (cs.getD j default) input = .num (r (j - t0))) :
    ∃ vs : List (Val K), vs.length = cs.length ∧
      leafCalc Z cs = .ok (decoWith (keyOut Z.isSub Z.name) cs vs) ∧
      ∀ j, j < cs.length → vs.getD j .none = (hmaI_wv q t0 (fun k => (r k).toF) j).roundBy Z.round := by
  refine leafCalc_induct Z cs habs (fun j v => v = (hmaI_wv q t0 (fun k => (r k).toF) j).roundBy Z.round) ?_
  intro m hm vs hvs hQ
  have V := midW_sview Z.isSub Z.name input hk cs habs vs m t0 hm hvs r (fun c v => hsee Z.isSub v c) hnone hnum
  rw [hZk]
  have hcall := hmaI_wma_col ({ cs := midW (keyOut Z.isSub Z.name) cs vs m, i := m, name := Z.name } : Ctx K)
    input m q t0 (fun j => r (j - t0)) V.i_eq V.len hq
    (by
      intro j hj
      by_cases h : j < t0
      · rw [if_pos h]; exact V.inp_none j h hj
      · rw [if_neg h]; exact V.inp_num j (by omega) hj)
    _ V.prev
    (by
      intro hlt
      by_cases h0 : m = 0
      · rw [if_pos h0]
      · rw [if_neg h0, hQ (m - 1) (by omega)]
        unfold hmaI_wv
        rw [if_pos (by omega)]; rfl)
  refine ⟨_, hcall, ?_⟩
  show _ = (hmaI_wv q t0 (fun k => (r k).toF) m).roundBy Z.round
  unfold hmaI_wv
  rw [hmaI_wmaAt_shift (fun k => (r k).toF) q m t0]

/-! ### the node's own step -/

/-- **the value of the HMA node's step at index `m`** (`hmaVal` of Gen/HMA.lean): the current candle
carries the two helpers' readings, the finished prefix `H` carries the shifted rows under
`name_HMAr` / `name_HMAs` -/
theorem hmaI_val (p : Nat) (hp : 2 ≤ p) (nm : String) (hn : HmaNames nm) (t0 : Nat) (X : Nat → K)
    (H : List (Candle K)) (c : Candle K) (m : Nat) (hHl : H.length = m)
    (hW : readingByCandle c (nm ++ "_WMA") = (hmaI_wv p t0 X m).roundBy defaultRound)
    (hWh : readingByCandle c (nm ++ "_WMAh") = (hmaI_wv (p / 2) t0 X m).roundBy defaultRound)
    (hcR : dlookup (nm ++ "_HMAr") c.inds = none) (hcS : dlookup (nm ++ "_HMAs") c.inds = none)
    (hH : ∀ j, j < m → ∃ d, H[j]? = some d ∧
      readingByCandle d (nm ++ "_HMAr") = hrowR (hmaI_row p t0 X j) ∧
      readingByCandle d (nm ++ "_HMAs") = hrowS (hmaI_row p t0 X j)) :
    hmaVal nm (p : Int) H c = .ok (hmaI_row p t0 X m).2 := by
  have hs1 : 1 ≤ Nat.sqrt p := Nat.sqrt_pos.2 (by omega)
  have hsle : Nat.sqrt p ≤ p := Nat.sqrt_le_self p
  unfold hmaVal
  rw [hW, hWh]
  by_cases h1 : m + 1 < t0 + p
  · have : hmaI_wv p t0 X m = .none := by unfold hmaI_wv; rw [if_pos h1]
    rw [this, hmaI_row_Z_warm p t0 X m h1]
    rfl
  · have eW : (hmaI_wv p t0 X m).roundBy defaultRound = .num (.flt (hmaW4 p X (m - t0))) := by
      unfold hmaI_wv; rw [if_neg h1]; rfl
    have eH : (hmaI_wv (p / 2) t0 X m).roundBy defaultRound = .num (.flt (hmaWh4 p X (m - t0))) := by
      unfold hmaI_wv; rw [if_neg (by omega)]; rfl
    rw [eW, eH]
    simp only [Val.isNone_num, Bool.false_eq_true, if_false, Val.asNum_num, pym_bind_ok, hull_raw_num]
    have eR : 2 * hmaWh4 p X (m - t0) - hmaW4 p X (m - t0) = hmaRawS p X (m - t0) := rfl
    rw [eR]
    unfold hmaVal2
    rw [isqrt_natCast]
    -- the columns of the smoothing WMA's context
    have hrowsR : ∀ j, j < m →
        hrowR (hmaI_row p t0 X j) = if j < t0 + p - 1 then Val.none else .flt (hmaRawS p X (j - t0)) := by
      intro j hj
      show (match (hmaI_row p t0 X j).2.1 with | none => Val.none | some (a, _) => a) = _
      by_cases hjp : j + 1 < t0 + p
      · rw [hmaI_row_Z_warm p t0 X j hjp, if_pos (by omega)]
      · rw [hmaI_row_Z p t0 X j hjp (by omega), if_neg (by omega)]
    have hrowsS : ∀ j, j < m → j < t0 + (p + Nat.sqrt p - 2) → hrowS (hmaI_row p t0 X j) = Val.none := by
      intro j hj hjt
      show (match (hmaI_row p t0 X j).2.1 with | none => Val.none | some (_, b) => b) = _
      by_cases hjp : j + 1 < t0 + p
      · rw [hmaI_row_Z_warm p t0 X j hjp]
      · rw [hmaI_row_Z p t0 X j hjp (by omega)]
        show hmaSV p X (j - t0) = .none
        unfold hmaSV hmaT0
        rw [if_pos (by omega)]
    have hS := hmaI_wma_col
      ({ cs := H ++ [setKey true (nm ++ "_HMAr") (.num (.flt (hmaRawS p X (m - t0)))) c], i := H.length,
         name := nm ++ "_HMAs" } : Ctx K) (nm ++ "_HMAr") m (Nat.sqrt p) (t0 + p - 1)
      (fun j => Num.flt (hmaRawS p X (j - t0))) (by show ((H.length : Nat) : Int) = m; rw [hHl])
      (by show m < (H ++ [_]).length; rw [List.length_append, hHl]; simp) hs1
      (by
        intro j hj
        by_cases hjm : j < m
        · obtain ⟨d, hd, hdR, _⟩ := hH j hjm
          rw [Ctx.reading_at _ _ j d (by
            show (H ++ [_])[j]? = some d
            rw [List.getElem?_append_left (by omega)]; exact hd), hdR, hrowsR j hjm]
        · have : j = m := by omega
          subst this
          rw [Ctx.reading_at _ _ j (setKey true (nm ++ "_HMAr") (.num (.flt (hmaRawS p X (j - t0)))) c) (by
            show (H ++ [_])[j]? = some _
            rw [List.getElem?_append_right (by omega), hHl]; simp),
            rbc_data_self _ hn.kR c hcR, if_neg (by omega)])
      (if m = 0 then Val.none else hrowS (hmaI_row p t0 X (m - 1)))
      (by
        show ({ cs := H ++ [_], i := H.length, name := nm ++ "_HMAs" } : Ctx K).prevReading (nm ++ "_HMAs") = _
        rw [Ctx.prevReading_append_cons H _ [] _ _]
        unfold Ctx.lastReading
        by_cases h0 : m = 0
        · have : H = [] := List.eq_nil_of_length_eq_zero (by omega)
          rw [this, if_pos h0]; rfl
        · obtain ⟨d, hd, _, hdS⟩ := hH (m - 1) (by omega)
          rw [if_neg h0, List.getLast?_eq_getElem?, hHl, hd]
          exact congrArg Except.ok hdS)
      (by
        intro hlt
        by_cases h0 : m = 0
        · rw [if_pos h0]
        · rw [if_neg h0]
          exact hrowsS (m - 1) (by omega) (by omega))
    rw [hS]
    simp only [pym_bind_ok, pym_pure]
    have eS : (if m + 1 < t0 + p - 1 + Nat.sqrt p then Val.none
          else Val.flt (wmaAt (fun j => (Num.flt (hmaRawS p X (j - t0))).toF) (Nat.sqrt p) m)).roundBy defaultRound
        = hmaSV p X (m - t0) := by
      unfold hmaSV hmaT0
      by_cases ht : m + 1 < t0 + p - 1 + Nat.sqrt p
      · rw [if_pos ht, if_pos (by omega)]; rfl
      · rw [if_neg ht, if_neg (by omega)]
        show Val.flt (PyF.round defaultRound (wmaAt (fun j => hmaRawS p X (j - t0)) (Nat.sqrt p) m)) = _
        rw [hmaI_wmaAt_shift (hmaRawS p X) (Nat.sqrt p) m t0]
        rfl
    rw [eS, rbc_data_self _ hn.kS _ (by exact hcS), hmaI_row_Z p t0 X m h1 (by omega)]

/-- the smoothing WMA's window invariant along the shifted rows -/
theorem hmaI_windowInv (p : Nat) (hp : 2 ≤ p) (nm : String) (t0 : Nat) (X : Nat → K)
    (H : List (Candle K)) (m : Nat) (hHl : H.length = m)
    (hH : ∀ j, j < m → ∃ d, H[j]? = some d ∧
      readingByCandle d (nm ++ "_HMAs") = hrowS (hmaI_row p t0 X j)) :
    WindowInv (nm ++ "_HMAs") (isqrt (p : Int)) H := by
  intro hne
  rw [isqrt_natCast, hHl]
  have hs1 : 1 ≤ Nat.sqrt p := Nat.sqrt_pos.2 (by omega)
  unfold Ctx.lastReading at hne
  by_cases h0 : m = 0
  · have : H = [] := List.eq_nil_of_length_eq_zero (by omega)
    rw [this] at hne
    cases hne
  · obtain ⟨d, hd, hdS⟩ := hH (m - 1) (by omega)
    rw [List.getLast?_eq_getElem?, hHl, hd] at hne
    have hne' : (readingByCandle d (nm ++ "_HMAs")).isNone = false := hne
    rw [hdS] at hne'
    by_contra hlt
    have hz : hrowS (hmaI_row p t0 X (m - 1)) = Val.none := by
      show (match (hmaI_row p t0 X (m - 1)).2.1 with | none => Val.none | some (_, b) => b) = _
      by_cases hjp : m - 1 + 1 < t0 + p
      · rw [hmaI_row_Z_warm p t0 X _ hjp]
      · rw [hmaI_row_Z p t0 X _ hjp (by omega)]
        show hmaSV p X (m - 1 - t0) = .none
        unfold hmaSV hmaT0
        rw [if_pos (by omega)]
    rw [hz] at hne'
    cases hne'

/-! ### the whole run -/

/-- **HMA through the engine, row by row**: for EVERY candle list (the five names of the tree absent),
an input name that sees none of them, `None` on the first `t0` candles and the numbers `r` afterwards.
The engine returns; candle `j` of the result is input candle `j` carrying exactly the row
`hmaI_row p t0 x j` – nothing but `None` readings before `t0`, the row of `hma_series` at `j − t0`
afterwards – and every other entry of the candle is untouched (`hmaOut` stores the five keys only). -/
theorem hmaI_rows (p : Nat) (hp : 2 ≤ p) (nm input : String) (n t0 : Nat) (cs : List (Candle K))
    (r : Nat → Num K) (hn : HmaNames nm) (hi : hmaI_Input nm input)
    (habs : ∀ c ∈ cs, hmaI_Absent nm c)
    (hnone : ∀ j, j < cs.length → j < t0 → readingByCandle (cs.getD j default) input = .none)
    (hnum : ∀ j, j < cs.length → t0 ≤ j → readingByCandle (cs.getD j default) input = .num (r (j - t0))) :
    ∃ out : List (Candle K), engineCalc (mkTop (.hma (p : Int) input : Kind K) nm n) cs = .ok out ∧
      out.length = cs.length ∧
      ∀ j, j < cs.length →
        out.getD j default = hmaOut nm n (cs.getD j default) (hmaI_row p t0 (fun k => (r k).toF) j) := by
  generalize hX : (fun k => (r k).toF) = X
  -- pass 1: the WMA helper
  have habsW : ∀ c ∈ cs, dlookup (nm ++ "_WMA") c.inds = none ∧ dlookup (nm ++ "_WMA") c.subs = none :=
    fun c hc => (habs c hc).aW
  obtain ⟨vs1, hl1, hrun1, hall1⟩ := hmaI_wma_pass (hmaW (F := K) nm (p : Int) input) p (by omega) input rfl
    hn.kW cs habsW t0 r hi.uW.indep hnone hnum
  rw [hX] at hall1
  have hrun1' : leafCalc (hmaW (F := K) nm (p : Int) input) cs
      = .ok (decoWith (keyOut true (nm ++ "_WMA")) cs vs1) := hrun1
  generalize hc1 : decoWith (keyOut true (nm ++ "_WMA")) cs vs1 = c₁ at hrun1'
  have hlen1 : c₁.length = cs.length := by rw [← hc1]; exact decoWith_length _ _ _ hl1
  have hget1 : ∀ j, j < cs.length →
      c₁.getD j default = setKey true (nm ++ "_WMA") (vs1.getD j .none) (cs.getD j default) := by
    intro j hj; rw [← hc1]; exact decoWith_getD _ _ cs vs1 hl1 j hj
  have hin1 : ∀ j, j < cs.length →
      readingByCandle (c₁.getD j default) input = readingByCandle (cs.getD j default) input :=
    fun j hj => by rw [hget1 j hj, hi.uW.indep]
  have habs1 : ∀ (k : String), nm ++ "_WMA" ≠ k →
      (∀ c ∈ cs, dlookup k c.inds = none ∧ dlookup k c.subs = none) →
      ∀ c ∈ c₁, dlookup k c.inds = none ∧ dlookup k c.subs = none := by
    intro k h1 hk'
    rw [← hc1]
    refine decoWith_mem _ cs vs1 hl1 _ (fun c hc v => ?_)
    rw [(setKey_frame true _ k h1 v c).1, (setKey_frame true _ k h1 v c).2]
    exact hk' c hc
  -- pass 2: the half-period WMA helper, over the output of pass 1
  have habsH1 := habs1 (nm ++ "_WMAh") hn.WH (fun c hc => (habs c hc).aH)
  have e2 : ((p : Nat) : Int) / 2 = ((p / 2 : Nat) : Int) := by omega
  obtain ⟨vs2, hl2, hrun2, hall2⟩ := hmaI_wma_pass (hmaWh (F := K) nm (p : Int) input) (p / 2) (by omega) input
    (by show Kind.wma ((p : Int) / 2) input = _; rw [e2])
    hn.kH c₁ habsH1 t0 r hi.uH.indep
    (fun j hj hjt => by rw [hin1 j (by omega)]; exact hnone j (by omega) hjt)
    (fun j hj hjt => by rw [hin1 j (by omega)]; exact hnum j (by omega) hjt)
  rw [hX] at hall2
  rw [hlen1] at hl2
  have hrun2' : leafCalc (hmaWh (F := K) nm (p : Int) input) c₁
      = .ok (decoWith (keyOut true (nm ++ "_WMAh")) c₁ vs2) := hrun2
  generalize hc2 : decoWith (keyOut true (nm ++ "_WMAh")) c₁ vs2 = c₂ at hrun2'
  have hlen2 : c₂.length = cs.length := by rw [← hc2, decoWith_length _ _ _ (by rw [hlen1, hl2]), hlen1]
  have hget2 : ∀ j, j < cs.length →
      c₂.getD j default = setKey true (nm ++ "_WMAh") (vs2.getD j .none) (c₁.getD j default) := by
    intro j hj; rw [← hc2]; exact decoWith_getD _ _ c₁ vs2 (by rw [hlen1, hl2]) j (by omega)
  have habs2 : ∀ (k : String), nm ++ "_WMA" ≠ k → nm ++ "_WMAh" ≠ k →
      (∀ c ∈ cs, dlookup k c.inds = none ∧ dlookup k c.subs = none) →
      ∀ c ∈ c₂, dlookup k c.inds = none ∧ dlookup k c.subs = none := by
    intro k h1 h2 hk'
    rw [← hc2]
    refine decoWith_mem _ c₁ vs2 (by rw [hlen1, hl2]) _ (fun c hc v => ?_)
    rw [(setKey_frame true _ k h2 v c).1, (setKey_frame true _ k h2 v c).2]
    exact habs1 k h1 hk' c hc
  have habsN2 := habs2 nm hn.nW.symm hn.nH.symm (fun c hc => (habs c hc).aN)
  have habsR2 := habs2 (nm ++ "_HMAr") hn.WR hn.HR (fun c hc => (habs c hc).aR)
  have habsS2 := habs2 (nm ++ "_HMAs") hn.WS hn.HS (fun c hc => (habs c hc).aS)
  -- the two helpers' readings on a candle of `c₂`
  have hrW2 : ∀ j, j < cs.length →
      readingByCandle (c₂.getD j default) (nm ++ "_WMA") = (hmaI_wv p t0 X j).roundBy defaultRound := by
    intro j hj
    rw [hget2 j hj, indep_key _ _ hn.kW hn.WH.symm, hget1 j hj,
      readingByCandle_setKey_noKey true _ hn.kW _ _ (hasKey_absent _ _ (habsW _ (getD_mem' cs j hj))), hall1 j hj]
    rfl
  have hrH2 : ∀ j, j < cs.length →
      readingByCandle (c₂.getD j default) (nm ++ "_WMAh") = (hmaI_wv (p / 2) t0 X j).roundBy defaultRound := by
    intro j hj
    rw [hget2 j hj,
      readingByCandle_setKey_noKey true _ hn.kH _ _ (hasKey_absent _ _ (habsH1 _ (getD_mem' c₁ j (by omega)))),
      hall2 j (by omega)]
    rfl
  -- pass 3: the node's own loop, over the output of pass 2
  obtain ⟨rows, hl3, hrun3, hall3⟩ := node_induct
    (specWith (hmaP (F := K) nm n (p : Int) input) (hmaCFull nm (p : Int)))
    (fun c z => hmaApp nm n z c) ((none, .none) : Option (Val K × Val K) × Val K) c₂
    (by
      show ∀ c ∈ c₂, dlookup (hmaP (F := K) nm n (p : Int) input).name c.inds = none ∧ _
      rw [hmaP_name]; exact habsN2)
    (fun j z => z = (hmaI_row p t0 X j).2)
    (by
      intro m hm rows hrl hQ
      rw [hlen2] at hm
      have hdl := midW_done_length (fun c z => hmaApp nm n z c) c₂ rows m (by omega) hrl
      refine ⟨(hmaI_row p t0 X m).2, ?_, rfl⟩
      show stepWith (hmaP (F := K) nm n (p : Int) input) (hmaCFull nm (p : Int))
        (midW (fun c z => hmaApp nm n z c) c₂ rows m) (m : Int) = _
      rw [midW_split (fun c z => hmaApp nm n z c) c₂ rows m (by omega)]
      generalize hH : decoWith (fun c z => hmaApp nm n z c) (c₂.take m) rows = H at hdl ⊢
      -- the finished prefix
      have hHj : ∀ j, j < m → H[j]? = some (hmaApp nm n (hmaI_row p t0 X j).2 (c₂.getD j default)) := by
        intro j hj
        have htl : (c₂.take m).length = m := by simp; omega
        rw [← hH, decoWith_getElem? _ _ _ ((none, .none) : Option (Val K × Val K) × Val K) j (by rw [htl, hrl])
          (by rw [htl]; exact hj), hQ j hj]
        have : (c₂.take m).getD j default = c₂.getD j default := by
          rw [List.getD_eq_getElem?_getD, List.getD_eq_getElem?_getD, List.getElem?_take_of_lt hj]
        rw [this]
      have hHRS : ∀ j, j < m → ∃ d, H[j]? = some d ∧
          readingByCandle d (nm ++ "_HMAr") = hrowR (hmaI_row p t0 X j) ∧
          readingByCandle d (nm ++ "_HMAs") = hrowS (hmaI_row p t0 X j) := by
        intro j hj
        refine ⟨_, hHj j hj, ?_, ?_⟩
        · rw [hmaI_app_R nm n hn _ _ (habsR2 _ (getD_mem' c₂ j (by omega)))]; rfl
        · rw [hmaI_app_S nm n hn _ _ (habsS2 _ (getD_mem' c₂ j (by omega)))]; rfl
      have hinv := hmaI_windowInv p hp nm t0 X H m hdl (fun j hj => by
        obtain ⟨d, hd, _, hdS⟩ := hHRS j hj
        exact ⟨d, hd, hdS⟩)
      have hval := hmaI_val p hp nm hn t0 X H (c₂.getD m default) m hdl (hrW2 m hm) (hrH2 m hm)
        (habsR2 _ (getD_mem' c₂ m (by omega))).1 (habsS2 _ (getD_mem' c₂ m (by omega))).1 hHRS
      -- no fallback: at index 0 the WMA helper has no reading
      have hfull : hmaCFull nm (p : Int) (H ++ c₂.getD m default :: c₂.drop (m + 1)) (H.length : Int)
          = hmaC nm (p : Int) (H ++ c₂.getD m default :: c₂.drop (m + 1)) (H.length : Int) := by
        apply hmaCFull_eq
        intro h0 w hw
        rw [Ctx.reading_cur] at hw
        cases hw
        have hm0 : m = 0 := by omega
        rw [hrW2 m hm, Val.roundBy_isNone]
        unfold hmaI_wv
        rw [if_pos (by omega)]; rfl
      have hstep := stepWith_hmaC nm n (p : Int) input H (c₂.getD m default) (c₂.drop (m + 1))
        (isqrt_pos _ (by omega)) hinv
      have hstep' : stepWith (hmaP (F := K) nm n (p : Int) input) (hmaCFull nm (p : Int))
          (H ++ c₂.getD m default :: c₂.drop (m + 1)) (H.length : Int)
          = .ok (H ++ hmaApp nm n (hmaI_row p t0 X m).2 (c₂.getD m default) :: c₂.drop (m + 1)) := by
        have : stepWith (hmaP (F := K) nm n (p : Int) input) (hmaCFull nm (p : Int))
            (H ++ c₂.getD m default :: c₂.drop (m + 1)) (H.length : Int)
            = stepWith (hmaP (F := K) nm n (p : Int) input) (hmaC nm (p : Int))
            (H ++ c₂.getD m default :: c₂.drop (m + 1)) (H.length : Int) := by
          unfold stepWith
          rw [hfull]
        rw [this, hstep, hval]
        rfl
      rw [hdl] at hstep'
      exact hstep')
  rw [hlen2] at hl3
  refine ⟨decoWith (fun c z => hmaApp nm n z c) c₂ rows, ?_, ?_, ?_⟩
  · have e := engineCalc_hma (F := K) nm n (p : Int) input cs
    show engineCalc (hmaP (F := K) nm n (p : Int) input) cs = _
    rw [e, hrun1']
    simp only [bind, Except.bind]
    rw [hrun2']
    simp only
    exact hrun3
  · rw [decoWith_length _ _ _ (by rw [hlen2, hl3]), hlen2]
  · intro j hj
    rw [decoWith_getD _ ((none, .none) : Option (Val K × Val K) × Val K) c₂ rows (by rw [hlen2, hl3]) j (by omega),
      hall3 j (by omega), hget2 j hj, hget1 j hj, hall1 j hj, hall2 j (by omega)]
    unfold hmaOut
    rw [hmaI_row_W p t0 (by omega), hmaI_row_Wh p t0 hp]
    rfl

/-! ### the statement, reading by reading -/

/-- HMA over a late-starting foreign input: the statement of `hma_engine_readings` (`HmaOK`) over a
candle list that holds foreign readings, shifted by `t0`, with the `None` hypothesis of
`C04PartialStatement` -/
def C04HmaInputsStatement : Prop :=
  ∀ (K : Type) [Field K] [LinearOrder K] [IsStrictOrderedRing K] [LawfulPyF K]
    (p : Nat) (nm input : String) (n t0 : Nat) (cs : List (Candle K)) (x : Nat → K),
    2 ≤ p → HmaNames nm → hmaI_Input nm input →
    (∀ c ∈ cs, hmaI_Absent nm c) →
    (∀ j, j < cs.length → inputSeriesAt cs input j = if j < t0 then none else some (x (j - t0))) →
    (∀ j, j < cs.length → j < t0 → readingByCandle (cs.getD j default) input = .none) →
    ∃ out : List (Candle K), engineCalc (mkTop (.hma (p : Int) input : Kind K) nm n) cs = .ok out ∧
      out.length = cs.length ∧
      ∀ j, j < cs.length →
        (out.getD j default).bare = (cs.getD j default).bare ∧
        (∀ key, hmaI_Input nm key →
          readingByCandle (out.getD j default) key = readingByCandle (cs.getD j default) key) ∧
        (j < t0 →
          readingByCandle (out.getD j default) nm = .none ∧
          readingByCandle (out.getD j default) (nm ++ "_WMA") = .none ∧
          readingByCandle (out.getD j default) (nm ++ "_WMAh") = .none ∧
          readingByCandle (out.getD j default) (nm ++ "_HMAr") = .none ∧
          readingByCandle (out.getD j default) (nm ++ "_HMAs") = .none) ∧
        (t0 ≤ j → HmaOK n p x (j - t0)
          (readingByCandle (out.getD j default) nm) (readingByCandle (out.getD j default) (nm ++ "_WMA"))
          (readingByCandle (out.getD j default) (nm ++ "_WMAh")) (readingByCandle (out.getD j default) (nm ++ "_HMAr"))
          (readingByCandle (out.getD j default) (nm ++ "_HMAs")))

/-- **C04 for HMA, every candle list, an input that is another indicator's reading, every start `t0`**:
the engine never raises; the candles keep their prices and every reading that does not belong to the
tree; the five readings of the tree are `None` on the first `t0` candles and afterwards satisfy
`HmaOK` – the statement of `hma_series` – at the index counted from `t0`: the own reading is `None`
before `t0 + hmaT0 p`, then within `ε_n + 4·ε₄` of `WMA_{⌊√p⌋}(2·WMA_{⌊p/2⌋}(x) − WMA_p(x))` of the inputs
counted from `t0`. -/
theorem c04_hma_inputs : C04HmaInputsStatement := by
  intro K _ _ _ _ p nm input n t0 cs x hp hn hi habs hin hnone
  obtain ⟨r, hr, hnum⟩ := input_col cs input t0 x hin
  have hx : (fun k => (r k).toF) = x := funext hr
  obtain ⟨out, hrun, hlen, hall⟩ := hmaI_rows p hp nm input n t0 cs r hn hi habs hnone hnum
  rw [hx] at hall
  refine ⟨out, hrun, hlen, ?_⟩
  intro j hj
  have hcj := habs _ (getD_mem' cs j hj)
  rw [hall j hj, hmaOut_own nm n hn, hmaI_out_W nm n hn _ hcj, hmaI_out_Wh nm n hn _ hcj,
    hmaI_out_R nm n hn _ hcj, hmaI_out_S nm n hn _ hcj]
  refine ⟨hmaOut_bare nm n _ _, fun key hkey => hmaI_out_other nm n key hkey _ _, ?_, ?_⟩
  · intro hjt
    have e : hmaI_row p t0 x j = ((.none, .none), (none, .none)) := by unfold hmaI_row; rw [if_pos hjt]
    rw [e]
    exact ⟨rfl, rfl, rfl, rfl, rfl⟩
  · intro hjt
    have e : hmaI_row p t0 x j = hmaRow p x (j - t0) := by unfold hmaI_row; rw [if_neg (by omega)]
    rw [e]
    exact hmaRow_ok n p hp x (j - t0)

/-! #### non-vacuity: `HMA_2` of the foreign reading `"EMA_2"` of `demoForeign` (`None, None, 12, 14, 15`) -/

theorem hmaI_names_demo : HmaNames "HMA_2" :=
  ⟨by decide, by decide, by decide, by decide, by decide, by decide, by decide, by decide, by decide, by decide,
    by decide, by decide, by decide, by decide, by decide⟩

theorem hmaI_input_demo : hmaI_Input "HMA_2" "EMA_2" :=
  hmaI_input_key _ _ (by decide) (by decide) (by decide) (by decide) (by decide) (by decide)

theorem hmaI_absent_demo : ∀ c ∈ demoForeign, hmaI_Absent "HMA_2" c := fun c hc =>
  ⟨demoForeign_abs "HMA_2" (by decide) (by decide) (by decide) c hc,
    demoForeign_abs "HMA_2_WMA" (by decide) (by decide) (by decide) c hc,
    demoForeign_abs "HMA_2_WMAh" (by decide) (by decide) (by decide) c hc,
    demoForeign_abs "HMA_2_HMAr" (by decide) (by decide) (by decide) c hc,
    demoForeign_abs "HMA_2_HMAs" (by decide) (by decide) (by decide) c hc⟩

example : ∃ out : List (Candle ℚ),
    engineCalc (mkTop (.hma ((2 : Nat) : Int) "EMA_2" : Kind ℚ) "HMA_2" 4) demoForeign = .ok out ∧
    out.length = demoForeign.length ∧
    ∀ j, j < demoForeign.length →
      (out.getD j default).bare = (demoForeign.getD j default).bare ∧
      (∀ key, hmaI_Input "HMA_2" key →
        readingByCandle (out.getD j default) key = readingByCandle (demoForeign.getD j default) key) ∧
      (j < 2 →
        readingByCandle (out.getD j default) "HMA_2" = .none ∧
        readingByCandle (out.getD j default) ("HMA_2" ++ "_WMA") = .none ∧
        readingByCandle (out.getD j default) ("HMA_2" ++ "_WMAh") = .none ∧
        readingByCandle (out.getD j default) ("HMA_2" ++ "_HMAr") = .none ∧
        readingByCandle (out.getD j default) ("HMA_2" ++ "_HMAs") = .none) ∧
      (2 ≤ j → HmaOK 4 2 demoX (j - 2)
        (readingByCandle (out.getD j default) "HMA_2") (readingByCandle (out.getD j default) ("HMA_2" ++ "_WMA"))
        (readingByCandle (out.getD j default) ("HMA_2" ++ "_WMAh"))
        (readingByCandle (out.getD j default) ("HMA_2" ++ "_HMAr"))
        (readingByCandle (out.getD j default) ("HMA_2" ++ "_HMAs"))) :=
  c04_hma_inputs ℚ 2 "HMA_2" "EMA_2" 4 2 demoForeign demoX (by norm_num) hmaI_names_demo hmaI_input_demo
    hmaI_absent_demo demoForeign_in demoForeign_none

end Numeric

/-- the toy carrier: HMA(4) of a late-starting foreign reading (`t0 = 2`) returns; the own reading is
missing on the first `t0 + hmaT0 4 = 2 + 4` candles (`decide`) -/
example : (engineCalc (mkTop (.hma 4 "EMA_2") "HMA_4" 4)
    ([{ o := .int 10, h := .int 12, l := .int 9, c := .int 11, v := .int 100 },
      { o := .int 11, h := .int 13, l := .int 10, c := .int 12, v := .int 200, inds := [("EMA_2", .none)] },
      { o := .int 12, h := .int 15, l := .int 11, c := .int 14, v := .int 300, inds := [("EMA_2", .int 12)] },
      { o := .int 14, h := .int 16, l := .int 13, c := .int 15, v := .int 0, inds := [("EMA_2", .int 14)] },
      { o := .int 14, h := .int 16, l := .int 13, c := .int 15, v := .int 0, inds := [("EMA_2", .int 15)] },
      { o := .int 14, h := .int 16, l := .int 13, c := .int 15, v := .int 0, inds := [("EMA_2", .int 13)] },
      { o := .int 14, h := .int 16, l := .int 13, c := .int 15, v := .int 0, inds := [("EMA_2", .int 16)] },
      { o := .int 14, h := .int 16, l := .int 13, c := .int 15, v := .int 0, inds := [("EMA_2", .int 18)] }]
      : List (Candle Int))).toOption.map
      (fun l => l.map fun c => (readingByCandle c "HMA_4").isNone)
      = some [true, true, true, true, true, true, false, false] := by
  decide +kernel

end Hex

#print axioms Hex.Numeric.hmaI_wma_col
#print axioms Hex.Numeric.hmaI_rows
#print axioms Hex.Numeric.c04_hma_inputs

import HexProofs.Numeric.TotalInputs
import HexProofs.Framework.Gen.ChainMore
/-!
# C09 for a CHAINED indicator inside a `Hexital` (open item (a) of `C09_FULL`, the two-member form)

`HexProofs/Framework/Gen/ChainMore.lean` proves for a source member `A` and a dependent member `B` (input = a
reading of `A`) of one Hexital: live = batch = the row-major spec of the chain – WHENEVER the live history returns.
Here the missing half:

* `EngSpec.live_total` – if the row-major spec of an engine returns on every raw-shaped list, every live history
  (construction, `calculate()`, any appends, any manager with an incremental spec) returns;
* `chainW_total` – hence for a chain of covered members: if `calculate()` of all members, one after the other, returns
  on every raw-shaped list with `P raw out`, then EVERY live history of the Hexital returns and its default manager
  holds candles with `P (manager spec of the stream) candles`;
* `pair_no_gaps` – the generic glue: ANY covered source with a scalar reading (its `X_rows` theorem through its
  `TreeSpec`) and ANY covered dependent over it (its `X_no_gaps_inputs` theorem): the source's output column is a
  `LateCol` (`lateCol_of_noGaps`), the dependent's names are absent from the source's output (`engine_absent`);
  instance `sma_over_rsi_hexital` (composite source with a `_data` series);
* the instance `rsi_over_ema_hexital`: `Hexital([EMA(p_A), RSI(p_B, input_value = "EMA_pA")])` never raises and has no
  gaps: the EMA column is `None` exactly below `p_A − 1`, the RSI column exactly below `p_A − 1 + p_B` – the source's
  column satisfies the late-start hypothesis `LateCol` of `rsi_no_gaps_inputs` BY the source's own no-gaps theorem.
-/
set_option linter.unusedSectionVars false
set_option linter.unusedVariables false
set_option linter.unusedSimpArgs false
namespace Hex.Chain
variable {F : Type} [PyF F]

section run
variable {E : List (Candle F) → PyM (List (Candle F))} {names : List String}

/-- the row-major spec returns on every raw-shaped list -/
def EngSpec.Total (T : EngSpec E names) : Prop :=
  ∀ raw : List (Candle F), (∀ c ∈ raw, Plain c) → ∃ out, Gen.rowMajor T.S raw = .ok out

theorem EngSpec.appends_total (T : EngSpec E names) (M : MgrSpec F) (htot : T.Total)
    (chunks : List (List (Candle F))) :
    ∀ (s done : List (Candle F)), Gen.rowMajor T.S (M.spec s) = .ok done → M.Ok (s ++ chunks.flatten) →
      ∃ snap, chunks.foldlM (engAppend M.cfg E) done = .ok snap := by
  induction chunks with
  | nil => intro s done _ _; exact ⟨done, rfl⟩
  | cons ch rest ih =>
    intro s done h hok
    have hok' : M.Ok ((s ++ ch) ++ rest.flatten) := by simpa [List.append_assoc] using hok
    have hsch : M.Ok (s ++ ch) := M.ok_left _ _ hok'
    have hplainS : ∀ c ∈ M.spec s, Plain c := M.spec_plain s (M.ok_left _ _ hsch)
    simp only [List.foldlM_cons]
    have key : ∃ (raw₁ raw₂ d₁ : List (Candle F)), Gen.rowMajor T.S raw₁ = .ok d₁ ∧
        (∀ c ∈ raw₁, Plain c) ∧ (∀ c ∈ raw₂, Plain c) ∧ raw₁ ++ raw₂ = M.spec (s ++ ch) ∧
        engAppend M.cfg E done ch = E (d₁ ++ raw₂) := by
      by_cases hch : ch = []
      · subst hch
        refine ⟨M.spec s, [], done, h, hplainS, by simp, by simp, ?_⟩
        simp [engAppend, Manager.append, bind, Except.bind]
      · obtain ⟨k, Q, hQ, _, ht, hres⟩ := M.append s ch done hsch hch
          (Gen.rowMajor_shape T.law _ done hplainS h).1.dressed
        refine ⟨(M.spec s).take k, Q, done.take k, Gen.rowMajor_take T.law _ done hplainS h k,
          fun c hc => hplainS c (List.mem_of_mem_take hc), hQ, hres.symm, ?_⟩
        have hne : ch.isEmpty = false := by cases ch <;> simp at hch ⊢
        simp only [engAppend, Manager.append, hne, Bool.false_eq_true, if_false, ht, bind, Except.bind, pure,
          Except.pure]
    obtain ⟨raw₁, raw₂, d₁, hr₁, hp₁, hp₂, hsplit, happ⟩ := key
    rw [happ]
    obtain ⟨out, hout⟩ := htot (raw₁ ++ raw₂) (by rw [hsplit]; exact M.spec_plain _ hsch)
    have he := (T.engine raw₁ raw₂ d₁ out hr₁ hp₁ hp₂).2 hout
    rw [he]
    simp only [bind, Except.bind]
    rw [hsplit] at hout
    exact ih (s ++ ch) out hout hok'

/-- **Totality of every live history of an engine, generic**: if the row-major spec returns on every raw-shaped list,
then construction over `init`, `calculate()` and ANY sequence of appends returns, on every manager with an
incremental spec. -/
theorem EngSpec.live_total (T : EngSpec E names) (M : MgrSpec F) (htot : T.Total) (init : List (Candle F))
    (chunks : List (List (Candle F))) (hok : M.Ok (init ++ chunks.flatten)) :
    ∃ snap, engRun M.cfg E init chunks = .ok snap := by
  have hinit : M.Ok init := M.ok_left _ _ hok
  unfold engRun Manager.init
  rw [M.init init hinit]
  simp only [bind, Except.bind, pure, Except.pure]
  have h0 : Gen.rowMajor T.S ([] : List (Candle F)) = .ok [] := rfl
  obtain ⟨out, hout⟩ := htot (M.spec init) (M.spec_plain init hinit)
  have he := (T.engine [] (M.spec init) [] out h0 (by simp) (M.spec_plain init hinit)).2 (by simpa using hout)
  simp only [List.nil_append] at he
  rw [he]
  exact T.appends_total M htot chunks init out hout hok

/-- on a raw-shaped list the engine IS its row-major spec -/
theorem EngSpec.engine_plain (T : EngSpec E names) (raw out : List (Candle F)) (hp : ∀ c ∈ raw, Plain c) :
    E raw = .ok out ↔ Gen.rowMajor T.S raw = .ok out := by
  have h0 : Gen.rowMajor T.S ([] : List (Candle F)) = .ok [] := rfl
  have := T.engine [] raw [] out h0 (by simp) hp
  simpa using this

end run

/-- **Totality and "what it returns" for a chain of covered members inside a `Hexital`.**  If `calculate()` of the
members, one after the other on the same list, returns on every raw-shaped list `raw` with `P raw out`, then EVERY live
history of the Hexital over every stream the manager accepts – construction over any initial part, `calculate()`,
`Hexital.append` of the rest in any chunking – RETURNS, its only manager is the default one, and the candles it
holds satisfy `P` relative to what the manager makes of the stream. -/
theorem chainW_total {ts : List (Ind F)} (c : ChainCompsW [] ts) (M : MgrSpec F)
    (P : List (Candle F) → List (Candle F) → Prop)
    (hP : ∀ raw : List (Candle F), (∀ c ∈ raw, Plain c) → ∃ out, chainEngine ts raw = .ok out ∧ P raw out)
    (tfn : Option String) (init : List (Candle F)) (chunks : List (List (Candle F)))
    (hok : M.Ok (init ++ chunks.flatten)) :
    ∃ (H : Hexital F) (cs : List (Candle F)), chainRun ts M.cfg tfn init chunks = .ok H ∧
      H.managers = [(defaultKey, { cfg := M.cfg, candles := cs })] ∧ P (M.spec (init ++ chunks.flatten)) cs := by
  have htot : (chainSpecW c).Total := fun raw hraw => by
    obtain ⟨out, ho, _⟩ := hP raw hraw
    exact ⟨out, ((chainSpecW c).engine_plain raw out hraw).1 ho⟩
  obtain ⟨snap, hsnap⟩ := (chainSpecW c).live_total M htot init chunks hok
  obtain ⟨H, hH, inv⟩ := chainRun_of c.nodup M.cfg tfn init chunks snap hsnap
  refine ⟨H, snap, hH, inv.mgrs, ?_⟩
  have hrow := (chainSpecW c).live_refines M init chunks hok snap hsnap
  have hpl := M.spec_plain _ hok
  obtain ⟨out, ho, hPo⟩ := hP _ hpl
  have := ((chainSpecW c).engine_plain _ snap hpl).2 hrow
  rw [ho] at this
  cases this
  exact hPo

/-- … for a source and a dependent (`pairRun`), the hypothesis on `engineCalc A` followed by `engineCalc B` -/
theorem pair_total {nameA : String} {kA : Kind F} (hA : SrcVia nameA kA) (roundA : Nat)
    {main nameB : String} {kB : Kind F} (hB : DepVia main nameB kB) (roundB : Nat)
    (hmain : main ∈ (mkTop kA nameA roundA).allNames)
    (hdis : ∀ x ∈ (mkTop kA nameA roundA).allNames, x ∉ (mkTop kB nameB roundB).allNames)
    (M : MgrSpec F) (P : List (Candle F) → List (Candle F) → Prop)
    (hP : ∀ raw : List (Candle F), (∀ c ∈ raw, Plain c) → ∃ mid out,
      engineCalc (mkTop kA nameA roundA) raw = .ok mid ∧ engineCalc (mkTop kB nameB roundB) mid = .ok out ∧ P raw out)
    (tfn : Option String) (init : List (Candle F)) (chunks : List (List (Candle F)))
    (hok : M.Ok (init ++ chunks.flatten)) :
    ∃ (H : Hexital F) (cs : List (Candle F)),
      pairRun (mkTop kA nameA roundA) (mkTop kB nameB roundB) M.cfg tfn init chunks = .ok H ∧
      H.managers = [(defaultKey, { cfg := M.cfg, candles := cs })] ∧ P (M.spec (init ++ chunks.flatten)) cs := by
  obtain ⟨c⟩ := (CoveredChain.pair hA roundA hB roundB hmain hdis).comps
  refine chainW_total c M P (fun raw hraw => ?_) tfn init chunks hok
  obtain ⟨mid, out, h1, h2, h3⟩ := hP raw hraw
  refine ⟨out, ?_, h3⟩
  rw [chainEngine_pair]
  show (do let c ← engineCalc (mkTop kA nameA roundA) raw; engineCalc (mkTop kB nameB roundB) c) = _
  rw [h1]
  exact h2

end Hex.Chain

namespace Hex.Numeric
open Hex.Chain
variable {K : Type} [Field K] [LinearOrder K] [IsStrictOrderedRing K] [LawfulPyF K]

/-! ### an output column with no gaps IS a late-starting input column -/

/-- **`X_no_gaps` of a source gives the hypothesis `LateCol` of a dependent**: a column that is `None` exactly below
`w` and a float from `w` on is a late-starting numeric column with `t0 = w` -/
theorem lateCol_of_fltFrom (out : List (Candle K)) (nm : String) (w : Nat)
    (h : ∀ j, j < out.length → FltFrom w j (readingByCandle (out.getD j default) nm)) :
    LateCol out nm w (fun k => (inputSeriesAt out nm (w + k)).getD 0) := by
  refine ⟨fun j hj => ?_, fun j hj hjw => (h j hj).1 hjw⟩
  by_cases hjw : j < w
  · rw [if_pos hjw]
    unfold inputSeriesAt
    rw [(h j hj).1 hjw]
  · rw [if_neg hjw]
    obtain ⟨y, hy⟩ := (h j hj).2 (by omega)
    have e : w + (j - w) = j := by omega
    rw [e]
    unfold inputSeriesAt
    rw [hy]
    rfl

theorem lateCol_of_noGaps {raw out : List (Candle K)} {nm : String} {w : Nat} (h : NoGapsFlt (own nm) w raw out) :
    LateCol out nm w (fun k => (inputSeriesAt out nm (w + k)).getD 0) :=
  lateCol_of_fltFrom out nm w h.2

/-- the `close` column of ANY candle list is a numeric column from candle 0 on -/
theorem lateCol_close (cs : List (Candle K)) : LateCol cs "close" 0 (fun j => (cs.getD j default).c.toF) := by
  refine ⟨fun j hj => ?_, fun j _ h => absurd h (Nat.not_lt_zero j)⟩
  unfold inputSeriesAt
  rw [readingByCandle_attr "close" noDot_close _ (.num (cs.getD j default).c) rfl]
  simp

/-- a decorated raw list holds nothing under other names -/
theorem deco_absent (nm k : String) (hne : nm ≠ k) (raw : List (Candle K)) (vs : List (Val K))
    (hl : vs.length = raw.length) (hraw : ∀ c ∈ raw, Plain c) :
    ∀ c ∈ deco nm raw vs, dlookup k c.inds = none ∧ dlookup k c.subs = none := by
  intro c hc
  obtain ⟨j, hj, rfl⟩ := List.mem_iff_getElem.1 hc
  have hj' : j < raw.length := by rw [deco_length nm raw vs hl] at hj; exact hj
  have e := deco_getElem? nm raw vs j hl hj'
  rw [List.getElem?_eq_getElem hj] at e
  have e' := Option.some.inj e
  rw [e']
  obtain ⟨hi, hs⟩ := hraw _ (getD_mem' raw j hj')
  simp only [setKey, Bool.false_eq_true, if_false, dlookup_dset_ne _ _ _ _ hne, hi, hs]
  exact ⟨rfl, rfl⟩

/-! ### RSI over EMA inside a Hexital -/

/-- **`Hexital([EMA(p_A, "close"), RSI(p_B, input_value = <the EMA's name>)])` never raises and has no gaps** – on every
manager with an incremental spec (base timeframe, collapsing timeframe, with gap filling, Heikin-Ashi …), every stream
it accepts, every construction prefix and append schedule: the live Hexital history returns, and in the candles of its
manager the EMA column is `None` exactly below `p_A − 1` and the RSI column – whose input column has the EMA's own
warm-up `None`s – exactly below `p_A − 1 + p_B`; floats from there on, on EVERY candle. -/
theorem rsi_over_ema_hexital (M : MgrSpec K) (pA pB : Nat) (hpA : 2 ≤ pA) (hpB : 1 ≤ pB) (nmA nmB : String)
    (nA nB : Nat) (hkA : IsKey nmA) (hkB : IsKey nmB) (hnB : RsiNames nmB) (h1 : nmA ≠ nmB)
    (h2 : nmA ≠ nmB ++ "_data") (tfn : Option String) (init : List (Candle K)) (chunks : List (List (Candle K)))
    (hok : M.Ok (init ++ chunks.flatten)) :
    ∃ (H : Hexital K) (cs : List (Candle K)),
      pairRun (mkTop (.ema (pA : Int) "close" (fl 2) : Kind K) nmA nA) (mkTop (.rsi (pB : Int) nmA : Kind K) nmB nB)
        M.cfg tfn init chunks = .ok H ∧
      H.managers = [(defaultKey, { cfg := M.cfg, candles := cs })] ∧
      NoGapsFlt (own nmA) (pA - 1) (M.spec (init ++ chunks.flatten)) cs ∧
      NoGapsFlt (own nmB) (pA - 1 + pB) (M.spec (init ++ chunks.flatten)) cs := by
  have hsrc : SrcVia (F := K) nmA (.ema (pA : Int) "close" (fl 2)) :=
    .leaf "close" _ (.ema (pA : Int) (fl 2) (by omega)) hkA (InputVia.attr ⟨noDot_close, by decide⟩ _)
  have hdep : DepVia (F := K) nmA nmB (.rsi (pB : Int) nmA) :=
    .rsi (pB : Int) nmA (by omega) hnB hkB
      (InputVia.ofInput (Or.inl ⟨rfl, hkA⟩) _ (by
        intro hm
        simp only [List.mem_cons, List.not_mem_nil, or_false] at hm
        rcases hm with h | h
        · exact h1 h
        · exact h2 h))
  have hnamesA : (mkTop (.ema (pA : Int) "close" (fl 2) : Kind K) nmA nA).allNames = [nmA] :=
    allNames_leafTop _ _ _ rfl rfl
  have hnamesB : (mkTop (.rsi (pB : Int) nmA : Kind K) nmB nB).allNames = [nmB, nmB ++ "_data"] :=
    allNames_rsiTop _ _ _ _
  refine pair_total hsrc nA hdep nB (by rw [hnamesA]; simp) (by
      rw [hnamesA, hnamesB]
      intro x hx
      simp only [List.mem_singleton] at hx
      subst hx
      simp only [List.mem_cons, List.not_mem_nil, or_false, not_or]
      exact ⟨h1, h2⟩) M
    (fun raw out => NoGapsFlt (own nmA) (pA - 1) raw out ∧ NoGapsFlt (own nmB) (pA - 1 + pB) raw out)
    (fun raw hraw => ?_) tfn init chunks hok
  -- the source over the raw list
  have ha := ema_alpha_range (K := K) (pA : Int) (by omega)
  have habsA : ∀ c ∈ raw, dlookup nmA c.inds = none ∧ dlookup nmA c.subs = none := fun c hc => by
    obtain ⟨hi, hs⟩ := hraw c hc
    simp [hi, hs, dlookup]
  obtain ⟨vs, hl, hrunA, hallA⟩ := c04_ema K pA (fl 2) nmA "close" nA 0 raw
    (fun j => (raw.getD j default).c.toF) hpA (by simpa using ha.1)
    (by simpa using ha.2) hkA (isKey_ne_attr nmA "close" hkA (by decide)) habsA (lateCol_close raw).col
    (lateCol_close raw).none
  have hlenA : (deco nmA raw vs).length = raw.length := deco_length nmA raw vs hl
  have hcolA : ∀ j, j < (deco nmA raw vs).length →
      FltFrom (pA - 1) j (readingByCandle ((deco nmA raw vs).getD j default) nmA) := by
    intro j hj
    rw [hlenA] at hj
    rw [own_deco nmA hkA raw vs hl j hj]
    have h := (hallA j hj).2 (Nat.zero_le j)
    exact fltFrom_pred pA j _ h.1 (fun hh => (h.2 hh).elim fun y hy => ⟨y, hy.1⟩)
  -- the dependent over the source's output
  obtain ⟨out, hrunB, hlenB, hallB⟩ := rsi_no_gaps_inputs pB hpB nmB nmA nB (pA - 1) (deco nmA raw vs) _ hkB hnB
    hkA.noDot h1 h2
    (fun c hc => by
      have a1 := deco_absent nmA nmB h1 raw vs hl hraw c hc
      have a2 := deco_absent nmA (nmB ++ "_data") h2 raw vs hl hraw c hc
      exact ⟨a1.1, a1.2, a2.1, a2.2⟩)
    (lateCol_of_fltFrom _ nmA (pA - 1) hcolA)
  refine ⟨deco nmA raw vs, out, hrunA, hrunB, ?_, ?_⟩
  · -- the RSI run leaves the EMA column alone
    have hse := calculate_stripEq _ (mkTop (.rsi (pB : Int) nmA : Kind K) nmB nB) _ out hrunB
    rw [hnamesB] at hse
    refine noGapsFlt_of _ _ _ _ (hlenB.trans hlenA) fun j hj => ?_
    unfold own
    rw [adxI_stripEq_reading _ _ out hse hlenB j (by rw [hlenA]; exact hj) nmA
      (adxI_readOK_key _ nmA hkA.noDot (by
        simp only [List.mem_cons, List.not_mem_nil, or_false, not_or]
        exact ⟨h1, h2⟩))]
    exact hcolA j (by rw [hlenA]; exact hj)
  · exact ⟨hlenB.trans hlenA, hallB⟩

/-! ### the generic glue: ANY covered source with a scalar reading, ANY covered dependent over it -/

/-- `calculate()` of a tree over raw-shaped candles leaves nothing under names that are not the tree's -/
theorem engine_absent (A : Ind K) (raw out : List (Candle K)) (hraw : ∀ c ∈ raw, Plain c)
    (h : engineCalc A raw = .ok out) (k : String) (hk : k ∉ A.allNames) :
    ∀ c ∈ out, dlookup k c.inds = none ∧ dlookup k c.subs = none := by
  intro c hc
  have hse : raw.map (strip A.allNames) = out.map (strip A.allNames) := calculate_stripEq _ A raw out h
  have hm : strip A.allNames c ∈ raw.map (strip A.allNames) := by
    rw [hse]; exact List.mem_map.2 ⟨c, hc, rfl⟩
  obtain ⟨r, hr, he⟩ := List.mem_map.1 hm
  obtain ⟨hi, hs⟩ := hraw r hr
  have e1 : eraseAll A.allNames c.inds = eraseAll A.allNames r.inds := (congrArg Candle.inds he).symm
  have e2 : eraseAll A.allNames c.subs = eraseAll A.allNames r.subs := (congrArg Candle.subs he).symm
  constructor
  · rw [← Writes.dlookup_eraseAll_of_not_mem hk c.inds, e1, Writes.dlookup_eraseAll_of_not_mem hk, hi]; rfl
  · rw [← Writes.dlookup_eraseAll_of_not_mem hk c.subs, e2, Writes.dlookup_eraseAll_of_not_mem hk, hs]; rfl

/-- the engine run of a tree with a `TreeSpec` over raw-shaped candles is its row-major spec -/
theorem treeSpec_engine_plain {A : Ind K} (T : TreeSpec A) (raw out : List (Candle K)) (hp : ∀ c ∈ raw, Plain c) :
    engineCalc A raw = .ok out ↔ Gen.rowMajor T.S raw = .ok out := by
  have h0 : Gen.rowMajor T.S ([] : List (Candle K)) = .ok [] := rfl
  have := T.engine [] raw [] out h0 (by simp) hp
  simpa using this

/-- **Source + dependent inside a Hexital, generic.**  `A` a covered source whose own (scalar) reading `nameA` has no
gaps from `wA` on (its `X_rows` theorem of HexProofs/Numeric/Total.lean, through its `TreeSpec`), `B` a covered dependent
over `nameA` whose `X_no_gaps_inputs` theorem gives `PB` over every list on which `B`'s names are absent and the column
`nameA` is late-starting: then EVERY live history of the Hexital `[A, B]` on every manager with an incremental spec
returns, the source column has no gaps from `wA`, and `PB` holds of the final candles. -/
theorem pair_no_gaps {nameA : String} {kA : Kind K} (hA : SrcVia nameA kA) (roundA : Nat)
    {nameB : String} {kB : Kind K} (hB : DepVia nameA nameB kB) (roundB : Nat)
    (hkA : IsKey nameA) (hmain : nameA ∈ (mkTop kA nameA roundA).allNames)
    (hdis : ∀ x ∈ (mkTop kA nameA roundA).allNames, x ∉ (mkTop kB nameB roundB).allNames)
    (TA : TreeSpec (mkTop kA nameA roundA)) (wA : Nat)
    (hsrc : ∀ raw : List (Candle K), (∀ c ∈ raw, Plain c) →
      ∃ out, Gen.rowMajor TA.S raw = .ok out ∧ NoGapsFlt (own nameA) wA raw out)
    (PB : List (Candle K) → Prop)
    (hdep : ∀ mid : List (Candle K),
      (∀ c ∈ mid, ∀ k ∈ (mkTop kB nameB roundB).allNames, dlookup k c.inds = none ∧ dlookup k c.subs = none) →
      ∀ x, LateCol mid nameA wA x →
      ∃ out, engineCalc (mkTop kB nameB roundB) mid = .ok out ∧ out.length = mid.length ∧ PB out)
    (M : MgrSpec K) (tfn : Option String) (init : List (Candle K)) (chunks : List (List (Candle K)))
    (hok : M.Ok (init ++ chunks.flatten)) :
    ∃ (H : Hexital K) (cs : List (Candle K)),
      pairRun (mkTop kA nameA roundA) (mkTop kB nameB roundB) M.cfg tfn init chunks = .ok H ∧
      H.managers = [(defaultKey, { cfg := M.cfg, candles := cs })] ∧
      NoGapsFlt (own nameA) wA (M.spec (init ++ chunks.flatten)) cs ∧ PB cs := by
  refine pair_total hA roundA hB roundB hmain hdis M
    (fun raw out => NoGapsFlt (own nameA) wA raw out ∧ PB out) (fun raw hraw => ?_) tfn init chunks hok
  obtain ⟨mid, hrow, hgA⟩ := hsrc raw hraw
  have hrunA := (treeSpec_engine_plain TA raw mid hraw).2 hrow
  obtain ⟨out, hrunB, hlenB, hPB⟩ := hdep mid
    (fun c hc k hk => engine_absent _ raw mid hraw hrunA k (fun hk' => hdis k hk' hk) c hc) _ (lateCol_of_noGaps hgA)
  refine ⟨mid, out, hrunA, hrunB, ?_, hPB⟩
  have hse := calculate_stripEq _ (mkTop kB nameB roundB) mid out hrunB
  refine noGapsFlt_of _ _ _ _ (hlenB.trans hgA.1) fun j hj => ?_
  unfold own
  rw [adxI_stripEq_reading _ mid out hse hlenB j (by rw [hgA.1]; exact hj) nameA
    (adxI_readOK_key _ nameA hkA.noDot (fun hk' => hdis nameA hmain hk'))]
  exact hgA.2 j (by rw [hgA.1]; exact hj)

/-- **`Hexital([RSI(p_A, "close"), SMA(p_B, input_value = <the RSI's name>)])`** (a composite source with its own `_data`
series): never raises; RSI `None` exactly below `p_A`, the SMA over it exactly below `p_A + p_B − 1`. -/
theorem sma_over_rsi_hexital (M : MgrSpec K) (pA pB : Nat) (hpA : 1 ≤ pA) (hpB : 2 ≤ pB) (nmA nmB : String)
    (nA nB : Nat) (hkA : IsKey nmA) (hnA : RsiNames nmA) (hkB : IsKey nmB) (h1 : nmA ≠ nmB)
    (h2 : nmA ++ "_data" ≠ nmB) (tfn : Option String) (init : List (Candle K)) (chunks : List (List (Candle K)))
    (hok : M.Ok (init ++ chunks.flatten)) :
    ∃ (H : Hexital K) (cs : List (Candle K)),
      pairRun (mkTop (.rsi (pA : Int) "close" : Kind K) nmA nA) (mkTop (.sma (pB : Int) nmA : Kind K) nmB nB)
        M.cfg tfn init chunks = .ok H ∧
      H.managers = [(defaultKey, { cfg := M.cfg, candles := cs })] ∧
      NoGapsFlt (own nmA) pA (M.spec (init ++ chunks.flatten)) cs ∧
      NoGapsFlt (own nmB) (pA + (pB - 1)) (M.spec (init ++ chunks.flatten)) cs := by
  have hin : NoDot "close" ∧ "close" ∈ Candle.attrNames := ⟨noDot_close, by decide⟩
  have hsrc : SrcVia (F := K) nmA (.rsi (pA : Int) "close") :=
    .rsi (pA : Int) "close" (by omega) hnA hkA (InputVia.attr hin _)
  have hdep : DepVia (F := K) nmA nmB (.sma (pB : Int) nmA) :=
    .leaf nmA _ (.sma (pB : Int) (by omega)) hkB
      (InputVia.ofInput (Or.inl ⟨rfl, hkA⟩) _ (by simp only [List.mem_singleton]; exact h1))
  have hnamesA : (mkTop (.rsi (pA : Int) "close" : Kind K) nmA nA).allNames = [nmA, nmA ++ "_data"] :=
    allNames_rsiTop _ _ _ _
  have hnamesB : (mkTop (.sma (pB : Int) nmA : Kind K) nmB nB).allNames = [nmB] := allNames_leafTop _ _ _ rfl rfl
  obtain ⟨H, cs, h1', h2', h3', h4'⟩ := pair_no_gaps hsrc nA hdep nB hkA (by rw [hnamesA]; simp) (by
      rw [hnamesA, hnamesB]
      intro x hx
      simp only [List.mem_cons, List.not_mem_nil, or_false] at hx
      simp only [List.mem_singleton]
      rcases hx with rfl | rfl
      · exact h1
      · exact h2)
    (rsiTree (F := K) nmA nA (pA : Int) "close" (by omega) hnA hin) pA
    (fun raw hraw => rsi_rows pA hpA nmA "close" (·.c) nA hnA hkA hin (fun _ => rfl) raw hraw)
    (fun out => ∃ mid : List (Candle K), out.length = mid.length ∧
      ∀ j, j < out.length → FltFrom (pA + (pB - 1)) j (own nmB (out.getD j default)))
    (fun mid habs x hx => by
      obtain ⟨out, hrun, hg⟩ := sma_no_gaps_inputs pB hpB nmB nmA nB pA mid x hkB (Ne.symm h1)
        (fun c hc => habs c hc nmB (by rw [hnamesB]; simp)) hx
      exact ⟨out, hrun, hg.1, mid, hg.1, hg.2⟩)
    M tfn init chunks hok
  obtain ⟨_, _, hflt⟩ := h4'
  exact ⟨H, cs, h1', h2', h3', h3'.1, hflt⟩

/-! non-vacuity: `EMA_2` / `RSI_1` over ℚ, base manager; and the toy carrier -/

example (init : List (Candle ℚ)) (chunks : List (List (Candle ℚ))) (hok : ∀ c ∈ init ++ chunks.flatten, Plain c) :
    ∃ (H : Hexital ℚ) (cs : List (Candle ℚ)),
      pairRun (mkTop (.ema ((2 : Nat) : Int) "close" (fl 2) : Kind ℚ) "EMA_2" 4)
        (mkTop (.rsi ((1 : Nat) : Int) "EMA_2" : Kind ℚ) "RSI_1" 4) {} none init chunks = .ok H ∧
      H.managers = [(defaultKey, { cfg := {}, candles := cs })] ∧
      NoGapsFlt (own "EMA_2") 1 (init ++ chunks.flatten) cs ∧
      NoGapsFlt (own "RSI_1") 2 (init ++ chunks.flatten) cs :=
  rsi_over_ema_hexital (MgrSpec.base ℚ) 2 1 (by norm_num) (by norm_num) "EMA_2" "RSI_1" 4 4 (by decide) (by decide)
    rsiNames_demo1 (by decide) (by decide) none init chunks hok

/-- the toy carrier `Int`: the live Hexital history (one candle at construction, an empty chunk, the rest) returns;
`EMA_2` is `None` on candle 0 only, `RSI_1` over it on candles 0 and 1 (`decide`) -/
def toy6 : List (Candle Int) :=
  [ { o := .int 1, h := .int 3, l := .int 1, c := .int 2, v := .int 10, ts := some 60 },
    { o := .int 2, h := .int 5, l := .int 2, c := .int 4, v := .int 20, ts := some 120 },
    { o := .int 4, h := .int 4, l := .int 0, c := .int 1, v := .int 5, ts := some 180 },
    { o := .int 1, h := .int 7, l := .int 1, c := .int 6, v := .int 8, ts := some 240 },
    { o := .int 6, h := .int 9, l := .int 5, c := .int 8, v := .int 7, ts := some 300 } ]
example : (defaultCandles (pairRun (mkTop (.ema 2 "close" (.int 2)) "EMA_2" 4) (mkTop (.rsi 1 "EMA_2") "RSI_1" 4)
      {} none (toy6.take 1) [[], toy6.drop 1])).toOption.map
      (·.map fun c => ((readingByCandle c "EMA_2").isNone, (readingByCandle c "RSI_1").isNone))
    = some [(true, true), (false, true), (false, false), (false, false), (false, false)] := by decide +kernel
/-- … and on a two-minute timeframe (three buckets) -/
example : (defaultCandles (pairRun (mkTop (.ema 2 "close" (.int 2)) "EMA_2" 4) (mkTop (.rsi 1 "EMA_2") "RSI_1" 4)
      { tf := some 120 } none (toy6.take 1) [[], toy6.drop 1])).toOption.map
      (·.map fun c => ((readingByCandle c "EMA_2").isNone, (readingByCandle c "RSI_1").isNone))
    = some [(true, true), (false, true), (false, false)] := by decide +kernel

end Hex.Numeric

#print axioms Hex.Chain.EngSpec.live_total
#print axioms Hex.Chain.chainW_total
#print axioms Hex.Chain.pair_total
#print axioms Hex.Numeric.lateCol_of_fltFrom
#print axioms Hex.Numeric.rsi_over_ema_hexital
#print axioms Hex.Numeric.pair_no_gaps
#print axioms Hex.Numeric.sma_over_rsi_hexital

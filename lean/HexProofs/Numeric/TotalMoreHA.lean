import HexProofs.Numeric.Total
import HexProofs.Manager2.HAFill
import HexProofs.Lib.IntInst
/-!
# Managers with Heikin-Ashi conversion have an incremental spec (property C09, item (d))

`MgrSpec` (HexProofs/Framework/Gen/Object.lean) is what the generic object layer needs of a manager:
its tasks refine a spec on construction and, on every append, keep a prefix of the finished
(reading-carrying, "dressed") candles and add reading-free ones.  This file builds the three
Heikin-Ashi instances

* `MgrSpec.ha`      – base timeframe + HA        (spec `haSpec stream`),
* `MgrSpec.tfHA`    – collapsing timeframe + HA  (spec `haSpec (resample tf stream)`),
* `MgrSpec.fillHA`  – timeframe + fill + HA      (spec `haSpec (fillSpec tf stream)`),

so EVERY theorem stated for an arbitrary `M : MgrSpec K` (`TreeSpec.live_total`, `TreeSpec.total_of`,
all `<kind>_live_total` of HexProofs/Numeric/Total.lean) holds on Heikin-Ashi managers as it stands:
the engine runs on the converted candles exactly as on raw ones, because the numeric whole-series
theorems only ask for reading-free (`Plain`) candles – any prices.

What had to be proved: the manager lemmas of HexProofs/Manager2/HATf.lean / HAFill.lean (stated
for reading-free converted lists) for DRESSED converted lists: the collapse re-opens at most the
newest converted bucket (`Candle.merge` restores the raw values whatever the readings), the fill
pass reads only stamp and raw close, and `convert_candles` resumes after the still-tagged prefix
with the last DRESSED candle as predecessor – whose open / close are those of the bare one.
-/
set_option linter.unusedSectionVars false
set_option linter.unusedVariables false
namespace Hex
variable {F : Type} [PyF F]

/-! ### converted candles carry no readings; dressing does not change what conversion reads -/

theorem plain_haCandle (c : Candle F) (p : Option (Candle F)) : Plain (haCandle c p) := ⟨rfl, rfl⟩

/-- the conversion reads only `open` and `close` of its predecessor -/
theorem haCandle_congr (c : Candle F) (p q : Option (Candle F))
    (h : p.map Candle.bare = q.map Candle.bare) : haCandle c p = haCandle c q := by
  cases p with
  | none => cases q with
    | none => rfl
    | some q => simp at h
  | some p => cases q with
    | none => simp at h
    | some q =>
      simp only [Option.map_some, Option.some.injEq] at h
      have ho : p.o = q.o := show p.bare.o = q.bare.o from congrArg Candle.o h
      have hc : p.c = q.c := show p.bare.c = q.bare.c from congrArg Candle.c h
      simp [haCandle, haValues, ho, hc]

theorem bare_tag {c d : Candle F} (h : d.bare = c.bare) : d.tag = c.tag :=
  show d.bare.tag = c.bare.tag from congrArg Candle.tag h

theorem Dressed.refl (l : List (Candle F)) : Dressed l l := by
  induction l with
  | nil => exact List.Forall₂.nil
  | cons c r ih => exact List.Forall₂.cons rfl ih

theorem Dressed.getLast? {B D : List (Candle F)} (h : Dressed B D) :
    D.getLast?.map Candle.bare = B.getLast?.map Candle.bare := by
  have hr := h.reverse
  rw [List.getLast?_eq_head?_reverse, List.getLast?_eq_head?_reverse]
  generalize B.reverse = Br at hr
  generalize D.reverse = Dr at hr
  cases hr with
  | nil => rfl
  | cons hcd _ => simp [hcd]

theorem Dressed.tagged {B D : List (Candle F)} (h : Dressed B D) (hB : ∀ c ∈ B, c.tag = true) :
    ∀ d ∈ D, d.tag = true := by
  induction h with
  | nil => intro d hd; cases hd
  | cons hcd _ ih =>
    intro d hd
    rcases List.mem_cons.1 hd with rfl | hd
    · rw [bare_tag hcd]; exact hB _ (List.mem_cons_self)
    · exact ih (fun c hc => hB c (List.mem_cons_of_mem _ hc)) d hd

theorem Dressed.append {A B C D : List (Candle F)} (h₁ : Dressed A B) (h₂ : Dressed C D) :
    Dressed (A ++ C) (B ++ D) := forall₂_append h₁ h₂

/-- converting fresh candles after a dressed converted list appends the SAME converted candles as
after the bare list -/
theorem haFold_dressed (Q : List (Candle F)) : ∀ (B D : List (Candle F)), Dressed B D →
    ∃ ext, haFold B Q = B ++ ext ∧ haFold D Q = D ++ ext ∧ (∀ c ∈ ext, Plain c) := by
  induction Q with
  | nil => intro B D _; exact ⟨[], by simp [haFold], by simp [haFold], by simp⟩
  | cons c rest ih =>
    intro B D h
    have e : haCandle c D.getLast? = haCandle c B.getLast? := haCandle_congr c _ _ h.getLast?
    obtain ⟨ext, h1, h2, h3⟩ := ih (B ++ [haCandle c B.getLast?]) (D ++ [haCandle c B.getLast?])
      (h.append (Dressed.refl _))
    refine ⟨haCandle c B.getLast? :: ext, by simp [haFold, h1], by simp [haFold, e, h2], ?_⟩
    intro x hx
    rcases List.mem_cons.1 hx with rfl | hx
    · exact plain_haCandle _ _
    · exact h3 x hx

theorem plain_haSpec (B : List (Candle F)) : ∀ c ∈ haSpec B, Plain c := by
  obtain ⟨ext, h1, _, h3⟩ := haFold_dressed B ([] : List (Candle F)) [] List.Forall₂.nil
  intro c hc
  unfold haSpec at hc
  rw [h1] at hc
  exact h3 c (by simpa using hc)

/-- the converted list of a prefix is the prefix of the converted list -/
theorem haSpec_take (B : List (Candle F)) (k : Nat) : (haSpec B).take k = haSpec (B.take k) := by
  conv_lhs => rw [← List.take_append_drop k B, haSpec_append]
  obtain ⟨ext, h1, h2, _⟩ := haFold_prefix (B.drop k) (haSpec (B.take k))
  rw [h1]
  have hl : (haSpec (B.take k)).length = min k B.length := by rw [haSpec_length]; simp
  by_cases hk : k ≤ B.length
  · rw [List.take_append_of_le_length (by omega), List.take_of_length_le (by omega)]
  · have : ext = [] := List.eq_nil_of_length_eq_zero (by rw [h2]; simp; omega)
    rw [this, List.append_nil, List.take_of_length_le (by omega)]

/-- **conversion resumes after a dressed converted prefix**: `convert_candles` on a dressed
converted list followed by untouched candles appends exactly the candles the spec appends -/
theorem convert_dressed (A T DA : List (Candle F)) (hd : Dressed (haSpec A) DA)
    (hT : ∀ c ∈ T, c.tag = false) :
    ∃ ext, (∀ c ∈ ext, Plain c) ∧ convertCandles (DA ++ T) = .ok (DA ++ ext) ∧
      haSpec (A ++ T) = haSpec A ++ ext := by
  obtain ⟨ext, h1, h2, h3⟩ := haFold_dressed T (haSpec A) DA hd
  refine ⟨ext, h3, ?_, by rw [haSpec_append, h1]⟩
  rw [convertCandles_resume DA T (hd.tagged (haSpec_rel A).tagged) hT, h2]

/-- the guard of `_tasks` (`if candles:`) is immaterial: conversion of an empty list is the identity -/
theorem convertCandles_nil : convertCandles ([] : List (Candle F)) = .ok [] := rfl

theorem convert_guard (cs : List (Candle F)) :
    (if (true && !cs.isEmpty) = true then convertCandles cs else .ok cs) = convertCandles cs := by
  cases cs with
  | nil => rfl
  | cons c r => rfl

/-! ### base timeframe + Heikin-Ashi -/

/-- Heikin-Ashi only (`C11.cfgHA`) -/
def cfgHAOnly : MgrCfg := { ha := true }

theorem tasks_haOnly (cs : List (Candle F)) : tasks cfgHAOnly cs = convertCandles cs := by
  unfold tasks cfgHAOnly collapseCandles trimCandles
  cases cs with
  | nil => rfl
  | cons c r =>
    simp only [bind, Except.bind, List.isEmpty_cons, Bool.not_false, Bool.and_self, if_true]
    cases convertCandles (c :: r) <;> rfl

/-- a raw stream for a Heikin-Ashi manager: no readings, not yet converted -/
def RawHAPlain (s : List (Candle F)) : Prop := ∀ c ∈ s, Plain c ∧ c.tag = false

/-- **base timeframe + Heikin-Ashi**: the manager hands `haSpec stream` to the engine -/
def MgrSpec.ha (F : Type) [PyF F] : MgrSpec F where
  cfg := cfgHAOnly
  Ok := RawHAPlain
  spec := haSpec
  ok_left := fun a b h c hc => h c (by simp [hc])
  spec_plain := fun s _ => plain_haSpec s
  init := fun s h => by
    rw [tasks_haOnly]
    have := convertCandles_resume ([] : List (Candle F)) s (by simp) (fun c hc => (h c hc).2)
    simpa [haSpec] using this
  append := fun s new done hok _ hd => by
    obtain ⟨ext, hp, hc, hs⟩ := convert_dressed s new done hd (fun c hc => (hok c (by simp [hc])).2)
    have hl : done.length = (haSpec s).length := hd.length_eq.symm
    refine ⟨done.length, ext, hp, by omega, ?_, ?_⟩
    · rw [tasks_haOnly, List.take_length]; exact hc
    · rw [hl, List.take_length]; exact hs

/-! ### re-collapsing dressed converted buckets -/

/-- **Re-collapsing DRESSED converted buckets followed by new raw candles** (cf. `collapse_ha_bk`):
the collapse keeps a prefix of the dressed list – all of it, or all but the re-opened newest bucket –
and produces untouched, reading-free buckets `Q`; the same split describes the resampling of the
raw bucket list followed by the new candles. -/
theorem collapse_ha_dressed (tf : Int) (htf : 0 < tf) (Bk new done : List (Candle F))
    (hb : BucketedR tf Bk.reverse) (hun : ∀ c ∈ Bk, Untouched c) (hpB : ∀ c ∈ Bk, Plain c)
    (hn : RawHA new) (hpn : ∀ c ∈ new, Plain c)
    (hmono : LabelsMono tf (Bk ++ new)) (hd : Dressed (haSpec Bk) done) :
    ∃ (k : Nat) (Q : List (Candle F)), done.length ≤ k + 1 ∧
      collapseCandles (some tf) false (done ++ new) = .ok (done.take k ++ Q) ∧
      resample tf (Bk ++ new) = Bk.take k ++ Q ∧ (∀ c ∈ Q, Untouched c) ∧ (∀ c ∈ Q, Plain c) := by
  have hrel : HaRel Bk (haSpec Bk) := haSpec_rel _
  have hts : done.map (·.ts) = Bk.map (·.ts) := hd.ts_eq.trans hrel.ts_eq
  have hstamp : ∀ b ∈ Bk, ∃ t, b.ts = some t ∧ t % tf = 0 :=
    fun b hb' => hb.stamped b (List.mem_reverse.2 hb')
  have hmonoD : LabelsMono tf (done ++ new) := by
    unfold LabelsMono at hmono ⊢
    rw [labels_append] at hmono ⊢
    rw [labels_of_ts_eq tf _ _ hts]; exact hmono
  have hclean : ∀ c ∈ done ++ new, CleanOk tf c := by
    intro c hc
    rcases List.mem_append.1 hc with hc | hc
    · exact hd.cleanOk tf (hrel.cleanOk tf hstamp) c hc
    · exact hn.cleanOk tf c hc
  have hbD : BucketedR tf done.reverse := by
    apply bucketedR_of_ts_eq tf _ Bk.reverse _ hb
    rw [List.map_reverse, hts, List.map_reverse]
  have hfirst : ∀ c, (done ++ new).head? = some c → c.ts ≠ none := by
    intro c hc
    cases hZ : done with
    | nil =>
      rw [hZ] at hc
      exact hn.stamped c (List.mem_of_mem_head? (by simpa using hc))
    | cons y yr =>
      rw [hZ] at hc; simp at hc; subst hc
      obtain ⟨t, ht, _⟩ := hbD.stamped y (by rw [hZ]; simp)
      simp [ht]
  have hcol := collapse_eq_resample tf htf _ hfirst hclean hmonoD
  have hselfD : resampleR tf done = done.reverse := by
    have := resampleR_reverse_self tf _ hbD; simpa using this
  have hselfB : resampleR tf Bk = Bk.reverse := by
    have := resampleR_reverse_self tf _ hb; simpa using this
  have hfoldD : resampleR tf (done ++ new) = new.foldl (resampleStep tf) done.reverse := by
    simp only [resampleR, List.foldl_append]
    have := hselfD; simp only [resampleR] at this; rw [this]
  have hfoldB : resampleR tf (Bk ++ new) = new.foldl (resampleStep tf) Bk.reverse := by
    simp only [resampleR, List.foldl_append]
    have := hselfB; simp only [resampleR] at this; rw [this]
  have hunAll : ∀ c ∈ resampleR tf (Bk ++ new), Untouched c :=
    resampleR_untouched tf _ (by
      intro c hc
      rcases List.mem_append.1 hc with hc | hc
      · exact hun c hc
      · exact hn.untouched c hc)
  have hplAll : ∀ c ∈ resampleR tf (Bk ++ new), Plain c := by
    intro c hc
    exact resample_plain tf (Bk ++ new) (by
      intro c hc
      rcases List.mem_append.1 hc with hc | hc
      · exact hpB c hc
      · exact hpn c hc) c (List.mem_reverse.2 hc)
  rw [hcol]
  unfold resample
  rw [hfoldD, hfoldB]
  rw [hfoldB] at hunAll hplAll
  rcases List.eq_nil_or_concat Bk with rfl | ⟨pre, bl, rfl⟩
  · have hdn : done = [] := by
      have := hd.length_eq; simp [haSpec_nil] at this
      exact List.eq_nil_of_length_eq_zero this.symm
    subst hdn
    refine ⟨0, (new.foldl (resampleStep tf) []).reverse, by simp, by simp, by simp, ?_, ?_⟩
    · intro c hc; exact hunAll c (by simpa using hc)
    · intro c hc; exact hplAll c (by simpa using hc)
  · simp only [List.concat_eq_append] at hunAll hplAll hun hd ⊢
    have hblc : bl.clean = none := (hun bl (by simp)).2
    rw [haSpec_snoc] at hd
    obtain ⟨DA, dl, rfl, hdl, hdA⟩ := hd.snoc_inv
    have hlen : DA.length = pre.length := by rw [← hdA.length_eq, haSpec_length]
    have htsl : dl.ts = bl.ts := by rw [bare_ts hdl]; rfl
    have hm : ∀ x, dl.merge x = bl.merge x := fun x => by
      rw [bare_merge hdl, merge_haCandle bl x _ hblc]
    simp only [List.reverse_append, List.reverse_cons, List.reverse_nil, List.nil_append,
      List.singleton_append] at hunAll hplAll ⊢
    rcases foldl_pair tf dl bl htsl hm new DA.reverse pre.reverse with ⟨X, h1, h2⟩ | ⟨Y, _, h1, h2⟩
    · refine ⟨(DA ++ [dl]).length, X.reverse, by omega, ?_, ?_, ?_, ?_⟩
      · rw [h1, List.take_length]; simp
      · rw [h2, List.take_of_length_le (by simp [hlen])]; simp
      · intro c hc; rw [h2] at hunAll; exact hunAll c (by simp [List.mem_reverse.1 hc])
      · intro c hc; rw [h2] at hplAll; exact hplAll c (by simp [List.mem_reverse.1 hc])
    · have htakeD : (DA ++ [dl]).take DA.length = DA := by simp
      have htakeB : (pre ++ [bl]).take DA.length = pre := by rw [hlen]; simp
      refine ⟨DA.length, Y.reverse, by simp, ?_, ?_, ?_, ?_⟩
      · rw [h1, htakeD]; simp
      · rw [h2, htakeB]; simp
      · intro c hc; rw [h2] at hunAll; exact hunAll c (by simp [List.mem_reverse.1 hc])
      · intro c hc; rw [h2] at hplAll; exact hplAll c (by simp [List.mem_reverse.1 hc])

/-! ### collapsing timeframe + Heikin-Ashi -/

theorem tasks_cfgTfHA' (tf : Int) (cs : List (Candle F)) :
    tasks (cfgTfHA tf) cs = (do
      let cs ← collapseCandles (some tf) false cs
      convertCandles cs) := by
  rw [tasks_cfgTfHA]
  cases collapseCandles (some tf) false cs with
  | error e => rfl
  | ok out => cases out <;> rfl

/-- the stream hypotheses with a timeframe and conversion: `RawTf`, and not yet converted -/
def RawTfHA (s : List (Candle F)) : Prop := RawTf s ∧ ∀ c ∈ s, c.tag = false

theorem RawTfHA.rawHA {s : List (Candle F)} (h : RawTfHA s) : RawHA s := h.1.rawHA h.2

theorem RawTfHA.append_left {a b : List (Candle F)} (h : RawTfHA (a ++ b)) : RawTfHA a :=
  ⟨h.1.append_left, fun c hc => h.2 c (by simp [hc])⟩

theorem RawTfHA.append_right {a b : List (Candle F)} (h : RawTfHA (a ++ b)) : RawTfHA b :=
  ⟨h.1.append_right, fun c hc => h.2 c (by simp [hc])⟩

/-- one append on a collapsing timeframe with conversion, dressed converted buckets -/
theorem tasks_tf_ha_dressed (tf : Int) (htf : 0 < tf) (s new done : List (Candle F))
    (h : RawTfHA (s ++ new)) (hd : Dressed (haSpec (resample tf s)) done) :
    ∃ (k : Nat) (Q : List (Candle F)), (∀ c ∈ Q, Plain c) ∧ done.length ≤ k + 1 ∧
      tasks (cfgTfHA tf) (done ++ new) = .ok (done.take k ++ Q) ∧
      haSpec (resample tf (s ++ new)) = (haSpec (resample tf s)).take k ++ Q := by
  have hs : RawTf s := h.1.append_left
  have hcs := hs.cleanOk tf
  have hms : LabelsMono tf s := labelsMono_of_sorted tf htf s hs.sorted
  have hb : BucketedR tf (resampleR tf s) := resampleR_bucketed tf htf s hcs hms
  obtain ⟨k, Q, hk, hcol, hres, hQu, hQp⟩ := collapse_ha_dressed tf htf (resample tf s) new done
    (by unfold resample; simpa using hb) (resample_untouched tf s h.append_left.rawHA.untouched)
    (resample_plain tf s hs.plain) h.append_right.rawHA h.1.append_right.plain
    (labelsMono_resample_append tf htf s new hcs (labelsMono_of_sorted tf htf _ h.1.sorted)) hd
  have hres' : resample tf (s ++ new) = (resample tf s).take k ++ Q := by
    rw [← hres]
    have e := resampleR_resample_append tf htf s new hcs hms
    unfold resample at e ⊢
    rw [e]
  have hdk : Dressed (haSpec ((resample tf s).take k)) (done.take k) := by
    rw [← haSpec_take]; exact hd.take k
  obtain ⟨ext, hp, hc, hsp⟩ := convert_dressed ((resample tf s).take k) Q (done.take k) hdk
    (fun c hc => (hQu c hc).1)
  refine ⟨k, ext, hp, hk, ?_, ?_⟩
  · rw [tasks_cfgTfHA', hcol]
    simp only [bind, Except.bind]
    exact hc
  · rw [hres', hsp, haSpec_take]

/-- **collapsing timeframe + Heikin-Ashi**: the engine sees `haSpec (resample tf stream)` -/
def MgrSpec.tfHA (F : Type) [PyF F] (tf : Int) (htf : 0 < tf) : MgrSpec F where
  cfg := cfgTfHA tf
  Ok := RawTfHA
  spec := fun s => haSpec (resample tf s)
  ok_left := fun a b h => h.append_left
  spec_plain := fun s _ => plain_haSpec _
  init := fun s h => by
    have := tasks_tf_ha_append tf htf [] s (by simpa using h.rawHA)
    simpa [resample, resampleR, haSpec_nil] using this
  append := fun s new done hok _ hd => tasks_tf_ha_dressed tf htf s new done hok hd

/-! ### collapsing timeframe + gap filling + Heikin-Ashi -/

/-- **Filling `dressed converted prefix ++ raw rest`** (cf. `fill_ha_prefix`): the fill pass leaves the
contiguous dressed prefix alone and inserts after its last candle what it inserts after the raw one
(it reads only the stamp and the raw close). -/
theorem fill_ha_dressed (tf : Int) (htf : 0 < tf) (A Q Z' DA : List (Candle F))
    (hcont : Contiguous tf A) (hunA : ∀ c ∈ A, Untouched c) (hunQ : ∀ c ∈ Q, Untouched c)
    (hd : Dressed (haSpec A) DA) (hfill : fillMissing tf (A ++ Q) = .ok Z') :
    ∃ T, Z' = A ++ T ∧ fillMissing tf (DA ++ Q) = .ok (DA ++ T) ∧ (∀ c ∈ T, Untouched c) := by
  rcases List.eq_nil_or_concat A with rfl | ⟨A', a₀, rfl⟩
  · have hdn : DA = [] := by
      have := hd.length_eq; simp [haSpec_nil] at this
      exact List.eq_nil_of_length_eq_zero this.symm
    subst hdn
    refine ⟨Z', by simp, by simpa using hfill, ?_⟩
    intro c hc
    rcases mem_fillMissing tf _ Z' (by simpa using hfill) c hc with h1 | ⟨p, u, rfl⟩
    · exact hunQ c h1
    · exact untouched_fillCandle p u
  · simp only [List.concat_eq_append] at hcont hunA hfill hd ⊢
    have ha₀ : a₀.clean = none := (hunA a₀ (by simp)).2
    have htsD : DA.map (·.ts) = (A' ++ [a₀]).map (·.ts) := hd.ts_eq.trans (haSpec_rel _).ts_eq
    have hcontD : Contiguous tf DA := contiguous_of_ts tf _ _ htsD hcont
    rw [haSpec_snoc] at hd
    obtain ⟨DA', a, rfl, ha, hdA⟩ := hd.snoc_inv
    rw [List.append_assoc, List.singleton_append, fillMissing_split tf A' a₀ Q,
        fillMissing_contiguous tf htf _ hcont] at hfill
    cases hB : fillMissing tf (a₀ :: Q) with
    | error e => rw [hB] at hfill; cases hfill
    | ok B' =>
      rw [hB] at hfill
      simp only [bind, Except.bind, pure, Except.pure, List.dropLast_concat] at hfill
      obtain ⟨T, rfl⟩ := fillMissing_head tf a₀ Q B' hB
      have hZ'eq : Z' = A' ++ a₀ :: T := (Except.ok.inj hfill).symm
      refine ⟨T, by rw [hZ'eq]; simp, ?_, ?_⟩
      · have hts : a.ts = a₀.ts := by rw [bare_ts ha]; rfl
        have hrc : a.rawClose = a₀.rawClose := by rw [bare_rawClose ha, rawClose_haCandle a₀ _ ha₀]
        rw [List.append_assoc, List.singleton_append, fillMissing_split tf DA' a Q,
            fillMissing_contiguous tf htf _ hcontD, fillMissing_head_congr tf a₀ a Q T hts hrc hB]
        simp [bind, Except.bind, pure, Except.pure]
      · intro c hc
        rcases mem_fillMissing tf _ _ hB c (List.mem_cons_of_mem _ hc) with h1 | ⟨p, u, rfl⟩
        · rcases List.mem_cons.1 h1 with rfl | h1
          · exact hunA _ (by simp)
          · exact hunQ c h1
        · exact untouched_fillCandle p u

theorem tasks_cfgFillHA' (tf : Int) (cs : List (Candle F)) :
    tasks (cfgFillHA tf) cs = (do
      let cs ← collapseCandles (some tf) true cs
      convertCandles cs) := by
  rw [tasks_cfgFillHA]
  cases collapseCandles (some tf) true cs with
  | error e => rfl
  | ok out => cases out <;> rfl

/-- one append with fill and conversion, dressed converted filled buckets -/
theorem tasks_fill_ha_dressed (tf : Int) (htf : 0 < tf) (s new Z DZ : List (Candle F))
    (h : RawTfHA (s ++ new)) (hZ : FilledOf tf s Z) (hd : Dressed (haSpec Z) DZ) :
    ∃ (k : Nat) (Q Z' : List (Candle F)), (∀ c ∈ Q, Plain c) ∧ DZ.length ≤ k + 1 ∧
      tasks (cfgFillHA tf) (DZ ++ new) = .ok (DZ.take k ++ Q) ∧
      FilledOf tf (s ++ new) Z' ∧ haSpec Z' = (haSpec Z).take k ++ Q := by
  have hraw : RawTf (s ++ new) := h.1
  have hha : RawHA (s ++ new) := h.rawHA
  have hn : RawHA new := hha.append_right
  have hunZ : ∀ c ∈ Z, Untouched c := hZ.untouched hha.append_left.untouched
  obtain ⟨Z', hZ'⟩ := filledOf tf htf (s ++ new) hraw
  obtain ⟨k, Q, hk, hcol, hres, hQu, hQp⟩ := collapse_ha_dressed tf htf Z new DZ hZ.bucketed.reverseR hunZ
    hZ.plain hn hraw.append_right.plain (labelsMono_filled_append tf htf s new Z hraw hZ) hd
  have hfill : fillMissing tf (Z.take k ++ Q) = .ok Z' := by
    rw [← hres, fill_resample_append tf htf s new Z hraw hZ]; exact hZ'.eq
  have hdk : Dressed (haSpec (Z.take k)) (DZ.take k) := by
    rw [← haSpec_take]; exact hd.take k
  obtain ⟨T, hZT, hfillD, hT⟩ := fill_ha_dressed tf htf (Z.take k) Q Z' (DZ.take k)
    (contiguous_take tf Z k hZ.contig) (fun c hc => hunZ c (List.mem_of_mem_take hc)) hQu hdk hfill
  obtain ⟨ext, hp, hc, hsp⟩ := convert_dressed (Z.take k) T (DZ.take k) hdk (fun c hc => (hT c hc).1)
  have hfirst : ∀ c, (DZ ++ new).head? = some c → c.ts ≠ none := by
    intro c hc
    cases hz : DZ with
    | nil => rw [hz] at hc; exact hn.stamped c (List.mem_of_mem_head? (by simpa using hc))
    | cons y yr =>
      rw [hz] at hc; simp at hc; subst hc
      have hmem : y.ts ∈ DZ.map (·.ts) := List.mem_map.2 ⟨y, by rw [hz]; simp, rfl⟩
      rw [hd.ts_eq, (haSpec_rel Z).ts_eq] at hmem
      obtain ⟨b, hb, hby⟩ := List.mem_map.1 hmem
      obtain ⟨t, ht, _⟩ := hZ.bucketed.stamped b hb
      rw [← hby, ht]; simp
  refine ⟨k, ext, Z', hp, hk, ?_, hZ', by rw [hZT, hsp, haSpec_take]⟩
  rw [tasks_cfgFillHA', collapse_fill_eq tf _ hfirst, hcol]
  simp only [bind, Except.bind]
  rw [hfillD]
  exact hc

/-- **collapsing timeframe + gap filling + Heikin-Ashi**: the engine sees `haSpec (fillSpec tf stream)` -/
def MgrSpec.fillHA (F : Type) [PyF F] (tf : Int) (htf : 0 < tf) : MgrSpec F where
  cfg := cfgFillHA tf
  Ok := RawTfHA
  spec := fun s => haSpec (fillSpec tf s)
  ok_left := fun a b h => h.append_left
  spec_plain := fun s _ => plain_haSpec _
  init := fun s h => by
    obtain ⟨Z0, hZ0⟩ := filledOf tf htf ([] : List (Candle F)) ⟨by simp, by simp, by simp, by simp⟩
    have hnil := filledOf_nil tf Z0 hZ0
    subst hnil
    obtain ⟨Z1, hZ1, h1⟩ := tasks_fill_ha_append tf htf [] s [] (by simpa using h.1)
      (by simpa using h.2) hZ0
    simp only [haSpec_nil, List.nil_append] at h1 hZ1
    rw [hZ1.spec_eq]; exact h1
  append := fun s new done hok _ hd => by
    obtain ⟨Z, hZ⟩ := filledOf tf htf s hok.1.append_left
    rw [hZ.spec_eq] at hd
    obtain ⟨k, Q, Z', hQ, hk, ht, hZ', hres⟩ := tasks_fill_ha_dressed tf htf s new Z done hok hZ hd
    exact ⟨k, Q, hQ, hk, ht, by rw [hZ'.spec_eq, hZ.spec_eq]; exact hres⟩

end Hex

/-! ### the converted candles of a well-formed stream are well-formed (exact field) -/

namespace Hex.Numeric
variable {K : Type} [Field K] [LinearOrder K] [IsStrictOrderedRing K] [LawfulPyF K]

/-- a well-formed candle (`Hex.C09.WellFormedCandle`, restated verbatim): positive prices,
`low ≤ open, close ≤ high`, non-negative volume -/
structure WellFormed (c : Candle K) : Prop where
  pos : 0 < c.l.toF
  lo : c.l.toF ≤ c.o.toF ∧ c.l.toF ≤ c.c.toF
  hi : c.o.toF ≤ c.h.toF ∧ c.c.toF ≤ c.h.toF
  vol : 0 ≤ c.v.toF

theorem div_lit (x : K) (k : Int) (hk : (k : K) ≠ 0) : PyF.div x (PyF.ofInt k) = x / (k : K) := by
  rw [LawfulPyF.div_eq _ _ (by rw [LawfulPyF.ofInt_eq]; exact hk), LawfulPyF.ofInt_eq]

/-- the Heikin-Ashi open of a candle given its converted predecessor -/
def haOpen (c : Candle K) : Option (Candle K) → K
  | none => (c.o.toF + c.c.toF) / 2
  | some p => (p.o.toF + p.c.toF) / 2

/-- **the four Heikin-Ashi values in the exact field** -/
theorem haCandle_toF (c : Candle K) (prev : Option (Candle K)) :
    (haCandle c prev).o.toF = haOpen c prev ∧
    (haCandle c prev).c.toF = (c.o.toF + c.h.toF + c.l.toF + c.c.toF) / 4 ∧
    (haCandle c prev).h.toF = max (max (haOpen c prev) c.h.toF) ((c.o.toF + c.h.toF + c.l.toF + c.c.toF) / 4) ∧
    (haCandle c prev).l.toF = min (min (haOpen c prev) c.l.toF) ((c.o.toF + c.h.toF + c.l.toF + c.c.toF) / 4) ∧
    (haCandle c prev).v = c.v := by
  have h4 : ∀ x : K, PyF.div x (PyF.ofInt 4) = x / 4 := fun x => by
    rw [div_lit x 4 (by norm_num)]; norm_num
  have h2 : ∀ x : K, PyF.div x (PyF.ofInt 2) = x / 2 := fun x => by
    rw [div_lit x 2 (by norm_num)]; norm_num
  cases prev <;> simp [haCandle, haValues, haOpen, h4, h2]

/-- **`haCandle` preserves well-formedness**: `low ≤ open, close ≤ high` hold by construction
(`max` / `min`), positivity because every Heikin-Ashi value is a mean of positive prices -/
theorem wellFormed_haCandle (c : Candle K) (prev : Option (Candle K)) (hc : WellFormed c)
    (hp : ∀ p, prev = some p → WellFormed p) : WellFormed (haCandle c prev) := by
  obtain ⟨ho, hcl, hh, hl, hv⟩ := haCandle_toF c prev
  have hopos : 0 < c.o.toF := lt_of_lt_of_le hc.pos hc.lo.1
  have hcpos : 0 < c.c.toF := lt_of_lt_of_le hc.pos hc.lo.2
  have hhpos : 0 < c.h.toF := lt_of_lt_of_le hopos hc.hi.1
  have hopn : 0 < haOpen c prev := by
    cases prev with
    | none => simp only [haOpen]; linarith
    | some p =>
      have hpw := hp p rfl
      have h1 : 0 < p.o.toF := lt_of_lt_of_le hpw.pos hpw.lo.1
      have h2 : 0 < p.c.toF := lt_of_lt_of_le hpw.pos hpw.lo.2
      simp only [haOpen]; linarith
  have hclpos : 0 < (c.o.toF + c.h.toF + c.l.toF + c.c.toF) / 4 := by linarith [hc.pos]
  refine ⟨?_, ⟨?_, ?_⟩, ⟨?_, ?_⟩, by rw [hv]; exact hc.vol⟩
  · rw [hl]; exact lt_min (lt_min hopn hc.pos) hclpos
  · rw [hl, ho]; exact le_trans (min_le_left _ _) (min_le_left _ _)
  · rw [hl, hcl]; exact min_le_right _ _
  · rw [hh, ho]; exact le_trans (le_max_left _ _) (le_max_left _ _)
  · rw [hh, hcl]; exact le_max_right _ _

theorem wellFormed_haFold (fresh : List (Candle K)) : ∀ done : List (Candle K),
    (∀ c ∈ done, WellFormed c) → (∀ c ∈ fresh, WellFormed c) → ∀ c ∈ haFold done fresh, WellFormed c := by
  induction fresh with
  | nil => intro done hd _; exact hd
  | cons x rest ih =>
    intro done hd hf
    refine ih _ ?_ (fun c hc => hf c (List.mem_cons_of_mem _ hc))
    intro c hc
    rcases List.mem_append.1 hc with hc | hc
    · exact hd c hc
    · simp only [List.mem_singleton] at hc
      subst hc
      exact wellFormed_haCandle x _ (hf x (List.mem_cons_self))
        (fun p hp => hd p (List.mem_of_getLast? hp))

/-- **every candle a Heikin-Ashi manager hands to the engine is well-formed** when the raw (or
collapsed / gap-filled raw) candles are -/
theorem wellFormed_haSpec (raw : List (Candle K)) (h : ∀ c ∈ raw, WellFormed c) :
    ∀ c ∈ haSpec raw, WellFormed c :=
  wellFormed_haFold raw [] (by simp) h

end Hex.Numeric

/-! ### the main statements: totality on Heikin-Ashi managers -/

namespace Hex
open Hex.Numeric
variable {F : Type} [PyF F] {ind : Ind F}

/-- `NeverRaises` on base timeframe + Heikin-Ashi, unfolded: every stream of reading-free, not yet
converted candles (ANY prices), every construction prefix, every append schedule -/
theorem neverRaises_ha_iff (ind : Ind F) :
    NeverRaises (MgrSpec.ha F) ind ↔ ∀ (init : List (Candle F)) (chunks : List (List (Candle F))),
      (∀ c ∈ init ++ chunks.flatten, Plain c ∧ c.tag = false) →
      ∃ snap, candlesOf (runIndicator ind { ha := true } init chunks) = .ok snap := Iff.rfl

/-- … on a collapsing timeframe + Heikin-Ashi -/
theorem neverRaises_tfHA_iff (tf : Int) (htf : 0 < tf) (ind : Ind F) :
    NeverRaises (MgrSpec.tfHA F tf htf) ind ↔ ∀ (init : List (Candle F)) (chunks : List (List (Candle F))),
      (RawTf (init ++ chunks.flatten) ∧ ∀ c ∈ init ++ chunks.flatten, c.tag = false) →
      ∃ snap, candlesOf (runIndicator ind { tf := some tf, ha := true } init chunks) = .ok snap := Iff.rfl

/-- … on a collapsing timeframe + gap filling + Heikin-Ashi -/
theorem neverRaises_fillHA_iff (tf : Int) (htf : 0 < tf) (ind : Ind F) :
    NeverRaises (MgrSpec.fillHA F tf htf) ind ↔ ∀ (init : List (Candle F)) (chunks : List (List (Candle F))),
      (RawTf (init ++ chunks.flatten) ∧ ∀ c ∈ init ++ chunks.flatten, c.tag = false) →
      ∃ snap, candlesOf (runIndicator ind { tf := some tf, fill := true, ha := true } init chunks) = .ok snap :=
  Iff.rfl

theorem spec_ha (s : List (Candle F)) : (MgrSpec.ha F).spec s = haSpec s := rfl
theorem spec_tfHA (tf : Int) (htf : 0 < tf) (s : List (Candle F)) :
    (MgrSpec.tfHA F tf htf).spec s = haSpec (resample tf s) := rfl
theorem spec_fillHA (tf : Int) (htf : 0 < tf) (s : List (Candle F)) :
    (MgrSpec.fillHA F tf htf).spec s = haSpec (fillSpec tf s) := rfl

/-- **Totality on every Heikin-Ashi manager, generic** (every float carrier `F`): a tree whose
row-major spec returns on every reading-free candle list never raises on a manager with
Heikin-Ashi conversion – base timeframe, collapsing timeframe, timeframe with gap filling –, and
what it returns is the row-major run over the CONVERTED candles of the whole stream. -/
theorem TreeSpec.live_total_ha (T : TreeSpec ind) (htot : T.Total) :
    NeverRaises (MgrSpec.ha F) ind ∧
    ∀ (tf : Int) (htf : 0 < tf), NeverRaises (MgrSpec.tfHA F tf htf) ind ∧ NeverRaises (MgrSpec.fillHA F tf htf) ind :=
  ⟨T.live_total _ htot, fun tf htf => ⟨T.live_total _ htot, T.live_total _ htot⟩⟩

theorem TreeSpec.live_refines_ha (T : TreeSpec ind) (init : List (Candle F)) (chunks : List (List (Candle F)))
    (hok : RawHAPlain (init ++ chunks.flatten)) (snap : List (Candle F))
    (hsnap : candlesOf (runIndicator ind cfgHAOnly init chunks) = .ok snap) :
    Gen.rowMajor T.S (haSpec (init ++ chunks.flatten)) = .ok snap :=
  T.live_refines (MgrSpec.ha F) init chunks hok snap hsnap

end Hex

namespace Hex.Numeric
variable {K : Type} [Field K] [LinearOrder K] [IsStrictOrderedRing K] [LawfulPyF K]

/-- **The leaf averages and window kinds on Heikin-Ashi managers** (instances of the `…_live_total`
theorems of Total.lean, which hold for every `MgrSpec`): SMA, EMA, RMA, WMA, VWMA, HLA, TR, OBV never
raise on `M ∈ {MgrSpec.ha, MgrSpec.tfHA tf, MgrSpec.fillHA tf}` -/
theorem leaves_never_raise_ha (M : MgrSpec K) (p : Nat) (hp : 2 ≤ p) (nm : String) (n : Nat) (hk : IsKey nm) :
    NeverRaises M (mkTop (.sma p "close" : Kind K) nm n) ∧
    NeverRaises M (mkTop (.ema p "close" (fl 2) : Kind K) nm n) ∧
    NeverRaises M (mkTop (.rma p "close" : Kind K) nm n) ∧
    NeverRaises M (mkTop (.wma p "close" : Kind K) nm n) ∧
    NeverRaises M (mkTop (.vwma p : Kind K) nm n) ∧
    NeverRaises M (mkTop (.hla : Kind K) nm n) ∧
    NeverRaises M (mkTop (.tr : Kind K) nm n) ∧
    NeverRaises M (mkTop (.obv : Kind K) nm n) :=
  ⟨(sma_live_total M p hp nm "close" (·.c) n hk ⟨noDot_close, by decide⟩ (fun _ => rfl)).1,
   (ema_live_total M p hp nm "close" (·.c) n hk ⟨noDot_close, by decide⟩ (fun _ => rfl)).1,
   (rma_live_total M p hp nm "close" (·.c) n hk ⟨noDot_close, by decide⟩ (fun _ => rfl)).1,
   (wma_live_total M p hp nm "close" (·.c) n hk ⟨noDot_close, by decide⟩ (fun _ => rfl)).1,
   (vwma_live_total M p hp nm n hk).1, (hla_live_total M nm n hk).1, (tr_live_total M nm n hk).1,
   (obv_live_total M nm n hk).1⟩

/-! ### non-vacuity -/

/-- five well-formed candles with one-minute stamps (the last two with zero volume, the last flat) -/
def haStamped : List (Candle ℚ) :=
  [ { Demo.mk 10 12 9 11 100 with ts := some 60 }, { Demo.mk 11 13 10 12 200 with ts := some 120 },
    { Demo.mk 12 15 11 14 300 with ts := some 180 }, { Demo.mk 14 16 13 15 0 with ts := some 480 },
    { Demo.mk 15 15 15 15 0 with ts := some 540 } ]

theorem haStamped_ok : RawTfHA haStamped := by
  refine ⟨⟨by decide, by decide, by decide, ?_⟩, by decide⟩
  intro c hc
  simp only [haStamped, List.mem_cons, List.not_mem_nil, or_false] at hc
  rcases hc with rfl | rfl | rfl | rfl | rfl <;> exact ⟨rfl, rfl⟩

theorem haStamped_plain : RawHAPlain haStamped := fun c hc => ⟨haStamped_ok.1.plain c hc, haStamped_ok.2 c hc⟩

theorem haStamped_wf : ∀ c ∈ haStamped, WellFormed c := by
  intro c hc
  simp only [haStamped, List.mem_cons, List.not_mem_nil, or_false] at hc
  rcases hc with rfl | rfl | rfl | rfl | rfl <;> constructor <;> norm_num [Demo.mk]

/-- MACD(2, 3, 2), ADX(2, 2) and Supertrend(2, ×3) on a two-minute timeframe WITH gap filling AND
Heikin-Ashi conversion, fed one candle at a time: every history returns; and the batch run of
BBANDS(2) / STOCH(2, 1, 1) on the base timeframe with conversion -/
example :
    (∃ snap, candlesOf (runIndicator
      (mkTop (.macd ((2 : Nat) : Int) ((3 : Nat) : Int) ((2 : Nat) : Int) "close" : Kind ℚ) "MACD_2_3_2" 4)
      { tf := some 120, fill := true, ha := true } [] (haStamped.map fun c => [c])) = .ok snap) ∧
    (∃ snap, candlesOf (runIndicator (mkTop (.adx ((2 : Nat) : Int) ((2 : Nat) : Int) : Kind ℚ) "ADX_2_2" 4)
      { tf := some 120, fill := true, ha := true } [] (haStamped.map fun c => [c])) = .ok snap) ∧
    (∃ snap, candlesOf (runIndicator (mkTop (.supertrend ((2 : Nat) : Int) "close" (.int 3) : Kind ℚ) "ST_2" 4)
      { tf := some 120, ha := true } (haStamped.take 2) [haStamped.drop 2]) = .ok snap) ∧
    (∃ snap, candlesOf (runIndicator (mkTop (.sma (2 : Nat) "close" : Kind ℚ) "SMA_2" 4)
      { ha := true } haStamped []) = .ok snap) :=
  ⟨(macd_live_total (MgrSpec.fillHA ℚ 120 (by decide)) "MACD_2_3_2" 4 2 3 2 "close" (·.c) (by norm_num)
      (by norm_num) (by norm_num) macdNames_demo ⟨noDot_close, by decide⟩ (fun _ => rfl)).1 [] _
      haStamped_ok,
   (adx_live_total (MgrSpec.fillHA ℚ 120 (by decide)) "ADX_2_2" 4 2 2 (by norm_num) (by norm_num) adxNames_demo).1
      [] _ haStamped_ok,
   (st_live_total (MgrSpec.tfHA ℚ 120 (by decide)) 2 (by norm_num) "ST_2" "close" (.int 3) 4 stNames_demo
      (by decide)).1 _ _ haStamped_ok,
   (leaves_never_raise_ha (MgrSpec.ha ℚ) 2 (by norm_num) "SMA_2" 4 (by decide)).1 haStamped []
      haStamped_plain⟩

/-- the converted candles of the demo stream are well-formed -/
example : ∀ c ∈ haSpec haStamped, WellFormed c := wellFormed_haSpec _ haStamped_wf

end Hex.Numeric

namespace Hex
/-! non-vacuity over the toy carrier `Int` (`decide +kernel`): Counter on timeframe + fill + HA -/
section IntDemo
private def mkI (o h l c v t : Int) : Candle Int :=
  { o := .int o, h := .int h, l := .int l, c := .int c, v := .int v, ts := some t }

def haIntStream : List (Candle Int) :=
  [mkI 10 30 10 30 100 60, mkI 20 50 20 30 200 120, mkI 40 40 10 30 50 180, mkI 10 120 10 120 70 480,
   mkI 30 60 20 60 90 540]

theorem haIntStream_ok : RawTfHA haIntStream := ⟨⟨by decide, by decide, by decide, by decide⟩, by decide⟩

/-- the theorem applied (Counter is total for every carrier) … -/
example : ∃ snap, candlesOf (runIndicator (mkTop (.counter "close" (.num (.int 30))) "COUNT_close" 4 : Ind Int)
    (cfgFillHA 120) (haIntStream.take 1) [haIntStream.drop 1 |>.take 2, [], haIntStream.drop 3]) = .ok snap :=
  (Numeric.counter_live_total (MgrSpec.fillHA Int 120 (by decide)) "COUNT_close" "close" (·.c) (.num (.int 30)) 4
    (by decide) ⟨by decide, by decide⟩ (fun _ => rfl)).1 _ _ haIntStream_ok

/-- … and the run itself: it returns, with one converted candle per filled two-minute bucket (120 … 600) -/
example : ((candlesOf (runIndicator (mkTop (.counter "close" (.num (.int 30))) "COUNT_close" 4 : Ind Int)
    (cfgFillHA 120) (haIntStream.take 1) [haIntStream.drop 1 |>.take 2, [], haIntStream.drop 3])).toOption.map
      (·.map fun c => (c.ts, c.tag))) = some
    [(some 120, true), (some 240, true), (some 360, true), (some 480, true), (some 600, true)] := by decide +kernel
end IntDemo
end Hex

#print axioms Hex.MgrSpec.ha
#print axioms Hex.MgrSpec.tfHA
#print axioms Hex.MgrSpec.fillHA
#print axioms Hex.TreeSpec.live_total_ha
#print axioms Hex.Numeric.wellFormed_haSpec
#print axioms Hex.Numeric.leaves_never_raise_ha

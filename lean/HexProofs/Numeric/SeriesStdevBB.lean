import HexProofs.Framework.Gen.BBands
import HexProofs.Numeric.SeriesRSI
import HexProofs.Numeric.SeriesATR
import HexProofs.Numeric.Stdev
import HexProofs.Numeric.Channel
/-!
# STDEV and BBANDS: the whole series (closes the STDEV and BBANDS items of `C05_FULL`)

`Gen.rowMajor (stdevTree …).S raw` / `Gen.rowMajor (bbTree …).S raw` are the row-major runs of the
two trees; by `TreeSpec.engine` / `batch_iff` / `live_refines` they are what `calculate()`, the batch
run and every append schedule return.

## What the model (hexital/indicators/stdev.py, bbands.py, sma.py) really does
* **STDEV warm-up index is `p`, not `p − 1`.**  `_calculate_reading` returns a value only when
  `reading_period(period + 1, input)` holds, i.e. from the candle on which a value LEAVES the window.
  On candle `p − 1` the window of `p` inputs is already full, the stored mean / variance already are
  those of the window, but the own reading is still `None`.
* **the data series is unrounded** (`Managed.set_reading`): `name_data = {mean, variance}` holds
  EXACTLY the running statistics.  They start from `0`, so before the window is full they are the
  mean / population variance of the ZERO-PADDED window (`runMean`, `runVar`: e.g. `mean₀ = x₀/p`); from
  index `p − 1` on they are the mean and `mean((x − mean)²)` of the last `p` inputs
  (`runMean_eq_winMean`, `runVar_eq_popVar`, via the Welford identity `welford`).  Nothing rounded is
  fed back, so there is no error growth: own reading `= round_n(sqrt(max(var, 0)))`, the clamp is
  inactive over an exact field (`popVar ≥ 0`), `|σ_stored − σ| ≤ ε_n`, `σ_stored ≥ 0`.
* **BBANDS**: the helpers `name_STDEV` (+ `name_STDEV_data`) and `name_SMA` are prior sub-indicators,
  both rounded to `defaultRound = 4` by the engine.  The SMA helper's first reading is at `p − 1`, the
  STDEV helper's at `p`, so the own reading is the dict `{BBL: None, BBM: None, BBU: None}` (not `None`)
  on candles `0 … p − 1` and the bands from candle `p` on.  The SMA helper is computed by its running
  update from its STORED predecessor, so its budget grows: `(j + 2 − p)·ε₄` (`SmaOK`).  The bands are
  `round_n(m), round_n(m ∓ 2s)` of the STORED `m`, `s`: ordered (`round` is monotone, `s ≥ 0`), middle
  within `ε_n + (j+2−p)·ε₄`, outer bands within `ε_n + (j+4−p)·ε₄` of `SMA ∓ 2σ`.
  The SMA helper needs `period ≥ 2` (`candles_sum` returns `None` at index 0), hence `2 ≤ p` for BBANDS.

## Contents
* textbook: `winMean` (SeriesAvg), `popVar`, `sigmaExact`, `stdevSeries`, `bbSeries`; running
  statistics `runSum`, `runMean`, `runVar`;
* predicates: `StdevOK` (own reading, data entry), `SdCandleOK`; `BbOK` (row of four stored values),
  `BbOK.bands`, `BbCandleOK`;
* theorems: `stdev_series`, `stdev_series_candles`, `stdev_series_engine`, `stdev_series_batch`,
  `stdev_batch_readings`, `stdev_series_live`; `bb_series`, `bb_series_candles`, `bb_series_engine`,
  `bb_series_batch`, `bb_batch_readings`, `bb_series_live`;
* reusable: `stdev_core`, `sma_core` (one call on ANY history whose input column and previous entries
  are known), `input_facts`, `lastReading_decoWith`, `rwCalc_inv`.
`sqrt` is the abstract `PyF.sqrt`; `σ ≥ 0` needs `[NonnegSqrt K]`, `σ·σ = popVar` needs `[LawfulSqrt K]`
(`sigmaExact_root`; ℝ is an instance, ℚ only of `NonnegSqrt` with a stub `sqrt`).
-/
set_option linter.unusedSectionVars false
set_option linter.unusedSimpArgs false
namespace Hex
namespace Numeric
variable {K : Type} [Field K] [LinearOrder K] [IsStrictOrderedRing K] [LawfulPyF K]

/-! ### the textbook series -/

theorem rsum_window (a p : Nat) (x : Nat → K) : rsum (a + p) x - rsum a x = rsum p (fun k => x (a + k)) := by
  induction p with
  | zero => simp [rsum]
  | succ n ih => rw [← Nat.add_assoc, rsum_succ, rsum_succ, ← ih]; ring

/-- sum of the (at most `p`) inputs ending at index `j`: `x (j+1−p) + … + x j`; before the window is
full the missing entries count as `0` (the library starts its running statistics from `0`) -/
def runSum (p : Nat) (x : Nat → K) (j : Nat) : K := rsum (j + 1) x - rsum (j + 1 - p) x

theorem runSum_zero (p : Nat) (hp : 1 ≤ p) (x : Nat → K) : runSum p x 0 = x 0 := by
  have : 0 + 1 - p = 0 := by omega
  simp [runSum, this, rsum]

/-- the value leaving the window when candle `j` enters: `x (j − p)` once `p + 1` inputs exist -/
def remAt (p : Nat) (x : Nat → K) (j : Nat) : K := if p ≤ j then x (j - p) else 0

theorem runSum_step (p : Nat) (x : Nat → K) (j : Nat) (hj : 1 ≤ j) :
    runSum p x j = runSum p x (j - 1) - remAt p x j + x j := by
  obtain ⟨i, rfl⟩ : ∃ i, j = i + 1 := ⟨j - 1, by omega⟩
  unfold runSum remAt
  simp only [Nat.add_sub_cancel]
  rw [rsum_succ (i + 1)]
  by_cases h : p ≤ i + 1
  · have e : i + 1 + 1 - p = (i + 1 - p) + 1 := by omega
    rw [e, rsum_succ (i + 1 - p), if_pos h]; ring
  · have e1 : i + 1 + 1 - p = 0 := by omega
    have e2 : i + 1 - p = 0 := by omega
    rw [e1, e2, if_neg h]; ring

theorem runSum_window (p : Nat) (x : Nat → K) (j : Nat) (hj : p ≤ j + 1) :
    runSum p x j = rsum p (fun k => x (j + 1 - p + k)) := by
  unfold runSum
  rw [← rsum_window]
  congr 2
  omega

/-- the running mean the library keeps under `name_data.mean` -/
def runMean (p : Nat) (x : Nat → K) (j : Nat) : K := runSum p x j / p
/-- the running (population) variance the library keeps under `name_data.variance` -/
def runVar (p : Nat) (x : Nat → K) (j : Nat) : K := runSum p (fun i => x i ^ 2) j / p - (runMean p x j) ^ 2

/-- textbook population variance of the `p` inputs ending at `j`: `mean((x − mean)²)` -/
def popVar (x : Nat → K) (p j : Nat) : K :=
  rsum p (fun k => (x (j + 1 - p + k) - winMean x p j) ^ 2) / p

theorem popVar_nonneg (x : Nat → K) (p j : Nat) : 0 ≤ popVar x p j := by
  unfold popVar
  exact div_nonneg (rsum_nonneg p _ (fun k _ => sq_nonneg _)) (by positivity)

theorem runMean_eq_winMean (p : Nat) (x : Nat → K) (j : Nat) (hj : p ≤ j + 1) :
    runMean p x j = winMean x p j := by
  unfold runMean winMean
  rw [runSum_window p x j hj]

theorem rsum_sq_dev (p : Nat) (y : Nat → K) (m : K) :
    rsum p (fun k => (y k - m) ^ 2) = rsum p (fun k => y k ^ 2) - 2 * m * rsum p y + p * m ^ 2 := by
  induction p with
  | zero => simp [rsum]
  | succ n ih => rw [rsum_succ, rsum_succ, rsum_succ, ih]; push_cast; ring

/-- `E[x²] − E[x]²` is the mean squared deviation -/
theorem runVar_eq_popVar (p : Nat) (hp : 1 ≤ p) (x : Nat → K) (j : Nat) (hj : p ≤ j + 1) :
    runVar p x j = popVar x p j := by
  have hpK : (p : K) ≠ 0 := by exact_mod_cast (by omega : p ≠ 0)
  unfold runVar popVar
  rw [runMean_eq_winMean p x j hj, runSum_window p _ j hj, rsum_sq_dev]
  unfold winMean
  field_simp
  ring

/-- the running update of `hexital/indicators/stdev.py` maps the statistics of candle `j − 1` to
those of candle `j` (`welford`) -/
theorem runStats_step (p : Nat) (hp : 1 ≤ p) (x : Nat → K) (j : Nat) (hj : 1 ≤ j) :
    meanStep (p : K) (runMean p x (j - 1)) (x j) (remAt p x j) = runMean p x j ∧
    varStep (p : K) (runMean p x (j - 1)) (runVar p x (j - 1)) (x j) (remAt p x j) = runVar p x j := by
  have hpK : (p : K) ≠ 0 := by exact_mod_cast (by omega : p ≠ 0)
  obtain ⟨h1, h2⟩ := welford (p : K) (runSum p x (j - 1)) (runSum p (fun i => x i ^ 2) (j - 1)) (x j) (remAt p x j) hpK
  have hs := runSum_step p x j hj
  have hq := runSum_step p (fun i => x i ^ 2) j hj
  have hr : remAt p (fun i => x i ^ 2) j = remAt p x j ^ 2 := by
    unfold remAt; split <;> simp
  unfold runVar runMean at *
  rw [h1, h2, hs, hq, hr]
  exact ⟨rfl, rfl⟩

theorem runStats_first (p : Nat) (hp : 1 ≤ p) (x : Nat → K) :
    meanStep (p : K) 0 (x 0) 0 = runMean p x 0 ∧ varStep (p : K) 0 0 (x 0) 0 = runVar p x 0 := by
  have hpK : (p : K) ≠ 0 := by exact_mod_cast (by omega : p ≠ 0)
  unfold runVar runMean
  rw [runSum_zero p hp, runSum_zero p hp]
  unfold varStep meanStep
  constructor
  · ring
  · field_simp; ring

/-- the exact standard deviation of the `p` inputs ending at `j` -/
def sigmaExact (x : Nat → K) (p j : Nat) : K := PyF.sqrt (popVar x p j)

/-- the textbook series with the library's warm-up: the first reading appears at index `p`
(`reading_period(period + 1, input)`: STDEV waits for `p + 1` inputs although the window of `p`
is already full at index `p − 1`) -/
def stdevSeries (p : Nat) (x : Nat → K) (j : Nat) : Option K :=
  if j < p then none else some (sigmaExact x p j)

theorem sigmaExact_root [LawfulSqrt K] (x : Nat → K) (p j : Nat) :
    sigmaExact x p j * sigmaExact x p j = popVar x p j ∧ 0 ≤ sigmaExact x p j :=
  ⟨LawfulSqrt.sqrt_sq _ (popVar_nonneg x p j), LawfulSqrt.sqrt_nonneg _ (popVar_nonneg x p j)⟩

theorem sigmaExact_nonneg [NonnegSqrt K] (x : Nat → K) (p j : Nat) : 0 ≤ sigmaExact x p j :=
  NonnegSqrt.sqrt_nonneg _ (popVar_nonneg x p j)

/-! ### one STDEV call on a history whose input column and previous data entry are known -/

/-- the stored data entry -/
def stdData (μ v : K) : Val K := sdict [("mean", sc (.flt μ)), ("variance", sc (.flt v))]

theorem stdData_mean (μ v : K) : (stdData μ v).nested "mean" = .flt μ := by
  simp [stdData, Val.nested, sdict, sc, dlookup]

theorem stdData_var (μ v : K) : (stdData μ v).nested "variance" = .flt v := by
  simp [stdData, Val.nested, sdict, sc, dlookup]

/-- the unrounded own reading of the call at index `m` -/
def stdOwn (p : Nat) (x : Nat → K) (m : Nat) : Val K :=
  if m < p then .none else .flt (PyF.sqrt (max (runVar p x m) 0))

theorem Ctx.readingPeriod_some_i (x : Ctx K) (q : Int) (nm : String) :
    x.readingPeriod q nm (some x.i) = x.readingPeriod q nm := rfl

/-- **one `StandardDeviation._calculate_reading` call**, given the input column (`xs`) up to the
active index and the data entry of the previous candle: the call stores the running statistics of
the zero-padded window and returns `None` before index `p`, `sqrt(max(variance, 0))` from `p` on. -/
theorem stdev_core (p : Nat) (hp : 1 ≤ p) (nm input D : String) (xs : Nat → Num K)
    (H : List (Candle K)) (c : Candle K)
    (hfield : ∀ j : Nat, j ≤ H.length →
      ({ cs := H ++ [c], i := H.length, name := nm } : Ctx K).reading input (some (j : Int)) = .ok (.num (xs j)))
    (hper : ({ cs := H ++ [c], i := H.length, name := nm } : Ctx K).readingPeriod ((p : Int) + 1) input
      = decide (p + 1 ≤ H.length + 1))
    (hmean : Ctx.lastReading (nm ++ "_data.mean") H
      = if H.length = 0 then .none else .flt (runMean p (fun j => (xs j).toF) (H.length - 1)))
    (hvar : Ctx.lastReading (nm ++ "_data.variance") H
      = if H.length = 0 then .none else .flt (runVar p (fun j => (xs j).toF) (H.length - 1))) :
    Calc.stdev (dOps D H.length) { cs := H ++ [c], i := H.length, name := nm } (p : Int) input
      = .ok (stdOwn p (fun j => (xs j).toF) H.length,
          H ++ [setKey true D (stdData (runMean p (fun j => (xs j).toF) H.length)
            (runVar p (fun j => (xs j).toF) H.length)) c]) := by
  have hpK : (((p : Int)) : K) ≠ 0 := by
    have : (p : K) ≠ 0 := by exact_mod_cast (by omega : p ≠ 0)
    simpa using this
  have hset : ∀ v, (dOps D (H.length : Int) : Ops K).setManaged "STDEV_data" v
      ({ cs := H ++ [c], i := H.length, name := nm } : Ctx K).cs = .ok (H ++ [setKey true D v c]) := by
    intro v
    show setReading true D (H ++ [c]) H.length v = _
    rw [setReading_eq, updateAt_append_cons]
  have hcur : ({ cs := H ++ [c], i := H.length, name := nm } : Ctx K).reading input = .ok (.num (xs H.length)) :=
    hfield H.length (le_refl _)
  have hprevM := Ctx.prevReading_append_cons H c [] nm (nm ++ "_data.mean")
  have hprevV := Ctx.prevReading_append_cons H c [] nm (nm ++ "_data.variance")
  rw [hmean] at hprevM
  rw [hvar] at hprevV
  by_cases h0 : H.length = 0
  · -- the first candle
    rw [if_pos h0] at hprevM hprevV
    have hrp : ({ cs := H ++ [c], i := H.length, name := nm } : Ctx K).readingPeriod ((p : Int) + 1) input
        (some ({ cs := H ++ [c], i := H.length, name := nm } : Ctx K).i) = false := by
      rw [Ctx.readingPeriod_some_i, hper]; simp; omega
    have hs := stdev_first (dOps D (H.length : Int)) { cs := H ++ [c], i := H.length, name := nm } (p : Int) input
      (fun v => H ++ [setKey true D v c]) (xs H.length) hcur hrp hprevM hprevV hset hpK
    obtain ⟨e1, e2⟩ := runStats_first p hp (fun j => (xs j).toF)
    simp only [Int.cast_natCast] at hs
    rw [hs, h0, e1, e2]
    unfold stdOwn stdData
    rw [if_pos (by omega)]
  · rw [if_neg h0] at hprevM hprevV
    obtain ⟨e1, e2⟩ := runStats_step p hp (fun j => (xs j).toF) H.length (by omega)
    by_cases h1 : H.length < p
    · -- warm-up
      have hrp : ({ cs := H ++ [c], i := H.length, name := nm } : Ctx K).readingPeriod ((p : Int) + 1) input
          (some ({ cs := H ++ [c], i := H.length, name := nm } : Ctx K).i) = false := by
        rw [Ctx.readingPeriod_some_i, hper]; simp; omega
      have hs := stdev_warm (dOps D (H.length : Int)) { cs := H ++ [c], i := H.length, name := nm } (p : Int) input
        (fun v => H ++ [setKey true D v c]) (xs H.length) _ _ hcur hrp hprevM hprevV hset hpK
      have hr : remAt p (fun j => (xs j).toF) H.length = 0 := by unfold remAt; rw [if_neg (by omega)]
      rw [hr] at e1 e2
      simp only [Int.cast_natCast, Num.toF_flt] at hs
      rw [hs, e1, e2]
      unfold stdOwn stdData
      rw [if_pos h1]
    · -- full window
      have hrp : ({ cs := H ++ [c], i := H.length, name := nm } : Ctx K).readingPeriod ((p : Int) + 1) input
          (some ({ cs := H ++ [c], i := H.length, name := nm } : Ctx K).i) = true := by
        rw [Ctx.readingPeriod_some_i, hper]; simp; omega
      have hrem : ({ cs := H ++ [c], i := H.length, name := nm } : Ctx K).reading input
          (some (({ cs := H ++ [c], i := H.length, name := nm } : Ctx K).i - (p : Int)))
          = .ok (.num (xs (H.length - p))) := by
        have e : ((H.length : Nat) : Int) - (p : Int) = ((H.length - p : Nat) : Int) := by omega
        show ({ cs := H ++ [c], i := H.length, name := nm } : Ctx K).reading input (some (((H.length : Nat) : Int) - (p : Int))) = _
        rw [e]
        exact hfield _ (by omega)
      have hs := stdev_step (dOps D (H.length : Int)) { cs := H ++ [c], i := H.length, name := nm } (p : Int) input
        (fun v => H ++ [setKey true D v c]) (xs H.length) (xs (H.length - p)) _ _ hcur hrp hrem hprevM hprevV hset hpK
      have hr : remAt p (fun j => (xs j).toF) H.length = (xs (H.length - p)).toF := by
        unfold remAt; rw [if_pos (by omega)]
      rw [hr] at e1 e2
      simp only [Int.cast_natCast, Num.toF_flt] at hs
      rw [hs, e1, e2]
      unfold stdOwn stdData
      rw [if_neg h1]

/-! ### generic access to a decorated history -/

section access
variable {R : Type}

/-- the input column of a decorated history is the raw one: readings of a candle field at every
index up to the active one, and `reading_period` -/
theorem input_facts (out : Candle K → R → Candle K) (input : String)
    (hin : NoDot input ∧ input ∈ Candle.attrNames) (fld : Candle K → Num K)
    (hattr : ∀ c : Candle K, c.attr input = some (.num (fld c)))
    (hout : ∀ c r, readingByCandle (out c r) input = readingByCandle c input)
    (raw : List (Candle K)) (m : Nat) (hm : m < raw.length) (rows : List R) (hrows : rows.length = m)
    (done : List (Candle K)) (hdone : decoWith out (raw.take m) rows = done)
    (c' : Candle K) (hc' : readingByCandle c' input = readingByCandle (raw.getD m default) input)
    (name : String) :
    (∀ j : Nat, j ≤ m → ({ cs := done ++ [c'], i := done.length, name := name } : Ctx K).reading input (some (j : Int))
      = .ok (.num (fld (raw.getD j default)))) ∧
    (∀ q : Nat, 1 ≤ q → ({ cs := done ++ [c'], i := done.length, name := name } : Ctx K).readingPeriod (q : Int) input
      = decide (q ≤ m + 1)) := by
  have htl : (raw.take m).length = m := by simp; omega
  have hdl : done.length = m := by
    rw [← hdone, decoWith_length _ _ _ (by rw [htl, hrows]), htl]
  have hcol : Ctx.SameCol input ({ cs := done ++ [c'], i := done.length, name := name } : Ctx K)
      (stepCtx name raw (List.replicate m .none) m) := by
    refine ⟨by simp [stepCtx, hdl], ?_⟩
    show col input (done ++ [c']) = col input (decoWith (fun c v => setKey false name v c) (raw.take m) _ ++ [raw.getD m default])
    rw [col_append, col_append, ← hdone,
      col_decoWith input _ hout _ _ (by rw [htl, hrows]),
      col_decoWith input _ (fun c v => indep_attr (F := K) name input hin.1 hin.2 false v c) _ _ (by simp [htl])]
    simp [col, hc']
  constructor
  · intro j hj
    rw [Ctx.reading_congr hcol]
    exact stepCtx_field name input fld raw _ m hm (by simp) hin.1 hattr j hj
  · intro q hq
    rw [Ctx.readingPeriod_congr hcol]
    exact stepCtx_period name input fld raw _ m hm (by simp) hin.1 hattr q hq

/-- the last candle of a decorated history -/
theorem lastReading_decoWith (out : Candle K → R → Candle K) (dflt : R) (raw : List (Candle K)) (m : Nat)
    (hm : m ≤ raw.length) (rows : List R) (hrows : rows.length = m) (h1 : 1 ≤ m) (key : String) :
    Ctx.lastReading key (decoWith out (raw.take m) rows)
      = readingByCandle (out (raw.getD (m - 1) default) (rows.getD (m - 1) dflt)) key := by
  have htl : (raw.take m).length = m := by simp; omega
  unfold Ctx.lastReading
  rw [List.getLast?_eq_getElem?, decoWith_length _ _ _ (by rw [htl, hrows]), htl,
    decoWith_getElem? _ _ _ dflt (m - 1) (by rw [htl, hrows]) (by rw [htl]; omega)]
  have : (raw.take m).getD (m - 1) default = raw.getD (m - 1) default := by
    rw [List.getD_eq_getElem?_getD, List.getD_eq_getElem?_getD, List.getElem?_take_of_lt (by omega)]
  rw [this]

theorem lastReading_nil (key : String) : Ctx.lastReading key ([] : List (Candle K)) = .none := rfl

end access

/-! ### the finished STDEV candles -/

/-- name conditions of a top-level STDEV node -/
structure SdNames (nm : String) : Prop where
  key : IsKey nm
  dkey : IsKey (nm ++ "_data")
  sn : StdevNames nm

/-- a finished STDEV candle: data entry `r.2` in `.sub_indicators`, own reading `r.1` in `.indicators` -/
def sdOut (nm : String) (c : Candle K) (r : Val K × Val K) : Candle K :=
  outD nm (nm ++ "_data") r.1 (some r.2) c

/-- the candles of a STDEV run: raw candle `j` with the pair `rows[j]` = (own reading, data entry) -/
def decoSd (nm : String) (raw : List (Candle K)) (rows : List (Val K × Val K)) : List (Candle K) :=
  decoWith (sdOut nm) raw rows

section cand
variable (nm : String)

theorem sdOut_own (hn : SdNames nm) (c : Candle K) (hc : Plain c) (r : Val K × Val K) :
    readingByCandle (sdOut nm c r) nm = r.1 := by
  rw [readingByCandle_key nm hn.key]
  obtain ⟨hi, hs⟩ := hc
  simp [sdOut, lookupKey, outD, setD, setKey, hi, hs, dset, dlookup]

theorem sdOut_data (hn : SdNames nm) (c : Candle K) (hc : Plain c) (r : Val K × Val K) :
    readingByCandle (sdOut nm c r) (nm ++ "_data") = r.2 := by
  rw [readingByCandle_key _ hn.dkey]
  obtain ⟨hi, hs⟩ := hc
  simp [sdOut, lookupKey, outD, setD, setKey, hi, hs, dset, dlookup, hn.sn.ne]

theorem sdOut_mean (hn : SdNames nm) (c : Candle K) (hc : Plain c) (r : Val K × Val K) :
    readingByCandle (sdOut nm c r) (nm ++ "_data.mean") = r.2.nested "mean" := by
  unfold readingByCandle
  rw [hn.sn.mean]
  obtain ⟨hi, hs⟩ := hc
  simp [sdOut, outD, setD, setKey, hi, hs, dset, dlookup, hn.sn.ne]

theorem sdOut_var (hn : SdNames nm) (c : Candle K) (hc : Plain c) (r : Val K × Val K) :
    readingByCandle (sdOut nm c r) (nm ++ "_data.variance") = r.2.nested "variance" := by
  unfold readingByCandle
  rw [hn.sn.var]
  obtain ⟨hi, hs⟩ := hc
  simp [sdOut, outD, setD, setKey, hi, hs, dset, dlookup, hn.sn.ne]

theorem sdOut_input (input : String) (hin : NoDot input ∧ input ∈ Candle.attrNames) (c : Candle K)
    (r : Val K × Val K) : readingByCandle (sdOut nm c r) input = readingByCandle c input := by
  unfold sdOut outD setD
  rw [indep_attr (F := K) nm input hin.1 hin.2, indep_attr (F := K) (nm ++ "_data") input hin.1 hin.2]

end cand

/-- what the whole-series theorem says of candle `j` (`r` = own reading, data entry).
* The data entry holds EXACTLY (`Managed.set_reading` does not round) the running mean and running
  population variance of the zero-padded window; from index `p − 1` on these are the mean and the
  mean squared deviation of the last `p` inputs (`runMean_eq_winMean`, `runVar_eq_popVar`).
* The own reading is `None` up to index `p − 1` and from index `p` on the rounding of
  `sqrt(popVar)`, hence within `ε_n` of the exact standard deviation (no growth: nothing rounded is
  fed back). -/
def StdevOK (p n : Nat) (x : Nat → K) (j : Nat) (r : Val K × Val K) : Prop :=
  r.2 = stdData (runMean p x j) (runVar p x j) ∧
  (j < p → r.1 = .none) ∧
  (p ≤ j → ∃ y, r.1 = .flt y ∧ y = PyF.round n (sigmaExact x p j) ∧ |y - sigmaExact x p j| ≤ eps K n)

/-- σ ≥ 0 for the stored reading -/
theorem StdevOK.nonneg [NonnegSqrt K] {p n : Nat} {x : Nat → K} {j : Nat} {r : Val K × Val K}
    (h : StdevOK p n x j r) (y : K) (hy : r.1 = .flt y) : 0 ≤ y := by
  by_cases hj : j < p
  · rw [h.2.1 hj] at hy; cases hy
  · obtain ⟨y', hy', he, _⟩ := h.2.2 (by omega)
    rw [hy'] at hy
    cases hy
    rw [he]
    exact round_nonneg n _ (sigmaExact_nonneg x p j)

theorem stdevOK_mk (p n : Nat) (hp : 1 ≤ p) (x : Nat → K) (j : Nat) :
    StdevOK p n x j ((stdOwn p x j).roundBy n, stdData (runMean p x j) (runVar p x j)) := by
  refine ⟨rfl, ?_, ?_⟩
  · intro h
    simp only [stdOwn, if_pos h]
    rfl
  · intro h
    have hv : max (runVar p x j) 0 = popVar x p j := by
      rw [runVar_eq_popVar p hp x j (by omega)]
      exact max_eq_left (popVar_nonneg x p j)
    simp only [stdOwn, if_neg (by omega : ¬ j < p), hv]
    exact ⟨_, rfl, rfl, LawfulPyF.round_err n _⟩

theorem stdev_finish (nm : String) (n : Nat) (p : Int) (input : String) (done : List (Candle K)) (c : Candle K)
    (v dv : Val K)
    (h : Calc.stdev (dOps (nm ++ "_data") done.length) { cs := done ++ [c], i := done.length, name := nm } p input
      = .ok (v, done ++ [setKey true (nm ++ "_data") dv c])) :
    (do let r ← Calc.stdev (dOps (nm ++ "_data") done.length) { cs := done ++ [c], i := done.length, name := nm } p input
        setReading false nm r.2 done.length (r.1.roundBy n))
      = .ok (done ++ [sdOut nm c (v.roundBy n, dv)]) := by
  rw [h]
  simp only [pym_bind_ok]
  rw [setReading_eq, updateAt_append_cons]
  rfl

/-- the row step of `stdevTree` is the model's `_calculate_reading` followed by the store of the
rounded own reading -/
theorem stdev_rowStep (nm : String) (n : Nat) (p : Int) (input : String) (hp : 0 ≤ p)
    (hin : NoDot input ∧ input ∈ Candle.attrNames) (done : List (Candle K)) (c : Candle K) :
    Gen.rowStep (stdevTree (F := K) nm n p input hp hin).S done c = (do
      let r ← Calc.stdev (dOps (nm ++ "_data") done.length) { cs := done ++ [c], i := done.length, name := nm } p input
      setReading false nm r.2 done.length (r.1.roundBy n)) := rfl

/-- **STDEV, whole series** (row-major run of `stdevTree`), period `p ≥ 1`, input a candle field.
For EVERY raw list the run returns; the result is the raw candles with, on candle `j`, the pair
`rows[j]` = (own reading in `.indicators`, `<name>_data` entry in `.sub_indicators`), and every pair
satisfies `StdevOK`. -/
theorem stdev_series (p : Nat) (hp : 1 ≤ p) (nm input : String) (fld : Candle K → Num K) (n : Nat)
    (hn : SdNames nm) (hin : NoDot input ∧ input ∈ Candle.attrNames)
    (hattr : ∀ c : Candle K, c.attr input = some (.num (fld c)))
    (raw : List (Candle K)) (hraw : ∀ c ∈ raw, Plain c) :
    ∃ rows : List (Val K × Val K), rows.length = raw.length ∧
      Gen.rowMajor (stdevTree (F := K) nm n (p : Int) input (by omega) hin).S raw = .ok (decoSd nm raw rows) ∧
      ∀ j, j < raw.length → StdevOK p n (fieldAt fld raw) j (rows.getD j (.none, .none)) := by
  refine gen_series_induct _ (sdOut nm) (.none, .none) raw _ ?_
  intro m hm rows hrows hQ
  have htl : (raw.take m).length = m := by simp; omega
  have hdl : (decoWith (sdOut nm) (raw.take m) rows).length = m := by
    rw [decoWith_length _ _ _ (by rw [htl, hrows]), htl]
  rw [stdev_rowStep]
  obtain ⟨hfield, hper⟩ := input_facts (sdOut nm) input hin fld hattr (fun c r => sdOut_input nm input hin c r)
    raw m hm rows hrows _ rfl (raw.getD m default) rfl nm
  have hlast := lastReading_decoWith (sdOut nm) (.none, .none) raw m (by omega) rows hrows
  generalize hdone : decoWith (sdOut nm) (raw.take m) rows = done at hdl hfield hper hlast ⊢
  subst hdl
  refine ⟨((stdOwn p (fieldAt fld raw) done.length).roundBy n,
      stdData (runMean p (fieldAt fld raw) done.length) (runVar p (fieldAt fld raw) done.length)),
    stdev_finish nm n p input done _ (stdOwn p (fieldAt fld raw) done.length)
      (stdData (runMean p (fieldAt fld raw) done.length) (runVar p (fieldAt fld raw) done.length)) ?_, ?_⟩
  · refine stdev_core p hp nm input (nm ++ "_data") (fun j => fld (raw.getD j default)) done (raw.getD done.length default)
      hfield ?_ ?_ ?_
    · have := hper (p + 1) (by omega)
      rw [show ((p + 1 : Nat) : Int) = (p : Int) + 1 by push_cast; rfl] at this
      exact this
    · by_cases h0 : done.length = 0
      · rw [if_pos h0, List.eq_nil_of_length_eq_zero h0]; rfl
      · rw [if_neg h0, hlast (by omega), sdOut_mean nm hn _ (getD_plain raw hraw _ (by omega)),
          (hQ (done.length - 1) (by omega)).1, stdData_mean]
        rfl
    · by_cases h0 : done.length = 0
      · rw [if_pos h0, List.eq_nil_of_length_eq_zero h0]; rfl
      · rw [if_neg h0, hlast (by omega), sdOut_var nm hn _ (getD_plain raw hraw _ (by omega)),
          (hQ (done.length - 1) (by omega)).1, stdData_var]
        rfl
  · exact stdevOK_mk p n hp (fieldAt fld raw) done.length

/-! ### the same statement read off the candles -/

/-- a stored own reading against the textbook series: `None` where the series has no value,
otherwise a non-negative float within `ε_n` of it -/
def StdevOwnOK (n : Nat) (o : Option K) (v : Val K) : Prop :=
  match o with
  | none => v = .none
  | some e => ∃ y, v = .flt y ∧ |y - e| ≤ eps K n ∧ 0 ≤ y

theorem decoSd_getD (nm : String) (raw : List (Candle K)) (rows : List (Val K × Val K))
    (hl : rows.length = raw.length) (j : Nat) (hj : j < raw.length) :
    (decoSd nm raw rows).getD j default = sdOut nm (raw.getD j default) (rows.getD j (.none, .none)) := by
  rw [List.getD_eq_getElem?_getD, decoSd, decoWith_getElem? _ _ _ (.none, .none) j hl hj]; rfl

/-- what `StdevOK` says of the finished candle `j` -/
def SdCandleOK (p n : Nat) (nm : String) (x : Nat → K) (j : Nat) (c : Candle K) : Prop :=
  StdevOwnOK n (stdevSeries p x j) (readingByCandle c nm) ∧
  readingByCandle c (nm ++ "_data.mean") = .flt (runMean p x j) ∧
  readingByCandle c (nm ++ "_data.variance") = .flt (runVar p x j) ∧
  (p ≤ j + 1 → runMean p x j = winMean x p j ∧ runVar p x j = popVar x p j)

theorem sdCandleOK_of [NonnegSqrt K] (p n : Nat) (hp : 1 ≤ p) (nm : String) (hn : SdNames nm) (x : Nat → K) (j : Nat)
    (c : Candle K) (hc : Plain c) (r : Val K × Val K) (h : StdevOK p n x j r) :
    SdCandleOK p n nm x j (sdOut nm c r) := by
  refine ⟨?_, ?_, ?_, fun hj => ⟨runMean_eq_winMean p x j hj, runVar_eq_popVar p hp x j hj⟩⟩
  · rw [sdOut_own nm hn _ hc]
    unfold stdevSeries
    by_cases hj : j < p
    · rw [if_pos hj, h.2.1 hj]; rfl
    · rw [if_neg hj]
      obtain ⟨y, hy, he, hb⟩ := h.2.2 (by omega)
      exact ⟨y, hy, hb, h.nonneg y hy⟩
  · rw [sdOut_mean nm hn _ hc, h.1, stdData_mean]
  · rw [sdOut_var nm hn _ hc, h.1, stdData_var]

/-- **STDEV, whole series, candle by candle.**  For every raw list the row-major run of
`stdevTree` returns; on candle `j` the own reading follows `stdevSeries` (`None` before index `p`,
then a non-negative float within `ε_n` of `sqrt(mean((x − mean)²))` of the last `p` inputs) and the
`<name>_data` entry holds exactly the running mean / variance, which from index `p − 1` on are the
mean and population variance of the last `p` inputs. -/
theorem stdev_series_candles [NonnegSqrt K] (p : Nat) (hp : 1 ≤ p) (nm input : String) (fld : Candle K → Num K)
    (n : Nat) (hn : SdNames nm) (hin : NoDot input ∧ input ∈ Candle.attrNames)
    (hattr : ∀ c : Candle K, c.attr input = some (.num (fld c)))
    (raw : List (Candle K)) (hraw : ∀ c ∈ raw, Plain c) :
    ∃ out : List (Candle K), out.length = raw.length ∧
      Gen.rowMajor (stdevTree (F := K) nm n (p : Int) input (by omega) hin).S raw = .ok out ∧
      ∀ j, j < raw.length → SdCandleOK p n nm (fieldAt fld raw) j (out.getD j default) := by
  obtain ⟨rows, hl, hrun, hall⟩ := stdev_series p hp nm input fld n hn hin hattr raw hraw
  refine ⟨decoSd nm raw rows, decoWith_length _ _ _ hl, hrun, ?_⟩
  intro j hj
  rw [decoSd_getD nm raw rows hl j hj]
  exact sdCandleOK_of p n hp nm hn _ j _ (getD_plain raw hraw j hj) _ (hall j hj)

/-! ### through the engine -/

/-- **… through the engine**: `calculate()` on the raw candles returns exactly the candles of
`stdev_series`. -/
theorem stdev_series_engine (p : Nat) (hp : 1 ≤ p) (nm input : String) (fld : Candle K → Num K) (n : Nat)
    (hn : SdNames nm) (hin : NoDot input ∧ input ∈ Candle.attrNames)
    (hattr : ∀ c : Candle K, c.attr input = some (.num (fld c)))
    (raw : List (Candle K)) (hraw : ∀ c ∈ raw, Plain c) :
    ∃ rows : List (Val K × Val K), rows.length = raw.length ∧
      engineCalc (mkTop (.stdev (p : Int) input : Kind K) nm n) raw = .ok (decoSd nm raw rows) ∧
      ∀ j, j < raw.length → StdevOK p n (fieldAt fld raw) j (rows.getD j (.none, .none)) := by
  obtain ⟨rows, hl, hrun, hall⟩ := stdev_series p hp nm input fld n hn hin hattr raw hraw
  refine ⟨rows, hl, ?_, hall⟩
  have := ((stdevTree (F := K) nm n (p : Int) input (by omega) hin).engine [] raw [] (decoSd nm raw rows) rfl
    (by simp) hraw).2 (by simpa using hrun)
  simpa using this

/-- **… through the object**: building the indicator over the raw candles and calling
`calculate()` once (the batch run) returns exactly the candles of `stdev_series`. -/
theorem stdev_series_batch (p : Nat) (hp : 1 ≤ p) (nm input : String) (fld : Candle K → Num K) (n : Nat)
    (hn : SdNames nm) (hin : NoDot input ∧ input ∈ Candle.attrNames)
    (hattr : ∀ c : Candle K, c.attr input = some (.num (fld c)))
    (raw : List (Candle K)) (hraw : ∀ c ∈ raw, Plain c) :
    ∃ rows : List (Val K × Val K), rows.length = raw.length ∧
      candlesOf (runIndicator (mkTop (.stdev (p : Int) input : Kind K) nm n) {} raw []) = .ok (decoSd nm raw rows) ∧
      ∀ j, j < raw.length → StdevOK p n (fieldAt fld raw) j (rows.getD j (.none, .none)) := by
  obtain ⟨rows, hl, hrun, hall⟩ := stdev_series p hp nm input fld n hn hin hattr raw hraw
  exact ⟨rows, hl, ((stdevTree (F := K) nm n (p : Int) input (by omega) hin).batch_iff (MgrSpec.base K) raw hraw _).2 hrun,
    hall⟩

/-- **whenever the batch run returns, its candles carry exactly those readings** (and it does
return: `stdev_series_batch`) -/
theorem stdev_batch_readings [NonnegSqrt K] (p : Nat) (hp : 1 ≤ p) (nm input : String) (fld : Candle K → Num K)
    (n : Nat) (hn : SdNames nm) (hin : NoDot input ∧ input ∈ Candle.attrNames)
    (hattr : ∀ c : Candle K, c.attr input = some (.num (fld c)))
    (raw : List (Candle K)) (hraw : ∀ c ∈ raw, Plain c) (out : List (Candle K))
    (hout : candlesOf (runIndicator (mkTop (.stdev (p : Int) input : Kind K) nm n) {} raw []) = .ok out) :
    out.length = raw.length ∧
    ∀ j, j < raw.length → SdCandleOK p n nm (fieldAt fld raw) j (out.getD j default) := by
  obtain ⟨out', h1, h2, h3⟩ := stdev_series_candles p hp nm input fld n hn hin hattr raw hraw
  have hr : Gen.rowMajor (stdevTree (F := K) nm n (p : Int) input (by omega) hin).S raw = .ok out :=
    ((stdevTree (F := K) nm n (p : Int) input (by omega) hin).batch_iff (MgrSpec.base K) raw hraw out).1 hout
  rw [h2] at hr
  cases hr
  exact ⟨h1, h3⟩

/-- **… for every append schedule**: whenever a live history (construction over `init`,
`calculate()`, then any appends) returns, its candles are those of `stdev_series` over the whole
stream. -/
theorem stdev_series_live (p : Nat) (hp : 1 ≤ p) (nm input : String) (fld : Candle K → Num K) (n : Nat)
    (hn : SdNames nm) (hin : NoDot input ∧ input ∈ Candle.attrNames)
    (hattr : ∀ c : Candle K, c.attr input = some (.num (fld c)))
    (init : List (Candle K)) (chunks : List (List (Candle K)))
    (hraw : ∀ c ∈ init ++ chunks.flatten, Plain c) (snap : List (Candle K))
    (hsnap : candlesOf (runIndicator (mkTop (.stdev (p : Int) input : Kind K) nm n) {} init chunks) = .ok snap) :
    ∃ rows : List (Val K × Val K), rows.length = (init ++ chunks.flatten).length ∧
      snap = decoSd nm (init ++ chunks.flatten) rows ∧
      ∀ j, j < (init ++ chunks.flatten).length →
        StdevOK p n (fieldAt fld (init ++ chunks.flatten)) j (rows.getD j (.none, .none)) := by
  obtain ⟨rows, hl, hrun, hall⟩ := stdev_series p hp nm input fld n hn hin hattr _ hraw
  have h := (stdevTree (F := K) nm n (p : Int) input (by omega) hin).live_refines (MgrSpec.base K) init chunks hraw snap hsnap
  have h' : Gen.rowMajor (stdevTree (F := K) nm n (p : Int) input (by omega) hin).S (init ++ chunks.flatten) = .ok snap := h
  rw [hrun] at h'
  exact ⟨rows, hl, (Except.ok.inj h').symm, hall⟩

/-! ### non-vacuity: the five demo candles of HexProps/C04.lean over ℚ (closes 11, 12, 14, 15, 15) -/

theorem sdNames_demo : SdNames "STDEV_3" := ⟨by decide, by decide, ⟨by decide, by decide, by decide⟩⟩

example : ∃ rows : List (Val ℚ × Val ℚ), rows.length = rsiDemoRaw.length ∧
    Gen.rowMajor (stdevTree (F := ℚ) "STDEV_3" 4 ((3 : Nat) : Int) "close" (by omega) ⟨noDot_close, by decide⟩).S
      rsiDemoRaw = .ok (decoSd "STDEV_3" rsiDemoRaw rows) ∧
    ∀ j, j < rsiDemoRaw.length → StdevOK 3 4 (fieldAt (·.c) rsiDemoRaw) j (rows.getD j (.none, .none)) :=
  stdev_series 3 (by norm_num) "STDEV_3" "close" (·.c) 4 sdNames_demo ⟨noDot_close, by decide⟩
    (fun _ => rfl) rsiDemoRaw rsiDemoRaw_plain

/-- the batch run on the demo candles returns, and its candles are as stated -/
example : ∃ out : List (Candle ℚ),
    candlesOf (runIndicator (mkTop (.stdev ((3 : Nat) : Int) "close" : Kind ℚ) "STDEV_3" 4) {} rsiDemoRaw []) = .ok out ∧
    out.length = rsiDemoRaw.length ∧
    ∀ j, j < rsiDemoRaw.length → SdCandleOK 3 4 "STDEV_3" (fieldAt (·.c) rsiDemoRaw) j (out.getD j default) := by
  obtain ⟨rows, _, h2, _⟩ := stdev_series_batch 3 (by norm_num) "STDEV_3" "close" (·.c) 4 sdNames_demo
    ⟨noDot_close, by decide⟩ (fun _ => rfl) rsiDemoRaw rsiDemoRaw_plain
  exact ⟨_, h2, stdev_batch_readings 3 (by norm_num) "STDEV_3" "close" (·.c) 4 sdNames_demo
    ⟨noDot_close, by decide⟩ (fun _ => rfl) rsiDemoRaw rsiDemoRaw_plain _ h2⟩

/-- the textbook quantities on the demo candles (period 3): no reading on candles 0–2; on candle 4
the window is 14, 15, 15: mean `44/3`, population variance `2/9` (ℚ has no square roots: its
`PyF.sqrt` is a stub, the ℝ instance of `RealInst.lean` has the real one) -/
example : stdevSeries 3 (fieldAt (·.c) rsiDemoRaw) 2 = none := by decide
example : runMean 3 (fieldAt (·.c) rsiDemoRaw) 4 = 44 / 3 := by
  norm_num [runMean, runSum, rsum, fieldAt, rsiDemoRaw, Demo.mk, List.range_succ]
example : runVar 3 (fieldAt (·.c) rsiDemoRaw) 4 = 2 / 9 := by
  norm_num [runVar, runMean, runSum, rsum, fieldAt, rsiDemoRaw, Demo.mk, List.range_succ]
example : popVar (fieldAt (·.c) rsiDemoRaw) 3 4 = 2 / 9 := by
  norm_num [popVar, winMean, rsum, fieldAt, rsiDemoRaw, Demo.mk, List.range_succ]
/-- before the window is full the statistics are those of the zero-padded window: on candle 1 the
stored mean is `(11 + 12)/3` -/
example : runMean 3 (fieldAt (·.c) rsiDemoRaw) 1 = 23 / 3 := by
  norm_num [runMean, runSum, rsum, fieldAt, rsiDemoRaw, Demo.mk, List.range_succ]

/-- concretely: the batch run stores no reading on candle 2, and on candle 4 the data entry is
`{mean: 44/3, variance: 2/9}` -/
example : ∃ out : List (Candle ℚ),
    candlesOf (runIndicator (mkTop (.stdev ((3 : Nat) : Int) "close" : Kind ℚ) "STDEV_3" 4) {} rsiDemoRaw []) = .ok out ∧
    readingByCandle (out.getD 2 default) "STDEV_3" = .none ∧
    readingByCandle (out.getD 4 default) ("STDEV_3" ++ "_data.mean") = .flt (44 / 3) ∧
    readingByCandle (out.getD 4 default) ("STDEV_3" ++ "_data.variance") = .flt (2 / 9) := by
  obtain ⟨rows, _, h2, _⟩ := stdev_series_batch 3 (by norm_num) "STDEV_3" "close" (·.c) 4 sdNames_demo
    ⟨noDot_close, by decide⟩ (fun _ => rfl) rsiDemoRaw rsiDemoRaw_plain
  obtain ⟨_, h3⟩ := stdev_batch_readings 3 (by norm_num) "STDEV_3" "close" (·.c) 4 sdNames_demo
    ⟨noDot_close, by decide⟩ (fun _ => rfl) rsiDemoRaw rsiDemoRaw_plain _ h2
  refine ⟨_, h2, ?_, ?_, ?_⟩
  · have h := (h3 2 (by decide)).1
    have e : stdevSeries 3 (fieldAt (·.c) rsiDemoRaw) 2 = none := by decide
    rw [e] at h
    exact h
  · rw [(h3 4 (by decide)).2.1]
    norm_num [runMean, runSum, rsum, fieldAt, rsiDemoRaw, Demo.mk, List.range_succ]
  · rw [(h3 4 (by decide)).2.2.1]
    norm_num [runVar, runMean, runSum, rsum, fieldAt, rsiDemoRaw, Demo.mk, List.range_succ]

#print axioms stdev_series
#print axioms stdev_series_candles
#print axioms stdev_series_engine
#print axioms stdev_series_batch
#print axioms stdev_batch_readings
#print axioms stdev_series_live

/-! ## BBANDS (prior STDEV helper with its data series, prior SMA helper, read-only own reading) -/

/-- **one `SMA._calculate_reading` call** on a history whose input column and previous own reading
are known (the step of `sma_series`, freed from the shape of the candles) -/
theorem sma_core (p : Nat) (hp : 2 ≤ p) (nm input : String) (n : Nat) (xs : Nat → Num K)
    (H : List (Candle K)) (c : Candle K)
    (hfield : ∀ j : Nat, j ≤ H.length →
      ({ cs := H ++ [c], i := H.length, name := nm } : Ctx K).reading input (some (j : Int)) = .ok (.num (xs j)))
    (hper : ({ cs := H ++ [c], i := H.length, name := nm } : Ctx K).readingPeriod (p : Int) input
      = decide (p ≤ H.length + 1))
    (hQ : if H.length = 0 then Ctx.lastReading nm H = .none
      else SmaOK p n (fun j => (xs j).toF) (H.length - 1) (Ctx.lastReading nm H)) :
    ∃ v, Calc.sma { cs := H ++ [c], i := H.length, name := nm } (p : Int) input = .ok v ∧
      SmaOK p n (fun j => (xs j).toF) H.length (v.roundBy n) := by
  have hpK : ((p : Int) : K) ≠ 0 := by
    have : (p : K) ≠ 0 := by exact_mod_cast (by omega : p ≠ 0)
    simpa using this
  have hprev := Ctx.prevReading_append_cons H c [] nm nm
  have hcur : ({ cs := H ++ [c], i := H.length, name := nm } : Ctx K).reading input = .ok (.num (xs H.length)) :=
    hfield H.length (le_refl _)
  by_cases h1 : H.length + 1 < p
  · -- warm-up
    have hpn : ({ cs := H ++ [c], i := H.length, name := nm } : Ctx K).prevReading nm = .ok .none := by
      rw [hprev]
      by_cases h0 : H.length = 0
      · rw [if_pos h0] at hQ; rw [hQ]
      · rw [if_neg h0] at hQ; rw [hQ.1 (by omega)]
    have hrp : ({ cs := H ++ [c], i := H.length, name := nm } : Ctx K).readingPeriod (p : Int) input = false := by
      rw [hper]; simp; omega
    exact ⟨.none, sma_none _ p input hpn hrp, fun _ => rfl, fun h => by omega⟩
  · have h0 : H.length ≠ 0 := by omega
    rw [if_neg h0] at hQ
    by_cases h2 : H.length + 1 = p
    · -- seed
      have hpn : ({ cs := H ++ [c], i := H.length, name := nm } : Ctx K).prevReading nm = .ok .none := by
        rw [hprev, hQ.1 (by omega)]
      have hrp : ({ cs := H ++ [c], i := H.length, name := nm } : Ctx K).readingPeriod (p : Int) input = true := by
        rw [hper]; simp; omega
      have hwin := sma_seed_window ({ cs := H ++ [c], i := H.length, name := nm } : Ctx K) p input
        (fun j => xs (H.length + 1 - p + j))
        hpn hrp (by omega) (by show (p : Int) ≤ (H.length : Int) + 1; omega) (by show (1 : Int) ≤ (H.length : Int); omega)
        (by
          intro j hj
          have e : ({ cs := H ++ [c], i := H.length, name := nm } : Ctx K).i + 1 - (p : Int) + (j : Int)
              = ((H.length + 1 - p + j : Nat) : Int) := by
            show (H.length : Int) + 1 - (p : Int) + (j : Int) = _; omega
          rw [e]
          exact hfield _ (by omega))
      refine ⟨_, hwin, fun h => by omega, fun _ => ⟨_, rfl, ?_⟩⟩
      have e : ((H.length + 2 - p : Nat) : K) = 1 := by
        have : H.length + 2 - p = 1 := by omega
        rw [this]; simp
      rw [e, one_mul]
      exact LawfulPyF.round_err n _
    · -- running update
      have h3 : p ≤ H.length := by omega
      obtain ⟨yp, hyp, hbound⟩ := hQ.2 (by omega)
      have hpn : ({ cs := H ++ [c], i := H.length, name := nm } : Ctx K).prevReading nm = .ok (.flt yp) := by
        rw [hprev, hyp]
      have hold : ({ cs := H ++ [c], i := H.length, name := nm } : Ctx K).reading input
          (some (({ cs := H ++ [c], i := H.length, name := nm } : Ctx K).i - (p : Int)))
          = .ok (.num (xs (H.length - p))) := by
        have e : ({ cs := H ++ [c], i := H.length, name := nm } : Ctx K).i - (p : Int) = ((H.length - p : Nat) : Int) := by
          show (H.length : Int) - (p : Int) = _; omega
        rw [e]
        exact hfield _ (by omega)
      refine ⟨_, sma_rec_flt _ p input yp _ _ hpn hold hcur hpK, fun h => by omega, fun _ => ⟨_, rfl, ?_⟩⟩
      rw [winMean_step (fun j => (xs j).toF) p H.length (by omega) h3]
      have hb := sma_error_budget n ((p : Int) : K) ((xs (H.length - p)).toF) ((xs H.length).toF) yp
        (winMean (fun j => (xs j).toF) p (H.length - 1)) _ hbound
      have e : ((H.length + 2 - p : Nat) : K) * eps K n = ((H.length - 1 + 2 - p : Nat) : K) * eps K n + eps K n := by
        have : H.length + 2 - p = (H.length - 1 + 2 - p) + 1 := by omega
        rw [this]; push_cast; ring
      rw [e]
      simpa using hb

/-- read, store, finish: from the result of the whole reading function back to its reading part -/
theorem rwCalc_inv (D : String) (R : Ctx K → PyM (Option (Val K) × PyM (Val K))) (name : String)
    (H : List (Candle K)) (c : Candle K) (hsub : dlookup D c.subs = none) (v dv : Val K)
    (h : rwCalc D R name (H ++ [c]) H.length = .ok (v, H ++ [setKey true D dv c])) :
    ∃ fin, R { cs := H ++ [c], i := H.length, name := name } = .ok (some dv, fin) ∧ fin = .ok v := by
  unfold rwCalc at h
  cases hR : R { cs := H ++ [c], i := H.length, name := name } with
  | error e => rw [hR] at h; cases h
  | ok r =>
    obtain ⟨d, fin⟩ := r
    rw [hR] at h
    cases d with
    | none =>
      cases fin with
      | error e => cases h
      | ok v' =>
        simp only [bind, Except.bind, pure, Except.pure, Except.ok.injEq, Prod.mk.injEq] at h
        have hc : c = setKey true D dv c := by
          have := List.append_cancel_left h.2
          simpa using this
        have : dlookup D c.subs = some dv := by
          rw [hc]; simp [setKey, dlookup_dset_self]
        rw [hsub] at this; cases this
    | some dv' =>
      simp only [bind, Except.bind, pure, Except.pure, setReading_eq, updateAt_append_cons] at h
      cases fin with
      | error e => cases h
      | ok v' =>
        simp only [Except.ok.injEq, Prod.mk.injEq] at h
        have hc : setKey true D dv' c = setKey true D dv c := by
          have := List.append_cancel_left h.2
          simpa using this
        have : dlookup D (setKey true D dv' c).subs = dlookup D (setKey true D dv c).subs := by rw [hc]
        simp [setKey, dlookup_dset_self] at this
        subst this
        exact ⟨_, rfl, by rw [h.1]⟩

/-- what the pieces of a BBANDS tree store on one candle: the STDEV helper's reading and data
entry, the SMA helper's reading, the own reading (a dict) -/
structure BbRow (K : Type) where
  sd : Val K
  dv : Val K
  sm : Val K
  bb : Val K

def BbRow.dflt : BbRow K := ⟨.none, .none, .none, .none⟩

/-- the candle after the STDEV helper ran -/
def bbC1 (nm : String) (sd dv : Val K) (c : Candle K) : Candle K :=
  setKey true (nm ++ "_STDEV") sd (setKey true (nm ++ "_STDEV" ++ "_data") dv c)
/-- … and after the SMA helper ran -/
def bbC2 (nm : String) (sd dv sm : Val K) (c : Candle K) : Candle K :=
  setKey true (nm ++ "_SMA") sm (bbC1 nm sd dv c)
/-- a finished BBANDS candle -/
def bbOut (nm : String) (c : Candle K) (r : BbRow K) : Candle K :=
  setKey false nm r.bb (bbC2 nm r.sd r.dv r.sm c)

/-- the row step of `bbTree`: STDEV helper (reading part, data entry stored, own reading rounded to
4 decimals and stored), SMA helper, own reading – each stored before the next one runs -/
theorem bb_rowStep_ok (nm : String) (n : Nat) (p : Int) (input : String) (hp : 1 ≤ p)
    (hn : BbNames nm) (hin : NoDot input ∧ input ∈ Candle.attrNames) (done : List (Candle K)) (c : Candle K)
    (dv v vm vb : Val K) (fin : PyM (Val K))
    (hX : stdevR p input { cs := done ++ [c], i := done.length, name := nm ++ "_STDEV" } = .ok (some dv, fin))
    (hfin : fin = .ok v)
    (hM : Calc.sma { cs := done ++ [bbC1 nm (v.roundBy defaultRound) dv c], i := done.length, name := nm ++ "_SMA" }
      p input = .ok vm)
    (hP : Calc.bbands { cs := done ++ [bbC2 nm (v.roundBy defaultRound) dv (vm.roundBy defaultRound) c],
                        i := done.length, name := nm } (nm ++ "_SMA") (nm ++ "_STDEV") = .ok vb) :
    Gen.rowStep (bbTree (F := K) nm n p input hp hn hin).S done c
      = .ok (done ++ [bbOut nm c ⟨v.roundBy defaultRound, dv, vm.roundBy defaultRound, vb.roundBy n⟩]) := by
  show Gen.rowStep (TComp.spec (bbComp nm n p input hp hn hin) _) done c = _
  rw [TComp.rowStep_spec]
  show (do
      let z ← (do
        let x ← (do
          let r ← stdevR p input { cs := done ++ [c], i := done.length, name := nm ++ "_STDEV" }
          let v ← r.2
          pure (r.1, v))
        let q ← (do
          let m ← Calc.sma { cs := done ++ [outDS true (nm ++ "_STDEV") (nm ++ "_STDEV" ++ "_data")
                                (x.2.roundBy defaultRound) x.1 c],
                             i := done.length, name := nm ++ "_SMA" } p input
          let b ← Calc.bbands { cs := done ++ [setKey true (nm ++ "_SMA") (m.roundBy defaultRound)
                                  (outDS true (nm ++ "_STDEV") (nm ++ "_STDEV" ++ "_data") (x.2.roundBy defaultRound) x.1 c)],
                                i := done.length, name := nm } (nm ++ "_SMA") (nm ++ "_STDEV")
          pure (m, b))
        pure (x, q))
      pure (done ++ [setKey false nm (z.2.2.roundBy n) (setKey true (nm ++ "_SMA") (z.2.1.roundBy defaultRound)
        (outDS true (nm ++ "_STDEV") (nm ++ "_STDEV" ++ "_data") (z.1.2.roundBy defaultRound) z.1.1 c))])) = _
  rw [hX, hfin]
  simp only [pym_bind_ok, pym_pure]
  have e1 : outDS true (nm ++ "_STDEV") (nm ++ "_STDEV" ++ "_data") (v.roundBy defaultRound) (some dv) c
      = bbC1 nm (v.roundBy defaultRound) dv c := rfl
  rw [e1, hM]
  simp only [pym_bind_ok, pym_pure]
  have e2 : setKey true (nm ++ "_SMA") (vm.roundBy defaultRound) (bbC1 nm (v.roundBy defaultRound) dv c)
      = bbC2 nm (v.roundBy defaultRound) dv (vm.roundBy defaultRound) c := rfl
  rw [e2, hP]
  rfl

/-! ### reading the (partly) finished BBANDS candles -/

section bbout
variable (nm : String)

theorem bbC1_input (input : String) (hin : NoDot input ∧ input ∈ Candle.attrNames) (sd dv : Val K) (c : Candle K) :
    readingByCandle (bbC1 nm sd dv c) input = readingByCandle c input := by
  unfold bbC1
  rw [indep_attr (F := K) _ input hin.1 hin.2, indep_attr (F := K) _ input hin.1 hin.2]

theorem bbOut_input (input : String) (hin : NoDot input ∧ input ∈ Candle.attrNames) (c : Candle K)
    (r : BbRow K) : readingByCandle (bbOut nm c r) input = readingByCandle c input := by
  unfold bbOut bbC2
  rw [indep_attr (F := K) _ input hin.1 hin.2, indep_attr (F := K) _ input hin.1 hin.2, bbC1_input nm input hin]

theorem bbC2_sm (hn : BbNames nm) (sd dv sm : Val K) (c : Candle K) (hc : Plain c) :
    readingByCandle (bbC2 nm sd dv sm c) (nm ++ "_SMA") = sm := by
  rw [readingByCandle_key _ hn.kM]
  obtain ⟨hi, hs⟩ := hc
  simp [bbC2, bbC1, lookupKey, setKey, hi, hs, dset, dlookup, hn.nS, hn.nS.symm, hn.nD, hn.nD.symm, hn.nM, hn.nM.symm, hn.SM, hn.SM.symm,
    hn.sn.ne, hn.sn.ne.symm, hn.DM, hn.DM.symm]

theorem bbC2_sd (hn : BbNames nm) (sd dv sm : Val K) (c : Candle K) (hc : Plain c) :
    readingByCandle (bbC2 nm sd dv sm c) (nm ++ "_STDEV") = sd := by
  rw [readingByCandle_key _ hn.kS]
  obtain ⟨hi, hs⟩ := hc
  simp [bbC2, bbC1, lookupKey, setKey, hi, hs, dset, dlookup, hn.SM, hn.SM.symm, hn.sn.ne, hn.sn.ne.symm,
    hn.DM, hn.DM.symm]

theorem bbOut_own (hk : IsKey nm) (c : Candle K) (r : BbRow K) :
    readingByCandle (bbOut nm c r) nm = r.bb := readingByCandle_setKey_own nm hk _ _

theorem bbOut_sm (hn : BbNames nm) (c : Candle K) (hc : Plain c) (r : BbRow K) :
    readingByCandle (bbOut nm c r) (nm ++ "_SMA") = r.sm := by
  rw [readingByCandle_key _ hn.kM]
  obtain ⟨hi, hs⟩ := hc
  simp [bbOut, bbC2, bbC1, lookupKey, setKey, hi, hs, dset, dlookup, hn.nS, hn.nS.symm, hn.nD, hn.nD.symm, hn.nM, hn.nM.symm, hn.SM, hn.SM.symm,
    hn.sn.ne, hn.sn.ne.symm, hn.DM, hn.DM.symm]

theorem bbOut_sd (hn : BbNames nm) (c : Candle K) (hc : Plain c) (r : BbRow K) :
    readingByCandle (bbOut nm c r) (nm ++ "_STDEV") = r.sd := by
  rw [readingByCandle_key _ hn.kS]
  obtain ⟨hi, hs⟩ := hc
  simp [bbOut, bbC2, bbC1, lookupKey, setKey, hi, hs, dset, dlookup, hn.nS, hn.nS.symm, hn.SM, hn.SM.symm,
    hn.sn.ne, hn.sn.ne.symm, hn.DM, hn.DM.symm]

theorem bbOut_mean (hn : BbNames nm) (c : Candle K) (hc : Plain c) (r : BbRow K) :
    readingByCandle (bbOut nm c r) (nm ++ "_STDEV" ++ "_data.mean") = r.dv.nested "mean" := by
  unfold readingByCandle
  rw [hn.sn.mean]
  obtain ⟨hi, hs⟩ := hc
  simp [bbOut, bbC2, bbC1, setKey, hi, hs, dset, dlookup, hn.nD, hn.nD.symm, hn.SM, hn.SM.symm,
    hn.sn.ne, hn.sn.ne.symm, hn.DM, hn.DM.symm]

theorem bbOut_var (hn : BbNames nm) (c : Candle K) (hc : Plain c) (r : BbRow K) :
    readingByCandle (bbOut nm c r) (nm ++ "_STDEV" ++ "_data.variance") = r.dv.nested "variance" := by
  unfold readingByCandle
  rw [hn.sn.var]
  obtain ⟨hi, hs⟩ := hc
  simp [bbOut, bbC2, bbC1, setKey, hi, hs, dset, dlookup, hn.nD, hn.nD.symm, hn.SM, hn.SM.symm,
    hn.sn.ne, hn.sn.ne.symm, hn.DM, hn.DM.symm]

end bbout

/-! ### the textbook bands and the predicate -/

/-- the own reading before both helpers have a value -/
def bbNoneDict : Val K := .dict [("BBL", .none), ("BBM", .none), ("BBU", .none)]
/-- the own reading: lower, middle, upper band -/
def bbDict (lo mid up : K) : Val K :=
  .dict [("BBL", .num (.flt lo)), ("BBM", .num (.flt mid)), ("BBU", .num (.flt up))]

theorem bbNoneDict_round (n : Nat) : (bbNoneDict : Val K).roundBy n = bbNoneDict := rfl

theorem bbDict_round (n : Nat) (ym ys : K) :
    (Val.dict [("BBL", .num ((Num.flt ym).sub ((Num.flt ys).mul (fl 2)))), ("BBM", .num (Num.flt ym)),
      ("BBU", .num ((Num.flt ym).add ((Num.flt ys).mul (fl 2))))] : Val K).roundBy n
      = bbDict (PyF.round n (ym - 2 * ys)) (PyF.round n ym) (PyF.round n (ym + 2 * ys)) := by
  have e : (fl 2 : Num K).toF = 2 := by rw [Num.toF_fl]; norm_num
  simp [Val.roundBy, Scalar.roundBy, Num.roundBy, Num.sub, Num.add, Num.mul, bbDict, LawfulPyF.sub_eq,
    LawfulPyF.add_eq, LawfulPyF.mul_eq, e, mul_comm]

/-- the textbook Bollinger bands of the raw inputs: nothing before index `p` (the STDEV helper's
warm-up), then `(SMA − 2σ, SMA, SMA + 2σ)` of the last `p` inputs -/
def bbSeries (p : Nat) (x : Nat → K) (j : Nat) : Option (K × K × K) :=
  if j < p then none
  else some (winMean x p j - 2 * sigmaExact x p j, winMean x p j, winMean x p j + 2 * sigmaExact x p j)

/-- what the whole-series theorem says of candle `j`:
* the STDEV helper's pair (reading rounded to 4 decimals, exact data entry) is `StdevOK`;
* the SMA helper's reading (rounded to 4 decimals, computed by the running update from its STORED
  predecessor) is `SmaOK`: `None` before index `p − 1`, then within `(j + 2 − p)·ε₄` of the window mean;
* the own reading is the dict of `None`s before index `p` and afterwards
  `{BBL: round_n(m − 2s), BBM: round_n(m), BBU: round_n(m + 2s)}` built from the STORED helper
  readings `m`, `s`. -/
def BbOK (p n : Nat) (x : Nat → K) (j : Nat) (r : BbRow K) : Prop :=
  StdevOK p defaultRound x j (r.sd, r.dv) ∧
  SmaOK p defaultRound x j r.sm ∧
  (j < p → r.bb = bbNoneDict) ∧
  (p ≤ j → ∃ ym ys, r.sm = .flt ym ∧ r.sd = .flt ys ∧
    r.bb = bbDict (PyF.round n (ym - 2 * ys)) (PyF.round n ym) (PyF.round n (ym + 2 * ys)))

theorem round_close (n : Nat) (a A e : K) (h : |a - A| ≤ e) : |PyF.round n a - A| ≤ eps K n + e := by
  calc |PyF.round n a - A| = |(PyF.round n a - a) + (a - A)| := by ring_nf
    _ ≤ _ := abs_add_le _ _
    _ ≤ _ := add_le_add (LawfulPyF.round_err n a) h

/-- **the bands**: from index `p` on the own reading is a dict of three floats with
`lower ≤ middle ≤ upper`, the middle band within `ε_n + (j + 2 − p)·ε₄` of the mean of the last `p`
inputs and the outer bands within `ε_n + (j + 4 − p)·ε₄` of `mean ∓ 2σ` (`ε₄`: both helpers are
stored rounded to 4 decimals; the SMA helper's own budget grows with its running update). -/
theorem BbOK.bands [NonnegSqrt K] {p n : Nat} {x : Nat → K} {j : Nat} {r : BbRow K} (h : BbOK p n x j r)
    (hj : p ≤ j) :
    ∃ lo mid up : K, r.bb = bbDict lo mid up ∧ lo ≤ mid ∧ mid ≤ up ∧
      |mid - winMean x p j| ≤ eps K n + ((j + 2 - p : Nat) : K) * eps K defaultRound ∧
      |lo - (winMean x p j - 2 * sigmaExact x p j)| ≤ eps K n + (((j + 2 - p : Nat) : K) + 2) * eps K defaultRound ∧
      |up - (winMean x p j + 2 * sigmaExact x p j)| ≤ eps K n + (((j + 2 - p : Nat) : K) + 2) * eps K defaultRound := by
  obtain ⟨hsd, hsm, _, hb⟩ := h
  obtain ⟨ym, ys, hm, hs, hbb⟩ := hb hj
  have hys : 0 ≤ ys := hsd.nonneg ys hs
  obtain ⟨ys', hs', _, hse⟩ := hsd.2.2 hj
  have : ys' = ys := by
    have h1 : (Val.flt ys' : Val K) = .flt ys := hs'.symm.trans hs
    injection h1 with h1; injection h1 with h1; injection h1
  subst this
  obtain ⟨ym', hm', hme⟩ := hsm.2 (by omega)
  have : ym' = ym := by
    have h1 : (Val.flt ym' : Val K) = .flt ym := hm'.symm.trans hm
    injection h1 with h1; injection h1 with h1; injection h1
  subst this
  refine ⟨_, _, _, hbb, LawfulPyF.round_mono n (by linarith), LawfulPyF.round_mono n (by linarith),
    round_close n _ _ _ hme, ?_, ?_⟩
  · apply round_close
    have e : ym' - 2 * ys' - (winMean x p j - 2 * sigmaExact x p j)
        = (ym' - winMean x p j) - 2 * (ys' - sigmaExact x p j) := by ring
    rw [e]
    calc |(ym' - winMean x p j) - 2 * (ys' - sigmaExact x p j)|
        ≤ |ym' - winMean x p j| + |2 * (ys' - sigmaExact x p j)| := abs_sub _ _
      _ = |ym' - winMean x p j| + 2 * |ys' - sigmaExact x p j| := by rw [abs_mul]; norm_num
      _ ≤ _ := by nlinarith [hme, hse]
  · apply round_close
    have e : ym' + 2 * ys' - (winMean x p j + 2 * sigmaExact x p j)
        = (ym' - winMean x p j) + 2 * (ys' - sigmaExact x p j) := by ring
    rw [e]
    calc |(ym' - winMean x p j) + 2 * (ys' - sigmaExact x p j)|
        ≤ |ym' - winMean x p j| + |2 * (ys' - sigmaExact x p j)| := abs_add_le _ _
      _ = |ym' - winMean x p j| + 2 * |ys' - sigmaExact x p j| := by rw [abs_mul]; norm_num
      _ ≤ _ := by nlinarith [hme, hse]

/-! ### one row of the BBANDS tree, the whole series -/

/-- the candles of a BBANDS run -/
def decoBb (nm : String) (raw : List (Candle K)) (rows : List (BbRow K)) : List (Candle K) :=
  decoWith (bbOut nm) raw rows

/-- **one row**: if all earlier rows are as claimed, the row step at index `m` returns and stores a
row as claimed -/
theorem bb_step (p : Nat) (hp : 2 ≤ p) (nm input : String) (fld : Candle K → Num K) (n : Nat)
    (hn : BbNames nm) (hin : NoDot input ∧ input ∈ Candle.attrNames)
    (hattr : ∀ c : Candle K, c.attr input = some (.num (fld c)))
    (raw : List (Candle K)) (hraw : ∀ c ∈ raw, Plain c)
    (m : Nat) (hm : m < raw.length) (rows : List (BbRow K)) (hrows : rows.length = m)
    (hQ : ∀ j, j < m → BbOK p n (fieldAt fld raw) j (rows.getD j BbRow.dflt)) :
    ∃ r, Gen.rowStep (bbTree (F := K) nm n (p : Int) input (by omega) hn hin).S
          (decoWith (bbOut nm) (raw.take m) rows) (raw.getD m default)
        = .ok (decoWith (bbOut nm) (raw.take m) rows ++ [bbOut nm (raw.getD m default) r]) ∧
      BbOK p n (fieldAt fld raw) m r := by
  have htl : (raw.take m).length = m := by simp; omega
  have hdl : (decoWith (bbOut nm) (raw.take m) rows).length = m := by
    rw [decoWith_length _ _ _ (by rw [htl, hrows]), htl]
  have hc : Plain (raw.getD m default) := getD_plain raw hraw m hm
  have hlast := lastReading_decoWith (bbOut nm) BbRow.dflt raw m (by omega) rows hrows
  -- the input column as each piece sees it
  obtain ⟨hfS, hpS⟩ := input_facts (bbOut nm) input hin fld hattr (fun c r => bbOut_input nm input hin c r)
    raw m hm rows hrows _ rfl (raw.getD m default) rfl (nm ++ "_STDEV")
  have hfM := fun sd dv => input_facts (bbOut nm) input hin fld hattr (fun c r => bbOut_input nm input hin c r)
    raw m hm rows hrows _ rfl (bbC1 nm sd dv (raw.getD m default)) (bbC1_input nm input hin sd dv _) (nm ++ "_SMA")
  generalize hdone : decoWith (bbOut nm) (raw.take m) rows = done at hdl hfS hpS hfM hlast ⊢
  subst hdl
  -- (1) the STDEV helper
  have hcore := stdev_core p (by omega) (nm ++ "_STDEV") input (nm ++ "_STDEV" ++ "_data")
    (fun j => fld (raw.getD j default)) done (raw.getD done.length default) hfS
    (by
      have := hpS (p + 1) (by omega)
      rw [show ((p + 1 : Nat) : Int) = (p : Int) + 1 by push_cast; rfl] at this
      exact this)
    (by
      by_cases h0 : done.length = 0
      · rw [if_pos h0, List.eq_nil_of_length_eq_zero h0]; rfl
      · have hd : (rows.getD (done.length - 1) BbRow.dflt).dv = stdData _ _ := (hQ (done.length - 1) (by omega)).1.1
        rw [if_neg h0, hlast (by omega), bbOut_mean nm hn _ (getD_plain raw hraw _ (by omega)), hd, stdData_mean]
        rfl)
    (by
      by_cases h0 : done.length = 0
      · rw [if_pos h0, List.eq_nil_of_length_eq_zero h0]; rfl
      · have hd : (rows.getD (done.length - 1) BbRow.dflt).dv = stdData _ _ := (hQ (done.length - 1) (by omega)).1.1
        rw [if_neg h0, hlast (by omega), bbOut_var nm hn _ (getD_plain raw hraw _ (by omega)), hd, stdData_var]
        rfl)
  rw [stdev_fact] at hcore
  obtain ⟨fin, hX, hfin⟩ := rwCalc_inv _ _ _ done _ (by rw [hc.2]; rfl) _ _ hcore
  have hsdOK := stdevOK_mk p defaultRound (by omega) (fieldAt fld raw) done.length
  -- (2) the SMA helper
  obtain ⟨hfM1, hpM1⟩ := hfM ((stdOwn p (fieldAt fld raw) done.length).roundBy defaultRound)
    (stdData (runMean p (fieldAt fld raw) done.length) (runVar p (fieldAt fld raw) done.length))
  obtain ⟨vm, hM, hsmOK⟩ := sma_core p hp (nm ++ "_SMA") input defaultRound (fun j => fld (raw.getD j default)) done
    (bbC1 nm ((stdOwn p (fieldAt fld raw) done.length).roundBy defaultRound)
      (stdData (runMean p (fieldAt fld raw) done.length) (runVar p (fieldAt fld raw) done.length))
      (raw.getD done.length default))
    hfM1 (hpM1 p (by omega))
    (by
      by_cases h0 : done.length = 0
      · rw [if_pos h0, List.eq_nil_of_length_eq_zero h0]; rfl
      · rw [if_neg h0, hlast (by omega), bbOut_sm nm hn _ (getD_plain raw hraw _ (by omega))]
        exact (hQ (done.length - 1) (by omega)).2.1)
  -- (3) the own reading
  have hrM : ({ cs := done ++ [bbC2 nm ((stdOwn p (fieldAt fld raw) done.length).roundBy defaultRound)
        (stdData (runMean p (fieldAt fld raw) done.length) (runVar p (fieldAt fld raw) done.length))
        (vm.roundBy defaultRound) (raw.getD done.length default)], i := done.length, name := nm } : Ctx K).reading
        (nm ++ "_SMA") = .ok (vm.roundBy defaultRound) := by
    rw [Ctx.reading_cur done _ [] nm, bbC2_sm nm hn _ _ _ _ hc]
  have hrS : ({ cs := done ++ [bbC2 nm ((stdOwn p (fieldAt fld raw) done.length).roundBy defaultRound)
        (stdData (runMean p (fieldAt fld raw) done.length) (runVar p (fieldAt fld raw) done.length))
        (vm.roundBy defaultRound) (raw.getD done.length default)], i := done.length, name := nm } : Ctx K).reading
        (nm ++ "_STDEV") = .ok ((stdOwn p (fieldAt fld raw) done.length).roundBy defaultRound) := by
    rw [Ctx.reading_cur done _ [] nm, bbC2_sd nm hn _ _ _ _ hc]
  by_cases hj : done.length < p
  · -- before both helpers have a value
    have hsn : ((stdOwn p (fieldAt fld raw) done.length).roundBy defaultRound).isNone = true := by
      have e : (stdOwn p (fieldAt fld raw) done.length).roundBy defaultRound = .none := hsdOK.2.1 hj
      rw [e]; rfl
    have hP := bbands_none _ (nm ++ "_SMA") (nm ++ "_STDEV") _ _ hrM hrS (Or.inr hsn)
    refine ⟨_, bb_rowStep_ok nm n (p : Int) input (by omega) hn hin done _ _ _ vm _ fin hX hfin hM hP,
      hsdOK, hsmOK, fun _ => rfl, fun h => by omega⟩
  · obtain ⟨ys, hys', _, _⟩ := hsdOK.2.2 (by omega)
    have hys : (stdOwn p (fieldAt fld raw) done.length).roundBy defaultRound = .flt ys := hys'
    obtain ⟨ym, hym, _⟩ := hsmOK.2 (by omega)
    have hP := bbands_def _ (nm ++ "_SMA") (nm ++ "_STDEV") (.flt ym) (.flt ys)
      (hrM.trans (congrArg Except.ok hym)) (hrS.trans (congrArg Except.ok hys))
    refine ⟨_, bb_rowStep_ok nm n (p : Int) input (by omega) hn hin done _ _ _ vm _ fin hX hfin hM hP,
      hsdOK, hsmOK, fun h => by omega, fun _ => ⟨ym, ys, hym, hys, bbDict_round n ym ys⟩⟩

/-- **BBANDS, whole series** (row-major run of `bbTree`), period `p ≥ 2`, input a candle field.  For
EVERY raw list the run returns; candle `j` of the result is the raw candle `j` carrying the row
`rows[j]` (STDEV helper reading + data entry and SMA helper reading in `.sub_indicators`, own dict in
`.indicators`), and every row satisfies `BbOK` (hence `BbOK.bands`). -/
theorem bb_series (p : Nat) (hp : 2 ≤ p) (nm input : String) (fld : Candle K → Num K) (n : Nat)
    (hn : BbNames nm) (hin : NoDot input ∧ input ∈ Candle.attrNames)
    (hattr : ∀ c : Candle K, c.attr input = some (.num (fld c)))
    (raw : List (Candle K)) (hraw : ∀ c ∈ raw, Plain c) :
    ∃ rows : List (BbRow K), rows.length = raw.length ∧
      Gen.rowMajor (bbTree (F := K) nm n (p : Int) input (by omega) hn hin).S raw = .ok (decoBb nm raw rows) ∧
      ∀ j, j < raw.length → BbOK p n (fieldAt fld raw) j (rows.getD j BbRow.dflt) :=
  gen_series_induct _ (bbOut nm) BbRow.dflt raw _
    (fun m hm rows hrows hQ => bb_step p hp nm input fld n hn hin hattr raw hraw m hm rows hrows hQ)

/-! ### the same statement read off the candles -/

/-- a stored own reading (the dict) against the textbook bands: the dict of `None`s where the
series has no value; otherwise three floats, ordered, each within its budget -/
def BbOwnOK (p n j : Nat) (o : Option (K × K × K)) (v : Val K) : Prop :=
  match o with
  | none => v = bbNoneDict
  | some (L, M, U) => ∃ lo mid up : K, v = bbDict lo mid up ∧ lo ≤ mid ∧ mid ≤ up ∧
      |mid - M| ≤ eps K n + ((j + 2 - p : Nat) : K) * eps K defaultRound ∧
      |lo - L| ≤ eps K n + (((j + 2 - p : Nat) : K) + 2) * eps K defaultRound ∧
      |up - U| ≤ eps K n + (((j + 2 - p : Nat) : K) + 2) * eps K defaultRound

theorem bbDict_nested (lo mid up : K) :
    (bbDict lo mid up).nested "BBL" = .flt lo ∧ (bbDict lo mid up).nested "BBM" = .flt mid ∧
    (bbDict lo mid up).nested "BBU" = .flt up := by
  refine ⟨?_, ?_, ?_⟩ <;> simp [bbDict, Val.nested, dlookup]

/-- what `BbOK` says of the finished candle `j`: the own dict follows `bbSeries`, the STDEV helper's
entries are those of a STDEV series rounded to 4 decimals (`SdCandleOK`), the SMA helper's reading
is `SmaOK` -/
def BbCandleOK (p n : Nat) (nm : String) (x : Nat → K) (j : Nat) (c : Candle K) : Prop :=
  BbOwnOK p n j (bbSeries p x j) (readingByCandle c nm) ∧
  SdCandleOK p defaultRound (nm ++ "_STDEV") x j c ∧
  SmaOK p defaultRound x j (readingByCandle c (nm ++ "_SMA"))

theorem bbCandleOK_of [NonnegSqrt K] (p n : Nat) (hp : 2 ≤ p) (nm : String) (hk : IsKey nm) (hn : BbNames nm)
    (x : Nat → K) (j : Nat) (c : Candle K) (hc : Plain c) (r : BbRow K) (h : BbOK p n x j r) :
    BbCandleOK p n nm x j (bbOut nm c r) := by
  refine ⟨?_, ⟨?_, ?_, ?_, fun hj => ⟨runMean_eq_winMean p x j hj, runVar_eq_popVar p (by omega) x j hj⟩⟩, ?_⟩
  · rw [bbOut_own nm hk]
    unfold bbSeries
    by_cases hj : j < p
    · rw [if_pos hj]; exact h.2.2.1 hj
    · rw [if_neg hj]; exact h.bands (by omega)
  · rw [bbOut_sd nm hn _ hc]
    unfold stdevSeries
    by_cases hj : j < p
    · rw [if_pos hj]; exact h.1.2.1 hj
    · rw [if_neg hj]
      obtain ⟨y, hy, he, hb⟩ := h.1.2.2 (by omega)
      exact ⟨y, hy, hb, h.1.nonneg y hy⟩
  · have hd : r.dv = stdData _ _ := h.1.1
    rw [bbOut_mean nm hn _ hc, hd, stdData_mean]
  · have hd : r.dv = stdData _ _ := h.1.1
    rw [bbOut_var nm hn _ hc, hd, stdData_var]
  · rw [bbOut_sm nm hn _ hc]; exact h.2.1

theorem decoBb_getD (nm : String) (raw : List (Candle K)) (rows : List (BbRow K))
    (hl : rows.length = raw.length) (j : Nat) (hj : j < raw.length) :
    (decoBb nm raw rows).getD j default = bbOut nm (raw.getD j default) (rows.getD j BbRow.dflt) := by
  rw [List.getD_eq_getElem?_getD, decoBb, decoWith_getElem? _ _ _ BbRow.dflt j hl hj]; rfl

/-- **BBANDS, whole series, candle by candle.**  For every raw list the row-major run of `bbTree`
returns a list of the raw candles' length whose candle `j` satisfies `BbCandleOK`: the own dict is
`{BBL: None, BBM: None, BBU: None}` before index `p` and afterwards three ordered floats,
middle within `ε_n + (j+2−p)·ε₄` of the SMA and outer bands within `ε_n + (j+4−p)·ε₄` of `SMA ∓ 2σ` of
the last `p` inputs. -/
theorem bb_series_candles [NonnegSqrt K] (p : Nat) (hp : 2 ≤ p) (nm input : String) (fld : Candle K → Num K)
    (n : Nat) (hk : IsKey nm) (hn : BbNames nm) (hin : NoDot input ∧ input ∈ Candle.attrNames)
    (hattr : ∀ c : Candle K, c.attr input = some (.num (fld c)))
    (raw : List (Candle K)) (hraw : ∀ c ∈ raw, Plain c) :
    ∃ out : List (Candle K), out.length = raw.length ∧
      Gen.rowMajor (bbTree (F := K) nm n (p : Int) input (by omega) hn hin).S raw = .ok out ∧
      ∀ j, j < raw.length → BbCandleOK p n nm (fieldAt fld raw) j (out.getD j default) := by
  obtain ⟨rows, hl, hrun, hall⟩ := bb_series p hp nm input fld n hn hin hattr raw hraw
  refine ⟨decoBb nm raw rows, decoWith_length _ _ _ hl, hrun, ?_⟩
  intro j hj
  rw [decoBb_getD nm raw rows hl j hj]
  exact bbCandleOK_of p n hp nm hk hn _ j _ (getD_plain raw hraw j hj) _ (hall j hj)

/-! ### through the engine -/

/-- **… through the engine**: `calculate()` on the raw candles returns exactly the candles of `bb_series`. -/
theorem bb_series_engine (p : Nat) (hp : 2 ≤ p) (nm input : String) (fld : Candle K → Num K) (n : Nat)
    (hn : BbNames nm) (hin : NoDot input ∧ input ∈ Candle.attrNames)
    (hattr : ∀ c : Candle K, c.attr input = some (.num (fld c)))
    (raw : List (Candle K)) (hraw : ∀ c ∈ raw, Plain c) :
    ∃ rows : List (BbRow K), rows.length = raw.length ∧
      engineCalc (mkTop (.bbands (p : Int) input : Kind K) nm n) raw = .ok (decoBb nm raw rows) ∧
      ∀ j, j < raw.length → BbOK p n (fieldAt fld raw) j (rows.getD j BbRow.dflt) := by
  obtain ⟨rows, hl, hrun, hall⟩ := bb_series p hp nm input fld n hn hin hattr raw hraw
  refine ⟨rows, hl, ?_, hall⟩
  have h3 := ((bbTree (F := K) nm n (p : Int) input (by omega) hn hin).engine [] raw [] (decoBb nm raw rows) rfl
    (by simp) hraw).2 (by simpa using hrun)
  simp only [List.nil_append] at h3
  exact h3

/-- **… through the object**: the batch run returns exactly the candles of `bb_series`. -/
theorem bb_series_batch (p : Nat) (hp : 2 ≤ p) (nm input : String) (fld : Candle K → Num K) (n : Nat)
    (hn : BbNames nm) (hin : NoDot input ∧ input ∈ Candle.attrNames)
    (hattr : ∀ c : Candle K, c.attr input = some (.num (fld c)))
    (raw : List (Candle K)) (hraw : ∀ c ∈ raw, Plain c) :
    ∃ rows : List (BbRow K), rows.length = raw.length ∧
      candlesOf (runIndicator (mkTop (.bbands (p : Int) input : Kind K) nm n) {} raw []) = .ok (decoBb nm raw rows) ∧
      ∀ j, j < raw.length → BbOK p n (fieldAt fld raw) j (rows.getD j BbRow.dflt) := by
  obtain ⟨rows, hl, hrun, hall⟩ := bb_series p hp nm input fld n hn hin hattr raw hraw
  exact ⟨rows, hl,
    ((bbTree (F := K) nm n (p : Int) input (by omega) hn hin).batch_iff (MgrSpec.base K) raw hraw _).2 hrun, hall⟩

/-- **whenever the batch run returns, its candles carry exactly those readings** (and it does
return: `bb_series_batch`) -/
theorem bb_batch_readings [NonnegSqrt K] (p : Nat) (hp : 2 ≤ p) (nm input : String) (fld : Candle K → Num K)
    (n : Nat) (hk : IsKey nm) (hn : BbNames nm) (hin : NoDot input ∧ input ∈ Candle.attrNames)
    (hattr : ∀ c : Candle K, c.attr input = some (.num (fld c)))
    (raw : List (Candle K)) (hraw : ∀ c ∈ raw, Plain c) (out : List (Candle K))
    (hout : candlesOf (runIndicator (mkTop (.bbands (p : Int) input : Kind K) nm n) {} raw []) = .ok out) :
    out.length = raw.length ∧
    ∀ j, j < raw.length → BbCandleOK p n nm (fieldAt fld raw) j (out.getD j default) := by
  obtain ⟨out', h1, h2, h3⟩ := bb_series_candles p hp nm input fld n hk hn hin hattr raw hraw
  have hr : Gen.rowMajor (bbTree (F := K) nm n (p : Int) input (by omega) hn hin).S raw = .ok out :=
    ((bbTree (F := K) nm n (p : Int) input (by omega) hn hin).batch_iff (MgrSpec.base K) raw hraw out).1 hout
  rw [h2] at hr
  cases hr
  exact ⟨h1, h3⟩

/-- **… for every append schedule**: whenever a live history returns, its candles are those of
`bb_series` over the whole stream. -/
theorem bb_series_live (p : Nat) (hp : 2 ≤ p) (nm input : String) (fld : Candle K → Num K) (n : Nat)
    (hn : BbNames nm) (hin : NoDot input ∧ input ∈ Candle.attrNames)
    (hattr : ∀ c : Candle K, c.attr input = some (.num (fld c)))
    (init : List (Candle K)) (chunks : List (List (Candle K)))
    (hraw : ∀ c ∈ init ++ chunks.flatten, Plain c) (snap : List (Candle K))
    (hsnap : candlesOf (runIndicator (mkTop (.bbands (p : Int) input : Kind K) nm n) {} init chunks) = .ok snap) :
    ∃ rows : List (BbRow K), rows.length = (init ++ chunks.flatten).length ∧
      snap = decoBb nm (init ++ chunks.flatten) rows ∧
      ∀ j, j < (init ++ chunks.flatten).length →
        BbOK p n (fieldAt fld (init ++ chunks.flatten)) j (rows.getD j BbRow.dflt) := by
  obtain ⟨rows, hl, hrun, hall⟩ := bb_series p hp nm input fld n hn hin hattr _ hraw
  have h := (bbTree (F := K) nm n (p : Int) input (by omega) hn hin).live_refines (MgrSpec.base K) init chunks hraw snap hsnap
  have h' : Gen.rowMajor (bbTree (F := K) nm n (p : Int) input (by omega) hn hin).S (init ++ chunks.flatten) = .ok snap := h
  rw [hrun] at h'
  exact ⟨rows, hl, (Except.ok.inj h').symm, hall⟩

/-! ### non-vacuity: the five demo candles over ℚ -/

theorem bbNames_demo : BbNames "BB_3" :=
  ⟨by decide, by decide, ⟨by decide, by decide, by decide⟩, by decide, by decide, by decide, by decide, by decide⟩

example : ∃ rows : List (BbRow ℚ), rows.length = rsiDemoRaw.length ∧
    Gen.rowMajor (bbTree (F := ℚ) "BB_3" 4 ((3 : Nat) : Int) "close" (by omega) bbNames_demo ⟨noDot_close, by decide⟩).S
      rsiDemoRaw = .ok (decoBb "BB_3" rsiDemoRaw rows) ∧
    ∀ j, j < rsiDemoRaw.length → BbOK 3 4 (fieldAt (·.c) rsiDemoRaw) j (rows.getD j BbRow.dflt) :=
  bb_series 3 (by norm_num) "BB_3" "close" (·.c) 4 bbNames_demo ⟨noDot_close, by decide⟩
    (fun _ => rfl) rsiDemoRaw rsiDemoRaw_plain

/-- the batch run on the demo candles returns, and its candles are as stated -/
example : ∃ out : List (Candle ℚ),
    candlesOf (runIndicator (mkTop (.bbands ((3 : Nat) : Int) "close" : Kind ℚ) "BB_3" 4) {} rsiDemoRaw []) = .ok out ∧
    out.length = rsiDemoRaw.length ∧
    ∀ j, j < rsiDemoRaw.length → BbCandleOK 3 4 "BB_3" (fieldAt (·.c) rsiDemoRaw) j (out.getD j default) := by
  obtain ⟨rows, _, h2, _⟩ := bb_series_batch 3 (by norm_num) "BB_3" "close" (·.c) 4 bbNames_demo
    ⟨noDot_close, by decide⟩ (fun _ => rfl) rsiDemoRaw rsiDemoRaw_plain
  exact ⟨_, h2, bb_batch_readings 3 (by norm_num) "BB_3" "close" (·.c) 4 (by decide) bbNames_demo
    ⟨noDot_close, by decide⟩ (fun _ => rfl) rsiDemoRaw rsiDemoRaw_plain _ h2⟩

/-- the textbook series on the demo candles: no bands on candles 0–2 (although the SMA helper has a
value on candle 2); the SMA of candle 4 is `44/3` -/
example : bbSeries 3 (fieldAt (·.c) rsiDemoRaw) 2 = none := by decide
example : winMean (fieldAt (·.c) rsiDemoRaw) 3 4 = 44 / 3 := by
  norm_num [winMean, rsum, fieldAt, rsiDemoRaw, Demo.mk, List.range_succ]

/-- concretely: the batch run stores the dict of `None`s on candle 2 and, on candle 4, three ordered
floats whose middle one is within `ε₄ + 3·ε₄` of the SMA `44/3` -/
example : ∃ out : List (Candle ℚ),
    candlesOf (runIndicator (mkTop (.bbands ((3 : Nat) : Int) "close" : Kind ℚ) "BB_3" 4) {} rsiDemoRaw []) = .ok out ∧
    readingByCandle (out.getD 2 default) "BB_3" = bbNoneDict ∧
    ∃ lo mid up : ℚ, readingByCandle (out.getD 4 default) "BB_3" = bbDict lo mid up ∧ lo ≤ mid ∧ mid ≤ up ∧
      |mid - 44 / 3| ≤ eps ℚ 4 + 3 * eps ℚ 4 := by
  obtain ⟨rows, _, h2, _⟩ := bb_series_batch 3 (by norm_num) "BB_3" "close" (·.c) 4 bbNames_demo
    ⟨noDot_close, by decide⟩ (fun _ => rfl) rsiDemoRaw rsiDemoRaw_plain
  obtain ⟨_, h3⟩ := bb_batch_readings 3 (by norm_num) "BB_3" "close" (·.c) 4 (by decide) bbNames_demo
    ⟨noDot_close, by decide⟩ (fun _ => rfl) rsiDemoRaw rsiDemoRaw_plain _ h2
  refine ⟨_, h2, ?_, ?_⟩
  · have h := (h3 2 (by decide)).1
    have e : bbSeries 3 (fieldAt (·.c) rsiDemoRaw) 2 = none := by decide
    rw [e] at h
    exact h
  · have h := (h3 4 (by decide)).1
    have e : bbSeries 3 (fieldAt (·.c) rsiDemoRaw) 4
        = some (winMean (fieldAt (·.c) rsiDemoRaw) 3 4 - 2 * sigmaExact (fieldAt (·.c) rsiDemoRaw) 3 4,
            winMean (fieldAt (·.c) rsiDemoRaw) 3 4,
            winMean (fieldAt (·.c) rsiDemoRaw) 3 4 + 2 * sigmaExact (fieldAt (·.c) rsiDemoRaw) 3 4) := by
      unfold bbSeries; rw [if_neg (by decide)]
    rw [e] at h
    obtain ⟨lo, mid, up, hv, h1, h2', hm, _, _⟩ := h
    have ew : winMean (fieldAt (·.c) rsiDemoRaw) 3 4 = 44 / 3 := by
      norm_num [winMean, rsum, fieldAt, rsiDemoRaw, Demo.mk, List.range_succ]
    have e3 : ((4 + 2 - 3 : Nat) : ℚ) = 3 := by norm_num
    rw [ew, e3] at hm
    exact ⟨lo, mid, up, hv, h1, h2', hm⟩

#print axioms bb_series
#print axioms BbOK.bands
#print axioms bb_series_candles
#print axioms bb_series_engine
#print axioms bb_series_batch
#print axioms bb_batch_readings
#print axioms bb_series_live

end Numeric
end Hex

import HexProofs.Framework.Gen.BBands
import HexProofs.Numeric.SeriesRSI
import HexProofs.Numeric.SeriesATR
import HexProofs.Numeric.Stdev
import HexProofs.Numeric.Channel
set_option linter.unusedSectionVars false
set_option linter.unusedSimpArgs false
namespace Hex
namespace Numeric
variable {K : Type} [Field K] [LinearOrder K] [IsStrictOrderedRing K] [LawfulPyF K]

/-! ### the textbook series -/

theorem rsum_window (a p : Nat) (x : Nat → K) : rsum (a + p) x - rsum a x = rsum p (fun k => x (a + k)) := by
  induction p with
  | zero => simp [rsum]
  | succ n ih => rw [← Nat.add_assoc, rsum_succ, rsum_succ, ← ih]; ring

/-- sum of the (at most `p`) inputs ending at index `j`: `x (j+1−p) + … + x j`; before the window is
full the missing entries count as `0` (the library starts its running statistics from `0`) -/
def runSum (p : Nat) (x : Nat → K) (j : Nat) : K := rsum (j + 1) x - rsum (j + 1 - p) x

theorem runSum_zero (p : Nat) (hp : 1 ≤ p) (x : Nat → K) : runSum p x 0 = x 0 := by
  have : 0 + 1 - p = 0 := by omega
  simp [runSum, this, rsum]

/-- the value leaving the window when candle `j` enters: `x (j − p)` once `p + 1` inputs exist -/
def remAt (p : Nat) (x : Nat → K) (j : Nat) : K := if p ≤ j then x (j - p) else 0

theorem runSum_step (p : Nat) (x : Nat → K) (j : Nat) (hj : 1 ≤ j) :
    runSum p x j = runSum p x (j - 1) - remAt p x j + x j := by
  obtain ⟨i, rfl⟩ : ∃ i, j = i + 1 := ⟨j - 1, by omega⟩
  unfold runSum remAt
  simp only [Nat.add_sub_cancel]
  rw [rsum_succ (i + 1)]
  by_cases h : p ≤ i + 1
  · have e : i + 1 + 1 - p = (i + 1 - p) + 1 := by omega
    rw [e, rsum_succ (i + 1 - p), if_pos h]; ring
  · have e1 : i + 1 + 1 - p = 0 := by omega
    have e2 : i + 1 - p = 0 := by omega
    rw [e1, e2, if_neg h]; ring

theorem runSum_window (p : Nat) (x : Nat → K) (j : Nat) (hj : p ≤ j + 1) :
    runSum p x j = rsum p (fun k => x (j + 1 - p + k)) := by
  unfold runSum
  rw [← rsum_window]
  congr 2
  omega

/-- the running mean the library keeps under `name_data.mean` -/
def runMean (p : Nat) (x : Nat → K) (j : Nat) : K := runSum p x j / p
/-- the running (population) variance the library keeps under `name_data.variance` -/
def runVar (p : Nat) (x : Nat → K) (j : Nat) : K := runSum p (fun i => x i ^ 2) j / p - (runMean p x j) ^ 2

/-- textbook population variance of the `p` inputs ending at `j`: `mean((x − mean)²)` -/
def popVar (x : Nat → K) (p j : Nat) : K :=
  rsum p (fun k => (x (j + 1 - p + k) - winMean x p j) ^ 2) / p

theorem popVar_nonneg (x : Nat → K) (p j : Nat) : 0 ≤ popVar x p j := by
  unfold popVar
  exact div_nonneg (rsum_nonneg p _ (fun k _ => sq_nonneg _)) (by positivity)

theorem runMean_eq_winMean (p : Nat) (x : Nat → K) (j : Nat) (hj : p ≤ j + 1) :
    runMean p x j = winMean x p j := by
  unfold runMean winMean
  rw [runSum_window p x j hj]

theorem rsum_sq_dev (p : Nat) (y : Nat → K) (m : K) :
    rsum p (fun k => (y k - m) ^ 2) = rsum p (fun k => y k ^ 2) - 2 * m * rsum p y + p * m ^ 2 := by
  induction p with
  | zero => simp [rsum]
  | succ n ih => rw [rsum_succ, rsum_succ, rsum_succ, ih]; push_cast; ring

/-- `E[x²] − E[x]²` is the mean squared deviation -/
theorem runVar_eq_popVar (p : Nat) (hp : 1 ≤ p) (x : Nat → K) (j : Nat) (hj : p ≤ j + 1) :
    runVar p x j = popVar x p j := by
  have hpK : (p : K) ≠ 0 := by exact_mod_cast (by omega : p ≠ 0)
  unfold runVar popVar
  rw [runMean_eq_winMean p x j hj, runSum_window p _ j hj, rsum_sq_dev]
  unfold winMean
  field_simp
  ring

/-- the running update of `hexital/indicators/stdev.py` maps the statistics of candle `j − 1` to
those of candle `j` (`welford`) -/
theorem runStats_step (p : Nat) (hp : 1 ≤ p) (x : Nat → K) (j : Nat) (hj : 1 ≤ j) :
    meanStep (p : K) (runMean p x (j - 1)) (x j) (remAt p x j) = runMean p x j ∧
    varStep (p : K) (runMean p x (j - 1)) (runVar p x (j - 1)) (x j) (remAt p x j) = runVar p x j := by
  have hpK : (p : K) ≠ 0 := by exact_mod_cast (by omega : p ≠ 0)
  obtain ⟨h1, h2⟩ := welford (p : K) (runSum p x (j - 1)) (runSum p (fun i => x i ^ 2) (j - 1)) (x j) (remAt p x j) hpK
  have hs := runSum_step p x j hj
  have hq := runSum_step p (fun i => x i ^ 2) j hj
  have hr : remAt p (fun i => x i ^ 2) j = remAt p x j ^ 2 := by
    unfold remAt; split <;> simp
  unfold runVar runMean at *
  rw [h1, h2, hs, hq, hr]
  exact ⟨rfl, rfl⟩

theorem runStats_first (p : Nat) (hp : 1 ≤ p) (x : Nat → K) :
    meanStep (p : K) 0 (x 0) 0 = runMean p x 0 ∧ varStep (p : K) 0 0 (x 0) 0 = runVar p x 0 := by
  have hpK : (p : K) ≠ 0 := by exact_mod_cast (by omega : p ≠ 0)
  unfold runVar runMean
  rw [runSum_zero p hp, runSum_zero p hp]
  unfold varStep meanStep
  constructor
  · ring
  · field_simp; ring

/-- the exact standard deviation of the `p` inputs ending at `j` -/
def sigmaExact (x : Nat → K) (p j : Nat) : K := PyF.sqrt (popVar x p j)

/-- the textbook series with the library's warm-up: the first reading appears at index `p`
(`reading_period(period + 1, input)`: STDEV waits for `p + 1` inputs although the window of `p`
is already full at index `p − 1`) -/
def stdevSeries (p : Nat) (x : Nat → K) (j : Nat) : Option K :=
  if j < p then none else some (sigmaExact x p j)

theorem sigmaExact_root [LawfulSqrt K] (x : Nat → K) (p j : Nat) :
    sigmaExact x p j * sigmaExact x p j = popVar x p j ∧ 0 ≤ sigmaExact x p j :=
  ⟨LawfulSqrt.sqrt_sq _ (popVar_nonneg x p j), LawfulSqrt.sqrt_nonneg _ (popVar_nonneg x p j)⟩

theorem sigmaExact_nonneg [NonnegSqrt K] (x : Nat → K) (p j : Nat) : 0 ≤ sigmaExact x p j :=
  NonnegSqrt.sqrt_nonneg _ (popVar_nonneg x p j)

/-! ### one STDEV call on a history whose input column and previous data entry are known -/

/-- the stored data entry -/
def stdData (μ v : K) : Val K := sdict [("mean", sc (.flt μ)), ("variance", sc (.flt v))]

theorem stdData_mean (μ v : K) : (stdData μ v).nested "mean" = .flt μ := by
  simp [stdData, Val.nested, sdict, sc, dlookup]

theorem stdData_var (μ v : K) : (stdData μ v).nested "variance" = .flt v := by
  simp [stdData, Val.nested, sdict, sc, dlookup]

/-- the unrounded own reading of the call at index `m` -/
def stdOwn (p : Nat) (x : Nat → K) (m : Nat) : Val K :=
  if m < p then .none else .flt (PyF.sqrt (max (runVar p x m) 0))

theorem Ctx.readingPeriod_some_i (x : Ctx K) (q : Int) (nm : String) :
    x.readingPeriod q nm (some x.i) = x.readingPeriod q nm := rfl

theorem Ctx.reading_none_i (x : Ctx K) (nm : String) : x.reading nm = x.reading nm (some x.i) := rfl

/-- **one `StandardDeviation._calculate_reading` call**, given the input column (`xs`) up to the
active index and the data entry of the previous candle: the call stores the running statistics of
the zero-padded window and returns `None` before index `p`, `sqrt(max(variance, 0))` from `p` on. -/
theorem stdev_core (p : Nat) (hp : 1 ≤ p) (nm input D : String) (xs : Nat → Num K)
    (H : List (Candle K)) (c : Candle K)
    (hfield : ∀ j : Nat, j ≤ H.length →
      ({ cs := H ++ [c], i := H.length, name := nm } : Ctx K).reading input (some (j : Int)) = .ok (.num (xs j)))
    (hper : ({ cs := H ++ [c], i := H.length, name := nm } : Ctx K).readingPeriod ((p : Int) + 1) input
      = decide (p + 1 ≤ H.length + 1))
    (hmean : Ctx.lastReading (nm ++ "_data.mean") H
      = if H.length = 0 then .none else .flt (runMean p (fun j => (xs j).toF) (H.length - 1)))
    (hvar : Ctx.lastReading (nm ++ "_data.variance") H
      = if H.length = 0 then .none else .flt (runVar p (fun j => (xs j).toF) (H.length - 1))) :
    Calc.stdev (dOps D H.length) { cs := H ++ [c], i := H.length, name := nm } (p : Int) input
      = .ok (stdOwn p (fun j => (xs j).toF) H.length,
          H ++ [setKey true D (stdData (runMean p (fun j => (xs j).toF) H.length)
            (runVar p (fun j => (xs j).toF) H.length)) c]) := by
  have hpK : (((p : Int)) : K) ≠ 0 := by
    have : (p : K) ≠ 0 := by exact_mod_cast (by omega : p ≠ 0)
    simpa using this
  have hset : ∀ v, (dOps D (H.length : Int) : Ops K).setManaged "STDEV_data" v
      ({ cs := H ++ [c], i := H.length, name := nm } : Ctx K).cs = .ok (H ++ [setKey true D v c]) := by
    intro v
    show setReading true D (H ++ [c]) H.length v = _
    rw [setReading_eq, updateAt_append_cons]
  have hcur : ({ cs := H ++ [c], i := H.length, name := nm } : Ctx K).reading input = .ok (.num (xs H.length)) :=
    hfield H.length (le_refl _)
  have hprevM := Ctx.prevReading_append_cons H c [] nm (nm ++ "_data.mean")
  have hprevV := Ctx.prevReading_append_cons H c [] nm (nm ++ "_data.variance")
  rw [hmean] at hprevM
  rw [hvar] at hprevV
  by_cases h0 : H.length = 0
  · -- the first candle
    rw [if_pos h0] at hprevM hprevV
    have hrp : ({ cs := H ++ [c], i := H.length, name := nm } : Ctx K).readingPeriod ((p : Int) + 1) input
        (some ({ cs := H ++ [c], i := H.length, name := nm } : Ctx K).i) = false := by
      rw [Ctx.readingPeriod_some_i, hper]; simp; omega
    have hs := stdev_first (dOps D (H.length : Int)) { cs := H ++ [c], i := H.length, name := nm } (p : Int) input
      (fun v => H ++ [setKey true D v c]) (xs H.length) hcur hrp hprevM hprevV hset hpK
    obtain ⟨e1, e2⟩ := runStats_first p hp (fun j => (xs j).toF)
    simp only [Int.cast_natCast] at hs
    rw [hs, h0, e1, e2]
    unfold stdOwn stdData
    rw [if_pos (by omega)]
  · rw [if_neg h0] at hprevM hprevV
    obtain ⟨e1, e2⟩ := runStats_step p hp (fun j => (xs j).toF) H.length (by omega)
    by_cases h1 : H.length < p
    · -- warm-up
      have hrp : ({ cs := H ++ [c], i := H.length, name := nm } : Ctx K).readingPeriod ((p : Int) + 1) input
          (some ({ cs := H ++ [c], i := H.length, name := nm } : Ctx K).i) = false := by
        rw [Ctx.readingPeriod_some_i, hper]; simp; omega
      have hs := stdev_warm (dOps D (H.length : Int)) { cs := H ++ [c], i := H.length, name := nm } (p : Int) input
        (fun v => H ++ [setKey true D v c]) (xs H.length) _ _ hcur hrp hprevM hprevV hset hpK
      have hr : remAt p (fun j => (xs j).toF) H.length = 0 := by unfold remAt; rw [if_neg (by omega)]
      rw [hr] at e1 e2
      simp only [Int.cast_natCast, Num.toF_flt] at hs
      rw [hs, e1, e2]
      unfold stdOwn stdData
      rw [if_pos h1]
    · -- full window
      have hrp : ({ cs := H ++ [c], i := H.length, name := nm } : Ctx K).readingPeriod ((p : Int) + 1) input
          (some ({ cs := H ++ [c], i := H.length, name := nm } : Ctx K).i) = true := by
        rw [Ctx.readingPeriod_some_i, hper]; simp; omega
      have hrem : ({ cs := H ++ [c], i := H.length, name := nm } : Ctx K).reading input
          (some (({ cs := H ++ [c], i := H.length, name := nm } : Ctx K).i - (p : Int)))
          = .ok (.num (xs (H.length - p))) := by
        have e : ((H.length : Nat) : Int) - (p : Int) = ((H.length - p : Nat) : Int) := by omega
        show ({ cs := H ++ [c], i := H.length, name := nm } : Ctx K).reading input (some (((H.length : Nat) : Int) - (p : Int))) = _
        rw [e]
        exact hfield _ (by omega)
      have hs := stdev_step (dOps D (H.length : Int)) { cs := H ++ [c], i := H.length, name := nm } (p : Int) input
        (fun v => H ++ [setKey true D v c]) (xs H.length) (xs (H.length - p)) _ _ hcur hrp hrem hprevM hprevV hset hpK
      have hr : remAt p (fun j => (xs j).toF) H.length = (xs (H.length - p)).toF := by
        unfold remAt; rw [if_pos (by omega)]
      rw [hr] at e1 e2
      simp only [Int.cast_natCast, Num.toF_flt] at hs
      rw [hs, e1, e2]
      unfold stdOwn stdData
      rw [if_neg h1]

/-! ### generic access to a decorated history -/

section access
variable {R : Type}

/-- the input column of a decorated history is the raw one: readings of a candle field at every
index up to the active one, and `reading_period` -/
theorem input_facts (out : Candle K → R → Candle K) (input : String)
    (hin : NoDot input ∧ input ∈ Candle.attrNames) (fld : Candle K → Num K)
    (hattr : ∀ c : Candle K, c.attr input = some (.num (fld c)))
    (hout : ∀ c r, readingByCandle (out c r) input = readingByCandle c input)
    (raw : List (Candle K)) (m : Nat) (hm : m < raw.length) (rows : List R) (hrows : rows.length = m)
    (done : List (Candle K)) (hdone : decoWith out (raw.take m) rows = done)
    (c' : Candle K) (hc' : readingByCandle c' input = readingByCandle (raw.getD m default) input)
    (name : String) :
    (∀ j : Nat, j ≤ m → ({ cs := done ++ [c'], i := done.length, name := name } : Ctx K).reading input (some (j : Int))
      = .ok (.num (fld (raw.getD j default)))) ∧
    (∀ q : Nat, 1 ≤ q → ({ cs := done ++ [c'], i := done.length, name := name } : Ctx K).readingPeriod (q : Int) input
      = decide (q ≤ m + 1)) := by
  have htl : (raw.take m).length = m := by simp; omega
  have hdl : done.length = m := by
    rw [← hdone, decoWith_length _ _ _ (by rw [htl, hrows]), htl]
  have hcol : Ctx.SameCol input ({ cs := done ++ [c'], i := done.length, name := name } : Ctx K)
      (stepCtx name raw (List.replicate m .none) m) := by
    refine ⟨by simp [stepCtx, hdl], ?_⟩
    show col input (done ++ [c']) = col input (decoWith (fun c v => setKey false name v c) (raw.take m) _ ++ [raw.getD m default])
    rw [col_append, col_append, ← hdone,
      col_decoWith input _ hout _ _ (by rw [htl, hrows]),
      col_decoWith input _ (fun c v => indep_attr (F := K) name input hin.1 hin.2 false v c) _ _ (by simp [htl])]
    simp [col, hc']
  constructor
  · intro j hj
    rw [Ctx.reading_congr hcol]
    exact stepCtx_field name input fld raw _ m hm (by simp) hin.1 hattr j hj
  · intro q hq
    rw [Ctx.readingPeriod_congr hcol]
    exact stepCtx_period name input fld raw _ m hm (by simp) hin.1 hattr q hq

/-- the last candle of a decorated history -/
theorem lastReading_decoWith (out : Candle K → R → Candle K) (dflt : R) (raw : List (Candle K)) (m : Nat)
    (hm : m ≤ raw.length) (rows : List R) (hrows : rows.length = m) (h1 : 1 ≤ m) (key : String) :
    Ctx.lastReading key (decoWith out (raw.take m) rows)
      = readingByCandle (out (raw.getD (m - 1) default) (rows.getD (m - 1) dflt)) key := by
  have htl : (raw.take m).length = m := by simp; omega
  unfold Ctx.lastReading
  rw [List.getLast?_eq_getElem?, decoWith_length _ _ _ (by rw [htl, hrows]), htl,
    decoWith_getElem? _ _ _ dflt (m - 1) (by rw [htl, hrows]) (by rw [htl]; omega)]
  have : (raw.take m).getD (m - 1) default = raw.getD (m - 1) default := by
    rw [List.getD_eq_getElem?_getD, List.getD_eq_getElem?_getD, List.getElem?_take_of_lt (by omega)]
  rw [this]

theorem lastReading_nil (key : String) : Ctx.lastReading key ([] : List (Candle K)) = .none := rfl

end access

/-! ### the finished STDEV candles -/

/-- name conditions of a top-level STDEV node -/
structure SdNames (nm : String) : Prop where
  key : IsKey nm
  dkey : IsKey (nm ++ "_data")
  sn : StdevNames nm

/-- a finished STDEV candle: data entry `r.2` in `.sub_indicators`, own reading `r.1` in `.indicators` -/
def sdOut (nm : String) (c : Candle K) (r : Val K × Val K) : Candle K :=
  outD nm (nm ++ "_data") r.1 (some r.2) c

/-- the candles of a STDEV run: raw candle `j` with the pair `rows[j]` = (own reading, data entry) -/
def decoSd (nm : String) (raw : List (Candle K)) (rows : List (Val K × Val K)) : List (Candle K) :=
  decoWith (sdOut nm) raw rows

section cand
variable (nm : String)

theorem sdOut_own (hn : SdNames nm) (c : Candle K) (hc : Plain c) (r : Val K × Val K) :
    readingByCandle (sdOut nm c r) nm = r.1 := by
  rw [readingByCandle_key nm hn.key]
  obtain ⟨hi, hs⟩ := hc
  simp [sdOut, lookupKey, outD, setD, setKey, hi, hs, dset, dlookup]

theorem sdOut_data (hn : SdNames nm) (c : Candle K) (hc : Plain c) (r : Val K × Val K) :
    readingByCandle (sdOut nm c r) (nm ++ "_data") = r.2 := by
  rw [readingByCandle_key _ hn.dkey]
  obtain ⟨hi, hs⟩ := hc
  simp [sdOut, lookupKey, outD, setD, setKey, hi, hs, dset, dlookup, hn.sn.ne]

theorem sdOut_mean (hn : SdNames nm) (c : Candle K) (hc : Plain c) (r : Val K × Val K) :
    readingByCandle (sdOut nm c r) (nm ++ "_data.mean") = r.2.nested "mean" := by
  unfold readingByCandle
  rw [hn.sn.mean]
  obtain ⟨hi, hs⟩ := hc
  simp [sdOut, outD, setD, setKey, hi, hs, dset, dlookup, hn.sn.ne]

theorem sdOut_var (hn : SdNames nm) (c : Candle K) (hc : Plain c) (r : Val K × Val K) :
    readingByCandle (sdOut nm c r) (nm ++ "_data.variance") = r.2.nested "variance" := by
  unfold readingByCandle
  rw [hn.sn.var]
  obtain ⟨hi, hs⟩ := hc
  simp [sdOut, outD, setD, setKey, hi, hs, dset, dlookup, hn.sn.ne]

theorem sdOut_input (input : String) (hin : NoDot input ∧ input ∈ Candle.attrNames) (c : Candle K)
    (r : Val K × Val K) : readingByCandle (sdOut nm c r) input = readingByCandle c input := by
  unfold sdOut outD setD
  rw [indep_attr (F := K) nm input hin.1 hin.2, indep_attr (F := K) (nm ++ "_data") input hin.1 hin.2]

end cand

/-- what the whole-series theorem says of candle `j` (`r` = own reading, data entry).
* The data entry holds EXACTLY (`Managed.set_reading` does not round) the running mean and running
  population variance of the zero-padded window; from index `p − 1` on these are the mean and the
  mean squared deviation of the last `p` inputs (`runMean_eq_winMean`, `runVar_eq_popVar`).
* The own reading is `None` up to index `p − 1` and from index `p` on the rounding of
  `sqrt(popVar)`, hence within `ε_n` of the exact standard deviation (no growth: nothing rounded is
  fed back). -/
def StdevOK (p n : Nat) (x : Nat → K) (j : Nat) (r : Val K × Val K) : Prop :=
  r.2 = stdData (runMean p x j) (runVar p x j) ∧
  (j < p → r.1 = .none) ∧
  (p ≤ j → ∃ y, r.1 = .flt y ∧ y = PyF.round n (sigmaExact x p j) ∧ |y - sigmaExact x p j| ≤ eps K n)

/-- σ ≥ 0 for the stored reading -/
theorem StdevOK.nonneg [NonnegSqrt K] {p n : Nat} {x : Nat → K} {j : Nat} {r : Val K × Val K}
    (h : StdevOK p n x j r) (y : K) (hy : r.1 = .flt y) : 0 ≤ y := by
  by_cases hj : j < p
  · rw [h.2.1 hj] at hy; cases hy
  · obtain ⟨y', hy', he, _⟩ := h.2.2 (by omega)
    rw [hy'] at hy
    cases hy
    rw [he]
    exact round_nonneg n _ (sigmaExact_nonneg x p j)

theorem stdevOK_mk (p n : Nat) (hp : 1 ≤ p) (x : Nat → K) (j : Nat) :
    StdevOK p n x j ((stdOwn p x j).roundBy n, stdData (runMean p x j) (runVar p x j)) := by
  refine ⟨rfl, ?_, ?_⟩
  · intro h
    simp only [stdOwn, if_pos h]
    rfl
  · intro h
    have hv : max (runVar p x j) 0 = popVar x p j := by
      rw [runVar_eq_popVar p hp x j (by omega)]
      exact max_eq_left (popVar_nonneg x p j)
    simp only [stdOwn, if_neg (by omega : ¬ j < p), hv]
    exact ⟨_, rfl, rfl, LawfulPyF.round_err n _⟩

theorem stdev_finish (nm : String) (n : Nat) (p : Int) (input : String) (done : List (Candle K)) (c : Candle K)
    (v dv : Val K)
    (h : Calc.stdev (dOps (nm ++ "_data") done.length) { cs := done ++ [c], i := done.length, name := nm } p input
      = .ok (v, done ++ [setKey true (nm ++ "_data") dv c])) :
    (do let r ← Calc.stdev (dOps (nm ++ "_data") done.length) { cs := done ++ [c], i := done.length, name := nm } p input
        setReading false nm r.2 done.length (r.1.roundBy n))
      = .ok (done ++ [sdOut nm c (v.roundBy n, dv)]) := by
  rw [h]
  simp only [pym_bind_ok]
  rw [setReading_eq, updateAt_append_cons]
  rfl

/-- the row step of `stdevTree` is the model's `_calculate_reading` followed by the store of the
rounded own reading -/
theorem stdev_rowStep (nm : String) (n : Nat) (p : Int) (input : String) (hp : 0 ≤ p)
    (hin : NoDot input ∧ input ∈ Candle.attrNames) (done : List (Candle K)) (c : Candle K) :
    Gen.rowStep (stdevTree (F := K) nm n p input hp hin).S done c = (do
      let r ← Calc.stdev (dOps (nm ++ "_data") done.length) { cs := done ++ [c], i := done.length, name := nm } p input
      setReading false nm r.2 done.length (r.1.roundBy n)) := rfl

/-- **STDEV, whole series** (row-major run of `stdevTree`), period `p ≥ 1`, input a candle field.
For EVERY raw list the run returns; the result is the raw candles with, on candle `j`, the pair
`rows[j]` = (own reading in `.indicators`, `<name>_data` entry in `.sub_indicators`), and every pair
satisfies `StdevOK`. -/
theorem stdev_series (p : Nat) (hp : 1 ≤ p) (nm input : String) (fld : Candle K → Num K) (n : Nat)
    (hn : SdNames nm) (hin : NoDot input ∧ input ∈ Candle.attrNames)
    (hattr : ∀ c : Candle K, c.attr input = some (.num (fld c)))
    (raw : List (Candle K)) (hraw : ∀ c ∈ raw, Plain c) :
    ∃ rows : List (Val K × Val K), rows.length = raw.length ∧
      Gen.rowMajor (stdevTree (F := K) nm n (p : Int) input (by omega) hin).S raw = .ok (decoSd nm raw rows) ∧
      ∀ j, j < raw.length → StdevOK p n (fieldAt fld raw) j (rows.getD j (.none, .none)) := by
  refine gen_series_induct _ (sdOut nm) (.none, .none) raw _ ?_
  intro m hm rows hrows hQ
  have htl : (raw.take m).length = m := by simp; omega
  have hdl : (decoWith (sdOut nm) (raw.take m) rows).length = m := by
    rw [decoWith_length _ _ _ (by rw [htl, hrows]), htl]
  rw [stdev_rowStep]
  obtain ⟨hfield, hper⟩ := input_facts (sdOut nm) input hin fld hattr (fun c r => sdOut_input nm input hin c r)
    raw m hm rows hrows _ rfl (raw.getD m default) rfl nm
  have hlast := lastReading_decoWith (sdOut nm) (.none, .none) raw m (by omega) rows hrows
  generalize hdone : decoWith (sdOut nm) (raw.take m) rows = done at hdl hfield hper hlast ⊢
  subst hdl
  refine ⟨((stdOwn p (fieldAt fld raw) done.length).roundBy n,
      stdData (runMean p (fieldAt fld raw) done.length) (runVar p (fieldAt fld raw) done.length)),
    stdev_finish nm n p input done _ (stdOwn p (fieldAt fld raw) done.length)
      (stdData (runMean p (fieldAt fld raw) done.length) (runVar p (fieldAt fld raw) done.length)) ?_, ?_⟩
  · refine stdev_core p hp nm input (nm ++ "_data") (fun j => fld (raw.getD j default)) done (raw.getD done.length default)
      hfield ?_ ?_ ?_
    · have := hper (p + 1) (by omega)
      rw [show ((p + 1 : Nat) : Int) = (p : Int) + 1 by push_cast; rfl] at this
      exact this
    · by_cases h0 : done.length = 0
      · rw [if_pos h0, List.eq_nil_of_length_eq_zero h0]; rfl
      · rw [if_neg h0, hlast (by omega), sdOut_mean nm hn _ (getD_plain raw hraw _ (by omega)),
          (hQ (done.length - 1) (by omega)).1, stdData_mean]
        rfl
    · by_cases h0 : done.length = 0
      · rw [if_pos h0, List.eq_nil_of_length_eq_zero h0]; rfl
      · rw [if_neg h0, hlast (by omega), sdOut_var nm hn _ (getD_plain raw hraw _ (by omega)),
          (hQ (done.length - 1) (by omega)).1, stdData_var]
        rfl
  · exact stdevOK_mk p n hp (fieldAt fld raw) done.length

end Numeric
end Hex

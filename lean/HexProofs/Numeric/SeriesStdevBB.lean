import HexProofs.Framework.Gen.BBands
import HexProofs.Numeric.SeriesRSI
import HexProofs.Numeric.Stdev
import HexProofs.Numeric.Channel
set_option linter.unusedSectionVars false
set_option linter.unusedSimpArgs false
namespace Hex
namespace Numeric
variable {K : Type} [Field K] [LinearOrder K] [IsStrictOrderedRing K] [LawfulPyF K]

/-! ### the textbook series -/

theorem rsum_window (a p : Nat) (x : Nat → K) : rsum (a + p) x - rsum a x = rsum p (fun k => x (a + k)) := by
  induction p with
  | zero => simp [rsum]
  | succ n ih => rw [← Nat.add_assoc, rsum_succ, rsum_succ, ← ih]; ring

/-- sum of the (at most `p`) inputs ending at index `j`: `x (j+1−p) + … + x j`; before the window is
full the missing entries count as `0` (the library starts its running statistics from `0`) -/
def runSum (p : Nat) (x : Nat → K) (j : Nat) : K := rsum (j + 1) x - rsum (j + 1 - p) x

theorem runSum_zero (p : Nat) (hp : 1 ≤ p) (x : Nat → K) : runSum p x 0 = x 0 := by
  have : 0 + 1 - p = 0 := by omega
  simp [runSum, this, rsum]

/-- the value leaving the window when candle `j` enters: `x (j − p)` once `p + 1` inputs exist -/
def remAt (p : Nat) (x : Nat → K) (j : Nat) : K := if p ≤ j then x (j - p) else 0

theorem runSum_step (p : Nat) (x : Nat → K) (j : Nat) (hj : 1 ≤ j) :
    runSum p x j = runSum p x (j - 1) - remAt p x j + x j := by
  obtain ⟨i, rfl⟩ : ∃ i, j = i + 1 := ⟨j - 1, by omega⟩
  unfold runSum remAt
  simp only [Nat.add_sub_cancel]
  rw [rsum_succ (i + 1)]
  by_cases h : p ≤ i + 1
  · have e : i + 1 + 1 - p = (i + 1 - p) + 1 := by omega
    rw [e, rsum_succ (i + 1 - p), if_pos h]; ring
  · have e1 : i + 1 + 1 - p = 0 := by omega
    have e2 : i + 1 - p = 0 := by omega
    rw [e1, e2, if_neg h]; ring

theorem runSum_window (p : Nat) (x : Nat → K) (j : Nat) (hj : p ≤ j + 1) :
    runSum p x j = rsum p (fun k => x (j + 1 - p + k)) := by
  unfold runSum
  rw [← rsum_window]
  congr 2
  omega

/-- the running mean the library keeps under `name_data.mean` -/
def runMean (p : Nat) (x : Nat → K) (j : Nat) : K := runSum p x j / p
/-- the running (population) variance the library keeps under `name_data.variance` -/
def runVar (p : Nat) (x : Nat → K) (j : Nat) : K := runSum p (fun i => x i ^ 2) j / p - (runMean p x j) ^ 2

/-- textbook population variance of the `p` inputs ending at `j`: `mean((x − mean)²)` -/
def popVar (x : Nat → K) (p j : Nat) : K :=
  rsum p (fun k => (x (j + 1 - p + k) - winMean x p j) ^ 2) / p

theorem popVar_nonneg (x : Nat → K) (p j : Nat) : 0 ≤ popVar x p j := by
  unfold popVar
  exact div_nonneg (rsum_nonneg p _ (fun k _ => sq_nonneg _)) (by positivity)

theorem runMean_eq_winMean (p : Nat) (x : Nat → K) (j : Nat) (hj : p ≤ j + 1) :
    runMean p x j = winMean x p j := by
  unfold runMean winMean
  rw [runSum_window p x j hj]

theorem rsum_sq_dev (p : Nat) (y : Nat → K) (m : K) :
    rsum p (fun k => (y k - m) ^ 2) = rsum p (fun k => y k ^ 2) - 2 * m * rsum p y + p * m ^ 2 := by
  induction p with
  | zero => simp [rsum]
  | succ n ih => rw [rsum_succ, rsum_succ, rsum_succ, ih]; push_cast; ring

/-- `E[x²] − E[x]²` is the mean squared deviation -/
theorem runVar_eq_popVar (p : Nat) (hp : 1 ≤ p) (x : Nat → K) (j : Nat) (hj : p ≤ j + 1) :
    runVar p x j = popVar x p j := by
  have hpK : (p : K) ≠ 0 := by exact_mod_cast (by omega : p ≠ 0)
  unfold runVar popVar
  rw [runMean_eq_winMean p x j hj, runSum_window p _ j hj, rsum_sq_dev]
  unfold winMean
  field_simp
  ring

/-- the running update of `hexital/indicators/stdev.py` maps the statistics of candle `j − 1` to
those of candle `j` (`welford`) -/
theorem runStats_step (p : Nat) (hp : 1 ≤ p) (x : Nat → K) (j : Nat) (hj : 1 ≤ j) :
    meanStep (p : K) (runMean p x (j - 1)) (x j) (remAt p x j) = runMean p x j ∧
    varStep (p : K) (runMean p x (j - 1)) (runVar p x (j - 1)) (x j) (remAt p x j) = runVar p x j := by
  have hpK : (p : K) ≠ 0 := by exact_mod_cast (by omega : p ≠ 0)
  obtain ⟨h1, h2⟩ := welford (p : K) (runSum p x (j - 1)) (runSum p (fun i => x i ^ 2) (j - 1)) (x j) (remAt p x j) hpK
  have hs := runSum_step p x j hj
  have hq := runSum_step p (fun i => x i ^ 2) j hj
  have hr : remAt p (fun i => x i ^ 2) j = remAt p x j ^ 2 := by
    unfold remAt; split <;> simp
  unfold runVar runMean at *
  rw [h1, h2, hs, hq, hr]
  exact ⟨rfl, rfl⟩

theorem runStats_first (p : Nat) (hp : 1 ≤ p) (x : Nat → K) :
    meanStep (p : K) 0 (x 0) 0 = runMean p x 0 ∧ varStep (p : K) 0 0 (x 0) 0 = runVar p x 0 := by
  have hpK : (p : K) ≠ 0 := by exact_mod_cast (by omega : p ≠ 0)
  unfold runVar runMean
  rw [runSum_zero p hp, runSum_zero p hp]
  unfold varStep meanStep
  constructor
  · ring
  · field_simp; ring

/-- the exact standard deviation of the `p` inputs ending at `j` -/
def sigmaExact (x : Nat → K) (p j : Nat) : K := PyF.sqrt (popVar x p j)

/-- the textbook series with the library's warm-up: the first reading appears at index `p`
(`reading_period(period + 1, input)`: STDEV waits for `p + 1` inputs although the window of `p`
is already full at index `p − 1`) -/
def stdevSeries (p : Nat) (x : Nat → K) (j : Nat) : Option K :=
  if j < p then none else some (sigmaExact x p j)

theorem sigmaExact_root [LawfulSqrt K] (x : Nat → K) (p j : Nat) :
    sigmaExact x p j * sigmaExact x p j = popVar x p j ∧ 0 ≤ sigmaExact x p j :=
  ⟨LawfulSqrt.sqrt_sq _ (popVar_nonneg x p j), LawfulSqrt.sqrt_nonneg _ (popVar_nonneg x p j)⟩

theorem sigmaExact_nonneg [NonnegSqrt K] (x : Nat → K) (p j : Nat) : 0 ≤ sigmaExact x p j :=
  NonnegSqrt.sqrt_nonneg _ (popVar_nonneg x p j)

/-! ### one STDEV call on a history whose input column and previous data entry are known -/

/-- the stored data entry -/
def stdData (μ v : K) : Val K := sdict [("mean", sc (.flt μ)), ("variance", sc (.flt v))]

theorem stdData_mean (μ v : K) : (stdData μ v).nested "mean" = .flt μ := by
  simp [stdData, Val.nested, sdict, sc, dlookup]

theorem stdData_var (μ v : K) : (stdData μ v).nested "variance" = .flt v := by
  simp [stdData, Val.nested, sdict, sc, dlookup]

/-- the unrounded own reading of the call at index `m` -/
def stdOwn (p : Nat) (x : Nat → K) (m : Nat) : Val K :=
  if m < p then .none else .flt (PyF.sqrt (max (runVar p x m) 0))

theorem Ctx.readingPeriod_some_i (x : Ctx K) (q : Int) (nm : String) :
    x.readingPeriod q nm (some x.i) = x.readingPeriod q nm := rfl

theorem Ctx.reading_none_i (x : Ctx K) (nm : String) : x.reading nm = x.reading nm (some x.i) := rfl

/-- **one `StandardDeviation._calculate_reading` call**, given the input column (`xs`) up to the
active index and the data entry of the previous candle: the call stores the running statistics of
the zero-padded window and returns `None` before index `p`, `sqrt(max(variance, 0))` from `p` on. -/
theorem stdev_core (p : Nat) (hp : 1 ≤ p) (nm input D : String) (xs : Nat → Num K)
    (H : List (Candle K)) (c : Candle K)
    (hfield : ∀ j : Nat, j ≤ H.length →
      ({ cs := H ++ [c], i := H.length, name := nm } : Ctx K).reading input (some (j : Int)) = .ok (.num (xs j)))
    (hper : ({ cs := H ++ [c], i := H.length, name := nm } : Ctx K).readingPeriod ((p : Int) + 1) input
      = decide (p + 1 ≤ H.length + 1))
    (hmean : Ctx.lastReading (nm ++ "_data.mean") H
      = if H.length = 0 then .none else .flt (runMean p (fun j => (xs j).toF) (H.length - 1)))
    (hvar : Ctx.lastReading (nm ++ "_data.variance") H
      = if H.length = 0 then .none else .flt (runVar p (fun j => (xs j).toF) (H.length - 1))) :
    Calc.stdev (dOps D H.length) { cs := H ++ [c], i := H.length, name := nm } (p : Int) input
      = .ok (stdOwn p (fun j => (xs j).toF) H.length,
          H ++ [setKey true D (stdData (runMean p (fun j => (xs j).toF) H.length)
            (runVar p (fun j => (xs j).toF) H.length)) c]) := by
  have hpK : (((p : Int)) : K) ≠ 0 := by
    have : (p : K) ≠ 0 := by exact_mod_cast (by omega : p ≠ 0)
    simpa using this
  have hset : ∀ v, (dOps D (H.length : Int) : Ops K).setManaged "STDEV_data" v
      ({ cs := H ++ [c], i := H.length, name := nm } : Ctx K).cs = .ok (H ++ [setKey true D v c]) := by
    intro v
    show setReading true D (H ++ [c]) H.length v = _
    rw [setReading_eq, updateAt_append_cons]
  have hcur : ({ cs := H ++ [c], i := H.length, name := nm } : Ctx K).reading input = .ok (.num (xs H.length)) :=
    hfield H.length (le_refl _)
  have hprevM := Ctx.prevReading_append_cons H c [] nm (nm ++ "_data.mean")
  have hprevV := Ctx.prevReading_append_cons H c [] nm (nm ++ "_data.variance")
  rw [hmean] at hprevM
  rw [hvar] at hprevV
  by_cases h0 : H.length = 0
  · -- the first candle
    simp only [h0, if_true] at hprevM hprevV
    have hrp : ({ cs := H ++ [c], i := H.length, name := nm } : Ctx K).readingPeriod ((p : Int) + 1) input
        (some ({ cs := H ++ [c], i := H.length, name := nm } : Ctx K).i) = false := by
      rw [Ctx.readingPeriod_some_i, hper]; simp; omega
    have hs := stdev_first (dOps D (H.length : Int)) { cs := H ++ [c], i := H.length, name := nm } (p : Int) input
      (fun v => H ++ [setKey true D v c]) (xs H.length) hcur hrp hprevM hprevV hset hpK
    obtain ⟨e1, e2⟩ := runStats_first p hp (fun j => (xs j).toF)
    simp only [Int.cast_natCast] at hs
    rw [hs, h0, e1, e2]
    unfold stdOwn stdData
    rw [if_pos (by omega)]
  · simp only [h0, if_false] at hprevM hprevV
    obtain ⟨e1, e2⟩ := runStats_step p hp (fun j => (xs j).toF) H.length (by omega)
    by_cases h1 : H.length < p
    · -- warm-up
      have hrp : ({ cs := H ++ [c], i := H.length, name := nm } : Ctx K).readingPeriod ((p : Int) + 1) input
          (some ({ cs := H ++ [c], i := H.length, name := nm } : Ctx K).i) = false := by
        rw [Ctx.readingPeriod_some_i, hper]; simp; omega
      have hs := stdev_warm (dOps D (H.length : Int)) { cs := H ++ [c], i := H.length, name := nm } (p : Int) input
        (fun v => H ++ [setKey true D v c]) (xs H.length) _ _ hcur hrp hprevM hprevV hset hpK
      have hr : remAt p (fun j => (xs j).toF) H.length = 0 := by unfold remAt; rw [if_neg (by omega)]
      rw [hr] at e1 e2
      simp only [Int.cast_natCast, Num.toF_flt] at hs
      rw [hs, e1, e2]
      unfold stdOwn stdData
      rw [if_pos h1]
    · -- full window
      have hrp : ({ cs := H ++ [c], i := H.length, name := nm } : Ctx K).readingPeriod ((p : Int) + 1) input
          (some ({ cs := H ++ [c], i := H.length, name := nm } : Ctx K).i) = true := by
        rw [Ctx.readingPeriod_some_i, hper]; simp; omega
      have hrem : ({ cs := H ++ [c], i := H.length, name := nm } : Ctx K).reading input
          (some (({ cs := H ++ [c], i := H.length, name := nm } : Ctx K).i - (p : Int)))
          = .ok (.num (xs (H.length - p))) := by
        have e : ((H.length : Nat) : Int) - (p : Int) = ((H.length - p : Nat) : Int) := by omega
        show ({ cs := H ++ [c], i := H.length, name := nm } : Ctx K).reading input (some (((H.length : Nat) : Int) - (p : Int))) = _
        rw [e]
        exact hfield _ (by omega)
      have hs := stdev_step (dOps D (H.length : Int)) { cs := H ++ [c], i := H.length, name := nm } (p : Int) input
        (fun v => H ++ [setKey true D v c]) (xs H.length) (xs (H.length - p)) _ _ hcur hrp hrem hprevM hprevV hset hpK
      have hr : remAt p (fun j => (xs j).toF) H.length = (xs (H.length - p)).toF := by
        unfold remAt; rw [if_pos (by omega)]
      rw [hr] at e1 e2
      simp only [Int.cast_natCast, Num.toF_flt] at hs
      rw [hs, e1, e2]
      unfold stdOwn stdData
      rw [if_neg h1]
      rfl

end Numeric
end Hex

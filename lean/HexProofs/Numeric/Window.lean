import HexProofs.Numeric.CtxLemmas
/-!
# Windows: `candles_sum`, `range(...)` loops and their sums
-/
set_option linter.unusedSectionVars false
set_option linter.unusedSimpArgs false
namespace Hex

theorem slice_eq_range {α : Type} (cs : List α) (a p : Nat) (c : Nat → α)
    (h : ∀ j, j < p → cs[a + j]? = some (c j)) : (cs.drop a).take p = (List.range p).map c := by
  apply List.ext_getElem?
  intro j
  by_cases hj : j < p
  · simp [hj, h j hj]
  · simp [hj]

theorem zipIdx_map_range {α : Type} (n : Nat) (g : Nat → α) :
    ((List.range n).map g).zipIdx = (List.range n).map (fun k => (g k, k)) := by
  apply List.ext_getElem?
  intro k
  by_cases hk : k < n
  · simp [hk]
  · simp [hk]

theorem pyRangeDown_eq (i : Int) (p : Nat) :
    pyRangeDown i (i - p) = (List.range p).map fun (k : Nat) => i - (k : Int) := by
  unfold pyRangeDown
  have : (i - (i - (p : Int))).toNat = p := by omega
  rw [this]

theorem pyRange_eq (a : Int) (p : Nat) :
    pyRange a (a + p) = (List.range p).map fun (k : Nat) => a + (k : Int) := by
  unfold pyRange
  have : (a + (p : Int) - a).toNat = p := by omega
  rw [this]

section
variable {F : Type} [PyF F]

/-- a successful read at a non-negative index names a candle of the list -/
theorem Ctx.reading_some {x : Ctx F} {name : String} {j : Int} {v : Val F} (hj : 0 ≤ j)
    (h : x.reading name (some j) = .ok v) :
    ∃ c, x.cs[j.toNat]? = some c ∧ readingByCandle c name = v := by
  unfold Ctx.reading at h
  simp only [Option.getD_some] at h
  unfold pyIndex at h
  have hn : ¬ j < 0 := by omega
  simp only [hn, if_false] at h
  cases hc : x.cs[j.toNat]? with
  | none => simp [hc, getOrIndexError] at h
  | some c =>
    refine ⟨c, rfl, ?_⟩
    simp [hc, getOrIndexError] at h
    exact h

theorem Ctx.reading_none_idx (x : Ctx F) (name : String) :
    x.reading name none = x.reading name (some x.i) := rfl

theorem sumReadings_nums (ns : List (Num F)) :
    sumReadings (ns.map fun n => (Val.num n : Val F)) = .ok (pySum ns) := by
  unfold sumReadings
  have h1 : (ns.map fun n => (Val.num n : Val F)).filter (fun v => !v.isNone)
      = ns.map fun n => (Val.num n : Val F) := by
    apply List.filter_eq_self.2
    intro v hv
    obtain ⟨n, _, rfl⟩ := List.mem_map.1 hv
    rfl
  rw [h1]
  have h2 : (ns.map fun n => (Val.num n : Val F)).mapM Val.asNum = .ok ns := by
    have := mapM_ok (ns.map fun n => (Val.num n : Val F)) Val.asNum
      (fun v => match v with | .s (.num n) => n | _ => Num.int 0) (by
        intro v hv
        obtain ⟨n, _, rfl⟩ := List.mem_map.1 hv
        rfl)
    rw [this]
    congr 1
    rw [List.map_map]
    conv => rhs; rw [← List.map_id ns]
    rfl
  rw [h2]; rfl

/-- **`candles_sum` over a full window of numeric readings** is `sum` of those readings, oldest
first.  (`i ≥ 1` because `candles_sum` treats absolute index 0 as "no index".) -/
theorem Ctx.candlesSum_window (x : Ctx F) (p : Nat) (name : String) (r : Nat → Num F)
    (hp1 : 1 ≤ p) (hpi : (p : Int) ≤ x.i + 1) (hi0 : 1 ≤ x.i)
    (h : ∀ j, j < p → x.reading name (some (x.i + 1 - p + j)) = .ok (.num (r j))) :
    x.candlesSum p name = .ok (.num (pySum ((List.range p).map r))) := by
  -- the candle at the active index exists
  have hlast := h (p - 1) (by omega)
  have e1 : x.i + 1 - (p : Int) + ((p - 1 : Nat) : Int) = x.i := by omega
  rw [e1] at hlast
  obtain ⟨ci, hci, _⟩ := Ctx.reading_some (by omega) hlast
  have hlen : x.i.toNat < x.cs.length := by
    by_contra hh
    rw [List.getElem?_eq_none (by omega)] at hci
    cases hci
  have hlenI : x.i < (x.cs.length : Int) := by omega
  -- candles of the window
  have hc : ∀ j, j < p → ∃ c, x.cs[(x.i + 1 - p).toNat + j]? = some c ∧ readingByCandle c name = .num (r j) := by
    intro j hj
    obtain ⟨c, h1, h2⟩ := Ctx.reading_some (by omega) (h j hj)
    refine ⟨c, ?_, h2⟩
    have : (x.i + 1 - (p : Int) + (j : Int)).toNat = (x.i + 1 - (p : Int)).toNat + j := by omega
    rw [← this]; exact h1
  choose! c hc1 hc2 using hc
  unfold Ctx.candlesSum Hex.candlesSum absIndex
  simp only [Option.getD_none]
  have hv : validIndex x.i x.cs.length = true := by simp [validIndex]; omega
  have hn : ¬ x.i < 0 := by omega
  have hz : (x.i == 0) = false := by simp; omega
  simp only [hv, Bool.not_true, Bool.false_eq_true, if_false, hn, hz]
  have hl : ¬ (p : Int) > (x.cs.length : Int) := by omega
  simp only [hl, if_false]
  have hs : pySlice x.cs (x.i + 1 - (p : Int)) (x.i + 1) = (List.range p).map c := by
    unfold pySlice
    have a1 : ¬ x.i + 1 - (p : Int) < 0 := by omega
    have a2 : ¬ x.i + 1 - (p : Int) > (x.cs.length : Int) := by omega
    have a3 : ¬ x.i + 1 < 0 := by omega
    have a4 : ¬ x.i + 1 > (x.cs.length : Int) := by omega
    have a5 : ¬ x.i + 1 - (p : Int) ≥ x.i + 1 := by omega
    simp only [a1, a2, a3, a4, a5, if_false]
    have a6 : (x.i + 1 - (x.i + 1 - (p : Int))).toNat = p := by omega
    rw [a6]
    exact slice_eq_range x.cs _ p c hc1
  rw [hs]
  have hm : ((List.range p).map c).map (fun c => readingByCandle c name)
      = ((List.range p).map r).map fun n => (Val.num n : Val F) := by
    rw [List.map_map, List.map_map]
    apply List.map_congr_left
    intro j hj
    exact hc2 j (List.mem_range.1 hj)
  rw [hm, sumReadings_nums]
  rfl

end
end Hex

import HexProofs.Numeric.TotalMoreLife
import HexProofs.Footprint.Trees
/-!
# Totality of COMPOSITE indicators on managers with a lifespan (property C09, item (d))

For every shipped class (`CoveredTreeX`: leaf kinds, VWAP / STDEV / RSI, ATR / KC / BBANDS / STDEVTHRES /
Supertrend, MACD / HMA / STOCH / TSI / ADX) popping old candles commutes with `calculate()` AS AN EQUATION in
`PyM` once the tree's look-back is retained (`engineCalc_drop`, HexProofs/Footprint/Trees.lean: same candles
minus the popped ones, or the same exception).  So, by the schedule induction of the lifespan twin,

* `tree_never_raises_lifespan` – a tree that never raises on the base timeframe never raises on a lifespan
  manager that pops nothing at construction and, at every append that pops, retains `L = treeLook` finished
  candles from before the append (`RetainsFrom L`, the hypothesis of C15): the run returns, with the candles
  of the untrimmed run minus the popped ones;
* `covered_never_raises_lifespan` – the instance for every `CoveredTreeX` class, and
  `composites_never_raise_lifespan` – ATR, RSI, STDEV, BBANDS, KC, Supertrend, MACD, STOCH, TSI, ADX, HMA, VWAP,
  STDEVTHRES in the exact field.

Without the retention hypothesis the statement is FALSE for SMA / ROC / WMA / VWMA / BBANDS / HMA
(`sma_raises_after_trim` …, TotalMoreLife.lean).
-/
set_option linter.unusedSectionVars false
set_option linter.unusedVariables false
namespace Hex
open Hex.Numeric
variable {F : Type} [PyF F]

/-- one `calculate()` of the object from what the engine returns -/
theorem IndState.calculate_of_engine' (ind : Ind F) (cfg : MgrCfg) (cs out : List (Candle F)) (a : Int)
    (h : engineCalc ind cs = .ok out) :
    ∃ a', IndState.calculate ({ tree := ind, mgr := { cfg := cfg, candles := cs }, active := a } : IndState F)
      = .ok { tree := ind, mgr := { cfg := cfg, candles := out }, active := a' } := by
  obtain ⟨s', hs', hc⟩ := IndState.calculate_of_engine
    ({ tree := ind, mgr := { cfg := cfg, candles := cs }, active := a } : IndState F) out h
  obtain ⟨out', a', rfl, he⟩ := IndState.calculate_shape ind cfg cs a s' hs'
  simp only at hc
  subst hc
  exact ⟨a', hs'⟩

/-- **The trimmed tree follows its untrimmed twin through every append – and RETURNS when the twin does.**
`b`: the (finished) candles of the untrimmed twin over the raw stream `s`; the trimmed indicator holds
`b.drop d`. -/
theorem twin_appends_tree_total (ind : Ind F) {L : Nat} (T : TwinOK ind L) (hs : Shallow ind) (life : Int)
    (chunks : List (List (Candle F))) :
    ∀ (s b : List (Candle F)) (d : Nat) (actA actB : Int), b.map (·.ts) = s.map (·.ts) →
      CalcFull ind b → (d = 0 ∨ d + L ≤ b.length) → (∀ c ∈ chunks.flatten, Plain c) →
      RetainsFrom L life (s.drop d) s.length chunks →
      ∀ bb, candlesOf (chunks.foldlM (fun (st : IndState F) ch => st.append ch)
              { tree := ind, mgr := { cfg := {}, candles := b }, active := actA }) = .ok bb →
        ∃ d', candlesOf (chunks.foldlM (fun (st : IndState F) ch => st.append ch)
              { tree := ind, mgr := { cfg := cfgLifeOnly life, candles := b.drop d }, active := actB })
            = .ok (bb.drop d') := by
  induction chunks with
  | nil =>
    intro s b d actA actB _ _ _ _ _ bb hb
    simp only [List.foldlM_nil, candlesOf, pure, Except.pure, Except.map] at hb ⊢
    cases hb
    exact ⟨d, rfl⟩
  | cons ch rest ih =>
    intro s b d actA actB hts hfull hkeep hpc hret bb hb
    have hpch : ∀ c ∈ ch, Plain c := fun c hc => hpc c (by simp [hc])
    have hprest : ∀ c ∈ rest.flatten, Plain c := fun c hc => hpc c (by
      simp only [List.flatten_cons, List.mem_append]; exact Or.inr hc)
    have hlen : b.length = s.length := by simpa using congrArg List.length hts
    obtain ⟨stA, hstA, hcA⟩ := candlesOf_ok hb
    rw [List.foldlM_cons] at hstA
    obtain ⟨sA1, hA1, hstA⟩ := pym_bind_ok' hstA
    -- the untrimmed twin: `calculate()` on `b ++ ch`
    have hA : IndState.append ({ tree := ind, mgr := { cfg := {}, candles := b }, active := actA } : IndState F) ch
        = IndState.calculate { tree := ind, mgr := { cfg := {}, candles := b ++ ch }, active := actA } := by
      unfold IndState.append
      simp only [Manager.append_default, bind, Except.bind]
    rw [hA] at hA1
    obtain ⟨b1, actA1, rfl, heA⟩ := IndState.calculate_shape ind {} (b ++ ch) actA sA1 hA1
    have hfull1 : CalcFull ind b1 := engine_full ind T b ch b1 hfull hpch heA
    obtain ⟨hl1, hts1⟩ := engine_frame ind (b ++ ch) b1 heA
    -- the trimmed indicator: `calculate()` on `(b ++ ch).drop d'`
    have key : ∃ d', (d' = 0 ∨ d' + L ≤ b.length) ∧
        RetainsFrom L life ((s ++ ch).drop d') (s ++ ch).length rest ∧
        IndState.append ({ tree := ind, mgr := { cfg := cfgLifeOnly life, candles := b.drop d }, active := actB } : IndState F) ch
          = IndState.calculate { tree := ind, mgr := { cfg := cfgLifeOnly life, candles := (b ++ ch).drop d' },
                                 active := actB } := by
      rcases hret with ⟨hce, hret⟩ | ⟨hne, m', htrim, hcount, hret⟩
      · subst hce
        refine ⟨d, hkeep, by simpa using hret, ?_⟩
        simp [IndState.append, Manager.append, bind, Except.bind]
      · have hdb : d ≤ b.length := by rcases hkeep with h | h <;> omega
        have hts' : (b.drop d ++ ch).map (·.ts) = (s.drop d ++ ch).map (·.ts) := by
          simp only [List.map_append, List.map_drop, hts]
        obtain ⟨hm', hm'len, htrimB⟩ := trim_congr_ts life (s.drop d ++ ch) (b.drop d ++ ch) m' hts' htrim
        have hl1' : (s.drop d ++ ch).length = b.length - d + ch.length := by simp [hlen]
        refine ⟨d + ((s.drop d ++ ch).length - m'.length), ?_, ?_, ?_⟩
        · rcases hcount with hc | hc
          · exact Or.inl (by omega)
          · exact Or.inr (by omega)
        · have hm'eq : m' = (s ++ ch).drop (d + ((s.drop d ++ ch).length - m'.length)) := by
            conv_lhs => rw [hm']
            rw [← List.drop_drop, List.drop_append_of_le_length (by omega : d ≤ s.length)]
          rw [← hm'eq, List.length_append]; exact hret
        · have hempty : ch.isEmpty = false := by cases ch <;> simp at hne ⊢
          have e : (b ++ ch).drop (d + ((s.drop d ++ ch).length - m'.length))
              = (b.drop d ++ ch).drop ((s.drop d ++ ch).length - m'.length) := by
            rw [← List.drop_drop, List.drop_append_of_le_length hdb]
          rw [e]
          unfold IndState.append Manager.append
          simp only [hempty, Bool.false_eq_true, if_false, tasks_lifeOnly, htrimB, bind, Except.bind]
          rfl
    obtain ⟨d', hkeep', hret', hB⟩ := key
    -- the engine on the popped list returns the untrimmed result minus the popped candles
    have heB : engineCalc ind ((b ++ ch).drop d') = .ok (b1.drop d') := by
      rcases hkeep' with h0 | hk
      · subst h0; simpa using heA
      · rw [engineCalc_drop ind T hs b ch d' hfull hpch hk, heA]; rfl
    obtain ⟨actB1, hcB⟩ := IndState.calculate_of_engine' ind (cfgLifeOnly life) _ _ actB heB
    have := ih (s ++ ch) b1 d' actA1 actB1 (by rw [hts1]; simp [hts]) hfull1
      (by rcases hkeep' with h | h
          · exact Or.inl h
          · right; rw [hl1, List.length_append]; omega)
      hprest hret' bb
      (by unfold candlesOf; rw [hstA]; simp [Except.map, hcA])
    obtain ⟨d'', hd''⟩ := this
    refine ⟨d'', ?_⟩
    rw [List.foldlM_cons, hB, hcB]
    exact hd''

/-- **A tree that never raises on the base timeframe never raises on a lifespan manager that retains its
look-back** (`L`: `TwinOK ind L`; nothing popped at construction, `L` finished candles from before the
append retained at every append that pops): every history returns, with the candles of the untrimmed
history minus the popped ones. -/
theorem tree_never_raises_lifespan (ind : Ind F) {L : Nat} (T : TwinOK ind L) (hs : Shallow ind)
    (hbase : NeverRaises (MgrSpec.base F) ind)
    (life : Int) (init : List (Candle F)) (chunks : List (List (Candle F)))
    (hp : ∀ c ∈ init ++ chunks.flatten, Plain c) (hinit : trimCandles (some life) init = .ok init)
    (hret : RetainsFrom L life init init.length chunks) :
    ∃ snap d, candlesOf (runIndicator ind { lifespan := some life } init chunks) = .ok (snap.drop d) ∧
      candlesOf (runIndicator ind {} init chunks) = .ok snap := by
  have hpi : ∀ c ∈ init, Plain c := fun c hc => hp c (by simp [hc])
  have hpc : ∀ c ∈ chunks.flatten, Plain c := fun c hc => hp c (List.mem_append.2 (Or.inr hc))
  obtain ⟨snap, hsnap⟩ := hbase init chunks hp
  have hsnap' : candlesOf (runIndicator ind {} init chunks) = .ok snap := hsnap
  refine ⟨snap, ?_⟩
  have hb := hsnap'
  unfold runIndicator IndState.init Manager.init at hb ⊢
  have hl : tasks ({ lifespan := some life } : MgrCfg) init = .ok init := by
    have : tasks ({ lifespan := some life } : MgrCfg) init = trimCandles (some life) init := tasks_lifeOnly life init
    rw [this, hinit]
  rw [hl]
  rw [tasks_default] at hb
  simp only [bind, Except.bind, pure, Except.pure] at hb ⊢
  cases hcA : IndState.calculate ({ tree := ind, mgr := { cfg := {}, candles := init } } : IndState F) with
  | error e => rw [hcA] at hb; cases hb
  | ok sA =>
    rw [hcA] at hb
    simp only at hb
    obtain ⟨b0, actA, rfl, heA⟩ := IndState.calculate_shape ind {} init 0 sA hcA
    obtain ⟨actB, hcB⟩ := IndState.calculate_of_engine' ind ({ lifespan := some life } : MgrCfg) init b0 0 heA
    rw [hcB]
    simp only
    have hfull0 : CalcFull ind b0 := engine_full ind T [] init b0 (fun n _ c hc => by cases hc) hpi (by simpa using heA)
    obtain ⟨hl0, hts0⟩ := engine_frame ind init b0 heA
    obtain ⟨d, hd⟩ := twin_appends_tree_total ind T hs life chunks init b0 0 actA actB hts0 hfull0 (Or.inl rfl) hpc
      (by simpa using hret) snap hb
    exact ⟨d, by simpa [cfgLifeOnly] using hd, hsnap'⟩

/-- **… for every shipped class** (`CoveredTreeX`), with the look-back `treeLook k nm n` of C15 -/
theorem covered_never_raises_lifespan (k : Kind F) (nm : String) (n : Nat) (hc : CoveredTreeX nm k)
    (hbase : NeverRaises (MgrSpec.base F) (mkTop k nm n))
    (life : Int) (init : List (Candle F)) (chunks : List (List (Candle F)))
    (hp : ∀ c ∈ init ++ chunks.flatten, Plain c) (hinit : trimCandles (some life) init = .ok init)
    (hret : RetainsFrom (treeLook k nm n) life init init.length chunks) :
    ∃ snap d, candlesOf (runIndicator (mkTop k nm n) { lifespan := some life } init chunks) = .ok (snap.drop d) ∧
      candlesOf (runIndicator (mkTop k nm n) {} init chunks) = .ok snap :=
  tree_never_raises_lifespan (mkTop k nm n) (hc.twinOK n) (shallow_mkTop k nm n) hbase life init chunks hp hinit hret

/-- every history of `ind` on a lifespan manager that pops nothing at construction and retains `L` finished
candles at every popping append returns – with the candles of the untrimmed history minus the popped ones -/
def LifeTotal (ind : Ind F) (L : Nat) : Prop :=
  ∀ (life : Int) (init : List (Candle F)) (chunks : List (List (Candle F))),
    (∀ c ∈ init ++ chunks.flatten, Plain c) → trimCandles (some life) init = .ok init →
    RetainsFrom L life init init.length chunks →
    ∃ snap d, candlesOf (runIndicator ind { lifespan := some life } init chunks) = .ok (snap.drop d) ∧
      candlesOf (runIndicator ind {} init chunks) = .ok snap

theorem lifeTotal_of (k : Kind F) (nm : String) (n : Nat) (hc : CoveredTreeX nm k)
    (hbase : NeverRaises (MgrSpec.base F) (mkTop k nm n)) : LifeTotal (mkTop k nm n) (treeLook k nm n) :=
  fun life init chunks hp hinit hret => covered_never_raises_lifespan k nm n hc hbase life init chunks hp hinit hret

end Hex

namespace Hex.Numeric
variable {K : Type} [Field K] [LinearOrder K] [IsStrictOrderedRing K] [LawfulPyF K]

/-! ### the composites in the exact field (parameter guards as in `…_live_total`) -/

theorem atr_lifeTotal (p : Nat) (hp : 1 ≤ p) (nm : String) (n : Nat) (hk : IsKey nm) (hn : AtrNames nm) :
    LifeTotal (mkTop (.atr (p : Int) : Kind K) nm n) (treeLook (.atr (p : Int) : Kind K) nm n) :=
  lifeTotal_of _ nm n (.base _ (.atr _ (by omega) hn)) (atr_live_total (MgrSpec.base K) p hp nm n hk hn).1

theorem rsi_lifeTotal (p : Nat) (hp : 1 ≤ p) (nm input : String) (fld : Candle K → Num K) (n : Nat)
    (hn : RsiNames nm) (hk : IsKey nm) (hin : AttrInput input)
    (hattr : ∀ c : Candle K, c.attr input = some (.num (fld c))) :
    LifeTotal (mkTop (.rsi (p : Int) input : Kind K) nm n) (treeLook (.rsi (p : Int) input : Kind K) nm n) :=
  lifeTotal_of _ nm n (.base _ (.rsi _ _ (by omega) hn hin))
    (rsi_live_total (MgrSpec.base K) p hp nm input fld n hn hk hin hattr).1

theorem stdev_lifeTotal (p : Nat) (hp : 1 ≤ p) (nm input : String) (fld : Candle K → Num K) (n : Nat)
    (hn : SdNames nm) (hin : AttrInput input) (hattr : ∀ c : Candle K, c.attr input = some (.num (fld c))) :
    LifeTotal (mkTop (.stdev (p : Int) input : Kind K) nm n) (treeLook (.stdev (p : Int) input : Kind K) nm n) :=
  lifeTotal_of _ nm n (.base _ (.stdev _ _ (by omega) hin))
    (stdev_live_total (MgrSpec.base K) p hp nm input fld n hn hin hattr).1

theorem bbands_lifeTotal (p : Nat) (hp : 2 ≤ p) (nm input : String) (fld : Candle K → Num K) (n : Nat)
    (hk : IsKey nm) (hn : BbNames nm) (hin : AttrInput input)
    (hattr : ∀ c : Candle K, c.attr input = some (.num (fld c))) :
    LifeTotal (mkTop (.bbands (p : Int) input : Kind K) nm n) (treeLook (.bbands (p : Int) input : Kind K) nm n) :=
  lifeTotal_of _ nm n (.base _ (.bbands _ _ (by omega) hn hin))
    (bb_live_total (MgrSpec.base K) p hp nm input fld n hk hn hin hattr).1

theorem kc_lifeTotal (p : Nat) (hp : 2 ≤ p) (nm input : String) (fld : Candle K → Num K) (n : Nat) (mult : Num K)
    (hk : IsKey nm) (hn : KcNames nm) (hin : AttrInput input)
    (hattr : ∀ c : Candle K, c.attr input = some (.num (fld c))) :
    LifeTotal (mkTop (.kc (p : Int) input mult : Kind K) nm n) (treeLook (.kc (p : Int) input mult : Kind K) nm n) :=
  lifeTotal_of _ nm n (.base _ (.kc _ _ _ (by omega) hn hin))
    (kc_live_total (MgrSpec.base K) p hp nm input fld n mult hk hn hin hattr).1

theorem stdevthres_lifeTotal (p : Nat) (hp : 1 ≤ p) (nm input : String) (fld : Candle K → Num K) (mult : Num K)
    (n : Nat) (hk : IsKey nm) (hn : ThresNames nm) (hin : AttrInput input)
    (hattr : ∀ c : Candle K, c.attr input = some (.num (fld c))) :
    LifeTotal (mkTop (.stdevthres (p : Int) input mult : Kind K) nm n)
      (treeLook (.stdevthres (p : Int) input mult : Kind K) nm n) :=
  lifeTotal_of _ nm n (.base _ (.stdevthres _ _ _ (by omega) hn hin))
    (thres_live_total (MgrSpec.base K) p hp nm input fld mult n hk hn hin hattr).1

theorem supertrend_lifeTotal (p : Nat) (hp : 1 ≤ p) (nm input : String) (mult : Num K) (n : Nat)
    (hn : StNames nm) (hk : IsKey nm) :
    LifeTotal (mkTop (.supertrend (p : Int) input mult : Kind K) nm n)
      (treeLook (.supertrend (p : Int) input mult : Kind K) nm n) :=
  lifeTotal_of _ nm n (.base _ (.supertrend _ _ _ (by omega) hn))
    (st_live_total (MgrSpec.base K) p hp nm input mult n hn hk).1

theorem vwap_lifeTotal (p : Int) (nm : String) (n : Nat) (hn : VwapNames nm) :
    LifeTotal (mkTop (.vwap p : Kind K) nm n) (treeLook (.vwap p : Kind K) nm n) :=
  lifeTotal_of _ nm n (.base _ (.vwap p)) (vwap_live_total (MgrSpec.base K) p nm n hn).1

theorem macd_lifeTotal (nm : String) (n pf ps pg : Nat) (input : String) (fld : Candle K → Num K)
    (hf : 2 ≤ pf) (hfs : pf ≤ ps) (hg : 1 ≤ pg) (hn : MacdNames nm) (hin : AttrInput input)
    (hattr : ∀ c : Candle K, c.attr input = some (.num (fld c))) :
    LifeTotal (mkTop (.macd (pf : Int) (ps : Int) (pg : Int) input : Kind K) nm n)
      (treeLook (.macd (pf : Int) (ps : Int) (pg : Int) input : Kind K) nm n) :=
  lifeTotal_of _ nm n (.macd _ _ _ _ (by omega) (by omega) (by omega) hn hin)
    (macd_live_total (MgrSpec.base K) nm n pf ps pg input fld hf hfs hg hn hin hattr).1

theorem stoch_lifeTotal (p sk sl : Nat) (hp : 2 ≤ p) (hsk : 1 ≤ sk) (hsl : 1 ≤ sl) (nm input : String)
    (fld : Candle K → Num K) (n : Nat) (hn : StochNames nm) (hin : AttrInput input)
    (hattr : ∀ c : Candle K, c.attr input = some (.num (fld c))) :
    LifeTotal (mkTop (.stoch (p : Int) (sl : Int) (sk : Int) input : Kind K) nm n)
      (treeLook (.stoch (p : Int) (sl : Int) (sk : Int) input : Kind K) nm n) :=
  lifeTotal_of _ nm n (.stoch _ _ _ _ (by omega) (by omega) (by omega) hn hin)
    (stoch_live_total (MgrSpec.base K) p sk sl hp hsk hsl nm input fld n hn hin hattr).1

theorem tsi_lifeTotal (nm : String) (n p s : Nat) (input : String) (fld : Candle K → Num K)
    (hp : 1 ≤ p) (hs : 1 ≤ s) (hn : TsiNames nm) (hin : AttrInput input)
    (hattr : ∀ c : Candle K, c.attr input = some (.num (fld c))) :
    LifeTotal (mkTop (.tsi (p : Int) (s : Int) input : Kind K) nm n)
      (treeLook (.tsi (p : Int) (s : Int) input : Kind K) nm n) :=
  lifeTotal_of _ nm n (.tsi _ _ _ (by omega) (by omega) hn hin)
    (tsi_live_total (MgrSpec.base K) nm n p s input fld hp hs hn hin hattr).1

theorem adx_lifeTotal (nm : String) (n p sg : Nat) (hp : 1 ≤ p) (hg : 1 ≤ sg) (hn : AdxNames nm) :
    LifeTotal (mkTop (.adx (p : Int) (sg : Int) : Kind K) nm n) (treeLook (.adx (p : Int) (sg : Int) : Kind K) nm n) :=
  lifeTotal_of _ nm n (.adx _ _ (by omega) (by omega) hn) (adx_live_total (MgrSpec.base K) nm n p sg hp hg hn).1

theorem hma_lifeTotal (p : Nat) (hp : 2 ≤ p) (nm input : String) (fld : Candle K → Num K) (n : Nat)
    (hn : HmaNames nm) (hin : AttrInput input) (hattr : ∀ c : Candle K, c.attr input = some (.num (fld c))) :
    LifeTotal (mkTop (.hma (p : Int) input : Kind K) nm n) (treeLook (.hma (p : Int) input : Kind K) nm n) :=
  lifeTotal_of _ nm n (.hma _ _ (by omega) hn hin) (hma_live_total (MgrSpec.base K) p hp nm input fld n hn hin hattr).1

/-! ### non-vacuity -/

/-- MACD(2, 3, 2) on the stamped demo candles with a 400-second lifespan: construction over three candles
pops nothing, the appends of 480 and 540 pop one candle each and retain two finished ones (look-back 2) -/
theorem haStamped_retains2 : RetainsFrom 2 400 (haStamped.take 3) (haStamped.take 3).length
    [[haStamped.getD 3 default], [], [haStamped.getD 4 default]] :=
  Or.inr ⟨by decide, (haStamped.take 4).drop 1, rfl, Or.inr (by decide),
    Or.inl ⟨rfl, Or.inr ⟨by decide, haStamped.drop 2, rfl, Or.inr (by decide), trivial⟩⟩⟩

example : ∃ snap d, candlesOf (runIndicator
      (mkTop (.macd ((2 : Nat) : Int) ((3 : Nat) : Int) ((2 : Nat) : Int) "close" : Kind ℚ) "MACD_2_3_2" 4)
      { lifespan := some 400 } (haStamped.take 3) [[haStamped.getD 3 default], [], [haStamped.getD 4 default]])
        = .ok (snap.drop d) ∧
    candlesOf (runIndicator
      (mkTop (.macd ((2 : Nat) : Int) ((3 : Nat) : Int) ((2 : Nat) : Int) "close" : Kind ℚ) "MACD_2_3_2" 4)
      {} (haStamped.take 3) [[haStamped.getD 3 default], [], [haStamped.getD 4 default]]) = .ok snap := by
  have hL : treeLook (F := ℚ) (.macd ((2 : Nat) : Int) ((3 : Nat) : Int) ((2 : Nat) : Int) "close") "MACD_2_3_2" 4 = 2 := by
    simp [treeLook, mkTop, children, Ind.lb_eq, Ind.kind, Ind.subs, Ind.managed, leaf, kwin, window]
  exact macd_lifeTotal "MACD_2_3_2" 4 2 3 2 "close" (·.c) (by norm_num) (by norm_num) (by norm_num) macdNames_demo
    ⟨noDot_close, by decide⟩ (fun _ => rfl) 400 _ _ (by decide) rfl (by rw [hL]; exact haStamped_retains2)

end Hex.Numeric

namespace Hex
/-- the toy carrier: MACD(2, 3, 2) / ADX(3, 2) of the C15 demo (lifespan 240 s, look-back 2 retained) return on the
lifespan manager, with the untrimmed twin's candles minus the three popped ones -/
example : (runT (.macd 2 3 2 "close") "MACD_2_3_2").toOption.map (·.map view)
      = (runU (.macd 2 3 2 "close") "MACD_2_3_2").toOption.map (fun cs => (cs.drop 3).map view) ∧
    (runT (.macd 2 3 2 "close") "MACD_2_3_2").toOption.isSome ∧
    (runT (.adx 3 2) "ADX_3_2").toOption.map (·.map view)
      = (runU (.adx 3 2) "ADX_3_2").toOption.map (fun cs => (cs.drop 3).map view) ∧
    (runT (.adx 3 2) "ADX_3_2").toOption.isSome := by
  set_option synthInstance.maxSize 2000 in decide +kernel
end Hex

#print axioms Hex.tree_never_raises_lifespan
#print axioms Hex.covered_never_raises_lifespan
#print axioms Hex.Numeric.macd_lifeTotal
#print axioms Hex.Numeric.adx_lifeTotal
#print axioms Hex.Numeric.hma_lifeTotal

import HexProofs.Numeric.SeriesMore
import HexProofs.Framework.Kinds.All
import HexProofs.Framework.Gen.Object
import HexProofs.Numeric.Demo
import HexProofs.Lib.IntInst
/-!
# Whole-series theorems over candle lists that already hold foreign readings, for an input that is
another indicator's reading and starts late  (C04 / C05 / C06, "position independent")

`HexProofs/Numeric/SeriesAvg.lean` … prove the series statements over RAW candles (`Plain`) and a
candle-field input (`t0 = 0`) through the row-major spec.  Here the candle list is ARBITRARY: it may
hold any readings under any other names, and the input is ANY name – a candle attribute, an ordinary
key, a dotted field `main.fld`, even a dotted field of the node's own name – whose reading is `None`
on the first `t0` candles and numeric afterwards.

The engine level (this file, generic over the float carrier):

* `midList nm cs vs m` – the engine's list after `m` iterations of the loop of `calculate()`: the first
  `m` candles carry the readings `vs` under `nm`, the others are untouched;
* `engine_leaf_induct` – the series induction THROUGH THE ENGINE for a top-level leaf kind over such a
  list (no row-major detour: the per-call theorems do not care what follows the active index);
* `readingByCandle_setKey_other` / `_self` – key locality of the store along foreign columns.

The numeric level: `SView` (what a call sees of its own column and of the late-starting input column),
`ShiftedOK` (a series statement shifted by `t0`), and the SMA theorem `c04_full_partial`.  `C04_FULL` as
written in `HexProps/C04.lean` is FALSE (`c04_full_false`): it lets the first `t0` input readings be
anything that is not a number – a `bool`, a dict –, and the library counts a `bool` as a reading
(`SMA(input_value="positive")`).  The corrected hypothesis says they are `None`.
-/
set_option linter.unusedSectionVars false
set_option linter.unusedSimpArgs false
namespace Hex
namespace Numeric

section generic
variable {F : Type} [PyF F]

/-! ### key locality of `_set_reading` -/

/-- the own key: `.indicators` is looked at first, so the stored reading is what a look-up returns,
whatever else the candle holds -/
theorem rbc_setKey_own (nm : String) (hk : IsKey nm) (v : Val F) (c : Candle F) :
    readingByCandle (setKey false nm v c) nm = v := by
  rw [readingByCandle_key nm hk]
  simp [lookupKey, setKey, dlookup_dset_self]

/-- **key locality**: a reading name that is neither `nm` nor a dotted field of `nm` does not see the
entry stored under `nm` -/
theorem readingByCandle_setKey_other (nm input : String) (hne : nm ≠ input)
    (hself : ∀ fld, splitDot input ≠ [nm, fld]) (v : Val F) (c : Candle F) :
    readingByCandle (setKey false nm v c) input = readingByCandle c input := by
  unfold readingByCandle
  split
  · rename_i main nested hs
    have hm : nm ≠ main := fun h => hself nested (by rw [hs, h])
    simp only [setKey, Bool.false_eq_true, if_false, dlookup_dset_ne _ _ _ _ hm]
  · rw [attr_setKey]
    simp only [setKey, Bool.false_eq_true, if_false, dlookup_dset_ne _ _ _ _ hne]

/-- key locality of `_set_reading`, either dict: a reading name that is neither `nm` nor a dotted field
of `nm` does not see the entry stored under `nm` -/
theorem readingByCandle_setKey_otherB (isSub : Bool) (nm input : String) (hne : nm ≠ input)
    (hself : ∀ fld, splitDot input ≠ [nm, fld]) (v : Val F) (c : Candle F) :
    readingByCandle (setKey isSub nm v c) input = readingByCandle c input := by
  unfold readingByCandle
  split
  · rename_i main nested hs
    have hm : nm ≠ main := fun h => hself nested (by rw [hs, h])
    cases isSub <;> simp only [setKey, Bool.false_eq_true, if_false, if_true, dlookup_dset_ne _ _ _ _ hm]
  · rw [attr_setKey]
    cases isSub <;> simp only [setKey, Bool.false_eq_true, if_false, if_true, dlookup_dset_ne _ _ _ _ hne]

theorem isKey_ne_attr (nm a : String) (hk : IsKey nm) (ha : a ∈ Candle.attrNames) : nm ≠ a :=
  fun h => hk.notAttr (h ▸ ha)

theorem noDot_not_self (nm a : String) (hd : NoDot a) : ∀ fld, splitDot a ≠ [nm, fld] := by
  intro fld h
  rw [hd] at h
  cases h

/-- a dotted field of `nm` sees the entry stored under `nm` (a scalar reading is returned as is) -/
theorem readingByCandle_setKey_self (nm input fld : String) (hs : splitDot input = [nm, fld])
    (v : Val F) (c : Candle F) : readingByCandle (setKey false nm v c) input = v.nested fld := by
  unfold readingByCandle
  rw [hs]
  simp [setKey, dlookup_dset_self]

theorem readingByCandle_absent_self (nm input fld : String) (hs : splitDot input = [nm, fld])
    (c : Candle F) (hc : dlookup nm c.inds = none ∧ dlookup nm c.subs = none) :
    readingByCandle c input = .none := by
  unfold readingByCandle
  rw [hs]
  simp [hc.1, hc.2]

/-! ### the engine's list in the middle of the loop -/

/-- after `m` iterations: the first `m` candles carry `vs` under `nm`, the others are untouched -/
def midList (nm : String) (cs : List (Candle F)) (vs : List (Val F)) (m : Nat) : List (Candle F) :=
  deco nm (cs.take m) vs ++ cs.drop m

/-- the context of the engine's call at index `m` -/
abbrev runCtx (nm : String) (cs : List (Candle F)) (vs : List (Val F)) (m : Nat) : Ctx F :=
  { cs := midList nm cs vs m, i := m, name := nm }

section mid
variable (nm : String) (cs : List (Candle F)) (vs : List (Val F)) (m : Nat)

theorem take_length_le (hm : m ≤ cs.length) : (cs.take m).length = m := by simp; omega

theorem midList_done_length (hm : m ≤ cs.length) (hvs : vs.length = m) :
    (deco nm (cs.take m) vs).length = m := by
  rw [deco_length _ _ _ (by rw [take_length_le cs m hm, hvs]), take_length_le cs m hm]

theorem midList_length (hm : m ≤ cs.length) (hvs : vs.length = m) :
    (midList nm cs vs m).length = cs.length := by
  unfold midList
  rw [List.length_append, midList_done_length nm cs vs m hm hvs, List.length_drop]
  omega

theorem midList_split (hm : m < cs.length) :
    midList nm cs vs m = deco nm (cs.take m) vs ++ cs.getD m default :: cs.drop (m + 1) := by
  unfold midList
  congr 1
  rw [List.drop_eq_getElem_cons hm, List.getD_eq_getElem?_getD, List.getElem?_eq_getElem hm]
  rfl

theorem midList_lt (hm : m ≤ cs.length) (hvs : vs.length = m) (j : Nat) (hj : j < m) :
    (midList nm cs vs m)[j]? = some (setKey false nm (vs.getD j .none) (cs.getD j default)) := by
  unfold midList
  rw [List.getElem?_append_left (by rw [midList_done_length nm cs vs m hm hvs]; exact hj),
    deco_getElem? nm (cs.take m) vs j (by rw [take_length_le cs m hm, hvs])
      (by rw [take_length_le cs m hm]; exact hj)]
  congr 2
  rw [List.getD_eq_getElem?_getD, List.getD_eq_getElem?_getD, List.getElem?_take_of_lt hj]

theorem midList_ge (hm : m ≤ cs.length) (hvs : vs.length = m) (j : Nat) (hj : m ≤ j) (hjl : j < cs.length) :
    (midList nm cs vs m)[j]? = some (cs.getD j default) := by
  unfold midList
  rw [List.getElem?_append_right (by rw [midList_done_length nm cs vs m hm hvs]; exact hj),
    midList_done_length nm cs vs m hm hvs, List.getElem?_drop]
  rw [show m + (j - m) = j by omega, List.getD_eq_getElem?_getD, List.getElem?_eq_getElem hjl]
  rfl

theorem midList_full (_hvs : vs.length = cs.length) : midList nm cs vs cs.length = deco nm cs vs := by
  unfold midList
  simp

theorem midList_succ (hm : m < cs.length) (hvs : vs.length = m) (v : Val F) :
    deco nm (cs.take m) vs ++ setKey false nm v (cs.getD m default) :: cs.drop (m + 1)
      = midList nm cs (vs ++ [v]) (m + 1) := by
  unfold midList
  have htake : cs.take (m + 1) = cs.take m ++ [cs.getD m default] := by
    rw [List.take_add_one]
    congr 1
    rw [List.getD_eq_getElem?_getD, List.getElem?_eq_getElem hm]
    rfl
  rw [htake, deco_append _ _ _ _ _ (by rw [take_length_le cs m (by omega), hvs])]
  simp

/-! ### what the call at index `m` reads -/

theorem runCtx_reading_lt (hm : m < cs.length) (hvs : vs.length = m) (name : String) (j : Nat) (hj : j < m) :
    (runCtx nm cs vs m).reading name (some (j : Int))
      = .ok (readingByCandle (setKey false nm (vs.getD j .none) (cs.getD j default)) name) := by
  unfold Ctx.reading
  simp only [Option.getD_some]
  rw [pyIndex_nonneg _ _ (by omega)]
  simp only [Int.toNat_natCast]
  rw [midList_lt nm cs vs m (by omega) hvs j hj]
  rfl

theorem runCtx_reading_ge (hm : m < cs.length) (hvs : vs.length = m) (name : String) (j : Nat)
    (hj : m ≤ j) (hjl : j < cs.length) :
    (runCtx nm cs vs m).reading name (some (j : Int)) = .ok (readingByCandle (cs.getD j default) name) := by
  unfold Ctx.reading
  simp only [Option.getD_some]
  rw [pyIndex_nonneg _ _ (by omega)]
  simp only [Int.toNat_natCast]
  rw [midList_ge nm cs vs m (by omega) hvs j hj hjl]
  rfl

/-- the indicator's own reading on a finished candle -/
theorem runCtx_own (hm : m < cs.length) (hvs : vs.length = m) (hk : IsKey nm) (j : Nat) (hj : j < m) :
    (runCtx nm cs vs m).reading nm (some (j : Int)) = .ok (vs.getD j .none) := by
  rw [runCtx_reading_lt nm cs vs m hm hvs nm j hj, rbc_setKey_own nm hk]

end mid

/-! ### the series induction through the engine -/

theorem present_absent (nm : String) (c : Candle F) (h : dlookup nm c.inds = none) : present nm c = false := by
  unfold present; rw [h]

theorem hasKey_absent (nm : String) (c : Candle F) (h : dlookup nm c.inds = none ∧ dlookup nm c.subs = none) :
    hasKey nm c = false := by
  unfold hasKey dhas; rw [h.1, h.2]; rfl

theorem getD_mem' {α : Type} [Inhabited α] (l : List α) (j : Nat) (hj : j < l.length) : l.getD j default ∈ l := by
  rw [List.getD_eq_getElem?_getD, List.getElem?_eq_getElem hj]
  exact List.getElem_mem _

/-- the loop of `calculate()` on a leaf, continued from the list `midList … m` -/
theorem leafLoop_mid (ind : Ind F) (nm : String) (n : Nat) (hname : ind.name = nm) (hsub : ind.isSub = false)
    (hround : ind.round = n) (cs : List (Candle F))
    (habs : ∀ c ∈ cs, dlookup nm c.inds = none ∧ dlookup nm c.subs = none)
    (Q : Nat → Val F → Prop)
    (hstep : ∀ (m : Nat) (_ : m < cs.length) (vs : List (Val F)), vs.length = m →
      (∀ j, j < m → Q j (vs.getD j .none)) →
      ∃ v, readKind ind.kind (runCtx nm cs vs m) = .ok v ∧ Q m (v.roundBy n)) :
    ∀ (r m : Nat) (vs : List (Val F)), m + r = cs.length → vs.length = m →
      (∀ j, j < m → Q j (vs.getD j .none)) →
      ∃ vs' : List (Val F), vs'.length = cs.length ∧
        leafLoop ind (midList nm cs vs m) m r = .ok (deco nm cs vs') ∧
        ∀ j, j < cs.length → Q j (vs'.getD j .none) := by
  intro r
  induction r with
  | zero =>
    intro m vs hmr hvs hQ
    have hm : m = cs.length := by omega
    subst hm
    exact ⟨vs, hvs, by rw [leafLoop, midList_full nm cs vs hvs], hQ⟩
  | succ r ih =>
    intro m vs hmr hvs hQ
    have hm : m < cs.length := by omega
    obtain ⟨v, hv, hq⟩ := hstep m hm vs hvs hQ
    have hdl := midList_done_length nm cs vs m (by omega) hvs
    have hcabs := habs _ (getD_mem' cs m hm)
    rw [leafLoop, midList_split nm cs vs m hm]
    have hpi : pyIndex (deco nm (cs.take m) vs ++ cs.getD m default :: cs.drop (m + 1)) (m : Int)
        = .ok (cs.getD m default) := by
      have := pyIndex_append_cons (deco nm (cs.take m) vs) (cs.getD m default) (cs.drop (m + 1))
      rwa [hdl] at this
    rw [hpi]
    simp only [bind, Except.bind, hname, present_absent nm _ hcabs.1, Bool.false_eq_true, if_false]
    have hsl := stepLeaf_append_cons ind (deco nm (cs.take m) vs) (cs.getD m default) (cs.drop (m + 1))
    rw [hdl, hname, ← midList_split nm cs vs m hm] at hsl
    have hv' : readKind ind.kind { cs := midList nm cs vs m, i := (m : Int), name := nm } = .ok v := hv
    rw [← midList_split nm cs vs m hm, hsl, hv']
    simp only [bind, Except.bind, pure, Except.pure, hsub, hround]
    rw [midList_succ nm cs vs m hm hvs]
    refine ih (m + 1) (vs ++ [v.roundBy n]) (by omega) (by simp [hvs]) ?_
    intro j hj
    by_cases hjm : j < m
    · rw [List.getD_eq_getElem?_getD, List.getElem?_append_left (by omega), ← List.getD_eq_getElem?_getD]
      exact hQ j hjm
    · have : j = m := by omega
      subst this
      rw [List.getD_eq_getElem?_getD, List.getElem?_append_right (by omega)]
      simpa [hvs] using hq

/-- **Series induction through the engine**, for a top-level leaf kind over a candle list that may
hold any readings under other names (the node's own name is absent).  If, whenever the first `m`
readings satisfy `Q`, the call at index `m` – on the engine's own list `midList … m` – succeeds and
its stored reading satisfies `Q m`, then `calculate()` returns, its result is the input list with one
reading per candle stored under `nm` (nothing else changes), and every reading satisfies `Q`. -/
theorem engine_leaf_induct (k : Kind F) (nm : String) (n : Nat) (hro : k.readOnly = true)
    (hch : children k nm = ([], [])) (cs : List (Candle F))
    (habs : ∀ c ∈ cs, dlookup nm c.inds = none ∧ dlookup nm c.subs = none)
    (Q : Nat → Val F → Prop)
    (hstep : ∀ (m : Nat) (_ : m < cs.length) (vs : List (Val F)), vs.length = m →
      (∀ j, j < m → Q j (vs.getD j .none)) →
      ∃ v, readKind k (runCtx nm cs vs m) = .ok v ∧ Q m (v.roundBy n)) :
    ∃ vs : List (Val F), vs.length = cs.length ∧
      engineCalc (mkTop k nm n) cs = .ok (deco nm cs vs) ∧
      ∀ j, j < cs.length → Q j (vs.getD j .none) := by
  have hl := isLeaf_mkTop k nm n hro hch
  have hkind := mkTop_kind k nm n
  have hname := mkTop_name k nm n
  have hsub : (mkTop k nm n).isSub = false := by unfold mkTop; rw [hch]; rfl
  have hround : (mkTop k nm n).round = n := by unfold mkTop; rw [hch]; rfl
  unfold engineCalc
  rw [calculate_leaf _ hl _ cs (by have := fuelFor_ge cs; omega)]
  unfold leafCalc
  rw [hname, findCalcIndex_fresh nm cs (fun c hc => hasKey_absent nm c (habs c hc))]
  have h0 : midList nm cs [] 0 = cs := by simp [midList, deco]
  have := leafLoop_mid (mkTop k nm n) nm n hname hsub hround cs habs Q (by rw [hkind]; exact hstep)
    cs.length 0 [] (by omega) rfl (fun j hj => absurd hj (Nat.not_lt_zero j))
  rw [h0] at this
  simpa using this

/-! ### what a call sees of its own column and of a late-starting input column -/

/-- what the call `x` at index `m` sees of a late-starting input column: the input reading is `None` on
the candles before `t0` and the number `r (j − t0)` on candle `j ≥ t0` (up to the active index; what
follows is irrelevant) -/
structure IView (x : Ctx F) (input : String) (m t0 : Nat) (r : Nat → Num F) : Prop where
  i_eq : x.i = (m : Int)
  len : m < x.cs.length
  inp_none : ∀ j, j < t0 → j ≤ m → x.reading input (some (j : Int)) = .ok .none
  inp_num : ∀ j, t0 ≤ j → j ≤ m → x.reading input (some (j : Int)) = .ok (.num (r (j - t0)))

/-- … and of its own column: its readings on the earlier candles are `vs` -/
structure SView (x : Ctx F) (nm input : String) (m t0 : Nat) (vs : List (Val F)) (r : Nat → Num F) : Prop
    extends IView x input m t0 r where
  name_eq : x.name = nm
  own : ∀ j, j < m → x.reading nm (some (j : Int)) = .ok (vs.getD j .none)

namespace IView
variable {x : Ctx F} {input : String} {m t0 : Nat} {r : Nat → Num F}

/-- the input reading at the active index -/
theorem cur (V : IView x input m t0 r) (h : t0 ≤ m) :
    x.reading input = .ok (.num (r (m - t0))) := by
  have := V.inp_num m h (le_refl m)
  rw [← V.i_eq] at this
  exact this

theorem cur_none (V : IView x input m t0 r) (h : m < t0) : x.reading input = .ok .none := by
  have := V.inp_none m h (le_refl m)
  rw [← V.i_eq] at this
  exact this

/-- the input reading `k` candles back -/
theorem back (V : IView x input m t0 r) (k : Nat) (h : t0 + k ≤ m) :
    x.reading input (some (x.i - (k : Int))) = .ok (.num (r (m - k - t0))) := by
  have e : x.i - (k : Int) = ((m - k : Nat) : Int) := by rw [V.i_eq]; omega
  rw [e]
  exact V.inp_num (m - k) (by omega) (by omega)

theorem rbi (V : IView x input m t0 r) (j : Nat) (hj : j ≤ m) :
    (readingByIndex x.cs input (j : Int)).isNone = decide (j < t0) := by
  have hv : validIndex (j : Int) x.cs.length = true := by
    have := V.len
    simp [validIndex]; omega
  have hrd : x.reading input (some (j : Int)) = .ok (if j < t0 then .none else .num (r (j - t0))) := by
    by_cases h : j < t0
    · rw [if_pos h]; exact V.inp_none j h hj
    · rw [if_neg h]; exact V.inp_num j (by omega) hj
  unfold Ctx.reading at hrd
  simp only [Option.getD_some] at hrd
  unfold readingByIndex
  rw [hv]
  cases hpi : pyIndex x.cs (j : Int) with
  | error e => rw [hpi] at hrd; simp at hrd
  | ok c =>
    rw [hpi] at hrd
    simp only [pym_bind_ok, pym_pure, Except.ok.injEq] at hrd
    simp only [if_true, hrd]
    by_cases h : j < t0 <;> simp [h]

/-- `reading_period(q, input)` holds exactly when `q` NUMERIC inputs exist: the three probed points
lie at or after `t0` iff the oldest does -/
theorem period (V : IView x input m t0 r) (q : Nat) (hq : 1 ≤ q) :
    x.readingPeriod (q : Int) input = decide (t0 + q ≤ m + 1) := by
  unfold Ctx.readingPeriod Hex.readingPeriod
  simp only [Option.getD_none]
  have hv : validIndex x.i x.cs.length = true := by
    have := V.len
    rw [V.i_eq]; simp [validIndex]; omega
  simp only [hv, Bool.not_true, Bool.false_eq_true, if_false]
  rw [V.i_eq]
  by_cases hqm : q ≤ m + 1
  · have a : ¬ ((m : Int) - ((q : Int) - 1) < 0) := by omega
    have b : (q : Int) - 1 ≥ 0 := by omega
    simp only [a, if_false, b, ge_iff_le, if_true]
    have e1 : (m : Int) - ((q : Int) - 1) = ((m + 1 - q : Nat) : Int) := by omega
    have e2 : (m : Int) - ((q : Int) - 1) / 2 = ((m - (q - 1) / 2 : Nat) : Int) := by omega
    rw [e1, e2, V.rbi _ (by omega), V.rbi _ (by omega), V.rbi m (le_refl m)]
    by_cases h : t0 + q ≤ m + 1
    · have h1 : ¬ m + 1 - q < t0 := by omega
      have h2 : ¬ m - (q - 1) / 2 < t0 := by omega
      have h3 : ¬ m < t0 := by omega
      simp [h, h1, h2, h3]
    · have h1 : m + 1 - q < t0 := by omega
      simp [h, h1]
  · have a : (m : Int) - ((q : Int) - 1) < 0 := by omega
    have h : ¬ t0 + q ≤ m + 1 := by omega
    simp [a, h]

end IView

namespace SView
variable {x : Ctx F} {nm input : String} {m t0 : Nat} {vs : List (Val F)} {r : Nat → Num F}

theorem prev (V : SView x nm input m t0 vs r) :
    x.prevReading x.name = .ok (if m = 0 then .none else vs.getD (m - 1) .none) := by
  unfold Ctx.prevReading
  by_cases h0 : m = 0
  · have : (x.i == 0) = true := by rw [V.i_eq, h0]; rfl
    simp [this, h0]
  · have h1 : (x.cs.length == 0) = false := by
      have := V.len
      rw [beq_eq_false_iff_ne]; omega
    have h2 : (x.i == 0) = false := by rw [V.i_eq, beq_eq_false_iff_ne]; omega
    simp only [h1, h2, Bool.or_self, Bool.false_eq_true, if_false, h0]
    have e : x.i - 1 = ((m - 1 : Nat) : Int) := by rw [V.i_eq]; omega
    rw [e, V.name_eq]
    exact V.own (m - 1) (by omega)

theorem cur (V : SView x nm input m t0 vs r) (h : t0 ≤ m) : x.reading input = .ok (.num (r (m - t0))) :=
  V.toIView.cur h
theorem back (V : SView x nm input m t0 vs r) (k : Nat) (h : t0 + k ≤ m) :
    x.reading input (some (x.i - (k : Int))) = .ok (.num (r (m - k - t0))) := V.toIView.back k h
theorem period (V : SView x nm input m t0 vs r) (q : Nat) (hq : 1 ≤ q) :
    x.readingPeriod (q : Int) input = decide (t0 + q ≤ m + 1) := V.toIView.period q hq

end SView

/-- the engine's call at index `m` over a list with foreign readings, as a view: the own column is
`vs`; the input column is the ORIGINAL one wherever the stored entries cannot be seen through `input`
(`hsee`), which is the case for every name but a dotted field of `nm` itself -/
theorem runCtx_view (nm input : String) (hk : IsKey nm) (cs : List (Candle F)) (vs : List (Val F))
    (m t0 : Nat) (hm : m < cs.length) (hvs : vs.length = m) (r : Nat → Num F)
    (hsee : ∀ j, j < m →
      readingByCandle (setKey false nm (vs.getD j .none) (cs.getD j default)) input
        = readingByCandle (cs.getD j default) input)
    (hnone : ∀ j, j < cs.length → j < t0 → readingByCandle (cs.getD j default) input = .none)
    (hnum : ∀ j, j < cs.length → t0 ≤ j → readingByCandle (cs.getD j default) input = .num (r (j - t0))) :
    SView (runCtx nm cs vs m) nm input m t0 vs r where
  i_eq := rfl
  name_eq := rfl
  len := by show m < (midList nm cs vs m).length; rw [midList_length nm cs vs m (by omega) hvs]; exact hm
  own := fun j hj => runCtx_own nm cs vs m hm hvs hk j hj
  inp_none := by
    intro j hj hjm
    by_cases h : j < m
    · rw [runCtx_reading_lt nm cs vs m hm hvs input j h, hsee j h, hnone j (by omega) hj]
    · rw [runCtx_reading_ge nm cs vs m hm hvs input j (by omega) (by omega), hnone j (by omega) hj]
  inp_num := by
    intro j hj hjm
    by_cases h : j < m
    · rw [runCtx_reading_lt nm cs vs m hm hvs input j h, hsee j h, hnum j (by omega) hj]
    · rw [runCtx_reading_ge nm cs vs m hm hvs input j (by omega) (by omega), hnum j (by omega) hj]

/-- the visibility side condition of `runCtx_view`, for EVERY input name different from `nm`: either the
name does not see entries under `nm` at all, or it is a dotted field of `nm` – then, `nm` being absent
from the list, the input column is `None` everywhere, `cs.length ≤ t0`, and all readings stored so far
are `None` as well -/
theorem see_of (nm input : String) (hne : nm ≠ input) (cs : List (Candle F))
    (habs : ∀ c ∈ cs, dlookup nm c.inds = none ∧ dlookup nm c.subs = none)
    (t0 : Nat) (r : Nat → Num F)
    (hnum : ∀ j, j < cs.length → t0 ≤ j → readingByCandle (cs.getD j default) input = .num (r (j - t0)))
    (vs : List (Val F)) (m : Nat) (hm : m < cs.length)
    (hwarm : ∀ j, j < m → j < t0 → vs.getD j .none = .none) :
    ∀ j, j < m →
      readingByCandle (setKey false nm (vs.getD j .none) (cs.getD j default)) input
        = readingByCandle (cs.getD j default) input := by
  intro j hj
  by_cases hself : ∃ fld, splitDot input = [nm, fld]
  · obtain ⟨fld, hs⟩ := hself
    have hall : ∀ i, i < cs.length → readingByCandle (cs.getD i default) input = .none :=
      fun i hi => readingByCandle_absent_self nm input fld hs _ (habs _ (getD_mem' cs i hi))
    have hjt : j < t0 := by
      by_contra hge
      have := hnum j (by omega) (by omega)
      rw [hall j (by omega)] at this
      cases this
    rw [readingByCandle_setKey_self nm input fld hs, hall j (by omega), hwarm j hj hjt]
    rfl
  · exact readingByCandle_setKey_other nm input hne (fun fld h => hself ⟨fld, h⟩) _ _

end generic

/-! ### SMA -/

section numeric
variable {K : Type} [Field K] [LinearOrder K] [IsStrictOrderedRing K] [LawfulPyF K]

/-- a series statement shifted by `t0`: `None` on the first `t0` candles, then `P` at the index
counted from `t0` -/
def ShiftedOK (P : Nat → Val K → Prop) (t0 j : Nat) (v : Val K) : Prop :=
  (j < t0 → v = .none) ∧ (t0 ≤ j → P (j - t0) v)

theorem shiftedOK_none (P : Nat → Val K → Prop) (t0 j : Nat) (h : t0 ≤ j → P (j - t0) .none) :
    ShiftedOK P t0 j .none := ⟨fun _ => rfl, h⟩

/-- during the shifted warm-up the previous own reading is `None` -/
theorem SView.prev_none {x : Ctx K} {nm input : String} {m t0 : Nat} {vs : List (Val K)} {r : Nat → Num K}
    (V : SView x nm input m t0 vs r) (P : Nat → Val K → Prop) (p : Nat)
    (hwarm : ∀ j v, P j v → j + 1 < p → v = .none)
    (hQ : ∀ j, j < m → ShiftedOK P t0 j (vs.getD j .none)) (h : m < t0 + p) :
    x.prevReading x.name = .ok .none := by
  rw [V.prev]
  by_cases h0 : m = 0
  · simp [h0]
  · simp only [h0, if_false]
    by_cases h1 : m - 1 < t0
    · rw [(hQ (m - 1) (by omega)).1 h1]
    · rw [hwarm _ _ ((hQ (m - 1) (by omega)).2 (by omega)) (by omega)]

theorem smaOK_warm (p n : Nat) (xs : Nat → K) (j : Nat) (v : Val K) (h : SmaOK p n xs j v) (hj : j + 1 < p) :
    v = .none := h.1 hj

/-- **one SMA call in the shifted series** -/
theorem sma_shift_step (p : Nat) (hp : 2 ≤ p) (n : Nat) (x : Ctx K) (nm input : String) (m t0 : Nat)
    (vs : List (Val K)) (r : Nat → Num K) (V : SView x nm input m t0 vs r)
    (hQ : ∀ j, j < m → ShiftedOK (SmaOK p n (fun k => (r k).toF)) t0 j (vs.getD j .none)) :
    ∃ v, Calc.sma x p input = .ok v ∧ ShiftedOK (SmaOK p n (fun k => (r k).toF)) t0 m (v.roundBy n) := by
  have hpK : ((p : Int) : K) ≠ 0 := by
    have : (p : K) ≠ 0 := by exact_mod_cast (by omega : p ≠ 0)
    simpa using this
  have hper := V.period p (by omega)
  by_cases h1 : m + 1 < t0 + p
  · -- warm-up (before `t0`, or the window of numeric inputs not yet full)
    have hpn := V.prev_none _ p (smaOK_warm p n _) hQ (by omega)
    have hrp : x.readingPeriod p input = false := by rw [hper]; simp; omega
    exact ⟨.none, sma_none _ p input hpn hrp, fun _ => rfl, fun _ => ⟨fun _ => rfl, fun h => by omega⟩⟩
  · obtain ⟨m', rfl⟩ : ∃ m', m = t0 + m' := ⟨m - t0, by omega⟩
    have hsub : t0 + m' - t0 = m' := by omega
    refine (?_ : ∃ v, Calc.sma x p input = .ok v ∧
      ((t0 + m' < t0 → v.roundBy n = .none) ∧ (t0 ≤ t0 + m' → SmaOK p n _ (t0 + m' - t0) (v.roundBy n))))
    rw [hsub]
    by_cases h2 : m' + 1 = p
    · -- seed: the first full window of numeric inputs
      have hpn := V.prev_none _ p (smaOK_warm p n _) hQ (by omega)
      have hrp : x.readingPeriod p input = true := by rw [hper]; simp; omega
      have hwin := sma_seed_window x p input r hpn hrp (by omega) (by rw [V.i_eq]; omega) (by rw [V.i_eq]; omega)
        (by
          intro j hj
          have e : x.i + 1 - (p : Int) + (j : Int) = ((t0 + j : Nat) : Int) := by rw [V.i_eq]; omega
          rw [e]
          have := V.inp_num (t0 + j) (by omega) (by omega)
          rwa [show t0 + j - t0 = j by omega] at this)
      refine ⟨_, hwin, fun h => by omega, fun _ => ⟨fun h => by omega, fun _ => ⟨_, rfl, ?_⟩⟩⟩
      have e : ((m' + 2 - p : Nat) : K) = 1 := by
        have : m' + 2 - p = 1 := by omega
        rw [this]; simp
      rw [e, one_mul]
      have hw : winMean (fun k => (r k).toF) p m' = rsum p (fun j => (r j).toF) / (p : K) := by
        unfold winMean
        congr 2
        funext k
        congr 2
        omega
      rw [hw]
      exact LawfulPyF.round_err n _
    · -- running update
      have h3 : p ≤ m' := by omega
      obtain ⟨yp, hyp, hbound⟩ := ((hQ (t0 + m' - 1) (by omega)).2 (by omega)).2 (by omega)
      have hidx : t0 + m' - 1 - t0 = m' - 1 := by omega
      rw [hidx] at hbound
      have hpn : x.prevReading x.name = .ok (.flt yp) := by
        rw [V.prev]
        have h0 : t0 + m' ≠ 0 := by omega
        simp only [h0, if_false, hyp]
      have hold := V.back p (by omega)
      have hcur := V.cur (by omega)
      rw [hsub] at hcur
      rw [show t0 + m' - p - t0 = m' - p by omega] at hold
      refine ⟨_, sma_rec_flt _ p input yp _ _ hpn hold hcur hpK, fun h => by omega,
        fun _ => ⟨fun h => by omega, fun _ => ⟨_, rfl, ?_⟩⟩⟩
      rw [winMean_step (fun k => (r k).toF) p m' (by omega) h3]
      have hb := sma_error_budget n ((p : Int) : K) ((r (m' - p)).toF) ((r m').toF) yp
        (winMean (fun k => (r k).toF) p (m' - 1)) _ hbound
      have e : ((m' + 2 - p : Nat) : K) * eps K n = ((m' - 1 + 2 - p : Nat) : K) * eps K n + eps K n := by
        have : m' + 2 - p = (m' - 1 + 2 - p) + 1 := by omega
        rw [this]; push_cast; ring
      rw [e]
      simpa using hb

/-! ### the input column -/

/-- the input series read off a candle list: `none` where the input reading is not a number
(restated verbatim from `HexProps/C04.lean`, `Hex.C04.inputAt`) -/
def inputSeriesAt (cs : List (Candle K)) (input : String) (j : Nat) : Option K :=
  match readingByCandle (cs.getD j default) input with
  | .s (.num r) => some r.toF
  | _ => none

/-- a late-starting numeric input column as a function `r` into the stored numbers -/
theorem input_col (cs : List (Candle K)) (input : String) (t0 : Nat) (x : Nat → K)
    (hin : ∀ j, j < cs.length → inputSeriesAt cs input j = if j < t0 then none else some (x (j - t0))) :
    ∃ r : Nat → Num K, (∀ k, (r k).toF = x k) ∧
      ∀ j, j < cs.length → t0 ≤ j → readingByCandle (cs.getD j default) input = .num (r (j - t0)) := by
  refine ⟨fun k => match readingByCandle (cs.getD (t0 + k) default) input with
    | .s (.num q) => if t0 + k < cs.length then q else .flt (x k)
    | _ => .flt (x k), ?_, ?_⟩
  · intro k
    by_cases hk : t0 + k < cs.length
    · have := hin (t0 + k) hk
      rw [if_neg (by omega), show t0 + k - t0 = k by omega] at this
      unfold inputSeriesAt at this
      split at this
      · rename_i q hq
        simp only [hq, hk, if_true]
        exact Option.some.inj this
      · cases this
    · simp only
      split
      · simp [hk]
      · simp
  · intro j hj hjt
    have := hin j hj
    rw [if_neg (by omega)] at this
    unfold inputSeriesAt at this
    have e : t0 + (j - t0) = j := by omega
    split at this
    · rename_i q hq
      simp only [e, hq, hj, if_true]
    · cases this

/-! ### C04, SMA: the statement of `HexProps/C04.lean`, its refutation, the corrected statement -/

/-- `Hex.C04.C04_FULL`, restated verbatim -/
def C04FullStatement : Prop :=
  ∀ (K : Type) [Field K] [LinearOrder K] [IsStrictOrderedRing K] [LawfulPyF K]
    (p : Nat) (nm input : String) (n t0 : Nat) (cs : List (Candle K)) (x : Nat → K),
    2 ≤ p → IsKey nm → nm ≠ input →
    (∀ c ∈ cs, dlookup nm c.inds = none ∧ dlookup nm c.subs = none) →
    (∀ j, j < cs.length → inputSeriesAt cs input j = if j < t0 then none else some (x (j - t0))) →
    ∃ vs : List (Val K), vs.length = cs.length ∧
      engineCalc (mkTop (.sma p input) nm n) cs = .ok (deco nm cs vs) ∧
      ∀ j, j < cs.length →
        (j < t0 → vs.getD j .none = .none) ∧ (t0 ≤ j → SmaOK p n x (j - t0) (vs.getD j .none))

/-- `C04_FULL` with the missing hypothesis made explicit: on the first `t0` candles the input reading is
`None` (absent or stored as `None`) – not merely "not a number" -/
def C04PartialStatement : Prop :=
  ∀ (K : Type) [Field K] [LinearOrder K] [IsStrictOrderedRing K] [LawfulPyF K]
    (p : Nat) (nm input : String) (n t0 : Nat) (cs : List (Candle K)) (x : Nat → K),
    2 ≤ p → IsKey nm → nm ≠ input →
    (∀ c ∈ cs, dlookup nm c.inds = none ∧ dlookup nm c.subs = none) →
    (∀ j, j < cs.length → inputSeriesAt cs input j = if j < t0 then none else some (x (j - t0))) →
    (∀ j, j < cs.length → j < t0 → readingByCandle (cs.getD j default) input = .none) →
    ∃ vs : List (Val K), vs.length = cs.length ∧
      engineCalc (mkTop (.sma p input) nm n) cs = .ok (deco nm cs vs) ∧
      ∀ j, j < cs.length →
        (j < t0 → vs.getD j .none = .none) ∧ (t0 ≤ j → SmaOK p n x (j - t0) (vs.getD j .none))

/-- the generic closing step: a shifted per-call theorem gives the shifted series through the engine
(`r` = the stored input numbers, `x` = their values) -/
theorem shifted_series_hr (k : Kind K) (nm input : String) (n t0 : Nat) (cs : List (Candle K)) (x : Nat → K)
    (P : Nat → Val K → Prop)
    (hro : k.readOnly = true) (hch : children k nm = ([], []))
    (hk : IsKey nm) (hne : nm ≠ input)
    (habs : ∀ c ∈ cs, dlookup nm c.inds = none ∧ dlookup nm c.subs = none)
    (hin : ∀ j, j < cs.length → inputSeriesAt cs input j = if j < t0 then none else some (x (j - t0)))
    (hnone : ∀ j, j < cs.length → j < t0 → readingByCandle (cs.getD j default) input = .none)
    (hstep : ∀ (y : Ctx K) (m : Nat) (vs : List (Val K)) (r : Nat → Num K), m < cs.length →
      (∀ k, (r k).toF = x k) → SView y nm input m t0 vs r →
      (∀ j, j < m → ShiftedOK P t0 j (vs.getD j .none)) →
      ∃ v, readKind k y = .ok v ∧ ShiftedOK P t0 m (v.roundBy n)) :
    ∃ vs : List (Val K), vs.length = cs.length ∧
      engineCalc (mkTop k nm n) cs = .ok (deco nm cs vs) ∧
      ∀ j, j < cs.length →
        (j < t0 → vs.getD j .none = .none) ∧ (t0 ≤ j → P (j - t0) (vs.getD j .none)) := by
  obtain ⟨r, hr, hnum⟩ := input_col cs input t0 x hin
  refine engine_leaf_induct k nm n hro hch cs habs (fun j v => ShiftedOK P t0 j v) ?_
  intro m hm vs hvs hQ
  have V := runCtx_view nm input hk cs vs m t0 hm hvs r
    (see_of nm input hne cs habs t0 r hnum vs m hm (fun j hj hjt => (hQ j hj).1 hjt)) hnone hnum
  exact hstep _ m vs r hm hr V hQ

/-- … for a statement `P x` that depends on the input values only -/
theorem shifted_series (k : Kind K) (nm input : String) (n t0 : Nat) (cs : List (Candle K)) (x : Nat → K)
    (P : (Nat → K) → Nat → Val K → Prop)
    (hro : k.readOnly = true) (hch : children k nm = ([], []))
    (hk : IsKey nm) (hne : nm ≠ input)
    (habs : ∀ c ∈ cs, dlookup nm c.inds = none ∧ dlookup nm c.subs = none)
    (hin : ∀ j, j < cs.length → inputSeriesAt cs input j = if j < t0 then none else some (x (j - t0)))
    (hnone : ∀ j, j < cs.length → j < t0 → readingByCandle (cs.getD j default) input = .none)
    (hstep : ∀ (y : Ctx K) (m : Nat) (vs : List (Val K)) (r : Nat → Num K),
      SView y nm input m t0 vs r →
      (∀ j, j < m → ShiftedOK (P (fun k => (r k).toF)) t0 j (vs.getD j .none)) →
      ∃ v, readKind k y = .ok v ∧ ShiftedOK (P (fun k => (r k).toF)) t0 m (v.roundBy n)) :
    ∃ vs : List (Val K), vs.length = cs.length ∧
      engineCalc (mkTop k nm n) cs = .ok (deco nm cs vs) ∧
      ∀ j, j < cs.length →
        (j < t0 → vs.getD j .none = .none) ∧ (t0 ≤ j → P x (j - t0) (vs.getD j .none)) := by
  refine shifted_series_hr k nm input n t0 cs x (P x) hro hch hk hne habs hin hnone ?_
  intro y m vs r _ hr V hQ
  have hx : (fun k => (r k).toF) = x := funext hr
  rw [← hx]
  rw [← hx] at hQ
  exact hstep y m vs r V hQ

/-- **C04 for SMA, every candle list, every input name, every start `t0`** (the corrected `C04_FULL`):
the ENGINE `calculate()` over a list that may hold any other readings never raises, changes nothing but
the entry under `nm`, stores `None` on the first `t0 + period − 1` candles and afterwards a float within
`(j − t0 − (period−1) + 1)·ε_n` of the mean of the last `period` inputs: the series of `sma_series`
shifted by `t0`. -/
theorem c04_full_partial : C04PartialStatement := by
  intro K _ _ _ _ p nm input n t0 cs x hp hk hne habs hin hnone
  exact shifted_series (.sma p input) nm input n t0 cs x (SmaOK p n) rfl rfl hk hne habs hin hnone
    (fun y m vs r V hQ => sma_shift_step p hp n y nm input m t0 vs r V hQ)

/-! #### `C04_FULL` as written is false -/

/-- two raw candles, the first positive (`open < close`), the second not -/
def witC04 : List (Candle ℚ) :=
  [{ o := .int 1, h := .int 3, l := .int 0, c := .int 2, v := .int 10 },
   { o := .int 2, h := .int 3, l := .int 0, c := .int 1, v := .int 10 }]

/-- **`C04_FULL` is false as written.**  `SMA(period = 2, input_value = "positive")` over two raw
candles: the input readings are `bool`s, so `inputSeriesAt` is `none` on both candles and `t0 = 2` satisfies
every hypothesis; the statement then promises `None` on candle 1, but a `bool` IS a reading for
`reading_period` and counts as `0/1` in `sum(...)`: the engine stores `0.5`.
Replay on the pinned library: `SMA(candles=[Candle(1,3,0,2,10), Candle(2,3,0,1,10)], period=2,
input_value="positive")` → `[None, 0.5]`. -/
theorem c04_full_false : ¬ C04FullStatement := by
  intro h
  obtain ⟨vs, hl, hrun, hq⟩ := h ℚ 2 "SMA_2" "positive" 4 2 witC04 (fun _ => 0) (by norm_num) (by decide)
    (by decide)
    (by
      intro c hc
      simp only [witC04, List.mem_cons, List.not_mem_nil, or_false] at hc
      rcases hc with rfl | rfl <;> exact ⟨rfl, rfl⟩)
    (by
      intro j hj
      have : j < 2 := hj
      interval_cases j <;> rfl)
  have h1 : vs.getD 1 .none = .none := (hq 1 (by decide)).1 (by decide)
  have e : (engineCalc (mkTop (.sma ((2 : Nat) : Int) "positive") "SMA_2" 4) witC04).toOption.map
      (fun l => (readingByCandle (l.getD 1 default) "SMA_2").isNone) = some false := by rfl
  rw [hrun] at e
  have hc : (deco "SMA_2" witC04 vs).getD 1 default
      = setKey false "SMA_2" (vs.getD 1 .none) (witC04.getD 1 default) := by
    rw [List.getD_eq_getElem?_getD, deco_getElem? "SMA_2" witC04 vs 1 hl (by decide)]
    rfl
  simp only [Except.toOption, Option.map, hc, rbc_setKey_own "SMA_2" (by decide), h1] at e
  cases e

/-! #### non-vacuity of the corrected statement -/

/-- five candles that already hold the readings of two OTHER indicators: `"EMA_2"` (missing on candle 0,
stored as `None` on candle 1, numeric from candle 2 on: `t0 = 2`) and a dict-valued `"MACD"` -/
def demoForeign : List (Candle ℚ) :=
  [{ o := .int 10, h := .int 12, l := .int 9, c := .int 11, v := .int 100,
     inds := [("MACD", .dict [("MACD", .none)])] },
   { o := .int 11, h := .int 13, l := .int 10, c := .int 12, v := .int 200,
     inds := [("EMA_2", .none), ("MACD", .dict [("MACD", .none)])] },
   { o := .int 12, h := .int 15, l := .int 11, c := .int 14, v := .int 300,
     inds := [("EMA_2", .flt 12), ("MACD", .dict [("MACD", .num (.flt 1))])], subs := [("X_data", .int 7)] },
   { o := .int 14, h := .int 16, l := .int 13, c := .int 15, v := .int 0,
     inds := [("EMA_2", .flt 14), ("MACD", .dict [("MACD", .num (.flt 2))])] },
   { o := .int 15, h := .int 15, l := .int 15, c := .int 15, v := .int 0,
     inds := [("EMA_2", .int 15), ("MACD", .dict [("MACD", .num (.flt 3))])] }]

theorem demoForeign_abs (nm : String) (h1 : nm ≠ "MACD") (h2 : nm ≠ "EMA_2") (h3 : nm ≠ "X_data") :
    ∀ c ∈ demoForeign, dlookup nm c.inds = none ∧ dlookup nm c.subs = none := by
  intro c hc
  simp only [demoForeign, List.mem_cons, List.not_mem_nil, or_false] at hc
  rcases hc with rfl | rfl | rfl | rfl | rfl <;>
    simp [dlookup, Ne.symm h1, Ne.symm h2, Ne.symm h3]

/-- the input column `"EMA_2"` of `demoForeign`: `None, None, 12, 14, 15` -/
def demoX : Nat → ℚ := fun k => [12, 14, 15].getD k 0

theorem demoForeign_in : ∀ j, j < demoForeign.length →
    inputSeriesAt demoForeign "EMA_2" j = if j < 2 then none else some (demoX (j - 2)) := by
  intro j hj
  have : j < 5 := hj
  interval_cases j <;> rfl

theorem demoForeign_none : ∀ j, j < demoForeign.length → j < 2 →
    readingByCandle (demoForeign.getD j default) "EMA_2" = .none := by
  intro j _ hj
  interval_cases j <;> rfl

/-- `SMA_2` of the foreign reading `"EMA_2"` over `demoForeign`: `None` on candles 0–2, then within the
budget of the means of `(12, 14)` and `(14, 15)` -/
example : ∃ vs : List (Val ℚ), vs.length = demoForeign.length ∧
    engineCalc (mkTop (.sma ((2 : Nat) : Int) "EMA_2") "SMA_2" 4) demoForeign = .ok (deco "SMA_2" demoForeign vs) ∧
    ∀ j, j < demoForeign.length →
      (j < 2 → vs.getD j .none = .none) ∧ (2 ≤ j → SmaOK 2 4 demoX (j - 2) (vs.getD j .none)) :=
  c04_full_partial ℚ 2 "SMA_2" "EMA_2" 4 2 demoForeign demoX (by norm_num) (by decide) (by decide)
    (demoForeign_abs "SMA_2" (by decide) (by decide) (by decide)) demoForeign_in demoForeign_none

end numeric

/-- the same run over the toy carrier `Int` returns (`decide`) -/
example : (engineCalc (mkTop (.sma 2 "EMA_2") "SMA_2" 4)
    ([{ o := .int 10, h := .int 12, l := .int 9, c := .int 11, v := .int 100 },
      { o := .int 11, h := .int 13, l := .int 10, c := .int 12, v := .int 200, inds := [("EMA_2", .none)] },
      { o := .int 12, h := .int 15, l := .int 11, c := .int 14, v := .int 300, inds := [("EMA_2", .int 12)] },
      { o := .int 14, h := .int 16, l := .int 13, c := .int 15, v := .int 0, inds := [("EMA_2", .int 14)] }]
      : List (Candle Int))).toOption.map
      (fun l => l.map fun c => (readingByCandle c "SMA_2").isNone) = some [true, true, true, false] := by
  decide +kernel

end Numeric
end Hex

#print axioms Hex.Numeric.engine_leaf_induct
#print axioms Hex.Numeric.c04_full_partial
#print axioms Hex.Numeric.c04_full_false

import HexProofs.Numeric.Channel
/-!
# Window extremes: `movement.highest/lowest`, `highestbar/lowestbar`
-/
set_option linter.unusedSectionVars false
set_option linter.unusedSimpArgs false
namespace Hex
namespace Numeric

section
variable {F : Type} [PyF F]

theorem readingByCandle_high (c : Candle F) : readingByCandle c "high" = .num c.h := by rfl
theorem readingByCandle_low (c : Candle F) : readingByCandle c "low" = .num c.l := by rfl
theorem readingByCandle_close (c : Candle F) : readingByCandle c "close" = .num c.c := by rfl
theorem readingByCandle_volume (c : Candle F) : readingByCandle c "volume" = .num c.v := by rfl

/-- the fold of `pickScalar` returns one of the elements it saw -/
theorem pick_fold_mem (better : Num F → Num F → Bool) (xs : List (Scalar F)) (x : Scalar F) :
    xs.foldl (fun best y => if better (Mov.scalarNum y) (Mov.scalarNum best) then y else best) x ∈ x :: xs := by
  induction xs generalizing x with
  | nil => simp
  | cons y ys ih =>
    simp only [List.foldl_cons]
    have := ih (if better (Mov.scalarNum y) (Mov.scalarNum x) then y else x)
    rcases List.mem_cons.1 this with h | h
    · rw [h]; split_ifs <;> simp
    · simp [h]

theorem pickScalar_mem (better : Num F → Num F → Bool) (l : List (Scalar F)) (v : Scalar F)
    (h : Mov.pickScalar better l = some v) : v ∈ l := by
  cases l with
  | nil => simp [Mov.pickScalar] at h
  | cons x xs =>
    simp only [Mov.pickScalar, Option.some.injEq] at h
    rw [← h]; exact pick_fold_mem better xs x

/-- the candle at the active index is part of an `include_latest` window -/
theorem own_mem_cleanScalars (cs : List (Candle F)) (ind : String) (n i : Int) (c : Candle F) (v : Num F)
    (h0 : 0 ≤ i) (hn : 0 ≤ n) (hc : cs[i.toNat]? = some c) (hv : readingByCandle c ind = .num v) :
    Scalar.num v ∈ Mov.cleanScalars cs ind n i true := by
  have hlen : i.toNat < cs.length := by
    by_contra hh
    rw [List.getElem?_eq_none (by omega)] at hc; cases hc
  unfold Mov.cleanScalars
  simp only [if_true]
  rw [List.mem_filterMap]
  refine ⟨.num v, ?_, rfl⟩
  rw [List.mem_reverse, List.mem_map]
  refine ⟨c, ?_, hv⟩
  unfold pySlice
  set s : Int := if i - n < 0 then 0 else i - n with hs
  have hs0 : 0 ≤ s := by rw [hs]; split_ifs <;> omega
  have hsi : s ≤ i := by rw [hs]; split_ifs <;> omega
  have a1 : ¬ s < 0 := by omega
  have a2 : ¬ s > (cs.length : Int) := by omega
  have a3 : ¬ i + 1 < 0 := by omega
  have a4 : ¬ i + 1 > (cs.length : Int) := by omega
  have a5 : ¬ s ≥ i + 1 := by omega
  simp only [a1, a2, a3, a4, a5, if_false]
  rw [List.mem_iff_getElem?]
  refine ⟨(i - s).toNat, ?_⟩
  rw [List.getElem?_take_of_lt (by omega), List.getElem?_drop]
  have : s.toNat + (i - s).toNat = i.toNat := by omega
  rw [this]; exact hc

end

variable {K : Type} [Field K] [LinearOrder K] [IsStrictOrderedRing K] [LawfulPyF K]

theorem pick_fold_max (xs : List (Scalar K)) (x : Scalar K) :
    ∀ s ∈ x :: xs, (Mov.scalarNum s).toF ≤
      (Mov.scalarNum (xs.foldl (fun best y => if (Mov.scalarNum y).gt (Mov.scalarNum best) then y else best) x)).toF := by
  induction xs generalizing x with
  | nil => simp
  | cons y ys ih =>
    intro s hs
    simp only [List.foldl_cons]
    have hx : (Mov.scalarNum x).toF ≤
        (Mov.scalarNum (if (Mov.scalarNum y).gt (Mov.scalarNum x) then y else x)).toF := by
      by_cases h : (Mov.scalarNum y).gt (Mov.scalarNum x) = true
      · rw [if_pos h]; exact ((Num.gt_iff _ _).1 h).le
      · rw [if_neg h]
    have hy : (Mov.scalarNum y).toF ≤
        (Mov.scalarNum (if (Mov.scalarNum y).gt (Mov.scalarNum x) then y else x)).toF := by
      by_cases h : (Mov.scalarNum y).gt (Mov.scalarNum x) = true
      · rw [if_pos h]
      · rw [if_neg h]; simp only [Bool.not_eq_true] at h; exact (Num.gt_false_iff _ _).1 h
    have ih' := ih (if (Mov.scalarNum y).gt (Mov.scalarNum x) then y else x)
    rcases List.mem_cons.1 hs with rfl | hs
    · exact le_trans hx (ih' _ (by simp))
    · rcases List.mem_cons.1 hs with rfl | hs
      · exact le_trans hy (ih' _ (by simp))
      · exact ih' s (by simp [hs])

theorem pick_fold_min (xs : List (Scalar K)) (x : Scalar K) :
    ∀ s ∈ x :: xs,
      (Mov.scalarNum (xs.foldl (fun best y => if (Mov.scalarNum y).lt (Mov.scalarNum best) then y else best) x)).toF
        ≤ (Mov.scalarNum s).toF := by
  induction xs generalizing x with
  | nil => simp
  | cons y ys ih =>
    intro s hs
    simp only [List.foldl_cons]
    have hx : (Mov.scalarNum (if (Mov.scalarNum y).lt (Mov.scalarNum x) then y else x)).toF
        ≤ (Mov.scalarNum x).toF := by
      by_cases h : (Mov.scalarNum y).lt (Mov.scalarNum x) = true
      · rw [if_pos h]; exact ((Num.lt_iff _ _).1 h).le
      · rw [if_neg h]
    have hy : (Mov.scalarNum (if (Mov.scalarNum y).lt (Mov.scalarNum x) then y else x)).toF
        ≤ (Mov.scalarNum y).toF := by
      by_cases h : (Mov.scalarNum y).lt (Mov.scalarNum x) = true
      · rw [if_pos h]
      · rw [if_neg h]; simp only [Bool.not_eq_true] at h; exact (Num.lt_false_iff _ _).1 h
    have ih' := ih (if (Mov.scalarNum y).lt (Mov.scalarNum x) then y else x)
    rcases List.mem_cons.1 hs with rfl | hs
    · exact le_trans (ih' _ (by simp)) hx
    · rcases List.mem_cons.1 hs with rfl | hs
      · exact le_trans (ih' _ (by simp)) hy
      · exact ih' s (by simp [hs])

/-- **`movement.highest`** returns an element of the window that bounds the window from above -/
theorem highest_spec (cs : List (Candle K)) (ind : String) (n idx : Int) (u : Num K)
    (h : Mov.highest cs ind n idx = .ok (.num u)) :
    ∃ i, absIndex idx cs.length = some i ∧ Scalar.num u ∈ Mov.cleanScalars cs ind n i true ∧
      ∀ s ∈ Mov.cleanScalars cs ind n i true, (Mov.scalarNum s).toF ≤ u.toF := by
  unfold Mov.highest Mov.extreme at h
  cases hi : absIndex idx cs.length with
  | none => simp [hi] at h
  | some i =>
    simp only [hi] at h
    split_ifs at h with hg
    · simp at h
    · cases hp : Mov.pickScalar (fun y best => y.gt best) (Mov.cleanScalars cs ind n i true) with
      | none => simp [hp] at h
      | some v =>
        have hv : v = .num u := by
          rw [hp] at h
          cases v with
          | none => simpa using h
          | bool b => cases b <;> simp at h
          | num m => simpa using h
        subst hv
        refine ⟨i, rfl, pickScalar_mem _ _ _ hp, ?_⟩
        cases hl : Mov.cleanScalars cs ind n i true with
        | nil => simp
        | cons x xs =>
          rw [hl] at hp
          simp only [Mov.pickScalar, Option.some.injEq] at hp
          intro s hs
          have := pick_fold_max xs x s hs
          rw [hp] at this
          exact this

/-- **`movement.lowest`** returns an element of the window that bounds the window from below -/
theorem lowest_spec (cs : List (Candle K)) (ind : String) (n idx : Int) (l : Num K)
    (h : Mov.lowest cs ind n idx = .ok (.num l)) :
    ∃ i, absIndex idx cs.length = some i ∧ Scalar.num l ∈ Mov.cleanScalars cs ind n i true ∧
      ∀ s ∈ Mov.cleanScalars cs ind n i true, l.toF ≤ (Mov.scalarNum s).toF := by
  unfold Mov.lowest Mov.extreme at h
  cases hi : absIndex idx cs.length with
  | none => simp [hi] at h
  | some i =>
    simp only [hi] at h
    split_ifs at h with hg
    · simp at h
    · cases hp : Mov.pickScalar (fun y best => y.lt best) (Mov.cleanScalars cs ind n i true) with
      | none => simp [hp] at h
      | some v =>
        have hv : v = .num l := by
          rw [hp] at h
          cases v with
          | none => simpa using h
          | bool b => cases b <;> simp at h
          | num m => simpa using h
        subst hv
        refine ⟨i, rfl, pickScalar_mem _ _ _ hp, ?_⟩
        cases hl : Mov.cleanScalars cs ind n i true with
        | nil => simp
        | cons x xs =>
          rw [hl] at hp
          simp only [Mov.pickScalar, Option.some.injEq] at hp
          intro s hs
          have := pick_fold_min xs x s hs
          rw [hp] at this
          exact this

/-- **Donchian / HighestLowest enclose the candle's own high and low** -/
theorem extremes_enclose (x : Ctx K) (n : Int) (u l : Num K) (c : Candle K)
    (h0 : 0 ≤ x.i) (hn : 0 ≤ n) (hc : x.cs[x.i.toNat]? = some c)
    (hu : Mov.highest x.cs "high" n x.i = .ok (.num u))
    (hl : Mov.lowest x.cs "low" n x.i = .ok (.num l)) :
    c.h.toF ≤ u.toF ∧ l.toF ≤ c.l.toF := by
  have hlen : x.i.toNat < x.cs.length := by
    by_contra hh
    rw [List.getElem?_eq_none (by omega)] at hc; cases hc
  have habs : absIndex x.i x.cs.length = some x.i := by
    unfold absIndex validIndex
    have a : decide (x.i < (x.cs.length : Int)) = true := by simp; omega
    have b : decide (-(x.cs.length : Int) ≤ x.i) = true := by simp; omega
    have c' : ¬ x.i < 0 := by omega
    simp [a, b, c']
  obtain ⟨i, hi, _, hmax⟩ := highest_spec _ _ _ _ _ hu
  obtain ⟨j, hj, _, hmin⟩ := lowest_spec _ _ _ _ _ hl
  rw [habs] at hi hj
  cases hi; cases hj
  constructor
  · exact hmax _ (own_mem_cleanScalars x.cs "high" n x.i c c.h h0 hn hc (readingByCandle_high c))
  · exact hmin _ (own_mem_cleanScalars x.cs "low" n x.i c c.l h0 hn hc (readingByCandle_low c))

end Numeric
end Hex

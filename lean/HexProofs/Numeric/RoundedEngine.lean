import HexProofs.Writes.Engine
import HexProofs.Framework.Gen.Object
/-!
# "What is written under a name is rounded": an invariant of the calculation engine (property C10, last clause)

`HexProps/C10.lean` proves the rounding clause per call (`stored_rounded`: `round_values` is idempotent).  This
file proves it of the ENGINE: for an arbitrary tree `ind`, a target name `nm` and a predicate `Q` on readings that
holds of every value rounded to `r` decimals (`∀ v, Q (v.roundBy r)`), the six mutually recursive engine functions
(`calculate`, `calcLoop`, `calculateIndex`, `calcSubs`, `calcReading`, `setManagedReading`) keep

  "every value stored under `nm` – on `Candle.indicators` and on `Candle.sub_indicators` – satisfies `Q`"

provided the tree is `Safe nm r`:

* every node NAMED `nm` carries `round = r` (it is written by `calcLoop` / `calculateIndex`, which store
  `v.roundBy ind.round`), and if it is a MACD node it is top-level (`isSub = false`) – `MACD._calculate_reading`
  inserts a TEMPORARY UNROUNDED dict under its own name on `Candle.indicators`, which the final `_set_reading` at the
  same index overwrites only when the node writes to `Candle.indicators`;
* no node named `nm` is the target of a `Managed.set_reading` (those values are stored as they are – by design).

The invariant carries a set `S` of exempted `indicators` slots (positions) so that the temporary MACD insert can be
tracked: `calcReading` at index `i` may leave position `posOf i` exempted, the `_set_reading` that follows closes it.
-/
namespace Hex
set_option linter.unusedSectionVars false
set_option linter.unusedVariables false

/-! ### the nodes of a tree -/
section nodes
variable {F : Type}

mutual
  /-- every node of the tree: the node itself, its sub-indicators and managed indicators, recursively -/
  def Ind.nodes : Ind F → List (Ind F)
    | .mk k n r s p subs managed => .mk k n r s p subs managed :: (Ind.nodesL subs ++ Ind.nodesM managed)
  def Ind.nodesL : List (Ind F) → List (Ind F)
    | [] => []
    | s :: r => s.nodes ++ Ind.nodesL r
  def Ind.nodesM : List (String × Ind F) → List (Ind F)
    | [] => []
    | (_, m) :: r => m.nodes ++ Ind.nodesM r
end

@[simp] theorem Ind.nodesL_nil : Ind.nodesL ([] : List (Ind F)) = [] := by simp [Ind.nodesL]
@[simp] theorem Ind.nodesL_cons (s : Ind F) (r : List (Ind F)) : Ind.nodesL (s :: r) = s.nodes ++ Ind.nodesL r := by
  simp [Ind.nodesL]
@[simp] theorem Ind.nodesM_nil : Ind.nodesM ([] : List (String × Ind F)) = [] := by simp [Ind.nodesM]
@[simp] theorem Ind.nodesM_cons (p : String × Ind F) (r : List (String × Ind F)) :
    Ind.nodesM (p :: r) = p.2.nodes ++ Ind.nodesM r := by
  obtain ⟨k, m⟩ := p; simp [Ind.nodesM]

theorem Ind.nodes_eq (i : Ind F) : i.nodes = i :: (Ind.nodesL i.subs ++ Ind.nodesM i.managed) := by
  cases i; simp [Ind.nodes, Ind.subs, Ind.managed]

theorem Ind.self_mem_nodes (i : Ind F) : i ∈ i.nodes := by rw [Ind.nodes_eq]; simp

theorem Ind.nodesL_eq_flatMap (l : List (Ind F)) : Ind.nodesL l = l.flatMap Ind.nodes := by
  induction l with
  | nil => simp
  | cons s r ih => simp [ih]

theorem Ind.nodesM_eq_flatMap (l : List (String × Ind F)) : Ind.nodesM l = l.flatMap (fun p => p.2.nodes) := by
  induction l with
  | nil => simp
  | cons s r ih => simp [ih]

theorem Ind.nodes_of_sub {i s : Ind F} (h : s ∈ i.subs) : ∀ n, n ∈ s.nodes → n ∈ i.nodes := by
  intro n hn
  rw [Ind.nodes_eq i, Ind.nodesL_eq_flatMap]
  exact List.mem_cons_of_mem _ (List.mem_append_left _ (List.mem_flatMap.2 ⟨s, h, hn⟩))

theorem Ind.nodes_of_managed {i m : Ind F} {key : String} (h : i.getManaged key = .ok m) :
    ∀ n, n ∈ m.nodes → n ∈ i.nodes := by
  intro n hn
  unfold Ind.getManaged at h
  split at h
  · rename_i m' hm; cases h
    rw [Ind.nodes_eq i, Ind.nodesM_eq_flatMap]
    exact List.mem_cons_of_mem _ (List.mem_append_right _
      (List.mem_flatMap.2 ⟨(key, m), Writes.dlookup_mem hm, hn⟩))
  · cases h

end nodes

variable {F : Type} [PyF F]

/-! ### which helpers a kind hands values to (`Managed.set_reading`) -/

/-- the key of the managed indicator that `_calculate_reading` of the kind calls `set_reading` on -/
def setKeys : Kind F → List String
  | .stdev _ _ => ["STDEV_data"]
  | .supertrend _ _ _ => ["ST_data"]
  | .rsi _ _ => ["RSI_data"]
  | .stoch _ _ _ _ => ["STOCH_data"]
  | .tsi _ _ _ => ["TSI_data"]
  | .adx _ _ => ["ADX_data"]
  | .vwap _ => ["VWAP_data"]
  | .hma _ _ => ["raw_HMA"]
  | _ => []

def isMacd : Kind F → Bool
  | .macd _ _ _ _ => true
  | _ => false

/-- what the invariant needs of ONE node -/
def NodeOK (nm : String) (r : Nat) (n : Ind F) : Prop :=
  (n.name = nm → n.round = r ∧ (isMacd n.kind = true → n.isSub = false)) ∧
  (∀ key ∈ setKeys n.kind, ∀ m, n.getManaged key = .ok m → m.name ≠ nm)

/-- **the tree only writes rounded values under `nm`**: every node named `nm` rounds to `r` decimals (and is
top-level if it is a MACD), and no `Managed.set_reading` target is named `nm` -/
def Safe (nm : String) (r : Nat) (ind : Ind F) : Prop := ∀ n ∈ ind.nodes, NodeOK nm r n

theorem Safe.self {nm : String} {r : Nat} {ind : Ind F} (h : Safe nm r ind) : NodeOK nm r ind :=
  h ind ind.self_mem_nodes

theorem Safe.sub {nm : String} {r : Nat} {ind s : Ind F} (h : Safe nm r ind) (hs : s ∈ ind.subs) : Safe nm r s :=
  fun n hn => h n (Ind.nodes_of_sub hs n hn)

theorem Safe.managed {nm : String} {r : Nat} {ind m : Ind F} {key : String} (h : Safe nm r ind)
    (hm : ind.getManaged key = .ok m) : Safe nm r m :=
  fun n hn => h n (Ind.nodes_of_managed hm n hn)

/-! ### the invariant -/
section inv
variable (nm : String) (Q : Val F → Prop)

/-- every reading stored under `nm` on `Candle.indicators` satisfies `Q` -/
def PI (c : Candle F) : Prop := ∀ v, dlookup nm c.inds = some v → Q v
/-- … on `Candle.sub_indicators` -/
def PS (c : Candle F) : Prop := ∀ v, dlookup nm c.subs = some v → Q v

/-- the invariant, with the `indicators` slots at the positions in `S` exempted -/
def InvOn (S : Nat → Prop) (cs : List (Candle F)) : Prop :=
  ∀ j c, cs[j]? = some c → PS nm Q c ∧ (¬ S j → PI nm Q c)

/-- the position a Python index denotes in a list of length `n` -/
def posOf (i : Int) (n : Nat) : Nat := (if i < 0 then (n : Int) + i else i).toNat

variable {nm Q}

theorem InvOn.mono {S S' : Nat → Prop} {cs : List (Candle F)} (h : InvOn nm Q S cs) (hS : ∀ j, S j → S' j) :
    InvOn nm Q S' cs :=
  fun j c hc => ⟨(h j c hc).1, fun hn => (h j c hc).2 (fun hs => hn (hS j hs))⟩

theorem InvOn.modify {S S' : Nat → Prop} {cs : List (Candle F)} (p : Nat) (f : Candle F → Candle F)
    (h : InvOn nm Q S cs)
    (hp : ∀ c, PS nm Q c → (¬ S p → PI nm Q c) → PS nm Q (f c) ∧ (¬ S' p → PI nm Q (f c)))
    (hS : ∀ j, j ≠ p → S j → S' j) : InvOn nm Q S' (cs.modify p f) := by
  intro j c hc
  rw [List.getElem?_modify] at hc
  cases hj : cs[j]? with
  | none => rw [hj] at hc; cases hc
  | some a =>
    rw [hj] at hc
    simp only [Option.map_eq_map, Option.map_some, Option.some.injEq] at hc
    by_cases hpj : p = j
    · subst hpj
      rw [if_pos rfl] at hc; subst hc
      exact hp a (h p a hj).1 (h p a hj).2
    · rw [if_neg hpj] at hc; subst hc
      exact ⟨(h j a hj).1, fun hn => (h j a hj).2 (fun hs => hn (hS j (fun e => hpj e.symm) hs))⟩

theorem updateAt_eq (cs cs' : List (Candle F)) (i : Int) (f : Candle F → Candle F)
    (h : updateAt cs i f = .ok cs') : cs' = cs.modify (posOf i cs.length) f := by
  unfold updateAt at h
  unfold posOf
  dsimp only at h
  generalize (if i < 0 then (cs.length : Int) + i else i) = j at h ⊢
  by_cases hc : j < 0 ∨ j ≥ cs.length
  · rw [if_pos hc] at h; cases h
  · rw [if_neg hc] at h; cases h; rfl

/-- a write under ANOTHER name keeps the invariant -/
theorem InvOn.setOther {S : Nat → Prop} {cs cs' : List (Candle F)} (h : InvOn nm Q S cs) (isSub : Bool)
    (n : String) (hn : n ≠ nm) (i : Int) (v : Val F) (hw : setReading isSub n cs i v = .ok cs') :
    InvOn nm Q S cs' := by
  unfold setReading at hw
  rw [updateAt_eq cs cs' i _ hw]
  refine h.modify _ _ (fun c h1 h2 => ?_) (fun j _ hs => hs)
  cases isSub
  · refine ⟨h1, fun hs v' hv => h2 hs v' ?_⟩
    simpa [dlookup_dset, hn] using hv
  · refine ⟨fun v' hv => h1 v' ?_, h2⟩
    simpa [dlookup_dset, hn] using hv

/-- the temporary insert of MACD under ANOTHER name keeps the invariant -/
theorem InvOn.tmpOther {S : Nat → Prop} {cs cs' : List (Candle F)} (h : InvOn nm Q S cs)
    (n : String) (hn : n ≠ nm) (i : Int) (v : Val F)
    (hw : updateAt cs i (fun c => { c with inds := dset n v c.inds }) = .ok cs') : InvOn nm Q S cs' :=
  h.setOther false n hn i v (by simpa [setReading] using hw)

/-- a write of a `Q` value under `nm` keeps the invariant; on `Candle.indicators` it closes the exemption at its
position -/
theorem InvOn.setOwn {S : Nat → Prop} {cs cs' : List (Candle F)} (isSub : Bool) (i : Int) (v : Val F) (hv : Q v)
    (h : InvOn nm Q (fun j => S j ∨ (isSub = false ∧ j = posOf i cs.length)) cs)
    (hw : setReading isSub nm cs i v = .ok cs') : InvOn nm Q S cs' := by
  unfold setReading at hw
  rw [updateAt_eq cs cs' i _ hw]
  refine h.modify _ _ (fun c h1 h2 => ?_) (fun j hj hs => ?_)
  · cases isSub
    · refine ⟨h1, fun _ v' hv' => ?_⟩
      simp only [Bool.false_eq_true, if_false, dlookup_dset, if_true] at hv'
      cases hv'; exact hv
    · refine ⟨fun v' hv' => ?_, fun hs => h2 (fun hc => ?_)⟩
      · simp only [if_true, dlookup_dset] at hv'
        cases hv'; exact hv
      · rcases hc with hc | ⟨hc, _⟩
        · exact hs hc
        · cases hc
  · rcases hs with hs | ⟨_, hs⟩
    · exact hs
    · exact absurd hs hj

/-- the temporary insert of MACD under `nm` itself: the slot becomes exempted -/
theorem InvOn.tmpOwn {S : Nat → Prop} {cs cs' : List (Candle F)} (h : InvOn nm Q S cs) (i : Int) (v : Val F)
    (hw : updateAt cs i (fun c => { c with inds := dset nm v c.inds }) = .ok cs') :
    InvOn nm Q (fun j => S j ∨ j = posOf i cs.length) cs' := by
  rw [updateAt_eq cs cs' i _ hw]
  exact h.modify _ _ (fun c h1 _ => ⟨h1, fun hs => absurd (Or.inr rfl) hs⟩) (fun j _ hs => Or.inl hs)

end inv
end Hex

namespace Hex
set_option linter.unusedSectionVars false
set_option linter.unusedVariables false
variable {F : Type}

/-! ### `_calculate_reading` of every kind keeps any invariant its services keep -/

/-- every successful result of `m` carries candles that satisfy `J` -/
def TracksJ (J : List (Candle F) → Prop) (m : PyM (Val F × List (Candle F))) : Prop :=
  ∀ v cs', m = .ok (v, cs') → J cs'

namespace TracksJ
variable {J : List (Candle F) → Prop}

theorem pure' {v : Val F} {cs : List (Candle F)} (h : J cs) : TracksJ J (pure (v, cs)) := by
  intro v' cs' e; cases e; exact h

theorem bind {α : Type} (m : PyM α) (f : α → PyM (Val F × List (Candle F)))
    (hf : ∀ a, TracksJ J (f a)) : TracksJ J (m >>= f) := by
  intro v cs' e
  cases m with
  | error err => cases e
  | ok a => exact hf a v cs' e

theorem bindW (m : PyM (List (Candle F))) (f : List (Candle F) → PyM (Val F × List (Candle F)))
    (hm : ∀ a, m = .ok a → J a) (hf : ∀ a, J a → TracksJ J (f a)) : TracksJ J (m >>= f) := by
  intro v cs' e
  cases m with
  | error err => cases e
  | ok a => exact hf a (hm a rfl) v cs' e

theorem ite {c : Prop} [Decidable c] {a b : PyM (Val F × List (Candle F))}
    (ha : TracksJ J a) (hb : TracksJ J b) : TracksJ J (if c then a else b) := by
  split <;> assumption

theorem error {e : PyErr} : TracksJ J (Except.error e : PyM (Val F × List (Candle F))) := by
  intro v cs' h; cases h

end TracksJ

/-- one step of the syntactic walk through a `_calculate_reading` body; `hset` / `hcalc` say that the two
services keep `J` (`hset` for the ONE key the body uses) -/
macro "trackJ_step" hset:ident hcalc:ident : tactic => `(tactic| first
  | exact TracksJ.error
  | (apply TracksJ.pure'; assumption)
  | (refine TracksJ.bindW _ _ (fun a e => $hset _ _ a (by assumption) e) (fun _ _ => ?_))
  | (refine TracksJ.bindW _ _ (fun a e => $hcalc _ _ a (by assumption) e) (fun _ _ => ?_))
  | (refine TracksJ.bind _ _ (fun _ => ?_))
  | (refine TracksJ.ite ?_ ?_)
  | (split))

macro "trackJ_all" hset:ident hcalc:ident : tactic => `(tactic| (
  repeat (first | trackJ_step $hset $hcalc | (dsimp only; trackJ_step $hset $hcalc))))

variable [PyF F] {J : List (Candle F) → Prop} {ops : Ops F}

theorem Calc.hma_tracksJ (x : Ctx F)
    (hset : ∀ v cs cs', J cs → ops.setManaged "raw_HMA" v cs = .ok cs' → J cs')
    (hcalc : ∀ key cs cs', J cs → ops.calcManaged key cs = .ok cs' → J cs') (h0 : J x.cs) :
    TracksJ J (Calc.hma ops x) := by
  unfold Calc.hma
  trackJ_all hset hcalc

theorem Calc.stdev_tracksJ (x : Ctx F) (p : Int) (input : String)
    (hset : ∀ v cs cs', J cs → ops.setManaged "STDEV_data" v cs = .ok cs' → J cs')
    (hcalc : ∀ key cs cs', J cs → ops.calcManaged key cs = .ok cs' → J cs') (h0 : J x.cs) :
    TracksJ J (Calc.stdev ops x p input) := by
  unfold Calc.stdev
  trackJ_all hset hcalc

theorem Calc.supertrend_tracksJ (x : Ctx F) (m : Num F)
    (hset : ∀ v cs cs', J cs → ops.setManaged "ST_data" v cs = .ok cs' → J cs')
    (hcalc : ∀ key cs cs', J cs → ops.calcManaged key cs = .ok cs' → J cs') (h0 : J x.cs) :
    TracksJ J (Calc.supertrend ops x m) := by
  unfold Calc.supertrend
  trackJ_all hset hcalc

theorem Calc.rsi_tracksJ (x : Ctx F) (p : Int) (input : String)
    (hset : ∀ v cs cs', J cs → ops.setManaged "RSI_data" v cs = .ok cs' → J cs')
    (hcalc : ∀ key cs cs', J cs → ops.calcManaged key cs = .ok cs' → J cs') (h0 : J x.cs) :
    TracksJ J (Calc.rsi ops x p input) := by
  unfold Calc.rsi
  trackJ_all hset hcalc

theorem Calc.stoch_tracksJ (x : Ctx F) (p : Int) (input : String)
    (hset : ∀ v cs cs', J cs → ops.setManaged "STOCH_data" v cs = .ok cs' → J cs')
    (hcalc : ∀ key cs cs', J cs → ops.calcManaged key cs = .ok cs' → J cs') (h0 : J x.cs) :
    TracksJ J (Calc.stoch ops x p input) := by
  unfold Calc.stoch
  trackJ_all hset hcalc

theorem Calc.vwap_tracksJ (x : Ctx F)
    (hset : ∀ v cs cs', J cs → ops.setManaged "VWAP_data" v cs = .ok cs' → J cs')
    (hcalc : ∀ key cs cs', J cs → ops.calcManaged key cs = .ok cs' → J cs') (h0 : J x.cs) :
    TracksJ J (Calc.vwap ops x) := by
  unfold Calc.vwap
  trackJ_all hset hcalc

theorem Calc.tsi_tracksJ (x : Ctx F) (input : String)
    (hset : ∀ v cs cs', J cs → ops.setManaged "TSI_data" v cs = .ok cs' → J cs')
    (hcalc : ∀ key cs cs', J cs → ops.calcManaged key cs = .ok cs' → J cs') (h0 : J x.cs) :
    TracksJ J (Calc.tsi ops x input) := by
  unfold Calc.tsi
  trackJ_all hset hcalc

theorem Calc.adx_tracksJ (x : Ctx F)
    (hset : ∀ v cs cs', J cs → ops.setManaged "ADX_data" v cs = .ok cs' → J cs')
    (hcalc : ∀ key cs cs', J cs → ops.calcManaged key cs = .ok cs' → J cs') (h0 : J x.cs) :
    TracksJ J (Calc.adx ops x) := by
  unfold Calc.adx
  trackJ_all hset hcalc

/-- MACD additionally inserts a temporary (UNROUNDED) reading under its OWN name, on `Candle.indicators`, at the
active index, before it calls the signal helper -/
theorem Calc.macd_tracksJ (x : Ctx F)
    (htmp : ∀ v cs', J x.cs → updateAt x.cs x.i (fun c => { c with inds := dset x.name v c.inds }) = .ok cs' → J cs')
    (hcalc : ∀ key cs cs', J cs → ops.calcManaged key cs = .ok cs' → J cs') (h0 : J x.cs) :
    TracksJ J (Calc.macd ops x) := by
  unfold Calc.macd
  repeat (first
    | (refine TracksJ.bindW (updateAt _ _ _) _ (fun a e => htmp _ a h0 e) (fun _ _ => ?_))
    | trackJ_step hcalc hcalc | (dsimp only; trackJ_step hcalc hcalc))

omit [PyF F] in
theorem tracksJ_pure (x : Ctx F) (r : PyM (Val F)) (h0 : J x.cs) :
    TracksJ J (do let v ← r; return (v, x.cs)) := by
  intro v cs' e
  cases r with
  | error err => cases e
  | ok a => cases e; exact h0

/-- **`_calculate_reading` of every kind keeps every invariant `J` of the candles that its two services keep**
(`Managed.set_reading` under the keys `setKeys kind`, `calculate_index` of a managed indicator) and that – MACD
only – the temporary insert under the own name keeps. -/
theorem calcKind_inv (ind : Ind F) (x : Ctx F)
    (hset : ∀ key ∈ setKeys ind.kind, ∀ v cs cs', J cs → ops.setManaged key v cs = .ok cs' → J cs')
    (hcalc : ∀ key cs cs', J cs → ops.calcManaged key cs = .ok cs' → J cs')
    (htmp : isMacd ind.kind = true → ∀ v cs', J x.cs →
      updateAt x.cs x.i (fun c => { c with inds := dset x.name v c.inds }) = .ok cs' → J cs')
    (h0 : J x.cs) (v : Val F) (cs' : List (Candle F)) (h : calcKind ops ind x = .ok (v, cs')) : J cs' := by
  revert v cs'
  show TracksJ J (calcKind ops ind x)
  unfold calcKind
  dsimp only
  split
  all_goals first
    | exact tracksJ_pure x _ h0
    | exact Calc.hma_tracksJ x (by rename_i hk; exact hset _ (by simp [setKeys, hk])) hcalc h0
    | exact Calc.stdev_tracksJ x _ _ (by rename_i hk; exact hset _ (by simp [setKeys, hk])) hcalc h0
    | exact Calc.supertrend_tracksJ x _ (by rename_i hk; exact hset _ (by simp [setKeys, hk])) hcalc h0
    | exact Calc.rsi_tracksJ x _ _ (by rename_i hk; exact hset _ (by simp [setKeys, hk])) hcalc h0
    | exact Calc.macd_tracksJ x (by rename_i hk; exact htmp (by simp [isMacd, hk])) hcalc h0
    | exact Calc.stoch_tracksJ x _ _ (by rename_i hk; exact hset _ (by simp [setKeys, hk])) hcalc h0
    | exact Calc.tsi_tracksJ x _ (by rename_i hk; exact hset _ (by simp [setKeys, hk])) hcalc h0
    | exact Calc.adx_tracksJ x (by rename_i hk; exact hset _ (by simp [setKeys, hk])) hcalc h0
    | exact Calc.vwap_tracksJ x (by rename_i hk; exact hset _ (by simp [setKeys, hk])) hcalc h0
    | (intro v cs' e; cases e; exact h0)

end Hex

namespace Hex
set_option linter.unusedSectionVars false
set_option linter.unusedVariables false
variable {F : Type} [PyF F]

/-! ### the engine keeps the invariant -/

theorem StripEq.len {N : List String} {cs cs' : List (Candle F)} (h : StripEq N cs cs') : cs'.length = cs.length := by
  have := congrArg List.length h
  simpa using this.symm

section engine
variable (nm : String) (r : Nat) (Q : Val F → Prop)

/-- the six statements proved together by induction on the fuel -/
structure EngineRounded (f : Nat) : Prop where
  calculate : ∀ (ind : Ind F) cs cs' (S : Nat → Prop), Safe nm r ind → InvOn nm Q S cs →
    calculate f ind cs = .ok cs' → InvOn nm Q S cs'
  calcLoop : ∀ (ind : Ind F) cs k n cs' (S : Nat → Prop), Safe nm r ind → InvOn nm Q S cs →
    calcLoop f ind cs k n = .ok cs' → InvOn nm Q S cs'
  calculateIndex : ∀ (ind : Ind F) cs s e cs' (S : Nat → Prop), Safe nm r ind → InvOn nm Q S cs →
    calculateIndex f ind cs s e = .ok cs' → InvOn nm Q S cs'
  calcSubs : ∀ (subs : List (Ind F)) prior range cs cs' (S : Nat → Prop), (∀ s ∈ subs, Safe nm r s) →
    InvOn nm Q S cs → calcSubs f subs prior range cs = .ok cs' → InvOn nm Q S cs'
  calcReading : ∀ (ind : Ind F) cs i v cs' (S : Nat → Prop), Safe nm r ind → InvOn nm Q S cs →
    calcReading f ind cs i = .ok (v, cs') →
    InvOn nm Q (fun j => S j ∨ (ind.name = nm ∧ ind.isSub = false ∧ j = posOf i cs.length)) cs'
  setManagedReading : ∀ (m : Ind F) cs i v cs' (S : Nat → Prop), m.name ≠ nm → (∀ s ∈ m.subs, Safe nm r s) →
    InvOn nm Q S cs → setManagedReading f m cs i v = .ok cs' → InvOn nm Q S cs'

variable {nm r Q}

/-- one `_calculate_reading` + `_set_reading` of the rounded value -/
theorem readSet_inv (hQ : ∀ v : Val F, Q (v.roundBy r)) {f : Nat} (ih : EngineRounded nm r Q f) (ind : Ind F)
    (cs cs1 cs' : List (Candle F)) (i : Int) (v : Val F) (S : Nat → Prop) (hsafe : Safe nm r ind)
    (h0 : InvOn nm Q S cs) (h1 : Hex.calcReading f ind cs i = .ok (v, cs1))
    (h2 : setReading ind.isSub ind.name cs1 i (v.roundBy ind.round) = .ok cs') : InvOn nm Q S cs' := by
  have hlen : cs1.length = cs.length := (calcReading_stripEq f ind cs cs1 i v h1).len
  have h := ih.calcReading ind cs i v cs1 S hsafe h0 h1
  by_cases hn : ind.name = nm
  · have hr : ind.round = r := (hsafe.self.1 hn).1
    rw [hn, hr] at h2
    refine InvOn.setOwn ind.isSub i _ (hQ v) (h.mono fun j hj => ?_) h2
    rcases hj with hj | ⟨_, hs, hj⟩
    · exact Or.inl hj
    · exact Or.inr ⟨hs, by rw [hlen]; exact hj⟩
  · exact (h.mono fun j hj => hj.elim id (fun hh => absurd hh.1 hn)).setOther ind.isSub ind.name hn i _ h2

theorem foldlM_inv {α : Type} {J : List (Candle F) → Prop} (step : List (Candle F) → α → PyM (List (Candle F)))
    (hstep : ∀ cs a cs', J cs → step cs a = .ok cs' → J cs') :
    ∀ (l : List α) (cs cs' : List (Candle F)), J cs → l.foldlM step cs = .ok cs' → J cs' := by
  intro l
  induction l with
  | nil => intro cs cs' h0 h; simp [List.foldlM, pure, Except.pure] at h; subst h; exact h0
  | cons a r ih =>
    intro cs cs' h0 h
    rw [List.foldlM_cons] at h
    obtain ⟨cs1, h1, h2⟩ := Writes.bind_ok h
    exact ih cs1 cs' (hstep cs a cs1 h0 h1) h2

/-- **The engine only stores `Q` values under `nm`**, for every tree that is `Safe nm r`, when `Q` holds of every
value rounded to `r` decimals. -/
theorem engineRounded (hQ : ∀ v : Val F, Q (v.roundBy r)) : ∀ f : Nat, EngineRounded (F := F) nm r Q f := by
  intro f
  induction f with
  | zero =>
    refine ⟨?_, ?_, ?_, ?_, ?_, ?_⟩
    · intro ind cs cs' S _ _ h; simp [Hex.calculate] at h
    · intro ind cs k n cs' S _ _ h; simp [Hex.calcLoop] at h
    · intro ind cs s e cs' S _ _ h; simp [Hex.calculateIndex] at h
    · intro subs prior range cs cs' S _ _ h; simp [Hex.calcSubs] at h
    · intro ind cs i v cs' S _ _ h; simp [Hex.calcReading] at h
    · intro m cs i v cs' S _ _ _ h; simp [Hex.setManagedReading] at h
  | succ f ih =>
    refine ⟨?_, ?_, ?_, ?_, ?_, ?_⟩
    · -- calculate
      intro ind cs cs' S hsafe h0 h
      rw [Hex.calculate] at h
      obtain ⟨cs1, h1, h⟩ := Writes.bind_ok h
      obtain ⟨cs2, h2, h3⟩ := Writes.bind_ok h
      have hsubs : ∀ s ∈ ind.subs, Safe nm r s := fun s hs => hsafe.sub hs
      exact ih.calcSubs _ _ _ _ _ S hsubs
        (ih.calcLoop _ _ _ _ _ S hsafe (ih.calcSubs _ _ _ _ _ S hsubs h0 h1) h2) h3
    · -- calcLoop
      intro ind cs k n cs' S hsafe h0 h
      cases n with
      | zero =>
        rw [Hex.calcLoop] at h
        · cases h; exact h0
        · simp
      | succ n =>
        rw [Hex.calcLoop] at h
        obtain ⟨c, _, h⟩ := Writes.bind_ok h
        dsimp only at h
        repeat' (split at h)
        all_goals first
          | (obtain ⟨cs1, h1, h2⟩ := Writes.bind_ok h
             cases h1
             exact ih.calcLoop _ _ _ _ _ S hsafe h0 h2)
          | (obtain ⟨⟨v, cs1⟩, h1, h⟩ := Writes.bind_ok h
             obtain ⟨cs2, h2, h3⟩ := Writes.bind_ok h
             exact ih.calcLoop _ _ _ _ _ S hsafe (readSet_inv hQ ih ind cs cs1 cs2 k v S hsafe h0 h1 h2) h3)
    · -- calculateIndex
      intro ind cs s e cs' S hsafe h0 h
      rw [Hex.calculateIndex] at h
      obtain ⟨cs1, h1, h⟩ := Writes.bind_ok h
      obtain ⟨cs2, h2, h3⟩ := Writes.bind_ok h
      have hsubs : ∀ s ∈ ind.subs, Safe nm r s := fun s hs => hsafe.sub hs
      refine ih.calcSubs _ _ _ _ _ S hsubs ?_ h3
      refine foldlM_inv _ (fun cs i cs' hj hh => ?_) _ _ _ (ih.calcSubs _ _ _ _ _ S hsubs h0 h1) h2
      obtain ⟨⟨v, cs1⟩, hh1, hh2⟩ := Writes.bind_ok hh
      exact readSet_inv hQ ih ind cs cs1 cs' i v S hsafe hj hh1 hh2
    · -- calcSubs
      intro subs prior range cs cs' S hsafe h0 h
      cases subs with
      | nil =>
        rw [Hex.calcSubs] at h
        · cases h; exact h0
        · simp
      | cons s rest =>
        simp only [Hex.calcSubs] at h
        have hs : ∃ cs1, InvOn nm Q S cs1 ∧ Hex.calcSubs f rest prior range cs1 = .ok cs' := by
          have hss : Safe nm r s := hsafe s (by simp)
          repeat' (split at h)
          all_goals (obtain ⟨cs1, h1, h2⟩ := Writes.bind_ok h; refine ⟨cs1, ?_, h2⟩)
          all_goals first
            | exact ih.calculateIndex _ _ _ _ _ S hss h0 h1
            | exact ih.calculate _ _ _ S hss h0 h1
            | (cases h1; exact h0)
        obtain ⟨cs1, hs, h2⟩ := hs
        exact ih.calcSubs _ _ _ _ _ S (fun t ht => hsafe t (by simp [ht])) hs h2
    · -- calcReading
      intro ind cs i v cs' S hsafe h0 h
      rw [Hex.calcReading] at h
      refine calcKind_inv (J := InvOn nm Q (fun j => S j ∨ (ind.name = nm ∧ ind.isSub = false ∧ j = posOf i cs.length)))
        ind _ ?_ ?_ ?_ (h0.mono fun j hj => Or.inl hj) v cs' h
      · intro key hkey v cs cs' hj hh
        obtain ⟨m, hm, hh⟩ := Writes.bind_ok hh
        exact ih.setManagedReading m cs i v cs' _ (hsafe.self.2 key hkey m hm)
          (fun s hs => (hsafe.managed hm).sub hs) hj hh
      · intro key cs cs' hj hh
        obtain ⟨m, hm, hh⟩ := Writes.bind_ok hh
        exact ih.calculateIndex m cs i (i + 1) cs' _ (hsafe.managed hm) hj hh
      · intro hmacd v cs' hj hh
        dsimp only at hh hj ⊢
        by_cases hn : ind.name = nm
        · have hsub : ind.isSub = false := (hsafe.self.1 hn).2 hmacd
          rw [hn] at hh
          exact (hj.tmpOwn i v hh).mono fun j hjj => hjj.elim id (fun e => Or.inr ⟨hn, hsub, e⟩)
        · exact hj.tmpOther ind.name hn i v hh
    · -- setManagedReading
      intro m cs i v cs' S hne hsubs h0 h
      rw [Hex.setManagedReading] at h
      obtain ⟨cs1, h1, h⟩ := Writes.bind_ok h
      obtain ⟨cs2, h2, h3⟩ := Writes.bind_ok h
      exact ih.calcSubs _ _ _ _ _ S hsubs
        ((ih.calcSubs _ _ _ _ _ S hsubs h0 h1).setOther m.isSub m.name hne i v h2) h3

end engine

/-- every stored reading under `nm` satisfies `Q` (nothing exempted) -/
def AllStored (nm : String) (Q : Val F → Prop) (cs : List (Candle F)) : Prop :=
  ∀ c ∈ cs, PI nm Q c ∧ PS nm Q c

theorem allStored_iff (nm : String) (Q : Val F → Prop) (cs : List (Candle F)) :
    AllStored nm Q cs ↔ InvOn nm Q (fun _ => False) cs := by
  constructor
  · intro h j c hc
    have := h c (List.mem_of_getElem? hc)
    exact ⟨this.2, fun _ => this.1⟩
  · intro h c hc
    obtain ⟨j, hj, rfl⟩ := List.mem_iff_getElem.1 hc
    have := h j _ (List.getElem?_eq_getElem hj)
    exact ⟨this.2 (fun h => h), this.1⟩

theorem allStored_plain (nm : String) (Q : Val F → Prop) (cs : List (Candle F)) (h : ∀ c ∈ cs, Plain c) :
    AllStored nm Q cs := by
  intro c hc
  obtain ⟨hi, hs⟩ := h c hc
  exact ⟨fun v hv => (by rw [hi] at hv; cases hv), fun v hv => (by rw [hs] at hv; cases hv)⟩

/-- **`calculate()` of the engine only stores `Q` values under `nm`** -/
theorem engineCalc_allStored {nm : String} {r : Nat} {Q : Val F → Prop} (hQ : ∀ v : Val F, Q (v.roundBy r))
    (ind : Ind F) (hsafe : Safe nm r ind) (cs cs' : List (Candle F)) (h0 : AllStored nm Q cs)
    (h : engineCalc ind cs = .ok cs') : AllStored nm Q cs' :=
  (allStored_iff nm Q cs').2
    ((engineRounded hQ _).calculate ind cs cs' _ hsafe ((allStored_iff nm Q cs).1 h0) h)

end Hex

#print axioms Hex.engineRounded
#print axioms Hex.engineCalc_allStored
